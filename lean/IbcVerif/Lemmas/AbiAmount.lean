import IbcVerif.Model.AbiAmount
import IbcVerif.Lemmas.Dec
namespace IbcVerif.Abi
open IbcVerif

theorem digitVal_of_isDigit (c : Char) (h : c.isDigit = true) : digitVal c = c.toNat - '0'.toNat ∧ digitVal c < 10 ∧ c ≠ '_' := by
  have h' : 48 ≤ c.val ∧ c.val ≤ 57 := by simpa [Char.isDigit] using h
  have h1 : '0' ≤ c ∧ c ≤ '9' := by
    constructor
    · show '0'.val ≤ c.val; exact h'.1
    · show c.val ≤ '9'.val; exact h'.2
  have hle : c.toNat ≤ 57 := by
    have := UInt32.le_iff_toNat_le.mp h'.2
    exact this
  have hge : 48 ≤ c.toNat := by
    have := UInt32.le_iff_toNat_le.mp h'.1
    exact this
  have h0 : '0'.toNat = 48 := rfl
  refine ⟨by simp [digitVal, h1], ?_, ?_⟩
  · simp only [digitVal, h1, and_self, if_true]
    omega
  · intro he; subst he; exact absurd h (by decide)

theorem scanLoop_digits (ds : List Char) (hall : ds.all Char.isDigit = true) (pd : Bool) (count acc : Nat) :
    scanLoop 10 false ds pd false false count acc =
      if count + ds.length = 0 then none else some (Nat.ofDigitChars 10 ds acc) := by
  induction ds generalizing pd count acc with
  | nil => simp [scanLoop]
  | cons c cs ih =>
    simp only [List.all_cons, Bool.and_eq_true] at hall
    obtain ⟨hv, hlt, hne⟩ := digitVal_of_isDigit c hall.1
    rw [scanLoop, if_neg hne, if_neg (by omega), ih hall.2]
    simp only [List.length_cons]
    rw [if_neg (by omega), if_neg (by omega)]
    congr 1
    simp only [Nat.ofDigitChars_eq_foldl, List.foldl_cons]
    rw [hv, Nat.mul_comm]

theorem dec_head_ne_zero (n : Nat) (hn : 0 < n) : ∃ c cs, dec n = c :: cs ∧ c ≠ '0' := by
  induction n using Nat.strongRecOn with
  | _ n ih =>
    by_cases h : n < 10
    · refine ⟨n.digitChar, [], ?_, ?_⟩
      · simp [dec, Nat.toDigits_of_lt_base h]
      · intro he; have := Nat.digitChar_eq_zero.mp he; omega
    · have hdiv : 0 < n / 10 := by omega
      obtain ⟨c, cs, hcs, hc⟩ := ih (n / 10) (by omega) hdiv
      refine ⟨c, cs ++ [(n % 10).digitChar], ?_, hc⟩
      simp only [dec] at hcs ⊢
      rw [Nat.toDigits_of_base_le (by decide) (by omega), hcs]
      rfl

/-- the base-0 reader returns `n` on the canonical decimal spelling of `n` -/
theorem scan0_dec (n : Nat) : scan0 (dec n) = some n := by
  by_cases hn : n = 0
  · subst hn; simp [dec, Nat.toDigits_zero, scan0]
  · obtain ⟨c, cs, hcs, hc⟩ := dec_head_ne_zero n (by omega)
    have hall := dec_all_digits n
    have hval : Nat.ofDigitChars 10 (dec n) 0 = n := by simp [dec]
    rw [hcs] at hall hval ⊢
    have : scan0 (c :: cs) = scanLoop 10 false (c :: cs) false false false 0 0 := by
      unfold scan0
      split
      · rename_i heq; injection heq with h1 h2; exact absurd h1 hc
      · rename_i heq; injection heq with h1 h2; exact absurd h1 hc
      · rfl
    rw [this, scanLoop_digits _ hall, if_neg (by simp), hval]

theorem parseBig0_dec (n : Nat) : parseBig0 (dec n) = some (false, n) := by
  have hne := dec_ne_nil n
  have hall := dec_all_digits n
  cases hd : dec n with
  | nil => exact absurd hd hne
  | cons c cs =>
    rw [hd] at hall
    have hc : c.isDigit = true := by simp at hall; exact hall.1
    have h1 : c ≠ '+' := by intro h; rw [h] at hc; exact absurd hc (by decide)
    have h2 : c ≠ '-' := by intro h; rw [h] at hc; exact absurd hc (by decide)
    have hs := scan0_dec n
    rw [hd] at hs
    unfold parseBig0
    split
    · rename_i r heq; injection heq with a b; exact absurd a h1
    · rename_i r heq; injection heq with a b; exact absurd a h2
    · rw [hs]; rfl

theorem newIntFromString_dec (n : Nat) (hn : n < 2 ^ 256) : newIntFromString (dec n) = some (false, n) := by
  simp [newIntFromString, parseBig0_dec, hn]
end IbcVerif.Abi
