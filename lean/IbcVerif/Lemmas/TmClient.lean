/-
  Client- and world-level lemmas of the 07-tendermint model: what each keeper operation can do to a
  client store (shape lemmas), and that every operation preserves the store invariant.
-/
import IbcVerif.Lemmas.TmStore
namespace IbcVerif.Tm
open IbcVerif

/-! ### the world -/

theorem client_put (w : World) (cid : Nat) (s : Store) (cid' : Nat) :
    (w.put cid s).client cid' = if cid = cid' then s else w.client cid' := by
  unfold World.client World.put
  simp only
  rw [FMap.get_set]
  by_cases e : cid = cid' <;> simp [e]

theorem client_put_self (w : World) (cid : Nat) (s : Store) : (w.put cid s).client cid = s := by
  rw [client_put]; simp

theorem client_put_ne (w : World) (cid cid' : Nat) (s : Store) (h : cid ≠ cid') :
    (w.put cid s).client cid' = w.client cid' := by
  rw [client_put]; simp [h]

theorem winv_put (w : World) (cid : Nat) (s : Store) (hw : WInv w) (hs : StoreInv s)
    (hc : w.nextSeq ≤ cid → s = Store.empty) : WInv (w.put cid s) := by
  refine ⟨?_, ?_⟩
  · intro cid'
    rw [client_put]
    by_cases e : cid = cid'
    · simp [e, hs]
    · simp only [e, ↓reduceIte]; exact hw.stores cid'
  · intro n hn
    have hn' : w.nextSeq ≤ n := hn
    rw [client_put]
    by_cases e : cid = n
    · simp only [e, ↓reduceIte]; exact hc (by omega)
    · simp only [e, ↓reduceIte]; exact hw.fresh n hn'

theorem storeInv_empty : StoreInv Store.empty :=
  ⟨metaInv_empty, fun _ h => (nomatch h), fun _ hh => Bool.noConfusion (show false = true from hh)⟩

theorem winv_empty : WInv World.empty := ⟨fun _ => storeInv_empty, fun _ _ => rfl⟩

/-! ### header verification -/

/-- the acceptance conditions of `verifyHeader` (ibc-go's own checks; `valid` is CometBFT's verdict) -/
theorem verifyHeader_none_iff (s : Store) (hdr : Header) (valid : Bool) :
    verifyHeader s hdr valid = none ↔
      ∃ c, s.getCons hdr.trusted = some c ∧ hdr.tvals = some c.nvh ∧ hdr.height.rev = hdr.trusted.rev ∧
        hdr.parseOK = true ∧ hk hdr.trusted < hk hdr.height ∧ valid = true := by
  unfold verifyHeader checkTrustedHeader
  cases hc : s.getCons hdr.trusted with
  | none => simp
  | some c =>
    cases ht : hdr.tvals with
    | none => simp
    | some tv =>
      simp only [ne_eq, ite_not, Option.some.injEq, exists_eq_left']
      by_cases e1 : tv = c.nvh
      · by_cases e2 : hdr.height.rev = hdr.trusted.rev
        · by_cases e3 : hdr.parseOK = true
          · have hl := lte_iff_hk hdr.height hdr.trusted
            by_cases e4 : hdr.height.lte hdr.trusted = true
            · have := hl.mp e4
              simp [e1, e2, e3, e4]; intro; omega
            · have : ¬ hk hdr.height ≤ hk hdr.trusted := fun c => e4 (hl.mpr c)
              cases valid <;> simp [e1, e2, e3, e4] <;> omega
          · simp [e1, e2, e3]
        · simp [e1, e2]
      · simp [e1]

/-! ### store invariant: elementary shapes -/

theorem storeInv_freeze (s : Store) (cs : ClientState) (hs : StoreInv s) (hc : s.client = some cs) :
    StoreInv (freeze cs s) := by
  refine ⟨metaInv_client s _ hs.metaInv, ?_, fun _ _ => rfl⟩
  intro cs' e h hh
  have : cs' = { cs with frozen := frozenHeight } := by
    have : (freeze cs s).client = some { cs with frozen := frozenHeight } := rfl
    rw [this] at e; exact (Option.some.inj e).symm
  subst this
  exact hs.below cs hc h hh

theorem storeInv_delete (s : Store) (hs : StoreInv s) (h : Height) : StoreInv ((s.delCons h).delMeta h) := by
  refine ⟨metaInv_delete s hs.metaInv h, ?_, ?_⟩
  · intro cs e h' hh'
    exact hs.below cs e h' ((has_delete s h h').mp hh').2
  · intro h' hh'
    exact hs.hasClient h' ((has_delete s h h').mp hh').2

/-- writing a consensus state with its metadata at a height not above the (new) latest height -/
theorem storeInv_insert (s : Store) (hs : StoreInv s) (cs' : ClientState) (h : Height) (c : ConsState) (ph : Height) (pt : Nat)
    (hle : hk h ≤ hk cs'.latest) (hmono : ∀ cs, s.client = some cs → hk cs.latest ≤ hk cs'.latest)
    (hcl : s.client.isSome = true ∨ ∀ h', ¬ s.has h') :
    StoreInv ((({ s with client := some cs' }).setCons h c).setMeta h ph pt) := by
  refine ⟨metaInv_insert _ (metaInv_client s _ hs.metaInv) h c ph pt, ?_, fun _ _ => rfl⟩
  intro cs2 e h' hh'
  have : cs2 = cs' := by
    have : ((({ s with client := some cs' }).setCons h c).setMeta h ph pt).client = some cs' := rfl
    rw [this] at e; exact (Option.some.inj e).symm
  subst this
  rcases (has_insert _ h c ph pt h').mp hh' with e' | e'
  · rw [← e']; exact hle
  · have e'' : s.has h' := e'
    rcases hcl with hcl | hcl
    · cases hcs : s.client with
      | none => rw [hcs] at hcl; exact Bool.noConfusion hcl
      | some cs0 => exact Nat.le_trans (hs.below cs0 hcs h' e'') (hmono cs0 hcs)
    · exact absurd e'' (hcl h')

theorem storeInv_pruneOldest (s : Store) (hs : StoreInv s) (tp now : Int) :
    ∃ s1, s.pruneOldest tp now = some s1 ∧ StoreInv s1 ∧ s1.client = s.client ∧
      (∀ h c, s1.getCons h = some c → s.getCons h = some c) := by
  rcases pruneOldest_spec s hs.metaInv tp now with ⟨h, c, _, _, _, hp⟩ | ⟨hp, _⟩
  · refine ⟨_, hp, storeInv_delete s hs h, rfl, ?_⟩
    intro h' c' e
    rw [getCons_delete] at e
    by_cases eq : h = h'
    · simp [eq] at e
    · simpa [eq] using e
  · exact ⟨s, hp, hs, rfl, fun _ _ e => e⟩

theorem storeInv_pruneAll (s : Store) (hs : StoreInv s) (tp now : Int) : StoreInv (s.pruneAll tp now).1 := by
  have ⟨h1, h2, h3⟩ := pruneAll_spec s hs.metaInv tp now
  have sub : ∀ h, (s.pruneAll tp now).1.has h → s.has h := by
    intro h hh
    unfold Store.has at hh ⊢
    rw [h3] at hh
    cases hc : s.getCons h with
    | none => rw [hc] at hh; exact hh
    | some c => rfl
  refine ⟨h1, ?_, ?_⟩
  · intro cs e h hh
    rw [h2] at e
    exact hs.below cs e h (sub h hh)
  · intro h hh
    rw [h2]
    exact hs.hasClient h (sub h hh)

/-! ### `UpdateClient` with a header: the three outcomes -/

/-- outcome of `Keeper.UpdateClient` on a consistent store -/
theorem updateStore_cases (s : Store) (hs : StoreInv s) (now : Int) (self : Height) (hdr : Header) (valid : Bool) :
    -- rejected: nothing written
    ((updateStore s now self hdr valid).1 = s ∧ (s.status now ≠ .active ∨ verifyHeader s hdr valid ≠ none)) ∨
    (∃ cs, s.client = some cs ∧ s.status now = .active ∧ verifyHeader s hdr valid = none ∧
      -- frozen: only the client state changes
      ((checkHeaderMisbehaviour s hdr = true ∧ updateStore s now self hdr valid = (freeze cs s, "frozen")) ∨
      -- accepted: prune the oldest if expired, then no-op on a duplicate or store the new consensus state
       (checkHeaderMisbehaviour s hdr = false ∧ ∃ s1, s.pruneOldest cs.trustingPeriod now = some s1 ∧
          ((s1.has hdr.height ∧ updateStore s now self hdr valid = (s1, "updated")) ∨
           (¬ s1.has hdr.height ∧ updateStore s now self hdr valid =
              ((({ s1 with client := some (if hdr.height.gt cs.latest then { cs with latest := hdr.height } else cs) }).setCons
                  hdr.height hdr.cons).setMeta hdr.height self now.toNat, "updated")))))) := by
  unfold updateStore
  by_cases hst : s.status now = .active
  · cases hc : s.client with
    | none => unfold Store.status at hst; rw [hc] at hst; cases hst
    | some cs =>
      cases hv : verifyHeader s hdr valid with
      | some e => left; simp [hst, hv]
      | none =>
        right
        refine ⟨cs, rfl, hst, rfl, ?_⟩
        by_cases hm : checkHeaderMisbehaviour s hdr = true
        · left; simp [hst, hm]
        · right
          have hm' : checkHeaderMisbehaviour s hdr = false := by simpa using hm
          refine ⟨hm', ?_⟩
          obtain ⟨s1, hp, _, _, _⟩ := storeInv_pruneOldest s hs cs.trustingPeriod now
          refine ⟨s1, hp, ?_⟩
          unfold updateState
          simp only [hst, ne_eq, not_true_eq_false, ↓reduceIte, hm', Bool.false_eq_true, hp]
          cases hg : s1.getCons hdr.height with
          | some c => left; exact ⟨by unfold Store.has; rw [hg]; rfl, rfl⟩
          | none => right; exact ⟨by unfold Store.has; rw [hg]; simp, rfl⟩
  · left
    simp [hst]

/-- a rejected or frozen update never touches a consensus state -/
theorem freeze_getCons (cs : ClientState) (s : Store) (h : Height) : (freeze cs s).getCons h = s.getCons h := rfl

theorem updateStore_inv (s : Store) (hs : StoreInv s) (now : Int) (self : Height) (hdr : Header) (valid : Bool) :
    StoreInv (updateStore s now self hdr valid).1 := by
  rcases updateStore_cases s hs now self hdr valid with ⟨e, _⟩ | ⟨cs, hc, _, hv, ⟨_, e⟩ | ⟨_, s1, hp, ⟨_, e⟩ | ⟨_, e⟩⟩⟩
  · rw [e]; exact hs
  · rw [e]; exact storeInv_freeze s cs hs hc
  · rw [e]
    obtain ⟨s1', hp', inv1, _, _⟩ := storeInv_pruneOldest s hs cs.trustingPeriod now
    rw [hp] at hp'; cases hp'; exact inv1
  · rw [e]
    obtain ⟨s1', hp', inv1, hcl, _⟩ := storeInv_pruneOldest s hs cs.trustingPeriod now
    rw [hp] at hp'; cases hp'
    apply storeInv_insert s1 inv1
    · by_cases g : hdr.height.gt cs.latest = true
      · simp [g]
      · have : ¬ hk cs.latest < hk hdr.height := fun c => g ((gt_iff_hk hdr.height cs.latest).mpr c)
        simp only [g, Bool.false_eq_true, ↓reduceIte]; omega
    · intro cs0 e0
      rw [hcl, hc] at e0; cases e0
      by_cases g : hdr.height.gt cs.latest = true
      · have := (gt_iff_hk hdr.height cs.latest).mp g
        simp only [g, ↓reduceIte]; omega
      · simp [g]
    · left; rw [hcl, hc]; rfl

theorem updateStore_noClient (s : Store) (hc : s.client = none) (now : Int) (self : Height) (hdr : Header) (valid : Bool) :
    (updateStore s now self hdr valid).1 = s := by
  unfold updateStore Store.status
  simp [hc]

/-! ### misbehaviour -/

theorem misbehaviourStore_cases (s : Store) (now : Int) (m : Misbehaviour) (v1 v2 : Bool) :
    (misbehaviourStore s now m v1 v2).1 = s ∨
    ∃ cs, s.client = some cs ∧ s.status now = .active ∧ m.validateBasic = true ∧
      verifyMisbehaviour cs s m now v1 v2 = none ∧ checkMisbehaviourMsg m = true ∧
      misbehaviourStore s now m v1 v2 = (freeze cs s, "frozen") := by
  unfold misbehaviourStore
  by_cases hb : m.validateBasic = true
  · by_cases hst : s.status now = .active
    · cases hc : s.client with
      | none => left; simp [hb, hst]
      | some cs =>
        cases hv : verifyMisbehaviour cs s m now v1 v2 with
        | some e => left; simp [hb, hst, hv]
        | none =>
          by_cases hm : checkMisbehaviourMsg m = true
          · right; exact ⟨cs, rfl, hst, hb, hv, hm, by simp [hb, hst, hv, hm]⟩
          · left; simp [hb, hst, hv, hm]
    · left; simp [hb, hst]
  · left; simp [hb]

theorem misbehaviourStore_inv (s : Store) (hs : StoreInv s) (now : Int) (m : Misbehaviour) (v1 v2 : Bool) :
    StoreInv (misbehaviourStore s now m v1 v2).1 := by
  rcases misbehaviourStore_cases s now m v1 v2 with e | ⟨cs, hc, _, _, _, _, e⟩
  · rw [e]; exact hs
  · rw [e]; exact storeInv_freeze s cs hs hc

theorem misbehaviourStore_noClient (s : Store) (hc : s.client = none) (now : Int) (m : Misbehaviour) (v1 v2 : Bool) :
    (misbehaviourStore s now m v1 v2).1 = s := by
  rcases misbehaviourStore_cases s now m v1 v2 with e | ⟨cs, hc', _⟩
  · exact e
  · rw [hc] at hc'; cases hc'

/-! ### upgrade -/

/-- the client state written by a successful upgrade -/
def upgradedClient (cs : ClientState) (u : UpgradeReq) : ClientState :=
  { chainId := u.newClient.chainId, tlNum := cs.tlNum, tlDen := cs.tlDen,
    trustingPeriod := if u.newClient.unbondingPeriod < cs.unbondingPeriod then
        (calculateNewTrustingPeriod cs.trustingPeriod.toNat cs.unbondingPeriod.toNat u.newClient.unbondingPeriod.toNat : Int)
      else cs.trustingPeriod,
    unbondingPeriod := u.newClient.unbondingPeriod, maxClockDrift := cs.maxClockDrift,
    frozen := Height.zero, latest := u.newClient.latest, proofSpecs := u.newClient.proofSpecs,
    upgradePath := u.newClient.upgradePath, allowExpiry := false, allowMisb := false }

/-- the store written by a successful upgrade -/
def upgradedStore (cs : ClientState) (s : Store) (u : UpgradeReq) (now : Int) (self : Height) : Store :=
  (({ s with client := some (upgradedClient cs u) }).setCons (upgradedClient cs u).latest
      ⟨u.newCons.ts, sentinelRootHex, u.newCons.nvh⟩).setMeta u.newClient.latest self now.toNat

theorem verifyUpgrade_cases (cs : ClientState) (s : Store) (u : UpgradeReq) (now : Int) (self : Height) :
    (verifyUpgradeAndUpdateState cs s u now self).1 = s ∨
    (verifyUpgradeAndUpdateState cs s u now self = (upgradedStore cs s u now self, "ok") ∧
      cs.upgradePath.isEmpty = false ∧ u.proofClientParse = true ∧ u.proofConsParse = true ∧
      (s.getCons cs.latest).isSome = true ∧ u.proofClientOK = true ∧ u.proofConsOK = true ∧
      (upgradedClient cs u).validate = none) := by
  have shape : ∀ x : Option String, ((match x with
      | some e => (s, "err:" ++ e)
      | none => (upgradedStore cs s u now self, "ok")) : Store × String).1 = s ∨ x = none := by
    intro x
    cases x with
    | none => right; rfl
    | some e => left; rfl
  by_cases h1 : cs.upgradePath.isEmpty = true
  · left; unfold verifyUpgradeAndUpdateState; simp [h1]
  · by_cases h2 : u.proofClientParse = true
    · by_cases h3 : u.proofConsParse = true
      · cases h4 : s.getCons cs.latest with
        | none => left; unfold verifyUpgradeAndUpdateState; simp [h1, h2, h3, h4]
        | some c0 =>
          by_cases h5 : u.proofClientOK = true
          · by_cases h6 : u.proofConsOK = true
            · have key : verifyUpgradeAndUpdateState cs s u now self =
                  (match (upgradedClient cs u).validate with
                    | some e => (s, "err:" ++ e)
                    | none => (upgradedStore cs s u now self, "ok")) := by
                unfold verifyUpgradeAndUpdateState
                simp only [h1, Bool.false_eq_true, ↓reduceIte, h2, Bool.not_true, h3, h4, h5, h6]
                rfl
              rcases shape (upgradedClient cs u).validate with e | e
              · left; rw [key]; exact e
              · right
                refine ⟨?_, by simpa using h1, h2, h3, rfl, h5, h6, e⟩
                rw [key, e]
            · left; unfold verifyUpgradeAndUpdateState; simp [h1, h2, h3, h4, h5, h6]
          · left; unfold verifyUpgradeAndUpdateState; simp [h1, h2, h3, h4, h5]
      · left; unfold verifyUpgradeAndUpdateState; simp [h1, h2, h3]
    · left; unfold verifyUpgradeAndUpdateState; simp [h1, h2]

theorem upgradeStore_cases (s : Store) (now : Int) (self : Height) (u : UpgradeReq) :
    (upgradeStore s now self u).1 = s ∨
    ∃ cs, s.client = some cs ∧ s.status now = .active ∧ u.clientBzOK = true ∧ u.consBzOK = true ∧
      hk cs.latest < hk u.newClient.latest ∧
      cs.upgradePath.isEmpty = false ∧ u.proofClientParse = true ∧ u.proofConsParse = true ∧
      u.proofClientOK = true ∧ u.proofConsOK = true ∧ (upgradedClient cs u).validate = none ∧
      upgradeStore s now self u = (upgradedStore cs s u now self, "ok") := by
  by_cases hst : s.status now = .active
  · by_cases h1 : u.clientBzOK = true
    · by_cases h2 : u.consBzOK = true
      · cases hc : s.client with
        | none => left; unfold upgradeStore; simp [hst, h1, h2, hc]
        | some cs =>
          by_cases hg : u.newClient.latest.gt cs.latest = true
          · have key : upgradeStore s now self u = verifyUpgradeAndUpdateState cs s u now self := by
              unfold upgradeStore
              simp [hst, h1, h2, hc, hg]
            rcases verifyUpgrade_cases cs s u now self with e | ⟨e, a1, a2, a3, _, a5, a6, a7⟩
            · left; rw [key]; exact e
            · right
              exact ⟨cs, rfl, hst, h1, h2, (gt_iff_hk _ _).mp hg, a1, a2, a3, a5, a6, a7, by rw [key]; exact e⟩
          · left; unfold upgradeStore; simp [hst, h1, h2, hc, hg]
      · left; unfold upgradeStore; simp [hst, h1, h2]
    · left; unfold upgradeStore; simp [hst, h1]
  · left; unfold upgradeStore; simp [hst]

theorem upgradeStore_inv (s : Store) (hs : StoreInv s) (now : Int) (self : Height) (u : UpgradeReq) :
    StoreInv (upgradeStore s now self u).1 := by
  rcases upgradeStore_cases s now self u with e | ⟨cs, hc, _, _, _, hlt, _, _, _, _, _, _, e⟩
  · rw [e]; exact hs
  · rw [e]
    apply storeInv_insert s hs
    · exact Nat.le_refl _
    · intro cs0 e0; rw [hc] at e0; cases e0; exact Nat.le_of_lt hlt
    · left; rw [hc]; rfl

theorem upgradeStore_noClient (s : Store) (hc : s.client = none) (now : Int) (self : Height) (u : UpgradeReq) :
    (upgradeStore s now self u).1 = s := by
  rcases upgradeStore_cases s now self u with e | ⟨cs, hc', _⟩
  · exact e
  · rw [hc] at hc'; cases hc'

/-! ### recovery -/

/-- the client state written by a successful recovery -/
def recoveredClient (cs scs : ClientState) (wasFrozen : Bool) : ClientState :=
  { (if wasFrozen then { cs with frozen := Height.zero } else cs) with
      latest := scs.latest, chainId := scs.chainId, trustingPeriod := scs.trustingPeriod }

/-- the store written by a successful recovery -/
def recoveredStore (cs scs : ClientState) (sj : Store) (c : ConsState) (ph : Height) (pt : Nat) (now : Int) : Store :=
  (({ sj with client := some (recoveredClient cs scs (decide (sj.status now = Status.frozen))) }).setCons scs.latest c).setMeta scs.latest ph pt

theorem recoverStore_cases (sj sb : Store) (hb : MetaInv sb) (now : Int) :
    (recoverStore sj sb now).1 = sj ∨
    ∃ cs scs c ph pt, sj.client = some cs ∧ sb.client = some scs ∧ sj.status now ≠ .active ∧ sb.status now = .active ∧
      hk cs.latest < hk scs.latest ∧ isMatchingClientState cs scs = true ∧
      sb.getCons scs.latest = some c ∧ sb.pheight.get scs.latest = some ph ∧ sb.ptime.get scs.latest = some pt ∧
      recoverStore sj sb now = (recoveredStore cs scs sj c ph pt now, "ok") := by
  by_cases h1 : sj.status now = .active
  · left; unfold recoverStore; simp [h1]
  · by_cases h2 : sb.status now = .active
    · by_cases h3 : sj.latestHeight.gte sb.latestHeight = true
      · left; unfold recoverStore; simp [h1, h2, h3]
      · cases hc : sj.client with
        | none => left; unfold recoverStore; simp [h1, h2, h3, hc]
        | some cs =>
          cases hsc : sb.client with
          | none => left; unfold recoverStore; simp [h1, h2, h3, hc, hsc]
          | some scs =>
            have hlt : hk cs.latest < hk scs.latest := by
              have : ¬ hk sb.latestHeight ≤ hk sj.latestHeight := fun c => h3 ((gte_iff_hk _ _).mpr c)
              unfold Store.latestHeight at this
              rw [hc, hsc] at this
              simp only at this
              omega
            have key : recoverStore sj sb now = checkSubstituteAndUpdateState cs sj sb scs now := by
              unfold recoverStore
              simp [h1, h2, h3, hc, hsc]
            by_cases hm : isMatchingClientState cs scs = true
            · cases hg : sb.getCons scs.latest with
              | none => left; rw [key]; unfold checkSubstituteAndUpdateState; simp [hm, hg]
              | some c =>
                have hhas : sb.has scs.latest := by unfold Store.has; rw [hg]; rfl
                cases hph : sb.pheight.get scs.latest with
                | none => have := (hb.pheight scs.latest).mpr hhas; rw [hph] at this; exact Bool.noConfusion this
                | some ph =>
                  cases hpt : sb.ptime.get scs.latest with
                  | none => have := (hb.ptime scs.latest).mpr hhas; rw [hpt] at this; exact Bool.noConfusion this
                  | some pt =>
                    right
                    refine ⟨cs, scs, c, ph, pt, rfl, rfl, h1, h2, hlt, hm, hg, hph, hpt, ?_⟩
                    rw [key]
                    unfold checkSubstituteAndUpdateState
                    simp only [hm, Bool.not_true, Bool.false_eq_true, ↓reduceIte, hg, hph, hpt]
                    by_cases hf : sj.status now = Status.frozen <;> simp [hf, recoveredStore, recoveredClient] <;> rfl
            · left; rw [key]; unfold checkSubstituteAndUpdateState; simp [hm]
    · left; unfold recoverStore; simp [h1, h2]

theorem recoverStore_inv (sj sb : Store) (hs : StoreInv sj) (hb : MetaInv sb) (now : Int) :
    StoreInv (recoverStore sj sb now).1 := by
  rcases recoverStore_cases sj sb hb now with e | ⟨cs, scs, c, ph, pt, hc, _, _, _, hlt, _, _, _, _, e⟩
  · rw [e]; exact hs
  · rw [e]
    apply storeInv_insert sj hs
    · show hk scs.latest ≤ hk (recoveredClient cs scs _).latest
      exact Nat.le_refl _
    · intro cs0 e0; rw [hc] at e0; cases e0
      exact Nat.le_of_lt hlt
    · left; rw [hc]; rfl

theorem recoverStore_noClient (sj sb : Store) (hb : MetaInv sb) (hc : sj.client = none) (now : Int) :
    (recoverStore sj sb now).1 = sj := by
  rcases recoverStore_cases sj sb hb now with e | ⟨cs, _, _, _, _, hc', _⟩
  · exact e
  · rw [hc] at hc'; cases hc'

/-! ### prune-all, create -/

theorem pruneAllStore_inv (s : Store) (hs : StoreInv s) (now : Int) : StoreInv (pruneAllStore s now).1 := by
  unfold pruneAllStore
  cases hc : s.client with
  | none => exact hs
  | some cs => exact storeInv_pruneAll s hs cs.trustingPeriod now

theorem pruneAllStore_noClient (s : Store) (hc : s.client = none) (now : Int) : (pruneAllStore s now).1 = s := by
  unfold pruneAllStore; simp [hc]

theorem storeInv_initClient (cs : ClientState) (c : ConsState) (now : Int) (self : Height) :
    StoreInv (initClient cs c now self) := by
  unfold initClient
  apply storeInv_insert Store.empty storeInv_empty
  · exact Nat.le_refl _
  · intro cs0 e0; cases e0
  · right; intro h' hh'; exact Bool.noConfusion (show false = true from hh')

theorem createClient_cases (w : World) (cs : ClientState) (c : ConsState) :
    (createClient w cs c).1 = { w with nextSeq := w.nextSeq + 1 } ∨
    (cs.validate = none ∧ c.validateBasic = none ∧
      (createClient w cs c).1 = ({ w with nextSeq := w.nextSeq + 1 }).put w.nextSeq (initClient cs c w.now w.self)) := by
  unfold createClient
  cases hv : cs.validate with
  | some e => left; rfl
  | none =>
    cases hb : c.validateBasic with
    | some e => left; rfl
    | none =>
      right
      refine ⟨rfl, rfl, ?_⟩
      simp only
      split <;> rfl

/-! ### every operation preserves the world invariant -/

theorem emptyStore_client : Store.empty.client = none := rfl

theorem step_winv (w : World) (hw : WInv w) (op : Op) : WInv (step w op).1 := by
  have noClient : ∀ cid, w.nextSeq ≤ cid → (w.client cid).client = none := by
    intro cid h; rw [hw.fresh cid h]; rfl
  cases op with
  | create cs c =>
    have base : WInv { w with nextSeq := w.nextSeq + 1 } :=
      ⟨hw.stores, fun n hn => hw.fresh n (by have : w.nextSeq + 1 ≤ n := hn; omega)⟩
    rcases createClient_cases w cs c with e | ⟨_, _, e⟩
    · show WInv (createClient w cs c).1
      rw [e]; exact base
    · show WInv (createClient w cs c).1
      rw [e]
      exact winv_put _ _ _ base (storeInv_initClient cs c w.now w.self)
        (fun h => by have : w.nextSeq + 1 ≤ w.nextSeq := h; omega)
  | update cid hdr valid =>
    exact winv_put w cid _ hw (updateStore_inv _ (hw.stores cid) _ _ _ _)
      (fun h => by rw [updateStore_noClient _ (noClient cid h)]; exact hw.fresh cid h)
  | misbehaviour cid m v1 v2 =>
    exact winv_put w cid _ hw (misbehaviourStore_inv _ (hw.stores cid) _ _ _ _)
      (fun h => by rw [misbehaviourStore_noClient _ (noClient cid h)]; exact hw.fresh cid h)
  | advance dt dh => exact ⟨hw.stores, hw.fresh⟩
  | upgrade cid u =>
    exact winv_put w cid _ hw (upgradeStore_inv _ (hw.stores cid) _ _ _)
      (fun h => by rw [upgradeStore_noClient _ (noClient cid h)]; exact hw.fresh cid h)
  | recover a b =>
    exact winv_put w a _ hw (recoverStore_inv _ _ (hw.stores a) (hw.stores b).metaInv _)
      (fun h => by rw [recoverStore_noClient _ _ (hw.stores b).metaInv (noClient a h)]; exact hw.fresh a h)
  | pruneAll cid =>
    exact winv_put w cid _ hw (pruneAllStore_inv _ (hw.stores cid) _)
      (fun h => by rw [pruneAllStore_noClient _ (noClient cid h)]; exact hw.fresh cid h)
  | verifyMembership cid r => exact hw
  | verifyNonMembership cid r => exact hw

theorem run_winv : ∀ (ops : List Op) (w : World), WInv w → WInv (run w ops)
  | [], _, hw => hw
  | op :: ops, w, hw => run_winv ops _ (step_winv w hw op)

end IbcVerif.Tm
