/-
  Lemmas for the callbacks model (C40): `ProcessCallback` and the contract run as finite decision
  tables over (is-send, contract behaviour, past-limit, retry), so that the property theorems reduce
  to case analysis over finite types.
-/
import IbcVerif.Model.Callbacks
namespace IbcVerif.Callbacks

/-- the contract's raw result as a function of (past the limit?, catch behaviour, normal behaviour) -/
def runTable (past : Bool) (catchOog : Option Ret) (out : Outcome) : Raw :=
  if past then
    match catchOog with
    | none => .panickedOog
    | some .ok => .retOk
    | some .err => .retErr
  else
    match out with
    | .ok => .retOk
    | .err => .retErr
    | .panic => .panicked

theorem run_eq (c : Contract) (exec : Nat) : c.run exec = runTable (decide (c.gas > exec)) c.catchOog c.out := by
  unfold Contract.run runTable
  by_cases h : c.gas > exec
  · simp only [h, if_true, decide_true]
    cases c.catchOog with
    | none => rfl
    | some r => cases r <;> rfl
  · simp only [h, if_false, decide_false, Bool.false_eq_true]
    cases c.out <;> rfl

/-- `ProcessCallback` as a decision table: (result, wrote) -/
def pcTable (isSend : Bool) (raw : Raw) (past retry : Bool) : PcResult × Bool :=
  let wrote := raw == .retOk && !past
  let isPanic := raw == .panicked || raw == .panickedOog
  if isPanic && isSend then (if raw == .panickedOog then .panicOog else .panic, wrote)
  else if past then (if retry then .panicOog else .errOog, wrote)
  else (if isPanic then .errPanic else match raw with | .retOk => .ok | _ => .errCallback, wrote)

theorem processCallback_eq (t : CbType) (exec commit : Nat) (c : Contract) :
    processCallback t exec commit c =
      ⟨(pcTable (t == .send) (c.run exec) (decide (c.gas > exec)) (decide (exec < commit))).1,
       (pcTable (t == .send) (c.run exec) (decide (c.gas > exec)) (decide (exec < commit))).2,
       min c.gas exec⟩ := by
  unfold processCallback pcTable
  by_cases hg : c.gas > exec <;> by_cases hr : exec < commit <;>
    cases hraw : c.run exec <;> cases t <;> simp [hg, hr]

theorem processCallback_charged (t : CbType) (exec commit : Nat) (c : Contract) :
    (processCallback t exec commit c).charged = min c.gas exec := by
  rw [processCallback_eq]

/-- name the Boolean value of a decidable proposition (turns arithmetic side conditions into finite cases) -/
theorem bool_of_dec (p : Prop) [Decidable p] : ∃ b : Bool, decide p = b ∧ (p ↔ b = true) :=
  ⟨decide p, rfl, by simp⟩

end IbcVerif.Callbacks
