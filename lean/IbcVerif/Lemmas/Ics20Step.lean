/-
  Shape of successful message handlers and of `step` for the ICS-20 model.
-/
import IbcVerif.Lemmas.Ics20
namespace IbcVerif.Ics20
open IbcVerif IbcVerif.Xfer

/-- a successful `Transfer`: who pays, how much, which token, and which `SendTransfer` ran -/
theorem transfer_ok {cfg : Config} {c : Nat} {ch ch' : Chain} {m : MsgTransfer} {ce : Option String} {seq : Nat}
    {p : Packet} (h : transfer cfg c ch m ce seq = .ok (ch', p)) :
    ∃ s n tok, cfg.decode m.sender = some s ∧ expandAmount ch s m = some n ∧
      tokenFromCoin cfg ch m.denom = .ok tok ∧ hopFreeBase tok.base = true ∧
      validatePacketData ⟨tok.path, n, m.sender, m.receiver, m.memo⟩ = none ∧
      p.data = ⟨tok.path, n, m.sender, m.receiver, m.memo⟩ ∧
      p.srcChain = c ∧ p.srcPort = transferPort ∧ p.srcChan = m.chan ∧ p.dstPort = transferPort ∧
      cfg.peer c m.chan = some (p.dstChain, p.dstChan) ∧ p.seq = seq ∧
      ((p.v2 = false ∧ sendTransfer cfg c ch transferPort m.chan tok n s = .ok ch') ∨
       (p.v2 = true ∧ (extract tok.path).base.contains '/' = false ∧
          sendTransfer cfg c ch transferPort m.chan (extract tok.path) n s = .ok ch')) := by
  unfold transfer at h
  cases hse : ch.sendEnabled with
  | false => simp [hse] at h
  | true =>
  simp only [hse, Bool.not_true, Bool.false_eq_true, if_false] at h
  split at h
  · cases h
  · rename_i s hs
    split at h
    · cases h
    · rename_i n hn
      split at h
      · cases h
      · rename_i tok htok
        cases hhf : hopFreeBase tok.base with
        | false => simp [hhf] at h
        | true =>
        simp only [hhf, Bool.not_true, Bool.false_eq_true, if_false] at h
        split at h
        · cases h
        · rename_i hv
          refine ⟨s, n, tok, hs, hn, htok, hhf, hv, ?_⟩
          split at h
          · -- v1
            split at h
            · cases h
            · rename_i ch1 hst
              split at h
              · cases h
              · split at h
                · cases h
                · rename_i dc did hpeer
                  injection h with h
                  injection h with h1 h2
                  subst h1; subst h2
                  exact ⟨rfl, rfl, rfl, rfl, rfl, hpeer, rfl, Or.inl ⟨rfl, hst⟩⟩
          · -- v2
            split at h
            · cases h
            · split at h
              · cases h
              · rename_i dc did hpeer
                split at h
                · cases h
                · split at h
                  · cases h
                  · split at h
                    · cases h
                    · rename_i hslash
                      split at h
                      · cases h
                      · rename_i ch1 hst
                        injection h with h
                        injection h with h1 h2
                        subst h1; subst h2
                        exact ⟨rfl, rfl, rfl, rfl, rfl, hpeer, rfl, Or.inr ⟨rfl, by simpa using hslash, hst⟩⟩

/-- a successful raw v2 `MsgSendPacket` with an ICS-20 payload -/
theorem sendPacketV2_ok {cfg : Config} {c : Nat} {ch ch' : Chain} {signer client : Str} {data : PacketData}
    {ce : Option String} {seq : Nat} {p : Packet}
    (h : sendPacketV2 cfg c ch signer client data ce seq = .ok (ch', p)) :
    ∃ s, cfg.decode signer = some s ∧ cfg.decode data.sender = some s ∧ validatePacketData data = none ∧
      p.data = data ∧ p.srcChain = c ∧ p.srcPort = transferPort ∧ p.srcChan = client ∧ p.dstPort = transferPort ∧
      cfg.peer c client = some (p.dstChain, p.dstChan) ∧ p.seq = seq ∧ p.v2 = true ∧
      (extract data.denom).base.contains '/' = false ∧
      sendTransfer cfg c ch transferPort client (extract data.denom) data.amount s = .ok ch' := by
  unfold sendPacketV2 at h
  split at h
  · cases h
  · rename_i s hs
    split at h
    · cases h
    · rename_i dc did hpeer
      split at h
      · cases h
      · split at h
        · cases h
        · split at h
          · cases h
          · rename_i hv
            split at h
            · cases h
            · rename_i s' hs'
              split at h
              · cases h
              · rename_i heq
                split at h
                · cases h
                · rename_i hslash
                  split at h
                  · cases h
                  · rename_i ch1 hst
                    injection h with h
                    injection h with h1 h2
                    subst h1; subst h2
                    have e : s' = s := by simpa using heq
                    subst e
                    exact ⟨s', hs, hs', hv, rfl, rfl, rfl, rfl, rfl, hpeer, rfl, rfl, by simpa using hslash, hst⟩

/-- the chain an op executes on -/
def opChain : Op → Nat
  | .transfer c _ _ _ _ _ => c
  | .sendV2 c _ _ _ _ _ => c
  | .recv p => p.dstChain
  | .ack p _ => p.srcChain
  | .timeout p _ => p.srcChain
  | .setParams c _ _ => c
  | .bankSend c _ _ _ _ => c

theorem setChain_same (w : World) (c : Nat) (ch : Chain) : (w.setChain c ch).chains c = ch := by
  simp [World.setChain]

theorem setChain_other (w : World) (c c' : Nat) (ch : Chain) (h : c' ≠ c) : (w.setChain c ch).chains c' = w.chains c' := by
  simp [World.setChain, h]

/-- a step touches only the chain it executes on -/
theorem step_other_chain (cfg : Config) (w : World) (op : Op) (c : Nat) (hc : c ≠ opChain op) :
    ((step cfg w op).1).chains c = w.chains c := by
  cases op with
  | transfer c' signer viaTx m ce seq =>
    simp only [step, opChain] at hc ⊢
    split
    · rfl
    · split
      · rfl
      · split
        · simp [World.setChain, hc]
        · rfl
  | sendV2 c' signer client data ce seq =>
    simp only [step, opChain] at hc ⊢
    split
    · simp [World.setChain, hc]
    · rfl
  | recv p =>
    simp only [step, opChain] at hc ⊢
    split
    · simp [World.setChain, hc]
    · rfl
  | ack p a =>
    simp only [step, opChain] at hc ⊢
    split
    · simp [World.setChain, hc]
    · rfl
  | timeout p oc =>
    simp only [step, opChain] at hc ⊢
    split
    · simp [World.setChain, hc]
    · rfl
  | setParams c' s r =>
    simp only [step, opChain] at hc ⊢
    simp [World.setChain, hc]
  | bankSend c' f t d n =>
    simp only [step, opChain] at hc ⊢
    split
    · rfl
    · split
      · simp [World.setChain, hc]
      · rfl

/-- result of a `transfer` step, when it sends -/
theorem step_transfer_sent {cfg : Config} {w w' : World} {c : Nat} {signer : Str} {viaTx : Bool} {m : MsgTransfer}
    {ce : Option String} {seq : Nat} {p : Packet}
    (h : step cfg w (.transfer c signer viaTx m ce seq) = (w', .sent p)) :
    (viaTx = true → signer = m.sender) ∧
    ∃ ch', transfer cfg c (w.chains c) m ce seq = .ok (ch', p) ∧
      w' = { w.setChain c ch' with sent := p :: w.sent } := by
  simp only [step] at h
  split at h
  · cases h
  · split at h
    · cases h
    · rename_i hsig
      split at h
      · rename_i ch' p' ht
        injection h with h1 h2
        injection h2 with h2
        subst h2
        refine ⟨?_, ch', ht, h1.symm⟩
        intro hv
        subst hv
        simpa using hsig
      · rename_i f hf
        injection h with h1 h2
        cases f <;> simp [failRes] at h2

/-- a `transfer` step either sends a packet or leaves the world unchanged -/
theorem step_transfer_cases (cfg : Config) (w : World) (c : Nat) (signer : Str) (viaTx : Bool) (m : MsgTransfer)
    (ce : Option String) (seq : Nat) :
    (∃ p, (step cfg w (.transfer c signer viaTx m ce seq)).2 = .sent p) ∨
    (step cfg w (.transfer c signer viaTx m ce seq)).1 = w := by
  simp only [step]
  split
  · right; rfl
  · split
    · right; rfl
    · split
      · rename_i ch' p ht
        left; exact ⟨p, rfl⟩
      · right; rfl

theorem step_sendV2_sent {cfg : Config} {w w' : World} {c : Nat} {signer client : Str} {data : PacketData}
    {ce : Option String} {seq : Nat} {p : Packet}
    (h : step cfg w (.sendV2 c signer client data ce seq) = (w', .sent p)) :
    ∃ ch', sendPacketV2 cfg c (w.chains c) signer client data ce seq = .ok (ch', p) ∧
      w' = { w.setChain c ch' with sent := p :: w.sent } := by
  simp only [step] at h
  split at h
  · rename_i ch' p' ht
    injection h with h1 h2
    injection h2 with h2
    subst h2
    exact ⟨ch', ht, h1.symm⟩
  · rename_i f hf
    injection h with h1 h2
    cases f <;> simp [failRes] at h2

theorem step_sendV2_cases (cfg : Config) (w : World) (c : Nat) (signer client : Str) (data : PacketData)
    (ce : Option String) (seq : Nat) :
    (∃ p, (step cfg w (.sendV2 c signer client data ce seq)).2 = .sent p) ∨
    (step cfg w (.sendV2 c signer client data ce seq)).1 = w := by
  simp only [step]
  split
  · rename_i ch' p ht
    left; exact ⟨p, rfl⟩
  · right; rfl

/-- a `recv` step: the callback ran (possibly failing, state kept) or the transaction panicked -/
theorem step_recv_cases (cfg : Config) (w : World) (p : Packet) :
    (∃ ch' o, recvPacket cfg p.dstChain (w.chains p.dstChain) p = .ok (ch', o) ∧
       step cfg w (.recv p) =
        ({ w.setChain p.dstChain ch' with recvd := (p, decide (o = .success)) :: w.recvd }, .recvd o)) ∨
    (step cfg w (.recv p)).1 = w := by
  simp only [step]
  split
  · rename_i ch' o h
    left; exact ⟨ch', o, h, rfl⟩
  · right; rfl

theorem step_ack_cases (cfg : Config) (w : World) (p : Packet) (a : Ack) :
    (∃ ch', ackPacket cfg p.srcChain (w.chains p.srcChain) p a = .ok ch' ∧
       step cfg w (.ack p a) = ({ w.setChain p.srcChain ch' with acked := p :: w.acked }, .ok)) ∨
    ((step cfg w (.ack p a)).1 = w ∧ (step cfg w (.ack p a)).2 ≠ .ok) := by
  simp only [step]
  split
  · rename_i ch' h
    left; exact ⟨ch', h, rfl⟩
  · rename_i f hf
    right; refine ⟨rfl, ?_⟩
    cases f <;> simp [failRes]

theorem step_timeout_cases (cfg : Config) (w : World) (p : Packet) (oc : Bool) :
    (∃ ch', timeoutPacket cfg p.srcChain (w.chains p.srcChain) p = .ok ch' ∧
       step cfg w (.timeout p oc) = ({ w.setChain p.srcChain ch' with timedOut := p :: w.timedOut }, .ok)) ∨
    ((step cfg w (.timeout p oc)).1 = w ∧ (step cfg w (.timeout p oc)).2 ≠ .ok) := by
  simp only [step]
  split
  · rename_i ch' h
    left; exact ⟨ch', h, rfl⟩
  · rename_i f hf
    right; refine ⟨rfl, ?_⟩
    cases f <;> simp [failRes]

/-- the receive callback: on success the keeper's `OnRecvPacket` ran; on failure the chain is unchanged -/
theorem recvPacket_ok {cfg : Config} {c : Nat} {ch ch' : Chain} {p : Packet} {o : RecvOutcome}
    (h : recvPacket cfg c ch p = .ok (ch', o)) :
    (o = .success ∧ onRecvPacket cfg c ch p.data p.srcPort p.srcChan p.dstPort p.dstChan = .ok ch') ∨
    (o ≠ .success ∧ ch' = ch) := by
  unfold recvPacket at h
  split at h
  · injection h with h; injection h with h1 h2; subst h1; subst h2; right; simp
  · split at h
    · injection h with h; injection h with h1 h2; subst h1; subst h2; right; simp
    · split at h
      · rename_i ch1 hr
        injection h with h; injection h with h1 h2; subst h1; subst h2
        left; exact ⟨rfl, hr⟩
      · injection h with h; injection h with h1 h2; subst h1; subst h2; right; simp
      · cases h

/-- the acknowledgement callback: nothing happens, or the refund ran -/
theorem ackPacket_ok {cfg : Config} {c : Nat} {ch ch' : Chain} {p : Packet} {a : Ack}
    (h : ackPacket cfg c ch p a = .ok ch') :
    (a = .result ∧ ch' = ch) ∨
    ((a = .error ∨ a = .sentinel) ∧ refundPacketTokens cfg c ch p.srcPort p.srcChan p.data = .ok ch') := by
  cases a <;> cases hv2 : p.v2 <;> simp only [ackPacket, hv2, if_true, if_false, Bool.false_eq_true] at h
  all_goals first
    | (cases h; done)
    | (split at h
       · cases h
       · first
         | (injection h with h; left; exact ⟨rfl, h.symm⟩)
         | (right; exact ⟨Or.inl rfl, h⟩)
         | (right; exact ⟨Or.inr rfl, h⟩)
         | (cases h; done))

theorem timeoutPacket_ok {cfg : Config} {c : Nat} {ch ch' : Chain} {p : Packet}
    (h : timeoutPacket cfg c ch p = .ok ch') :
    refundPacketTokens cfg c ch p.srcPort p.srcChan p.data = .ok ch' := by
  unfold timeoutPacket at h
  split at h
  · cases h
  · exact h

end IbcVerif.Ics20
