/-
  The tracked total escrow of a chain equals the sum of the balances of its transfer escrow
  accounts (when nothing is sent into escrow accounts outside ICS-20 escrowing).
-/
import IbcVerif.Lemmas.Ics20ConserveRun
namespace IbcVerif.Ics20
open IbcVerif IbcVerif.Xfer

/-- tracked total escrow = combined balance of the chain's transfer escrow accounts `es` -/
def EscOK (cfg : Config) (es : List Str) (ch : Chain) : Prop :=
  ∀ d, ch.totalEscrow d = (es.map fun e => ch.bank.bal (cfg.escrowAddr transferPort e) d).sum

theorem le_sum_of_mem {l : List Str} (g : Str → Nat) (e : Str) (he : e ∈ l) : g e ≤ (l.map g).sum := by
  induction l with
  | nil => cases he
  | cons x xs ih =>
    simp only [List.map_cons, List.sum_cons]
    rcases List.mem_cons.mp he with h | h
    · subst h; omega
    · have := ih h; omega

theorem sum_map_add_at {l : List Str} (g : Str → Nat) (e : Str) (P : Prop) [Decidable P] (n : Nat)
    (hnd : l.Nodup) (he : e ∈ l) :
    (l.map fun c => g c + (if c = e ∧ P then n else 0)).sum = (l.map g).sum + (if P then n else 0) := by
  induction l with
  | nil => cases he
  | cons x xs ih =>
    simp only [List.nodup_cons] at hnd
    simp only [List.map_cons, List.sum_cons]
    by_cases hx : x = e
    · subst hx
      have : (xs.map fun c => g c + (if c = x ∧ P then n else 0)).sum = (xs.map g).sum := by
        congr 1
        apply List.map_congr_left
        intro c hc
        have : c ≠ x := fun h => hnd.1 (h ▸ hc)
        simp [this]
      rw [this]
      by_cases hP : P <;> simp [hP] <;> omega
    · have he' : e ∈ xs := by
        rcases List.mem_cons.mp he with h | h
        · exact absurd h.symm hx
        · exact h
      rw [ih hnd.2 he']
      simp [hx]
      omega

theorem sum_map_sub_at {l : List Str} (g : Str → Nat) (e : Str) (P : Prop) [Decidable P] (n : Nat)
    (hnd : l.Nodup) (he : e ∈ l) (hn : P → n ≤ g e) :
    (l.map fun c => g c - (if c = e ∧ P then n else 0)).sum = (l.map g).sum - (if P then n else 0) := by
  induction l with
  | nil => cases he
  | cons x xs ih =>
    simp only [List.nodup_cons] at hnd
    simp only [List.map_cons, List.sum_cons]
    by_cases hx : x = e
    · subst hx
      have : (xs.map fun c => g c - (if c = x ∧ P then n else 0)).sum = (xs.map g).sum := by
        congr 1
        apply List.map_congr_left
        intro c hc
        have : c ≠ x := fun h => hnd.1 (h ▸ hc)
        simp [this]
      rw [this]
      by_cases hP : P
      · have := hn hP
        simp [hP]; omega
      · simp [hP]
    · have he' : e ∈ xs := by
        rcases List.mem_cons.mp he with h | h
        · exact absurd h.symm hx
        · exact h
      rw [ih hnd.2 he']
      simp only [hx, false_and, if_false, Nat.sub_zero]
      have hge : (if P then n else 0) ≤ (xs.map g).sum := by
        by_cases hP : P
        · simp only [hP, if_true]
          have := hn hP
          have hm : g e ≤ (xs.map g).sum := le_sum_of_mem g e he'
          omega
        · simp [hP]
      omega

theorem escOK_congr {cfg : Config} {es : List Str} {ch ch' : Chain}
    (h : EscOK cfg es ch) (hte : ch'.totalEscrow = ch.totalEscrow)
    (hb : ∀ e x, ch'.bank.bal (cfg.escrowAddr transferPort e) x = ch.bank.bal (cfg.escrowAddr transferPort e) x) :
    EscOK cfg es ch' := by
  intro d
  rw [hte, h d]
  congr 1
  apply List.map_congr_left
  intro e _
  rw [hb]

theorem escOK_send {cfg : Config} (ha : Assm cfg) {es : List Str} (hnd : es.Nodup) {c : Nat} {ch ch' : Chain}
    {chan : Str} {tok : Denom} {n : Nat} {s : Addr} (h : EscOK cfg es ch) (hchan : chan ∈ es) (hs : NotEscrow cfg s)
    (hst : sendTransfer cfg c ch transferPort chan tok n s = .ok ch') : EscOK cfg es ch' := by
  obtain ⟨_, _, _, _, heff⟩ := sendTransfer_effect hst
  rcases heff with ⟨_, _, hbal, _, hte⟩ | ⟨_, hbal, _, hte⟩
  · refine escOK_congr h hte ?_
    intro e x
    rw [hbal]
    have : ¬ (x = Denom.ibcDenom cfg.hashHex tok ∧ cfg.escrowAddr transferPort e = s) := fun hh => hs _ _ hh.2.symm
    simp [this]
  · intro d
    rw [hte d]
    have : (es.map fun e => ch'.bank.bal (cfg.escrowAddr transferPort e) d) =
        es.map fun e => ch.bank.bal (cfg.escrowAddr transferPort e) d + (if e = chan ∧ d = Denom.ibcDenom cfg.hashHex tok then n else 0) := by
      apply List.map_congr_left
      intro e _
      rw [hbal, moveBal_esc_in ha _ _ _ _ _ hs]
    rw [this, sum_map_add_at _ _ _ _ hnd hchan, h d]
    split_ifs <;> rfl

theorem escOK_unescrow {cfg : Config} (ha : Assm cfg) {es : List Str} (hnd : es.Nodup) {ch ch' : Chain}
    {chan k : Str} {n : Nat} {r : Addr} (h : EscOK cfg es ch) (hchan : chan ∈ es) (hr : NotEscrow cfg r)
    (hn : n ≤ ch.bank.bal (cfg.escrowAddr transferPort chan) k)
    (hbal : ∀ a x, ch'.bank.bal a x = moveBal ch.bank.bal (cfg.escrowAddr transferPort chan) r k n a x)
    (hte : ∀ x, ch'.totalEscrow x = if x = k then ch.totalEscrow x - n else ch.totalEscrow x) : EscOK cfg es ch' := by
  intro d
  rw [hte d]
  have : (es.map fun e => ch'.bank.bal (cfg.escrowAddr transferPort e) d) =
      es.map fun e => ch.bank.bal (cfg.escrowAddr transferPort e) d - (if e = chan ∧ d = k then n else 0) := by
    apply List.map_congr_left
    intro e _
    rw [hbal, moveBal_esc_out ha _ _ _ _ _ hr]
  rw [this, sum_map_sub_at _ _ _ _ hnd hchan (fun hd => by rw [hd]; exact hn), h d]
  split_ifs <;> rfl

/-- an amount leaves one escrow account (to be burnt) and the tracked total drops with it -/
theorem escOK_unescrow' {cfg : Config} (ha : Assm cfg) {es : List Str} (hnd : es.Nodup) {ch ch' : Chain}
    {chan k : Str} {n : Nat} (h : EscOK cfg es ch) (hchan : chan ∈ es)
    (hn : n ≤ ch.bank.bal (cfg.escrowAddr transferPort chan) k)
    (hbal : ∀ a x, ch'.bank.bal a x = if x = k ∧ a = cfg.escrowAddr transferPort chan then ch.bank.bal a x - n else ch.bank.bal a x)
    (hte : ∀ x, ch'.totalEscrow x = if x = k then ch.totalEscrow x - n else ch.totalEscrow x) : EscOK cfg es ch' := by
  intro d
  rw [hte d]
  have : (es.map fun e => ch'.bank.bal (cfg.escrowAddr transferPort e) d) =
      es.map fun e => ch.bank.bal (cfg.escrowAddr transferPort e) d - (if e = chan ∧ d = k then n else 0) := by
    apply List.map_congr_left
    intro e _
    rw [hbal]
    have h1 : cfg.escrowAddr transferPort e = cfg.escrowAddr transferPort chan ↔ e = chan :=
      ⟨fun hh => (ha.escInj _ _ _ _ hh).2, fun hh => by rw [hh]⟩
    by_cases hd : d = k <;> by_cases ec : e = chan <;> simp [hd, ec, h1]
  rw [this, sum_map_sub_at _ _ _ _ hnd hchan (fun hd => by rw [hd]; exact hn), h d]
  split_ifs <;> rfl

/-- the transfer escrow accounts of every chain: duplicate-free, and containing every channel / client
    identifier that has a counterparty -/
structure EndsOK (cfg : Config) (ends : Nat → List Str) : Prop where
  nodup : ∀ c, (ends c).Nodup
  covers : ∀ c id c' id', cfg.peer c id = some (c', id') → id ∈ ends c

def EscInv (cfg : Config) (ends : Nat → List Str) (w : World) : Prop := ∀ c, EscOK cfg (ends c) (w.chains c)

theorem escInv_step {cfg : Config} (ha : Assm cfg) {ends : Nat → List Str} (he : EndsOK cfg ends) {w : World}
    (hi : Inv cfg w) (hesc : EscInv cfg ends w) (op : Op) (hg : Guard w op) (hpo : PartiesOK cfg op) :
    EscInv cfg ends (step cfg w op).1 := by
  obtain ⟨hwi, hl, hpi, _⟩ := hi
  intro c0
  by_cases hc0 : c0 ≠ opChain op
  · rw [step_other_chain cfg w op c0 hc0]; exact hesc c0
  have hc0' : c0 = opChain op := Classical.not_not.mp hc0
  cases op with
  | transfer c signer viaTx m ce seq =>
    simp only [opChain] at hc0'; subst hc0'
    rcases step_transfer_cases cfg w c0 signer viaTx m ce seq with ⟨p, hpp⟩ | hsame
    · have hstep : step cfg w (.transfer c0 signer viaTx m ce seq) = ((step cfg w (.transfer c0 signer viaTx m ce seq)).1, .sent p) :=
        Prod.ext rfl hpp
      obtain ⟨_, ch', ht, hw'⟩ := step_transfer_sent hstep
      obtain ⟨s, n, tok, hs, _, _, _, _, _, hc', _, hsc, _, hpeer, _, hst⟩ := transfer_ok ht
      rw [hw']
      simp only [World.setChain, if_true]
      have hchan : m.chan ∈ ends c0 := he.covers _ _ _ _ hpeer
      rcases hst with ⟨_, hst⟩ | ⟨_, _, hst⟩
      · exact escOK_send ha (he.nodup c0) (hesc c0) hchan (hpo.1 s hs) hst
      · exact escOK_send ha (he.nodup c0) (hesc c0) hchan (hpo.1 s hs) hst
    · rw [hsame]; exact hesc c0
  | sendV2 c signer client data ce seq =>
    simp only [opChain] at hc0'; subst hc0'
    rcases step_sendV2_cases cfg w c0 signer client data ce seq with ⟨p, hpp⟩ | hsame
    · have hstep : step cfg w (.sendV2 c0 signer client data ce seq) = ((step cfg w (.sendV2 c0 signer client data ce seq)).1, .sent p) :=
        Prod.ext rfl hpp
      obtain ⟨ch', ht, hw'⟩ := step_sendV2_sent hstep
      obtain ⟨s, _, hs', _, _, _, _, _, _, hpeer, _, _, _, hst⟩ := sendPacketV2_ok ht
      rw [hw']
      simp only [World.setChain, if_true]
      exact escOK_send ha (he.nodup c0) (hesc c0) (he.covers _ _ _ _ hpeer) (hpo.1 s hs') hst
    · rw [hsame]; exact hesc c0
  | recv p =>
    simp only [opChain] at hc0'; subst hc0'
    obtain ⟨hps, _, _⟩ := hg
    obtain ⟨_, _, hsp, hdp, hpp, _⟩ := hwi.sent p hps
    have hchan : p.dstChan ∈ ends p.dstChain := he.covers _ _ _ _ (ha.peerSym _ _ _ _ hpp)
    rcases step_recv_cases cfg w p with ⟨ch', o, hr, hstep⟩ | hsame
    · rw [hstep]
      simp only [World.setChain, if_true]
      rcases recvPacket_ok hr with ⟨_, hon⟩ | ⟨_, rfl⟩
      · obtain ⟨r, hrd, _, _, _, heff⟩ := onRecvPacket_effect hon
        have hrne : NotEscrow cfg r := (hpi p hps).2 r hrd
        rw [hdp] at heff
        rcases heff with ⟨_, _, hn, _, hbal, _, hte⟩ | ⟨_, _, hbal, _, hte⟩
        · exact escOK_unescrow ha (he.nodup _) (hesc _) hchan hrne hn hbal hte
        · refine escOK_congr (hesc _) hte ?_
          intro e x
          rw [hbal]
          have : ¬ (x = ics20RecvCoinDenom cfg.hashHex p.srcPort p.srcChan transferPort p.dstChan p.data.denom ∧
              cfg.escrowAddr transferPort e = r) := fun hh => hrne _ _ hh.2.symm
          simp [this]
      · exact hesc _
    · rw [hsame]; exact hesc _
  | ack p a =>
    simp only [opChain] at hc0'; subst hc0'
    obtain ⟨hps, _, _, _⟩ := hg
    obtain ⟨_, _, hsp, _, hpp, _⟩ := hwi.sent p hps
    have hchan : p.srcChan ∈ ends p.srcChain := he.covers _ _ _ _ hpp
    rcases step_ack_cases cfg w p a with ⟨ch', hak, hstep⟩ | ⟨hsame, _⟩
    · rw [hstep]
      simp only [World.setChain, if_true]
      rcases ackPacket_ok hak with ⟨_, rfl⟩ | ⟨_, href⟩
      · exact hesc _
      · obtain ⟨s, hsd, _, _, _, heff⟩ := refund_effect href
        have hsne : NotEscrow cfg s := (hpi p hps).1 s hsd
        rw [hsp] at heff
        rcases heff with ⟨_, hbal, _, hte⟩ | ⟨_, hn, _, hbal, _, hte⟩
        · refine escOK_congr (hesc _) hte ?_
          intro e x
          rw [hbal]
          have : ¬ (x = Denom.ibcDenom cfg.hashHex (extract p.data.denom) ∧ cfg.escrowAddr transferPort e = s) :=
            fun hh => hsne _ _ hh.2.symm
          simp [this]
        · exact escOK_unescrow ha (he.nodup _) (hesc _) hchan hsne hn hbal hte
    · rw [hsame]; exact hesc _
  | timeout p oc =>
    simp only [opChain] at hc0'; subst hc0'
    obtain ⟨hps, _, _, _⟩ := hg
    obtain ⟨_, _, hsp, _, hpp, _⟩ := hwi.sent p hps
    have hchan : p.srcChan ∈ ends p.srcChain := he.covers _ _ _ _ hpp
    rcases step_timeout_cases cfg w p oc with ⟨ch', hto, hstep⟩ | ⟨hsame, _⟩
    · rw [hstep]
      simp only [World.setChain, if_true]
      obtain ⟨s, hsd, _, _, _, heff⟩ := refund_effect (timeoutPacket_ok hto)
      have hsne : NotEscrow cfg s := (hpi p hps).1 s hsd
      rw [hsp] at heff
      rcases heff with ⟨_, hbal, _, hte⟩ | ⟨_, hn, _, hbal, _, hte⟩
      · refine escOK_congr (hesc _) hte ?_
        intro e x
        rw [hbal]
        have : ¬ (x = Denom.ibcDenom cfg.hashHex (extract p.data.denom) ∧ cfg.escrowAddr transferPort e = s) :=
          fun hh => hsne _ _ hh.2.symm
        simp [this]
      · exact escOK_unescrow ha (he.nodup _) (hesc _) hchan hsne hn hbal hte
    · rw [hsame]; exact hesc _
  | setParams c s r =>
    simp only [opChain] at hc0'; subst hc0'
    simp only [step, World.setChain, if_true]
    exact hesc c0
  | bankSend c f t dn n =>
    simp only [opChain] at hc0'; subst hc0'
    simp only [step]
    split
    · exact hesc c0
    · split
      · rename_i b hb
        obtain ⟨_, _, hbal⟩ := Bank.send_some' hb
        simp only [World.setChain, if_true]
        refine escOK_congr (hesc c0) rfl ?_
        intro e x
        simp only
        rw [hbal]
        unfold moveBal
        have h1 : cfg.escrowAddr transferPort e ≠ t := fun h => hpo.2 _ _ h.symm
        have h2 : cfg.escrowAddr transferPort e ≠ f := fun h => hpo.1 _ _ h.symm
        simp [h1, h2]
      · exact hesc c0

theorem escInv_run {cfg : Config} (ha : Assm cfg) {ends : Nat → List Str} (he : EndsOK cfg ends) :
    ∀ (ops : List Op) (w : World), Inv cfg w → EscInv cfg ends w → LifecycleOK cfg w ops →
      (∀ op ∈ ops, PartiesOK cfg op) → EscInv cfg ends (run cfg w ops) := by
  intro ops
  induction ops with
  | nil => intro w _ h _ _; exact h
  | cons op ops ih =>
    intro w hi hesc hl hp
    have hpo := hp op List.mem_cons_self
    exact ih _ (inv_step ha hi op hl.1 hpo) (escInv_step ha he hi hesc op hl.1 hpo) hl.2
      (fun o ho => hp o (List.mem_cons_of_mem _ ho))

/-! ### a returning voucher finds its escrow -/

theorem le_sum_of_mem' {α : Type} {l : List α} (g : α → Nat) (e : α) (he : e ∈ l) : g e ≤ (l.map g).sum := by
  induction l with
  | nil => cases he
  | cons x xs ih =>
    simp only [List.map_cons, List.sum_cons]
    rcases List.mem_cons.mp he with h | h
    · subst h; omega
    · have := ih h; omega

theorem le_pendingSum {w : World} {sel : Packet → Bool} {p : Packet} (hp : p ∈ w.sent) (hs : sel p = true)
    (hpend : pending w p = true) : p.data.amount ≤ pendingSum w sel := by
  unfold pendingSum
  apply le_sum_of_mem' (fun q => q.data.amount) p
  rw [List.mem_filter]
  exact ⟨hp, by simp [hs, hpend]⟩

/-- the unescrow branch of `OnRecvPacket` succeeds when nothing on the receiving side objects and the
    escrow account (and the tracked total) hold the amount -/
theorem onRecvPacket_unwind_succeeds {cfg : Config} {c : Nat} {ch : Chain} {data : PacketData} {sp sc dp dc : Str} {r : Addr}
    (hv : validatePacketData data = none) (hre : ch.recvEnabled = true) (hr : cfg.decode data.receiver = some r)
    (hb : isBlockedAddr cfg c r = false)
    (hsdk : sdkValidDenom (ics20RecvCoinDenom cfg.hashHex sp sc dp dc data.denom) = true)
    (hp : (extract data.denom).hasPrefix sp sc = true)
    (hn : data.amount ≤ ch.bank.bal (cfg.escrowAddr dp dc) (ics20RecvCoinDenom cfg.hashHex sp sc dp dc data.denom))
    (hte : data.amount ≤ ch.totalEscrow (ics20RecvCoinDenom cfg.hashHex sp sc dp dc data.denom)) :
    ∃ ch', onRecvPacket cfg c ch data sp sc dp dc = .ok ch' := by
  obtain ⟨b', hb'⟩ := Bank.send_isSome (t := r) hn
  unfold onRecvPacket
  simp only [hv, hre, hr, hb, hsdk, hp, Bool.not_true, Bool.false_eq_true, if_false, if_true]
  unfold unescrowCoin
  simp only [hb']
  have : ¬ ch.totalEscrow (ics20RecvCoinDenom cfg.hashHex sp sc dp dc data.denom) < data.amount := by omega
  simp only [this, if_false]
  exact ⟨_, rfl⟩

/-! ### sending a voucher back -/

theorem Bank.burn_isSome {b : Bank} {m : Addr} {d : Str} {n : Nat} (h1 : n ≤ b.bal m d) (h2 : n ≤ b.supply d) :
    ∃ b', b.burn m d n = some b' := by
  unfold Bank.burn
  have : ¬ (b.bal m d < n ∨ b.supply d < n) := by omega
  simp only [this, if_false]
  exact ⟨_, rfl⟩

/-- the burn branch of `SendTransfer` succeeds when nothing on the sending side objects and the sender
    holds the vouchers -/
theorem sendTransfer_burn_succeeds {cfg : Config} {c : Nat} {ch : Chain} {port chan : Str} {tok : Denom} {n : Nat} {s : Addr}
    (hse : ch.sendEnabled = true) (hbl : isBlockedAddr cfg c s = false)
    (hsdk : sdkValidDenom (tok.ibcDenom cfg.hashHex) = true) (hpre : tok.hasPrefix port chan = true)
    (hf : n ≤ ch.bank.bal s (tok.ibcDenom cfg.hashHex)) (hsup : n ≤ ch.bank.supply (tok.ibcDenom cfg.hashHex)) :
    ∃ ch', sendTransfer cfg c ch port chan tok n s = .ok ch' := by
  obtain ⟨b1, hb1⟩ := Bank.send_isSome (t := cfg.moduleAddr) hf
  obtain ⟨_, hs1, hbal1⟩ := Bank.send_some hb1
  have hm : n ≤ b1.bal cfg.moduleAddr (tok.ibcDenom cfg.hashHex) := by
    rw [hbal1]
    simp only [if_true]
    split_ifs <;> omega
  obtain ⟨b2, hb2⟩ := Bank.burn_isSome hm (by rw [hs1]; exact hsup)
  unfold sendTransfer
  simp only [ics20SendCoinDenom, hse, hbl, hsdk, hpre, Bool.not_true, Bool.false_eq_true, if_false, if_true, hb1, hb2]
  exact ⟨_, rfl⟩

/-- a voucher recorded in the store is found by `TokenFromCoin` under its coin denomination
    (`ibc/` + hash of its path), given the store is keyed (`DenomsKeyed`) and the hash is printed as
    64 upper-case hex digits -/
theorem tokenFromCoin_of_stored {cfg : Config} {ch : Chain} {Y : Denom}
    (hk : (ch.denoms.map fun x => cfg.hashHex x.path).Nodup) (hmem : Y ∈ ch.denoms)
    (hfmt : validHexHash (cfg.hashHex Y.path) = true)
    (hup : (cfg.hashHex Y.path).map Char.toUpper = cfg.hashHex Y.path) :
    tokenFromCoin cfg ch ("ibc/".toList ++ cfg.hashHex Y.path) = .ok Y := by
  unfold tokenFromCoin
  have hs : stripPrefix "ibc/".toList ("ibc/".toList ++ cfg.hashHex Y.path) = some (cfg.hashHex Y.path) := by
    unfold stripPrefix
    rw [isPrefixOf_append_self]
    simp
  simp only [hs, hfmt, Bool.not_true, Bool.false_eq_true, if_false, hup, getDenom_of_mem hk Y hmem]

/-- **`MsgTransfer` accepts a voucher for the way home.**  On a chain holding voucher `Y` whose first hop
    is the channel `m.chan` it is sent over (v1), with `TokenFromCoin` resolving the coin to `Y`: if
    sending is enabled, the sender decodes and is not blocked, the amount is positive and covered, the
    sender / receiver strings are non-blank, and core IBC commits the packet, then `Transfer` succeeds,
    burns exactly that amount of the voucher and emits a packet carrying `Y`'s path. -/
theorem transfer_voucher_home_succeeds {cfg : Config} {c : Nat} {ch : Chain} {m : MsgTransfer} {seq : Nat} {Y : Denom}
    {s : Addr} {dc : Nat} {did : Str}
    (hse : ch.sendEnabled = true) (hs : cfg.decode m.sender = some s) (hbl : isBlockedAddr cfg c s = false)
    (hamt : m.amount ≠ unbounded) (hpos : m.amount ≠ 0)
    (htok : tokenFromCoin cfg ch m.denom = .ok Y) (hY : GoodDenom Y) (hYv : Y.validate = none)
    (hpre : Y.hasPrefix transferPort m.chan = true)
    (hnb1 : goBlank m.sender = false) (hnb2 : goBlank m.receiver = false)
    (hv1 : cfg.hasChannel c m.port m.chan = true) (hal : m.alias = false)
    (hpeer : cfg.peer c m.chan = some (dc, did))
    (hf : m.amount ≤ ch.bank.bal s (Y.ibcDenom cfg.hashHex)) (hsup : m.amount ≤ ch.bank.supply (Y.ibcDenom cfg.hashHex))
    (hsdk : sdkValidDenom (Y.ibcDenom cfg.hashHex) = true) :
    ∃ ch' p, transfer cfg c ch m none seq = .ok (ch', p) ∧ p.data.denom = Y.path ∧ p.data.amount = m.amount ∧
      p.dstChain = dc ∧ p.dstChan = did ∧
      ch'.bank.supply (Y.ibcDenom cfg.hashHex) + m.amount = ch.bank.supply (Y.ibcDenom cfg.hashHex) := by
  obtain ⟨ch', hst⟩ := sendTransfer_burn_succeeds (cfg := cfg) (c := c) (port := transferPort) (chan := m.chan) hse hbl hsdk hpre hf hsup
  have hexp : expandAmount ch s m = some m.amount := by simp [expandAmount, hamt]
  have hval : validatePacketData ⟨Y.path, m.amount, m.sender, m.receiver, m.memo⟩ = none := by
    simp [validatePacketData, hpos, hnb1, hnb2, hY.stable.symm ▸ hYv, show extract Y.path = Y from hY.stable, hYv]
  refine ⟨ch', ⟨c, transferPort, m.chan, dc, transferPort, did, seq, false, ⟨Y.path, m.amount, m.sender, m.receiver, m.memo⟩⟩, ?_, rfl, rfl, rfl, rfl, ?_⟩
  · unfold transfer
    simp only [hse, hs, hexp, htok, hY.1, hval, hv1, hal, hst, hpeer, Bool.not_true, Bool.false_eq_true, if_false,
      Bool.not_false, Bool.and_self, if_true]
  · obtain ⟨_, _, _, _, heff⟩ := sendTransfer_effect hst
    rcases heff with ⟨_, hsn, _, hsup', _⟩ | ⟨hpF, _⟩
    · rw [hsup']; simp only [if_true]; omega
    · rw [hpre] at hpF; cases hpF

end IbcVerif.Ics20
