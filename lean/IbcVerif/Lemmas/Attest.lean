/-
  Helper lemmas for the attestations light client model (property C28).
-/
import IbcVerif.Model.Attest
namespace IbcVerif.Attest

/-- the signature loop succeeds exactly on a list of genuine signatures over `d` by pairwise distinct,
configured, not yet seen signers -/
theorem sigLoop_ok_iff (att : List Addr) (d : Bytes) (sigs : List Sig) (seen : List Addr) :
    sigLoop att d sigs seen = .ok () ↔
      ∃ signers : List Addr, sigs = signers.map (fun a => Sig.signed a d) ∧
        (∀ a ∈ signers, a ∈ att ∧ a ∉ seen) ∧ signers.Nodup := by
  induction sigs generalizing seen with
  | nil =>
    constructor
    · intro _; exact ⟨[], rfl, by simp, List.nodup_nil⟩
    · intro _; rfl
  | cons σ rest ih =>
    cases σ with
    | malformed n =>
      constructor
      · intro h
        simp only [sigLoop, Sig.len, recover] at h
        by_cases hn : (n != 65) = true <;> simp [hn] at h
      · rintro ⟨signers, hs, _, _⟩
        cases signers with
        | nil => simp at hs
        | cons a t => simp at hs
    | unrecoverable =>
      constructor
      · intro h; simp [sigLoop, Sig.len, recover] at h
      · rintro ⟨signers, hs, _, _⟩
        cases signers with
        | nil => simp at hs
        | cons a t => simp at hs
    | signed a d' =>
      by_cases hd : d' = d
      · subst hd
        by_cases hseen : a ∈ seen
        · constructor
          · intro h; simp [sigLoop, Sig.len, recover, hseen] at h
          · rintro ⟨signers, hs, hall, _⟩
            cases signers with
            | nil => simp at hs
            | cons b t =>
              simp only [List.map_cons, List.cons.injEq, Sig.signed.injEq, and_true] at hs
              have := (hall b (by simp)).2
              rw [← hs.1] at this; exact absurd hseen this
        · by_cases hatt : a ∈ att
          · have hstep : sigLoop att d' (Sig.signed a d' :: rest) seen = sigLoop att d' rest (a :: seen) := by
              simp [sigLoop, Sig.len, recover, hseen, hatt]
            rw [hstep, ih]
            constructor
            · rintro ⟨signers, hs, hall, hnd⟩
              refine ⟨a :: signers, by simp [hs], ?_, ?_⟩
              · intro b hb
                rcases List.mem_cons.mp hb with rfl | hb
                · exact ⟨hatt, hseen⟩
                · have := hall b hb
                  exact ⟨this.1, fun h => this.2 (List.mem_cons_of_mem _ h)⟩
              · refine List.nodup_cons.mpr ⟨?_, hnd⟩
                intro hmem
                exact (hall a hmem).2 (List.mem_cons_self ..)
            · rintro ⟨signers, hs, hall, hnd⟩
              cases signers with
              | nil => simp at hs
              | cons b t =>
                simp only [List.map_cons, List.cons.injEq, Sig.signed.injEq, and_true] at hs
                obtain ⟨hab, ht⟩ := hs
                subst hab
                refine ⟨t, ht, ?_, (List.nodup_cons.mp hnd).2⟩
                intro c hc
                have := hall c (List.mem_cons_of_mem _ hc)
                refine ⟨this.1, ?_⟩
                intro hmem
                rcases List.mem_cons.mp hmem with rfl | hmem
                · exact (List.nodup_cons.mp hnd).1 hc
                · exact this.2 hmem
          · constructor
            · intro h; simp [sigLoop, Sig.len, recover, hseen, hatt] at h
            · rintro ⟨signers, hs, hall, _⟩
              cases signers with
              | nil => simp at hs
              | cons b t =>
                simp only [List.map_cons, List.cons.injEq, Sig.signed.injEq, and_true] at hs
                have := (hall b (by simp)).1
                rw [← hs.1] at this; exact absurd this hatt
      · constructor
        · intro h
          have : (d' == d) = false := by simpa using hd
          simp [sigLoop, Sig.len, recover, this] at h
        · rintro ⟨signers, hs, _, _⟩
          cases signers with
          | nil => simp at hs
          | cons b t =>
            simp only [List.map_cons, List.cons.injEq, Sig.signed.injEq] at hs
            exact absurd hs.1.2 hd

/-- errors never change the state; only `update` may -/
theorem step_state_cases (H keccak : Bytes → Bytes) (s : State) (op : Op) :
    (step H keccak s op).1 = s ∨ ∃ msg, op = .update msg := by
  cases op with
  | update msg => right; exact ⟨_, rfl⟩
  | _ => left; (first | rfl | (simp only [step]; done) | (simp only [step]; (repeat' split) <;> rfl))

theorem membership_fwd (H keccak : Bytes → Bytes) (s : State) (height : Nat × Nat)
    (proof : Option Proof) (path : PathArg) (value : Bytes)
    (h : verifyMembership H keccak s height proof path value = .ok ()) :
      s.cs.frozen = false ∧ value.length = 32 ∧ (s.cons.get height).isSome ∧
      ∃ pr k hh packets, proof = some pr ∧ path = .merkle [k] ∧ k ≠ [] ∧
        verifySignatures H s.cs pr.data pr.sigs tagPacket = .ok () ∧
        pr.decPacket = some (hh, packets) ∧ hh = height.2 ∧
        ∃ p ∈ packets, p.1 = keccak k ∧ p.2 = value ∧ p.1.length = 32 := by
  unfold verifyMembership at h
  repeat' (split at h)
  all_goals (try (cases h; done))
  all_goals (try (simp at h; done))
  rename_i hfro hval _x2 ts hcons _proof pr _x1 hsig _x hh packets hdec hheq hpk _path kp hemp hlen hk0 hv32
  obtain ⟨k, rfl⟩ : ∃ k, kp = [k] := by
    cases kp with
    | nil => simp at hlen
    | cons a t =>
      cases t with
      | nil => exact ⟨a, rfl⟩
      | cons _ _ => simp at hlen
  simp only [List.getD_cons_zero] at h hk0
  refine ⟨by simpa using hfro, by simpa using hv32, by simp [hcons], pr, k, hh, packets, rfl, rfl, ?_, hsig, hdec,
    by simpa using hheq, ?_⟩
  · intro hk; subst hk; simp at hk0
  · by_cases hany : (packets.any fun p =>
        List.length p.snd == 32 && List.length p.fst == 32 && p.snd == value && p.fst == keccak k) = true
    · obtain ⟨p, hp, hc⟩ := List.any_eq_true.mp hany
      simp only [Bool.and_eq_true, beq_iff_eq] at hc
      exact ⟨p, hp, hc.2, hc.1.2, hc.1.1.2⟩
    · simp [hany] at h

theorem membership_bwd (H keccak : Bytes → Bytes) (s : State) (height : Nat × Nat)
    (proof : Option Proof) (path : PathArg) (value : Bytes)
    (h : s.cs.frozen = false ∧ value.length = 32 ∧ (s.cons.get height).isSome ∧
      ∃ pr k hh packets, proof = some pr ∧ path = .merkle [k] ∧ k ≠ [] ∧
        verifySignatures H s.cs pr.data pr.sigs tagPacket = .ok () ∧
        pr.decPacket = some (hh, packets) ∧ hh = height.2 ∧
        ∃ p ∈ packets, p.1 = keccak k ∧ p.2 = value ∧ p.1.length = 32) :
    verifyMembership H keccak s height proof path value = .ok () := by
  obtain ⟨hf, hv, hc, pr, k, hh, packets, rfl, rfl, hk, hsig, hdec, rfl, p, hp, hp1, hp2, hp3⟩ := h
  obtain ⟨ts, hts⟩ := Option.isSome_iff_exists.mp hc
  have hklen : (k.length == 0) = false := by cases k <;> simp_all
  have hpk : (packets.length == 0) = false := by cases packets <;> simp_all
  have hany : (packets.any fun q =>
        List.length q.snd == 32 && List.length q.fst == 32 && q.snd == value && q.fst == keccak k) = true := by
    apply List.any_eq_true.mpr
    refine ⟨p, hp, ?_⟩
    simp only [Bool.and_eq_true, beq_iff_eq]
    exact ⟨⟨⟨by rw [hp2]; exact hv, hp3⟩, hp2⟩, hp1⟩
  simp [verifyMembership, hf, PathArg.emptyOrNil, hv, hts, hsig, hdec, hpk, hklen, hany]

theorem nonmembership_fwd (H keccak : Bytes → Bytes) (s : State) (height : Nat × Nat)
    (proof : Option Proof) (path : PathArg)
    (h : verifyNonMembership H keccak s height proof path = .ok ()) :
      s.cs.frozen = false ∧ (s.cons.get height).isSome ∧
      ∃ pr k hh packets, proof = some pr ∧ path = .merkle [k] ∧ k ≠ [] ∧
        verifySignatures H s.cs pr.data pr.sigs tagPacket = .ok () ∧
        pr.decPacket = some (hh, packets) ∧ hh = height.2 ∧
        (∃ p ∈ packets, p.1 = keccak k) ∧ (∀ p ∈ packets, p.1 = keccak k → p.2 = zero32) := by
  unfold verifyNonMembership at h
  repeat' (split at h)
  all_goals (try (cases h; done))
  all_goals (try (simp at h; done))
  rename_i hfro _x2 ts hcons _proof pr _x1 hsig _x hh packets hdec hheq hpk _path kp hemp hlen hk0
  obtain ⟨k, rfl⟩ : ∃ k, kp = [k] := by
    cases kp with
    | nil => simp at hlen
    | cons a t =>
      cases t with
      | nil => exact ⟨a, rfl⟩
      | cons _ _ => simp at hlen
  simp only [List.getD_cons_zero] at h hk0
  refine ⟨by simpa using hfro, by simp [hcons], pr, k, hh, packets, rfl, rfl, ?_, hsig, hdec,
    by simpa using hheq, ?_⟩
  · intro hk; subst hk; simp at hk0
  · by_cases hem : (List.filter (fun p => p.fst == keccak k) packets).isEmpty = true
    · simp [hem] at h
    · by_cases hall : ((List.filter (fun p => p.fst == keccak k) packets).all
          fun p => List.length p.snd == 32 && p.snd == zero32) = true
      · constructor
        · cases hm : List.filter (fun p => p.fst == keccak k) packets with
          | nil => simp [hm] at hem
          | cons p t =>
            have : p ∈ List.filter (fun p => p.fst == keccak k) packets := by rw [hm]; simp
            have := List.mem_filter.mp this
            exact ⟨p, this.1, by simpa using this.2⟩
        · intro p hp hpk'
          have hmem : p ∈ List.filter (fun p => p.fst == keccak k) packets :=
            List.mem_filter.mpr ⟨hp, by simpa using hpk'⟩
          have := List.all_eq_true.mp hall p hmem
          simp only [Bool.and_eq_true, beq_iff_eq] at this
          exact this.2
      · simp [hem, hall] at h

theorem zero32_length : zero32.length = 32 := by simp [zero32]

theorem nonmembership_bwd (H keccak : Bytes → Bytes) (s : State) (height : Nat × Nat)
    (proof : Option Proof) (path : PathArg)
    (h : s.cs.frozen = false ∧ (s.cons.get height).isSome ∧
      ∃ pr k hh packets, proof = some pr ∧ path = .merkle [k] ∧ k ≠ [] ∧
        verifySignatures H s.cs pr.data pr.sigs tagPacket = .ok () ∧
        pr.decPacket = some (hh, packets) ∧ hh = height.2 ∧
        (∃ p ∈ packets, p.1 = keccak k) ∧ (∀ p ∈ packets, p.1 = keccak k → p.2 = zero32)) :
    verifyNonMembership H keccak s height proof path = .ok () := by
  obtain ⟨hf, hc, pr, k, hh, packets, rfl, rfl, hk, hsig, hdec, rfl, ⟨p, hp, hp1⟩, hall⟩ := h
  obtain ⟨ts, hts⟩ := Option.isSome_iff_exists.mp hc
  have hklen : (k.length == 0) = false := by cases k <;> simp_all
  have hpk : (packets.length == 0) = false := by cases packets <;> simp_all
  have hmem : p ∈ List.filter (fun p => p.fst == keccak k) packets :=
    List.mem_filter.mpr ⟨hp, by simpa using hp1⟩
  have hem : (List.filter (fun p => p.fst == keccak k) packets).isEmpty = false := by
    cases hm : List.filter (fun p => p.fst == keccak k) packets with
    | nil => rw [hm] at hmem; simp at hmem
    | cons _ _ => rfl
  have hall' : ((List.filter (fun p => p.fst == keccak k) packets).all
      fun p => List.length p.snd == 32 && p.snd == zero32) = true := by
    apply List.all_eq_true.mpr
    intro q hq
    have hq' := List.mem_filter.mp hq
    have := hall q hq'.1 (by simpa using hq'.2)
    simp [this, zero32_length]
  simp [verifyNonMembership, hf, PathArg.emptyOrNil, hts, hsig, hdec, hpk, hklen, hem, hall']

end IbcVerif.Attest
