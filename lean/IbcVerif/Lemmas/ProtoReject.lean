import IbcVerif.Lemmas.ProtoVarint
namespace IbcVerif.Proto
open IbcVerif

theorem slice_mid' {α : Type} (A B C : List α) (lo hi : Nat) (hlo : lo = A.length) (hhi : hi = A.length + B.length) :
    G.slice (A ++ (B ++ C)) lo hi = .ok B := by
  subst hlo hhi
  unfold G.slice
  rw [if_pos (by simp)]
  congr 1
  rw [← List.append_assoc, List.take_append_of_le_length (by simp), List.take_of_length_le (by simp),
    List.drop_left]

theorem encField_nonempty (num : Nat) (v : Bytes) (h : v ≠ []) :
    encField num v = encVarint (tagOf num) ++ (encVarint v.length ++ v) := by
  cases v with
  | nil => exact absurd rfl h
  | cons x xs => simp [encField]

theorem encField_empty (num : Nat) : encField num [] = [] := by simp [encField]

theorem rejectLoop_succ (k fuel : Nat) (d : Bytes) (i : Nat) :
    rejectLoop k (fuel + 1) d i =
    (if i ≥ d.length then .ok ()
    else do
      let (tag, i1) ← varint true d i
      if tag / 8 > 2147483647 then .err "invalid length"
      else if tag / 8 < 1 then .err "invalid length"
      else
        let num := tag / 8
        let wt := tag % 8
        if num ≤ k then
          if wt ≠ 2 then .err "mismatched wire type"
          else do
            let (m, i2) ← varint true d i1
            if m > d.length - i2 then .err "could not consume field value: truncated"
            else rejectLoop k fuel d (i2 + m)
        else .err "unknown field") := by
  rw [rejectLoop]

/-- one iteration of the reject loop over a well-formed known field -/
theorem rejectLoop_step (k fuel : Nat) (d pre rest v : Bytes) (num i : Nat)
    (hd : d = pre ++ (encVarint (tagOf num) ++ (encVarint v.length ++ v) ++ rest)) (hi : i = pre.length)
    (h1 : 1 ≤ num) (hk : num ≤ k) (hk31 : k < 2 ^ 31) (hv : v.length < 2 ^ 64) :
    rejectLoop k (fuel + 1) d i =
      rejectLoop k fuel d (i + (encVarint (tagOf num) ++ (encVarint v.length ++ v)).length) := by
  have htag : tagOf num < 2 ^ 64 := by unfold tagOf; omega
  have hlen : d.length = pre.length + (encVarint (tagOf num)).length + (encVarint v.length).length + v.length + rest.length := by
    rw [hd]; simp; omega
  have hp1 := encVarint_length_pos (tagOf num)
  have e1 : d = pre ++ (encVarint (tagOf num) ++ ((encVarint v.length ++ v) ++ rest)) := by rw [hd]; simp
  have v1 := varint_enc true (tagOf num) htag d pre _ i e1 hi
  have e2 : d = (pre ++ encVarint (tagOf num)) ++ (encVarint v.length ++ (v ++ rest)) := by rw [hd]; simp
  have v2 := varint_enc true v.length hv d _ _ (i + (encVarint (tagOf num)).length) e2 (by simp [hi])
  rw [rejectLoop_succ, if_neg (by omega), v1]
  simp only [G.bind_ok]
  have t8 : tagOf num / 8 = num := by unfold tagOf; omega
  have t7 : tagOf num % 8 = 2 := by unfold tagOf; omega
  rw [t8, t7, if_neg (by omega), if_neg (by omega), if_pos hk, if_neg (by simp), v2]
  simp only [G.bind_ok]
  rw [if_neg (by omega)]
  congr 1
  simp only [List.length_append]; omega

theorem rejectLoop_encFields (k : Nat) (hk31 : k < 2 ^ 31) : ∀ (vals : List Bytes) (num fuel : Nat) (d pre : Bytes),
    d = pre ++ encFieldsFrom num vals → 1 ≤ num → num + vals.length ≤ k + 1 →
    (encFieldsFrom num vals).length + 1 ≤ fuel →
    (∀ v ∈ vals, v.length < 2 ^ 64) →
    rejectLoop k fuel d pre.length = .ok ()
  | [], num, fuel, d, pre, hd, _, _, hf, _ => by
    obtain ⟨f, rfl⟩ : ∃ f, fuel = f + 1 := ⟨fuel - 1, by omega⟩
    rw [rejectLoop_succ, if_pos (by rw [hd]; simp [encFieldsFrom])]
  | v :: vs, num, fuel, d, pre, hd, h1, hk, hf, hv => by
    by_cases he : v = []
    · subst he
      exact rejectLoop_encFields k hk31 vs (num + 1) fuel d pre (by rw [hd]; simp [encFieldsFrom, encField_empty])
        (by omega) (by simp at hk; omega) (by simpa [encFieldsFrom, encField_empty] using hf)
        (fun x hx => hv x (List.mem_cons_of_mem _ hx))
    · have hp := encVarint_length_pos (tagOf num)
      have hfl : (encFieldsFrom num (v :: vs)).length =
          (encVarint (tagOf num) ++ (encVarint v.length ++ v)).length + (encFieldsFrom (num + 1) vs).length := by
        simp [encFieldsFrom, encField_nonempty num v he]; omega
      have hpos : 0 < (encVarint (tagOf num) ++ (encVarint v.length ++ v)).length := by
        simp only [List.length_append]; omega
      obtain ⟨f, rfl⟩ : ∃ f, fuel = f + 1 := ⟨fuel - 1, by omega⟩
      have hd' : d = pre ++ (encVarint (tagOf num) ++ (encVarint v.length ++ v) ++ encFieldsFrom (num + 1) vs) := by
        rw [hd]; simp [encFieldsFrom, encField_nonempty num v he]
      rw [rejectLoop_step k f d pre _ v num pre.length hd' rfl h1 (by simp at hk; omega) hk31 (hv v List.mem_cons_self)]
      have := rejectLoop_encFields k hk31 vs (num + 1) f d (pre ++ (encVarint (tagOf num) ++ (encVarint v.length ++ v)))
        (by rw [hd']; simp) (by omega) (by simp at hk; omega) (by omega)
        (fun x hx => hv x (List.mem_cons_of_mem _ hx))
      simpa using this

theorem rejectUnknown_encode (k : Nat) (hk31 : k < 2 ^ 31) (vals : List Bytes) (hl : vals.length = k)
    (hv : ∀ v ∈ vals, v.length < 2 ^ 64) : rejectUnknown k (encode vals) = .ok () := by
  unfold rejectUnknown encode
  exact rejectLoop_encFields k hk31 vals 1 _ _ [] rfl (by omega) (by omega) (by omega) hv
end IbcVerif.Proto
