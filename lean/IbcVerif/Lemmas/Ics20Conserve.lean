/-
  Conservation of ICS-20 tokens per channel-end pair: escrow on the source = voucher supply on the
  destination + in flight (both ways), as an inductive invariant of lifecycle-respecting histories.
-/
import IbcVerif.Lemmas.Ics20Logs
namespace IbcVerif.Ics20
open IbcVerif IbcVerif.Xfer

/-- facts about what is outside ibc-go, used by the cross-chain theorems (named hypotheses) -/
structure Assm (cfg : Config) : Prop where
  /-- distinct (port, channel) pairs have distinct escrow addresses (C34 `escrow_address_binds`, modulo a
      collision of the truncated hash) -/
  escInj : ∀ p c p' c', cfg.escrowAddr p c = cfg.escrowAddr p' c' → p = p' ∧ c = c'
  /-- the hash does not collide on the denomination paths in play (idealised SHA-256) -/
  hashInj : ∀ s t, cfg.hashHex s = cfg.hashHex t → s = t
  peerIds : PeerIdsOK cfg
  /-- channel ends are paired -/
  peerSym : ∀ c id c' id', cfg.peer c id = some (c', id') → cfg.peer c' id' = some (c, id)

def NotEscrow (cfg : Config) (a : Addr) : Prop := ∀ p c, a ≠ cfg.escrowAddr p c

/-- the accounts named by messages are user (or module) accounts, not escrow accounts: nobody holds a
    key for an escrow address, and tokens are not sent to escrow addresses outside ICS-20 escrowing -/
def PartiesOK (cfg : Config) : Op → Prop
  | .transfer _ _ _ m _ _ =>
      (∀ a, cfg.decode m.sender = some a → NotEscrow cfg a) ∧ (∀ a, cfg.decode m.receiver = some a → NotEscrow cfg a)
  | .sendV2 _ _ _ data _ _ =>
      (∀ a, cfg.decode data.sender = some a → NotEscrow cfg a) ∧ (∀ a, cfg.decode data.receiver = some a → NotEscrow cfg a)
  | .bankSend _ f t _ _ => NotEscrow cfg f ∧ NotEscrow cfg t
  | _ => True

def PInv (cfg : Config) (w : World) : Prop :=
  ∀ p ∈ w.sent, (∀ a, cfg.decode p.data.sender = some a → NotEscrow cfg a) ∧
    (∀ a, cfg.decode p.data.receiver = some a → NotEscrow cfg a)

abbrev coin (cfg : Config) (d : Denom) : Str := d.ibcDenom cfg.hashHex

def hop (c : Str) : Hop := ⟨transferPort, c⟩

def selF (A : Nat) (cA : Str) (X : Denom) (p : Packet) : Bool :=
  decide (p.srcChain = A ∧ p.srcChan = cA ∧ p.data.denom = X.path)

def selB (B : Nat) (cB : Str) (X : Denom) (p : Packet) : Bool :=
  decide (p.srcChain = B ∧ p.srcChan = cB ∧ p.data.denom = (Denom.mk (hop cB :: X.trace) X.base).path)

/-- **The ICS-20 invariant**, for every channel end `(A, cA)` with peer `(B, cB)` and every token `X` as
    it exists on `A` for which `A` is the source over `cA`. -/
def Conserve (cfg : Config) (w : World) : Prop :=
  ∀ A cA B cB (X : Denom), cfg.peer A cA = some (B, cB) → GoodDenom X → X.hasPrefix transferPort cA = false →
    (w.chains A).bank.bal (cfg.escrowAddr transferPort cA) (coin cfg X) =
      (w.chains B).bank.supply (coin cfg ⟨hop cB :: X.trace, X.base⟩) +
      pendingSum w (selF A cA X) + pendingSum w (selB B cB X)

/-! ### denominations and coins -/

theorem GoodDenom.tail {d : Denom} {h : Hop} {t : List Hop} (hg : GoodDenom d) (ht : d.trace = h :: t) :
    GoodDenom ⟨t, d.base⟩ :=
  ⟨hg.1, hg.2.1, fun x hx => hg.2.2 x (by rw [ht]; exact List.mem_cons_of_mem _ hx)⟩

theorem coin_inj {cfg : Config} (ha : Assm cfg) {X Y : Denom} (hx : GoodDenom X) (hy : GoodDenom Y)
    (h : coin cfg X = coin cfg Y) : X = Y := by
  have key : ∀ (X Y : Denom), GoodDenom X → X.trace = [] → Y.trace ≠ [] → coin cfg X ≠ coin cfg Y := by
    intro X Y hx hxt hyt h
    simp only [coin, Denom.ibcDenom, Denom.isNative, hxt, List.isEmpty_nil, if_true] at h
    cases hyt' : Y.trace with
    | nil => exact hyt hyt'
    | cons y ys =>
      simp only [hyt', List.isEmpty_cons, Bool.false_eq_true, if_false] at h
      have := hx.2.1
      rw [h] at this
      have h2 : ibcSlash.isPrefixOf ("ibc/".toList ++ cfg.hashHex Y.path) = true := isPrefixOf_append_self _ _
      rw [this] at h2; cases h2
  cases hxt : X.trace with
  | nil =>
    cases hyt : Y.trace with
    | nil =>
      simp only [coin, Denom.ibcDenom, Denom.isNative, hxt, hyt, List.isEmpty_nil, if_true] at h
      cases X; cases Y; simp_all
    | cons y ys => exact absurd h (key X Y hx hxt (by rw [hyt]; simp))
  | cons x xs =>
    cases hyt : Y.trace with
    | nil => exact absurd h.symm (key Y X hy hyt (by rw [hxt]; simp))
    | cons y ys =>
      simp only [coin, Denom.ibcDenom, Denom.isNative, hxt, hyt, List.isEmpty_cons, Bool.false_eq_true, if_false,
        List.append_cancel_left_eq] at h
      have hp := ha.hashInj _ _ h
      have h1 := hx.stable
      have h2 := hy.stable
      unfold PathStable at h1 h2
      rw [← h1, ← h2, hp]

theorem good_path_inj {X Y : Denom} (hx : GoodDenom X) (hy : GoodDenom Y) (h : X.path = Y.path) : X = Y := by
  have h1 := hx.stable
  have h2 := hy.stable
  unfold PathStable at h1 h2
  rw [← h1, ← h2, h]

theorem hasPrefix_cons (p c : Str) (t : List Hop) (b : Str) (p' c' : Str) :
    (Denom.mk (⟨p, c⟩ :: t) b).hasPrefix p' c' = (p == p' && c == c') := rfl

theorem hasPrefix_true_iff {d : Denom} {p c : Str} :
    d.hasPrefix p c = true ↔ ∃ t, d.trace = ⟨p, c⟩ :: t := by
  unfold Denom.hasPrefix
  cases ht : d.trace with
  | nil => simp
  | cons h t =>
    simp only [Bool.and_eq_true, beq_iff_eq, List.cons.injEq, exists_eq_right']
    constructor
    · rintro ⟨rfl, rfl⟩; rfl
    · intro e; rw [e]; exact ⟨rfl, rfl⟩

/-! ### escrow-account balances under the bank movements of ICS-20 -/

theorem moveBal_esc_in {cfg : Config} (ha : Assm cfg) (bal : Addr → Str → Nat) (f : Addr) (e k : Str) (n : Nat)
    (hf : NotEscrow cfg f) (c : Str) (x : Str) :
    moveBal bal f (cfg.escrowAddr transferPort e) k n (cfg.escrowAddr transferPort c) x =
      bal (cfg.escrowAddr transferPort c) x + (if c = e ∧ x = k then n else 0) := by
  unfold moveBal
  have hne : cfg.escrowAddr transferPort c ≠ f := fun h => hf _ _ h.symm
  by_cases hx : x = k
  · by_cases hc : c = e
    · subst hc; simp [hx, hne]
    · have : cfg.escrowAddr transferPort c ≠ cfg.escrowAddr transferPort e := fun h => hc (ha.escInj _ _ _ _ h).2
      simp [hx, hc, this, hne]
  · simp [hx]

theorem moveBal_esc_out {cfg : Config} (ha : Assm cfg) (bal : Addr → Str → Nat) (r : Addr) (e k : Str) (n : Nat)
    (hr : NotEscrow cfg r) (c : Str) (x : Str) :
    moveBal bal (cfg.escrowAddr transferPort e) r k n (cfg.escrowAddr transferPort c) x =
      bal (cfg.escrowAddr transferPort c) x - (if c = e ∧ x = k then n else 0) := by
  unfold moveBal
  have hne : cfg.escrowAddr transferPort c ≠ r := fun h => hr _ _ h.symm
  by_cases hx : x = k
  · by_cases hc : c = e
    · subst hc; simp [hx, hne]
    · have : cfg.escrowAddr transferPort c ≠ cfg.escrowAddr transferPort e := fun h => hc (ha.escInj _ _ _ _ h).2
      simp [hx, hc, this, hne]
  · simp [hx]

/-! ### the invariant is preserved by a send -/

theorem selF_iff {A : Nat} {cA : Str} {X tok : Denom} {p : Packet} {c : Nat} {chan : Str}
    (hX : GoodDenom X) (ht : GoodDenom tok) (hpc : p.srcChain = c) (hpch : p.srcChan = chan)
    (hpd : p.data.denom = tok.path) : selF A cA X p = true ↔ (c = A ∧ chan = cA ∧ tok = X) := by
  simp only [selF, decide_eq_true_eq, hpc, hpch, hpd]
  constructor
  · rintro ⟨h1, h2, h3⟩; exact ⟨h1, h2, good_path_inj ht hX h3⟩
  · rintro ⟨h1, h2, h3⟩; exact ⟨h1, h2, by rw [h3]⟩

theorem selB_iff {B : Nat} {cB : Str} {X tok : Denom} {p : Packet} {c : Nat} {chan : Str}
    (hX' : GoodDenom ⟨hop cB :: X.trace, X.base⟩) (ht : GoodDenom tok) (hpc : p.srcChain = c) (hpch : p.srcChan = chan)
    (hpd : p.data.denom = tok.path) :
    selB B cB X p = true ↔ (c = B ∧ chan = cB ∧ tok = ⟨hop cB :: X.trace, X.base⟩) := by
  simp only [selB, decide_eq_true_eq, hpc, hpch, hpd]
  constructor
  · rintro ⟨h1, h2, h3⟩; exact ⟨h1, h2, good_path_inj ht hX' h3⟩
  · rintro ⟨h1, h2, h3⟩; exact ⟨h1, h2, by rw [h3]⟩

theorem good_peer_cons {cfg : Config} (ha : Assm cfg) {A B : Nat} {cA cB : Str} {X : Denom}
    (hpeer : cfg.peer A cA = some (B, cB)) (hX : GoodDenom X) : GoodDenom ⟨hop cB :: X.trace, X.base⟩ := by
  obtain ⟨h1, h2⟩ := ha.peerIds A cA B cB hpeer
  exact hX.cons _ _ transferPort_no_sep h1 h2

theorem conserve_send {cfg : Config} (ha : Assm cfg) {w w' : World} (hl : LInv w) (hc : Conserve cfg w)
    {c : Nat} {chan : Str} {tok : Denom} {n : Nat} {s : Addr} {ch' : Chain} {p : Packet}
    (hst : sendTransfer cfg c (w.chains c) transferPort chan tok n s = .ok ch')
    (hgood : GoodDenom tok) (hs : NotEscrow cfg s) (hfresh : p ∉ w.sent)
    (hpc : p.srcChain = c) (hpch : p.srcChan = chan) (hpd : p.data.denom = tok.path) (hpn : p.data.amount = n)
    (hw' : w' = { w.setChain c ch' with sent := p :: w.sent }) : Conserve cfg w' := by
  intro A cA B cB X hpeer hX hnp
  have hX' := good_peer_cons ha hpeer hX
  have hinv := hc A cA B cB X hpeer hX hnp
  have hF := pendingSum_cons (w' := w') p (selF A cA X) hl hfresh (by rw [hw']) (by rw [hw']; rfl) (by rw [hw']; rfl) (by rw [hw']; rfl)
  have hB := pendingSum_cons (w' := w') p (selB B cB X) hl hfresh (by rw [hw']) (by rw [hw']; rfl) (by rw [hw']; rfl) (by rw [hw']; rfl)
  have hcF := selF_iff (A := A) (cA := cA) hX hgood hpc hpch hpd
  have hcB := selB_iff (B := B) (cB := cB) hX' hgood hpc hpch hpd
  have hchA : w'.chains A = if A = c then ch' else w.chains A := by rw [hw']; rfl
  have hchB : w'.chains B = if B = c then ch' else w.chains B := by rw [hw']; rfl
  obtain ⟨_, _, _, hn0, heff⟩ := sendTransfer_effect hst
  rw [hF, hB, hpn]
  by_cases condF : c = A ∧ chan = cA ∧ tok = X
  · obtain ⟨rfl, rfl, rfl⟩ := condF
    have hsF : selF c chan tok p = true := hcF.mpr ⟨rfl, rfl, rfl⟩
    have hsB : selB B cB tok p = false := by
      cases hh : selB B cB tok p with
      | false => rfl
      | true =>
        obtain ⟨_, _, e⟩ := hcB.mp hh
        have := congrArg (fun d => d.trace.length) e
        simp at this
    rcases heff with ⟨hpT, _⟩ | ⟨_, hbal, hsup, _⟩
    · rw [hnp] at hpT; cases hpT
    · rw [hchA, hchB, hsF, hsB]
      simp only [if_true, Bool.false_eq_true, if_false]
      rw [hbal, moveBal_esc_in ha _ _ _ _ _ hs]
      simp only [and_self, if_true]
      have hsupB : (if B = c then ch' else w.chains B).bank.supply = (w.chains B).bank.supply := by
        split_ifs with hBc
        · rw [hsup, hBc]
        · rfl
      rw [hsupB]
      omega
  · have hsF : selF A cA X p = false := by
      cases hh : selF A cA X p with
      | false => rfl
      | true => exact absurd (hcF.mp hh) condF
    by_cases condB : c = B ∧ chan = cB ∧ tok = ⟨hop cB :: X.trace, X.base⟩
    · obtain ⟨rfl, rfl, rfl⟩ := condB
      have hsB : selB c chan X p = true := hcB.mpr ⟨rfl, rfl, rfl⟩
      rcases heff with ⟨_, hsn, hbal, hsup, _⟩ | ⟨hpF, _⟩
      · rw [hchA, hchB, hsF, hsB]
        simp only [if_true, Bool.false_eq_true, if_false]
        rw [hsup]
        simp only [if_true]
        have hbalA : (if A = c then ch' else w.chains A).bank.bal (cfg.escrowAddr transferPort cA) (coin cfg X) =
            (w.chains A).bank.bal (cfg.escrowAddr transferPort cA) (coin cfg X) := by
          split_ifs with hAc
          · rw [hbal, hAc]
            have : ¬ (coin cfg X = Denom.ibcDenom cfg.hashHex ⟨hop chan :: X.trace, X.base⟩ ∧ cfg.escrowAddr transferPort cA = s) :=
              fun h => hs _ _ h.2.symm
            simp [this]
          · rfl
        rw [hbalA]
        simp only [coin] at hinv hsn ⊢
        omega
      · simp [hop, Denom.hasPrefix] at hpF
    · have hsB : selB B cB X p = false := by
        cases hh : selB B cB X p with
        | false => rfl
        | true => exact absurd (hcB.mp hh) condB
      rw [hsF, hsB]
      simp only [Bool.false_eq_true, if_false, Nat.zero_add]
      have hE1 : (w'.chains A).bank.bal (cfg.escrowAddr transferPort cA) (coin cfg X) =
          (w.chains A).bank.bal (cfg.escrowAddr transferPort cA) (coin cfg X) := by
        rw [hchA]
        split_ifs with hAc
        · subst hAc
          rcases heff with ⟨_, _, hbal, _, _⟩ | ⟨_, hbal, _, _⟩
          · rw [hbal]
            have : ¬ (coin cfg X = Denom.ibcDenom cfg.hashHex tok ∧ cfg.escrowAddr transferPort cA = s) :=
              fun h => hs _ _ h.2.symm
            simp [this]
          · rw [hbal, moveBal_esc_in ha _ _ _ _ _ hs]
            have : ¬ (cA = chan ∧ coin cfg X = Denom.ibcDenom cfg.hashHex tok) := by
              rintro ⟨h1, h2⟩
              exact condF ⟨rfl, h1.symm, (coin_inj ha hX hgood h2).symm⟩
            simp [this]
        · rfl
      have hE2 : (w'.chains B).bank.supply (coin cfg ⟨hop cB :: X.trace, X.base⟩) =
          (w.chains B).bank.supply (coin cfg ⟨hop cB :: X.trace, X.base⟩) := by
        rw [hchB]
        split_ifs with hBc
        · subst hBc
          rcases heff with ⟨hpT, _, _, hsup, _⟩ | ⟨_, _, hsup, _⟩
          · rw [hsup]
            have : coin cfg ⟨hop cB :: X.trace, X.base⟩ ≠ Denom.ibcDenom cfg.hashHex tok := by
              intro h2
              have e := coin_inj ha hX' hgood h2
              subst e
              simp only [hop, hasPrefix_cons, Bool.and_eq_true, beq_iff_eq, true_and] at hpT
              exact condB ⟨rfl, hpT.symm, rfl⟩
            simp [this]
          · rw [hsup]
        · rfl
      rw [hE1, hE2]
      exact hinv

end IbcVerif.Ics20
