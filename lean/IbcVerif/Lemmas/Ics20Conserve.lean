/-
  Conservation of ICS-20 tokens per channel-end pair: escrow on the source = voucher supply on the
  destination + in flight (both ways), as an inductive invariant of lifecycle-respecting histories.
-/
import IbcVerif.Lemmas.Ics20Logs
namespace IbcVerif.Ics20
open IbcVerif IbcVerif.Xfer

/-- facts about what is outside ibc-go, used by the cross-chain theorems (named hypotheses) -/
structure Assm (cfg : Config) : Prop where
  /-- distinct (port, channel) pairs have distinct escrow addresses (C34 `escrow_address_binds`, modulo a
      collision of the truncated hash) -/
  escInj : ∀ p c p' c', cfg.escrowAddr p c = cfg.escrowAddr p' c' → p = p' ∧ c = c'
  /-- the hash does not collide on the denomination paths in play (idealised SHA-256) -/
  hashInj : ∀ s t, cfg.hashHex s = cfg.hashHex t → s = t
  peerIds : PeerIdsOK cfg
  /-- channel ends are paired -/
  peerSym : ∀ c id c' id', cfg.peer c id = some (c', id') → cfg.peer c' id' = some (c, id)

def NotEscrow (cfg : Config) (a : Addr) : Prop := ∀ p c, a ≠ cfg.escrowAddr p c

/-- the accounts named by messages are user (or module) accounts, not escrow accounts: nobody holds a
    key for an escrow address, and tokens are not sent to escrow addresses outside ICS-20 escrowing -/
def PartiesOK (cfg : Config) : Op → Prop
  | .transfer _ _ _ m _ _ =>
      (∀ a, cfg.decode m.sender = some a → NotEscrow cfg a) ∧ (∀ a, cfg.decode m.receiver = some a → NotEscrow cfg a)
  | .sendV2 _ _ _ data _ _ =>
      (∀ a, cfg.decode data.sender = some a → NotEscrow cfg a) ∧ (∀ a, cfg.decode data.receiver = some a → NotEscrow cfg a)
  | .bankSend _ f t _ _ => NotEscrow cfg f ∧ NotEscrow cfg t
  | _ => True

def PInv (cfg : Config) (w : World) : Prop :=
  ∀ p ∈ w.sent, (∀ a, cfg.decode p.data.sender = some a → NotEscrow cfg a) ∧
    (∀ a, cfg.decode p.data.receiver = some a → NotEscrow cfg a)

abbrev coin (cfg : Config) (d : Denom) : Str := d.ibcDenom cfg.hashHex

def hop (c : Str) : Hop := ⟨transferPort, c⟩

def selF (A : Nat) (cA : Str) (X : Denom) (p : Packet) : Bool :=
  decide (p.srcChain = A ∧ p.srcChan = cA ∧ p.data.denom = X.path)

def selB (B : Nat) (cB : Str) (X : Denom) (p : Packet) : Bool :=
  decide (p.srcChain = B ∧ p.srcChan = cB ∧ p.data.denom = (Denom.mk (hop cB :: X.trace) X.base).path)

/-- **The ICS-20 invariant**, for every channel end `(A, cA)` with peer `(B, cB)` and every token `X` as
    it exists on `A` for which `A` is the source over `cA`. -/
def Conserve (cfg : Config) (w : World) : Prop :=
  ∀ A cA B cB (X : Denom), cfg.peer A cA = some (B, cB) → GoodDenom X → X.hasPrefix transferPort cA = false →
    (w.chains A).bank.bal (cfg.escrowAddr transferPort cA) (coin cfg X) =
      (w.chains B).bank.supply (coin cfg ⟨hop cB :: X.trace, X.base⟩) +
      pendingSum w (selF A cA X) + pendingSum w (selB B cB X)

/-! ### denominations and coins -/

theorem GoodDenom.tail {d : Denom} {h : Hop} {t : List Hop} (hg : GoodDenom d) (ht : d.trace = h :: t) :
    GoodDenom ⟨t, d.base⟩ :=
  ⟨hg.1, hg.2.1, fun x hx => hg.2.2 x (by rw [ht]; exact List.mem_cons_of_mem _ hx)⟩

theorem coin_inj {cfg : Config} (ha : Assm cfg) {X Y : Denom} (hx : GoodDenom X) (hy : GoodDenom Y)
    (h : coin cfg X = coin cfg Y) : X = Y := by
  have key : ∀ (X Y : Denom), GoodDenom X → X.trace = [] → Y.trace ≠ [] → coin cfg X ≠ coin cfg Y := by
    intro X Y hx hxt hyt h
    simp only [coin, Denom.ibcDenom, Denom.isNative, hxt, List.isEmpty_nil, if_true] at h
    cases hyt' : Y.trace with
    | nil => exact hyt hyt'
    | cons y ys =>
      simp only [hyt', List.isEmpty_cons, Bool.false_eq_true, if_false] at h
      have := hx.2.1
      rw [h] at this
      have h2 : ibcSlash.isPrefixOf ("ibc/".toList ++ cfg.hashHex Y.path) = true := isPrefixOf_append_self _ _
      rw [this] at h2; cases h2
  cases hxt : X.trace with
  | nil =>
    cases hyt : Y.trace with
    | nil =>
      simp only [coin, Denom.ibcDenom, Denom.isNative, hxt, hyt, List.isEmpty_nil, if_true] at h
      cases X; cases Y; simp_all
    | cons y ys => exact absurd h (key X Y hx hxt (by rw [hyt]; simp))
  | cons x xs =>
    cases hyt : Y.trace with
    | nil => exact absurd h.symm (key Y X hy hyt (by rw [hxt]; simp))
    | cons y ys =>
      simp only [coin, Denom.ibcDenom, Denom.isNative, hxt, hyt, List.isEmpty_cons, Bool.false_eq_true, if_false,
        List.append_cancel_left_eq] at h
      have hp := ha.hashInj _ _ h
      have h1 := hx.stable
      have h2 := hy.stable
      unfold PathStable at h1 h2
      rw [← h1, ← h2, hp]

theorem good_path_inj {X Y : Denom} (hx : GoodDenom X) (hy : GoodDenom Y) (h : X.path = Y.path) : X = Y := by
  have h1 := hx.stable
  have h2 := hy.stable
  unfold PathStable at h1 h2
  rw [← h1, ← h2, h]

theorem hasPrefix_cons (p c : Str) (t : List Hop) (b : Str) (p' c' : Str) :
    (Denom.mk (⟨p, c⟩ :: t) b).hasPrefix p' c' = (p == p' && c == c') := rfl

theorem hasPrefix_true_iff {d : Denom} {p c : Str} :
    d.hasPrefix p c = true ↔ ∃ t, d.trace = ⟨p, c⟩ :: t := by
  unfold Denom.hasPrefix
  cases ht : d.trace with
  | nil => simp
  | cons h t =>
    simp only [Bool.and_eq_true, beq_iff_eq, List.cons.injEq, exists_eq_right']
    constructor
    · rintro ⟨rfl, rfl⟩; rfl
    · intro e; rw [e]; exact ⟨rfl, rfl⟩

/-! ### escrow-account balances under the bank movements of ICS-20 -/

theorem moveBal_esc_in {cfg : Config} (ha : Assm cfg) (bal : Addr → Str → Nat) (f : Addr) (e k : Str) (n : Nat)
    (hf : NotEscrow cfg f) (c : Str) (x : Str) :
    moveBal bal f (cfg.escrowAddr transferPort e) k n (cfg.escrowAddr transferPort c) x =
      bal (cfg.escrowAddr transferPort c) x + (if c = e ∧ x = k then n else 0) := by
  unfold moveBal
  have hne : cfg.escrowAddr transferPort c ≠ f := fun h => hf _ _ h.symm
  by_cases hx : x = k
  · by_cases hc : c = e
    · subst hc; simp [hx, hne]
    · have : cfg.escrowAddr transferPort c ≠ cfg.escrowAddr transferPort e := fun h => hc (ha.escInj _ _ _ _ h).2
      simp [hx, hc, this, hne]
  · simp [hx]

theorem moveBal_esc_out {cfg : Config} (ha : Assm cfg) (bal : Addr → Str → Nat) (r : Addr) (e k : Str) (n : Nat)
    (hr : NotEscrow cfg r) (c : Str) (x : Str) :
    moveBal bal (cfg.escrowAddr transferPort e) r k n (cfg.escrowAddr transferPort c) x =
      bal (cfg.escrowAddr transferPort c) x - (if c = e ∧ x = k then n else 0) := by
  unfold moveBal
  have hne : cfg.escrowAddr transferPort c ≠ r := fun h => hr _ _ h.symm
  by_cases hx : x = k
  · by_cases hc : c = e
    · subst hc; simp [hx, hne]
    · have : cfg.escrowAddr transferPort c ≠ cfg.escrowAddr transferPort e := fun h => hc (ha.escInj _ _ _ _ h).2
      simp [hx, hc, this, hne]
  · simp [hx]

/-! ### the invariant is preserved by a send -/

theorem selF_iff {A : Nat} {cA : Str} {X tok : Denom} {p : Packet} {c : Nat} {chan : Str}
    (hX : GoodDenom X) (ht : GoodDenom tok) (hpc : p.srcChain = c) (hpch : p.srcChan = chan)
    (hpd : p.data.denom = tok.path) : selF A cA X p = true ↔ (c = A ∧ chan = cA ∧ tok = X) := by
  simp only [selF, decide_eq_true_eq, hpc, hpch, hpd]
  constructor
  · rintro ⟨h1, h2, h3⟩; exact ⟨h1, h2, good_path_inj ht hX h3⟩
  · rintro ⟨h1, h2, h3⟩; exact ⟨h1, h2, by rw [h3]⟩

theorem selB_iff {B : Nat} {cB : Str} {X tok : Denom} {p : Packet} {c : Nat} {chan : Str}
    (hX' : GoodDenom ⟨hop cB :: X.trace, X.base⟩) (ht : GoodDenom tok) (hpc : p.srcChain = c) (hpch : p.srcChan = chan)
    (hpd : p.data.denom = tok.path) :
    selB B cB X p = true ↔ (c = B ∧ chan = cB ∧ tok = ⟨hop cB :: X.trace, X.base⟩) := by
  simp only [selB, decide_eq_true_eq, hpc, hpch, hpd]
  constructor
  · rintro ⟨h1, h2, h3⟩; exact ⟨h1, h2, good_path_inj ht hX' h3⟩
  · rintro ⟨h1, h2, h3⟩; exact ⟨h1, h2, by rw [h3]⟩

theorem good_peer_cons {cfg : Config} (ha : Assm cfg) {A B : Nat} {cA cB : Str} {X : Denom}
    (hpeer : cfg.peer A cA = some (B, cB)) (hX : GoodDenom X) : GoodDenom ⟨hop cB :: X.trace, X.base⟩ := by
  obtain ⟨h1, h2⟩ := ha.peerIds A cA B cB hpeer
  exact hX.cons _ _ transferPort_no_sep h1 h2

theorem conserve_send {cfg : Config} (ha : Assm cfg) {w w' : World} (hl : LInv w) (hc : Conserve cfg w)
    {c : Nat} {chan : Str} {tok : Denom} {n : Nat} {s : Addr} {ch' : Chain} {p : Packet}
    (hst : sendTransfer cfg c (w.chains c) transferPort chan tok n s = .ok ch')
    (hgood : GoodDenom tok) (hs : NotEscrow cfg s) (hfresh : p ∉ w.sent)
    (hpc : p.srcChain = c) (hpch : p.srcChan = chan) (hpd : p.data.denom = tok.path) (hpn : p.data.amount = n)
    (hw' : w' = { w.setChain c ch' with sent := p :: w.sent }) : Conserve cfg w' := by
  intro A cA B cB X hpeer hX hnp
  have hX' := good_peer_cons ha hpeer hX
  have hinv := hc A cA B cB X hpeer hX hnp
  have hF := pendingSum_cons (w' := w') p (selF A cA X) hl hfresh (by rw [hw']) (by rw [hw']; rfl) (by rw [hw']; rfl) (by rw [hw']; rfl)
  have hB := pendingSum_cons (w' := w') p (selB B cB X) hl hfresh (by rw [hw']) (by rw [hw']; rfl) (by rw [hw']; rfl) (by rw [hw']; rfl)
  have hcF := selF_iff (A := A) (cA := cA) hX hgood hpc hpch hpd
  have hcB := selB_iff (B := B) (cB := cB) hX' hgood hpc hpch hpd
  have hchA : w'.chains A = if A = c then ch' else w.chains A := by rw [hw']; rfl
  have hchB : w'.chains B = if B = c then ch' else w.chains B := by rw [hw']; rfl
  obtain ⟨_, _, _, hn0, heff⟩ := sendTransfer_effect hst
  rw [hF, hB, hpn]
  by_cases condF : c = A ∧ chan = cA ∧ tok = X
  · obtain ⟨rfl, rfl, rfl⟩ := condF
    have hsF : selF c chan tok p = true := hcF.mpr ⟨rfl, rfl, rfl⟩
    have hsB : selB B cB tok p = false := by
      cases hh : selB B cB tok p with
      | false => rfl
      | true =>
        obtain ⟨_, _, e⟩ := hcB.mp hh
        have := congrArg (fun d => d.trace.length) e
        simp at this
    rcases heff with ⟨hpT, _⟩ | ⟨_, hbal, hsup, _⟩
    · rw [hnp] at hpT; cases hpT
    · rw [hchA, hchB, hsF, hsB]
      simp only [if_true, Bool.false_eq_true, if_false]
      rw [hbal, moveBal_esc_in ha _ _ _ _ _ hs]
      simp only [and_self, if_true]
      have hsupB : (if B = c then ch' else w.chains B).bank.supply = (w.chains B).bank.supply := by
        split_ifs with hBc
        · rw [hsup, hBc]
        · rfl
      rw [hsupB]
      omega
  · have hsF : selF A cA X p = false := by
      cases hh : selF A cA X p with
      | false => rfl
      | true => exact absurd (hcF.mp hh) condF
    by_cases condB : c = B ∧ chan = cB ∧ tok = ⟨hop cB :: X.trace, X.base⟩
    · obtain ⟨rfl, rfl, rfl⟩ := condB
      have hsB : selB c chan X p = true := hcB.mpr ⟨rfl, rfl, rfl⟩
      rcases heff with ⟨_, hsn, hbal, hsup, _⟩ | ⟨hpF, _⟩
      · rw [hchA, hchB, hsF, hsB]
        simp only [if_true, Bool.false_eq_true, if_false]
        rw [hsup]
        simp only [if_true]
        have hbalA : (if A = c then ch' else w.chains A).bank.bal (cfg.escrowAddr transferPort cA) (coin cfg X) =
            (w.chains A).bank.bal (cfg.escrowAddr transferPort cA) (coin cfg X) := by
          split_ifs with hAc
          · rw [hbal, hAc]
            have : ¬ (coin cfg X = Denom.ibcDenom cfg.hashHex ⟨hop chan :: X.trace, X.base⟩ ∧ cfg.escrowAddr transferPort cA = s) :=
              fun h => hs _ _ h.2.symm
            simp [this]
          · rfl
        rw [hbalA]
        simp only [coin] at hinv hsn ⊢
        omega
      · simp [hop, Denom.hasPrefix] at hpF
    · have hsB : selB B cB X p = false := by
        cases hh : selB B cB X p with
        | false => rfl
        | true => exact absurd (hcB.mp hh) condB
      rw [hsF, hsB]
      simp only [Bool.false_eq_true, if_false, Nat.zero_add]
      have hE1 : (w'.chains A).bank.bal (cfg.escrowAddr transferPort cA) (coin cfg X) =
          (w.chains A).bank.bal (cfg.escrowAddr transferPort cA) (coin cfg X) := by
        rw [hchA]
        split_ifs with hAc
        · subst hAc
          rcases heff with ⟨_, _, hbal, _, _⟩ | ⟨_, hbal, _, _⟩
          · rw [hbal]
            have : ¬ (coin cfg X = Denom.ibcDenom cfg.hashHex tok ∧ cfg.escrowAddr transferPort cA = s) :=
              fun h => hs _ _ h.2.symm
            simp [this]
          · rw [hbal, moveBal_esc_in ha _ _ _ _ _ hs]
            have : ¬ (cA = chan ∧ coin cfg X = Denom.ibcDenom cfg.hashHex tok) := by
              rintro ⟨h1, h2⟩
              exact condF ⟨rfl, h1.symm, (coin_inj ha hX hgood h2).symm⟩
            simp [this]
        · rfl
      have hE2 : (w'.chains B).bank.supply (coin cfg ⟨hop cB :: X.trace, X.base⟩) =
          (w.chains B).bank.supply (coin cfg ⟨hop cB :: X.trace, X.base⟩) := by
        rw [hchB]
        split_ifs with hBc
        · subst hBc
          rcases heff with ⟨hpT, _, _, hsup, _⟩ | ⟨_, _, hsup, _⟩
          · rw [hsup]
            have : coin cfg ⟨hop cB :: X.trace, X.base⟩ ≠ Denom.ibcDenom cfg.hashHex tok := by
              intro h2
              have e := coin_inj ha hX' hgood h2
              subst e
              simp only [hop, hasPrefix_cons, Bool.and_eq_true, beq_iff_eq, true_and] at hpT
              exact condB ⟨rfl, hpT.symm, rfl⟩
            simp [this]
          · rw [hsup]
        · rfl
      rw [hE1, hE2]
      exact hinv

/-! ### … by a refund -/

theorem sel_false_of_not {b : Bool} {P : Prop} (h : b = true ↔ P) (hn : ¬ P) : b = false := by
  cases hb : b with
  | false => rfl
  | true => exact absurd (h.mp hb) hn

theorem conserve_refund {cfg : Config} (ha : Assm cfg) {w w' : World} (hwi : WInv cfg w) (hl : LInv w)
    (hpi : PInv cfg w) (hc : Conserve cfg w) {p : Packet} {ch' : Chain} (hp : p ∈ w.sent)
    (href : refundPacketTokens cfg p.srcChain (w.chains p.srcChain) p.srcPort p.srcChan p.data = .ok ch')
    (hchains : w'.chains = (w.setChain p.srcChain ch').chains) (hsent : w'.sent = w.sent)
    (hwas : pending w p = true) (hnow : pending w' p = false)
    (hothers : ∀ q ∈ w.sent, q ≠ p → pending w' q = pending w q) : Conserve cfg w' := by
  intro A cA B cB X hpeer hX hnp
  have hX' := good_peer_cons ha hpeer hX
  have hinv := hc A cA B cB X hpeer hX hnp
  obtain ⟨hgood, hpath, hsp, _, _, _⟩ := hwi.sent p hp
  have hF := pendingSum_resolve p (selF A cA X) hl hp hsent hwas hnow hothers
  have hB := pendingSum_resolve p (selB B cB X) hl hp hsent hwas hnow hothers
  have hcF := selF_iff (A := A) (cA := cA) (p := p) hX hgood rfl rfl hpath.symm
  have hcB := selB_iff (B := B) (cB := cB) (p := p) hX' hgood rfl rfl hpath.symm
  have hchA : w'.chains A = if A = p.srcChain then ch' else w.chains A := by rw [hchains]; rfl
  have hchB : w'.chains B = if B = p.srcChain then ch' else w.chains B := by rw [hchains]; rfl
  obtain ⟨s, hs, _, _, _, heff⟩ := refund_effect href
  have hsne : NotEscrow cfg s := (hpi p hp).1 s hs
  rw [hsp] at heff
  by_cases condF : p.srcChain = A ∧ p.srcChan = cA ∧ extract p.data.denom = X
  · obtain ⟨rfl, rfl, rfl⟩ := condF
    have hsF : selF p.srcChain p.srcChan (extract p.data.denom) p = true := hcF.mpr ⟨rfl, rfl, rfl⟩
    have hsB : selB B cB (extract p.data.denom) p = false := by
      apply sel_false_of_not hcB
      rintro ⟨_, _, e⟩
      have := congrArg (fun d => d.trace.length) e
      simp at this
    simp [hsF, hsB] at hF hB
    rcases heff with ⟨hpT, _⟩ | ⟨_, hn2, _, hbal, hsup, _⟩
    · rw [hnp] at hpT; cases hpT
    · rw [hchA, hchB]
      have hsupB : (if B = p.srcChain then ch' else w.chains B).bank.supply = (w.chains B).bank.supply := by
        split_ifs with hBc
        · rw [hsup, hBc]
        · rfl
      rw [hsupB]
      simp only [if_true]
      rw [hbal, moveBal_esc_out ha _ _ _ _ _ hsne]
      simp only [and_self, if_true]
      simp only [coin] at hinv hn2 ⊢
      omega
  · have hsF : selF A cA X p = false := sel_false_of_not hcF condF
    by_cases condB : p.srcChain = B ∧ p.srcChan = cB ∧ extract p.data.denom = ⟨hop cB :: X.trace, X.base⟩
    · obtain ⟨rfl, rfl, hXe⟩ := condB
      have hsB : selB p.srcChain p.srcChan X p = true := hcB.mpr ⟨rfl, rfl, hXe⟩
      simp [hsF, hsB] at hF hB
      rcases heff with ⟨_, hbal, hsup, _⟩ | ⟨hpF, _⟩
      · rw [hchA, hchB]
        simp only [if_true]
        rw [hsup, hXe]
        simp only [if_true]
        have hbalA : (if A = p.srcChain then ch' else w.chains A).bank.bal (cfg.escrowAddr transferPort cA) (coin cfg X) =
            (w.chains A).bank.bal (cfg.escrowAddr transferPort cA) (coin cfg X) := by
          split_ifs with hAc
          · rw [hbal, hAc]
            have : ¬ (coin cfg X = Denom.ibcDenom cfg.hashHex (extract p.data.denom) ∧ cfg.escrowAddr transferPort cA = s) :=
              fun h => hsne _ _ h.2.symm
            simp [this]
          · rfl
        rw [hbalA]
        simp only [coin] at hinv ⊢
        omega
      · rw [hXe] at hpF
        simp [hop, Denom.hasPrefix] at hpF
    · have hsB : selB B cB X p = false := sel_false_of_not hcB condB
      simp [hsF, hsB] at hF hB
      have hE1 : (w'.chains A).bank.bal (cfg.escrowAddr transferPort cA) (coin cfg X) =
          (w.chains A).bank.bal (cfg.escrowAddr transferPort cA) (coin cfg X) := by
        rw [hchA]
        split_ifs with hAc
        · rw [hAc]
          rcases heff with ⟨_, hbal, _, _⟩ | ⟨_, _, _, hbal, _, _⟩
          · rw [hbal]
            have : ¬ (coin cfg X = Denom.ibcDenom cfg.hashHex (extract p.data.denom) ∧ cfg.escrowAddr transferPort cA = s) :=
              fun h => hsne _ _ h.2.symm
            simp [this]
          · rw [hbal, moveBal_esc_out ha _ _ _ _ _ hsne]
            have : ¬ (cA = p.srcChan ∧ coin cfg X = Denom.ibcDenom cfg.hashHex (extract p.data.denom)) := by
              rintro ⟨h1, h2⟩
              exact condF ⟨hAc.symm, h1.symm, (coin_inj ha hX hgood h2).symm⟩
            simp [this]
        · rfl
      have hE2 : (w'.chains B).bank.supply (coin cfg ⟨hop cB :: X.trace, X.base⟩) =
          (w.chains B).bank.supply (coin cfg ⟨hop cB :: X.trace, X.base⟩) := by
        rw [hchB]
        split_ifs with hBc
        · rw [hBc]
          rcases heff with ⟨hpT, _, hsup, _⟩ | ⟨_, _, _, _, hsup, _⟩
          · rw [hsup]
            have : coin cfg ⟨hop cB :: X.trace, X.base⟩ ≠ Denom.ibcDenom cfg.hashHex (extract p.data.denom) := by
              intro h2
              have e := coin_inj ha hX' hgood h2
              rw [← e] at hpT
              simp only [hop, hasPrefix_cons, Bool.and_eq_true, beq_iff_eq, true_and] at hpT
              exact condB ⟨hBc.symm, hpT.symm, e.symm⟩
            simp [this]
          · rw [hsup]
        · rfl
      rw [hE1, hE2, ← hF, ← hB]
      exact hinv

/-! ### … by a successful receive -/

theorem recvCoin_unwind {H : Str → Str} {sp sc dp dc s : Str} (h : (extract s).hasPrefix sp sc = true) :
    ics20RecvCoinDenom H sp sc dp dc s = Denom.ibcDenom H ⟨(extract s).trace.tail, (extract s).base⟩ := by
  simp [ics20RecvCoinDenom, h]

theorem recvCoin_mint {H : Str → Str} {sp sc dp dc s : Str} (h : (extract s).hasPrefix sp sc = false) :
    ics20RecvCoinDenom H sp sc dp dc s = Denom.ibcDenom H ⟨⟨dp, dc⟩ :: (extract s).trace, (extract s).base⟩ := by
  simp [ics20RecvCoinDenom, h]

theorem conserve_recv_ok {cfg : Config} (ha : Assm cfg) {w w' : World} (hwi : WInv cfg w) (hl : LInv w)
    (hpi : PInv cfg w) (hc : Conserve cfg w) {p : Packet} {ch' : Chain} (hp : p ∈ w.sent)
    (hon : onRecvPacket cfg p.dstChain (w.chains p.dstChain) p.data p.srcPort p.srcChan p.dstPort p.dstChan = .ok ch')
    (hchains : w'.chains = (w.setChain p.dstChain ch').chains) (hsent : w'.sent = w.sent)
    (hwas : pending w p = true) (hnow : pending w' p = false)
    (hothers : ∀ q ∈ w.sent, q ≠ p → pending w' q = pending w q) : Conserve cfg w' := by
  intro A cA B cB X hpeer hX hnp
  have hX' := good_peer_cons ha hpeer hX
  have hinv := hc A cA B cB X hpeer hX hnp
  obtain ⟨hgood, hpath, hsp, hdp, hpp, _⟩ := hwi.sent p hp
  have hpp' := ha.peerSym _ _ _ _ hpp
  have hpeer' := ha.peerSym _ _ _ _ hpeer
  have hF := pendingSum_resolve p (selF A cA X) hl hp hsent hwas hnow hothers
  have hB := pendingSum_resolve p (selB B cB X) hl hp hsent hwas hnow hothers
  have hcF := selF_iff (A := A) (cA := cA) (p := p) hX hgood rfl rfl hpath.symm
  have hcB := selB_iff (B := B) (cB := cB) (p := p) hX' hgood rfl rfl hpath.symm
  have hchA : w'.chains A = if A = p.dstChain then ch' else w.chains A := by rw [hchains]; rfl
  have hchB : w'.chains B = if B = p.dstChain then ch' else w.chains B := by rw [hchains]; rfl
  obtain ⟨r, hr, _, _, _, heff⟩ := onRecvPacket_effect hon
  have hrne : NotEscrow cfg r := (hpi p hp).2 r hr
  rw [hsp, hdp] at heff
  by_cases condF : p.srcChain = A ∧ p.srcChan = cA ∧ extract p.data.denom = X
  · obtain ⟨rfl, rfl, rfl⟩ := condF
    -- the packet left (A, cA): it arrives at the peer (B, cB), which mints
    have hdst : p.dstChain = B ∧ p.dstChan = cB := by
      rw [hpeer] at hpp
      injection hpp with e
      injection e with e1 e2
      exact ⟨e1.symm, e2.symm⟩
    obtain ⟨hdB, hdcB⟩ := hdst
    subst hdB; subst hdcB
    have hsF : selF p.srcChain p.srcChan (extract p.data.denom) p = true := hcF.mpr ⟨rfl, rfl, rfl⟩
    have hsB : selB p.dstChain p.dstChan (extract p.data.denom) p = false := by
      apply sel_false_of_not hcB
      rintro ⟨_, _, e⟩
      have := congrArg (fun d => d.trace.length) e
      simp at this
    simp [hsF, hsB] at hF hB
    rcases heff with ⟨hpT, _⟩ | ⟨hpF, _, hbal, hsup, _⟩
    · rw [hnp] at hpT; cases hpT
    · rw [hchA, hchB]
      rw [recvCoin_mint hpF] at hbal hsup
      simp only [if_true]
      rw [hsup]
      simp only [hop, coin, if_true]
      have hbalA : (if p.srcChain = p.dstChain then ch' else w.chains p.srcChain).bank.bal
            (cfg.escrowAddr transferPort p.srcChan) (Denom.ibcDenom cfg.hashHex (extract p.data.denom)) =
          (w.chains p.srcChain).bank.bal (cfg.escrowAddr transferPort p.srcChan) (Denom.ibcDenom cfg.hashHex (extract p.data.denom)) := by
        split_ifs with hAc
        · rw [hbal, hAc]
          have : ¬ (Denom.ibcDenom cfg.hashHex (extract p.data.denom) =
              Denom.ibcDenom cfg.hashHex ⟨⟨transferPort, p.dstChan⟩ :: (extract p.data.denom).trace, (extract p.data.denom).base⟩ ∧
              cfg.escrowAddr transferPort p.srcChan = r) := fun h => hrne _ _ h.2.symm
          simp [this]
        · rfl
      rw [hbalA]
      simp only [coin, hop] at hinv
      omega
  · have hsF : selF A cA X p = false := sel_false_of_not hcF condF
    by_cases condB : p.srcChain = B ∧ p.srcChan = cB ∧ extract p.data.denom = ⟨hop cB :: X.trace, X.base⟩
    · obtain ⟨rfl, rfl, hXe⟩ := condB
      -- the packet left (B, cB): it arrives at the peer (A, cA), which unescrows
      have hdst : p.dstChain = A ∧ p.dstChan = cA := by
        rw [hpeer'] at hpp
        injection hpp with e
        injection e with e1 e2
        exact ⟨e1.symm, e2.symm⟩
      obtain ⟨hdA, hdcA⟩ := hdst
      subst hdA; subst hdcA
      have hsB : selB p.srcChain p.srcChan X p = true := hcB.mpr ⟨rfl, rfl, hXe⟩
      simp [hsF, hsB] at hF hB
      rcases heff with ⟨hpT, _, hn2, _, hbal, hsup, _⟩ | ⟨hpF, _⟩
      · rw [hchA, hchB]
        have hcoin : ics20RecvCoinDenom cfg.hashHex transferPort p.srcChan transferPort p.dstChan p.data.denom = coin cfg X := by
          rw [recvCoin_unwind hpT, hXe]
          rfl
        rw [hcoin] at hn2 hbal
        have hsupB : (if p.srcChain = p.dstChain then ch' else w.chains p.srcChain).bank.supply = (w.chains p.srcChain).bank.supply := by
          split_ifs with hBc
          · rw [hsup, hBc]
          · rfl
        rw [hsupB]
        simp only [if_true]
        rw [hbal, moveBal_esc_out ha _ _ _ _ _ hrne]
        simp only [and_self, if_true]
        simp only [coin] at hinv hn2 ⊢
        omega
      · rw [hXe] at hpF
        simp [hop, Denom.hasPrefix] at hpF
    · have hsB : selB B cB X p = false := sel_false_of_not hcB condB
      simp [hsF, hsB] at hF hB
      have hE1 : (w'.chains A).bank.bal (cfg.escrowAddr transferPort cA) (coin cfg X) =
          (w.chains A).bank.bal (cfg.escrowAddr transferPort cA) (coin cfg X) := by
        rw [hchA]
        split_ifs with hAc
        · rw [hAc]
          rcases heff with ⟨hpT, _, _, _, hbal, _, _⟩ | ⟨_, _, hbal, _, _⟩
          · rw [hbal, moveBal_esc_out ha _ _ _ _ _ hrne]
            have : ¬ (cA = p.dstChan ∧ coin cfg X =
                ics20RecvCoinDenom cfg.hashHex transferPort p.srcChan transferPort p.dstChan p.data.denom) := by
              rintro ⟨h1, h2⟩
              rw [recvCoin_unwind hpT] at h2
              obtain ⟨t, ht⟩ := hasPrefix_true_iff.mp hpT
              have hgt : GoodDenom ⟨(extract p.data.denom).trace.tail, (extract p.data.denom).base⟩ := by
                rw [ht]; exact hgood.tail ht
              have e := coin_inj ha hX hgt h2
              -- the packet came from the peer of (A, cA)
              rw [← hAc, ← h1, hpeer] at hpp'
              injection hpp' with e'
              injection e' with e1 e2
              apply condB
              refine ⟨e1.symm, e2.symm, ?_⟩
              rw [e, e2]
              cases hh : extract p.data.denom with
              | mk tr b =>
                rw [hh] at ht
                simp only at ht
                subst ht
                rfl
            simp [this]
          · rw [hbal]
            have : ¬ (coin cfg X = ics20RecvCoinDenom cfg.hashHex transferPort p.srcChan transferPort p.dstChan p.data.denom ∧
                cfg.escrowAddr transferPort cA = r) := fun h => hrne _ _ h.2.symm
            simp [this]
        · rfl
      have hE2 : (w'.chains B).bank.supply (coin cfg ⟨hop cB :: X.trace, X.base⟩) =
          (w.chains B).bank.supply (coin cfg ⟨hop cB :: X.trace, X.base⟩) := by
        rw [hchB]
        split_ifs with hBc
        · rw [hBc]
          rcases heff with ⟨_, _, _, _, _, hsup, _⟩ | ⟨hpF, _, _, hsup, _⟩
          · rw [hsup]
          · rw [hsup]
            have : coin cfg ⟨hop cB :: X.trace, X.base⟩ ≠
                ics20RecvCoinDenom cfg.hashHex transferPort p.srcChan transferPort p.dstChan p.data.denom := by
              intro h2
              rw [recvCoin_mint hpF] at h2
              obtain ⟨h1', h2'⟩ := ha.peerIds _ _ _ _ hpp
              have hgm : GoodDenom ⟨⟨transferPort, p.dstChan⟩ :: (extract p.data.denom).trace, (extract p.data.denom).base⟩ :=
                hgood.cons _ _ transferPort_no_sep h1' h2'
              have e := coin_inj ha hX' hgm h2
              injection e with etr eb
              simp only [hop, List.cons.injEq, Hop.mk.injEq, true_and] at etr
              obtain ⟨ecb, etr⟩ := etr
              -- the packet came from the peer of (B, cB) = (A, cA)
              rw [← hBc, ← ecb, hpeer'] at hpp'
              injection hpp' with e'
              injection e' with e1 e2
              apply condF
              refine ⟨e1.symm, e2.symm, ?_⟩
              cases hh : extract p.data.denom with
              | mk tr b =>
                rw [hh] at etr eb
                simp only at etr eb
                cases X
                simp_all
            simp [this]
        · rfl
      rw [hE1, hE2, ← hF, ← hB]
      exact hinv

/-- nothing relevant changes: chains equal, the same packets in flight -/
theorem conserve_same {cfg : Config} {w w' : World} (hc : Conserve cfg w)
    (hchains : w'.chains = w.chains) (hsent : w'.sent = w.sent)
    (hothers : ∀ q ∈ w.sent, pending w' q = pending w q) : Conserve cfg w' := by
  intro A cA B cB X hpeer hX hnp
  rw [hchains, pendingSum_same _ hsent hothers, pendingSum_same _ hsent hothers]
  exact hc A cA B cB X hpeer hX hnp

theorem voucher_coin_prefix (H : Str → Str) (d : Denom) (h : d.trace ≠ []) :
    ibcSlash.isPrefixOf (d.ibcDenom H) = true := by
  cases ht : d.trace with
  | nil => exact absurd ht h
  | cons x xs =>
    simp only [Denom.ibcDenom, Denom.isNative, ht, List.isEmpty_cons, Bool.false_eq_true, if_false]
    exact isPrefixOf_append_self _ _

end IbcVerif.Ics20
