/-
  The packet-lifecycle hypotheses under which the ICS-20 history theorems are stated.

  The ICS-20 model leaves core IBC abstract: an `Op` is an application callback.  What core IBC
  guarantees about the order and multiplicity of callbacks is proved by other properties over the
  core model; here it is a *named hypothesis on the history*, `LifecycleOK`, stated with the ghost
  logs of `World` (every clause names the property that provides it):

    * C08  a sent packet gets a fresh sequence on its (chain, channel/client id);
    * C05  a receive callback runs only for a packet the counterparty really sent, on the chain and
           channel end it is addressed to (`p ∈ sent`; the destination is the source end's peer);
    * C01  at most one receive callback per packet;
    * C04  a packet that timed out is never received, and a received packet never times out;
    * C06  an acknowledgement callback carries the acknowledgement the receiver wrote for that packet
           (success ↦ result ack; failure ↦ v1 error ack / v2 sentinel);
    * C03  at most one of acknowledgement / timeout / timeout-on-close callback completes per packet;
    * C14/C03 (`NeverReceivedOnClose`, the `onClose = true` instance of the timeout guard): a packet may
           complete by `MsgTimeoutOnClose` — the counterparty channel end is proven CLOSED — only if it
           was never received there (unordered: receipt absent; ordered: next-sequence-receive not past
           it), and not after another terminal outcome.  The ICS-20 callback is the same
           `OnTimeoutPacket`.
-/
import IbcVerif.Lemmas.Ics20Step
namespace IbcVerif.Ics20
open IbcVerif IbcVerif.Xfer

/-- the acknowledgement core IBC delivers for a receive outcome -/
def ackFor (p : Packet) (success : Bool) : Ack :=
  if success then .result else if p.v2 then .sentinel else .error

/-- what core IBC guarantees about one callback, given the callbacks so far -/
def Guard (w : World) : Op → Prop
  | .transfer c _ _ m _ seq =>
      ∀ p ∈ w.sent, ¬ (p.srcChain = c ∧ p.srcChan = m.chan ∧ p.seq = seq)                    -- C08
  | .sendV2 c _ client _ _ seq =>
      ∀ p ∈ w.sent, ¬ (p.srcChain = c ∧ p.srcChan = client ∧ p.seq = seq)                    -- C08
  | .recv p =>
      p ∈ w.sent ∧                                                                            -- C05
      (∀ b, (p, b) ∉ w.recvd) ∧                                                               -- C01
      p ∉ w.timedOut                                                                          -- C04
  | .ack p a =>
      p ∈ w.sent ∧ (∃ b, (p, b) ∈ w.recvd ∧ a = ackFor p b) ∧                                -- C06
      p ∉ w.acked ∧ p ∉ w.timedOut                                                           -- C03
  | .timeout p onClose =>
      p ∈ w.sent ∧ (∀ b, (p, b) ∉ w.recvd) ∧                                                  -- C04 / C14
      p ∉ w.acked ∧ p ∉ w.timedOut ∧                                                         -- C03
      (onClose = true → p.v2 = false)                       -- `MsgTimeoutOnClose` exists for v1 channels only
  | .setParams _ _ _ => True
  | .bankSend _ _ _ _ _ => True

/-- a history all of whose callbacks respect the packet lifecycle -/
def LifecycleOK (cfg : Config) : World → List Op → Prop
  | _, [] => True
  | w, op :: ops => Guard w op ∧ LifecycleOK cfg (step cfg w op).1 ops

/-! ### how `step` moves the ghost logs -/

theorem step_acked_mono (cfg : Config) (w : World) (op : Op) (p : Packet) (h : p ∈ w.acked) :
    p ∈ (step cfg w op).1.acked := by
  cases op with
  | transfer c s v m ce seq =>
    simp only [step]
    split
    · exact h
    · split
      · exact h
      · split <;> exact h
  | sendV2 c s cl d ce seq => simp only [step]; split <;> exact h
  | recv q => simp only [step]; split <;> exact h
  | ack q a =>
    simp only [step]
    split
    · exact List.mem_cons_of_mem _ h
    · exact h
  | timeout q oc => simp only [step]; split <;> exact h
  | setParams c s r => exact h
  | bankSend c f t d n =>
    simp only [step]
    split
    · exact h
    · split <;> exact h

theorem step_timedOut_mono (cfg : Config) (w : World) (op : Op) (p : Packet) (h : p ∈ w.timedOut) :
    p ∈ (step cfg w op).1.timedOut := by
  cases op with
  | transfer c s v m ce seq =>
    simp only [step]
    split
    · exact h
    · split
      · exact h
      · split <;> exact h
  | sendV2 c s cl d ce seq => simp only [step]; split <;> exact h
  | recv q => simp only [step]; split <;> exact h
  | ack q a => simp only [step]; split <;> exact h
  | timeout q oc =>
    simp only [step]
    split
    · exact List.mem_cons_of_mem _ h
    · exact h
  | setParams c s r => exact h
  | bankSend c f t d n =>
    simp only [step]
    split
    · exact h
    · split <;> exact h

/-- number of completed refund callbacks (timeout, or acknowledgement other than a result ack) for
    packet `p` along a history -/
def refundCount (cfg : Config) (p : Packet) : World → List Op → Nat
  | _, [] => 0
  | w, op :: ops =>
    (match op with
     | .timeout q _ => if q = p ∧ (step cfg w op).2 = .ok then 1 else 0
     | .ack q a => if q = p ∧ a ≠ .result ∧ (step cfg w op).2 = .ok then 1 else 0
     | _ => 0) + refundCount cfg p (step cfg w op).1 ops

theorem refundCount_zero_of_resolved (cfg : Config) (p : Packet) :
    ∀ (ops : List Op) (w : World), LifecycleOK cfg w ops → (p ∈ w.acked ∨ p ∈ w.timedOut) →
      refundCount cfg p w ops = 0 := by
  intro ops
  induction ops with
  | nil => intro w _ _; rfl
  | cons op ops ih =>
    intro w hl hres
    obtain ⟨hg, hl'⟩ := hl
    have hres' : p ∈ (step cfg w op).1.acked ∨ p ∈ (step cfg w op).1.timedOut := by
      rcases hres with h | h
      · exact Or.inl (step_acked_mono cfg w op p h)
      · exact Or.inr (step_timedOut_mono cfg w op p h)
    simp only [refundCount, ih _ hl' hres', Nat.add_zero]
    cases op with
    | timeout q oc =>
      simp only
      split_ifs with hq
      · obtain ⟨rfl, _⟩ := hq
        simp only [Guard] at hg
        rcases hres with h | h
        · exact absurd h hg.2.2.1
        · exact absurd h hg.2.2.2.1
      · rfl
    | ack q a =>
      simp only
      split_ifs with hq
      · obtain ⟨rfl, _⟩ := hq
        simp only [Guard] at hg
        rcases hres with h | h
        · exact absurd h hg.2.2.1
        · exact absurd h hg.2.2.2
      · rfl
    | transfer _ _ _ _ _ _ => rfl
    | sendV2 _ _ _ _ _ _ => rfl
    | recv _ => rfl
    | setParams _ _ _ => rfl
    | bankSend _ _ _ _ _ => rfl

/-- **Refund at most once**: along every lifecycle-respecting history, at most one refund callback
    completes for a packet. -/
theorem refundCount_le_one (cfg : Config) (p : Packet) :
    ∀ (ops : List Op) (w : World), LifecycleOK cfg w ops → refundCount cfg p w ops ≤ 1 := by
  intro ops
  induction ops with
  | nil => intro w _; simp [refundCount]
  | cons op ops ih =>
    intro w hl
    obtain ⟨hg, hl'⟩ := hl
    have hrest := ih _ hl'
    simp only [refundCount]
    cases op with
    | timeout q oc =>
      simp only
      split_ifs with hq
      · obtain ⟨rfl, hok⟩ := hq
        rcases step_timeout_cases cfg w q oc with ⟨ch', _, hstep⟩ | ⟨_, hne⟩
        · have : q ∈ (step cfg w (.timeout q oc)).1.timedOut := by rw [hstep]; exact List.mem_cons_self
          rw [refundCount_zero_of_resolved cfg q ops _ hl' (Or.inr this)]; omega
        · exact absurd hok hne
      · omega
    | ack q a =>
      simp only
      split_ifs with hq
      · obtain ⟨rfl, _, hok⟩ := hq
        rcases step_ack_cases cfg w q a with ⟨ch', _, hstep⟩ | ⟨_, hne⟩
        · have : q ∈ (step cfg w (.ack q a)).1.acked := by rw [hstep]; exact List.mem_cons_self
          rw [refundCount_zero_of_resolved cfg q ops _ hl' (Or.inl this)]; omega
        · exact absurd hok hne
      · omega
    | transfer _ _ _ _ _ _ => simpa using hrest
    | sendV2 _ _ _ _ _ _ => simpa using hrest
    | recv _ => simpa using hrest
    | setParams _ _ _ => simpa using hrest
    | bankSend _ _ _ _ _ => simpa using hrest

end IbcVerif.Ics20
