/-
  Helper lemmas for C44: algebra of sorted association lists (`insert`, `insertAll`) and the
  field-by-field computation of `importG env (exportG s)`.
-/
import IbcVerif.Model.Genesis
namespace IbcVerif.Genesis

section maps
variable {κ β : Type} [KeyOrd κ]

theorem lt_asymm {a b : κ} (h : KeyOrd.lt a b = true) : KeyOrd.lt b a = false := by
  cases hb : KeyOrd.lt b a
  · rfl
  · have := KeyOrd.trans _ _ _ h hb
    rw [KeyOrd.irrefl] at this
    cases this

theorem ne_of_lt {a b : κ} (h : KeyOrd.lt a b = true) : a ≠ b := by
  intro e
  subst e
  rw [KeyOrd.irrefl] at h
  cases h

theorem sorted_cons {e : κ × β} {m : List (κ × β)} :
    Sorted (e :: m) ↔ (∀ x ∈ m, KeyOrd.lt e.1 x.1 = true) ∧ Sorted m := List.pairwise_cons

theorem sorted_nil : Sorted ([] : List (κ × β)) := List.Pairwise.nil

theorem sorted_filter {m : List (κ × β)} (p : κ × β → Bool) (h : Sorted m) : Sorted (m.filter p) :=
  List.Pairwise.filter p h

/-- two entries of a sorted map with the same key are the same entry -/
theorem sorted_unique {m : List (κ × β)} (hm : Sorted m) {a b : κ × β} (ha : a ∈ m) (hb : b ∈ m)
    (hk : a.1 = b.1) : a = b := by
  induction m with
  | nil => cases ha
  | cons e t ih =>
    obtain ⟨hlt, ht⟩ := sorted_cons.1 hm
    rcases List.mem_cons.1 ha with rfl | ha' <;> rcases List.mem_cons.1 hb with rfl | hb'
    · rfl
    · have := hlt b hb'
      rw [hk, KeyOrd.irrefl] at this
      cases this
    · have := hlt a ha'
      rw [← hk, KeyOrd.irrefl] at this
      cases this
    · exact ih ht ha' hb'

theorem mem_insert {k : κ} {v : β} {m : List (κ × β)} (hm : Sorted m) (e : κ × β) :
    e ∈ insert k v m ↔ e = (k, v) ∨ (e ∈ m ∧ e.1 ≠ k) := by
  induction m with
  | nil => simp [insert]
  | cons h t ih =>
    obtain ⟨k', v'⟩ := h
    obtain ⟨hlt, ht⟩ := sorted_cons.1 hm
    have ih := ih ht
    unfold insert
    cases h1 : KeyOrd.lt k k'
    · cases h2 : KeyOrd.lt k' k
      · have hk : k = k' := KeyOrd.tri _ _ h1 h2
        subst hk
        simp only [Bool.false_eq_true, if_false, List.mem_cons]
        constructor
        · rintro (he | he)
          · exact Or.inl he
          · exact Or.inr ⟨Or.inr he, fun e' => ne_of_lt (hlt e he) e'.symm⟩
        · rintro (he | ⟨he | he, hne⟩)
          · exact Or.inl he
          · exact absurd (by rw [he]) hne
          · exact Or.inr he
      · simp only [Bool.false_eq_true, if_false, if_true, List.mem_cons, ih]
        constructor
        · rintro (he | he | ⟨he, hne⟩)
          · exact Or.inr ⟨Or.inl he, by rw [he]; exact ne_of_lt h2⟩
          · exact Or.inl he
          · exact Or.inr ⟨Or.inr he, hne⟩
        · rintro (he | ⟨he | he, hne⟩)
          · exact Or.inr (Or.inl he)
          · exact Or.inl he
          · exact Or.inr (Or.inr ⟨he, hne⟩)
    · simp only [if_true, List.mem_cons]
      constructor
      · rintro (he | he | he)
        · exact Or.inl he
        · exact Or.inr ⟨Or.inl he, by rw [he]; exact fun e' => ne_of_lt h1 e'.symm⟩
        · exact Or.inr ⟨Or.inr he, fun e' => ne_of_lt (KeyOrd.trans _ _ _ h1 (hlt e he)) e'.symm⟩
      · rintro (he | ⟨he, _⟩)
        · exact Or.inl he
        · exact Or.inr he

theorem sorted_insert {k : κ} {v : β} {m : List (κ × β)} (hm : Sorted m) : Sorted (insert k v m) := by
  induction m with
  | nil => simp [insert, Sorted]
  | cons h t ih =>
    obtain ⟨k', v'⟩ := h
    obtain ⟨hlt, ht⟩ := sorted_cons.1 hm
    unfold insert
    cases h1 : KeyOrd.lt k k'
    · cases h2 : KeyOrd.lt k' k
      · have hk : k = k' := KeyOrd.tri _ _ h1 h2
        subst hk
        simp only [Bool.false_eq_true, if_false]
        exact sorted_cons.2 ⟨fun x hx => hlt x hx, ht⟩
      · simp only [Bool.false_eq_true, if_false, if_true]
        refine sorted_cons.2 ⟨?_, ih ht⟩
        intro x hx
        rcases (mem_insert ht x).1 hx with he | ⟨hx, _⟩
        · rw [he]; exact h2
        · exact hlt x hx
    · simp only [if_true]
      refine sorted_cons.2 ⟨?_, hm⟩
      intro x hx
      rcases List.mem_cons.1 hx with he | hx
      · rw [he]; exact h1
      · exact KeyOrd.trans _ _ _ h1 (hlt x hx)

/-- sorted maps are determined by their entries -/
theorem sorted_ext {a b : List (κ × β)} (ha : Sorted a) (hb : Sorted b) (h : ∀ e, e ∈ a ↔ e ∈ b) : a = b := by
  induction a generalizing b with
  | nil =>
    cases b with
    | nil => rfl
    | cons y b' => exact absurd ((h y).2 (List.mem_cons_self ..)) (by simp)
  | cons x a' ih =>
    cases b with
    | nil => exact absurd ((h x).1 (List.mem_cons_self ..)) (by simp)
    | cons y b' =>
      obtain ⟨hxa, ha'⟩ := sorted_cons.1 ha
      obtain ⟨hyb, hb'⟩ := sorted_cons.1 hb
      have hxy : x = y := by
        rcases List.mem_cons.1 ((h x).1 (List.mem_cons_self ..)) with e | hx
        · exact e
        · rcases List.mem_cons.1 ((h y).2 (List.mem_cons_self ..)) with e | hy
          · exact e.symm
          · have h1 := hyb x hx
            have h2 := hxa y hy
            rw [lt_asymm h1] at h2
            cases h2
      subst hxy
      congr 1
      apply ih ha' hb'
      intro e
      constructor
      · intro he
        rcases List.mem_cons.1 ((h e).1 (List.mem_cons_of_mem _ he)) with rfl | he'
        · have := hxa e he
          rw [KeyOrd.irrefl] at this
          cases this
        · exact he'
      · intro he
        rcases List.mem_cons.1 ((h e).2 (List.mem_cons_of_mem _ he)) with rfl | he'
        · have := hyb e he
          rw [KeyOrd.irrefl] at this
          cases this
        · exact he'

theorem insertAll_nil (acc : List (κ × β)) : insertAll acc [] = acc := rfl

theorem insertAll_cons (acc : List (κ × β)) (e : κ × β) (l : List (κ × β)) :
    insertAll acc (e :: l) = insertAll (insert e.1 e.2 acc) l := rfl

/-- a sequence of `Set`s whose key/value pairs all come from one sorted map `m`, applied to a sorted
    part of `m`: the result is sorted and holds exactly the old and the new entries -/
theorem insertAll_spec {m : List (κ × β)} (hm : Sorted m) (l : List (κ × β)) :
    ∀ acc : List (κ × β), Sorted acc → (∀ e ∈ acc, e ∈ m) → (∀ e ∈ l, e ∈ m) →
      Sorted (insertAll acc l) ∧ ∀ e, e ∈ insertAll acc l ↔ (e ∈ acc ∨ e ∈ l) := by
  induction l with
  | nil => intro acc hacc _ _; simp [insertAll_nil, hacc]
  | cons x l ih =>
    intro acc hacc ha hl
    rw [insertAll_cons]
    have hx : x ∈ m := hl x (List.mem_cons_self ..)
    have hacc' : Sorted (insert x.1 x.2 acc) := sorted_insert hacc
    have ha' : ∀ e ∈ insert x.1 x.2 acc, e ∈ m := by
      intro e he
      rcases (mem_insert hacc e).1 he with rfl | ⟨he, _⟩
      · exact hx
      · exact ha e he
    obtain ⟨hs, hmem⟩ := ih _ hacc' ha' (fun e he => hl e (List.mem_cons_of_mem _ he))
    refine ⟨hs, fun e => ?_⟩
    rw [hmem e, mem_insert hacc e, List.mem_cons]
    constructor
    · rintro ((rfl | ⟨he, _⟩) | he)
      · exact Or.inr (Or.inl rfl)
      · exact Or.inl he
      · exact Or.inr (Or.inr he)
    · rintro (he | rfl | he)
      · by_cases hk : e.1 = x.1
        · exact Or.inl (Or.inl (sorted_unique hm (ha e he) hx hk))
        · exact Or.inl (Or.inr ⟨he, hk⟩)
      · exact Or.inl (Or.inl rfl)
      · exact Or.inr he

/-- importing the selected entries of a sorted map into the empty map gives the filtered map -/
theorem insertAll_eq_filter {m l : List (κ × β)} (p : κ × β → Bool) (hm : Sorted m)
    (hl : ∀ e, e ∈ l ↔ (e ∈ m ∧ p e = true)) : insertAll [] l = m.filter p := by
  obtain ⟨hs, hmem⟩ := insertAll_spec hm l [] sorted_nil (by simp) (fun e he => ((hl e).1 he).1)
  apply sorted_ext hs (sorted_filter p hm)
  intro e
  rw [hmem e, List.mem_filter, hl e]
  simp

/-- importing all entries of a sorted map on top of a part of it gives the map back -/
theorem insertAll_eq_self {m acc l : List (κ × β)} (hm : Sorted m) (hacc : Sorted acc)
    (ha : ∀ e ∈ acc, e ∈ m) (hl : ∀ e ∈ l, e ∈ m) (hall : ∀ e ∈ m, e ∈ acc ∨ e ∈ l) :
    insertAll acc l = m := by
  obtain ⟨hs, hmem⟩ := insertAll_spec hm l acc hacc ha hl
  apply sorted_ext hs hm
  intro e
  rw [hmem e]
  constructor
  · rintro (h | h)
    · exact ha e h
    · exact hl e h
  · exact hall e

theorem insertAll_self {m : List (κ × β)} (hm : Sorted m) : insertAll [] m = m :=
  insertAll_eq_self hm sorted_nil (by simp) (fun _ h => h) (fun _ h => Or.inr h)

theorem sortedB_iff (m : List (κ × β)) : sortedB m = true ↔ Sorted m := by
  induction m with
  | nil => simp [sortedB, Sorted]
  | cons a t ih =>
    cases t with
    | nil => simp [sortedB, Sorted]
    | cons b t' =>
      simp only [sortedB, Bool.and_eq_true, ih]
      constructor
      · rintro ⟨hab, hs⟩
        refine sorted_cons.2 ⟨?_, hs⟩
        intro x hx
        rcases List.mem_cons.1 hx with rfl | hx
        · exact hab
        · exact KeyOrd.trans _ _ _ hab ((sorted_cons.1 hs).1 x hx)
      · intro h
        obtain ⟨h1, h2⟩ := sorted_cons.1 h
        exact ⟨h1 b (List.mem_cons_self ..), h2⟩

end maps

/-! ### `importG env (exportG s)` field by field -/

theorem mem_genIds (s : State) (id : Id) :
    id ∈ s.genIds ↔ ∃ v, ((id, keyClientState), v) ∈ s.cstore := by
  simp only [State.genIds, List.mem_map, List.mem_filter, beq_iff_eq]
  constructor
  · rintro ⟨e, ⟨he, hk⟩, rfl⟩
    refine ⟨e.2, ?_⟩
    have : ((e.1.1, keyClientState), e.2) = e := by
      rw [← hk]
    rw [this]; exact he
  · rintro ⟨v, hv⟩
    exact ⟨((id, keyClientState), v), ⟨hv, rfl⟩, rfl⟩

theorem inGen_iff (s : State) (id : Id) : s.inGen id = true ↔ id ∈ s.genIds := by
  simp [State.inGen]

theorem isChan_iff (s : State) (id : Id) : s.isChan id = true ↔ ∃ e ∈ s.chans, e.1.2 = id := by
  simp [State.isChan, State.chanIds]

theorem mem_perClient {β : Type} (s : State) (m : List (IdSeq × β)) (e : IdSeq × β) :
    e ∈ perClient s m ↔ (e ∈ m ∧ s.inGen e.1.1 = true) := by
  simp only [perClient, List.mem_flatMap, List.mem_filter, beq_iff_eq, inGen_iff]
  constructor
  · rintro ⟨id, hid, he, rfl⟩
    exact ⟨he, hid⟩
  · rintro ⟨he, hid⟩
    exact ⟨_, hid, he, rfl⟩

theorem import_perClient {β : Type} (s : State) (m : List (IdSeq × β)) (hm : Sorted m) :
    insertAll [] (perClient s m) = m.filter (fun e => s.inGen e.1.1) :=
  insertAll_eq_filter _ hm (mem_perClient s m)

theorem map_receipt {κ : Type} (m : List (κ × Val)) (c : Val) (h : ∀ e ∈ m, e.2 = c) :
    m.map (fun e => (e.1, c)) = m := by
  induction m with
  | nil => rfl
  | cons x t ih =>
    simp only [List.map_cons]
    rw [ih (fun e he => h e (List.mem_cons_of_mem _ he)), ← h x (List.mem_cons_self ..)]

theorem import_conns (env : Env) (s : State) (hs : Sorted s.conns)
    (hl : (localhostConnId, env.localhostConn) ∈ s.conns) :
    insertAll [(localhostConnId, env.localhostConn)] (s.conns ++ [(localhostConnId, env.localhostConn)]) = s.conns := by
  apply insertAll_eq_self hs
  · simp [Sorted]
  · intro e he
    rw [List.mem_singleton.1 he]; exact hl
  · intro e he
    rcases List.mem_append.1 he with h | h
    · exact h
    · rw [List.mem_singleton.1 h]; exact hl
  · intro e he
    exact Or.inr (List.mem_append_left _ he)

theorem import_nextSend (s : State) (hs : Sorted s.nextSend) :
    insertAll []
      ((s.chans.flatMap (fun c => (s.nextSend.filter (fun e => e.1 == c.1.2)).map (fun e => (c.1, e.2)))).map
          (fun e => (e.1.2, e.2))
        ++ s.genIds.flatMap (fun id => s.nextSend.filter (fun e => e.1 == id)))
      = s.nextSend.filter (fun e => s.isChan e.1 || s.inGen e.1) := by
  apply insertAll_eq_filter _ hs
  intro e
  simp only [List.mem_append, List.mem_map, List.mem_flatMap, List.mem_filter, beq_iff_eq, Bool.or_eq_true,
    isChan_iff, inGen_iff]
  constructor
  · rintro (⟨x, ⟨c, hc, y, ⟨hy, hyc⟩, rfl⟩, rfl⟩ | ⟨id, hid, he, rfl⟩)
    · have : (c.1.2, y.2) = y := by rw [← hyc]
      refine ⟨?_, Or.inl ⟨c, hc, rfl⟩⟩
      show (c.1.2, y.2) ∈ s.nextSend
      rw [this]; exact hy
    · exact ⟨he, Or.inr hid⟩
  · rintro ⟨he, ⟨c, hc, hce⟩ | hid⟩
    · exact Or.inl ⟨(c.1, e.2), ⟨c, hc, e, ⟨he, hce.symm⟩, rfl⟩, by simp only [hce]⟩
    · exact Or.inr ⟨_, hid, he, rfl⟩

theorem import_cstore (s : State) (hs : Sorted s.cstore) :
    insertAll []
      (s.genIds.flatMap (fun id => s.cstore.filter (fun e => e.1.1 == id && isMetaKey e.1.2))
        ++ ((s.cstore.filter (fun e => e.1.2 == keyClientState)).map (fun e => (e.1.1, e.2))).map
            (fun e => ((e.1, keyClientState), e.2))
        ++ s.cstore.filter (fun e => isConsKey e.1.2)
        ++ (s.genIds.flatMap (fun id =>
              (s.cstore.filter (fun e => e.1 == (id, keyCounterparty))).map (fun e => (id, e.2)))).map
            (fun e => ((e.1, keyCounterparty), e.2))
        ++ (s.genIds.flatMap (fun id =>
              (s.cstore.filter (fun e => e.1 == (id, keyConnections))).map (fun e => (id, e.2)))).map
            (fun e => ((e.1, keyConnections), e.2)))
      = s.cstore.filter (fun e => isConsKey e.1.2 || s.inGen e.1.1) := by
  apply insertAll_eq_filter _ hs
  intro e
  simp only [List.mem_append, List.mem_map, List.mem_flatMap, List.mem_filter, beq_iff_eq, Bool.or_eq_true,
    Bool.and_eq_true, inGen_iff]
  constructor
  · rintro ((((⟨id, hid, he, rfl, _⟩ | ⟨x, ⟨y, ⟨hy, hyk⟩, rfl⟩, rfl⟩) | ⟨he, hc⟩) |
        ⟨x, ⟨id, hid, y, ⟨hy, hyk⟩, rfl⟩, rfl⟩) | ⟨x, ⟨id, hid, y, ⟨hy, hyk⟩, rfl⟩, rfl⟩)
    · exact ⟨he, Or.inr hid⟩
    · have hy' : ((y.1.1, keyClientState), y.2) = y := by rw [← hyk]
      simp only [hy']
      exact ⟨hy, Or.inr ((mem_genIds s _).2 ⟨y.2, by rw [hy']; exact hy⟩)⟩
    · exact ⟨he, Or.inl hc⟩
    · have hy' : ((id, keyCounterparty), y.2) = y := by rw [← hyk]
      simp only [hy']
      exact ⟨hy, Or.inr (by first | exact hid | (rw [hyk]; exact hid))⟩
    · have hy' : ((id, keyConnections), y.2) = y := by rw [← hyk]
      simp only [hy']
      exact ⟨hy, Or.inr (by first | exact hid | (rw [hyk]; exact hid))⟩
  · rintro ⟨he, hc | hid⟩
    · exact Or.inl (Or.inl (Or.inr ⟨he, hc⟩))
    · by_cases h1 : e.1.2 = keyClientState
      · refine Or.inl (Or.inl (Or.inl (Or.inr ⟨(e.1.1, e.2), ⟨e, ⟨he, h1⟩, rfl⟩, ?_⟩)))
        rw [← h1]
      · by_cases h2 : isConsKey e.1.2 = true
        · exact Or.inl (Or.inl (Or.inr ⟨he, h2⟩))
        · refine Or.inl (Or.inl (Or.inl (Or.inl ⟨e.1.1, hid, he, rfl, ?_⟩)))
          simp [isMetaKey, h1, h2]

/-- Export followed by import into a fresh store keeps exactly `dropAlias s`. -/
theorem import_export_eq (env : Env) (s : State) (h : WF env s) :
    importG env (exportG s) = dropAlias s := by
  simp only [importG, exportG, dropAlias, fresh, State.mk.injEq]
  refine ⟨trivial, trivial, import_cstore s h.cstore, import_conns env s h.conns h.localhost, trivial, trivial,
    insertAll_self h.chans, insertAll_self h.nextRecv, insertAll_self h.nextAck, import_nextSend s h.nextSend,
    insertAll_self h.commits, ?_, insertAll_self h.acks, trivial, import_perClient s _ h.commits2, ?_,
    import_perClient s _ h.acks2, import_perClient s _ h.async2, trivial, trivial⟩
  · rw [map_receipt _ _ h.receiptV1]; exact insertAll_self h.receipts
  · have : (perClient s s.receipts2).map (fun e => (e.1, receiptV2)) = perClient s s.receipts2 :=
      map_receipt _ _ (fun e he => h.receiptV2 e ((mem_perClient s _ e).1 he).1)
    rw [this]; exact import_perClient s _ h.receipts2

theorem filter_eq_self_iff {α : Type} (l : List α) (p : α → Bool) : l.filter p = l ↔ ∀ a ∈ l, p a = true :=
  List.filter_eq_self

/-- `NoAliasState` says exactly that `dropAlias` changes nothing. -/
theorem noAlias_iff (s : State) : NoAliasState s ↔ dropAlias s = s := by
  constructor
  · intro h
    have e1 := (filter_eq_self_iff s.cstore (fun e => isConsKey e.1.2 || s.inGen e.1.1)).2
      (fun e he => by simpa using h.cstore e he)
    have e2 := (filter_eq_self_iff s.nextSend (fun e => s.isChan e.1 || s.inGen e.1)).2
      (fun e he => by simpa using h.nextSend e he)
    have e3 := (filter_eq_self_iff s.commits2 (fun e => s.inGen e.1.1)).2 h.commits2
    have e4 := (filter_eq_self_iff s.receipts2 (fun e => s.inGen e.1.1)).2 h.receipts2
    have e5 := (filter_eq_self_iff s.acks2 (fun e => s.inGen e.1.1)).2 h.acks2
    have e6 := (filter_eq_self_iff s.async2 (fun e => s.inGen e.1.1)).2 h.async2
    cases s
    simp only [dropAlias, State.mk.injEq] at *
    exact ⟨trivial, trivial, e1, trivial, trivial, trivial, trivial, trivial, trivial, e2, trivial, trivial, trivial,
      trivial, e3, e4, e5, e6, h.alias.symm, h.other.symm⟩
  · intro h
    have hc := congrArg State.cstore h
    have hn := congrArg State.nextSend h
    have h3 := congrArg State.commits2 h
    have h4 := congrArg State.receipts2 h
    have h5 := congrArg State.acks2 h
    have h6 := congrArg State.async2 h
    have h7 := congrArg State.alias h
    have h8 := congrArg State.other h
    simp only [dropAlias] at hc hn h3 h4 h5 h6 h7 h8
    exact {
      alias := h7.symm
      other := h8.symm
      cstore := fun e he => by simpa using (filter_eq_self_iff _ _).1 hc e he
      nextSend := fun e he => by simpa using (filter_eq_self_iff _ _).1 hn e he
      commits2 := (filter_eq_self_iff _ _).1 h3
      receipts2 := (filter_eq_self_iff _ _).1 h4
      acks2 := (filter_eq_self_iff _ _).1 h5
      async2 := (filter_eq_self_iff _ _).1 h6 }

/-! ### the export ignores everything `dropAlias` removes -/

theorem filter_filter_of_imp {α : Type} (l : List α) (p q : α → Bool)
    (h : ∀ a ∈ l, q a = true → p a = true) : (l.filter p).filter q = l.filter q := by
  induction l with
  | nil => rfl
  | cons a t ih =>
    have iht := ih (fun x hx => h x (List.mem_cons_of_mem _ hx))
    by_cases hq : q a = true
    · have hp := h a (List.mem_cons_self ..) hq
      simp [hp, hq, iht]
    · by_cases hp : p a = true
      · simp [hp, hq, iht]
      · simp [hp, hq, iht]

theorem flatMap_congr' {α β : Type} (l : List α) (f g : α → List β) (h : ∀ a ∈ l, f a = g a) :
    l.flatMap f = l.flatMap g := by
  induction l with
  | nil => rfl
  | cons a t ih =>
    simp only [List.flatMap_cons]
    rw [h a (List.mem_cons_self ..), ih (fun x hx => h x (List.mem_cons_of_mem _ hx))]

theorem genIds_dropAlias (s : State) : (dropAlias s).genIds = s.genIds := by
  simp only [State.genIds, dropAlias]
  rw [filter_filter_of_imp]
  intro e he hk
  simp only [beq_iff_eq] at hk
  simp only [Bool.or_eq_true, inGen_iff]
  refine Or.inr ((mem_genIds s _).2 ⟨e.2, ?_⟩)
  have : ((e.1.1, keyClientState), e.2) = e := by rw [← hk]
  rw [this]; exact he

theorem inGen_dropAlias (s : State) (id : Id) : (dropAlias s).inGen id = s.inGen id := by
  simp only [State.inGen, genIds_dropAlias]

theorem perClient_dropAlias {β : Type} (s : State) (m : List (IdSeq × β)) :
    perClient (dropAlias s) (m.filter (fun e => s.inGen e.1.1)) = perClient s m := by
  simp only [perClient, genIds_dropAlias]
  apply flatMap_congr'
  intro id hid
  apply filter_filter_of_imp
  intro e _ hk
  simp only [beq_iff_eq] at hk
  rw [hk]; exact (inGen_iff s id).2 hid

theorem export_dropAlias (s : State) : exportG (dropAlias s) = exportG s := by
  have hg := genIds_dropAlias s
  simp only [exportG, hg, Genesis.mk.injEq]
  refine ⟨?_, ?_, ?_, rfl, rfl, ?_, rfl, ?_, rfl, rfl, ?_, rfl, rfl, rfl, ?_,
    rfl, rfl, rfl, ?_, ?_, ?_, ?_, ?_⟩
  · -- clients
    simp only [dropAlias]
    rw [filter_filter_of_imp]
    intro e he hk
    simp only [beq_iff_eq] at hk
    simp only [Bool.or_eq_true, inGen_iff]
    refine Or.inr ((mem_genIds s _).2 ⟨e.2, ?_⟩)
    have : ((e.1.1, keyClientState), e.2) = e := by rw [← hk]
    rw [this]; exact he
  · -- metadata
    simp only [dropAlias]
    apply flatMap_congr'
    intro id hid
    apply filter_filter_of_imp
    intro e _ hk
    simp only [Bool.and_eq_true, beq_iff_eq] at hk
    simp only [Bool.or_eq_true]
    exact Or.inr (by rw [hk.1]; exact (inGen_iff s id).2 hid)
  · -- consensus states
    simp only [dropAlias]
    apply filter_filter_of_imp
    intro e _ hk
    simp [hk]
  · -- counterparties
    simp only [dropAlias]
    apply flatMap_congr'
    intro id hid
    congr 1
    apply filter_filter_of_imp
    intro e _ hk
    simp only [beq_iff_eq] at hk
    simp only [Bool.or_eq_true]
    exact Or.inr (by rw [hk]; exact (inGen_iff s id).2 hid)
  · -- client connection paths
    simp only [dropAlias]
    apply flatMap_congr'
    intro id hid
    congr 1
    apply filter_filter_of_imp
    intro e _ hk
    simp only [beq_iff_eq] at hk
    simp only [Bool.or_eq_true]
    exact Or.inr (by rw [hk]; exact (inGen_iff s id).2 hid)
  · -- channels
    rfl
  · -- v1 send sequences
    simp only [dropAlias]
    apply flatMap_congr'
    intro c hc
    congr 1
    apply filter_filter_of_imp
    intro e _ hk
    simp only [beq_iff_eq] at hk
    simp only [Bool.or_eq_true]
    exact Or.inl ((isChan_iff s _).2 ⟨c, hc, hk.symm⟩)
  · exact perClient_dropAlias s s.acks2
  · exact perClient_dropAlias s s.commits2
  · exact perClient_dropAlias s s.receipts2
  · exact perClient_dropAlias s s.async2
  · -- v2 send sequences
    simp only [dropAlias]
    apply flatMap_congr'
    intro id hid
    apply filter_filter_of_imp
    intro e _ hk
    simp only [beq_iff_eq] at hk
    simp only [Bool.or_eq_true]
    exact Or.inr (by rw [hk]; exact (inGen_iff s id).2 hid)

/-- the exported genesis is rejected by clientv2 validation exactly for self-named counterparties -/
theorem valid_export_iff (env : Env) (s : State) :
    clientV2GenesisValid env (exportG s) = true ↔ ¬ SelfNamedCounterparty env s := by
  simp only [clientV2GenesisValid, exportG, List.all_eq_true, List.mem_flatMap, List.mem_map, List.mem_filter,
    beq_iff_eq, Bool.not_eq_true', beq_eq_false_iff_ne, ne_eq, SelfNamedCounterparty, inGen_iff]
  constructor
  · rintro h ⟨e, he, hk, hid, hcp⟩
    refine h (e.1.1, e.2) ⟨e.1.1, hid, e, ⟨he, ?_⟩, rfl⟩ hcp
    rw [← hk]
  · rintro h x ⟨id, hid, y, ⟨hy, hyk⟩, rfl⟩ hcp
    exact h ⟨y, hy, by rw [hyk], by rw [hyk]; exact hid, by rw [hyk]; exact hcp⟩

theorem initGenesis_export (env : Env) (s : State) (h : WF env s) (hv : ¬ SelfNamedCounterparty env s) :
    initGenesis env (exportG s) = some (dropAlias s) := by
  simp only [initGenesis, (valid_export_iff env s).2 hv, if_true, import_export_eq env s h]

theorem initGenesis_none_iff (env : Env) (s : State) :
    initGenesis env (exportG s) = none ↔ SelfNamedCounterparty env s := by
  unfold initGenesis
  by_cases hv : clientV2GenesisValid env (exportG s) = true
  · simp only [hv, if_true]
    constructor
    · intro h; cases h
    · intro h; exact absurd h ((valid_export_iff env s).1 hv)
  · simp only [hv]
    constructor
    · intro _
      exact Classical.byContradiction (fun hn => hv ((valid_export_iff env s).2 hn))
    · intro _; rfl

theorem wfB_iff (env : Env) (s : State) : wfB env s = true ↔ WF env s := by
  simp only [wfB, Bool.and_eq_true, sortedB_iff, List.contains_iff_mem, List.all_eq_true, beq_iff_eq,
    Bool.not_eq_true']
  constructor
  · rintro ⟨⟨⟨⟨⟨⟨⟨⟨⟨⟨⟨⟨⟨⟨⟨⟨⟨⟨a1, a2⟩, a3⟩, a4⟩, a5⟩, a6⟩, a7⟩, a8⟩, a9⟩, a10⟩, a11⟩, a12⟩, a13⟩, a14⟩, a15⟩, a16⟩, a17⟩, a18⟩, a19⟩
    exact ⟨a1, a2, a3, a4, a5, a6, a7, a8, a9, a10, a11, a12, a13, a14, a15, a16, a17, a18, a19⟩
  · rintro ⟨a1, a2, a3, a4, a5, a6, a7, a8, a9, a10, a11, a12, a13, a14, a15, a16, a17, a18, a19⟩
    exact ⟨⟨⟨⟨⟨⟨⟨⟨⟨⟨⟨⟨⟨⟨⟨⟨⟨⟨a1, a2⟩, a3⟩, a4⟩, a5⟩, a6⟩, a7⟩, a8⟩, a9⟩, a10⟩, a11⟩, a12⟩, a13⟩, a14⟩, a15⟩, a16⟩, a17⟩, a18⟩, a19⟩

end IbcVerif.Genesis
