/-
  Which ops can write the channel / connection stores, and which ops can make an end OPEN.
-/
import IbcVerif.Lemmas.ChainInv3
namespace IbcVerif.Chain
open FMap

/-- the channel end a message can move to OPEN -/
def Body.opensChan : Body → Option (Id × Id)
  | .chanOpenAck port chan _ _ _ => some (port, chan)
  | .chanOpenConfirm port chan _ => some (port, chan)
  | _ => none

/-- the connection end a message can move to OPEN -/
def Body.opensConn : Body → Option Id
  | .connOpenAck c _ _ => some c
  | .connOpenConfirm c => some c
  | _ => none

/-- the channel store after a step: unchanged, or one key written; the written end is OPEN only if
    the message is the ChanOpenAck / ChanOpenConfirm for that key -/
def ChanShape (body : Body) (s s' : ChainState) : Prop :=
  s'.chan = s.chan ∨ ∃ key v, s'.chan = s.chan.set key v ∧ (v.state = .opened → body.opensChan = some key)

def ConnShape (body : Body) (s s' : ChainState) : Prop :=
  s'.conn = s.conn ∨ ∃ key v, s'.conn = s.conn.set key v ∧ (v.state = .opened → body.opensConn = some key)

/-- split a handler equation; branches whose result has literally the channel and connection stores of
    `s` are closed -/
macro "csplit " h:ident : tactic =>
  `(tactic| ((try simp only at $h:ident); (repeat' split at $h:ident) <;>
      (try (simp only [Prod.mk.injEq] at $h:ident; obtain ⟨hh, -⟩ := $h:ident; subst hh;
            exact ⟨Or.inl rfl, Or.inl rfl⟩))))

theorem recvPacketV1_cc {s s1 : ChainState} {env : Env} {p : PacketV1} (h : recvPacketV1 s env p = .ok s1) :
    s1.chan = s.chan ∧ s1.conn = s.conn := by
  obtain ⟨ch, _, _, h2⟩ := recvPacketV1_ok h
  rcases applyReplayProtection_ok h2 with ⟨_, _, rfl⟩ | ⟨_, _, rfl⟩ <;> exact ⟨rfl, rfl⟩

theorem cc_of_eq {body : Body} {s s' : ChainState} (h1 : s'.chan = s.chan) (h2 : s'.conn = s.conn) :
    ChanShape body s s' ∧ ConnShape body s s' := ⟨.inl h1, .inl h2⟩

theorem afterTao_cc {body : Body} {s s' : ChainState} {env : Env} {x : Except String ChainState} {ev : Event} {app : AppV1}
    {out : Out} (hx : ∀ s1, x = .ok s1 → ChanShape body s s1 ∧ s1.conn = s.conn)
    (h : afterTao s env x ev app = (s', out)) : ChanShape body s s' ∧ ConnShape body s s' := by
  unfold afterTao at h
  csplit h
  msubst h
  obtain ⟨h1, h2⟩ := hx _ rfl
  exact ⟨h1, .inl h2⟩

theorem timeoutExecuted_cc (body : Body) (_hb : body.opensChan = none) (s : ChainState) (ch : Channel) (p : PacketV1) :
    ChanShape body s (timeoutExecuted s ch p) ∧ (timeoutExecuted s ch p).conn = s.conn := by
  rw [timeoutExecuted_eq]
  split
  · exact ⟨.inr ⟨_, _, rfl, fun h => by cases h⟩, rfl⟩
  · exact ⟨.inl rfl, rfl⟩

theorem step_shape {s s' : ChainState} {env : Env} {body : Body} {out : Out}
    (h : step s ⟨env, body⟩ = (s', out)) : ChanShape body s s' ∧ ConnShape body s s' := by
  unfold step at h
  simp only at h
  split at h
  · msubst h; exact ⟨.inl rfl, .inl rfl⟩
  · split at h
    · -- connOpenInit
      unfold msgConnOpenInit at h
      csplit h
      all_goals
        msubst h
        obtain ⟨X, hX⟩ := addConnectionToClient_ok ‹addConnectionToClient _ _ _ = Except.ok _›
        subst hX
        exact ⟨.inl rfl, .inr ⟨_, _, rfl, fun h => by cases h⟩⟩
    · unfold msgConnOpenTry at h
      csplit h
      all_goals
        msubst h
        obtain ⟨X, hX⟩ := addConnectionToClient_ok ‹addConnectionToClient _ _ _ = Except.ok _›
        subst hX
        exact ⟨.inl rfl, .inr ⟨_, _, rfl, fun h => by cases h⟩⟩
    · unfold msgConnOpenAck at h
      csplit h
      msubst h
      exact ⟨.inl rfl, .inr ⟨_, _, rfl, fun _ => rfl⟩⟩
    · unfold msgConnOpenConfirm at h
      csplit h
      msubst h
      exact ⟨.inl rfl, .inr ⟨_, _, rfl, fun _ => rfl⟩⟩
    · unfold msgChanOpenInit initSequences at h
      csplit h
      msubst h
      exact ⟨.inr ⟨_, _, rfl, fun h => by cases h⟩, .inl rfl⟩
    · unfold msgChanOpenTry initSequences at h
      csplit h
      msubst h
      exact ⟨.inr ⟨_, _, rfl, fun h => by cases h⟩, .inl rfl⟩
    · unfold msgChanOpenAck at h
      csplit h
      msubst h
      obtain ⟨C, A, hs, _⟩ := registerAlias_ok ‹registerAlias _ _ _ = Except.ok _›
      subst hs
      exact ⟨.inr ⟨_, _, rfl, fun _ => rfl⟩, .inl rfl⟩
    · unfold msgChanOpenConfirm at h
      csplit h
      msubst h
      obtain ⟨C, A, hs, _⟩ := registerAlias_ok ‹registerAlias _ _ _ = Except.ok _›
      subst hs
      exact ⟨.inr ⟨_, _, rfl, fun _ => rfl⟩, .inl rfl⟩
    · unfold msgChanCloseInit at h
      csplit h
      msubst h
      exact ⟨.inr ⟨_, _, rfl, fun h => by cases h⟩, .inl rfl⟩
    · unfold msgChanCloseConfirm at h
      csplit h
      msubst h
      exact ⟨.inr ⟨_, _, rfl, fun h => by cases h⟩, .inl rfl⟩
    · -- sendV1
      csplit h
      msubst h
      obtain ⟨_, _, _, _, rfl⟩ := sendPacketV1_ok ‹_›
      exact ⟨.inl rfl, .inl rfl⟩
    · -- recvV1
      unfold msgRecvPacket done at h
      csplit h
      all_goals msubst h
      all_goals (obtain ⟨hc, hn⟩ := recvPacketV1_cc ‹recvPacketV1 s env _ = Except.ok _›)
      all_goals first
        | exact ⟨.inl hc, .inl hn⟩
        | contradiction
        | (obtain ⟨_, _, _, _, _, _, _, rfl⟩ := writeAckV1_ok ‹writeAckV1 _ _ _ = Except.ok _›
           first
            | exact ⟨.inl hc, .inl hn⟩
            | exact absurd (writeAckV1_twice ‹_› ‹_›) id)
        | exact absurd (writeAckV1_twice ‹_› ‹_›) id
    · -- ackV1
      unfold msgAcknowledgement at h
      split at h
      · msubst h; exact ⟨.inl rfl, .inl rfl⟩
      · refine afterTao_cc (fun s1 h1 => ?_) h
        obtain ⟨_, _, _, _, hcase⟩ := acknowledgePacketV1_ok h1
        rcases hcase with ⟨_, _, rfl⟩ | ⟨_, rfl⟩ <;> exact ⟨.inl rfl, rfl⟩
    · unfold msgTimeout at h
      split at h
      · msubst h; exact ⟨.inl rfl, .inl rfl⟩
      · refine afterTao_cc (fun s1 h1 => ?_) h
        obtain ⟨ch, _, _, rfl⟩ := timeoutPacketV1_ok h1
        exact timeoutExecuted_cc _ rfl s ch _
    · unfold msgTimeoutOnClose at h
      split at h
      · msubst h; exact ⟨.inl rfl, .inl rfl⟩
      · refine afterTao_cc (fun s1 h1 => ?_) h
        obtain ⟨ch, _, _, rfl⟩ := timeoutOnCloseV1_ok h1
        exact timeoutExecuted_cc _ rfl s ch _
    · -- writeAckV1
      unfold done at h
      csplit h
      msubst h
      obtain ⟨_, _, _, _, _, _, _, rfl⟩ := writeAckV1_ok ‹_›
      exact ⟨.inl rfl, .inl rfl⟩
    · -- sendV2
      unfold msgSendPacketV2 at h
      csplit h
      msubst h
      obtain ⟨_, _, _, _, hs⟩ := sendPacketV2_ok ‹sendPacketV2 s env _ _ _ = Except.ok _›
      subst hs
      exact ⟨.inl rfl, .inl rfl⟩
    · -- recvV2
      unfold msgRecvPacketV2 done at h
      csplit h
      all_goals msubst h
      all_goals (obtain ⟨_, _, hs1⟩ := recvPacketV2_ok ‹recvPacketV2 s env _ = Except.ok _›; subst hs1)
      all_goals first
        | exact ⟨.inl rfl, .inl rfl⟩
        | (obtain ⟨_, _, _, _, rfl⟩ := writeAckV2_ok ‹writeAckV2 _ _ _ = Except.ok _›
           exact ⟨.inl rfl, .inl rfl⟩)
    · -- ackV2
      unfold msgAcknowledgementV2 at h
      csplit h
      all_goals
        msubst h
        obtain ⟨_, _, rfl⟩ := acknowledgePacketV2_ok ‹acknowledgePacketV2 s env _ = Except.ok _›
        exact ⟨.inl rfl, .inl rfl⟩
    · -- timeoutV2
      unfold msgTimeoutV2 at h
      csplit h
      all_goals
        msubst h
        obtain ⟨_, _, rfl⟩ := timeoutPacketV2_ok ‹timeoutPacketV2 s env _ = Except.ok _›
        exact ⟨.inl rfl, .inl rfl⟩
    · -- writeAckV2
      unfold done at h
      csplit h
      msubst h
      obtain ⟨_, _, _, hw, rfl⟩ := asyncWriteAckV2_ok ‹_›
      obtain ⟨_, _, _, _, rfl⟩ := writeAckV2_ok hw
      exact ⟨.inl rfl, .inl rfl⟩
    · unfold msgCreateClient at h; csplit h
    · unfold msgUpdateClient at h; csplit h
    · unfold msgRegisterCounterparty at h; csplit h
    · unfold msgUpdateClientConfig at h; csplit h
    · unfold msgDeleteClientCreator at h; csplit h
    · unfold msgRecoverClient at h; csplit h
    · unfold msgUpdateClientParams at h; csplit h
    · unfold msgUpdateConnParams at h; csplit h
    · unfold msgIBCSoftwareUpgrade at h; csplit h

end IbcVerif.Chain
