/-
  Receive paths in detail (C09, C10): what the two cache-context scopes of RecvPacket keep and drop.
-/
import IbcVerif.Lemmas.ChainOk2
namespace IbcVerif.Chain
open FMap

/-- the exact result of a successful v1 MsgRecvPacket, by application result:
    `s1` = state after the TAO checks (receipt / next-receive counter written);
    error ack: application writes dropped, ack written; success ack: writes kept, ack written;
    async: writes kept, no ack.  (`selfack` never succeeds.) -/
theorem recvV1_shape {s s' : ChainState} {env : Env} {p : PacketV1} {app : AppV1} {r : String}
    (h : step s ⟨env, .recvV1 p app⟩ = (s', .ok r)) :
    ∃ s1, recvPacketV1 s env p = .ok s1 ∧
      ((app.res = .ok ∧ s' = { s1 with log := s1.log ++ [.recv1 p.dp p.dc p.seq],
                                       app := appWrites s1.app "" env.tag app.w,
                                       ackV1 := s1.ackV1.set (p.dp, p.dc, p.seq) app.ack }) ∨
       (app.res = .err ∧ s' = { s1 with log := s1.log ++ [.recv1 p.dp p.dc p.seq],
                                        ackV1 := s1.ackV1.set (p.dp, p.dc, p.seq) app.ack }) ∨
       (app.res = .async ∧ s' = { s1 with log := s1.log ++ [.recv1 p.dp p.dc p.seq],
                                          app := appWrites s1.app "" env.tag app.w })) := by
  have hv := step_vb h rfl
  unfold step at h
  simp only [hv] at h
  simp only [Bool.false_eq_true, if_false] at h
  unfold msgRecvPacket done at h
  oksplit h
  all_goals (have hr := ‹recvPacketV1 s env p = Except.ok _›)
  · obtain ⟨bz, _, hbz, _, _, _, _, rfl⟩ := writeAckV1_ok ‹writeAckV1 _ p _ = Except.ok _›
    cases hbz
    exact ⟨_, hr, .inl ⟨‹_›, rfl⟩⟩
  · obtain ⟨bz, _, hbz, _, _, _, _, rfl⟩ := writeAckV1_ok ‹writeAckV1 _ p _ = Except.ok _›
    cases hbz
    exact ⟨_, hr, .inr (.inl ⟨‹_›, rfl⟩)⟩
  · exact ⟨_, hr, .inr (.inr ⟨‹_›, rfl⟩)⟩
  · exact absurd (writeAckV1_twice ‹_› ‹_›) id

/-! ### the v2 per-payload loop -/

/-- a loop that reports failure produced exactly the sentinel acknowledgement -/
theorem recvLoop_fail {tag : String} {np : Nat} :
    ∀ (pds : List Payload) (i : Nat) (apps : List AppV2) (st r : RecvLoop),
      recvLoop tag np i pds apps st = .ok r → st.isSuccess = true → r.isSuccess = false → r.acks = [sentinelAck]
  | [], _, _, st, r, h, hs, hr => by
    simp only [recvLoop, Except.ok.injEq] at h; subst h; rw [hs] at hr; cases hr
  | pd :: pds, i, apps, st, r, h, hs, hr => by
    unfold recvLoop at h
    simp only at h
    split at h
    · cases h
    · split at h
      · simp only [Except.ok.injEq] at h; subst h; rfl
      · split at h
        · cases h
        · split at h
          · split at h
            · cases h
            · exact recvLoop_fail pds _ _ _ r h hs hr
          · exact recvLoop_fail pds _ _ _ r h hs hr

/-- a loop that reports success ran every payload, collected one acknowledgement per payload in
    payload order, none of them the sentinel, and kept every payload's application writes -/
theorem recvLoop_success {tag : String} {np : Nat} :
    ∀ (pds : List Payload) (i : Nat) (apps : List AppV2) (st r : RecvLoop),
      recvLoop tag np i pds apps st = .ok r → r.isSuccess = true →
        st.isSuccess = true ∧ r.acks.length = st.acks.length + pds.length ∧ r.ran = (if pds = [] then st.ran else i + pds.length) ∧
        (∀ a ∈ r.acks, a ∈ st.acks ∨ a ≠ sentinelAck) ∧ (st.isAsync = true → r.isAsync = true)
  | [], _, _, st, r, h, hr => by
    simp only [recvLoop, Except.ok.injEq] at h; subst h
    exact ⟨hr, by simp, by simp, fun a ha => .inl ha, id⟩
  | pd :: pds, i, apps, st, r, h, hr => by
    unfold recvLoop at h
    simp only at h
    split at h
    · cases h
    · split at h
      · simp only [Except.ok.injEq] at h; subst h; cases hr
      · split at h
        · cases h
        · rename_i hsent
          have key : ∀ st' : RecvLoop, recvLoop tag np (i + 1) pds apps.tail st' = .ok r →
              st'.isSuccess = st.isSuccess → st'.acks = st.acks ++ [(apps.headD ⟨0, false, .ok, ""⟩).ack] →
              st'.ran = i + 1 → (st.isAsync = true → st'.isAsync = true) →
              st.isSuccess = true ∧ r.acks.length = st.acks.length + (pd :: pds).length ∧
              r.ran = (if (pd :: pds) = [] then st.ran else i + (pd :: pds).length) ∧
              (∀ a ∈ r.acks, a ∈ st.acks ∨ a ≠ sentinelAck) ∧ (st.isAsync = true → r.isAsync = true) := by
            intro st' hl h1 h2 h3 h4
            obtain ⟨g1, g2, g3, g4, g5⟩ := recvLoop_success pds _ _ st' r hl hr
            refine ⟨h1 ▸ g1, ?_, ?_, ?_, fun ha => g5 (h4 ha)⟩
            · rw [g2, h2]; simp; omega
            · simp only [List.cons_ne_nil, if_false, List.length_cons]
              rw [g3, h3]; split
              · subst_vars; simp
              · omega
            · intro a ha
              rcases g4 a ha with h' | h'
              · rw [h2] at h'
                rcases List.mem_append.mp h' with h'' | h''
                · exact .inl h''
                · right; simp only [List.mem_singleton] at h''; subst h''; exact hsent
              · exact .inr h'
          split at h
          · split at h
            · cases h
            · exact key _ h rfl rfl rfl (fun _ => rfl)
          · exact key _ h rfl rfl rfl id

/-- an asynchronous result is possible only for single-payload packets -/
theorem recvLoop_async {tag : String} {np : Nat} :
    ∀ (pds : List Payload) (i : Nat) (apps : List AppV2) (st r : RecvLoop),
      recvLoop tag np i pds apps st = .ok r → r.isAsync = true → st.isAsync = true ∨ np ≤ 1
  | [], _, _, st, r, h, hr => by
    simp only [recvLoop, Except.ok.injEq] at h; subst h; exact .inl hr
  | pd :: pds, i, apps, st, r, h, hr => by
    unfold recvLoop at h
    simp only at h
    split at h
    · cases h
    · split at h
      · simp only [Except.ok.injEq] at h; subst h; exact .inl hr
      · split at h
        · cases h
        · split at h
          · split at h
            · cases h
            · rename_i hnp; exact .inr (by omega)
          · rcases recvLoop_async pds _ _ _ r h hr with h' | h'
            · exact .inl h'
            · exact .inr h'

/-- the exact result of a successful v2 MsgRecvPacket -/
theorem recvV2_shape {s s' : ChainState} {env : Env} {p : PacketV2} {apps : List AppV2} {r : String}
    (h : step s ⟨env, .recvV2 p apps⟩ = (s', .ok r)) :
    ∃ s1 rl, recvPacketV2 s env p = .ok s1 ∧
      recvLoop env.tag p.payloads.length 0 p.payloads apps ⟨s1.app, [], false, true, 0⟩ = .ok rl ∧
      s'.app = (if rl.isSuccess then rl.app else s.app) ∧
      s'.log = s.log ++ [.recv2 p.dst p.seq rl.ran] ∧
      s'.receiptV2 = s.receiptV2.set (p.dst, p.seq) () ∧
      ((rl.isAsync = false ∧ s'.ackV2 = s.ackV2.set (p.dst, p.seq) rl.acks ∧ s'.asyncV2 = s.asyncV2 ∧
          (ackSuccessV2 rl.acks = true → rl.acks.length = p.payloads.length)) ∨
       (rl.isAsync = true ∧ s'.ackV2 = s.ackV2 ∧ s'.asyncV2 = s.asyncV2.set (p.dst, p.seq) p)) := by
  have hv := step_vb h rfl
  unfold step at h
  simp only [hv] at h
  simp only [Bool.false_eq_true, if_false] at h
  unfold msgRecvPacketV2 done at h
  oksplit h
  all_goals (have hr := ‹recvPacketV2 s env p = Except.ok _›; obtain ⟨_, _, hs1⟩ := recvPacketV2_ok hr; subst hs1)
  all_goals first
    | (obtain ⟨_, hlen, _, _, rfl⟩ := writeAckV2_ok ‹writeAckV2 _ p _ = Except.ok _›
       refine ⟨_, _, hr, ‹_›, ?_, rfl, rfl, .inl ⟨by simp_all, rfl, rfl, hlen⟩⟩
       simp_all [ChainState.logAdd])
    | (refine ⟨_, _, hr, ‹_›, ?_, rfl, rfl, .inr ⟨by simp_all, rfl, rfl⟩⟩
       simp_all [ChainState.logAdd])

end IbcVerif.Chain
