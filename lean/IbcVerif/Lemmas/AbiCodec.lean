import IbcVerif.Lemmas.AbiAtt
namespace IbcVerif.Abi
open IbcVerif

theorem unpackCompact_noPanic (i : Nat) (out : Bytes) : G.NoPanic (unpackCompact i out) := by
  unfold unpackCompact
  split
  · exact G.noPanic_err _
  · rename_i h
    rw [sliceFrom_ok out i (by omega)]
    simp only [G.bind_ok]
    split
    · exact G.noPanic_err _
    · rename_i h2
      rw [slice_ok _ 0 32 (by omega) (by omega)]
      simp only [G.bind_ok]
      split
      · exact G.noPanic_err _
      · rename_i h3
        rw [slice_ok _ 32 64 (by omega) (by omega)]
        exact G.noPanic_ok _

theorem unpackCompacts_noPanic (n i : Nat) (out : Bytes) : G.NoPanic (unpackCompacts n i out) := by
  induction n generalizing i with
  | zero => exact G.noPanic_ok _
  | succ n ih =>
    unfold unpackCompacts
    apply G.noPanic_bind _ _ (unpackCompact_noPanic _ _)
    intro p _
    apply G.noPanic_bind _ _ (ih _)
    intro ps _
    exact G.noPanic_ok _

theorem decodePacketAtt_noPanic (data : Bytes) : G.NoPanic (decodePacketAtt data) := by
  unfold decodePacketAtt
  split
  · exact G.noPanic_err _
  · split
    · exact G.noPanic_err _
    · rename_i h1 h2
      rw [slice_ok data 0 32 (by omega) (by omega)]
      simp only [G.bind_ok]
      split
      · exact G.noPanic_err _
      · split
        · exact G.noPanic_err _
        · rename_i h3 h4
          rw [sliceFrom_ok data _ (by omega)]
          simp only [G.bind_ok]
          apply G.noPanic_bind _ _ (toGo_noPanic _ _ _)
          intro hv _
          split
          · exact G.noPanic_err _
          · rename_i h5
            rcases lpp_spec 32 (data.drop (beNat ((data.take 32).drop 0))) (by omega) with ⟨e, he⟩ | ⟨b, l, he, hb, hl⟩
            · rw [he]; exact G.noPanic_err _
            · rw [he]
              simp only [G.bind_ok]
              rw [sliceFrom_ok _ b (by omega)]
              simp only [G.bind_ok]
              apply G.noPanic_bind
              · unfold forEachUnpack
                split
                · exact G.noPanic_err _
                · exact unpackCompacts_noPanic _ _ _
              · intro ps _
                cases hv <;> first | exact G.noPanic_ok _ | exact G.noPanic_err _

theorem decodeFtpd_noPanic (data : Bytes) : G.NoPanic (decodeFtpd data) := by
  unfold decodeFtpd
  apply G.noPanic_bind _ _ (unpackWrapped_noPanic _ _)
  intro vs _
  split
  · exact G.noPanic_ok _
  · exact G.noPanic_err _

theorem decodeGmp_noPanic (data : Bytes) : G.NoPanic (decodeGmp data) := by
  unfold decodeGmp
  apply G.noPanic_bind _ _ (unpackWrapped_noPanic _ _)
  intro vs _
  split
  · exact G.noPanic_ok _
  · exact G.noPanic_err _

theorem decodeAck_noPanic (data : Bytes) : G.NoPanic (decodeAck data) := by
  unfold decodeAck
  apply G.noPanic_bind _ _ (unpackWrapped_noPanic _ _)
  intro vs _
  split
  · exact G.noPanic_ok _
  · exact G.noPanic_err _

theorem unmarshalGmpAbi_noPanic (data : Bytes) : G.NoPanic (unmarshalGmpAbi data) := by
  unfold unmarshalGmpAbi
  apply G.noPanic_bind _ _ (decodeGmp_noPanic _)
  intro d _
  split
  · exact G.noPanic_ok _
  · exact G.noPanic_err _

theorem unmarshalAckAbi_noPanic (data : Bytes) : G.NoPanic (unmarshalAckAbi data) := by
  unfold unmarshalAckAbi
  apply G.noPanic_bind _ _ (decodeAck_noPanic _)
  intro d _
  split
  · exact G.noPanic_ok _
  · exact G.noPanic_err _

theorem decodeState_noPanic (data : Bytes) : G.NoPanic (decodeState data) := by
  unfold decodeState
  apply G.noPanic_bind _ _ (unpackStatic_noPanic _ _)
  intro vs _
  split
  · split
    · exact G.noPanic_err _
    · exact G.noPanic_ok _
  · exact G.noPanic_err _

/-! round trips of the concrete codecs -/

theorem parseBig10_dec (n : Nat) : parseBig10 (dec n) = some (false, n) := by
  have hne := dec_ne_nil n
  have hall := dec_all_digits n
  cases hd : dec n with
  | nil => exact absurd hd hne
  | cons c cs =>
    rw [hd] at hall
    have hc : c.isDigit = true := by simp at hall; exact hall.1
    have h1 : c ≠ '+' := by intro h; rw [h] at hc; exact absurd hc (by decide)
    have h2 : c ≠ '-' := by intro h; rw [h] at hc; exact absurd hc (by decide)
    have hv : Nat.ofDigitChars 10 (c :: cs) 0 = n := by rw [← hd]; simp [dec]
    have hp : parseDigits10 (c :: cs) = some n := by
      simp only [parseDigits10, List.isEmpty_cons, hall, hv]; rfl
    unfold parseBig10
    split
    · rename_i r heq; injection heq with a b; exact absurd a h1
    · rename_i r heq; injection heq with a b; exact absurd a h2
    · rw [hp]; rfl

theorem decodeFtpd_pack (denom sender receiver memo : Bytes) (n : Nat) (hn : n < 2 ^ 256)
    (hlen : (packWrapped [.dyn denom, .dyn sender, .dyn receiver, .num n, .dyn memo]).length < 2 ^ 63) :
    decodeFtpd (packWrapped [.dyn denom, .dyn sender, .dyn receiver, .num n, .dyn memo])
      = .ok ⟨denom, dec n, sender, receiver, memo⟩ := by
  unfold decodeFtpd
  rw [unpackWrapped_pack ics20Tys _ (by simp [ics20Tys, Fits, fits, hn]) hlen]
  rfl

theorem decodeGmp_encode (d : Gmp) (hlen : (encodeGmp d).length < 2 ^ 63) : decodeGmp (encodeGmp d) = .ok d := by
  unfold decodeGmp encodeGmp
  rw [unpackWrapped_pack gmpTys _ (by simp [gmpTys, Fits, fits]) hlen]
  rfl

theorem decodeAck_encode (r : Bytes) (hlen : (encodeAck r).length < 2 ^ 63) : decodeAck (encodeAck r) = .ok r := by
  unfold decodeAck encodeAck
  rw [unpackWrapped_pack [.dyn] _ (by simp [Fits, fits]) hlen]
  rfl

theorem decodeState_encode (s : StateAtt) (hh : s.height < 2 ^ 64) (ht : s.timestamp < 2 ^ 64) :
    decodeState (encodeState s) = .ok ⟨s.height, s.timestamp / nanosPerSecond * nanosPerSecond⟩ := by
  unfold decodeState encodeState
  have hsec : s.timestamp / nanosPerSecond < 2 ^ 64 := Nat.lt_of_le_of_lt (Nat.div_le_self _ _) ht
  have := unpackStatic_pack [.uint64, .uint64] [s.height, s.timestamp / nanosPerSecond] (by simp)
    (by simp [Fits, fits, hh, hsec]) (by rw [packStatic_length]; simp)
  rw [this]
  simp only [List.map, G.bind_ok]
  have hle : s.timestamp / nanosPerSecond * nanosPerSecond ≤ s.timestamp := Nat.div_mul_le_self _ _
  have hdiv : s.timestamp / nanosPerSecond ≤ (2 ^ 64 - 1) / nanosPerSecond := Nat.div_le_div_right (by omega)
  rw [if_neg (by omega), Nat.mod_eq_of_lt (by omega)]
end IbcVerif.Abi
