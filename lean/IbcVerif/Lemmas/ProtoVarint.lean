import IbcVerif.Model.Proto
namespace IbcVerif.Proto
open IbcVerif

theorem index_mid {α : Type} (pre : List α) (x : α) (post : List α) (i : Nat) (hi : i = pre.length) :
    G.index (pre ++ x :: post) i = .ok x := by
  subst hi; simp [G.index]

theorem index_ok {α : Type} (l : List α) (i : Nat) (h : i < l.length) : G.index l i = .ok l[i] := by
  simp [G.index, h]

theorem encVarint_lt (n : Nat) (h : n < 128) : encVarint n = [UInt8.ofNat n] := by
  rw [encVarint]; simp [h]

theorem encVarint_ge (n : Nat) (h : ¬ n < 128) : encVarint n = UInt8.ofNat (n % 128 + 128) :: encVarint (n / 128) := by
  rw [encVarint]; simp [h]

theorem encVarint_length_pos (n : Nat) : 0 < (encVarint n).length := by
  by_cases h : n < 128
  · rw [encVarint_lt n h]; simp
  · rw [encVarint_ge n h]; simp

theorem varintAux_enc (strict : Bool) : ∀ (n fuel shift acc : Nat) (d pre rest : Bytes) (i : Nat),
    d = pre ++ (encVarint n ++ rest) → i = pre.length → shift < 64 → n * 2 ^ shift < 2 ^ 64 →
    acc < 2 ^ shift → 77 ≤ shift + 7 * fuel →
    varintAux strict fuel shift d i acc = .ok (acc + n * 2 ^ shift, i + (encVarint n).length) := by
  intro n
  induction n using Nat.strongRecOn with
  | _ n ih =>
    intro fuel shift acc d pre rest i hd hi hs hn hacc hfuel
    obtain ⟨f, rfl⟩ : ∃ f, fuel = f + 1 := ⟨fuel - 1, by omega⟩
    have hpos : 0 < 2 ^ shift := Nat.two_pow_pos shift
    by_cases h : n < 128
    · rw [encVarint_lt n h] at hd ⊢
      have hidx : G.index d i = .ok (UInt8.ofNat n) := by
        rw [hd]; exact index_mid pre _ _ i hi
      have hlt : i < d.length := by rw [hd, hi]; simp
      have hb : (UInt8.ofNat n).toNat = n := by simp; omega
      have hstrict : ¬ (strict = true ∧ shift = 63 ∧ (UInt8.ofNat n).toNat ≥ 2) := by
        rintro ⟨_, h63, h2⟩
        rw [hb] at h2; subst h63
        have : 2 * 2 ^ 63 ≤ n * 2 ^ 63 := Nat.mul_le_mul_right _ h2
        omega
      unfold varintAux
      rw [if_neg (by omega), if_neg (by omega), hidx]
      simp only [G.bind_ok]
      rw [if_neg hstrict, hb, if_pos h, Nat.mod_eq_of_lt h, Nat.mod_eq_of_lt hn]
      rfl
    · rw [encVarint_ge n h] at hd ⊢
      have hidx : G.index d i = .ok (UInt8.ofNat (n % 128 + 128)) := by
        rw [hd]; exact index_mid pre _ _ i hi
      have hlt : i < d.length := by rw [hd, hi]; simp
      have hb : (UInt8.ofNat (n % 128 + 128)).toNat = n % 128 + 128 := by simp; omega
      have h128 : 128 * 2 ^ shift ≤ n * 2 ^ shift := Nat.mul_le_mul_right _ (by omega)
      have hsh : shift + 7 < 64 := by
        have : 2 ^ (shift + 7) < 2 ^ 64 := by
          rw [Nat.pow_add, Nat.mul_comm]; exact Nat.lt_of_le_of_lt h128 hn
        exact (Nat.pow_lt_pow_iff_right (by decide)).mp this
      have hstrict : ¬ (strict = true ∧ shift = 63 ∧ (UInt8.ofNat (n % 128 + 128)).toNat ≥ 2) := by
        rintro ⟨_, h63, _⟩; omega
      have hdecomp : n = n / 128 * 128 + n % 128 := by omega
      have hmul : n * 2 ^ shift = (n / 128) * 2 ^ (shift + 7) + (n % 128) * 2 ^ shift := by
        rw [Nat.pow_add, show (2:Nat) ^ 7 = 128 by decide]
        calc n * 2 ^ shift = (n / 128 * 128 + n % 128) * 2 ^ shift := by rw [← hdecomp]
          _ = n / 128 * (2 ^ shift * 128) + n % 128 * 2 ^ shift := by
            rw [Nat.add_mul, Nat.mul_assoc, Nat.mul_comm 128 (2 ^ shift)]
      have hlow : (n % 128) * 2 ^ shift < 2 ^ 64 := by omega
      have hacc' : acc + (n % 128) * 2 ^ shift < 2 ^ (shift + 7) := by
        rw [Nat.pow_add, show (2:Nat) ^ 7 = 128 by decide]
        have : (n % 128) * 2 ^ shift ≤ 127 * 2 ^ shift := Nat.mul_le_mul_right _ (by omega)
        omega
      have hd' : d = (pre ++ [UInt8.ofNat (n % 128 + 128)]) ++ (encVarint (n / 128) ++ rest) := by
        rw [hd]; simp
      have := ih (n / 128) (by omega) f (shift + 7) (acc + (n % 128) * 2 ^ shift) d
        (pre ++ [UInt8.ofNat (n % 128 + 128)]) rest (i + 1) hd' (by simp [hi]) hsh (by omega) hacc' (by omega)
      unfold varintAux
      rw [if_neg (by omega), if_neg (by omega), hidx]
      simp only [G.bind_ok]
      rw [if_neg hstrict, hb, if_neg (by omega)]
      have hm : (n % 128 + 128) % 128 = n % 128 := by omega
      rw [hm, Nat.mod_eq_of_lt hlow, this]
      congr 1
      rw [hmul, List.length_cons]
      congr 1 <;> omega

theorem varint_enc (strict : Bool) (n : Nat) (hn : n < 2 ^ 64) (d pre rest : Bytes) (i : Nat)
    (hd : d = pre ++ (encVarint n ++ rest)) (hi : i = pre.length) :
    varint strict d i = .ok (n, i + (encVarint n).length) := by
  have := varintAux_enc strict n 11 0 0 d pre rest i hd hi (by decide) (by simpa using hn) (by decide) (by decide)
  simpa [varint] using this
end IbcVerif.Proto
