/-
  Small concrete states used by the non-vacuity `example`s of the chain property files.
-/
import IbcVerif.Lemmas.ChainOk2
namespace IbcVerif.Chain.Ex

def chOpen : Channel := ⟨.opened, .unordered, "mock", "channel-9", ["connection-0"], "v"⟩
def chClosedOrdered : Channel := ⟨.closed, .ordered, "mock", "channel-9", ["connection-0"], "v"⟩
/-- a state with one OPEN UNORDERED channel end -/
def sOpen : ChainState := { Chain.init with chan := FMap.empty.set ("mock", "channel-0") chOpen, nextChanSeq := 1 }
/-- a state with one CLOSED ORDERED channel end -/
def sClosed : ChainState := { Chain.init with chan := FMap.empty.set ("mock", "channel-0") chClosedOrdered, nextChanSeq := 1 }
/-- a packet addressed to that end -/
def pkIn : PacketV1 := ⟨1, "mock", "channel-9", "mock", "channel-0", 1, 100, 0, "02"⟩
/-- a packet sent from that end -/
def pkOut : PacketV1 := ⟨1, "mock", "channel-0", "mock", "channel-9", 1, 100, 0, "02"⟩
def lcOK : LcEnv := ⟨.active, [], ⟨1, 30⟩, [], some 1577923200000000000, true, true, true, true, true⟩
def envOK : Env := ⟨5, 1577923200000000000, "alice", lcOK, "t", true⟩
def appOK : AppV1 := ⟨1, false, .ok, "aa", none⟩

end IbcVerif.Chain.Ex
