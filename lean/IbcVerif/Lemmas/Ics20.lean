/-
  Effect lemmas for the ICS-20 model (`Model/Ics20.lean`, `Model/Bank.lean`): what a successful
  primitive / handler does to balances, supply, tracked escrow and the denomination store.
-/
import IbcVerif.Model.Ics20
import IbcVerif.Lemmas.Denom
import Mathlib.Tactic.SplitIfs
namespace IbcVerif.Ics20
open IbcVerif IbcVerif.Xfer

/-! ### bank primitives -/

theorem Bank.send_some {b b' : Bank} {f t : Addr} {d : Str} {n : Nat} (h : b.send f t d n = some b') :
    n ≤ b.bal f d ∧ b'.supply = b.supply ∧
    ∀ a x, b'.bal a x =
      if x = d then
        (if a = t then (if a = f then b.bal a x - n else b.bal a x) + n
         else (if a = f then b.bal a x - n else b.bal a x))
      else b.bal a x := by
  unfold Bank.send at h
  split at h
  · cases h
  · rename_i hlt
    injection h with h
    subst h
    refine ⟨by omega, rfl, ?_⟩
    intro a x
    simp only [Bank.setBal]
    split_ifs <;> simp_all

theorem Bank.send_none {b : Bank} {f t : Addr} {d : Str} {n : Nat} :
    b.send f t d n = none ↔ b.bal f d < n := by
  unfold Bank.send
  split <;> simp_all

theorem Bank.send_isSome {b : Bank} {f t : Addr} {d : Str} {n : Nat} (h : n ≤ b.bal f d) :
    ∃ b', b.send f t d n = some b' := by
  unfold Bank.send
  split
  · omega
  · exact ⟨_, rfl⟩

theorem Bank.mint_bal (b : Bank) (m : Addr) (d : Str) (n : Nat) (a : Addr) (x : Str) :
    (b.mint m d n).bal a x = if a = m ∧ x = d then b.bal a x + n else b.bal a x := by
  simp only [Bank.mint, Bank.setBal, Bank.setSupply]
  split_ifs with h
  · rw [h.1, h.2]
  · rfl

theorem Bank.mint_supply (b : Bank) (m : Addr) (d : Str) (n : Nat) (x : Str) :
    (b.mint m d n).supply x = if x = d then b.supply x + n else b.supply x := by
  simp only [Bank.mint, Bank.setBal, Bank.setSupply]
  split_ifs with h
  · rw [h]
  · rfl

theorem Bank.burn_some {b b' : Bank} {m : Addr} {d : Str} {n : Nat} (h : b.burn m d n = some b') :
    n ≤ b.bal m d ∧ n ≤ b.supply d ∧
    (∀ a x, b'.bal a x = if a = m ∧ x = d then b.bal a x - n else b.bal a x) ∧
    (∀ x, b'.supply x = if x = d then b.supply x - n else b.supply x) := by
  unfold Bank.burn at h
  split at h
  · cases h
  · rename_i hn
    injection h with h
    subst h
    refine ⟨by omega, by omega, ?_, ?_⟩
    · intro a x
      simp only [Bank.setBal, Bank.setSupply]
      split_ifs with h1
      · rw [h1.1, h1.2]
      · rfl
    · intro x
      simp only [Bank.setBal, Bank.setSupply]
      split_ifs with h1
      · rw [h1]
      · rfl

/-! ### escrow / unescrow -/

theorem escrowCoin_ok {ch ch' : Chain} {s e : Addr} {d : Str} {n : Nat} (h : escrowCoin ch s e d n = .ok ch') :
    ∃ b', ch.bank.send s e d n = some b' ∧ ch'.bank = b' ∧
      (∀ x, ch'.totalEscrow x = if x = d then ch.totalEscrow x + n else ch.totalEscrow x) ∧
      ch'.denoms = ch.denoms ∧ ch'.sendEnabled = ch.sendEnabled ∧ ch'.recvEnabled = ch.recvEnabled := by
  unfold escrowCoin at h
  split at h
  · cases h
  · rename_i b hb
    injection h with h
    subst h
    refine ⟨b, hb, rfl, ?_, rfl, rfl, rfl⟩
    intro x
    simp only [setTotalEscrow]
    split_ifs with hx
    · rw [hx]
    · rfl

theorem unescrowCoin_ok {ch ch' : Chain} {e r : Addr} {d : Str} {n : Nat} (h : unescrowCoin ch e r d n = .ok ch') :
    ∃ b', ch.bank.send e r d n = some b' ∧ ch'.bank = b' ∧ n ≤ ch.totalEscrow d ∧
      (∀ x, ch'.totalEscrow x = if x = d then ch.totalEscrow x - n else ch.totalEscrow x) ∧
      ch'.denoms = ch.denoms ∧ ch'.sendEnabled = ch.sendEnabled ∧ ch'.recvEnabled = ch.recvEnabled := by
  unfold unescrowCoin at h
  split at h
  · cases h
  · rename_i b hb
    split at h
    · cases h
    · rename_i hn
      injection h with h
      subst h
      refine ⟨b, hb, rfl, by omega, ?_, rfl, rfl, rfl⟩
      intro x
      simp only [setTotalEscrow]
      split_ifs with hx
      · rw [hx]
      · rfl

/-! ### handlers: shape of a successful outcome -/

/-- `SendTransfer` succeeded: either the burn branch or the escrow branch was taken -/
theorem sendTransfer_ok {cfg : Config} {c : Nat} {ch ch' : Chain} {port chan : Str} {tok : Denom} {amt : Nat}
    {sender : Addr} (h : sendTransfer cfg c ch port chan tok amt sender = .ok ch') :
    ch.sendEnabled = true ∧ isBlockedAddr cfg c sender = false ∧
    ((tok.hasPrefix port chan = true ∧
        ∃ b b', ch.bank.send sender cfg.moduleAddr (tok.ibcDenom cfg.hashHex) amt = some b ∧
          b.burn cfg.moduleAddr (tok.ibcDenom cfg.hashHex) amt = some b' ∧ ch' = { ch with bank := b' }) ∨
     (tok.hasPrefix port chan = false ∧
        escrowCoin ch sender (cfg.escrowAddr port chan) (tok.ibcDenom cfg.hashHex) amt = .ok ch')) := by
  unfold sendTransfer at h
  simp only [ics20SendCoinDenom] at h
  cases h1 : ch.sendEnabled with
  | false => simp [h1] at h
  | true =>
    cases h2 : isBlockedAddr cfg c sender with
    | true => simp [h1, h2] at h
    | false =>
      cases h3 : sdkValidDenom (tok.ibcDenom cfg.hashHex) with
      | false => simp [h1, h2, h3] at h
      | true =>
        simp only [h1, h2, h3, Bool.not_true, Bool.false_eq_true, if_false] at h
        refine ⟨rfl, rfl, ?_⟩
        cases hp : tok.hasPrefix port chan with
        | true =>
          simp only [hp, if_true] at h
          left
          refine ⟨rfl, ?_⟩
          split at h
          · cases h
          · rename_i b hb
            split at h
            · cases h
            · rename_i b' hb'
              injection h with h
              exact ⟨b, b', hb, hb', h.symm⟩
        | false =>
          simp only [hp, Bool.false_eq_true, if_false] at h
          right
          exact ⟨rfl, h⟩

/-- `refundPacketTokens` succeeded: mint-back branch or unescrow branch -/
theorem refund_ok {cfg : Config} {c : Nat} {ch ch' : Chain} {sp sc : Str} {data : PacketData}
    (h : refundPacketTokens cfg c ch sp sc data = .ok ch') :
    ∃ sender, cfg.decode data.sender = some sender ∧
    (((extract data.denom).hasPrefix sp sc = true ∧
        ∃ b', (ch.bank.mint cfg.moduleAddr ((extract data.denom).ibcDenom cfg.hashHex) data.amount).send
            cfg.moduleAddr sender ((extract data.denom).ibcDenom cfg.hashHex) data.amount = some b' ∧
          ch' = { ch with bank := b' }) ∨
     ((extract data.denom).hasPrefix sp sc = false ∧
        unescrowCoin ch (cfg.escrowAddr sp sc) sender ((extract data.denom).ibcDenom cfg.hashHex) data.amount = .ok ch')) := by
  unfold refundPacketTokens at h
  split at h
  · cases h
  · rename_i sender hs
    refine ⟨sender, hs, ?_⟩
    cases h1 : isBlockedAddr cfg c sender with
    | true => simp [h1] at h
    | false =>
      cases h2 : sdkValidDenom ((extract data.denom).ibcDenom cfg.hashHex) with
      | false => simp [h1, h2] at h
      | true =>
        simp only [h1, h2, Bool.not_true, Bool.false_eq_true, if_false] at h
        cases hp : (extract data.denom).hasPrefix sp sc with
        | true =>
          simp only [hp, if_true] at h
          left
          refine ⟨rfl, ?_⟩
          split at h
          · cases h
          · rename_i b' hb'
            injection h with h
            exact ⟨b', hb', h.symm⟩
        | false =>
          simp only [hp, Bool.false_eq_true, if_false] at h
          right
          exact ⟨rfl, h⟩

/-- `OnRecvPacket` succeeded: unescrow branch or mint branch -/
theorem onRecvPacket_ok {cfg : Config} {c : Nat} {ch ch' : Chain} {data : PacketData} {sp sc dp dc : Str}
    (h : onRecvPacket cfg c ch data sp sc dp dc = .ok ch') :
    validatePacketData data = none ∧ ch.recvEnabled = true ∧
    ∃ receiver, cfg.decode data.receiver = some receiver ∧ isBlockedAddr cfg c receiver = false ∧
    (((extract data.denom).hasPrefix sp sc = true ∧
        unescrowCoin ch (cfg.escrowAddr dp dc) receiver (ics20RecvCoinDenom cfg.hashHex sp sc dp dc data.denom) data.amount = .ok ch') ∨
     ((extract data.denom).hasPrefix sp sc = false ∧
        mintVoucher cfg ch ⟨⟨dp, dc⟩ :: (extract data.denom).trace, (extract data.denom).base⟩
          (ics20RecvCoinDenom cfg.hashHex sp sc dp dc data.denom) receiver data.amount = .ok ch')) := by
  unfold onRecvPacket at h
  split at h
  · cases h
  · rename_i hv
    cases hr : ch.recvEnabled with
    | false => simp [hr] at h
    | true =>
      simp only [hr, Bool.not_true, Bool.false_eq_true, if_false] at h
      split at h
      · cases h
      · rename_i receiver hd
        cases hb : isBlockedAddr cfg c receiver with
        | true => simp [hb] at h
        | false =>
          cases hc : sdkValidDenom (ics20RecvCoinDenom cfg.hashHex sp sc dp dc data.denom) with
          | false => simp [hb, hc] at h
          | true =>
            simp only [hb, hc, Bool.not_true, Bool.false_eq_true, if_false] at h
            refine ⟨hv, (by first | rfl | exact hr), receiver, hd, (by first | rfl | exact hb), ?_⟩
            cases hp : (extract data.denom).hasPrefix sp sc with
            | true =>
              simp only [hp, if_true] at h
              exact Or.inl ⟨rfl, h⟩
            | false =>
              simp only [hp, Bool.false_eq_true, if_false] at h
              exact Or.inr ⟨rfl, h⟩

/-- the mint branch: bank effect, tracked escrow untouched, store extended by at most the minted denom -/
theorem mintVoucher_ok {cfg : Config} {ch ch' : Chain} {d' : Denom} {coin : Str} {receiver : Addr} {amt : Nat}
    (h : mintVoucher cfg ch d' coin receiver amt = .ok ch') :
    (∃ b', (ch.bank.mint cfg.moduleAddr coin amt).send cfg.moduleAddr receiver coin amt = some b' ∧ ch'.bank = b') ∧
    ch'.totalEscrow = ch.totalEscrow ∧ ch'.sendEnabled = ch.sendEnabled ∧ ch'.recvEnabled = ch.recvEnabled ∧
    (ch'.denoms = ch.denoms ∨ (hasDenom cfg ch (cfg.hashHex d'.path) = false ∧ ch'.denoms = (setDenom cfg ch d').denoms)) := by
  unfold mintVoucher at h
  by_cases hh : hasDenom cfg ch (cfg.hashHex d'.path) = true
  · simp only [hh, if_true] at h
    split at h
    · cases h
    · rename_i b' hb'
      injection h with h
      subst h
      exact ⟨⟨b', hb', rfl⟩, rfl, rfl, rfl, Or.inl rfl⟩
  · simp only [hh, if_false, Bool.false_eq_true] at h
    split at h
    · cases h
    · rename_i b' hb'
      injection h with h
      subst h
      exact ⟨⟨b', by simpa [setDenom] using hb', rfl⟩, rfl, rfl, rfl, Or.inr ⟨by simpa using hh, rfl⟩⟩

/-! ### pointwise effects -/

/-- balances after moving `n` of coin `k` from `f` to `t` (the SDK's sub-then-add order) -/
def moveBal (bal : Addr → Str → Nat) (f t : Addr) (k : Str) (n : Nat) (a : Addr) (x : Str) : Nat :=
  if x = k then
    (if a = t then (if a = f then bal a x - n else bal a x) + n
     else (if a = f then bal a x - n else bal a x))
  else bal a x

theorem Bank.send_some' {b b' : Bank} {f t : Addr} {d : Str} {n : Nat} (h : b.send f t d n = some b') :
    n ≤ b.bal f d ∧ b'.supply = b.supply ∧ ∀ a x, b'.bal a x = moveBal b.bal f t d n a x :=
  Bank.send_some h

/-- effect of a successful `SendTransfer` -/
theorem sendTransfer_effect {cfg : Config} {c : Nat} {ch ch' : Chain} {port chan : Str} {tok : Denom} {n : Nat}
    {s : Addr} (h : sendTransfer cfg c ch port chan tok n s = .ok ch') :
    ch'.denoms = ch.denoms ∧ ch'.sendEnabled = ch.sendEnabled ∧ ch'.recvEnabled = ch.recvEnabled ∧
    n ≤ ch.bank.bal s (tok.ibcDenom cfg.hashHex) ∧
    ((tok.hasPrefix port chan = true ∧ n ≤ ch.bank.supply (tok.ibcDenom cfg.hashHex) ∧
      (∀ a x, ch'.bank.bal a x = if x = tok.ibcDenom cfg.hashHex ∧ a = s then ch.bank.bal a x - n else ch.bank.bal a x) ∧
      (∀ x, ch'.bank.supply x = if x = tok.ibcDenom cfg.hashHex then ch.bank.supply x - n else ch.bank.supply x) ∧
      ch'.totalEscrow = ch.totalEscrow) ∨
     (tok.hasPrefix port chan = false ∧
      (∀ a x, ch'.bank.bal a x = moveBal ch.bank.bal s (cfg.escrowAddr port chan) (tok.ibcDenom cfg.hashHex) n a x) ∧
      ch'.bank.supply = ch.bank.supply ∧
      (∀ x, ch'.totalEscrow x = if x = tok.ibcDenom cfg.hashHex then ch.totalEscrow x + n else ch.totalEscrow x))) := by
  obtain ⟨_, _, hb⟩ := sendTransfer_ok h
  rcases hb with ⟨hp, b, b', hs, hbn, rfl⟩ | ⟨hp, he⟩
  · obtain ⟨hn, hsup, hbal⟩ := Bank.send_some hs
    obtain ⟨hm, hsn, hbal', hsup'⟩ := Bank.burn_some hbn
    refine ⟨rfl, rfl, rfl, hn, Or.inl ⟨hp, by rw [← hsup]; exact hsn, ?_, ?_, rfl⟩⟩
    · intro a x
      simp only
      rw [hbal' a x, hbal a x]
      have hm' := hm
      rw [hbal] at hm'
      by_cases hx : x = tok.ibcDenom cfg.hashHex
      · subst hx
        by_cases ham : a = cfg.moduleAddr <;> by_cases has : a = s <;> simp [ham, has] <;> (try subst ham) <;> (try subst has) <;> simp_all <;> omega
      · simp [hx]
    · intro x
      simp only
      rw [hsup' x, hsup]
  · obtain ⟨b', hs, hbk, hte, hd, hse, hre⟩ := escrowCoin_ok he
    obtain ⟨hn, hsup, hbal⟩ := Bank.send_some hs
    refine ⟨hd, hse, hre, hn, Or.inr ⟨hp, ?_, ?_, hte⟩⟩
    · intro a x; rw [hbk]; exact hbal a x
    · rw [hbk]; exact hsup

/-- effect of a successful `refundPacketTokens` -/
theorem refund_effect {cfg : Config} {c : Nat} {ch ch' : Chain} {sp sc : Str} {data : PacketData}
    (h : refundPacketTokens cfg c ch sp sc data = .ok ch') :
    ∃ s, cfg.decode data.sender = some s ∧
    ch'.denoms = ch.denoms ∧ ch'.sendEnabled = ch.sendEnabled ∧ ch'.recvEnabled = ch.recvEnabled ∧
    (((extract data.denom).hasPrefix sp sc = true ∧
      (∀ a x, ch'.bank.bal a x = if x = (extract data.denom).ibcDenom cfg.hashHex ∧ a = s then ch.bank.bal a x + data.amount else ch.bank.bal a x) ∧
      (∀ x, ch'.bank.supply x = if x = (extract data.denom).ibcDenom cfg.hashHex then ch.bank.supply x + data.amount else ch.bank.supply x) ∧
      ch'.totalEscrow = ch.totalEscrow) ∨
     ((extract data.denom).hasPrefix sp sc = false ∧
      data.amount ≤ ch.bank.bal (cfg.escrowAddr sp sc) ((extract data.denom).ibcDenom cfg.hashHex) ∧
      data.amount ≤ ch.totalEscrow ((extract data.denom).ibcDenom cfg.hashHex) ∧
      (∀ a x, ch'.bank.bal a x = moveBal ch.bank.bal (cfg.escrowAddr sp sc) s ((extract data.denom).ibcDenom cfg.hashHex) data.amount a x) ∧
      ch'.bank.supply = ch.bank.supply ∧
      (∀ x, ch'.totalEscrow x = if x = (extract data.denom).ibcDenom cfg.hashHex then ch.totalEscrow x - data.amount else ch.totalEscrow x))) := by
  obtain ⟨s, hs, hb⟩ := refund_ok h
  refine ⟨s, hs, ?_⟩
  rcases hb with ⟨hp, b', hsend, rfl⟩ | ⟨hp, hu⟩
  · obtain ⟨hn, hsup, hbal⟩ := Bank.send_some hsend
    refine ⟨rfl, rfl, rfl, Or.inl ⟨hp, ?_, ?_, rfl⟩⟩
    · intro a x
      simp only
      rw [hbal a x]
      simp only [Bank.mint_bal]
      by_cases hx : x = (extract data.denom).ibcDenom cfg.hashHex
      · subst hx
        by_cases ham : a = cfg.moduleAddr <;> by_cases has : a = s <;> simp [ham, has] <;> (try subst ham) <;> (try subst has) <;> simp_all <;> omega
      · simp [hx]
    · intro x
      simp only
      rw [hsup, Bank.mint_supply]
  · obtain ⟨b', hsend, hbk, hte, htot, hd, hse, hre⟩ := unescrowCoin_ok hu
    obtain ⟨hn, hsup, hbal⟩ := Bank.send_some hsend
    refine ⟨hd, hse, hre, Or.inr ⟨hp, hn, hte, ?_, ?_, htot⟩⟩
    · intro a x; rw [hbk]; exact hbal a x
    · rw [hbk]; exact hsup

/-- effect of a successful `OnRecvPacket` -/
theorem onRecvPacket_effect {cfg : Config} {c : Nat} {ch ch' : Chain} {data : PacketData} {sp sc dp dc : Str}
    (h : onRecvPacket cfg c ch data sp sc dp dc = .ok ch') :
    ∃ r, cfg.decode data.receiver = some r ∧ validatePacketData data = none ∧
    ch'.sendEnabled = ch.sendEnabled ∧ ch'.recvEnabled = ch.recvEnabled ∧
    (((extract data.denom).hasPrefix sp sc = true ∧ ch'.denoms = ch.denoms ∧
      data.amount ≤ ch.bank.bal (cfg.escrowAddr dp dc) (ics20RecvCoinDenom cfg.hashHex sp sc dp dc data.denom) ∧
      data.amount ≤ ch.totalEscrow (ics20RecvCoinDenom cfg.hashHex sp sc dp dc data.denom) ∧
      (∀ a x, ch'.bank.bal a x = moveBal ch.bank.bal (cfg.escrowAddr dp dc) r (ics20RecvCoinDenom cfg.hashHex sp sc dp dc data.denom) data.amount a x) ∧
      ch'.bank.supply = ch.bank.supply ∧
      (∀ x, ch'.totalEscrow x = if x = ics20RecvCoinDenom cfg.hashHex sp sc dp dc data.denom then ch.totalEscrow x - data.amount else ch.totalEscrow x)) ∨
     ((extract data.denom).hasPrefix sp sc = false ∧
      (ch'.denoms = ch.denoms ∨
        ch'.denoms = (setDenom cfg ch ⟨⟨dp, dc⟩ :: (extract data.denom).trace, (extract data.denom).base⟩).denoms) ∧
      (∀ a x, ch'.bank.bal a x = if x = ics20RecvCoinDenom cfg.hashHex sp sc dp dc data.denom ∧ a = r then ch.bank.bal a x + data.amount else ch.bank.bal a x) ∧
      (∀ x, ch'.bank.supply x = if x = ics20RecvCoinDenom cfg.hashHex sp sc dp dc data.denom then ch.bank.supply x + data.amount else ch.bank.supply x) ∧
      ch'.totalEscrow = ch.totalEscrow)) := by
  obtain ⟨hv, _, r, hr, _, hb⟩ := onRecvPacket_ok h
  refine ⟨r, hr, hv, ?_⟩
  rcases hb with ⟨hp, hu⟩ | ⟨hp, hm⟩
  · obtain ⟨b', hsend, hbk, hte, htot, hd, hse, hre⟩ := unescrowCoin_ok hu
    obtain ⟨hn, hsup, hbal⟩ := Bank.send_some hsend
    refine ⟨hse, hre, Or.inl ⟨hp, hd, hn, hte, ?_, ?_, htot⟩⟩
    · intro a x; rw [hbk]; exact hbal a x
    · rw [hbk]; exact hsup
  · obtain ⟨⟨b', hsend, hbk⟩, htot, hse, hre, hden⟩ := mintVoucher_ok hm
    obtain ⟨hn, hsup, hbal⟩ := Bank.send_some hsend
    refine ⟨hse, hre, Or.inr ⟨hp, ?_, ?_, ?_, htot⟩⟩
    · rcases hden with e | ⟨_, e⟩
      · exact Or.inl e
      · exact Or.inr e
    · intro a x
      rw [hbk, hbal a x]
      simp only [Bank.mint_bal]
      by_cases hx : x = ics20RecvCoinDenom cfg.hashHex sp sc dp dc data.denom
      · subst hx
        by_cases ham : a = cfg.moduleAddr <;> by_cases has : a = r <;> simp [ham, has] <;> (try subst ham) <;> (try subst has) <;> simp_all <;> omega
      · simp [hx]
    · intro x
      rw [hbk, hsup, Bank.mint_supply]

theorem moveBal_lt {bal : Addr → Str → Nat} {f t : Addr} {k : Str} {n : Nat} {a : Addr} {x : Str}
    (h : moveBal bal f t k n a x < bal a x) : a = f ∧ x = k := by
  unfold moveBal at h
  split_ifs at h <;> first | omega | exact ⟨by assumption, by assumption⟩

theorem moveBal_gt {bal : Addr → Str → Nat} {f t : Addr} {k : Str} {n : Nat} {a : Addr} {x : Str}
    (h : bal a x < moveBal bal f t k n a x) : a = t ∧ x = k := by
  unfold moveBal at h
  split_ifs at h <;> first | omega | exact ⟨by assumption, by assumption⟩

theorem tokenFromCoin_cases {cfg : Config} {ch : Chain} {denom : Str} {tok : Denom}
    (h : tokenFromCoin cfg ch denom = .ok tok) : tok = ⟨[], denom⟩ ∨ tok ∈ ch.denoms := by
  unfold tokenFromCoin at h
  split at h
  · injection h with h; exact Or.inl h.symm
  · split at h
    · cases h
    · split at h
      · rename_i d hd
        injection h with h
        subst h
        right
        exact List.mem_of_find?_eq_some hd
      · cases h

theorem moveBal_inverse (b0 b2 : Addr → Str → Nat) (s e : Addr) (k : Str) (n : Nat)
    (h0 : n ≤ b0 s k) (h2 : n ≤ b2 e k) (a : Addr) (x : Str) :
    moveBal b2 e s k n a x + moveBal b0 s e k n a x = b2 a x + b0 a x := by
  unfold moveBal
  by_cases hx : x = k
  · subst hx
    by_cases has : a = s <;> by_cases hae : a = e <;> simp [has, hae] <;>
      (try subst has) <;> (try subst hae) <;> simp_all <;> omega
  · simp [hx]

end IbcVerif.Ics20
