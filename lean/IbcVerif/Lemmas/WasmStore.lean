/-
  Helper lemmas for the ClientRecoveryStore model (property C29).
-/
import IbcVerif.Model.WasmStore
namespace IbcVerif.WasmStore

/-! ### finite-map algebra of the wrapped store -/

theorem KV.get_filter_ne (m : KV) (k k' : Bytes) :
    KV.get (m.filter (fun p => p.1 != k)) k' = if k' = k then none else KV.get m k' := by
  induction m with
  | nil => simp [KV.get, List.lookup]
  | cons p m ih =>
    obtain ⟨a, b⟩ := p
    simp only [KV.get] at ih ⊢
    by_cases hak : a = k
    · subst hak
      by_cases hk : k' = a
      · subst hk; simpa [List.filter] using ih
      · have : (k' == a) = false := by simpa using hk
        simp [List.filter, List.lookup, this, hk] at ih ⊢
        simpa [hk] using ih
    · have hne : (a != k) = true := by simpa using hak
      simp only [List.filter, hne, List.lookup]
      by_cases hk : k' = k
      · subst hk
        have : (k' == a) = false := by simpa using (fun h => hak (h ▸ rfl) : ¬ k' = a)
        simp [this] at ih ⊢; exact ih
      · by_cases hka : k' = a
        · subst hka; simp [hk]
        · have : (k' == a) = false := by simpa using hka
          simp [this, hk] at ih ⊢; exact ih

theorem KV.get_set (m : KV) (k v k' : Bytes) :
    KV.get (KV.set m k v) k' = if k' = k then some v else KV.get m k' := by
  unfold KV.set
  by_cases hk : k' = k
  · subst hk; simp [KV.get, List.lookup]
  · have : (k' == k) = false := by simpa using hk
    have h := KV.get_filter_ne m k k'
    simp only [KV.get] at h ⊢
    simp [List.lookup, this, hk] at h ⊢
    exact h

theorem KV.get_delete (m : KV) (k k' : Bytes) :
    KV.get (KV.delete m k) k' = if k' = k then none else KV.get m k' :=
  KV.get_filter_ne m k k'

/-! ### prefixes -/

theorem isPrefixOf_append (p k : Bytes) : p.isPrefixOf (p ++ k) = true := by
  rw [List.isPrefixOf_iff_prefix]; exact List.prefix_append p k

theorem eq_append_of_isPrefixOf {p k : Bytes} (h : p.isPrefixOf k = true) :
    k = p ++ k.drop p.length := by
  rw [List.isPrefixOf_iff_prefix, List.prefix_iff_eq_append] at h
  exact h.symm

/-- "subject/" is not a prefix of anything starting with "substitute/" -/
theorem subject_not_prefix_of_substitute (k : Bytes) :
    subjectPrefix.isPrefixOf (substitutePrefix ++ k) = false := by
  simp [subjectPrefix, substitutePrefix, List.isPrefixOf]

/-- "substitute/" is not a prefix of anything starting with "subject/" -/
theorem substitute_not_prefix_of_subject (k : Bytes) :
    substitutePrefix.isPrefixOf (subjectPrefix ++ k) = false := by
  simp [subjectPrefix, substitutePrefix, List.isPrefixOf]

theorem splitPrefix_subject (k : Bytes) : splitPrefix (subjectPrefix ++ k) = (subjectPrefix, k) := by
  simp [splitPrefix, isPrefixOf_append]

theorem splitPrefix_substitute (k : Bytes) :
    splitPrefix (substitutePrefix ++ k) = (substitutePrefix, k) := by
  simp [splitPrefix, isPrefixOf_append, subject_not_prefix_of_substitute]

theorem splitPrefix_none {k : Bytes} (h1 : subjectPrefix.isPrefixOf k = false)
    (h2 : substitutePrefix.isPrefixOf k = false) : splitPrefix k = ([], k) := by
  simp [splitPrefix, h1, h2]

/-- the three possible outcomes of `SplitPrefix` -/
theorem splitPrefix_cases (k : Bytes) :
    (∃ k', k = subjectPrefix ++ k' ∧ splitPrefix k = (subjectPrefix, k')) ∨
    (∃ k', k = substitutePrefix ++ k' ∧ splitPrefix k = (substitutePrefix, k')) ∨
    (subjectPrefix.isPrefixOf k = false ∧ substitutePrefix.isPrefixOf k = false ∧
      splitPrefix k = ([], k)) := by
  cases h1 : subjectPrefix.isPrefixOf k with
  | true =>
    left
    refine ⟨k.drop subjectPrefix.length, eq_append_of_isPrefixOf h1, ?_⟩
    simp [splitPrefix, h1]
  | false =>
    cases h2 : substitutePrefix.isPrefixOf k with
    | true =>
      right; left
      refine ⟨k.drop substitutePrefix.length, eq_append_of_isPrefixOf h2, ?_⟩
      simp [splitPrefix, h1, h2]
    | false =>
      right; right
      exact ⟨rfl, rfl, splitPrefix_none h1 h2⟩

theorem getStore_subject : getStore subjectPrefix = some .subject := by
  simp [getStore]

theorem getStore_substitute : getStore substitutePrefix = some .substitute := by
  simp [getStore, subjectPrefix, substitutePrefix]

theorem getStore_nil : getStore [] = none := by
  simp [getStore, subjectPrefix, substitutePrefix]

theorem subject_ne_substitute : (subjectPrefix != substitutePrefix) = true := by
  simp [subjectPrefix, substitutePrefix]

theorem substitute_ne_subject : (substitutePrefix != subjectPrefix) = true := by
  simp [subjectPrefix, substitutePrefix]

theorem nil_ne_subject : (([] : Bytes) != subjectPrefix) = true := by
  simp [subjectPrefix]

theorem nil_ne_substitute : (([] : Bytes) != substitutePrefix) = true := by
  simp [substitutePrefix]

/-! ### the substitute is never written -/

theorem step_substitute (s : RS) (op : Op) : (step s op).1.substitute = s.substitute := by
  cases op <;> simp only [step] <;> (repeat' split) <;> rfl

theorem run_substitute (s : RS) (ops : List Op) : (run s ops).1.substitute = s.substitute := by
  induction ops generalizing s with
  | nil => rfl
  | cons op ops ih => simp only [run]; rw [ih, step_substitute]

end IbcVerif.WasmStore
