/-
  JSON helpers for the line-protocol driver (core Lean only, so that the driver links as a
  native executable).  Every request is one JSON object per line with a string field "f"
  naming the function/operation; every answer is one JSON object per line.
  Conventions: 64-bit and larger integers travel as decimal strings; byte strings as lower-case
  hex strings; Go strings as JSON strings (generators keep them ASCII).
-/
import Lean.Data.Json
open Lean

namespace IbcVerif.J

def str (j : Json) (k : String) : Except String String := do
  let v ← j.getObjVal? k
  v.getStr?

/-- a natural number given either as a JSON number or as a decimal string -/
def nat (j : Json) (k : String) : Except String Nat := do
  let v ← j.getObjVal? k
  match v with
  | .str s => match s.toNat? with
    | some n => pure n
    | none => throw s!"field {k}: not a decimal: {s}"
  | _ => v.getNat?

def bool (j : Json) (k : String) : Except String Bool := do
  let v ← j.getObjVal? k
  v.getBool?

def arr (j : Json) (k : String) : Except String (Array Json) := do
  let v ← j.getObjVal? k
  v.getArr?

def strs (j : Json) (k : String) : Except String (List String) := do
  let a ← arr j k
  a.toList.mapM Json.getStr?

def natOf (v : Json) : Except String Nat :=
  match v with
  | .str s => match s.toNat? with
    | some n => pure n
    | none => throw s!"not a decimal: {s}"
  | _ => v.getNat?

def nats (j : Json) (k : String) : Except String (List Nat) := do
  let a ← arr j k
  a.toList.mapM natOf

def hexDigit (c : Char) : Option Nat :=
  if '0' ≤ c ∧ c ≤ '9' then some (c.toNat - '0'.toNat)
  else if 'a' ≤ c ∧ c ≤ 'f' then some (c.toNat - 'a'.toNat + 10)
  else if 'A' ≤ c ∧ c ≤ 'F' then some (c.toNat - 'A'.toNat + 10)
  else none

def unhexAux : List Char → List UInt8 → Option (List UInt8)
  | [], acc => some acc.reverse
  | [_], _ => none
  | a :: b :: rest, acc =>
    match hexDigit a, hexDigit b with
    | some x, some y => unhexAux rest (UInt8.ofNat (x * 16 + y) :: acc)
    | _, _ => none

def unhex (s : String) : Option (List UInt8) := unhexAux s.toList []

def hexChar (n : Nat) : Char :=
  if n < 10 then Char.ofNat ('0'.toNat + n) else Char.ofNat ('a'.toNat + n - 10)

def hex (bs : List UInt8) : String :=
  String.ofList (bs.flatMap fun b => [hexChar (b.toNat / 16), hexChar (b.toNat % 16)])

def bytes (j : Json) (k : String) : Except String (List UInt8) := do
  let s ← str j k
  match unhex s with
  | some b => pure b
  | none => throw s!"field {k}: bad hex"

def bytesOf (v : Json) : Except String (List UInt8) := do
  let s ← v.getStr?
  match unhex s with
  | some b => pure b
  | none => throw "bad hex"

def ok (v : Json) : Json := Json.mkObj [("ok", v)]
def okStr (s : String) : Json := ok (Json.str s)
def okNat (n : Nat) : Json := ok (Json.str (toString n))
def okInt (n : Int) : Json := ok (Json.str (toString n))
def okBool (b : Bool) : Json := ok (Json.bool b)
def okHex (b : List UInt8) : Json := ok (Json.str (hex b))
def err (cls : String) : Json := Json.mkObj [("err", Json.str cls)]
def num (n : Nat) : Json := Json.str (toString n)

/-- generic stdin/stdout loop for a (possibly stateful) engine -/
partial def loop {σ : Type} (step : σ → Json → σ × Json) (h : IO.FS.Stream) (out : IO.FS.Stream) (s : σ) : IO Unit := do
  let line ← h.getLine
  if line.isEmpty then return ()
  let l := line.trimAscii.toString
  if l.isEmpty then loop step h out s else
  match Json.parse l with
  | .error e =>
    out.putStrLn (Json.mkObj [("bad", Json.str e)]).compress
    loop step h out s
  | .ok j =>
    let (s', r) := step s j
    out.putStrLn r.compress
    loop step h out s'

def runEngine {σ : Type} (init : σ) (step : σ → Json → σ × Json) : IO Unit := do
  let i ← IO.getStdin
  let o ← IO.getStdout
  loop step i o init
  o.flush

/-- wrap a stateless handler returning `Except` into an answer -/
def pureStep (handle : String → Json → Except String Json) : Unit → Json → Unit × Json :=
  fun _ j =>
    match str j "f" with
    | .error e => ((), Json.mkObj [("bad", Json.str e)])
    | .ok f =>
      match handle f j with
      | .ok r => ((), r)
      | .error e => ((), Json.mkObj [("bad", Json.str e)])

end IbcVerif.J
