/-
  C24, voting-power part — a hand model of CometBFT's light verification (IbcVerif/Model/TmLight.lean)
  over symbolic signatures, and what acceptance by it implies: more than 2/3 of the header's own
  validator set and more than the trust level of the trusted set really signed, within trusting period
  and clock drift.  Property theorems only.  The model is of library code (not ibc-go's) and is tied to
  the real library by the `power` correspondence group; `C24.verifyHeader_accepts_iff` is independent of it.
-/
import IbcVerif.Model.TmLight
import IbcVerif.Lemmas.TmGate
namespace IbcVerif.C24Power
open IbcVerif IbcVerif.Tm IbcVerif.Tm.Light

/-- the scan accepts only if the validly signing power (added to the starting tally) exceeds `needed` -/
theorem scan_sound (needed : Nat) : ∀ (es : List Entry) (t : Nat), scan needed es t = true → needed < t + validPower es
  | [], _, h => by simp [scan] at h
  | .skip :: r, t, h => by
    have := scan_sound needed r t (by simpa [scan] using h)
    simpa [validPower] using this
  | .fail :: r, t, h => by simp [scan] at h
  | .count p ok :: r, t, h => by
    cases ok with
    | false => simp [scan] at h
    | true =>
      simp only [scan, Bool.not_true, Bool.false_eq_true, ↓reduceIte] at h
      by_cases c : t + p > needed
      · simp only [validPower]; omega
      · simp only [c, ↓reduceIte] at h
        have := scan_sound needed r (t + p) h
        simp only [validPower]; omega

/-- **More than 2/3 of the header's own validator set**: `VerifyCommitLight` accepts only if the validators
    whose signatures verify hold strictly more than two thirds of the total power -/
theorem own_set_two_thirds (total : Nat) (es : List Entry) (h : verifyCommitLight total es = true) :
    3 * validPower es > 2 * total := by
  have := scan_sound (total * 2 / 3) es 0 h
  have d := Nat.div_add_mod (total * 2) 3
  have m := Nat.mod_lt (total * 2) (show 3 > 0 by decide)
  omega

/-- **At least the trust level of the trusted set** (in fact strictly more): `VerifyCommitLightTrusting`
    accepts only if `validPower / total > num / den` -/
theorem trusted_set_trust_level (total num den : Nat) (es : List Entry)
    (h : verifyCommitLightTrusting total num den es = true) :
    validPower es * den > total * num := by
  unfold verifyCommitLightTrusting at h
  by_cases hd : den = 0
  · simp [hd] at h
  · simp only [hd, ↓reduceIte] at h
    have := scan_sound (total * num / den) es 0 h
    have hpos : 0 < den := Nat.pos_of_ne_zero hd
    have lt : total * num < (total * num / den + 1) * den := by
      have d := Nat.div_add_mod (total * num) den
      have m := Nat.mod_lt (total * num) hpos
      rw [Nat.add_mul, Nat.one_mul, Nat.mul_comm (total * num / den) den]
      omega
    have le : (total * num / den + 1) * den ≤ validPower es * den := Nat.mul_le_mul_right den (by omega)
    omega

/-- completeness on honest commits: if no entry is malformed, every signature for the block verifies and
    the signing power exceeds `needed`, the scan accepts -/
theorem scan_complete (needed : Nat) : ∀ (es : List Entry) (t : Nat), t ≤ needed →
    (∀ e ∈ es, e ≠ .fail ∧ ∀ p, e ≠ .count p false) → needed < t + validPower es → scan needed es t = true
  | [], t, ht, _, h => by simp [validPower] at h; omega
  | .skip :: r, t, ht, hall, h => by
    simp only [scan]
    exact scan_complete needed r t ht (fun e he => hall e (List.mem_cons_of_mem _ he)) (by simpa [validPower] using h)
  | .fail :: r, t, _, hall, _ => absurd rfl (hall .fail List.mem_cons_self).1
  | .count p ok :: r, t, ht, hall, h => by
    cases ok with
    | false => exact absurd rfl ((hall (.count p false) List.mem_cons_self).2 p)
    | true =>
      simp only [scan, Bool.not_true, Bool.false_eq_true, ↓reduceIte]
      by_cases c : t + p > needed
      · simp [c]
      · simp only [c, ↓reduceIte]
        exact scan_complete needed r (t + p) (by omega) (fun e he => hall e (List.mem_cons_of_mem _ he))
          (by simp only [validPower] at h; omega)

/-- if no signature for the block verifies — e.g. because a signed field, the chain id or the validator
    key was altered, so the sign bytes differ from what was signed — nothing is accepted -/
theorem forged_rejected (needed : Nat) : ∀ (es : List Entry) (t : Nat),
    (∀ e ∈ es, ∀ p, e ≠ .count p true) → scan needed es t = false
  | [], _, _ => rfl
  | .skip :: r, t, h => by simp only [scan]; exact forged_rejected needed r t (fun e he => h e (List.mem_cons_of_mem _ he))
  | .fail :: r, t, _ => rfl
  | .count p ok :: r, t, h => by
    cases ok with
    | false => simp [scan]
    | true => exact absurd rfl (h (.count p true) List.mem_cons_self p)

/-- symbolic layer: in the own-set resolution a signature counts as valid only if it was produced by that
    validator's key over exactly the sign bytes the verifier computes -/
theorem ownEntry_valid_iff (v : Val) (m : Nat) (c : CSig) (p : Nat) :
    ownEntry v m c = .count p true ↔ ∃ msg, c = .commit v.addr v.addr msg ∧ msg = m ∧ p = v.power := by
  cases c with
  | absent => simp [ownEntry]
  | nilVote a => simp [ownEntry]
  | commit a s msg =>
    unfold ownEntry
    by_cases ha : a = v.addr
    · subst ha
      simp only [ne_eq, not_true_eq_false, ↓reduceIte, Entry.count.injEq, decide_eq_true_eq, CSig.commit.injEq, true_and]
      constructor
      · rintro ⟨hp, hs, hm⟩; exact ⟨msg, ⟨hs, rfl⟩, hm, hp.symm⟩
      · rintro ⟨msg', ⟨hs, hm'⟩, hm, hp⟩; exact ⟨hp.symm, hs, by rw [hm']; exact hm⟩
    · constructor
      · intro h; simp [ha] at h
      · rintro ⟨msg', hc, _, _⟩
        have := (CSig.commit.inj hc).1
        exact absurd this ha

/-- mutating any signed field changes the sign bytes of every index: if each commit signature was made
    over bytes different from the ones now computed, the own-set verification fails -/
theorem signed_field_mutation_rejected (total : Nat) : ∀ (vals : List Val) (ms : List Nat) (cs : List CSig),
    (∀ (i a s msg : Nat), cs[i]? = some (CSig.commit a s msg) → ms[i]? ≠ some msg) →
    verifyCommitLight total (ownEntries vals ms cs) = false := by
  intro vals ms cs h
  unfold verifyCommitLight
  apply forged_rejected
  intro e he p heq
  subst heq
  -- find the index of the entry
  have key : ∀ (vals : List Val) (ms : List Nat) (cs : List CSig),
      (∀ (i a s msg : Nat), cs[i]? = some (CSig.commit a s msg) → ms[i]? ≠ some msg) →
      Entry.count p true ∉ ownEntries vals ms cs := by
    intro vals
    induction vals with
    | nil => intro ms cs _ hm; simp [ownEntries] at hm
    | cons v vs ih =>
      intro ms cs hh hm
      cases ms with
      | nil => simp [ownEntries] at hm
      | cons m ms' =>
        cases cs with
        | nil => simp [ownEntries] at hm
        | cons c cs' =>
          simp only [ownEntries, List.mem_cons] at hm
          rcases hm with e | hm
          · obtain ⟨msg, hc, hm', _⟩ := (ownEntry_valid_iff v m c p).mp e.symm
            have := hh 0 v.addr v.addr msg (by simp [hc])
            simp [hm'] at this
          · exact ih ms' cs' (fun i a s msg hi => by
              have := hh (i + 1) a s msg (by simpa using hi)
              simpa using this) hm
  exact key vals ms cs h he

/-- **`light.Verify` accepts only if** the trusted state is within the trusting period, the new header
    is later than the trusted one and not beyond the clock drift, it is above the trusted height, it is
    well formed for the trusted chain id, more than 2/3 of its own validator set signed, and — adjacent:
    its validator set is the trusted next set; non-adjacent: more than the trust level of the trusted
    set signed. -/
theorem lightVerify_sound (i : LvIn) (h : lightVerify i = true) :
    i.now < i.trustedTs + i.tp ∧ i.trustedTs < i.untrustedTs ∧ i.untrustedTs < i.now + i.drift ∧
    i.trustedH < i.untrustedH ∧ i.basicOK = true ∧ i.valsHashOK = true ∧
    3 * validPower i.own > 2 * i.ownTotal ∧
    (if i.untrustedH = i.trustedH + 1 then i.nextValsMatch = true
     else validPower i.trust * i.tlDen > i.trustTotal * i.tlNum) := by
  unfold lightVerify at h
  have common : headerExpired i = false → verifyNewHeaderAndVals i = true →
      i.now < i.trustedTs + i.tp ∧ i.trustedTs < i.untrustedTs ∧ i.untrustedTs < i.now + i.drift ∧
      i.trustedH < i.untrustedH ∧ i.basicOK = true ∧ i.valsHashOK = true := by
    intro h1 h2
    unfold headerExpired at h1
    unfold verifyNewHeaderAndVals at h2
    simp only [gt_iff_lt, Bool.not_eq_eq_eq_not, Bool.not_false, decide_eq_true_eq] at h1
    simp only [gt_iff_lt, Bool.and_eq_true, decide_eq_true_eq] at h2
    obtain ⟨⟨⟨⟨a, b⟩, c⟩, d⟩, e⟩ := h2
    exact ⟨h1, c, d, b, a, e⟩
  by_cases adj : i.untrustedH = i.trustedH + 1
  · simp only [adj, ne_eq, not_true_eq_false, ↓reduceIte] at h ⊢
    by_cases e1 : headerExpired i = true
    · simp [e1] at h
    · by_cases e2 : verifyNewHeaderAndVals i = true
      · by_cases e3 : i.nextValsMatch = true
        · simp only [e1, Bool.false_eq_true, ↓reduceIte, e2, Bool.not_true, e3] at h
          have c := common (by simpa using e1) e2
          rw [adj] at c
          exact ⟨c.1, c.2.1, c.2.2.1, c.2.2.2.1, c.2.2.2.2.1, c.2.2.2.2.2, own_set_two_thirds _ _ h, e3⟩
        · simp [e1, e2, e3] at h
      · simp [e1, e2] at h
  · simp only [ne_eq, adj, not_false_eq_true, ↓reduceIte] at h ⊢
    by_cases e1 : headerExpired i = true
    · simp [e1] at h
    · by_cases e2 : verifyNewHeaderAndVals i = true
      · by_cases e3 : verifyCommitLightTrusting i.trustTotal i.tlNum i.tlDen i.trust = true
        · simp only [e1, Bool.false_eq_true, ↓reduceIte, e2, Bool.not_true, e3] at h
          have c := common (by simpa using e1) e2
          exact ⟨c.1, c.2.1, c.2.2.1, c.2.2.2.1, c.2.2.2.2.1, c.2.2.2.2.2, own_set_two_thirds _ _ h,
            trusted_set_trust_level _ _ _ _ e3⟩
        · simp [e1, e2, e3] at h
      · simp [e1, e2] at h

/-- composition with ibc-go's own checks (C24.verifyHeader_accepts_iff): a header accepted by
    `verifyHeader`, when the library verdict is the modelled `light.Verify`, satisfies all conditions of
    the property at once -/
theorem header_accepted_fully (s : Store) (hdr : Header) (i : LvIn) (h : verifyHeader s hdr (lightVerify i) = none) :
    (∃ c, s.getCons hdr.trusted = some c ∧ hdr.tvals = some c.nvh) ∧ hdr.height.rev = hdr.trusted.rev ∧
    hk hdr.trusted < hk hdr.height ∧
    i.now < i.trustedTs + i.tp ∧ i.untrustedTs < i.now + i.drift ∧ i.trustedTs < i.untrustedTs ∧
    3 * validPower i.own > 2 * i.ownTotal ∧
    (i.untrustedH ≠ i.trustedH + 1 → validPower i.trust * i.tlDen > i.trustTotal * i.tlNum) := by
  obtain ⟨c, h1, h2, h3, _, h5, h6⟩ := (verifyHeader_none_iff s hdr (lightVerify i)).mp h
  have lv := lightVerify_sound i h6
  refine ⟨⟨c, h1, h2⟩, h3, h5, lv.1, lv.2.2.1, lv.2.1, lv.2.2.2.2.2.2.1, ?_⟩
  intro na
  have := lv.2.2.2.2.2.2.2
  simpa [na] using this

/-! ### non-vacuity: powers 5,4,3,2,1 (total 15, needed 10): {5,4} = 9 is not enough, {5,4,3} = 12 is;
     a corrupted signature before the threshold rejects, after it is never looked at -/

example : verifyCommitLight 15 [.count 5 true, .count 4 true, .skip, .skip, .skip] = false ∧
    verifyCommitLight 15 [.count 5 true, .count 4 true, .count 3 true, .skip, .skip] = true ∧
    verifyCommitLight 15 [.count 5 true, .count 4 false, .count 3 true, .count 2 true, .count 1 true] = false ∧
    verifyCommitLight 15 [.count 5 true, .count 4 true, .count 3 true, .count 2 false, .count 1 true] = true ∧
    verifyCommitLightTrusting 15 1 3 [.count 5 true, .skip] = false ∧
    verifyCommitLightTrusting 15 1 3 [.skip, .count 4 true, .count 2 true] = true := by decide

end IbcVerif.C24Power
