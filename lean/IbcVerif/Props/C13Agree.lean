/-
  C13 — Connection handshake safety, two-chain agreement half (see Props/C12Agree.lean for the world:
  two L3 chains, handshake proof verdicts derived from the counterparty's current store).
-/
import IbcVerif.Lemmas.ChainPair
namespace IbcVerif.C13A
open IbcVerif IbcVerif.Chain

/-- If, after any interleaving of ops on the two chains, a connection end on A and one on B are both
    OPEN and one names the other as its counterparty connection, then each names the other
    (connection ids and client ids crosswise), they have the same delay period, and both carry the
    same single version. -/
theorem both_open_conn_agree (ops : List (Bool × Op)) (ca cb : Id) (ea eb : ConnEnd)
    (ha : (prun World.init ops).a.conn.get ca = some ea)
    (hb : (prun World.init ops).b.conn.get cb = some eb)
    (hoa : ea.state = .opened) (hob : eb.state = .opened)
    (hname : ea.cpConn = cb ∨ eb.cpConn = ca) :
    ea.cpConn = cb ∧ eb.cpConn = ca ∧ ea.cpClient = eb.client ∧ eb.cpClient = ea.client ∧
    ea.delay = eb.delay ∧ ∃ v, ea.versions = [v] ∧ eb.versions = [v] := by
  have hp := pinv_prun_init ops
  rcases hname with h1 | h1
  · obtain ⟨f, v, hf, _, g1, g2, g3, g4, g5, g6⟩ := hp.ab.conn ca ea ha hoa
    rw [h1, hb] at hf; cases hf
    exact ⟨h1, g3, g1.symm, g2, g4.symm, v, g6, g5.trans g6⟩
  · obtain ⟨f, v, hf, _, g1, g2, g3, g4, g5, g6⟩ := hp.ba.conn cb eb hb hob
    rw [h1, ha] at hf; cases hf
    exact ⟨g3, h1, g2, g1.symm, g4, v, g5.trans g6, g6⟩

/-- A connection end becomes OPEN only by its own ConnOpenAck / ConnOpenConfirm, and at that moment
    the counterparty chain holds, under the counterparty connection id the end now records, an end in
    state TRYOPEN (ACK) resp. OPEN (CONFIRM) with crosswise-equal client ids, naming this end as its
    counterparty connection, same delay period, same version list, and both prefixes are the real
    store prefix.  Holds from every world state. -/
theorem conn_open_requires_counterparty_state (w : World) (side : Bool) (op : Op) (c : Id) (e' : ConnEnd)
    (he' : (chainOf (pstep w side op) side).conn.get c = some e') (ho' : e'.state = .opened)
    (hnew : ∀ e, (chainOf w side).conn.get c = some e → e.state ≠ .opened) :
    ConnOpenWitness (chainOf w (!side)) op.body c e' := by
  cases side with
  | false =>
    simp only [chainOf, Chain.pstep, Bool.false_eq_true, if_false, Bool.not_false, if_true] at *
    exact conn_open_step (out := (sideStep w.a w.b op).2) rfl he' ho' hnew
  | true =>
    simp only [chainOf, Chain.pstep, if_true, Bool.not_true, Bool.false_eq_true, if_false] at *
    exact conn_open_step (out := (sideStep w.b w.a op).2) rfl he' ho' hnew

/-- non-vacuity: in the genesis world the two localhost connection ends are OPEN and name each other -/
example : ∃ ea eb, World.init.a.conn.get "connection-localhost" = some ea ∧
    World.init.b.conn.get "connection-localhost" = some eb ∧ ea.state = .opened ∧ eb.state = .opened ∧
    ea.cpConn = "connection-localhost" := ⟨_, _, rfl, rfl, rfl, rfl, rfl⟩

end IbcVerif.C13A
