/-
  C46 — Privileged and client-scoped operations require the right signer (core handlers).

  Decision logic of modules/core/keeper/msg_server.go (RecoverClient, IBCSoftwareUpgrade,
  UpdateClientParams, UpdateConnectionParams, RegisterCounterparty, UpdateClientConfig,
  DeleteClientCreator, UpdateClient) and of the v2 packet handlers' relayer allow-list, plus the
  allowed-clients gate of 02-client `Route`.  `authority` is the configured authority; `env.signer`
  the message signer; `env.vb` the verdict of the message's stateless validation.
  (wasm Store/Remove/Migrate and rate-limit administration belong to other clusters.)
-/
import IbcVerif.Lemmas.ChainRecv
namespace IbcVerif.C46
open IbcVerif IbcVerif.Chain

/-! ### authority-only handlers -/

theorem recoverClient_needs_authority (s s' : ChainState) (env : Env) (a b : Id) (r : String)
    (h : step s ⟨env, .recoverClient a b⟩ = (s', .ok r)) : env.signer = authority := by
  have hv := step_vb h rfl
  unfold step at h
  simp only [hv] at h
  simp only [Bool.false_eq_true, if_false] at h
  unfold msgRecoverClient at h
  oksplit h
  simp_all

theorem ibcSoftwareUpgrade_needs_authority (s s' : ChainState) (env : Env) (u : Bool) (r : String)
    (h : step s ⟨env, .ibcSoftwareUpgrade u⟩ = (s', .ok r)) : env.signer = authority := by
  have hv := step_vb h rfl
  unfold step at h
  simp only [hv] at h
  simp only [Bool.false_eq_true, if_false] at h
  unfold msgIBCSoftwareUpgrade at h
  oksplit h
  simp_all

/-- UpdateClientParams succeeds exactly for the authority (given a well-formed message) and then
    replaces the allowed-clients list. -/
theorem updateClientParams_accept_iff (s : ChainState) (env : Env) (allowed : List String) :
    (step s ⟨env, .updateClientParams allowed⟩).2.isOk = true ↔ env.vb = true ∧ env.signer = authority := by
  unfold step
  simp only [Body.isMsg, Bool.true_and]
  unfold msgUpdateClientParams
  by_cases hv : env.vb = true <;> by_cases ha : env.signer = authority <;> simp [hv, ha, Out.isOk]

theorem updateConnParams_accept_iff (s : ChainState) (env : Env) (m : Nat) :
    (step s ⟨env, .updateConnParams m⟩).2.isOk = true ↔ env.vb = true ∧ env.signer = authority := by
  unfold step
  simp only [Body.isMsg, Bool.true_and]
  unfold msgUpdateConnParams
  by_cases hv : env.vb = true <;> by_cases ha : env.signer = authority <;> simp [hv, ha, Out.isOk]

/-! ### creator-scoped handlers -/

/-- RegisterCounterparty succeeds only for the client's creator and only once; it sets the
    counterparty and initialises the send counter to 1. -/
theorem registerCounterparty_accept_iff (s : ChainState) (env : Env) (cid cp : Id) (pfx : List Hex) :
    (step s ⟨env, .registerCounterparty cid cp pfx⟩).2.isOk = true ↔
      env.vb = true ∧ s.creator.get cid = some env.signer ∧ s.cpV2.get cid = none := by
  unfold step
  simp only [Body.isMsg, Bool.true_and]
  unfold msgRegisterCounterparty
  by_cases hv : env.vb = true
  · by_cases hc : s.creator.get cid = some env.signer
    · by_cases hp : s.cpV2.get cid = none
      · have : s.cpV2.has cid = false := (FMap.has_false_iff _ _).mpr hp
        simp [hv, hc, this, hp, Out.isOk]
      · have : s.cpV2.has cid = true := (FMap.has_iff _ _).mpr hp
        simp [hv, hc, this, hp, Out.isOk]
    · simp [hv, hc, Out.isOk]
  · simp [hv, Out.isOk]

theorem registerCounterparty_effect (s s' : ChainState) (env : Env) (cid cp : Id) (pfx : List Hex) (r : String)
    (h : step s ⟨env, .registerCounterparty cid cp pfx⟩ = (s', .ok r)) :
    s' = { s with cpV2 := s.cpV2.set cid (cp, pfx), nextSend := s.nextSend.set cid 1 } := by
  have hv := step_vb h rfl
  unfold step at h
  simp only [hv] at h
  simp only [Bool.false_eq_true, if_false] at h
  unfold msgRegisterCounterparty at h
  oksplit h
  rfl

/-- UpdateClientConfig: authority or creator. -/
theorem updateClientConfig_accept_iff (s : ChainState) (env : Env) (cid : Id) (rel : List String) :
    (step s ⟨env, .updateClientConfig cid rel⟩).2.isOk = true ↔
      env.vb = true ∧ (env.signer = authority ∨ s.creator.get cid = some env.signer) := by
  unfold step
  simp only [Body.isMsg, Bool.true_and]
  unfold msgUpdateClientConfig
  by_cases hv : env.vb = true <;> by_cases ha : env.signer = authority <;>
    by_cases hc : s.creator.get cid = some env.signer <;> simp [hv, ha, hc, Out.isOk]

/-- DeleteClientCreator: a creator must exist, and the signer is the authority or that creator. -/
theorem deleteClientCreator_accept_iff (s : ChainState) (env : Env) (cid : Id) :
    (step s ⟨env, .deleteClientCreator cid⟩).2.isOk = true ↔
      env.vb = true ∧ ∃ c, s.creator.get cid = some c ∧ (env.signer = authority ∨ c = env.signer) := by
  unfold step
  simp only [Body.isMsg, Bool.true_and]
  unfold msgDeleteClientCreator
  by_cases hv : env.vb = true
  · cases hc : s.creator.get cid with
    | none => simp [hv, Out.isOk]
    | some c =>
      by_cases ha : env.signer = authority <;> by_cases he : c = env.signer <;> simp [hv, ha, he, Out.isOk]
  · simp [hv, Out.isOk]

/-! ### relayer allow-list (v2 packet messages and client updates) -/

/-- `Config.IsAllowedRelayer`: an empty (or unset) list is permissionless, otherwise membership. -/
theorem isAllowedRelayer_iff (s : ChainState) (id : Id) (signer : String) :
    isAllowedRelayer s id signer = true ↔
      (s.cfgV2.get id = none ∨ s.cfgV2.get id = some []) ∨ ∃ l, s.cfgV2.get id = some l ∧ signer ∈ l := by
  unfold isAllowedRelayer
  cases h : s.cfgV2.get id with
  | none => simp
  | some l =>
    cases l with
    | nil => simp
    | cons a l => simp

/-- a v2 receive is gated by the allow-list of the packet's DESTINATION id. -/
theorem recvV2_needs_listed_relayer (s : ChainState) (env : Env) (p : PacketV2) (apps : List AppV2)
    (h : isAllowedRelayer s p.dst env.signer = false) :
    (step s ⟨env, .recvV2 p apps⟩).2 = .err eUnauthorized ∨ (step s ⟨env, .recvV2 p apps⟩).2 = .err eVB := by
  unfold step
  simp only [Body.isMsg, Bool.true_and]
  by_cases hv : env.vb = true
  · left; simp [hv, msgRecvPacketV2, h]
  · right; simp [hv]

/-- acknowledgement and timeout are gated by the allow-list of the packet's SOURCE id. -/
theorem ackV2_needs_listed_relayer (s : ChainState) (env : Env) (p : PacketV2) (acks : List Hex) (apps : List AppV2)
    (h : isAllowedRelayer s p.src env.signer = false) :
    (step s ⟨env, .ackV2 p acks apps⟩).2 = .err eUnauthorized ∨ (step s ⟨env, .ackV2 p acks apps⟩).2 = .err eVB := by
  unfold step
  simp only [Body.isMsg, Bool.true_and]
  by_cases hv : env.vb = true
  · left; simp [hv, msgAcknowledgementV2, h]
  · right; simp [hv]

theorem timeoutV2_needs_listed_relayer (s : ChainState) (env : Env) (p : PacketV2) (apps : List AppV2)
    (h : isAllowedRelayer s p.src env.signer = false) :
    (step s ⟨env, .timeoutV2 p apps⟩).2 = .err eUnauthorized ∨ (step s ⟨env, .timeoutV2 p apps⟩).2 = .err eVB := by
  unfold step
  simp only [Body.isMsg, Bool.true_and]
  by_cases hv : env.vb = true
  · left; simp [hv, msgTimeoutV2, h]
  · right; simp [hv]

theorem updateClient_needs_listed_relayer (s : ChainState) (env : Env) (cid : Id)
    (h : isAllowedRelayer s cid env.signer = false) :
    (step s ⟨env, .updateClient cid⟩).2 = .err eUnauthorized ∨ (step s ⟨env, .updateClient cid⟩).2 = .err eVB := by
  unfold step
  simp only [Body.isMsg, Bool.true_and]
  by_cases hv : env.vb = true
  · left; simp [hv, msgUpdateClient, h]
  · right; simp [hv]

/-! ### allowed clients -/

/-- a client whose type is not on the allowed-clients list (and the list is not the wildcard) cannot
    be routed: its status is Unauthorized, every verification fails, it cannot be updated. -/
theorem route_needs_allowed (s : ChainState) (cid : Id) (t : String) (n : Nat)
    (hp : parseClientId cid = .ok (t, n)) (hna : isAllowedClient s.allowedClients t = false) :
    route s cid = .error eClientType := by
  unfold route
  simp [hp, hna]

theorem unrouted_client_is_unusable (s : ChainState) (env : Env) (cid : Id) (e : String) (h : route s cid = .error e) :
    clientStatus s env cid = .unauthorized ∧ (∀ v, verify s env cid v = .error e) ∧
    clientTimestampAt s env cid = .error e ∧ clientLatestHeight s env cid = Height.zero := by
  unfold clientStatus verify clientTimestampAt clientLatestHeight
  simp [h]

/-- creating a client of a type that is not allowed fails. -/
theorem createClient_needs_allowed (s s' : ChainState) (env : Env) (ctype : String) (r : String)
    (h : step s ⟨env, .createClient ctype⟩ = (s', .ok r)) :
    ∃ t n, parseClientId (fmtClient ctype s.nextClientSeq) = .ok (t, n) ∧ isAllowedClient s.allowedClients t = true ∧
      registeredClientTypes.contains t = true := by
  have hv := step_vb h rfl
  unfold step at h
  simp only [hv] at h
  simp only [Bool.false_eq_true, if_false] at h
  unfold msgCreateClient at h
  oksplit h
  have hr := ‹route _ (fmtClient ctype s.nextClientSeq) = Except.ok _›
  unfold route at hr
  split at hr
  · cases hr
  · rename_i t n hp
    split at hr
    · cases hr
    · split at hr
      · cases hr
      · exact ⟨t, n, hp, by simp_all, by simp_all⟩

example : isAllowedRelayer Chain.init "99-verif-0" "bob" = true := by decide

end IbcVerif.C46
