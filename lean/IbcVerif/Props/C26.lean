/-
  C26 — Solo machine signatures are single-use and timestamps never decrease.
  Property theorems only; helper lemmas live in IbcVerif/Lemmas/Solo.lean.

  Signatures are symbolic (`Sig.signed key bytes`); the sign bytes are the byte-exact protobuf encoding
  of `SignBytes` (`encSignBytes`), proved injective in the sequence number.  `pathDecodes` (gogoproto
  unmarshalling of a MerklePath) is an arbitrary parameter.
-/
import IbcVerif.Model.Solo
import IbcVerif.Lemmas.Solo
namespace IbcVerif.C26
open IbcVerif.Solo

/-- **A proof verifies ⇔** it carries a signature by the current key over the `SignBytes` made of exactly
the current sequence, the proof's timestamp (not older than the consensus timestamp), the current
diversifier, the key at path index 1 and the data; the new state has the sequence consumed and the
timestamp advanced. (`data = value` for membership, `[]` for non-membership.) -/
theorem verifyProof_ok_iff (s s' : State) (proof : ProofArg) (path : PathArg) (data : Bytes) :
    verifyProof s proof path data = .ok s' ↔
      ∃ ts σ pfx key, proof = .mk ts (.sig σ) ∧ s.ts ≤ ts ∧ path = .merkle [pfx, key] ∧
        σ = .signed s.key (encSignBytes ⟨s.seq, ts, s.div, key, data⟩) ∧
        s' = { s with seq := s.seq + 1, ts := ts } := by
  constructor
  · intro h
    unfold verifyProof produceVerificationArgs at h
    cases proof with
    | nil => simp at h
    | garbage => simp at h
    | mk ts sd =>
      cases sd with
      | empty => simp at h
      | garbage => simp at h
      | nosum => simp at h
      | sig σ =>
        by_cases hts : s.ts > ts
        · simp [hts] at h
        · simp only [hts, if_false] at h
          cases path with
          | other => simp at h
          | merkle kp =>
            match kp, h with
            | [], h => simp at h
            | [_], h => simp at h
            | _ :: _ :: _ :: _, h => simp at h
            | [pfx, key], h =>
              simp only [List.length_cons, List.length_nil, bne_self_eq_false, Bool.false_eq_true,
                if_false, List.getD_cons_succ, List.getD_cons_zero] at h
              by_cases hv : verifySig s.key (encSignBytes ⟨s.seq, ts, s.div, key, data⟩) σ = true
              · simp only [hv, Bool.not_true, Bool.false_eq_true, if_false, Except.ok.injEq] at h
                refine ⟨ts, σ, pfx, key, rfl, by omega, rfl, ?_, h.symm⟩
                simpa [verifySig] using hv
              · simp [hv] at h
  · rintro ⟨ts, σ, pfx, key, rfl, hts, rfl, rfl, rfl⟩
    have : ¬ s.ts > ts := by omega
    simp [verifyProof, produceVerificationArgs, this, verifySig]

/-- the verification operations: header update, membership and non-membership proofs -/
def isVerification : Op → Bool
  | .vm _ _ _ | .vnm _ _ | .kvm _ _ _ | .kvnm _ _ => true
  | .update _ (.header _) => true
  | _ => false

/-- the signature carried by a proof argument -/
def proofSig : ProofArg → Option Sig
  | .mk _ (.sig σ) => some σ
  | _ => none

/-- the signature an operation presents for verification -/
def sigOf : Op → Option Sig
  | .vm p _ _ | .vnm p _ | .kvm p _ _ | .kvnm p _ => proofSig p
  | .update _ (.header h) => match h.sig with | .sig σ => some σ | _ => none
  | _ => none

/-- A header is accepted ⇔ its timestamp is not older than the consensus timestamp and it is signed by the
current key over (current sequence, header timestamp, current diversifier, sentinel path, header data). -/
theorem verifyHeader_ok_iff (s : State) (h : Header) :
    verifyHeader s h = .ok () ↔
      s.ts ≤ h.ts ∧
      h.sig = .sig (.signed s.key (encSignBytes ⟨s.seq, h.ts, s.div, sentinelHeaderPath, h.hdata⟩)) := by
  unfold verifyHeader
  by_cases hts : h.ts < s.ts
  · simp [hts]; omega
  · simp only [hts, if_false]
    cases hs : h.sig with
    | empty => simp
    | garbage => simp
    | nosum => simp
    | sig σ =>
      by_cases hv : verifySig s.key (encSignBytes ⟨s.seq, h.ts, s.div, sentinelHeaderPath, h.hdata⟩) σ = true
      · have : σ = .signed s.key (encSignBytes ⟨s.seq, h.ts, s.div, sentinelHeaderPath, h.hdata⟩) := by
          simpa [verifySig] using hv
        simp only [hv, Bool.not_true, Bool.false_eq_true, if_false, true_iff]
        exact ⟨Nat.le_of_not_lt hts, by rw [this]⟩
      · have : σ ≠ .signed s.key (encSignBytes ⟨s.seq, h.ts, s.div, sentinelHeaderPath, h.hdata⟩) := by
          simpa [verifySig] using hv
        simp [hv, this]

/-- what a successful verification proves about its signature: it is by the current key, over the
encoding of a `SignBytes` whose sequence is the current one, whose diversifier is the current one and
whose timestamp is not older than the consensus timestamp; the sequence is consumed and the consensus
timestamp becomes the signed one -/
theorem accepted_sig (pd : Bytes → Bool) (s : State) (op : Op) (hv : isVerification op = true)
    (hok : (step pd s op).2 = .ok) :
    ∃ σ sb, sigOf op = some σ ∧ σ = .signed s.key (encSignBytes sb) ∧ sb.seq = s.seq ∧
      sb.div = s.div ∧ s.ts ≤ sb.ts ∧
      (step pd s op).1.seq = s.seq + 1 ∧ (step pd s op).1.ts = sb.ts := by
  have hproof : ∀ (p : ProofArg) (path : PathArg) (data : Bytes),
      (verifyRes s (verifyProof s p path data)).2 = .ok →
      ∃ σ sb, proofSig p = some σ ∧
        σ = .signed s.key (encSignBytes sb) ∧ sb.seq = s.seq ∧ sb.div = s.div ∧ s.ts ≤ sb.ts ∧
        (verifyRes s (verifyProof s p path data)).1.seq = s.seq + 1 ∧
        (verifyRes s (verifyProof s p path data)).1.ts = sb.ts := by
    intro p path data h
    cases hr : verifyProof s p path data with
    | error e => simp [hr, verifyRes] at h
    | ok s' =>
      obtain ⟨ts, σ, pfx, key, rfl, hts, rfl, rfl, rfl⟩ := (verifyProof_ok_iff s s' _ _ data).mp hr
      exact ⟨_, ⟨s.seq, ts, s.div, key, data⟩, rfl, rfl, rfl, rfl, hts, by simp [verifyRes],
        by simp [verifyRes]⟩
  cases op with
  | vm p path v => exact hproof p path v (by simpa [step] using hok)
  | vnm p path => exact hproof p path [] (by simpa [step] using hok)
  | kvm p path v =>
    cases hf : s.frozen with
    | true => simp [step, hf] at hok
    | false =>
      simp only [step, hf, Bool.false_eq_true, if_false] at hok ⊢
      exact hproof p path v hok
  | kvnm p path =>
    cases hf : s.frozen with
    | true => simp [step, hf] at hok
    | false =>
      simp only [step, hf, Bool.false_eq_true, if_false] at hok ⊢
      exact hproof p path [] hok
  | update validate msg =>
    cases msg with
    | misbehaviour w => simp [isVerification] at hv
    | other => simp [isVerification] at hv
    | header h =>
      have hval : validateMsg validate (.header h) = .ok () := by cases validate <;> rfl
      simp only [step, hval] at hok ⊢
      cases hf : s.frozen with
      | true => simp [updateClient, hf] at hok
      | false =>
        cases hx : verifyHeader s h with
        | error e => simp [updateClient, hf, hx] at hok
        | ok u =>
          obtain ⟨hts, hs⟩ := (verifyHeader_ok_iff s h).mp hx
          refine ⟨_, ⟨s.seq, h.ts, s.div, sentinelHeaderPath, h.hdata⟩, by simp [sigOf, hs], rfl, rfl, rfl,
            hts, by simp [updateClient, hf, hx], by simp [updateClient, hf, hx]⟩

/-- **Every successful verification (header, membership, non-membership) consumes the sequence.** -/
theorem success_consumes_sequence (pd : Bytes → Bool) (s : State) (op : Op)
    (hv : isVerification op = true) (hok : (step pd s op).2 = .ok) :
    (step pd s op).1.seq = s.seq + 1 := by
  obtain ⟨_, _, _, _, _, _, _, h, _⟩ := accepted_sig pd s op hv hok
  exact h

/-- failures change nothing -/
theorem failure_changes_nothing (pd : Bytes → Bool) (s : State) (op : Op) (e : Err)
    (h : (step pd s op).2 = .err e) : (step pd s op).1 = s := by
  have hproof : ∀ p path data, (verifyRes s (verifyProof s p path data)).2 = .err e →
      (verifyRes s (verifyProof s p path data)).1 = s := by
    intro p path data h
    cases hx : verifyProof s p path data <;> simp [hx, verifyRes] at h ⊢
  cases op with
  | vm p path v => exact hproof p path v (by simpa [step] using h)
  | vnm p path => exact hproof p path [] (by simpa [step] using h)
  | kvm p path v =>
    cases hf : s.frozen with
    | true => simp [step, hf]
    | false =>
      simp only [step, hf, Bool.false_eq_true, if_false] at h ⊢
      exact hproof p path v h
  | kvnm p path =>
    cases hf : s.frozen with
    | true => simp [step, hf]
    | false =>
      simp only [step, hf, Bool.false_eq_true, if_false] at h ⊢
      exact hproof p path [] h
  | update validate msg =>
    simp only [step] at h ⊢
    cases hb : validateMsg validate msg with
    | error e' => simp
    | ok u =>
      simp only [hb] at h ⊢
      unfold updateClient at h ⊢
      cases hf : s.frozen with
      | true => simp
      | false =>
        simp only [hf, Bool.false_eq_true, if_false] at h ⊢
        cases msg with
        | other => simp
        | header hd => cases hx : verifyHeader s hd <;> simp [hx] at h ⊢
        | misbehaviour w => cases hx : verifyMisbehaviour pd s w.m <;> simp [hx] at h ⊢

/-- one step never lowers the sequence or the consensus timestamp -/
theorem step_monotone (pd : Bytes → Bool) (s : State) (op : Op) :
    s.seq ≤ (step pd s op).1.seq ∧ s.ts ≤ (step pd s op).1.ts := by
  cases hr : (step pd s op).2 with
  | err e => rw [failure_changes_nothing pd s op e hr]; exact ⟨Nat.le_refl _, Nat.le_refl _⟩
  | ok =>
    by_cases hv : isVerification op = true
    · obtain ⟨_, sb, _, _, _, _, h1, h2, h3⟩ := accepted_sig pd s op hv hr
      exact ⟨by omega, by omega⟩
    · cases op with
      | vm _ _ _ | vnm _ _ | kvm _ _ _ | kvnm _ _ => simp [isVerification] at hv
      | update validate msg =>
        cases msg with
        | header h => simp [isVerification] at hv
        | other =>
          simp only [step]
          cases hb : validateMsg validate .other <;> simp [updateClient] <;> cases s.frozen <;> simp
        | misbehaviour w =>
          simp only [step]
          cases hb : validateMsg validate (.misbehaviour w) with
          | error e => simp
          | ok u =>
            simp only [updateClient]
            cases hf : s.frozen with
            | true => simp
            | false => cases hx : verifyMisbehaviour pd s w.m <;> simp

/-- **Over all histories the sequence never decreases and the consensus timestamp never decreases.** -/
theorem seq_and_timestamp_monotone (pd : Bytes → Bool) (s : State) (ops : List Op) :
    s.seq ≤ (run pd s ops).1.seq ∧ s.ts ≤ (run pd s ops).1.ts := by
  induction ops generalizing s with
  | nil => exact ⟨Nat.le_refl _, Nat.le_refl _⟩
  | cons op ops ih =>
    have h1 := step_monotone pd s op
    have h2 := ih (step pd s op).1
    simp only [run]
    exact ⟨Nat.le_trans h1.1 h2.1, Nat.le_trans h1.2 h2.2⟩

/-- **A signature is accepted at most once**: after it has been accepted by a verification (header,
membership or non-membership), no verification presenting the same signature succeeds in any later
state — whatever happens in between (further proofs, key rotations, replays). -/
theorem sig_single_use (pd : Bytes → Bool) (s : State) (op op' : Op) (between : List Op) (σ : Sig)
    (hv : isVerification op = true) (hok : (step pd s op).2 = .ok) (hσ : sigOf op = some σ)
    (hv' : isVerification op' = true) (hσ' : sigOf op' = some σ) :
    (step pd (run pd (step pd s op).1 between).1 op').2 ≠ .ok := by
  intro hok'
  obtain ⟨σ1, sb1, hs1, he1, hq1, _, _, hn1, _⟩ := accepted_sig pd s op hv hok
  obtain ⟨σ2, sb2, hs2, he2, hq2, _, _, _, _⟩ :=
    accepted_sig pd (run pd (step pd s op).1 between).1 op' hv' hok'
  rw [hσ] at hs1; rw [hσ'] at hs2
  simp only [Option.some.injEq] at hs1 hs2
  subst hs1; rw [← hs2] at he2; rw [he1] at he2
  simp only [Sig.signed.injEq] at he2
  have hseq := encSignBytes_seq_inj sb1 sb2 he2.2
  have hmono := (seq_and_timestamp_monotone pd (step pd s op).1 between).1
  omega

/-- **Misbehaviour freezes**: a misbehaviour message whose two signatures are by the current key over
(its sequence, their timestamps, the current diversifier, their paths and data) — different data by
`ValidateBasic` — freezes an active client. -/
theorem misbehaviour_freezes (pd : Bytes → Bool) (s : State) (w : MisbehaviourWire) (validate : Bool)
    (hact : s.frozen = false)
    (hvb : validate = true → misbehaviourValidateBasic w = .ok ())
    (hp1 : pd w.m.one.path = true) (hp2 : pd w.m.two.path = true)
    (h1 : w.m.one.sig = .sig (.signed s.key
      (encSignBytes ⟨w.m.seq, w.m.one.ts, s.div, w.m.one.path, w.m.one.data⟩)))
    (h2 : w.m.two.sig = .sig (.signed s.key
      (encSignBytes ⟨w.m.seq, w.m.two.ts, s.div, w.m.two.path, w.m.two.data⟩))) :
    step pd s (.update validate (.misbehaviour w)) = ({ s with frozen := true }, .ok) := by
  have hm : verifyMisbehaviour pd s w.m = .ok () := by
    simp [verifyMisbehaviour, verifySigAndData, hp1, hp2, h1, h2, verifySig]
  cases validate with
  | false => simp [step, validateMsg, updateClient, hact, hm]
  | true => simp [step, validateMsg, updateClient, hvb rfl, hact, hm]

/-- `ValidateBasic` of a misbehaviour guarantees the two signed messages differ in path or data. -/
theorem misbehaviour_validated_differs (w : MisbehaviourWire) (h : misbehaviourValidateBasic w = .ok ()) :
    w.m.seq ≠ 0 ∧ (w.m.one.path ≠ w.m.two.path ∨ w.m.one.data ≠ w.m.two.data) := by
  unfold misbehaviourValidateBasic at h
  by_cases h0 : (w.m.seq == 0) = true
  · simp [h0] at h
  · simp only [h0, Bool.false_eq_true, if_false] at h
    cases h1 : sigAndDataValidateBasic w.sigOneEmpty w.m.one with
    | error e => simp [h1] at h
    | ok u =>
      cases h2 : sigAndDataValidateBasic w.sigTwoEmpty w.m.two with
      | error e => simp [h1, h2] at h
      | ok u' =>
        simp only [h1, h2] at h
        by_cases he : w.sigBytesEqual = true
        · simp [he] at h
        · simp only [he, Bool.false_eq_true, if_false] at h
          by_cases hd : (w.m.one.path == w.m.two.path && w.m.one.data == w.m.two.data) = true
          · simp [hd] at h
          · refine ⟨by simpa using h0, ?_⟩
            simp only [Bool.and_eq_true, beq_iff_eq, not_and] at hd
            by_cases hp : w.m.one.path = w.m.two.path
            · exact Or.inr (hd hp)
            · exact Or.inl hp

/-- The client freezes only so: if an operation freezes an active client it is a misbehaviour message
carrying two signatures by the current key over the same sequence. -/
theorem freeze_only_by_misbehaviour (pd : Bytes → Bool) (s : State) (op : Op)
    (hact : s.frozen = false) (hfr : (step pd s op).1.frozen = true) :
    ∃ validate w, op = .update validate (.misbehaviour w) ∧
      w.m.one.sig = .sig (.signed s.key
        (encSignBytes ⟨w.m.seq, w.m.one.ts, s.div, w.m.one.path, w.m.one.data⟩)) ∧
      w.m.two.sig = .sig (.signed s.key
        (encSignBytes ⟨w.m.seq, w.m.two.ts, s.div, w.m.two.path, w.m.two.data⟩)) := by
  have hproof : ∀ p path data, (verifyRes s (verifyProof s p path data)).1.frozen = true → False := by
    intro p path data h
    cases hr : verifyProof s p path data with
    | error e => simp [hr, verifyRes, hact] at h
    | ok s' =>
      obtain ⟨ts, σ, pfx, key, _, _, _, _, rfl⟩ := (verifyProof_ok_iff s s' p path data).mp hr
      simp [hr, verifyRes, hact] at h
  cases op with
  | vm p path v => exact (hproof p path v (by simpa [step] using hfr)).elim
  | vnm p path => exact (hproof p path [] (by simpa [step] using hfr)).elim
  | kvm p path v => exact (hproof p path v (by simpa [step, hact] using hfr)).elim
  | kvnm p path => exact (hproof p path [] (by simpa [step, hact] using hfr)).elim
  | update validate msg =>
    cases msg with
    | other => cases validate <;> simp [step, validateMsg, updateClient, hact] at hfr
    | header h =>
      cases hx : verifyHeader s h <;> cases validate <;>
        simp [step, validateMsg, updateClient, hact, hx] at hfr
    | misbehaviour w =>
      refine ⟨validate, w, rfl, ?_⟩
      have hm : verifyMisbehaviour pd s w.m = .ok () := by
        cases hx : verifyMisbehaviour pd s w.m with
        | ok u => rfl
        | error e =>
          cases validate
          · simp [step, validateMsg, updateClient, hact, hx] at hfr
          · cases hb : misbehaviourValidateBasic w <;>
              simp [step, validateMsg, updateClient, hact, hx, hb] at hfr
      unfold verifyMisbehaviour at hm
      have hside : ∀ sd : SigAndData, verifySigAndData pd s w.m.seq sd = .ok () →
          sd.sig = .sig (.signed s.key (encSignBytes ⟨w.m.seq, sd.ts, s.div, sd.path, sd.data⟩)) := by
        intro sd h
        unfold verifySigAndData at h
        by_cases hp : pd sd.path = true
        · simp only [hp, Bool.not_true, Bool.false_eq_true, if_false] at h
          cases hs : sd.sig with
          | empty => simp [hs] at h
          | garbage => simp [hs] at h
          | nosum => simp [hs] at h
          | sig σ =>
            simp only [hs] at h
            by_cases hv : verifySig s.key (encSignBytes ⟨w.m.seq, sd.ts, s.div, sd.path, sd.data⟩) σ = true
            · have : σ = .signed s.key (encSignBytes ⟨w.m.seq, sd.ts, s.div, sd.path, sd.data⟩) := by
                simpa [verifySig] using hv
              rw [this]
            · simp [hv] at h
        · simp [hp] at h
      cases h1 : verifySigAndData pd s w.m.seq w.m.one with
      | error e => simp [h1] at hm
      | ok u =>
        simp only [h1] at hm
        exact ⟨hside _ h1, hside _ hm⟩

/-- **A frozen client accepts nothing through the 02-client keeper** (`VerifyMembership`,
`VerifyNonMembership`, `UpdateClient` are all behind the status gate). -/
theorem frozen_rejects_all (pd : Bytes → Bool) (s : State) (hfr : s.frozen = true) :
    (∀ p path v, step pd s (.kvm p path v) = (s, .err .clientNotActive)) ∧
    (∀ p path, step pd s (.kvnm p path) = (s, .err .clientNotActive)) ∧
    (∀ msg, step pd s (.update false msg) = (s, .err .clientNotActive)) ∧
    (∀ msg, (step pd s (.update true msg)).1 = s ∧ ∃ e, (step pd s (.update true msg)).2 = .err e) := by
  refine ⟨by simp [step, hfr], by simp [step, hfr], ?_, ?_⟩
  · intro msg; cases msg <;> simp [step, validateMsg, updateClient, hfr]
  · intro msg
    cases msg with
    | header h => simp [step, validateMsg, updateClient, hfr]
    | other => simp [step, validateMsg, updateClient, hfr]
    | misbehaviour w =>
      cases hb : misbehaviourValidateBasic w <;> simp [step, validateMsg, updateClient, hfr, hb]

/-! ### equivocation on proof signatures -/

/-- the evidence one would submit for two membership proofs the client accepts at the same sequence for the
same key and different values: the two signatures, with the raw key as path -/
def evidence (s : State) (ts1 ts2 : Nat) (σ1 σ2 : Sig) (key v1 v2 : Bytes) : MisbehaviourWire :=
  ⟨⟨s.seq, ⟨.sig σ1, key, v1, ts1⟩, ⟨.sig σ2, key, v2, ts2⟩⟩, false, false, false⟩

/-- Such evidence freezes the client **iff the raw key happens to unmarshal as a protobuf MerklePath**:
`verifySignatureAndData` requires `SignatureAndData.Path` to decode as a MerklePath, while proofs are
signed over the raw key `KeyPath[1]`. -/
theorem equivocation_evidence_freezes_iff (pd : Bytes → Bool) (s : State) (ts1 ts2 : Nat) (σ1 σ2 : Sig)
    (pfx key v1 v2 : Bytes) (s1 s2 : State)
    (hact : s.frozen = false) (hseq : s.seq ≠ 0) (hne : v1 ≠ v2) (hv1 : v1 ≠ []) (hv2 : v2 ≠ [])
    (hk : key ≠ []) (ht1 : ts1 ≠ 0) (ht2 : ts2 ≠ 0)
    (h1 : verifyProof s (.mk ts1 (.sig σ1)) (.merkle [pfx, key]) v1 = .ok s1)
    (h2 : verifyProof s (.mk ts2 (.sig σ2)) (.merkle [pfx, key]) v2 = .ok s2) :
    (step pd s (.update true (.misbehaviour (evidence s ts1 ts2 σ1 σ2 key v1 v2)))).1.frozen = true ↔
      pd key = true := by
  obtain ⟨t1, τ1, p1, k1, e1, _, ep1, es1, _⟩ := (verifyProof_ok_iff _ _ _ _ _).mp h1
  obtain ⟨t2, τ2, p2, k2, e2, _, ep2, es2, _⟩ := (verifyProof_ok_iff _ _ _ _ _).mp h2
  simp only [ProofArg.mk.injEq, SigData.sig.injEq] at e1 e2
  simp only [PathArg.merkle.injEq, List.cons.injEq, and_true] at ep1 ep2
  obtain ⟨rfl, rfl⟩ := e1
  obtain ⟨rfl, rfl⟩ := e2
  obtain ⟨_, rfl⟩ := ep1
  obtain ⟨_, hk2⟩ := ep2
  subst hk2
  have hvb : misbehaviourValidateBasic (evidence s ts1 ts2 σ1 σ2 key v1 v2) = .ok () := by
    have a1 : (v1.length == 0) = false := by cases v1 <;> simp_all
    have a2 : (v2.length == 0) = false := by cases v2 <;> simp_all
    have a3 : (key.length == 0) = false := by cases key <;> simp_all
    have a4 : (s.seq == 0) = false := by simpa using hseq
    have a5 : (ts1 == 0) = false := by simpa using ht1
    have a6 : (ts2 == 0) = false := by simpa using ht2
    have a7 : (v1 == v2) = false := by simpa using hne
    simp [misbehaviourValidateBasic, evidence, sigAndDataValidateBasic, a1, a2, a3, a4, a5, a6, a7]
  cases hp : pd key with
  | true =>
    have := misbehaviour_freezes pd s (evidence s ts1 ts2 σ1 σ2 key v1 v2) true hact (fun _ => hvb)
      (by simpa [evidence] using hp) (by simpa [evidence] using hp)
      (by simp [evidence, es1]) (by simp [evidence, es2])
    simp [this]
  | false =>
    simp only [step, validateMsg, hvb]
    simp [updateClient, hact, verifyMisbehaviour, verifySigAndData, evidence, hp]

/-- The property read on the signatures the client itself accepts: two valid proof signatures for one
sequence over different data can be turned into evidence that freezes the client. -/
def equivocation_punishable_full : Prop :=
  ∀ (pd : Bytes → Bool) (s : State) (ts1 ts2 : Nat) (σ1 σ2 : Sig) (pfx key v1 v2 : Bytes) (s1 s2 : State),
    s.frozen = false → s.seq ≠ 0 → v1 ≠ v2 → v1 ≠ [] → v2 ≠ [] → key ≠ [] → ts1 ≠ 0 → ts2 ≠ 0 →
    verifyProof s (.mk ts1 (.sig σ1)) (.merkle [pfx, key]) v1 = .ok s1 →
    verifyProof s (.mk ts2 (.sig σ2)) (.merkle [pfx, key]) v2 = .ok s2 →
    (step pd s (.update true (.misbehaviour (evidence s ts1 ts2 σ1 σ2 key v1 v2)))).1.frozen = true

/-- **False of the code** whenever the key does not decode as a MerklePath — which is the case for the
ICS-24 keys solo machines sign (e.g. "connections/connection-0": first byte 0x63 = field 12, wire type 3).
The harness monitor `solo` replays this on the real client (key "equivocation-unpunishable"). -/
theorem equivocation_punishable_full_false : ¬ equivocation_punishable_full := by
  intro hfull
  let s : State := ⟨1, false, 7, [100], 5⟩
  let key : Bytes := [99]
  have := hfull (fun _ => false) s 6 6
    (.signed 7 (encSignBytes ⟨1, 6, [100], key, [1]⟩)) (.signed 7 (encSignBytes ⟨1, 6, [100], key, [2]⟩))
    [105] key [1] [2] { s with seq := 2, ts := 6 } { s with seq := 2, ts := 6 }
    rfl (by decide) (by decide) (by decide) (by decide) (by decide) (by decide) (by decide)
    (by rw [verifyProof_ok_iff]; exact ⟨6, _, [105], key, rfl, by decide, rfl, rfl, rfl⟩)
    (by rw [verifyProof_ok_iff]; exact ⟨6, _, [105], key, rfl, by decide, rfl, rfl, rfl⟩)
  rw [equivocation_evidence_freezes_iff (fun _ => false) s 6 6 _ _ [105] key [1] [2]
    { s with seq := 2, ts := 6 } { s with seq := 2, ts := 6 } rfl (by decide) (by decide) (by decide)
    (by decide) (by decide) (by decide) (by decide)
    (by rw [verifyProof_ok_iff]; exact ⟨6, _, [105], key, rfl, by decide, rfl, rfl, rfl⟩)
    (by rw [verifyProof_ok_iff]; exact ⟨6, _, [105], key, rfl, by decide, rfl, rfl, rfl⟩)] at this
  cases this

/-! ### non-vacuity -/

/-- a proof at sequence 1 is accepted once; its replay, the same signature presented for another value and
a proof signed for a stale timestamp are rejected; the sequence advanced exactly once. -/
example :
    let s : State := ⟨1, false, 7, [100], 5⟩
    let σ := Sig.signed 7 (encSignBytes ⟨1, 6, [100], [99], [1]⟩)
    let p := ProofArg.mk 6 (.sig σ)
    run (fun _ => true) s [.vm p (.merkle [[105], [99]]) [1], .vm p (.merkle [[105], [99]]) [1],
        .vm p (.merkle [[105], [99]]) [2], .vm (.mk 4 (.sig σ)) (.merkle [[105], [99]]) [1]]
      = (⟨2, false, 7, [100], 6⟩, [.ok, .err .sigVerificationFailed, .err .sigVerificationFailed,
          .err .invalidProof]) := by
  simp [run, step, verifyRes, verifyProof, produceVerificationArgs, verifySig, encSignBytes,
    Proto.encField, Proto.tagOf, encVarint_small]

end IbcVerif.C26
