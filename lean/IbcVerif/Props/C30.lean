/-
  C30 — ICS-20 conserves tokens across chains.
  Property theorems only; helper lemmas live in IbcVerif/Lemmas/Ics20*.lean.

  Model: `Ics20.step` / `Ics20.run` (Model/Ics20.lean): `Transfer` (v1, v2-over-alias), raw v2
  `MsgSendPacket`, receive / acknowledgement / timeout callbacks of both IBC modules, for ANY number of
  chains and ANY channel topology (`Config.peer`): v1 channels, their v2 aliases and v2 clients are all
  just channel ends with a counterparty end.  Core IBC is abstract: the theorems hold for every history
  that respects the packet lifecycle (`LifecycleOK`: what C01/C03/C04/C05/C06/C08 provide, stated as a
  named hypothesis in Lemmas/Ics20Lifecycle.lean), by induction over the history.

  Named hypotheses: `Assm` (escrow addresses distinct per channel end — C34; idealised hash without
  collisions; channel/client identifiers in ibc-go's format; channel ends are paired) and `PartiesOK`
  (message senders / receivers are not escrow addresses: nobody holds an escrow key, and tokens sent
  into an escrow account outside ICS-20 would only add to the escrow side of the equation).

  History: on the tree as found the property was FALSE for native denominations shaped like voucher
  paths (`transfer/channel-1/ufoo` released real escrowed `ufoo`, reproduced on the real code); fix
  4b2f809 makes `Transfer` reject such denominations (`hopFreeBase`), and the theorem below holds for
  everything the repaired `Transfer` accepts.  The witness is replayed every run (harness group `findings`).
-/
import IbcVerif.Model.Ics20
import IbcVerif.Lemmas.Ics20ConserveRun
import IbcVerif.Lemmas.Ics20Pfm
namespace IbcVerif.C30
open IbcVerif IbcVerif.Xfer IbcVerif.Ics20

/-- **Escrow = vouchers + in flight, per channel-end pair, after every step of every history.**
    Start from a world satisfying the invariants (`Inv`: e.g. a genesis world, `inv_genesis`), run any
    lifecycle-respecting history.  Then for every channel end `(A, cA)` with counterparty end `(B, cB)` and
    every token `X` as it exists on `A` for which `A` acts as source over `cA` (native or voucher, any
    trace depth):

      balance of `A`'s escrow account for `cA` in the coin of `X`
        = total supply on `B` of the voucher `transfer/cB/X`
        + amounts of packets `A → B` carrying `X` that are neither minted on `B` nor refunded on `A`
        + amounts of packets `B → A` carrying the voucher that are neither released on `A` nor re-minted on `B`. -/
theorem escrow_voucher_balance (cfg : Config) (ha : Assm cfg) (w : World) (ops : List Op) (hw : Inv cfg w)
    (hl : LifecycleOK cfg w ops) (hp : ∀ op ∈ ops, PartiesOK cfg op)
    (A : Nat) (cA : Str) (B : Nat) (cB : Str) (X : Denom)
    (hpeer : cfg.peer A cA = some (B, cB)) (hX : GoodDenom X) (hsrc : X.hasPrefix transferPort cA = false) :
    ((run cfg w ops).chains A).bank.bal (cfg.escrowAddr transferPort cA) (X.ibcDenom cfg.hashHex) =
      ((run cfg w ops).chains B).bank.supply (Denom.ibcDenom cfg.hashHex ⟨⟨transferPort, cB⟩ :: X.trace, X.base⟩) +
      pendingSum (run cfg w ops) (selF A cA X) + pendingSum (run cfg w ops) (selB B cB X) :=
  (inv_run ha ops w hw hl hp).conserve A cA B cB X hpeer hX hsrc

/-- every denomination that occurs — stored on a chain, or carried by a sent packet — is *good* along
    the history, i.e. the theorem above covers every token in play (this is where the guard of fix
    4b2f809 is used). -/
theorem tokens_in_play_are_good (cfg : Config) (ha : Assm cfg) (w : World) (ops : List Op) (hw : Inv cfg w)
    (hl : LifecycleOK cfg w ops) (hp : ∀ op ∈ ops, PartiesOK cfg op) :
    (∀ c, ∀ d ∈ ((run cfg w ops).chains c).denoms, GoodDenom d) ∧
    (∀ p ∈ (run cfg w ops).sent, GoodDenom (extract p.data.denom) ∧ (extract p.data.denom).path = p.data.denom) :=
  ⟨(inv_run ha ops w hw hl hp).winv.store,
   fun p hp' => ⟨((inv_run ha ops w hw hl hp).winv.sent p hp').1, ((inv_run ha ops w hw hl hp).winv.sent p hp').2.1⟩⟩

/-- a genesis-like world (nothing sent yet, empty denomination stores, empty escrow accounts, no vouchers
    in circulation) satisfies the invariants: the hypotheses of the theorems are satisfiable -/
theorem inv_genesis (cfg : Config) (w : World)
    (hs : w.sent = []) (hr : w.recvd = []) (hk : w.acked = []) (ht : w.timedOut = [])
    (hd : ∀ c, (w.chains c).denoms = [])
    (hesc : ∀ c p ch d, (w.chains c).bank.bal (cfg.escrowAddr p ch) d = 0)
    (hv : ∀ c d, ibcSlash.isPrefixOf d = true → (w.chains c).bank.supply d = 0) : Inv cfg w := by
  refine ⟨⟨?_, ?_⟩, ⟨?_, ?_, ?_, ?_, ?_, ?_⟩, ?_, ?_⟩
  · intro c d hdm; rw [hd c] at hdm; cases hdm
  · intro p hp; rw [hs] at hp; cases hp
  · rw [hs]; exact List.nodup_nil
  · intro p b h; rw [hr] at h; cases h
  · intro p h; rw [hk] at h; cases h
  · intro p h; rw [ht] at h; cases h
  · intro p h; rw [hr] at h; cases h
  · intro p h; rw [hk] at h; cases h
  · intro p hp; rw [hs] at hp; cases hp
  · intro A cA B cB X _ _ _
    have h0 : ∀ sel, pendingSum w sel = 0 := by intro sel; simp [pendingSum, hs]
    rw [hesc, h0, h0, hv]
    simp only [coin, Denom.ibcDenom, Denom.isNative, List.isEmpty_cons, Bool.false_eq_true, if_false]
    exact isPrefixOf_append_self _ _

/-- **IBC never changes the supply of a native token.**  In every step of every world (no lifecycle
    hypothesis needed), the total supply of every coin denomination that is not an `ibc/…` voucher is
    unchanged on every chain: ICS-20 mints and burns vouchers only. -/
theorem native_supply_constant (cfg : Config) (w : World) (op : Op) (c : Nat) (d : Str)
    (hd : ibcSlash.isPrefixOf d = false) :
    (((step cfg w op).1).chains c).bank.supply d = (w.chains c).bank.supply d := by
  have hne : ∀ (t : Denom), t.trace ≠ [] → d ≠ t.ibcDenom cfg.hashHex := by
    intro t ht e
    have := voucher_coin_prefix cfg.hashHex t ht
    rw [← e, hd] at this; cases this
  have hpre : ∀ (t : Denom) (p ch : Str), t.hasPrefix p ch = true → t.trace ≠ [] := by
    intro t p ch h e
    simp [Denom.hasPrefix, e] at h
  by_cases hc : c ≠ opChain op
  · rw [step_other_chain cfg w op c hc]
  have hc' : c = opChain op := Classical.not_not.mp hc
  have hsend : ∀ {ch' : Chain} {chan : Str} {tok : Denom} {n : Nat} {s : Addr},
      sendTransfer cfg c (w.chains c) transferPort chan tok n s = .ok ch' →
      ch'.bank.supply d = (w.chains c).bank.supply d := by
    intro ch' chan tok n s hst
    obtain ⟨_, _, _, _, heff⟩ := sendTransfer_effect hst
    rcases heff with ⟨hpT, _, _, hsup, _⟩ | ⟨_, _, hsup, _⟩
    · rw [hsup]; simp [hne tok (hpre _ _ _ hpT)]
    · rw [hsup]
  have hrefund : ∀ {ch' : Chain} {sp sc : Str} {data : PacketData},
      refundPacketTokens cfg c (w.chains c) sp sc data = .ok ch' →
      ch'.bank.supply d = (w.chains c).bank.supply d := by
    intro ch' sp sc data href
    obtain ⟨_, _, _, _, _, heff⟩ := refund_effect href
    rcases heff with ⟨hpT, _, hsup, _⟩ | ⟨_, _, _, _, hsup, _⟩
    · rw [hsup]; simp [hne _ (hpre _ _ _ hpT)]
    · rw [hsup]
  cases op with
  | transfer c' signer viaTx m ce seq =>
    simp only [opChain] at hc'; subst hc'
    rcases step_transfer_cases cfg w c signer viaTx m ce seq with ⟨p, hpp⟩ | hsame
    · have hstep : step cfg w (.transfer c signer viaTx m ce seq) = ((step cfg w (.transfer c signer viaTx m ce seq)).1, .sent p) :=
        Prod.ext rfl hpp
      obtain ⟨_, ch', ht, hw'⟩ := step_transfer_sent hstep
      obtain ⟨s, n, tok, _, _, _, _, _, _, _, _, _, _, _, _, hst⟩ := transfer_ok ht
      rw [hw']
      simp only [World.setChain, if_true]
      rcases hst with ⟨_, hst⟩ | ⟨_, _, hst⟩
      · exact hsend hst
      · exact hsend hst
    · rw [hsame]
  | sendV2 c' signer client data ce seq =>
    simp only [opChain] at hc'; subst hc'
    rcases step_sendV2_cases cfg w c signer client data ce seq with ⟨p, hpp⟩ | hsame
    · have hstep : step cfg w (.sendV2 c signer client data ce seq) = ((step cfg w (.sendV2 c signer client data ce seq)).1, .sent p) :=
        Prod.ext rfl hpp
      obtain ⟨ch', ht, hw'⟩ := step_sendV2_sent hstep
      obtain ⟨s, _, _, _, _, _, _, _, _, _, _, _, _, hst⟩ := sendPacketV2_ok ht
      rw [hw']
      simp only [World.setChain, if_true]
      exact hsend hst
    · rw [hsame]
  | recv p =>
    simp only [opChain] at hc'; subst hc'
    rcases step_recv_cases cfg w p with ⟨ch', o, hr, hstep⟩ | hsame
    · rw [hstep]
      simp only [World.setChain, if_true]
      rcases recvPacket_ok hr with ⟨_, hon⟩ | ⟨_, rfl⟩
      · obtain ⟨r, _, _, _, _, heff⟩ := onRecvPacket_effect hon
        rcases heff with ⟨_, _, _, _, _, hsup, _⟩ | ⟨hpF, _, _, hsup, _⟩
        · rw [hsup]
        · rw [hsup, recvCoin_mint hpF]
          simp [hne ⟨⟨p.dstPort, p.dstChan⟩ :: (extract p.data.denom).trace, (extract p.data.denom).base⟩ (by simp)]
      · rfl
    · rw [hsame]
  | ack p a =>
    simp only [opChain] at hc'; subst hc'
    rcases step_ack_cases cfg w p a with ⟨ch', hak, hstep⟩ | ⟨hsame, _⟩
    · rw [hstep]
      simp only [World.setChain, if_true]
      rcases ackPacket_ok hak with ⟨_, rfl⟩ | ⟨_, href⟩
      · rfl
      · exact hrefund href
    · rw [hsame]
  | timeout p oc =>
    simp only [opChain] at hc'; subst hc'
    rcases step_timeout_cases cfg w p oc with ⟨ch', hto, hstep⟩ | ⟨hsame, _⟩
    · rw [hstep]
      simp only [World.setChain, if_true]
      exact hrefund (timeoutPacket_ok hto)
    · rw [hsame]
  | setParams c' s r =>
    simp only [opChain] at hc'; subst hc'
    simp [step, World.setChain]
  | bankSend c' f t dn n =>
    simp only [opChain] at hc'; subst hc'
    simp only [step]
    split
    · rfl
    · split
      · rename_i b hb
        simp only [World.setChain, if_true]
        exact congrFun (Bank.send_some hb).2.1 d
      · rfl

/-- … hence along every history whatsoever -/
theorem native_supply_constant_run (cfg : Config) (ops : List Op) (w : World) (c : Nat) (d : Str)
    (hd : ibcSlash.isPrefixOf d = false) :
    ((run cfg w ops).chains c).bank.supply d = (w.chains c).bank.supply d := by
  induction ops generalizing w with
  | nil => rfl
  | cons op ops ih =>
    simp only [run]
    rw [ih, native_supply_constant cfg w op c d hd]

/-- **No free tokens.**  In every step, a credited amount is matched: either another account of the same
    chain is debited by the same amount of the same coin (a transfer between accounts), or the supply
    of that coin grows by that amount (a voucher mint — which by `escrow_voucher_balance` is backed by
    escrow on the counterparty). -/
theorem credit_is_matched (cfg : Config) (w : World) (op : Op) (c : Nat) (a : Addr) (d : Str)
    (hgt : (w.chains c).bank.bal a d < (((step cfg w op).1).chains c).bank.bal a d) :
    (∃ a', a' ≠ a ∧ (w.chains c).bank.bal a' d - (((step cfg w op).1).chains c).bank.bal a' d =
        (((step cfg w op).1).chains c).bank.bal a d - (w.chains c).bank.bal a d) ∨
    ((((step cfg w op).1).chains c).bank.supply d - (w.chains c).bank.supply d =
        (((step cfg w op).1).chains c).bank.bal a d - (w.chains c).bank.bal a d) := by
  have hmove : ∀ (bal bal' : Addr → Str → Nat) (f t : Addr) (k : Str) (n : Nat), n ≤ bal f k →
      (∀ a x, bal' a x = moveBal bal f t k n a x) → bal a d < bal' a d →
      ∃ a', a' ≠ a ∧ bal a' d - bal' a' d = bal' a d - bal a d := by
    intro bal bal' f t k n hn hb hlt
    clear hgt
    rw [hb a d] at hlt
    have hdk : d = k := by
      by_cases h : d = k
      · exact h
      · simp [moveBal, h] at hlt
    subst hdk
    have haf : a ≠ f := by
      intro e
      subst e
      by_cases hat : a = t
      · subst hat
        simp [moveBal] at hlt
        omega
      · simp [moveBal, hat] at hlt
        omega
    have hat : a = t := by
      by_cases h : a = t
      · exact h
      · simp [moveBal, h, haf] at hlt
    subst hat
    refine ⟨f, fun e => haf e.symm, ?_⟩
    rw [hb f d, hb a d]
    have hfa : f ≠ a := fun e => haf e.symm
    simp [moveBal, hfa, haf]
    omega
  by_cases hc : c ≠ opChain op
  · rw [step_other_chain cfg w op c hc] at hgt; omega
  have hc' : c = opChain op := Classical.not_not.mp hc
  have hsend : ∀ {ch' : Chain} {chan : Str} {tok : Denom} {n : Nat} {s : Addr},
      sendTransfer cfg c (w.chains c) transferPort chan tok n s = .ok ch' →
      (w.chains c).bank.bal a d < ch'.bank.bal a d →
      ∃ a', a' ≠ a ∧ (w.chains c).bank.bal a' d - ch'.bank.bal a' d = ch'.bank.bal a d - (w.chains c).bank.bal a d := by
    intro ch' chan tok n s hst hlt
    obtain ⟨_, _, _, hn, heff⟩ := sendTransfer_effect hst
    rcases heff with ⟨_, _, hbal, _, _⟩ | ⟨_, hbal, _, _⟩
    · rw [hbal a d] at hlt
      split_ifs at hlt <;> omega
    · exact hmove _ _ _ _ _ _ hn hbal hlt
  have hrefund : ∀ {ch' : Chain} {sp sc : Str} {data : PacketData},
      refundPacketTokens cfg c (w.chains c) sp sc data = .ok ch' →
      (w.chains c).bank.bal a d < ch'.bank.bal a d →
      (∃ a', a' ≠ a ∧ (w.chains c).bank.bal a' d - ch'.bank.bal a' d = ch'.bank.bal a d - (w.chains c).bank.bal a d) ∨
      (ch'.bank.supply d - (w.chains c).bank.supply d = ch'.bank.bal a d - (w.chains c).bank.bal a d) := by
    intro ch' sp sc data href hlt
    obtain ⟨s, _, _, _, _, heff⟩ := refund_effect href
    rcases heff with ⟨_, hbal, hsup, _⟩ | ⟨_, hn, _, hbal, _, _⟩
    · right
      rw [hbal a d] at hlt ⊢
      rw [hsup d]
      by_cases hcond : d = (extract data.denom).ibcDenom cfg.hashHex ∧ a = s
      · simp only [hcond, and_self, if_true]
        omega
      · rw [if_neg hcond] at hlt; omega
    · left; exact hmove _ _ _ _ _ _ hn hbal hlt
  cases op with
  | transfer c' signer viaTx m ce seq =>
    simp only [opChain] at hc'; subst hc'
    rcases step_transfer_cases cfg w c signer viaTx m ce seq with ⟨p, hpp⟩ | hsame
    · have hstep : step cfg w (.transfer c signer viaTx m ce seq) = ((step cfg w (.transfer c signer viaTx m ce seq)).1, .sent p) :=
        Prod.ext rfl hpp
      obtain ⟨_, ch', ht, hw'⟩ := step_transfer_sent hstep
      obtain ⟨s, n, tok, _, _, _, _, _, _, _, _, _, _, _, _, hst⟩ := transfer_ok ht
      rw [hw'] at hgt ⊢
      simp only [World.setChain, if_true] at hgt ⊢
      left
      rcases hst with ⟨_, hst⟩ | ⟨_, _, hst⟩
      · exact hsend hst hgt
      · exact hsend hst hgt
    · rw [hsame] at hgt; omega
  | sendV2 c' signer client data ce seq =>
    simp only [opChain] at hc'; subst hc'
    rcases step_sendV2_cases cfg w c signer client data ce seq with ⟨p, hpp⟩ | hsame
    · have hstep : step cfg w (.sendV2 c signer client data ce seq) = ((step cfg w (.sendV2 c signer client data ce seq)).1, .sent p) :=
        Prod.ext rfl hpp
      obtain ⟨ch', ht, hw'⟩ := step_sendV2_sent hstep
      obtain ⟨s, _, _, _, _, _, _, _, _, _, _, _, _, hst⟩ := sendPacketV2_ok ht
      rw [hw'] at hgt ⊢
      simp only [World.setChain, if_true] at hgt ⊢
      left
      exact hsend hst hgt
    · rw [hsame] at hgt; omega
  | recv p =>
    simp only [opChain] at hc'; subst hc'
    rcases step_recv_cases cfg w p with ⟨ch', o, hr, hstep⟩ | hsame
    · rw [hstep] at hgt ⊢
      simp only [World.setChain, if_true] at hgt ⊢
      rcases recvPacket_ok hr with ⟨_, hon⟩ | ⟨_, rfl⟩
      · obtain ⟨r, _, _, _, _, heff⟩ := onRecvPacket_effect hon
        rcases heff with ⟨_, _, hn, _, hbal, _, _⟩ | ⟨_, _, hbal, hsup, _⟩
        · left; exact hmove _ _ _ _ _ _ hn hbal hgt
        · right
          rw [hbal a d] at hgt ⊢
          rw [hsup d]
          by_cases hcond : d = ics20RecvCoinDenom cfg.hashHex p.srcPort p.srcChan p.dstPort p.dstChan p.data.denom ∧ a = r
          · simp only [hcond, and_self, if_true]
            omega
          · rw [if_neg hcond] at hgt; omega
      · omega
    · rw [hsame] at hgt; omega
  | ack p ak =>
    simp only [opChain] at hc'; subst hc'
    rcases step_ack_cases cfg w p ak with ⟨ch', hak, hstep⟩ | ⟨hsame, _⟩
    · rw [hstep] at hgt ⊢
      simp only [World.setChain, if_true] at hgt ⊢
      rcases ackPacket_ok hak with ⟨_, rfl⟩ | ⟨_, href⟩
      · omega
      · exact hrefund href hgt
    · rw [hsame] at hgt; omega
  | timeout p oc =>
    simp only [opChain] at hc'; subst hc'
    rcases step_timeout_cases cfg w p oc with ⟨ch', hto, hstep⟩ | ⟨hsame, _⟩
    · rw [hstep] at hgt ⊢
      simp only [World.setChain, if_true] at hgt ⊢
      exact hrefund (timeoutPacket_ok hto) hgt
    · rw [hsame] at hgt; omega
  | setParams c' s r =>
    simp only [opChain] at hc'; subst hc'
    simp [step, World.setChain] at hgt
  | bankSend c' f t dn n =>
    simp only [opChain] at hc'; subst hc'
    left
    simp only [step] at hgt ⊢
    split at hgt
    · simp only at hgt; omega
    · rename_i hblk
      simp only [hblk, Bool.false_eq_true, if_false]
      split at hgt
      · rename_i b hb
        simp only [hb]
        simp only [World.setChain, if_true] at hgt ⊢
        obtain ⟨hn, _, hbal⟩ := Bank.send_some' hb
        exact hmove _ _ _ _ _ _ hn hbal hgt
      · simp only at hgt; omega

/-! ### packet-forward-middleware: which refund sequences keep the equation

  PFM's refund moves (`Model/Ics20Pfm.lean`) are not conservation-preserving on their own — they undo a
  receive that the ledger has booked as successful.  They are when *paired with the forward they undo
  and the receive that funded it*: on the intermediate chain ICS-20 receives P1 over `rc` crediting PFM's
  override receiver, the override receiver forwards the received token with an ordinary `MsgTransfer`
  (packet P2 over `fc`), P2 fails (error acknowledgement, or timeout with no retries left) and, instead of
  ICS-20's refund of P2, PFM runs its moves and answers P1 with an error acknowledgement.  In ledger
  terms the settlement (i) applies `pfmRefund`, (ii) gives P2 its terminal outcome, (iii) re-records P1's
  receive as failed, so that P1 counts as in flight again until its sender is refunded. -/

/-- the world after PFM settled the failed forward P2 of the received packet P1 -/
def pfmSettle (w : World) (p1 p2 : Packet) (ch' : Chain) : World :=
  { chains := (w.setChain p2.srcChain ch').chains, sent := w.sent,
    recvd := (p1, false) :: w.recvd.filter (fun e => e.1 != p1),
    acked := w.acked, timedOut := p2 :: w.timedOut }

/-- FULL statement (not proved here): the settlement of a failed forward preserves the ICS-20 invariant
    of every channel-end pair.  Hypotheses: P1 was received successfully on the intermediate chain and
    has no terminal outcome yet; P2 is still in flight, was sent from that chain by P1's receiver (the
    override receiver), and carries exactly the token and amount P1's receive credited. -/
def pfm_settlement_conserves_full : Prop :=
  ∀ (cfg : Config) (w : World) (p1 p2 : Packet) (ch' : Chain), Assm cfg → Inv cfg w →
    p1 ∈ w.sent → (p1, true) ∈ w.recvd → p1 ∉ w.acked → p1 ∉ w.timedOut →
    p2 ∈ w.sent → pending w p2 = true → p2.srcChain = p1.dstChain →
    p2.data.amount = p1.data.amount →
    extract p2.data.denom = recvToken transferPort p1.srcChan transferPort p1.dstChan p1.data.denom →
    (∀ a, cfg.decode p1.data.receiver = some a → cfg.decode p2.data.sender = some a) →
    pfmRefund cfg (w.chains p2.srcChain) transferPort p2.srcChan transferPort p1.dstChan
      (extract p2.data.denom) p2.data.amount = .ok ch' →
    Conserve cfg (pfmSettle w p1 p2 ch')

/-- **Partial (proved): the failed hop leaves no trace on the intermediate chain.**  Frame law: whatever
    else happens in between, the changes made by (receive of P1 crediting the override receiver `I`) +
    (forward of the received token by `I`) + (PFM's refund moves) cancel on every account and coin, on
    every supply and on every tracked-escrow entry — in all four branch combinations (unescrow/mint ×
    escrow/burn), including the bounce-back case repaired by f970a92.  Together with (ii) and (iii) above
    this returns every term of `escrow_voucher_balance` to its value before P1 was received, which is the
    content of `pfm_settlement_conserves_full`; what is not mechanised is the bookkeeping of the two
    in-flight sums under the simultaneous status change of P1 and P2. -/
theorem pfm_settlement_partial (cfg : Config) (c : Nat) (ch0 ch1 ch1' ch2 ch2' ch3 : Chain)
    (data : PacketData) (sc rc fc : Str) (I : Addr)
    (hrecv : onRecvPacket cfg c ch0 data transferPort sc transferPort rc = .ok ch1)
    (hI : cfg.decode data.receiver = some I)
    (hunw : (extract data.denom).hasPrefix transferPort sc = true →
        (recvToken transferPort sc transferPort rc data.denom).hasPrefix transferPort rc = false)
    (hfwd : sendTransfer cfg c ch1' transferPort fc (recvToken transferPort sc transferPort rc data.denom) data.amount I = .ok ch2)
    (hpfm : pfmRefund cfg ch2' transferPort fc transferPort rc (recvToken transferPort sc transferPort rc data.denom) data.amount = .ok ch3)
    (hI1 : I ≠ cfg.escrowAddr transferPort fc) (hI2 : I ≠ cfg.escrowAddr transferPort rc) :
    (∀ a x, ch1.bank.bal a x + ch2.bank.bal a x + ch3.bank.bal a x =
            ch0.bank.bal a x + ch1'.bank.bal a x + ch2'.bank.bal a x) ∧
    (∀ x, ch1.bank.supply x + ch2.bank.supply x + ch3.bank.supply x =
          ch0.bank.supply x + ch1'.bank.supply x + ch2'.bank.supply x) ∧
    (∀ x, ch1.totalEscrow x + ch2.totalEscrow x + ch3.totalEscrow x =
          ch0.totalEscrow x + ch1'.totalEscrow x + ch2'.totalEscrow x) :=
  pfm_refund_inverts_hop hrecv hI hunw hfwd hpfm hI1 hI2

/-- PFM's refund moves never touch the supply of a native coin either: they mint / burn vouchers only -/
theorem pfm_refund_native_supply_constant (cfg : Config) (ch ch' : Chain) (fp fc rp rc : Str) (D : Denom) (n : Nat)
    (hp : pfmRefund cfg ch fp fc rp rc D n = .ok ch') (d : Str) (hd : ibcSlash.isPrefixOf d = false) :
    ch'.bank.supply d = ch.bank.supply d := by
  have hne : ∀ (p c : Str), D.hasPrefix p c = true → d ≠ D.ibcDenom cfg.hashHex := by
    intro p c h e
    have ht : D.trace ≠ [] := by intro e'; simp [Denom.hasPrefix, e'] at h
    have := voucher_coin_prefix cfg.hashHex D ht
    rw [← e, hd] at this; cases this
  obtain ⟨_, _, _, hb⟩ := pfmRefund_ok hp
  rcases hb with ⟨_, _, _, _, hs, _⟩ | ⟨_, h2, _, _, _, _, hs, _⟩ | ⟨h1, _, _, hs, _⟩ | ⟨_, _, rfl⟩
  · rw [hs]
  · rw [hs]; simp [hne _ _ h2]
  · rw [hs]; simp [hne _ _ h1]
  · rfl

/-- non-vacuity: two chains joined by `channel-0` ↔ `channel-1`; a user escrows 5 `uatom`, the
    counterparty mints the voucher: escrow 5 = voucher supply 5, nothing in flight. -/
example :
    let cfg : Config :=
      { hashHex := (fun s => s)
        decode := (fun s => some s)
        blocked := (fun _ _ => false)
        moduleAddr := "module".toList
        escrowAddr := (fun p c => "esc:".toList ++ p ++ c)
        peer := (fun c id => if c = 0 ∧ id = "channel-0".toList then some (1, "channel-1".toList)
                  else if c = 1 ∧ id = "channel-1".toList then some (0, "channel-0".toList) else none)
        hasChannel := (fun _ _ _ => true) }
    let ch : Chain := ⟨⟨fun a d => if a = "u".toList ∧ d = "uatom".toList then 10 else 0, fun d => if d = "uatom".toList then 10 else 0⟩, fun _ => 0, [], true, true⟩
    let w : World := ⟨fun _ => ch, [], [], [], []⟩
    let m : MsgTransfer := ⟨"transfer".toList, "channel-0".toList, "uatom".toList, 5, "u".toList, "v".toList, [], false, []⟩
    let p : Packet := ⟨0, "transfer".toList, "channel-0".toList, 1, "transfer".toList, "channel-1".toList, 1, false,
      ⟨"uatom".toList, 5, "u".toList, "v".toList, []⟩⟩
    let w₂ := run cfg w [.transfer 0 "u".toList true m none 1, .recv p]
    (w₂.chains 0).bank.bal ("esc:".toList ++ "transfer".toList ++ "channel-0".toList) "uatom".toList = 5 ∧
    (w₂.chains 1).bank.supply ("ibc/".toList ++ "transfer/channel-1/uatom".toList) = 5 ∧
    (w₂.chains 1).bank.bal "v".toList ("ibc/".toList ++ "transfer/channel-1/uatom".toList) = 5 ∧
    (w₂.chains 0).bank.supply "uatom".toList = 10 := by
  decide

/-- non-vacuity of the packet-forward statements: A sends 5 `uatom` to B for the override receiver `i`, `i`
    forwards the voucher over `channel-2`, the forward fails and PFM settles.  On B the voucher is burnt out of
    the forward channel's escrow again (supply, escrow and tracked total back to 0), and in the settled
    world A's escrow of 5 is matched by 0 vouchers + 5 in flight (P1 awaits its error acknowledgement). -/
example :
    let cfg : Config :=
      { hashHex := (fun s => s)
        decode := (fun s => some s)
        blocked := (fun _ _ => false)
        moduleAddr := "module".toList
        escrowAddr := (fun p c => "esc:".toList ++ p ++ c)
        peer := (fun c id => if c = 0 ∧ id = "channel-0".toList then some (1, "channel-1".toList)
                  else if c = 1 ∧ id = "channel-1".toList then some (0, "channel-0".toList)
                  else if c = 1 ∧ id = "channel-2".toList then some (2, "channel-3".toList)
                  else if c = 2 ∧ id = "channel-3".toList then some (1, "channel-2".toList) else none)
        hasChannel := (fun _ _ _ => true) }
    let ch : Chain := ⟨⟨fun a d => if a = "u".toList ∧ d = "uatom".toList then 10 else 0, fun d => if d = "uatom".toList then 10 else 0⟩, fun _ => 0, [], true, true⟩
    let w : World := ⟨fun _ => ch, [], [], [], []⟩
    let v : Str := "ibc/".toList ++ "transfer/channel-1/uatom".toList
    let m1 : MsgTransfer := ⟨"transfer".toList, "channel-0".toList, "uatom".toList, 5, "u".toList, "i".toList, [], false, []⟩
    let p1 : Packet := ⟨0, "transfer".toList, "channel-0".toList, 1, "transfer".toList, "channel-1".toList, 1, false,
      ⟨"uatom".toList, 5, "u".toList, "i".toList, []⟩⟩
    let p2 : Packet := ⟨1, "transfer".toList, "channel-2".toList, 2, "transfer".toList, "channel-3".toList, 1, false,
      ⟨"transfer/channel-1/uatom".toList, 5, "i".toList, "z".toList, []⟩⟩
    let D : Denom := ⟨[⟨"transfer".toList, "channel-1".toList⟩], "uatom".toList⟩
    let w₂ := run cfg w [.transfer 0 "u".toList true m1 none 1, .recv p1]
    -- the forward: `SendTransfer` by the override receiver over channel-2 (the toy hash is not hex, so the
    -- coin-denomination lookup of `Transfer` is bypassed here)
    let chF := (match sendTransfer cfg 1 (w₂.chains 1) "transfer".toList "channel-2".toList D 5 "i".toList with
                | .ok c => c | .error _ => w₂.chains 1)
    let w₃ : World := { w₂.setChain 1 chF with sent := p2 :: w₂.sent }
    let r := pfmRefund cfg (w₃.chains 1) "transfer".toList "channel-2".toList "transfer".toList "channel-1".toList D 5
    (w₃.chains 1).bank.supply v = 5 ∧ (w₃.chains 1).totalEscrow v = 5 ∧ w₃.sent = [p2, p1] ∧
    (match r with | .ok _ => true | .error _ => false) = true ∧
    (let ch' := (match r with | .ok c => c | .error _ => ch)
     ch'.bank.supply v = 0 ∧ ch'.totalEscrow v = 0 ∧
     ch'.bank.bal ("esc:".toList ++ "transfer".toList ++ "channel-2".toList) v = 0 ∧
     (let w₄ := pfmSettle w₃ p1 p2 ch'
      (w₄.chains 0).bank.bal ("esc:".toList ++ "transfer".toList ++ "channel-0".toList) "uatom".toList = 5 ∧
      (w₄.chains 1).bank.supply v = 0 ∧
      pendingSum w₄ (selF 0 "channel-0".toList ⟨[], "uatom".toList⟩) = 5 ∧
      pendingSum w₄ (selB 1 "channel-1".toList ⟨[], "uatom".toList⟩) = 0)) := by
  decide

end IbcVerif.C30
