/-
  C12 — Channel handshake safety, two-chain agreement half.

  World: two L3 chain states A and B (`Model/ChainPair.lean`).  Every op runs on one side through the
  ordinary single-chain `step`; the proof verdict of a channel / connection handshake step is DERIVED
  from the other side's current store (HonestClient: the proof verifies iff the counterparty store
  holds exactly the end the handler expects, under the counterparty's real prefix).  Everything else
  — application results, signers, client status, packet-proof verdicts, interleaving — is adversarial.
  Proofs are against the counterparty's CURRENT state; proofs of stale heights are not modelled.
-/
import IbcVerif.Lemmas.ChainPair
namespace IbcVerif.C12A
open IbcVerif IbcVerif.Chain

/-- If, after any interleaving of ops on the two chains, a channel end on A and a channel end on B
    are both OPEN and one of them names the other as its counterparty, then: each names the other
    (port and channel ids), they have the same ordering and the same version, each has exactly one
    connection hop, the two hop connections are OPEN and are each other's counterparty connections. -/
theorem both_open_agree (ops : List (Bool × Op)) (pa ca pb cb : Id) (ea eb : Channel)
    (ha : (prun World.init ops).a.chan.get (pa, ca) = some ea)
    (hb : (prun World.init ops).b.chan.get (pb, cb) = some eb)
    (hoa : ea.state = .opened) (hob : eb.state = .opened)
    (hname : (ea.cpPort = pb ∧ ea.cpChan = cb) ∨ (eb.cpPort = pa ∧ eb.cpChan = ca)) :
    ea.cpPort = pb ∧ ea.cpChan = cb ∧ eb.cpPort = pa ∧ eb.cpChan = ca ∧
    ea.ordering = eb.ordering ∧ ea.version = eb.version ∧
    ∃ hopA hopB connA connB, ea.hops = [hopA] ∧ eb.hops = [hopB] ∧
      (prun World.init ops).a.conn.get hopA = some connA ∧ (prun World.init ops).b.conn.get hopB = some connB ∧
      connA.state = .opened ∧ connB.state = .opened ∧ connA.cpConn = hopB ∧ connB.cpConn = hopA := by
  have hp := pinv_prun_init ops
  -- first establish that both name each other
  have hboth : (ea.cpPort = pb ∧ ea.cpChan = cb) ∧ (eb.cpPort = pa ∧ eb.cpChan = ca) := by
    rcases hname with ⟨h1, h2⟩ | ⟨h1, h2⟩
    · obtain ⟨b, _, _, hb', _, _, g2, g3, _⟩ := hp.ab.chan pa ca ea ha hoa
      rw [h1, h2, hb] at hb'; cases hb'
      exact ⟨⟨h1, h2⟩, g2, g3⟩
    · obtain ⟨b, _, _, hb', _, _, g2, g3, _⟩ := hp.ba.chan pb cb eb hb hob
      rw [h1, h2, ha] at hb'; cases hb'
      exact ⟨⟨g2, g3⟩, h1, h2⟩
  obtain ⟨⟨n1, n2⟩, n3, n4⟩ := hboth
  obtain ⟨b, hopA, connA, hb', _, g1, _, _, g4, g5, g6, g7, g8⟩ := hp.ab.chan pa ca ea ha hoa
  rw [n1, n2, hb] at hb'; cases hb'
  obtain ⟨a, hopB, connB, ha', _, _, _, _, _, k5, k6, k7, k8⟩ := hp.ba.chan pb cb eb hb hob
  rw [n3, n4, ha] at ha'; cases ha'
  have hB : hopB = connA.cpConn := by rw [g8] at k5; simpa using k5.symm
  have hA : hopA = connB.cpConn := by rw [k8] at g5; simpa using g5.symm
  refine ⟨n1, n2, n3, n4, g1.symm, g4.symm, hopA, hopB, connA, connB, ?_, ?_, g6, k6, g7, k7, hB.symm, hA.symm⟩
  · rw [k8, hA]
  · rw [g8, hB]

/-- A channel end becomes OPEN only by its own ChanOpenAck / ChanOpenConfirm, and at that moment the
    counterparty chain holds, under the counterparty port/channel ids the end now records, an end in
    state TRYOPEN (for ACK) resp. OPEN (for CONFIRM) with the same ordering and version, naming this
    end as its counterparty, whose single hop is the counterparty connection of this end's (OPEN)
    connection.  Holds from every world state (no reachability assumption needed). -/
theorem open_requires_counterparty_state (w : World) (side : Bool) (op : Op) (p c : Id) (e' : Channel)
    (he' : (chainOf (pstep w side op) side).chan.get (p, c) = some e') (ho' : e'.state = .opened)
    (hnew : ∀ e, (chainOf w side).chan.get (p, c) = some e → e.state ≠ .opened) :
    ChanOpenWitness (chainOf w side) (chainOf w (!side)) op.body p c e' := by
  cases side with
  | false =>
    simp only [chainOf, Chain.pstep, Bool.false_eq_true, if_false, Bool.not_false, if_true] at *
    exact chan_open_step (out := (sideStep w.a w.b op).2) rfl he' ho' hnew
  | true =>
    simp only [chainOf, Chain.pstep, if_true, Bool.not_true, Bool.false_eq_true, if_false] at *
    exact chan_open_step (out := (sideStep w.b w.a op).2) rfl he' ho' hnew

/-- ChanCloseConfirm succeeds only if the counterparty end is CLOSED at that moment (with matching
    ordering, version, counterparty ids and hop). -/
theorem close_confirm_requires_closed (w : World) (side : Bool) (env : Env) (p c : Id) (app : AppV1) (r : String)
    (h : (sideStep (chainOf w side) (chainOf w (!side)) ⟨env, .chanCloseConfirm p c app⟩).2 = .ok r) :
    ∃ ch b hop conn, (chainOf w side).chan.get (p, c) = some ch ∧
      (chainOf w (!side)).chan.get (ch.cpPort, ch.cpChan) = some b ∧ b.state = .closed ∧
      b.ordering = ch.ordering ∧ b.cpPort = p ∧ b.cpChan = c ∧ b.version = ch.version ∧
      ch.hops.head? = some hop ∧ (chainOf w side).conn.get hop = some conn ∧ b.hops = [conn.cpConn] :=
  close_confirm_step (X' := (sideStep (chainOf w side) (chainOf w (!side)) ⟨env, .chanCloseConfirm p c app⟩).1)
    (Prod.ext rfl h)

/-- the world invariant behind `both_open_agree` holds in every reachable world -/
theorem agreement_invariant (ops : List (Bool × Op)) : PInv (prun World.init ops) := pinv_prun_init ops

/-- non-vacuity of the HonestClient derivation: whatever the adversarial input says, the ChanOpenAck proof
    verifies when the counterparty holds the matching TRYOPEN end and fails when it holds an INIT end -/
example : honestV1 Ex.wInit Ex.wTry Ex.ackBody false = true ∧ honestV1 Ex.wInit Ex.wInit Ex.ackBody true = false := by
  decide

end IbcVerif.C12A
