/-
  C05 — Receipt only of proven, unaltered, unexpired counterparty packets.

  `Relay.recvV1` / `Relay.recvV2` (Model/Relay.lean) are the receive transactions of IBC v1 / v2 as
  functions of the facts the handlers read, guard by guard in the order of the code; the `world`
  engine (group `relay`) replays every generated receive attempt — valid messages and every
  single-field / random two-field mutation of them, at several channel / connection / client states,
  with real IAVL proofs at chosen heights — against the model on every run.  The proof enters as
  ground truth about the counterparty's store (`ProofFacts`), not as an opaque bit, so the theorems
  below speak about what the counterparty *really stored*.

  `H` is the hash (SHA-256 in the driver); binding statements are in collision-extraction form (C07)
  and use key injectivity (C16).

  The "a failed receive changes no state" half of the property is a statement about the chain state,
  not about the verdict: it is proved on the L3 chain model (Model/Chain.lean, `recv … ≠ success →
  state' = state`, chain cluster) and monitored here on the real chains (store diff of the IBC store
  and of the application store around every failed or NOOP transaction).
-/
import IbcVerif.Lemmas.Relay
import IbcVerif.Lemmas.Height
import IbcVerif.Props.C04
import IbcVerif.Props.C07
import IbcVerif.Props.C16
namespace IbcVerif.C05
open IbcVerif IbcVerif.Relay IbcVerif.Commit

variable (H : Bytes → Bytes)

/-- the destination channel end and its connection are OPEN and the packet comes from the channel's
    counterparty -/
def ChannelOpenFromCounterpartyV1 (f : RecvV1) (ch : ChanEnd) (cn : ConnEnd) : Prop :=
  f.chan = some ch ∧ f.conn = some cn ∧ ch.state = STATE_OPEN ∧ cn.state = STATE_OPEN ∧
  f.pkt.srcPort = ch.cpPort ∧ f.pkt.srcChan = ch.cpChan

/-- replay protection lets the packet through as a *new* packet -/
def FreshV1 (f : RecvV1) (ch : ChanEnd) : Prop :=
  ¬ f.pkt.seq.toNat < f.recvStart ∧
  ((ch.ordering = ORDER_UNORDERED ∧ f.receipt = false) ∨
   (ch.ordering = ORDER_ORDERED ∧ f.nextRecv = some f.pkt.seq.toNat))

/-- replay protection recognises the packet as already received -/
def AlreadyReceivedV1 (f : RecvV1) (ch : ChanEnd) : Prop :=
  ¬ f.pkt.seq.toNat < f.recvStart ∧
  ((ch.ordering = ORDER_UNORDERED ∧ f.receipt = true) ∨
   (ch.ordering = ORDER_ORDERED ∧ ∃ n, f.nextRecv = some n ∧ f.pkt.seq.toNat < n))

/-- everything a v1 receive checks before replay protection: a well-formed, correctly signed message
    for a routable port; channel and connection OPEN and the packet from their counterparty; the
    chain's own height and time strictly before the timeout; the client Active with a consensus state
    at the proof height and the delay periods passed; and the counterparty's store holding, at the
    proof height, exactly `CommitPacket(packet)` under exactly
    `PacketCommitmentKey(sourcePort, sourceChannel, sequence)` in the store the connection names as the
    counterparty's prefix -/
def ProvenUnexpiredV1 (f : RecvV1) (ch : ChanEnd) (cn : ConnEnd) : Prop :=
  f.proofEmpty = false ∧ f.env.signerOK = true ∧ f.pkt.basic = none ∧ f.env.sigOK = true ∧ f.route = true ∧
  ChannelOpenFromCounterpartyV1 f ch cn ∧
  f.pkt.timeout.elapsed f.env.self (UInt64.ofNat f.env.nowNs) = false ∧
  cn.cpPrefix ≠ [] ∧
  ClientReady f.env f.client f.proof cn.delay (Delay.getBlockDelay cn.delay f.maxTimePerBlock) ∧
  f.proof.proves (pathV1 cn.cpPrefix f.key) (commitV1 H f.pkt.committed) = true

/-- **v1 success.**  A receive transaction succeeds (receipt / nextSequenceRecv written, application
    called) exactly when the explicit conjunction holds. -/
theorem recv_v1_success_iff (f : RecvV1) :
    recvV1 H f = .ok ↔ ∃ ch cn, ProvenUnexpiredV1 H f ch cn ∧ FreshV1 f ch := by
  simp only [recvV1, replayV1, check_ok, need_ok, pass_ok, verifyV1_none_iff, Bool.not_eq_true',
    decide_eq_true_eq, decide_eq_false_iff_not, ProvenUnexpiredV1, ChannelOpenFromCounterpartyV1, FreshV1]
  constructor
  · rintro ⟨h1, h2, h3, h4, h5, ch, hch, h6, h7, h8, cn, hcn, h9, h10, ⟨h0, h11, h12⟩, h13, h14⟩
    refine ⟨ch, cn, ⟨h1, h2, h3, h4, h5, ⟨hch, hcn, h6, h9, h7, h8⟩, h10, h0, h11, h12⟩, h13, ?_⟩
    by_cases hu : ch.ordering = ORDER_UNORDERED
    · left
      simp only [hu, if_true] at h14
      refine ⟨hu, ?_⟩
      cases hr : f.receipt <;> simp_all
    · simp only [hu, if_false] at h14
      by_cases ho : ch.ordering = ORDER_ORDERED
      · right
        simp only [ho, if_true, need_ok] at h14
        obtain ⟨n, hn, hk⟩ := h14
        refine ⟨ho, ?_⟩
        by_cases hlt : f.pkt.seq.toNat < n
        · simp [hlt] at hk
        · simp only [hlt, if_false, check_ok, decide_eq_true_eq] at hk
          rw [hn, hk.1]
      · simp [ho] at h14
  · rintro ⟨ch, cn, ⟨h1, h2, h3, h4, h5, ⟨hch, hcn, h6, h9, h7, h8⟩, h10, h0, h11, h12⟩, h13, h14⟩
    refine ⟨h1, h2, h3, h4, h5, ch, hch, h6, h7, h8, cn, hcn, h9, h10, ⟨h0, h11, h12⟩, h13, ?_⟩
    rcases h14 with ⟨hu, hr⟩ | ⟨ho, hn⟩
    · simp [hu, hr]
    · have hne : ¬ (ORDER_ORDERED = ORDER_UNORDERED) := by decide
      simp [ho, hne, hn, need, check]

/-- **v1 NOOP.**  "Already received" is answered with a NOOP only for a message that would otherwise
    have been accepted — in particular only if its proof still verifies (replay protection runs after
    `VerifyPacketCommitment`). -/
theorem recv_v1_noop_iff (f : RecvV1) :
    recvV1 H f = .noop ↔ ∃ ch cn, ProvenUnexpiredV1 H f ch cn ∧ AlreadyReceivedV1 f ch := by
  simp only [recvV1, replayV1, check_noop, need_noop, pass_noop, verifyV1_none_iff, Bool.not_eq_true',
    decide_eq_true_eq, decide_eq_false_iff_not, ProvenUnexpiredV1, ChannelOpenFromCounterpartyV1, AlreadyReceivedV1]
  constructor
  · rintro ⟨h1, h2, h3, h4, h5, ch, hch, h6, h7, h8, cn, hcn, h9, h10, ⟨h0, h11, h12⟩, h13, h14⟩
    refine ⟨ch, cn, ⟨h1, h2, h3, h4, h5, ⟨hch, hcn, h6, h9, h7, h8⟩, h10, h0, h11, h12⟩, h13, ?_⟩
    by_cases hu : ch.ordering = ORDER_UNORDERED
    · left
      simp only [hu, if_true] at h14
      refine ⟨hu, ?_⟩
      cases hr : f.receipt <;> simp_all
    · simp only [hu, if_false] at h14
      by_cases ho : ch.ordering = ORDER_ORDERED
      · right
        simp only [ho, if_true, need_noop] at h14
        obtain ⟨n, hn, hk⟩ := h14
        refine ⟨ho, n, hn, ?_⟩
        by_cases hlt : f.pkt.seq.toNat < n
        · exact hlt
        · simp [hlt] at hk
      · simp [ho] at h14
  · rintro ⟨ch, cn, ⟨h1, h2, h3, h4, h5, ⟨hch, hcn, h6, h9, h7, h8⟩, h10, h0, h11, h12⟩, h13, h14⟩
    refine ⟨h1, h2, h3, h4, h5, ch, hch, h6, h7, h8, cn, hcn, h9, h10, ⟨h0, h11, h12⟩, h13, ?_⟩
    rcases h14 with ⟨hu, hr⟩ | ⟨ho, n, hn, hlt⟩
    · simp [hu, hr]
    · have hne : ¬ (ORDER_ORDERED = ORDER_UNORDERED) := by decide
      simp [ho, hne, hn, hlt, need]

/-- everything a v2 receive checks before the receipt lookup -/
def UnexpiredFromCounterpartyV2 (f : RecvV2) (cp : CpV2) : Prop :=
  f.proofEmpty = false ∧ f.env.signerOK = true ∧ f.pkt.basic = none ∧ f.env.sigOK = true ∧ f.relayerAllowed = true ∧
  f.cp = some cp ∧ cp.clientId = f.pkt.srcClient ∧
  nowSecs f.env < f.pkt.timeout.toNat

/-- **v2 success.**  Counterparty registered for the destination client and equal to the packet's source
    client, current time (seconds) strictly before the timeout, no receipt yet, client Active with a
    consensus state at the proof height, and the counterparty's store holding exactly
    `CommitPacket(packet)` under `PacketCommitmentKey(sourceClient, sequence)` behind the registered
    merkle prefix. -/
theorem recv_v2_success_iff (f : RecvV2) :
    recvV2 H f = .ok ↔ ∃ cp,
      UnexpiredFromCounterpartyV2 f cp ∧ f.receipt = false ∧ ClientReady f.env f.client f.proof 0 0 ∧
      f.proof.proves (pathV2 cp.pre f.key) (commitV2 H f.pkt.committed) = true := by
  simp only [recvV2, check_ok, need_ok, pass_ok, Bool.not_eq_true', decide_eq_true_eq, UnexpiredFromCounterpartyV2]
  constructor
  · rintro ⟨h1, h2, h3, h4, h5, cp, hcp, h6, h7, h8⟩
    cases hr : f.receipt
    · simp only [hr, Bool.false_eq_true, if_false, pass_ok, verifyMembership_none_iff, and_true] at h8
      exact ⟨cp, ⟨h1, h2, h3, h4, h5, hcp, h6, h7⟩, rfl, h8⟩
    · simp [hr] at h8
  · rintro ⟨cp, ⟨h1, h2, h3, h4, h5, hcp, h6, h7⟩, hr, h8, h9⟩
    exact ⟨h1, h2, h3, h4, h5, cp, hcp, h6, h7, by simp [hr, (verifyMembership_none_iff _ _ _ _ _ _ _).mpr ⟨h8, h9⟩]⟩

/-- **v2 NOOP.**  In v2 the receipt lookup comes *before* proof verification: an already received
    packet is answered NOOP for any (even unverifiable) proof, as long as the message is well-formed,
    from the registered counterparty and unexpired.  (No state is written and no callback runs.) -/
theorem recv_v2_noop_iff (f : RecvV2) :
    recvV2 H f = .noop ↔ ∃ cp, UnexpiredFromCounterpartyV2 f cp ∧ f.receipt = true := by
  simp only [recvV2, check_noop, need_noop, pass_noop, Bool.not_eq_true', decide_eq_true_eq, UnexpiredFromCounterpartyV2]
  constructor
  · rintro ⟨h1, h2, h3, h4, h5, cp, hcp, h6, h7, h8⟩
    cases hr : f.receipt
    · simp [hr] at h8
    · exact ⟨cp, ⟨h1, h2, h3, h4, h5, hcp, h6, h7⟩, rfl⟩
  · rintro ⟨cp, ⟨h1, h2, h3, h4, h5, hcp, h6, h7⟩, hr⟩
    exact ⟨h1, h2, h3, h4, h5, cp, hcp, h6, h7, by simp [hr]⟩

/-- **unexpired (v1).**  A received packet's timeout height (if set) is strictly above the chain's own
    height and its timeout timestamp (if set) strictly after the chain's own block time. -/
theorem recv_v1_unexpired (f : RecvV1) (h : recvV1 H f = .ok) :
    (f.pkt.timeout.height.isZero = true ∨
      ¬ (f.env.self.rev.toNat > f.pkt.timeout.height.rev.toNat ∨
         (f.env.self.rev.toNat = f.pkt.timeout.height.rev.toNat ∧ f.env.self.h.toNat ≥ f.pkt.timeout.height.h.toNat))) ∧
    (f.pkt.timeout.ts = 0 ∨ (UInt64.ofNat f.env.nowNs) < f.pkt.timeout.ts) := by
  obtain ⟨ch, cn, hp, _⟩ := (recv_v1_success_iff H f).mp h
  have he := hp.2.2.2.2.2.2.1
  simp only [Timeout.elapsed, Timeout.heightElapsed, Timeout.timestampElapsed, Bool.or_eq_false_iff,
    Bool.and_eq_false_iff, Bool.not_eq_false', bne_eq_false_iff_eq, decide_eq_false_iff_not] at he
  refine ⟨?_, ?_⟩
  · rcases he.1 with hz | hg
    · exact Or.inl hz
    · right
      rw [← Height.gte_iff]
      simp [hg]
  · rcases he.2 with hz | hg
    · exact Or.inl hz
    · exact Or.inr (by simpa [UInt64.not_le] using hg)

/-- **what a successful v1 receive proves.**  The counterparty's store (the one the connection names),
    at the proof height, holds under *exactly* `PacketCommitmentKey(sourcePort, sourceChannel, sequence)`
    *exactly* `CommitPacket(packet)`, read from an uncorrupted proof built for that height. -/
theorem recv_v1_proven (f : RecvV1) (h : recvV1 H f = .ok) :
    f.proof.intact = true ∧ f.proof.builtAt = f.proof.height ∧
    (∃ cn, f.conn = some cn ∧ f.proof.store = cn.cpPrefix) ∧
    f.proof.readKey = Keys.v1Key .commitment f.pkt.srcPort f.pkt.srcChan f.pkt.seq.toNat ∧
    f.proof.provenValue = some (commitV1 H f.pkt.committed) := by
  obtain ⟨ch, cn, hp, _⟩ := (recv_v1_success_iff H f).mp h
  obtain ⟨a, b, c, d, e⟩ := (proves_v1_iff _ _ _ _).mp hp.2.2.2.2.2.2.2.2.2
  exact ⟨a, b, ⟨cn, hp.2.2.2.2.2.1.2.1, c⟩, d, e⟩

/-- **what a successful v2 receive proves**: with `l` the last element of the registered counterparty
    merkle prefix (empty in practice), the store holds `CommitPacket(packet)` under
    `l ++ PacketCommitmentKey(sourceClient, sequence)`. -/
theorem recv_v2_proven (f : RecvV2) (h : recvV2 H f = .ok) :
    f.proof.intact = true ∧ f.proof.builtAt = f.proof.height ∧
    (∃ cp l, f.cp = some cp ∧ cp.pre.getLast? = some l ∧
      f.proof.readKey = l ++ Keys.v2Key .commitment f.pkt.srcClient f.pkt.seq.toNat) ∧
    f.proof.provenValue = some (commitV2 H f.pkt.committed) := by
  obtain ⟨cp, hu, _, _, hp⟩ := (recv_v2_success_iff H f).mp h
  obtain ⟨a, b, c, d⟩ := (proves_iff _ _ _).mp hp
  obtain ⟨l, hl, hk⟩ := pathV2_key _ _ _ _ c
  exact ⟨a, b, ⟨cp, l, hu.2.2.2.2.2.1, hl, hk⟩, d⟩

variable (hlen : ∀ b, (H b).length = 32)
include hlen

/-- **recv_binds_packet (v1).**  Suppose the entry the proof was built from was written by the
    counterparty for *some* packet: stored under `PacketCommitmentKey(sp, sc, n)` with value
    `CommitPacket` of fields `q` (that is what `SendPacket` writes).  If the receive succeeds, then the
    received packet has exactly that source port, source channel and sequence (C16) and exactly that
    data, timeout height and timeout timestamp (C07) — or an explicit SHA-256 collision exists.
    Hence changing any of data, timeout, sequence or source identifiers of a receive message makes it
    fail unless the counterparty committed exactly the changed packet. -/
theorem recv_binds_packet_v1 (f : RecvV1) (h : recvV1 H f = .ok)
    (sp sc : Bytes) (n : Nat) (q : PacketV1) (hsp : Keys.IdOK sp) (hsc : Keys.IdOK sc) (hq : q.WF)
    (hkey : f.proof.readKey = Keys.v1Key .commitment sp sc n)
    (hval : f.proof.provenValue = some (commitV1 H q)) :
    (f.pkt.srcPort = sp ∧ f.pkt.srcChan = sc ∧ f.pkt.seq.toNat = n ∧ f.pkt.committed = q) ∨ Collision H := by
  obtain ⟨_, _, _, hk, hv⟩ := recv_v1_proven H f h
  obtain ⟨ch, cn, hp, _⟩ := (recv_v1_success_iff H f).mp h
  obtain ⟨i1, _, i3, _, _⟩ := pktV1_basic_none _ hp.2.2.1
  rw [hkey] at hk
  rw [hval] at hv
  obtain ⟨_, e1, e2, e3⟩ := C16.v1_keys_injective _ _ _ _ _ _ _ _ hsp hsc i1 i3 hk
  rcases C07.v1_commitment_binds H hlen _ _ hq (committedV1_WF _) (Option.some.inj hv) with e | c
  · exact Or.inl ⟨e1.symm, e2.symm, (e3 rfl).symm, e.symm⟩
  · exact Or.inr c

/-- **one proof, one packet (v1).**  Two receive messages carrying the same proof (same bytes, hence the
    same ground truth) cannot both succeed unless they agree on source port, source channel, sequence,
    data and timeout — whatever the chain state each of them meets. -/
theorem recv_v1_same_proof_same_packet (f g : RecvV1) (hp : f.proof = g.proof)
    (hf : recvV1 H f = .ok) (hg : recvV1 H g = .ok) :
    (f.pkt.srcPort = g.pkt.srcPort ∧ f.pkt.srcChan = g.pkt.srcChan ∧ f.pkt.seq = g.pkt.seq ∧
      f.pkt.data = g.pkt.data ∧ f.pkt.timeout = g.pkt.timeout) ∨ Collision H := by
  obtain ⟨_, _, _, hk, hv⟩ := recv_v1_proven H g hg
  obtain ⟨ch, cn, hpg, _⟩ := (recv_v1_success_iff H g).mp hg
  obtain ⟨i1, _, i3, _, _⟩ := pktV1_basic_none _ hpg.2.2.1
  rcases recv_binds_packet_v1 H hlen f hf g.pkt.srcPort g.pkt.srcChan g.pkt.seq.toNat g.pkt.committed i1 i3
    (committedV1_WF _) (hp ▸ hk) (hp ▸ hv) with ⟨e1, e2, e3, e4⟩ | c
  · obtain ⟨e5, e6⟩ := committedV1_inj _ _ e4
    exact Or.inl ⟨e1, e2, UInt64.toNat_inj.mp e3, e5, e6⟩
  · exact Or.inr c

/-- **recv_binds_packet (v2).**  If the entry the proof was built from was written by the counterparty
    under `PacketCommitmentKey(sc, n)` (behind the same prefix element `l`) with value `CommitPacket` of
    (destination client, timeout, payload list) `q`, a successful receive has exactly that source client
    and sequence (C16) and exactly that destination client, timeout and *whole ordered payload list*
    (C07), or a collision. -/
theorem recv_binds_packet_v2 (f : RecvV2) (h : recvV2 H f = .ok)
    (cp : CpV2) (l : Bytes) (hcp : f.cp = some cp) (hl : cp.pre.getLast? = some l)
    (sc : Bytes) (n : Nat) (q : PacketV2) (hn : n < 2^64) (hq : q.timeoutTs < 2^64)
    (hkey : f.proof.readKey = l ++ Keys.v2Key .commitment sc n)
    (hval : f.proof.provenValue = some (commitV2 H q)) :
    (f.pkt.srcClient = sc ∧ f.pkt.seq.toNat = n ∧ f.pkt.committed = q) ∨ Collision H := by
  obtain ⟨_, _, ⟨cp', l', hcp', hl', hk⟩, hv⟩ := recv_v2_proven H f h
  rw [hcp] at hcp'
  cases hcp'
  rw [hl] at hl'
  cases hl'
  rw [hkey] at hk
  rw [hval] at hv
  obtain ⟨_, e1, e2⟩ := C16.v2_keys_injective _ _ _ _ _ _ hn (UInt64.toNat_lt _) (List.append_cancel_left hk)
  rcases C07.v2_commitment_binds H hlen _ _ hq (UInt64.toNat_lt _) (Option.some.inj hv) with e | c
  · exact Or.inl ⟨e1.symm, e2.symm, e.symm⟩
  · exact Or.inr c

/-- **one proof, one packet (v2).**  Two receive messages carrying the same proof and meeting the same
    counterparty registration cannot both succeed unless they agree on every field. -/
theorem recv_v2_same_proof_same_packet (f g : RecvV2) (hp : f.proof = g.proof) (hc : f.cp = g.cp)
    (hf : recvV2 H f = .ok) (hg : recvV2 H g = .ok) :
    (f.pkt.srcClient = g.pkt.srcClient ∧ f.pkt.seq = g.pkt.seq ∧ f.pkt.dstClient = g.pkt.dstClient ∧
      f.pkt.timeout = g.pkt.timeout ∧ f.pkt.payloads = g.pkt.payloads) ∨ Collision H := by
  obtain ⟨_, _, ⟨cp, l, hcp, hl, hk⟩, hv⟩ := recv_v2_proven H g hg
  rcases recv_binds_packet_v2 H hlen f hf cp l (hc ▸ hcp) hl g.pkt.srcClient g.pkt.seq.toNat g.pkt.committed
    (UInt64.toNat_lt _) (UInt64.toNat_lt _) (hp ▸ hk) (hp ▸ hv) with ⟨e1, e2, e3⟩ | c
  · obtain ⟨e4, e5, e6⟩ := committedV2_inj _ _ e3
    exact Or.inl ⟨e1, UInt64.toNat_inj.mp e2, e4, e5, e6⟩
  · exact Or.inr c

omit hlen in
/-- **mutants fail.**  Take any receive message whose proof is honest for packet `q` sent on
    (`sp`, `sc`, `n`) — and alter the message (any fields, any chain state) so that its source
    identifiers, sequence, data or timeout differ from what was committed.  Unless SHA-256 collides,
    the altered message is not received: the verdict is an error (never `ok`, never `noop`). -/
theorem recv_v1_mutant_rejected (hlen : ∀ b, (H b).length = 32) (hnc : ¬ Collision H) (f : RecvV1)
    (sp sc : Bytes) (n : Nat) (q : PacketV1) (hsp : Keys.IdOK sp) (hsc : Keys.IdOK sc) (hq : q.WF)
    (hkey : f.proof.readKey = Keys.v1Key .commitment sp sc n)
    (hval : f.proof.provenValue = some (commitV1 H q))
    (hmut : ¬ (f.pkt.srcPort = sp ∧ f.pkt.srcChan = sc ∧ f.pkt.seq.toNat = n ∧ f.pkt.committed = q)) :
    ∃ e, recvV1 H f = .err e := by
  cases hv : recvV1 H f with
  | err e => exact ⟨e, rfl⟩
  | ok =>
    rcases recv_binds_packet_v1 H hlen f hv sp sc n q hsp hsc hq hkey hval with e | c
    · exact absurd e hmut
    · exact absurd c hnc
  | noop =>
    obtain ⟨ch, cn, hp, _⟩ := (recv_v1_noop_iff H f).mp hv
    obtain ⟨i1, _, i3, _, _⟩ := pktV1_basic_none _ hp.2.2.1
    obtain ⟨_, _, _, hk, hv'⟩ := (proves_v1_iff _ _ _ _).mp hp.2.2.2.2.2.2.2.2.2
    rw [hkey] at hk
    rw [hval] at hv'
    obtain ⟨_, e1, e2, e3⟩ := C16.v1_keys_injective _ _ _ _ _ _ _ _ hsp hsc i1 i3 hk
    rcases C07.v1_commitment_binds H hlen _ _ hq (committedV1_WF _) (Option.some.inj hv') with e | c
    · exact absurd ⟨e1.symm, e2.symm, (e3 rfl).symm, e.symm⟩ hmut
    · exact absurd c hnc

omit hlen in
/-- **the timeout guard is the one of C04.**  The guard the receive handler evaluates is exactly
    `World.recvGuardV1` / `World.recvGuardV2`, the receive-side guards of the two-chain timeout theorems
    (C04: a packet that passes this guard in some block can never be timed out on the sender, and vice
    versa) — so "unexpired" here and "never both received and timed out" there speak about the same check. -/
theorem recv_v1_guard_is_world_guard (f : RecvV1) (hnow : f.env.nowNs < 2^64) :
    (!f.pkt.timeout.elapsed f.env.self (UInt64.ofNat f.env.nowNs)) =
      World.recvGuardV1 (fun _ => f.env.nowNs)
        ⟨f.pkt.timeout.height.rev.toNat, f.pkt.timeout.height.h.toNat, f.pkt.timeout.ts.toNat⟩
        f.env.self.rev.toNat f.env.self.h.toNat := by
  have h := C04.elapsedNat_eq f.pkt.timeout.height f.pkt.timeout.ts f.env.self (UInt64.ofNat f.env.nowNs)
  have hn : (UInt64.ofNat f.env.nowNs).toNat = f.env.nowNs := by
    rw [UInt64.toNat_ofNat']
    exact Nat.mod_eq_of_lt hnow
  rw [hn] at h
  unfold World.recvGuardV1
  rw [← h]

omit hlen in
theorem recv_v2_guard_is_world_guard (f : RecvV2) :
    decide (nowSecs f.env < f.pkt.timeout.toNat) = World.recvGuardV2 (fun _ => f.env.nowNs) f.pkt.timeout.toNat 0 := rfl

omit hlen in
/-- **unexpired (v2).**  A received v2 packet's timeout (seconds) is strictly after the chain's own block
    time in whole seconds. -/
theorem recv_v2_unexpired (f : RecvV2) (h : recvV2 H f = .ok) : f.env.nowNs / 1000000000 < f.pkt.timeout.toNat := by
  obtain ⟨cp, hu, _⟩ := (recv_v2_success_iff H f).mp h
  exact hu.2.2.2.2.2.2.2

omit hlen in
/-- **mutants fail (v2).**  If the proof is honest for the packet `q` sent from client `sc` with sequence
    `n` and the message differs from that in source client, sequence, destination client, timeout or
    anywhere in the payload list, it is not received (never `ok`) unless SHA-256 collides.  (Once the
    packet *has* been received, v2 answers NOOP without looking at the proof — nothing is written.) -/
theorem recv_v2_mutant_not_received (hlen : ∀ b, (H b).length = 32) (hnc : ¬ Collision H) (f : RecvV2)
    (cp : CpV2) (l : Bytes) (hcp : f.cp = some cp) (hl : cp.pre.getLast? = some l)
    (sc : Bytes) (n : Nat) (q : PacketV2) (hn : n < 2^64) (hq : q.timeoutTs < 2^64)
    (hkey : f.proof.readKey = l ++ Keys.v2Key .commitment sc n)
    (hval : f.proof.provenValue = some (commitV2 H q))
    (hmut : ¬ (f.pkt.srcClient = sc ∧ f.pkt.seq.toNat = n ∧ f.pkt.committed = q)) :
    recvV2 H f ≠ .ok := by
  intro h
  rcases recv_binds_packet_v2 H hlen f h cp l hcp hl sc n q hn hq hkey hval with e | c
  · exact hmut e
  · exact hnc c

omit hlen in
/-- non-vacuity: a concrete UNORDERED receive that succeeds, the same message when the receipt exists
    (NOOP), the same message with one data byte changed against the same proof (rejected by the
    proof), and the same message once the chain has reached the timeout height (rejected as expired) -/
example :
    let mock := strBytes "mock".toList
    let c0 := strBytes "channel-0".toList
    let c1 := strBytes "channel-1".toList
    let pkt : PktV1 := ⟨1, mock, c0, mock, c1, [1, 2, 3], ⟨⟨1, 100⟩, 0⟩⟩
    let S : Bytes → Bytes := fun b => (b ++ List.replicate 32 0).take 32   -- a toy 32-byte "hash"
    let ibc := strBytes "ibc".toList
    let prf : ProofFacts := ⟨⟨1, 55⟩, ⟨1, 55⟩, true, ibc, Keys.v1Key .commitment mock c0 1, some (commitV1 S pkt.committed)⟩
    let cl : ClientFacts := ⟨true, ⟨1, 60⟩, none, none, true, true⟩
    let f : Bool → PktV1 → Height → RecvV1 := fun rc p self =>
      ⟨p, false, ⟨true, true, self, 1000⟩, true, some ⟨3, 1, mock, c0⟩, some ⟨3, 0, ibc⟩, cl, prf, 30000000000, 0, rc, none⟩
    recvV1 S (f false pkt ⟨1, 50⟩) = .ok ∧ recvV1 S (f true pkt ⟨1, 50⟩) = .noop ∧
      recvV1 S (f false { pkt with data := [1, 2, 4] } ⟨1, 50⟩) = .err .proof ∧
      recvV1 S (f false pkt ⟨1, 100⟩) = .err .timeout := by
  decide

end IbcVerif.C05
