/-
  C06 — Acknowledgements are processed only if proven for that exact packet.

  `Relay.ackV1` / `Relay.ackV2` (Model/Relay.lean) are the acknowledgement transactions of IBC v1 / v2
  as functions of the facts the handlers read, guard by guard in the order of the code; the `world`
  engine (group `relay`) replays every generated acknowledgement attempt (valid messages and every
  single-field / random two-field mutation: ack bytes, app-ack list reordered / truncated / extended,
  packet fields, sequence, proof bytes, proof key, proof height, signer) against the model on every run.
  The proof enters as ground truth about the counterparty's store (`ProofFacts`).

  "Processed" = verdict `ok`: the commitment is deleted and `OnAcknowledgementPacket` runs with the
  message's acknowledgement.  `noop` processes nothing (no write, no callback).

  The "a rejected acknowledgement changes no state" half is proved on the L3 chain model
  (Model/Chain.lean, chain cluster) and monitored here on the real chains (store diff around every
  failed or NOOP transaction, and the argument of every `OnAcknowledgementPacket` invocation compared
  with what the destination wrote).
-/
import IbcVerif.Lemmas.Relay
import IbcVerif.Props.C07
import IbcVerif.Props.C16
namespace IbcVerif.C06
open IbcVerif IbcVerif.Relay IbcVerif.Commit

variable (H : Bytes → Bytes)

/-- everything a v1 acknowledgement checks before it looks at the stored commitment: well-formed,
    correctly signed message for a routable port; the *source* channel end and its connection OPEN;
    the packet's destination is the channel's counterparty -/
def ChannelOpenToCounterpartyV1 (f : AckV1) (ch : ChanEnd) (cn : ConnEnd) : Prop :=
  f.proofEmpty = false ∧ f.ack ≠ [] ∧ f.env.signerOK = true ∧ f.pkt.basic = none ∧ f.env.sigOK = true ∧ f.route = true ∧
  f.chan = some ch ∧ f.conn = some cn ∧ ch.state = STATE_OPEN ∧ cn.state = STATE_OPEN ∧
  f.pkt.dstPort = ch.cpPort ∧ f.pkt.dstChan = ch.cpChan

/-- **v1 success.**  An acknowledgement is processed exactly when: the channel conditions hold; the
    sender still stores a commitment for (source port, source channel, sequence) and it equals
    `CommitPacket(packet)`; the bytes are in canonical form when they parse as a channel
    acknowledgement; the client is Active with a consensus state at the proof height and the delay
    passed; the counterparty's store holds exactly `CommitAcknowledgement(bytes)` under exactly
    `PacketAcknowledgementKey(destPort, destChannel, sequence)`; and, on ORDERED channels, the
    sequence is `nextSequenceAck`. -/
theorem ack_v1_success_iff (f : AckV1) :
    ackV1 H f = .ok ↔ ∃ ch cn, ChannelOpenToCounterpartyV1 f ch cn ∧
      f.commitment ≠ [] ∧ f.ackCanonical = true ∧ f.commitment = commitV1 H f.pkt.committed ∧
      cn.cpPrefix ≠ [] ∧
      ClientReady f.env f.client f.proof cn.delay (Delay.getBlockDelay cn.delay f.maxTimePerBlock) ∧
      f.proof.proves (pathV1 cn.cpPrefix f.key) (commitAckV1 H f.ack) = true ∧
      (ch.ordering = ORDER_ORDERED → f.nextAck = some f.pkt.seq.toNat) := by
  simp only [ackV1, check_ok, need_ok, pass_ok, Bool.not_eq_true', decide_eq_true_eq, ChannelOpenToCounterpartyV1,
    List.isEmpty_eq_false_iff, ne_eq]
  constructor
  · rintro ⟨h1, h2, h3, h4, h5, h6, ch, hch, h7, h8, h9, cn, hcn, h10, h11⟩
    refine ⟨ch, cn, ⟨h1, h2, h3, h4, h5, h6, hch, hcn, h7, h10, h8, h9⟩, ?_⟩
    by_cases he : f.commitment = []
    · simp [he] at h11
    · have he' : f.commitment.isEmpty = false := by simpa using he
      simp only [he', Bool.false_eq_true, if_false, check_ok, pass_ok, verifyV1_none_iff, decide_eq_true_eq] at h11
      obtain ⟨h12, h13, ⟨h0, h14, h15⟩, h16⟩ := h11
      refine ⟨he, h12, h13, h0, h14, h15, ?_⟩
      intro ho
      simp only [ho, if_true, need_ok, check_ok, decide_eq_true_eq, and_true] at h16
      obtain ⟨n, hn, hk⟩ := h16
      rw [hn, hk]
  · rintro ⟨ch, cn, ⟨h1, h2, h3, h4, h5, h6, hch, hcn, h7, h10, h8, h9⟩, he, h12, h13, h0, h14, h15, h16⟩
    refine ⟨h1, h2, h3, h4, h5, h6, ch, hch, h7, h8, h9, cn, hcn, h10, ?_⟩
    have he' : f.commitment.isEmpty = false := by simpa using he
    simp only [he', Bool.false_eq_true, if_false, check_ok, pass_ok, verifyV1_none_iff, decide_eq_true_eq]
    refine ⟨h12, h13, ⟨h0, h14, h15⟩, ?_⟩
    by_cases ho : ch.ordering = ORDER_ORDERED
    · simp [ho, h16 ho, need, check]
    · simp [ho]

/-- **v1 NOOP.**  No stored commitment (already acknowledged, timed out, or never sent) is answered
    NOOP *without looking at the proof* (the code returns before `VerifyPacketAcknowledgement`);
    nothing is written and the application is not called. -/
theorem ack_v1_noop_iff (f : AckV1) :
    ackV1 H f = .noop ↔ ∃ ch cn, ChannelOpenToCounterpartyV1 f ch cn ∧ f.commitment = [] := by
  simp only [ackV1, check_noop, need_noop, pass_noop, Bool.not_eq_true', decide_eq_true_eq, ChannelOpenToCounterpartyV1,
    List.isEmpty_eq_false_iff, ne_eq]
  constructor
  · rintro ⟨h1, h2, h3, h4, h5, h6, ch, hch, h7, h8, h9, cn, hcn, h10, h11⟩
    refine ⟨ch, cn, ⟨h1, h2, h3, h4, h5, h6, hch, hcn, h7, h10, h8, h9⟩, ?_⟩
    by_cases he : f.commitment = []
    · exact he
    · have he' : f.commitment.isEmpty = false := by simpa using he
      simp only [he', Bool.false_eq_true, if_false, check_noop, pass_noop] at h11
      obtain ⟨_, _, _, h16⟩ := h11
      by_cases ho : ch.ordering = ORDER_ORDERED
      · simp [ho, need_noop] at h16
      · simp [ho] at h16
  · rintro ⟨ch, cn, ⟨h1, h2, h3, h4, h5, h6, hch, hcn, h7, h10, h8, h9⟩, he⟩
    exact ⟨h1, h2, h3, h4, h5, h6, ch, hch, h7, h8, h9, cn, hcn, h10, by simp [he]⟩

/-- everything a v2 acknowledgement checks before it looks at the stored commitment -/
def FromRegisteredCounterpartyV2 (f : AckV2) (cp : CpV2) : Prop :=
  f.proofEmpty = false ∧ ackV2Valid H f.acks = true ∧ f.env.signerOK = true ∧ f.pkt.basic = none ∧
  f.env.sigOK = true ∧ f.relayerAllowed = true ∧
  f.cp = some cp ∧ cp.clientId = f.pkt.dstClient

/-- **v2 success.**  Counterparty registered for the *source* client and equal to the packet's
    destination client; the stored commitment for (source client, sequence) equals `CommitPacket(packet)`;
    client Active with a consensus state at the proof height; the counterparty's store holds exactly
    `CommitAcknowledgement(appAcks)` under `PacketAcknowledgementKey(destClient, sequence)` behind the
    registered merkle prefix. -/
theorem ack_v2_success_iff (f : AckV2) :
    ackV2 H f = .ok ↔ ∃ cp, FromRegisteredCounterpartyV2 H f cp ∧
      f.commitment ≠ [] ∧ f.commitment = commitV2 H f.pkt.committed ∧
      ClientReady f.env f.client f.proof 0 0 ∧
      f.proof.proves (pathV2 cp.pre f.key) (commitAckV2 H f.acks) = true := by
  simp only [ackV2, check_ok, need_ok, pass_ok, Bool.not_eq_true', decide_eq_true_eq, FromRegisteredCounterpartyV2, ne_eq]
  constructor
  · rintro ⟨h1, h2, h3, h4, h5, h6, cp, hcp, h7, h8⟩
    refine ⟨cp, ⟨h1, h2, h3, h4, h5, h6, hcp, h7⟩, ?_⟩
    by_cases he : f.commitment = []
    · simp [he] at h8
    · have he' : f.commitment.isEmpty = false := by simpa using he
      simp only [he', Bool.false_eq_true, if_false, check_ok, pass_ok, verifyMembership_none_iff, decide_eq_true_eq, and_true] at h8
      exact ⟨he, h8.1, h8.2.1, h8.2.2⟩
  · rintro ⟨cp, ⟨h1, h2, h3, h4, h5, h6, hcp, h7⟩, he, h8, h9, h10⟩
    refine ⟨h1, h2, h3, h4, h5, h6, cp, hcp, h7, ?_⟩
    have he' : f.commitment.isEmpty = false := by simpa using he
    simp only [he', Bool.false_eq_true, if_false, check_ok, pass_ok, verifyMembership_none_iff, decide_eq_true_eq, and_true]
    exact ⟨h8, h9, h10⟩

/-- **v2 NOOP**: no stored commitment, answered before the proof is looked at. -/
theorem ack_v2_noop_iff (f : AckV2) :
    ackV2 H f = .noop ↔ ∃ cp, FromRegisteredCounterpartyV2 H f cp ∧ f.commitment = [] := by
  simp only [ackV2, check_noop, need_noop, pass_noop, Bool.not_eq_true', decide_eq_true_eq, FromRegisteredCounterpartyV2]
  constructor
  · rintro ⟨h1, h2, h3, h4, h5, h6, cp, hcp, h7, h8⟩
    refine ⟨cp, ⟨h1, h2, h3, h4, h5, h6, hcp, h7⟩, ?_⟩
    by_cases he : f.commitment = []
    · exact he
    · have he' : f.commitment.isEmpty = false := by simpa using he
      simp [he'] at h8
  · rintro ⟨cp, ⟨h1, h2, h3, h4, h5, h6, hcp, h7⟩, he⟩
    exact ⟨h1, h2, h3, h4, h5, h6, cp, hcp, h7, by simp [he]⟩

/-- **what a processed v1 acknowledgement proves.**  The sender's stored commitment is
    `CommitPacket(packet)`, and the counterparty's store holds under *exactly*
    `PacketAcknowledgementKey(destPort, destChannel, sequence)` *exactly*
    `CommitAcknowledgement(ack bytes)`, read from an uncorrupted proof built for the proof height. -/
theorem ack_v1_proven (f : AckV1) (h : ackV1 H f = .ok) :
    f.commitment = commitV1 H f.pkt.committed ∧
    f.proof.intact = true ∧ f.proof.builtAt = f.proof.height ∧
    (∃ cn, f.conn = some cn ∧ f.proof.store = cn.cpPrefix) ∧
    f.proof.readKey = Keys.v1Key .ack f.pkt.dstPort f.pkt.dstChan f.pkt.seq.toNat ∧
    f.proof.provenValue = some (commitAckV1 H f.ack) := by
  obtain ⟨ch, cn, hb, _, _, hc, _, _, hp, _⟩ := (ack_v1_success_iff H f).mp h
  obtain ⟨a, b, c, d, e⟩ := (proves_v1_iff _ _ _ _).mp hp
  exact ⟨hc, a, b, ⟨cn, hb.2.2.2.2.2.2.2.1, c⟩, d, e⟩

theorem ack_v2_proven (f : AckV2) (h : ackV2 H f = .ok) :
    f.commitment = commitV2 H f.pkt.committed ∧
    f.proof.intact = true ∧ f.proof.builtAt = f.proof.height ∧
    (∃ cp l, f.cp = some cp ∧ cp.pre.getLast? = some l ∧
      f.proof.readKey = l ++ Keys.v2Key .ack f.pkt.dstClient f.pkt.seq.toNat) ∧
    f.proof.provenValue = some (commitAckV2 H f.acks) := by
  obtain ⟨cp, hb, _, hc, _, hp⟩ := (ack_v2_success_iff H f).mp h
  obtain ⟨a, b, c, d⟩ := (proves_iff _ _ _).mp hp
  obtain ⟨l, hl, hk⟩ := pathV2_key _ _ _ _ c
  exact ⟨hc, a, b, ⟨cp, l, hb.2.2.2.2.2.2.1, hl, hk⟩, d⟩

/-- **ack_binds (v1).**  If the entry the proof was built from was written by the counterparty as the
    acknowledgement `a` of the packet received on (`dp`, `dc`) with sequence `n`
    (`WriteAcknowledgement` stores `CommitAcknowledgement(a)` under `PacketAcknowledgementKey(dp, dc, n)`),
    then a processed acknowledgement message names exactly that destination port, destination channel
    and sequence (C16) and carries exactly the bytes `a` (C07) — or an explicit collision exists. -/
theorem ack_binds_v1 (f : AckV1) (h : ackV1 H f = .ok)
    (dp dc : Bytes) (n : Nat) (a : Bytes) (hdp : Keys.IdOK dp) (hdc : Keys.IdOK dc)
    (hkey : f.proof.readKey = Keys.v1Key .ack dp dc n)
    (hval : f.proof.provenValue = some (commitAckV1 H a)) :
    (f.pkt.dstPort = dp ∧ f.pkt.dstChan = dc ∧ f.pkt.seq.toNat = n ∧ f.ack = a) ∨ Collision H := by
  obtain ⟨_, _, _, _, hk, hv⟩ := ack_v1_proven H f h
  obtain ⟨ch, cn, hb, _⟩ := (ack_v1_success_iff H f).mp h
  obtain ⟨_, i2, _, i4, _⟩ := pktV1_basic_none _ hb.2.2.2.1
  rw [hkey] at hk
  rw [hval] at hv
  obtain ⟨_, e1, e2, e3⟩ := C16.v1_keys_injective _ _ _ _ _ _ _ _ hdp hdc i2 i4 hk
  rcases C07.v1_ack_binds H _ _ (Option.some.inj hv) with e | c
  · exact Or.inl ⟨e1.symm, e2.symm, (e3 rfl).symm, e.symm⟩
  · exact Or.inr c

/-- **ack_binds (v2).**  Same for v2: destination client and sequence (C16), and the *ordered list* of
    application acknowledgements — length, order and every element (C07). -/
theorem ack_binds_v2 (hlen : ∀ b, (H b).length = 32) (f : AckV2) (h : ackV2 H f = .ok)
    (cp : CpV2) (l : Bytes) (hcp : f.cp = some cp) (hl : cp.pre.getLast? = some l)
    (dc : Bytes) (n : Nat) (as : List Bytes) (hn : n < 2^64)
    (hkey : f.proof.readKey = l ++ Keys.v2Key .ack dc n)
    (hval : f.proof.provenValue = some (commitAckV2 H as)) :
    (f.pkt.dstClient = dc ∧ f.pkt.seq.toNat = n ∧ f.acks = as) ∨ Collision H := by
  obtain ⟨_, _, _, ⟨cp', l', hcp', hl', hk⟩, hv⟩ := ack_v2_proven H f h
  rw [hcp] at hcp'
  cases hcp'
  rw [hl] at hl'
  cases hl'
  rw [hkey] at hk
  rw [hval] at hv
  obtain ⟨_, e1, e2⟩ := C16.v2_keys_injective _ _ _ _ _ _ hn (UInt64.toNat_lt _) (List.append_cancel_left hk)
  rcases C07.v2_ack_binds H hlen _ _ (Option.some.inj hv) with e | c
  · exact Or.inl ⟨e1.symm, e2.symm, e.symm⟩
  · exact Or.inr c

/-- **the packet hashes to the stored commitment (v1).**  If the sender's store entry was written by
    `SendPacket` for fields `q`, a processed acknowledgement message carries exactly that data and
    timeout, or a collision exists.  (Source port / channel / sequence are the store key the sender
    itself looked up, destination port / channel are bound by the channel end's counterparty.) -/
theorem ack_v1_packet_is_the_committed_one (hlen : ∀ b, (H b).length = 32) (f : AckV1) (h : ackV1 H f = .ok)
    (q : PacketV1) (hq : q.WF) (hstored : f.commitment = commitV1 H q) :
    f.pkt.committed = q ∨ Collision H := by
  obtain ⟨hc, _⟩ := ack_v1_proven H f h
  exact C07.v1_commitment_binds H hlen _ _ (committedV1_WF _) hq (hc.symm.trans hstored)

/-- **the packet hashes to the stored commitment (v2)**: destination client, timeout and the whole
    payload list. -/
theorem ack_v2_packet_is_the_committed_one (hlen : ∀ b, (H b).length = 32) (f : AckV2) (h : ackV2 H f = .ok)
    (q : PacketV2) (hq : q.timeoutTs < 2^64) (hstored : f.commitment = commitV2 H q) :
    f.pkt.committed = q ∨ Collision H := by
  obtain ⟨hc, _⟩ := ack_v2_proven H f h
  exact C07.v2_commitment_binds H hlen _ _ (UInt64.toNat_lt _) hq (hc.symm.trans hstored)

/-- **forged acknowledgements are not processed (v1).**  If the counterparty really stored the
    acknowledgement `a` for (`dp`, `dc`, `n`) and the message differs from that in destination,
    sequence or acknowledgement bytes, then — unless SHA-256 collides — the message is not processed
    (the verdict is an error, or a NOOP when the sender holds no commitment at all). -/
theorem ack_v1_forged_not_processed (hnc : ¬ Collision H) (f : AckV1)
    (dp dc : Bytes) (n : Nat) (a : Bytes) (hdp : Keys.IdOK dp) (hdc : Keys.IdOK dc)
    (hkey : f.proof.readKey = Keys.v1Key .ack dp dc n)
    (hval : f.proof.provenValue = some (commitAckV1 H a))
    (hmut : ¬ (f.pkt.dstPort = dp ∧ f.pkt.dstChan = dc ∧ f.pkt.seq.toNat = n ∧ f.ack = a)) :
    ackV1 H f ≠ .ok := by
  intro h
  rcases ack_binds_v1 H f h dp dc n a hdp hdc hkey hval with e | c
  · exact hmut e
  · exact hnc c

/-- **forged acknowledgements are not processed (v2)**: any change of the app-ack list (an element, the
    order, the length), of the destination client or of the sequence. -/
theorem ack_v2_forged_not_processed (hlen : ∀ b, (H b).length = 32) (hnc : ¬ Collision H) (f : AckV2)
    (cp : CpV2) (l : Bytes) (hcp : f.cp = some cp) (hl : cp.pre.getLast? = some l)
    (dc : Bytes) (n : Nat) (as : List Bytes) (hn : n < 2^64)
    (hkey : f.proof.readKey = l ++ Keys.v2Key .ack dc n)
    (hval : f.proof.provenValue = some (commitAckV2 H as))
    (hmut : ¬ (f.pkt.dstClient = dc ∧ f.pkt.seq.toNat = n ∧ f.acks = as)) :
    ackV2 H f ≠ .ok := by
  intro h
  rcases ack_binds_v2 H hlen f h cp l hcp hl dc n as hn hkey hval with e | c
  · exact hmut e
  · exact hnc c

/-- non-vacuity: a concrete ORDERED acknowledgement that is processed; the same message with an altered
    ack byte (rejected by the proof); with no commitment left (NOOP, even with a useless proof); with
    an altered data byte (rejected by the commitment comparison, before the proof is looked at) -/
example :
    let mock := strBytes "mock".toList
    let c0 := strBytes "channel-0".toList
    let c1 := strBytes "channel-1".toList
    let pkt : PktV1 := ⟨4, mock, c0, mock, c1, [1, 2, 3], ⟨⟨1, 100⟩, 0⟩⟩
    let S : Bytes → Bytes := fun b => (b ++ List.replicate 32 0).take 32   -- a toy 32-byte "hash"
    let ibc := strBytes "ibc".toList
    let prf : ProofFacts := ⟨⟨1, 55⟩, ⟨1, 55⟩, true, ibc, Keys.v1Key .ack mock c1 4, some (commitAckV1 S [7, 7])⟩
    let cl : ClientFacts := ⟨true, ⟨1, 60⟩, none, none, true, true⟩
    let f : PktV1 → Bytes → Bytes → AckV1 := fun p ack cm =>
      ⟨p, ack, false, ⟨true, true, ⟨1, 50⟩, 1000⟩, true, some ⟨3, 2, mock, c1⟩, some ⟨3, 0, ibc⟩, cm, true, cl, prf,
        30000000000, some 4⟩
    let cm := commitV1 S pkt.committed
    ackV1 S (f pkt [7, 7] cm) = .ok ∧ ackV1 S (f pkt [7, 8] cm) = .err .proof ∧
      ackV1 S (f pkt [9] []) = .noop ∧
      ackV1 S (f { pkt with data := [1, 2, 4] } [7, 7] cm) = .err .invalidPacket := by
  decide

end IbcVerif.C06
