/-
  C45 — Identical histories produce identical state (determinism).

  What is provable: a Lean model is deterministic by construction, so the logical content of C45 is
  that every place where the Go code iterates a map (iteration order differs between two nodes)
  computes an order-independent result.  `extract-misc/maprange` inventories every
  `for … range <map>` site (and every other map-order source) in non-test, non-generated code under
  /repo/modules; the table `sites` at the end of this file lists each site with the hash of its
  enclosing function and the theorem that decides it.  `bin/check C45` fails when the inventory and
  the table disagree (new site, edited function, removed site).

  Shape of every site theorem: `f` takes the map's entries *in iteration order* and returns what the
  surrounding Go function returns / writes / panics with; the theorem is
  `l₁.Perm l₂ → f l₁ = f l₂`.  Hypotheses used:
    * `(keys l).Nodup` — the keys of one Go map are pairwise distinct (a fact about maps);
    * `PrefixFree (keys l)` for the v2 router's prefix map — proved to hold in every router reachable
      by `AddRoute`/`AddPrefixRoute` calls (`api_router_reachable_prefixFree`).

  Not provable here (validated by the two-process replay engine instead): goroutine scheduling and
  the Go runtime's map seed; ordering inside generated protobuf code and inside the SDK.
-/
import IbcVerif.Model.MapRange
import IbcVerif.Lemmas.MapRange
namespace IbcVerif.C45
open IbcVerif.MapRange

/-- modules/core/05-port/types/router.go `(*Router).Keys`: the keys are collected in iteration order
    and then sorted, so the returned slice does not depend on the iteration order.  `le` is the
    order used by `slices.Sort` (bytewise string comparison: a linear order). -/
theorem site_port_router_keys_perm_invariant {κ ν : Type} (le : κ → κ → Bool)
    (trans : ∀ a b c, le a b = true → le b c = true → le a c = true)
    (total : ∀ a b, (le a b || le b a) = true)
    (antisymm : ∀ a b, le a b = true → le b a = true → a = b)
    {l₁ l₂ : List (κ × ν)} (h : l₁.Perm l₂) :
    portRouterKeys le l₁ = portRouterKeys le l₂ :=
  mergeSort_eq_of_perm le trans total antisymm (keys_perm h)

/-- …and the result is the sorted list of exactly the map's keys. -/
theorem site_port_router_keys_sorted {κ ν : Type} (le : κ → κ → Bool)
    (trans : ∀ a b c, le a b = true → le b c = true → le a c = true)
    (total : ∀ a b, (le a b || le b a) = true) (l : List (κ × ν)) :
    (portRouterKeys le l).Pairwise (fun a b => le a b = true) ∧ (portRouterKeys le l).Perm (keys l) :=
  ⟨List.pairwise_mergeSort trans total _, List.mergeSort_perm _ _⟩

/-- modules/core/api/router.go `(*Router).AddRoute`, loop over `prefixRoutes`: whether the call
    panics, and the registered prefix named in the panic message, do not depend on the iteration
    order (at most one registered prefix can match a port id). -/
theorem site_api_addRoute_perm_invariant {α ν : Type} [BEq α] [LawfulBEq α] (portID : List α)
    {l₁ l₂ : List (List α × ν)} (pf : PrefixFree (keys l₁)) (h : l₁.Perm l₂) :
    addRouteScan portID l₁ = addRouteScan portID l₂ :=
  addRouteScan_perm portID pf h

/-- modules/core/api/router.go `(*Router).AddPrefixRoute`, first loop (over the direct `routes`):
    whether the call panics does not depend on the iteration order. -/
theorem site_api_addPrefixRoute_routes_perm_invariant {α ν : Type} [BEq α] [LawfulBEq α] (pfx : List α)
    {l₁ l₂ : List (List α × ν)} (h : l₁.Perm l₂) :
    addPrefixScanRoutes pfx l₁ = addPrefixScanRoutes pfx l₂ :=
  addPrefixScanRoutes_perm pfx h

/-- The *text* of that panic names one colliding route.  Full statement (message included): -/
def site_api_addPrefixRoute_routes_message_full : Prop :=
  ∀ (pfx : List Nat) (l₁ l₂ : List (List Nat × Unit)), (keys l₁).Nodup → l₁.Perm l₂ →
    addPrefixScanRoutesMsg pfx l₁ = addPrefixScanRoutesMsg pfx l₂

/-- …which is false: with direct routes "ab" and "ac" registered, `AddPrefixRoute("a")` panics naming
    whichever route the map iteration delivers first.  (A start-up panic message, not chain state:
    the process aborts either way.  Replayed on the real router by the `maprange` harness group.) -/
theorem site_api_addPrefixRoute_routes_message_full_false : ¬ site_api_addPrefixRoute_routes_message_full := by
  intro h
  have := h [1] [([1, 2], ()), ([1, 3], ())] [([1, 3], ()), ([1, 2], ())] (by decide) (List.Perm.swap _ _ _)
  revert this; decide

/-- modules/core/api/router.go `(*Router).AddPrefixRoute`, second loop (over `prefixRoutes`): which
    of the two panics fires (or none), and for "already covered by registered prefix" also the
    prefix named, do not depend on the iteration order. -/
theorem site_api_addPrefixRoute_prefixes_perm_invariant {α ν : Type} [BEq α] [LawfulBEq α] (pfx : List α)
    {l₁ l₂ : List (List α × ν)} (pf : PrefixFree (keys l₁)) (h : l₁.Perm l₂) :
    addPrefixScanPrefixes pfx l₁ = addPrefixScanPrefixes pfx l₂ :=
  addPrefixScanPrefixes_perm pfx pf h

/-- Full statement including the prefix named by "is a prefix for already registered prefix": -/
def site_api_addPrefixRoute_prefixes_message_full : Prop :=
  ∀ (pfx : List Nat) (l₁ l₂ : List (List Nat × Unit)), PrefixFree (keys l₁) → l₁.Perm l₂ →
    addPrefixScanPrefixesMsg pfx l₁ = addPrefixScanPrefixesMsg pfx l₂

/-- …false in the same harmless way: prefixes "ab", "ac" registered, adding prefix "a". -/
theorem site_api_addPrefixRoute_prefixes_message_full_false : ¬ site_api_addPrefixRoute_prefixes_message_full := by
  intro h
  have pf : PrefixFree (keys [(([1, 2] : List Nat), ()), ([1, 3], ())]) := by
    unfold PrefixFree keys; decide
  have := h [1] [([1, 2], ()), ([1, 3], ())] [([1, 3], ()), ([1, 2], ())] pf (List.Perm.swap _ _ _)
  revert this; decide

/-- modules/core/api/router.go `(*Router).getRoute`, loop over `prefixRoutes`: the module returned for
    a port id (or "no route") does not depend on the iteration order, because the registered
    prefixes are prefix-free. -/
theorem site_api_getRoute_perm_invariant {α ν : Type} [BEq α] [LawfulBEq α] (portID : List α)
    {l₁ l₂ : List (List α × ν)} (pf : PrefixFree (keys l₁)) (h : l₁.Perm l₂) :
    getRouteScan portID l₁ = getRouteScan portID l₂ :=
  getRouteScan_perm portID pf h

/-- The hypothesis of the three router theorems holds in every router that can be built: starting from
    `NewRouter()` any sequence of non-panicking `AddRoute` / `AddPrefixRoute` calls leaves the prefix
    map prefix-free (and the property is itself independent of the iteration order). -/
theorem api_router_reachable_prefixFree {α ν : Type} [BEq α] [LawfulBEq α] (ops : List (RouterOp α ν))
    {r : ApiRouter α ν} (h : ApiRouter.empty.run ops = some r) :
    PrefixFree (keys r.prefixRoutes) ∧
      ∀ l, r.prefixRoutes.Perm l → PrefixFree (keys l) := by
  have pf : PrefixFree (keys r.prefixRoutes) := run_prefixFree ops (show PrefixFree (keys (ApiRouter.empty : ApiRouter α ν).prefixRoutes) from List.Pairwise.nil) h
  exact ⟨pf, fun l hl => pf.perm (keys_perm hl)⟩

/-- Routing in a reachable v2 router is deterministic: for every wiring sequence and every port id,
    all iteration orders of the prefix map give the same module. -/
theorem api_router_getRoute_deterministic {α ν : Type} [BEq α] [LawfulBEq α] (ops : List (RouterOp α ν))
    {r : ApiRouter α ν} (h : ApiRouter.empty.run ops = some r) (portID : List α)
    (l : List (List α × ν)) (hl : r.prefixRoutes.Perm l) :
    ({ r with prefixRoutes := l } : ApiRouter α ν).getRoute portID = r.getRoute portID := by
  simp only [ApiRouter.getRoute]
  rw [getRouteScan_perm portID (api_router_reachable_prefixFree ops h).1 hl]

/-- The prefix-freeness hypothesis is needed: with overlapping prefixes the scan is order-dependent. -/
theorem getRoute_order_dependent_without_invariant :
    ∃ (l₁ l₂ : List (List Nat × Nat)), l₁.Perm l₂ ∧ (keys l₁).Nodup ∧ getRouteScan [1, 2, 3] l₁ ≠ getRouteScan [1, 2, 3] l₂ :=
  ⟨[([1], 10), ([1, 2], 20)], [([1, 2], 20), ([1], 10)], List.Perm.swap _ _ _, by decide, by decide⟩

/-- modules/apps/packet-forward-middleware/keeper/genesis.go `(*Keeper).InitGenesis`: the store after
    writing every in-flight packet (or the panic on an empty key) does not depend on the iteration
    order — the keys of the genesis map are distinct, so the writes commute. -/
theorem site_pfm_initGenesis_perm_invariant {κ ν β : Type} [DecidableEq κ] (isEmpty : κ → Bool) (enc : ν → β)
    (store : KV κ β) {l₁ l₂ : List (κ × ν)} (nd : (keys l₁).Nodup) (h : l₁.Perm l₂) :
    pfmInitGenesis isEmpty enc store l₁ = pfmInitGenesis isEmpty enc store l₂ := by
  simp only [pfmInitGenesis, h.any_eq, foldl_set_perm enc store nd h]

/-- …and the resulting store maps exactly the genesis keys to their encoded values, everything else
    unchanged (so the theorem above is about the real content, not a degenerate fold). -/
theorem site_pfm_initGenesis_content {κ ν β : Type} [DecidableEq κ] (isEmpty : κ → Bool) (enc : ν → β)
    (store : KV κ β) (l : List (κ × ν)) (nd : (keys l).Nodup) (s : KV κ β)
    (h : pfmInitGenesis isEmpty enc store l = some s) (q : κ) :
    s q = match l.find? (fun kv => kv.1 = q) with
          | some kv => some (enc kv.2)
          | none => store q := by
  simp only [pfmInitGenesis] at h
  split at h
  · cases h
  · cases h
    exact foldl_set_apply enc store l nd q

/-! ### non-vacuity -/

/-- `Keys()` on a three-route map, two iteration orders -/
example : portRouterKeys (fun a b : Nat => decide (a ≤ b)) [(3, "c"), (1, "a"), (2, "b")] = [1, 2, 3] ∧
    portRouterKeys (fun a b : Nat => decide (a ≤ b)) [(2, "b"), (3, "c"), (1, "a")] = [1, 2, 3] := by
  simp [portRouterKeys, keys, List.mergeSort, List.MergeSort.Internal.splitInTwo]

/-- the hypotheses of `site_port_router_keys_perm_invariant` are satisfiable (String is a linear order) -/
example {ν : Type} {l₁ l₂ : List (String × ν)} (h : l₁.Perm l₂) :
    portRouterKeys (fun a b : String => decide (a ≤ b)) l₁ = portRouterKeys (fun a b => decide (a ≤ b)) l₂ :=
  site_port_router_keys_perm_invariant _
    (fun _ _ _ h1 h2 => by simp only [decide_eq_true_eq] at *; exact String.le_trans h1 h2)
    (fun a b => by simp only [Bool.or_eq_true, decide_eq_true_eq]; exact String.le_total a b)
    (fun _ _ h1 h2 => by simp only [decide_eq_true_eq] at *; exact String.le_antisymm h1 h2) h

/-- a reachable router with two prefix routes and a direct route; routing is the same in both orders -/
example :
    (ApiRouter.empty.run [.addPrefixRoute [7, 1] 100, .addPrefixRoute [7, 2] 200, .addRoute [9] 300]).map
      (fun r => (r.getRoute [7, 2, 5], ({ r with prefixRoutes := r.prefixRoutes.reverse } : ApiRouter Nat Nat).getRoute [7, 2, 5],
                 r.getRoute [9], r.getRoute [8]))
    = some (some 200, some 200, some 300, none) := by decide

/-- overlapping prefixes are refused, so the invariant is not vacuous -/
example : (ApiRouter.empty.run [.addPrefixRoute [7, 1] 100, .addPrefixRoute [7] 200] : Option (ApiRouter Nat Nat)).isNone = true ∧
    (ApiRouter.empty.run [.addPrefixRoute [7] 100, .addPrefixRoute [7, 1] 200] : Option (ApiRouter Nat Nat)).isNone = true := by decide

/-! ### the site table

  One row per inventoried site: (stable id `<file>:<func>:<n>`, hash of the enclosing function's
  normalised text as printed by `extract-misc/maprange`, deciding theorem).  The names are checked by
  Lean (double-backtick literals must resolve), ids and hashes by `maprange -table` against /repo.
  When a row's hash changes, re-read the Go function, adjust model + theorem if needed, then update
  the hash here. -/
def sites : List (String × String × Lean.Name) := [
  ("modules/apps/packet-forward-middleware/keeper/genesis.go:Keeper.InitGenesis:1", "c0e273ab4168918d", ``site_pfm_initGenesis_perm_invariant),
  ("modules/core/05-port/types/router.go:Router.Keys:1", "06a32178b51ddafa", ``site_port_router_keys_perm_invariant),
  ("modules/core/api/router.go:Router.AddRoute:1", "7adda747b66350f1", ``site_api_addRoute_perm_invariant),
  ("modules/core/api/router.go:Router.AddPrefixRoute:1", "bb17ec9bb595bad5", ``site_api_addPrefixRoute_routes_perm_invariant),
  ("modules/core/api/router.go:Router.AddPrefixRoute:2", "bb17ec9bb595bad5", ``site_api_addPrefixRoute_prefixes_perm_invariant),
  ("modules/core/api/router.go:Router.getRoute:1", "704f6b36803da36f", ``site_api_getRoute_perm_invariant)
]

end IbcVerif.C45
