/-
  C18 — Merkle proofs verify exactly the committed key/value under the root.
  PARTIAL by design: ibc-go's own code (argument validation, chaining of per-store proofs, key
  order, final root comparison, non-membership at the lowest level, BuildMerklePath's slice
  handling) is proved; the soundness of a single ICS-23 existence / non-existence proof is the named
  hypothesis `Ics23Sound` (library code), and "a tree holds one value per key" is `Functional`.
-/
import IbcVerif.Model.Merkle
import IbcVerif.Lemmas.Merkle
namespace IbcVerif.C18
open IbcVerif IbcVerif.Merkle

/-- what the per-level proof objects are supposed to mean -/
structure TreeSem where
  Holds : Nat → Bytes → Bytes → Bytes → Prop    -- level i: the tree with this root maps key ↦ value
  Absent : Bytes → Bytes → Prop                  -- level 0: the tree with this root has no such key

def Ics23Sound (T : TreeSem) (VE : Nat → Bytes → Bytes → Bytes → Bool) (VN : Bytes → Bytes → Bool) : Prop :=
  (∀ i r k v, VE i r k v = true → T.Holds i r k v) ∧ (∀ r k, VN r k = true → T.Absent r k)

def Functional (T : TreeSem) : Prop := ∀ i r k v v', T.Holds i r k v → T.Holds i r k v' → v = v'
def AbsentExcludes (T : TreeSem) : Prop := ∀ r k v, T.Absent r k → ¬ T.Holds 0 r k v

/-- `value` is committed under `root` through `m` nested stores starting at level `i`: the value sits
    under key `path[n-1-i]` in a tree whose root is the value under `path[n-2-i]` in the next tree … -/
def Committed (T : TreeSem) (keyAt : Nat → Option Bytes) (n : Nat) : Nat → Nat → Bytes → Bytes → Prop
  | 0, _, value, root => value = root
  | m + 1, i, value, root => ∃ k r, keyAt (n - 1 - i) = some k ∧ T.Holds i r k value ∧ Committed T keyAt n m (i + 1) r root

variable (T : TreeSem) (VE : Nat → Bytes → Bytes → Bytes → Bool) (VN : Bytes → Bytes → Bool) (keyAt : Nat → Option Bytes)

theorem chain_sound (hs : Ics23Sound T VE VN) (n : Nat) :
    ∀ (levels : List Level) (i : Nat) (value r : Bytes), chain VE keyAt n levels i value = some r →
      Committed T keyAt n levels.length i value r := by
  intro levels
  induction levels with
  | nil => intro i value r h; simp only [chain, Option.some.injEq] at h; exact h
  | cons l rest ih =>
    intro i value r h
    simp only [chain] at h
    cases hc : l.croot with
    | none => simp [hc] at h
    | some subroot =>
      cases hk : keyAt (n - 1 - i) with
      | none => simp [hc, hk] at h
      | some key =>
        simp only [hc, hk] at h
        split at h
        · cases h
        · split at h
          · rename_i hve
            exact ⟨key, subroot, hk, hs.1 i subroot key value hve, ih (i + 1) subroot r h⟩
          · cases h

/-- every malformed argument is rejected, and a successful membership verification means the
    NON-EMPTY value is committed under exactly this root through every level of the key path -/
theorem membership_sound (hs : Ics23Sound T VE VN) (proofsNil : Bool) (levels : List Level) (nSpecs pathLen : Nat)
    (root value : Bytes) (h : verifyMembership VE keyAt proofsNil levels nSpecs pathLen root value = .ok) :
    proofsNil = false ∧ root ≠ [] ∧ value ≠ [] ∧ nSpecs = levels.length ∧ pathLen = levels.length ∧
    (∀ l ∈ levels, l.specNil = false ∧ l.kind = .exist) ∧
    Committed T keyAt pathLen levels.length 0 value root := by
  unfold verifyMembership at h
  cases hv : validateArgs proofsNil levels nSpecs (levels.map (·.specNil)) pathLen root with
  | invalidMerkleProof => simp [hv] at h
  | invalidProof => simp [hv] at h
  | ok =>
    simp only [hv] at h
    unfold validateArgs at hv
    split at hv; · cases hv
    split at hv; · cases hv
    split at hv; · cases hv
    split at hv; · cases hv
    split at hv; · cases hv
    rename_i h1 h2 h3 h4 h5
    split at h; · cases h
    rename_i h6
    cases hch : chain VE keyAt pathLen levels 0 value with
    | none => simp [hch] at h
    | some r =>
      simp only [hch] at h
      split at h
      · rename_i hr
        have hcom := chain_sound T VE VN keyAt hs pathLen levels 0 value r hch
        have e3 : nSpecs = levels.length := by simpa using h3
        have e4 : pathLen = nSpecs := by simpa using h4
        refine ⟨by simpa using h1, ?_, ?_, e3, by omega, ?_, hr ▸ hcom⟩
        · intro e; simp [e] at h2
        · intro e; simp [e] at h6
        · intro l hl
          refine ⟨?_, ?_⟩
          · cases hsn : l.specNil with
            | false => rfl
            | true => exact absurd (List.any_eq_true.mpr ⟨true, List.mem_map.mpr ⟨l, hl, hsn⟩, rfl⟩) h5
          · -- every level passed the `GetExist() != nil` test inside `chain`
            have aux : ∀ (ls : List Level) (i : Nat) (v r : Bytes), chain VE keyAt pathLen ls i v = some r →
                ∀ l ∈ ls, l.kind = .exist := by
              intro ls
              induction ls with
              | nil => intro _ _ _ _ l hl; simp at hl
              | cons x xs ih =>
                intro i v r hc l hl
                simp only [chain] at hc
                cases hx : x.croot with
                | none => simp [hx] at hc
                | some sr =>
                  cases hk : keyAt (pathLen - 1 - i) with
                  | none => simp [hx, hk] at hc
                  | some key =>
                    simp only [hx, hk] at hc
                    split at hc
                    · cases hc
                    · rename_i hkind
                      split at hc
                      · rcases List.mem_cons.mp hl with rfl | hl'
                        · exact Decidable.not_not.mp hkind
                        · exact ih (i + 1) sr r hc l hl'
                      · cases hc
            exact aux levels 0 value r hch l hl
      · cases h

/-- under "one value per key", the value committed under a root through a given key path is unique:
    two successful verifications against the same root and path prove the same value -/
theorem committed_value_unique (hf : Functional T) (n : Nat) :
    ∀ (m i : Nat) (v v' root : Bytes), Committed T keyAt n m i v root → Committed T keyAt n m i v' root → v = v' := by
  intro m
  induction m with
  | zero => intro i v v' root h h'; simp only [Committed] at h h'; rw [h, h']
  | succ m ih =>
    intro i v v' root h h'
    obtain ⟨k, r, hk, hh, hc⟩ := h
    obtain ⟨k', r', hk', hh', hc'⟩ := h'
    have ek : k = k' := by rw [hk] at hk'; exact Option.some.inj hk'
    have er : r = r' := ih (i + 1) r r' root hc hc'
    subst ek; subst er
    exact hf i r k v v' hh hh'

theorem membership_value_unique (hs : Ics23Sound T VE VN) (hf : Functional T) (levels levels' : List Level) (n : Nat)
    (root v v' : Bytes)
    (h : verifyMembership VE keyAt false levels n n root v = .ok)
    (h' : verifyMembership VE keyAt false levels' n n root v' = .ok) : v = v' := by
  obtain ⟨_, _, _, _, e1, _, c1⟩ := membership_sound T VE VN keyAt hs false levels n n root v h
  obtain ⟨_, _, _, _, e2, _, c2⟩ := membership_sound T VE VN keyAt hs false levels' n n root v' h'
  rw [← e1] at c1; rw [← e2] at c2
  exact committed_value_unique T keyAt hf n n 0 v v' root c1 c2

/-- a successful non-membership verification means the key is absent at the lowest level of a
    store that is itself committed under the root -/
theorem nonmembership_sound (hs : Ics23Sound T VE VN) (proofsNil : Bool) (levels : List Level) (nSpecs pathLen : Nat)
    (root : Bytes) (h : verifyNonMembership VE VN keyAt proofsNil levels nSpecs pathLen root = .ok) :
    root ≠ [] ∧ pathLen = levels.length ∧
    ∃ key r0, keyAt (pathLen - 1) = some key ∧ T.Absent r0 key ∧ Committed T keyAt pathLen (levels.length - 1) 1 r0 root := by
  unfold verifyNonMembership at h
  cases hv : validateArgs proofsNil levels nSpecs (levels.map (·.specNil)) pathLen root with
  | invalidMerkleProof => simp [hv] at h
  | invalidProof => simp [hv] at h
  | ok =>
    simp only [hv] at h
    unfold validateArgs at hv
    split at hv; · cases hv
    split at hv; · cases hv
    split at hv; · cases hv
    split at hv; · cases hv
    rename_i h1 h2 h3 h4
    cases levels with
    | nil => simp at h
    | cons l0 rest =>
      simp only at h
      cases hc : l0.croot with
      | none => simp [hc] at h
      | some subroot =>
        cases hk : keyAt (pathLen - 1) with
        | none => simp [hc, hk] at h
        | some key =>
          simp only [hc, hk] at h
          split at h; · cases h
          split at h; · cases h
          rename_i hvn
          cases hch : chain VE keyAt pathLen rest 1 subroot with
          | none => simp [hch] at h
          | some r =>
            simp only [hch] at h
            split at h
            · rename_i hr
              have e3 : nSpecs = (l0 :: rest).length := by simpa using h3
              have e4 : pathLen = nSpecs := by simpa using h4
              refine ⟨by intro e; simp [e] at h2, by omega, key, subroot, rfl, hs.2 subroot key (by simpa using hvn), ?_⟩
              have := chain_sound T VE VN keyAt hs pathLen rest 1 subroot r hch
              simpa [hr] using this
            · cases h

/-- membership and non-membership of the same key path under the same root cannot both verify -/
theorem membership_excludes_nonmembership (hs : Ics23Sound T VE VN) (hf : Functional T) (ha : AbsentExcludes T)
    (levels levels' : List Level) (n : Nat) (root v : Bytes)
    (h : verifyMembership VE keyAt false levels n n root v = .ok)
    (h' : verifyNonMembership VE VN keyAt false levels' n n root = .ok) : False := by
  obtain ⟨_, _, _, _, e1, _, c1⟩ := membership_sound T VE VN keyAt hs false levels n n root v h
  obtain ⟨_, e2, key, r0, hk, habs, c2⟩ := nonmembership_sound T VE VN keyAt hs false levels' n n root h'
  rw [← e1] at c1; rw [← e2] at c2
  cases n with
  | zero =>
    have hl : levels' = [] := by
      cases levels' with
      | nil => rfl
      | cons _ _ => simp at e2
    subst hl
    unfold verifyNonMembership at h'
    simp only [List.map_nil] at h'
    cases hv : validateArgs false [] 0 [] 0 root <;> rw [hv] at h' <;> cases h'
  | succ m =>
    obtain ⟨k, r, hk1, hh, hc⟩ := c1
    simp only [Nat.add_sub_cancel, Nat.sub_zero] at hk1 hk c2
    have ek : k = key := by rw [hk1] at hk; exact Option.some.inj hk
    have er : r = r0 := committed_value_unique T keyAt hf (m + 1) m 1 r r0 root hc c2
    subst ek; subst er
    exact ha r k v habs hh

/-! ### BuildMerklePath never changes the caller's prefix -/

/-- well-formed slice headers: inside their array, length within capacity -/
def SliceWF (h : Heap) (s : Slice) : Prop :=
  s.arr < h.length ∧ s.len ≤ s.cap ∧ s.off + s.cap ≤ (h.getD s.arr []).length

/-- no prefix element can *see* the spare capacity of the last element (true for slices that were
    allocated separately, e.g. decoded from protobuf) -/
def NoAliasSpare (pre : List Slice) (last : Slice) (n : Nat) : Prop :=
  ∀ s ∈ pre, s.arr = last.arr → s.off + s.len ≤ last.off + last.len ∨ last.off + last.len + n ≤ s.off

theorem goAppend_preserves_views (h : Heap) (last : Slice) (data : Bytes) (hl : SliceWF h last)
    (s : Slice) (hs : SliceWF h s)
    (hna : s.arr = last.arr → s.off + s.len ≤ last.off + last.len ∨ last.off + last.len + data.length ≤ s.off) :
    s.view (goAppend h last data).1 = s.view h := by
  unfold goAppend
  split
  · rename_i hfit
    simp only [Slice.view]
    by_cases ha : s.arr = last.arr
    · have hget : (h.set last.arr (writeAt (h.getD last.arr []) (last.off + last.len) data)).getD s.arr []
          = writeAt (h.getD last.arr []) (last.off + last.len) data := by
        rw [ha]; simp [List.getD_eq_getElem?_getD, hl.1]
      rw [hget, ha]
      apply view_writeAt_disjoint
      · have := hl.2.2; have := hl.2.1; omega
      · exact hna ha
    · have hget : (h.set last.arr (writeAt (h.getD last.arr []) (last.off + last.len) data)).getD s.arr [] = h.getD s.arr [] := by
        simp [List.getD_eq_getElem?_getD, List.getElem?_set, Ne.symm ha]
      rw [hget]
  · simp only [Slice.view]
    have : (h ++ [last.view h ++ data]).getD s.arr [] = h.getD s.arr [] := by
      simp [List.getD_eq_getElem?_getD, List.getElem?_append_left hs.1]
    simp only [Slice.view] at this
    rw [this]

/-- `BuildMerklePath(prefix, path)`: every element of the caller's `prefix` shows exactly the same
    bytes afterwards (the append may only write into spare capacity nobody can see) … -/
theorem buildMerklePath_preserves_prefix (h h' : Heap) (pre out : List Slice) (path : Bytes)
    (hwf : ∀ s ∈ pre, SliceWF h s)
    (hb : buildMerklePath h pre path = some (h', out))
    (hna : ∀ last, pre.getLast? = some last → NoAliasSpare pre last path.length) :
    ∀ s ∈ pre, s.view h' = s.view h := by
  unfold buildMerklePath at hb
  cases hr : pre.reverse with
  | nil => simp [hr] at hb
  | cons last initRev =>
    simp only [hr, Option.some.injEq, Prod.mk.injEq] at hb
    have hlast : pre.getLast? = some last := by
      rw [List.getLast?_eq_head?_reverse, hr]; rfl
    have hmem : last ∈ pre := by
      have : last ∈ pre.reverse := by rw [hr]; exact List.mem_cons_self
      exact List.mem_reverse.mp this
    intro s hs
    rw [← hb.1]
    exact goAppend_preserves_views h last path (hwf last hmem) s (hwf s hs) (hna last hlast s hs)

/-- … and the result is the prefix with `path` appended to its last element -/
theorem buildMerklePath_result (h h' : Heap) (pre out : List Slice) (path : Bytes)
    (hwf : ∀ s ∈ pre, SliceWF h s)
    (hb : buildMerklePath h pre path = some (h', out)) :
    ∃ init last last', pre = init ++ [last] ∧ out = init ++ [last'] ∧ last'.view h' = last.view h ++ path := by
  unfold buildMerklePath at hb
  cases hr : pre.reverse with
  | nil => simp [hr] at hb
  | cons last initRev =>
    simp only [hr, Option.some.injEq, Prod.mk.injEq] at hb
    have hpre : pre = initRev.reverse ++ [last] := by
      have := congrArg List.reverse hr
      simpa using this
    have hmem : last ∈ pre := by rw [hpre]; simp
    have hl := hwf last hmem
    refine ⟨initRev.reverse, last, (goAppend h last path).2, hpre, hb.2.symm, ?_⟩
    rw [← hb.1]
    unfold goAppend
    split
    · rename_i hfit
      simp only [Slice.view]
      have hget : (h.set last.arr (writeAt (h.getD last.arr []) (last.off + last.len) path)).getD last.arr []
          = writeAt (h.getD last.arr []) (last.off + last.len) path := by
        simp [List.getD_eq_getElem?_getD, hl.1]
      rw [hget]
      apply view_writeAt_extended
      have := hl.2.2; omega
    · simp only [Slice.view]
      have : (h ++ [((h.getD last.arr []).drop last.off).take last.len ++ path]).getD h.length [] =
          ((h.getD last.arr []).drop last.off).take last.len ++ path := by
        simp [List.getD_eq_getElem?_getD]
      rw [this]
      apply List.take_of_length_le
      simp only [List.drop_zero, List.length_append, List.length_take]
      omega

/-- an empty prefix panics (the only panic of the function) -/
theorem buildMerklePath_panics_iff (h : Heap) (pre : List Slice) (path : Bytes) :
    buildMerklePath h pre path = none ↔ pre = [] := by
  unfold buildMerklePath
  cases hr : pre.reverse with
  | nil => simp [List.reverse_eq_nil_iff.mp hr]
  | cons a b =>
    have : pre ≠ [] := by intro e; simp [e] at hr
    simp [this]

/-- non-vacuity: a prefix whose last element has spare capacity; the append writes in place and the
    caller's views are unchanged -/
example :
    let h : Heap := [[105, 98, 99, 0, 0, 0, 0], [1, 2]]
    let pre : List Slice := [⟨1, 0, 2, 2⟩, ⟨0, 0, 3, 7⟩]
    (buildMerklePath h pre [47, 120]).map (fun r => (pre.map (·.view r.1), r.2.map (·.view r.1))) =
      some ([[1, 2], [105, 98, 99]], [[1, 2], [105, 98, 99, 47, 120]]) := by decide

end IbcVerif.C18
