/-
  C40 — Callbacks are gas-bounded and cannot break the packet lifecycle.
  Property theorems only; the model is IbcVerif/Model/Callbacks.lean.

  The contract behind the ContractKeeper interface is a parameter (`Contract`): any gas consumption,
  any of {return nil, return an error, panic}, and it may or may not swallow its own out-of-gas panic.
  `Failed c exec` is the property's "errors, panics or runs out of gas".
-/
import IbcVerif.Model.Callbacks
import IbcVerif.Lemmas.Callbacks
namespace IbcVerif.C40
open IbcVerif.Callbacks

/-- the callback errors, panics or runs out of gas (on a meter limited to `exec`) -/
def Failed (c : Contract) (exec : Nat) : Prop := c.gas > exec ∨ c.out ≠ .ok

/-- `computeExecAndCommitGasLimit`: commit = user limit, replaced by the chain maximum when 0 or above
    it; exec = min(remaining, commit). -/
theorem gas_limits (user remaining max : Nat) :
    (gasLimits user remaining max).2 = (if user = 0 ∨ user > max then max else user) ∧
    (gasLimits user remaining max).1 = min remaining (gasLimits user remaining max).2 ∧
    (gasLimits user remaining max).2 ≤ max ∧
    (gasLimits user remaining max).1 ≤ remaining ∧
    (gasLimits user remaining max).1 ≤ (gasLimits user remaining max).2 := by
  simp only [gasLimits]
  refine ⟨trivial, trivial, ?_, Nat.min_le_left _ _, Nat.min_le_right _ _⟩
  split <;> omega

/-- The gas charged to the caller for a callback never exceeds the execution limit, hence never the
    smaller of the remaining gas and the user limit capped at the chain maximum; in particular the
    caller's own meter cannot be driven past its limit by the charge. -/
theorem callback_gas_bounded (t : CbType) (user remaining max : Nat) (c : Contract) :
    let (exec, commit) := gasLimits user remaining max
    (processCallback t exec commit c).charged ≤ exec ∧
    (processCallback t exec commit c).charged ≤ remaining ∧
    (processCallback t exec commit c).charged ≤ (if user = 0 ∨ user > max then max else user) := by
  simp only [processCallback_charged]
  have h := gas_limits user remaining max
  refine ⟨Nat.min_le_right _ _, Nat.le_trans (Nat.min_le_right _ _) h.2.2.2.1, ?_⟩
  rw [← h.1]
  exact Nat.le_trans (Nat.min_le_right _ _) h.2.2.2.2

/-- **Outcome matrix of `ProcessCallback`** for contracts that let the out-of-gas panic propagate:
    a total function of (callback type, behaviour ∈ {ok, err, panic, out-of-gas}, retry = exec < commit). -/
theorem process_callback_matrix (t : CbType) (exec commit : Nat) (c : Contract) (hc : c.catchOog = none) :
    let o := processCallback t exec commit c
    -- success within the limit: result ok, writes kept
    (c.gas ≤ exec → c.out = .ok → o.result = .ok ∧ o.wrote = true) ∧
    -- the contract returns an error: returned as is, writes discarded
    (c.gas ≤ exec → c.out = .err → o.result = .errCallback ∧ o.wrote = false) ∧
    -- the contract panics: re-raised for send callbacks, ErrCallbackPanic otherwise; writes discarded
    (c.gas ≤ exec → c.out = .panic → o.result = (if t = .send then .panic else .errPanic) ∧ o.wrote = false) ∧
    -- out of gas: send callbacks re-raise; otherwise abort iff exec < commit, else ErrCallbackOutOfGas
    (c.gas > exec → o.wrote = false ∧
      o.result = (if t = .send then .panicOog else if exec < commit then .panicOog else .errOog)) := by
  obtain ⟨gas, out, co⟩ := c
  simp only at hc
  subst hc
  simp only [processCallback_eq, run_eq]
  refine ⟨fun h1 h2 => ?_, fun h1 h2 => ?_, fun h1 h2 => ?_, fun h1 => ?_⟩
  · have : ¬ gas > exec := Nat.not_lt.mpr h1
    subst h2
    cases t <;> simp [this, pcTable, runTable]
  · have : ¬ gas > exec := Nat.not_lt.mpr h1
    subst h2
    cases t <;> simp [this, pcTable, runTable]
  · have : ¬ gas > exec := Nat.not_lt.mpr h1
    subst h2
    cases t <;> simp [this, pcTable, runTable]
  · have h1' : gas > exec := h1
    by_cases hr : exec < commit <;> cases t <;> simp [h1', hr, pcTable, runTable]

/-- A source acknowledgement / timeout callback never blocks the packet outcome: whenever the
    application accepted the ack / timeout and the packet carries well-formed callback data, the handler
    returns nil — for EVERY contract — except in the one case the property allows: the callback ran out
    of gas although the relayer supplied less than the committed limit, where the whole transaction
    aborts so that it can be retried. -/
theorem source_cb_never_blocks (t : CbType) (user remaining max : Nat) (c : Contract) :
    let o := onAckOrTimeout t false (.valid user) remaining max c
    let exec := (gasLimits user remaining max).1
    let commit := (gasLimits user remaining max).2
    (o.result = .ok ∨ o.result = .aborted) ∧
    (t ≠ .send → (o.result = .aborted ↔ (c.gas > exec ∧ exec < commit))) := by
  obtain ⟨gas, out, co⟩ := c
  simp only [onAckOrTimeout, withCb, processCallback_eq, run_eq, Bool.false_eq_true, if_false]
  generalize (gasLimits user remaining max).1 = e
  generalize (gasLimits user remaining max).2 = cm
  constructor
  · split <;> simp
  · intro ht
    obtain ⟨past, hpd, hpp⟩ := bool_of_dec (gas > e)
    obtain ⟨retry, hrd, hrp⟩ := bool_of_dec (e < cm)
    rw [hpd, hrd]
    simp only [hpp, hrp]
    cases past <;> cases retry <;> cases out <;> rcases co with _ | (_ | _) <;> cases t <;>
      first
      | exact absurd rfl ht
      | simp [pcTable, runTable, PcResult.isPanic]

/-- … and the failed callback's own state changes are discarded — for EVERY contract, including one
    that swallows its own out-of-gas panic and returns nil (before fix 7bc25b2 that contract kept
    its writes: `writeFn()` ran before the past-limit check). -/
theorem source_cb_discards (t : CbType) (user remaining max : Nat) (c : Contract)
    (hf : Failed c (gasLimits user remaining max).1) :
    (onAckOrTimeout t false (.valid user) remaining max c).cbWrote = false ∧
    (onWriteAck false (.valid user) remaining max c).cbWrote = false := by
  obtain ⟨gas, out, co⟩ := c
  unfold Failed at hf
  simp only [onAckOrTimeout, onWriteAck, withCb, processCallback_eq, run_eq, Bool.false_eq_true, if_false] at hf ⊢
  revert hf
  generalize (gasLimits user remaining max).1 = e
  generalize (gasLimits user remaining max).2 = cm
  intro hf
  obtain ⟨past, hpd, hpp⟩ := bool_of_dec (gas > e)
  obtain ⟨retry, hrd, hrp⟩ := bool_of_dec (e < cm)
  rw [hpd, hrd]
  simp only [hpp] at hf
  cases past <;> cases retry <;> cases out <;> rcases co with _ | (_ | _) <;> cases t <;>
    simp_all [pcTable, runTable, PcResult.isPanic]

/-- Conversely a callback's writes are kept exactly when it succeeded within its gas limit. -/
theorem cb_writes_kept_iff_success (t : CbType) (exec commit : Nat) (c : Contract) :
    (processCallback t exec commit c).wrote = true ↔ (c.gas ≤ exec ∧ c.out = .ok) := by
  obtain ⟨gas, out, co⟩ := c
  simp only [processCallback_eq, run_eq]
  obtain ⟨past, hpd, hpp⟩ := bool_of_dec (gas > exec)
  obtain ⟨retry, hrd, hrp⟩ := bool_of_dec (exec < commit)
  rw [hpd, hrd]
  have hle : gas ≤ exec ↔ past = false := by
    rw [← Nat.not_lt]
    cases past <;> simp_all
  simp only [hle]
  cases past <;> cases retry <;> cases out <;> rcases co with _ | (_ | _) <;> cases t <;>
    simp [pcTable, runTable]

/-- Regression of the finding fixed by /repo 7bc25b2: ack callback, user limit 1000, the contract writes,
    consumes 1001, swallows the out-of-gas panic and returns nil.  The handler still returns nil with
    ErrCallbackOutOfGas logged — and the contract's writes are now discarded. -/
theorem swallowed_oog_witness_now_discarded :
    onAckOrTimeout .ack false (.valid 1000) 500000 1000000 ⟨1001, .ok, some .ok⟩ =
      ⟨.ok, true, false, 1000, some .errOog⟩ := by
  decide

/-- Out of gas with less gas than the committed limit aborts the transaction at every entry point,
    for every contract (even one that swallows the panic). -/
theorem oog_with_retry_aborts (user remaining max : Nat) (c : Contract)
    (hg : c.gas > (gasLimits user remaining max).1)
    (hr : (gasLimits user remaining max).1 < (gasLimits user remaining max).2) :
    (onAckOrTimeout .ack false (.valid user) remaining max c).result = .aborted ∧
    (onAckOrTimeout .timeout false (.valid user) remaining max c).result = .aborted ∧
    (onSend false (.valid user) remaining max c).result = .aborted ∧
    (onRecv .success (.valid user) remaining max c).result = .aborted ∧
    (onWriteAck false (.valid user) remaining max c).result = .aborted := by
  obtain ⟨gas, out, co⟩ := c
  simp only [onAckOrTimeout, onSend, onRecv, onWriteAck, withCb, processCallback_eq, run_eq, Bool.false_eq_true, if_false]
  have hg' : decide (gas > (gasLimits user remaining max).1) = true := by simpa using hg
  have hr' : decide ((gasLimits user remaining max).1 < (gasLimits user remaining max).2) = true := by simpa using hr
  rw [hg', hr']
  cases out <;> rcases co with _ | (_ | _) <;> simp [pcTable, runTable, PcResult.isPanic]

/-- A send callback decides the send: the send is accepted iff the callback succeeded within its
    gas limit; any failure rejects it (error) or aborts the transaction (panic propagates). -/
theorem send_cb_failure_rejects (user remaining max : Nat) (c : Contract) :
    let o := onSend false (.valid user) remaining max c
    (o.result = .ok ↔ ¬ Failed c (gasLimits user remaining max).1) ∧
    (o.result = .ok ∨ o.result = .err ∨ o.result = .aborted) ∧
    (c.catchOog = none → c.gas ≤ (gasLimits user remaining max).1 → c.out = .panic → o.result = .aborted) := by
  obtain ⟨gas, out, co⟩ := c
  simp only [onSend, withCb, processCallback_eq, run_eq, Bool.false_eq_true, if_false, Failed]
  generalize (gasLimits user remaining max).1 = e
  generalize (gasLimits user remaining max).2 = cm
  obtain ⟨past, hpd, hpp⟩ := bool_of_dec (gas > e)
  obtain ⟨retry, hrd, hrp⟩ := bool_of_dec (e < cm)
  rw [hpd, hrd]
  have hle : gas ≤ e ↔ past = false := by
    rw [← Nat.not_lt]
    cases past <;> simp_all
  simp only [hpp, hle]
  refine ⟨?_, ?_, ?_⟩
  · cases past <;> cases retry <;> cases out <;> rcases co with _ | (_ | _) <;>
      simp [pcTable, runTable, PcResult.isPanic]
  · cases past <;> cases retry <;> cases out <;> rcases co with _ | (_ | _) <;>
      simp [pcTable, runTable, PcResult.isPanic]
  · intro h1 h2 h3
    subst h1; subst h2; subst h3
    cases retry <;> simp [pcTable, runTable, PcResult.isPanic]

/-- A destination callback that fails turns the (successful) receive into an error acknowledgement —
    so by C09 no application state change survives — unless the retry condition aborts the
    transaction; a successful callback leaves the success acknowledgement untouched.  A receive the
    application already failed or deferred never reaches the contract. -/
theorem dest_cb_failure_is_error_ack (user remaining max : Nat) (c : Contract) :
    let o := onRecv .success (.valid user) remaining max c
    let exec := (gasLimits user remaining max).1
    let commit := (gasLimits user remaining max).2
    (o.result = .ack .success ↔ ¬ Failed c exec) ∧
    (Failed c exec → ¬ (c.gas > exec ∧ exec < commit) → o.result = .ack .error) ∧
    (∀ cb, (onRecv .error cb remaining max c) = noCb (.ack .error)) ∧
    (∀ cb, (onRecv .async cb remaining max c) = noCb (.ack .async)) := by
  obtain ⟨gas, out, co⟩ := c
  refine ⟨?_, ?_, fun cb => rfl, fun cb => rfl⟩
  · simp only [onRecv, withCb, processCallback_eq, run_eq, Failed]
    generalize (gasLimits user remaining max).1 = e
    generalize (gasLimits user remaining max).2 = cm
    obtain ⟨past, hpd, hpp⟩ := bool_of_dec (gas > e)
    obtain ⟨retry, hrd, hrp⟩ := bool_of_dec (e < cm)
    rw [hpd, hrd]
    simp only [hpp]
    cases past <;> cases retry <;> cases out <;> rcases co with _ | (_ | _) <;>
      simp [pcTable, runTable, PcResult.isPanic]
  · simp only [onRecv, withCb, processCallback_eq, run_eq, Failed]
    generalize (gasLimits user remaining max).1 = e
    generalize (gasLimits user remaining max).2 = cm
    obtain ⟨past, hpd, hpp⟩ := bool_of_dec (gas > e)
    obtain ⟨retry, hrd, hrp⟩ := bool_of_dec (e < cm)
    rw [hpd, hrd]
    simp only [hpp, hrp]
    cases past <;> cases retry <;> cases out <;> rcases co with _ | (_ | _) <;>
      simp [pcTable, runTable, PcResult.isPanic]

/-- The destination callback made when an asynchronous acknowledgement is written (the fifth callback
    site) cannot fail the write either: nil unless the retry condition aborts. -/
theorem async_ack_cb_never_blocks (user remaining max : Nat) (c : Contract) :
    let o := onWriteAck false (.valid user) remaining max c
    (o.result = .ok ∨ o.result = .aborted) ∧
    (o.result = .aborted ↔ (c.gas > (gasLimits user remaining max).1 ∧
      (gasLimits user remaining max).1 < (gasLimits user remaining max).2)) := by
  obtain ⟨gas, out, co⟩ := c
  simp only [onWriteAck, withCb, processCallback_eq, run_eq, Bool.false_eq_true, if_false]
  generalize (gasLimits user remaining max).1 = e
  generalize (gasLimits user remaining max).2 = cm
  constructor
  · split <;> simp
  · obtain ⟨past, hpd, hpp⟩ := bool_of_dec (gas > e)
    obtain ⟨retry, hrd, hrp⟩ := bool_of_dec (e < cm)
    rw [hpd, hrd]
    simp only [hpp, hrp]
    cases past <;> cases retry <;> cases out <;> rcases co with _ | (_ | _) <;>
      simp [pcTable, runTable, PcResult.isPanic]

/-- No callback data, or an application that rejected the ack / timeout / send: the contract is never
    called and nothing is charged. -/
theorem no_callback_without_request (t : CbType) (remaining max : Nat) (c : Contract) (cb : CbData) :
    (onAckOrTimeout t true cb remaining max c).cbCalled = false ∧
    (onAckOrTimeout t false .none remaining max c) = noCb .ok ∧
    (onSend true cb remaining max c).cbCalled = false ∧
    (onSend false .none remaining max c) = noCb .ok ∧
    (onRecv .success .none remaining max c) = noCb (.ack .success) := by
  simp [onAckOrTimeout, onSend, onRecv, noCb]

/-- non-vacuity: concrete rows of the matrix (user limit 50 000, chain max 10^6).
    plenty of gas: error → ack stands, writes dropped; out of gas → ack stands (ErrCallbackOutOfGas);
    only 30 000 remaining (< commit): out of gas aborts; the same failing contract on receive gives an
    error acknowledgement. -/
example :
    (onAckOrTimeout .ack false (.valid 50000) 800000 1000000 ⟨10, .err, none⟩) = ⟨.ok, true, false, 10, some .errCallback⟩ ∧
    (onAckOrTimeout .timeout false (.valid 50000) 800000 1000000 ⟨50001, .ok, none⟩) = ⟨.ok, true, false, 50000, some .errOog⟩ ∧
    (onAckOrTimeout .ack false (.valid 50000) 30000 1000000 ⟨30001, .ok, none⟩) = ⟨.aborted, true, false, 30000, some .panicOog⟩ ∧
    (onRecv .success (.valid 50000) 800000 1000000 ⟨10, .panic, none⟩) = ⟨.ack .error, true, false, 10, some .errPanic⟩ ∧
    (onSend false (.valid 50000) 800000 1000000 ⟨10, .ok, none⟩) = ⟨.ok, true, true, 10, some .ok⟩ := by
  decide

end IbcVerif.C40
