/-
  C25 — Client recovery and upgrade are gated and touch only the subject.
  Property theorems only (model: IbcVerif/Model/Tm*.lean; lemmas: IbcVerif/Lemmas/Tm*.lean).

  `recoverStore sj sb now` is `Keeper.RecoverClient` + `LightClientModule.RecoverClient` +
  `CheckSubstituteAndUpdateState` on the subject's store `sj` given the substitute's store `sb`;
  `upgradeStore s now self u` is `Keeper.UpgradeClient` + `VerifyUpgradeAndUpdateState`, where the two
  ICS-23 verdicts (`u.proofClientOK`, `u.proofConsOK`: membership of the ZeroCustomFields'd upgraded client
  resp. the upgraded consensus state under the client's upgrade path at its latest height, against the
  latest consensus root) are parameters. Both ids are 07-tendermint ids (the type check is C46/C16's).
-/
import IbcVerif.Lemmas.TmGate
namespace IbcVerif.C25
open IbcVerif IbcVerif.Tm

/-- **Recovery succeeds iff** the subject exists and is not Active, the substitute is Active, the
    substitute's latest height is strictly greater, and the client states match (next theorem).
    (An Active substitute has consensus state + metadata at its latest height by the store invariant.) -/
theorem recover_success_iff (sj sb : Store) (hb : MetaInv sb) (now : Int) :
    (recoverStore sj sb now).2 = "ok" ↔
      ∃ cs scs, sj.client = some cs ∧ sb.client = some scs ∧ sj.status now ≠ .active ∧ sb.status now = .active ∧
        hk cs.latest < hk scs.latest ∧ isMatchingClientState cs scs = true := by
  rcases recoverStore_result sj sb hb now with ⟨_, hne, hno⟩ | ⟨cs, scs, c, ph, pt, a1, a2, a3, a4, a5, a6, _, _, _, e⟩
  · exact ⟨fun h => absurd h hne, fun h => absurd h hno⟩
  · exact ⟨fun _ => ⟨cs, scs, a1, a2, a3, a4, a5, a6⟩, fun _ => by rw [e]⟩

/-- **`IsMatchingClientState`**: every field must be equal except latest height, frozen height, trusting
    period, chain id and the two deprecated flags -/
theorem matching_fields (a b : ClientState) : isMatchingClientState a b = true ↔
    (a.tlNum = b.tlNum ∧ a.tlDen = b.tlDen ∧ a.unbondingPeriod = b.unbondingPeriod ∧ a.maxClockDrift = b.maxClockDrift ∧
     a.proofSpecs = b.proofSpecs ∧ a.upgradePath = b.upgradePath) := isMatching_iff a b

/-- a failed recovery writes nothing -/
theorem recover_failure_no_effect (sj sb : Store) (hb : MetaInv sb) (now : Int)
    (h : (recoverStore sj sb now).2 ≠ "ok") : (recoverStore sj sb now).1 = sj := by
  rcases recoverStore_result sj sb hb now with ⟨e, _, _⟩ | ⟨_, _, _, _, _, _, _, _, _, _, _, _, _, _, e⟩
  · exact e
  · rw [e] at h; exact absurd rfl h

/-- **Effect of a successful recovery**: the subject is unfrozen, takes the substitute's latest height,
    chain id and trusting period, receives the substitute's latest consensus state with its processed
    time and height (and an iteration entry) at that height — and nothing else changes: every other field
    of the client state and every other height keep their values. Afterwards the subject is Active. -/
theorem recover_effect (sj sb : Store) (hb : MetaInv sb) (now : Int) (h : (recoverStore sj sb now).2 = "ok") :
    ∃ cs scs, sj.client = some cs ∧ sb.client = some scs ∧
      let s' := (recoverStore sj sb now).1
      s'.client = some { cs with frozen := Height.zero, latest := scs.latest, chainId := scs.chainId,
                                 trustingPeriod := scs.trustingPeriod } ∧
      s'.getCons scs.latest = sb.getCons scs.latest ∧ s'.ptime.get scs.latest = sb.ptime.get scs.latest ∧
      s'.pheight.get scs.latest = sb.pheight.get scs.latest ∧ (s'.getCons scs.latest).isSome = true ∧
      (∀ h', h' ≠ scs.latest → s'.getCons h' = sj.getCons h' ∧ s'.ptime.get h' = sj.ptime.get h' ∧
        s'.pheight.get h' = sj.pheight.get h') ∧
      s'.status now = .active := by
  rcases recoverStore_result sj sb hb now with ⟨_, hne, _⟩ | ⟨cs, scs, c, ph, pt, a1, a2, a3, a4, a5, a6, g1, g2, g3, e⟩
  · exact absurd h hne
  · refine ⟨cs, scs, a1, a2, ?_⟩
    simp only [e]
    -- if the subject was not Frozen its frozen height is already zero
    have hfz : sj.status now ≠ .frozen → cs.frozen = Height.zero := by
      intro hnf
      have := status_spec sj cs a1 now
      by_cases z : hk cs.frozen = 0
      · exact hk_inj.mp (by rw [z]; rfl)
      · rw [this] at hnf; simp [z] at hnf
    have hclient : (recoveredStore cs scs sj c ph pt now).client =
        some { cs with frozen := Height.zero, latest := scs.latest, chainId := scs.chainId, trustingPeriod := scs.trustingPeriod } := by
      show some (recoveredClient cs scs (decide (sj.status now = Status.frozen))) = _
      unfold recoveredClient
      by_cases hf : sj.status now = Status.frozen
      · simp [hf]
      · simp only [hf, decide_false, Bool.false_eq_true, ↓reduceIte]
        have hz := hfz hf
        cases cs with
        | mk a b c d e f fr l ps up ae am =>
          simp only at hz
          subst hz
          rfl
    refine ⟨hclient, ?_, ?_, ?_, ?_, ?_, ?_⟩
    · unfold recoveredStore; rw [getCons_insert, g1]; simp
    · show FMap.get (FMap.set sj.ptime scs.latest pt) scs.latest = _
      rw [FMap.get_set_self, g3]
    · show FMap.get (FMap.set sj.pheight scs.latest ph) scs.latest = _
      rw [FMap.get_set_self, g2]
    · unfold recoveredStore; rw [getCons_insert]; simp
    · intro h' hne'
      refine ⟨?_, ?_, ?_⟩
      · unfold recoveredStore; rw [getCons_insert]; simp [Ne.symm hne']; rfl
      · show FMap.get (FMap.set sj.ptime scs.latest pt) h' = _
        exact FMap.get_set_ne _ _ _ _ (Ne.symm hne')
      · show FMap.get (FMap.set sj.pheight scs.latest ph) h' = _
        exact FMap.get_set_ne _ _ _ _ (Ne.symm hne')
    · -- Active: same consensus state and trusting period as the Active substitute
      obtain ⟨scs', c', hsc', _, hg', hlt'⟩ := (status_active_iff sb now).mp a4
      rw [a2] at hsc'; cases hsc'
      rw [g1] at hg'; cases hg'
      apply (status_active_iff _ now).mpr
      have hz0 : hk Height.zero = 0 := by simp [hk, Height.zero]
      refine ⟨_, c, hclient, hz0, ?_, hlt'⟩
      show (recoveredStore cs scs sj c ph pt now).getCons scs.latest = some c
      unfold recoveredStore; rw [getCons_insert]; simp

/-- **Upgrade succeeds iff** the client exists and is Active, both byte strings decode, the new latest
    height is strictly greater, the client has an upgrade path, both proofs decode and verify (under the
    committed upgrade path at the client's latest height against its latest consensus root), and the
    resulting client state validates. -/
theorem upgrade_success_iff (s : Store) (now : Int) (self : Height) (u : UpgradeReq) :
    (upgradeStore s now self u).2 = "ok" ↔
      ∃ cs, s.client = some cs ∧ s.status now = .active ∧ u.clientBzOK = true ∧ u.consBzOK = true ∧
        hk cs.latest < hk u.newClient.latest ∧ cs.upgradePath.isEmpty = false ∧
        u.proofClientParse = true ∧ u.proofConsParse = true ∧ u.proofClientOK = true ∧ u.proofConsOK = true ∧
        (upgradedClient cs u).validate = none := by
  rcases upgradeStore_result s now self u with ⟨_, hne, hno⟩ | ⟨cs, a1, a2, a3, a4, a5, a6, a7, a8, a9, a10, a11, e⟩
  · exact ⟨fun h => absurd h hne, fun h => absurd h hno⟩
  · exact ⟨fun _ => ⟨cs, a1, a2, a3, a4, a5, a6, a7, a8, a9, a10, a11⟩, fun _ => by rw [e]⟩

theorem upgrade_failure_no_effect (s : Store) (now : Int) (self : Height) (u : UpgradeReq)
    (h : (upgradeStore s now self u).2 ≠ "ok") : (upgradeStore s now self u).1 = s := by
  rcases upgradeStore_result s now self u with ⟨e, _, _⟩ | ⟨_, _, _, _, _, _, _, _, _, _, _, _, e⟩
  · exact e
  · rw [e] at h; exact absurd rfl h

/-- **Effect of a successful upgrade**: chain-chosen fields (chain id, unbonding period, latest height,
    proof specs, upgrade path) come from the committed client; the client's own trust level and clock
    drift are kept; the trusting period is kept, or scaled by `calculateNewTrustingPeriod` iff the
    unbonding period shrank; the client is unfrozen with cleared deprecated flags; the new consensus
    state (committed timestamp and next-validators hash, sentinel root) and its metadata (current block
    height and time) are written at the new latest height; every other height is unchanged. -/
theorem upgrade_effect (s : Store) (now : Int) (self : Height) (u : UpgradeReq) (h : (upgradeStore s now self u).2 = "ok") :
    ∃ cs, s.client = some cs ∧
      let s' := (upgradeStore s now self u).1
      s'.client = some
        { chainId := u.newClient.chainId, unbondingPeriod := u.newClient.unbondingPeriod, latest := u.newClient.latest,
          proofSpecs := u.newClient.proofSpecs, upgradePath := u.newClient.upgradePath,
          tlNum := cs.tlNum, tlDen := cs.tlDen, maxClockDrift := cs.maxClockDrift,
          trustingPeriod := if u.newClient.unbondingPeriod < cs.unbondingPeriod then
              (calculateNewTrustingPeriod cs.trustingPeriod.toNat cs.unbondingPeriod.toNat u.newClient.unbondingPeriod.toNat : Int)
            else cs.trustingPeriod,
          frozen := Height.zero, allowExpiry := false, allowMisb := false } ∧
      s'.getCons u.newClient.latest = some ⟨u.newCons.ts, sentinelRootHex, u.newCons.nvh⟩ ∧
      s'.ptime.get u.newClient.latest = some now.toNat ∧ s'.pheight.get u.newClient.latest = some self ∧
      (∀ h', h' ≠ u.newClient.latest → s'.getCons h' = s.getCons h' ∧ s'.ptime.get h' = s.ptime.get h' ∧
        s'.pheight.get h' = s.pheight.get h') := by
  rcases upgradeStore_result s now self u with ⟨_, hne, _⟩ | ⟨cs, a1, _, _, _, _, _, _, _, _, _, _, e⟩
  · exact absurd h hne
  · refine ⟨cs, a1, ?_⟩
    simp only [e]
    refine ⟨rfl, ?_, ?_, ?_, ?_⟩
    · have e1 : (upgradedClient cs u).latest = u.newClient.latest := rfl
      unfold upgradedStore; rw [e1, getCons_insert]; simp
    · show FMap.get (FMap.set s.ptime u.newClient.latest now.toNat) u.newClient.latest = _
      exact FMap.get_set_self _ _ _
    · show FMap.get (FMap.set s.pheight u.newClient.latest self) u.newClient.latest = _
      exact FMap.get_set_self _ _ _
    · intro h' hne'
      refine ⟨?_, ?_, ?_⟩
      · have e1 : (upgradedClient cs u).latest = u.newClient.latest := rfl
        unfold upgradedStore; rw [e1, getCons_insert]
        simp [Ne.symm hne']; rfl
      · show FMap.get (FMap.set s.ptime u.newClient.latest now.toNat) h' = _
        exact FMap.get_set_ne _ _ _ _ (Ne.symm hne')
      · show FMap.get (FMap.set s.pheight u.newClient.latest self) h' = _
        exact FMap.get_set_ne _ _ _ _ (Ne.symm hne')

/-- **Trusting-period scaling is exact**: for unbonding periods below 10^18 ns (≈ 31.7 years) the new
    trusting period is `⌊trustingPeriod · newUnbonding / oldUnbonding⌋` (the 18-decimal round-half-even of
    `LegacyDec.Quo` never reaches the next integer); in particular it never exceeds the old one when the
    unbonding period shrinks -/
theorem trusting_period_scaling (tp ou nu : Nat) (h0 : 0 < ou) (h1 : ou < 10 ^ 18) :
    calculateNewTrustingPeriod tp ou nu = tp * nu / ou ∧ (nu ≤ ou → calculateNewTrustingPeriod tp ou nu ≤ tp) := by
  have e := calcTP_floor tp ou nu h0 h1
  refine ⟨e, fun hle => ?_⟩
  rw [e]
  calc tp * nu / ou ≤ tp * ou / ou := Nat.div_le_div_right (Nat.mul_le_mul_left tp hle)
    _ = tp := Nat.mul_div_cancel tp h0

/-- relayer-chosen fields of the submitted client state (trust level, trusting period, clock drift,
    frozen height, deprecated flags) have no influence on the upgraded client state -/
theorem upgrade_ignores_relayer_fields (cs : ClientState) (u u' : UpgradeReq)
    (h1 : u.newClient.chainId = u'.newClient.chainId) (h2 : u.newClient.unbondingPeriod = u'.newClient.unbondingPeriod)
    (h3 : u.newClient.latest = u'.newClient.latest) (h4 : u.newClient.proofSpecs = u'.newClient.proofSpecs)
    (h5 : u.newClient.upgradePath = u'.newClient.upgradePath) :
    upgradedClient cs u = upgradedClient cs u' := by
  unfold upgradedClient
  rw [h1, h2, h3, h4, h5]

/-- **Neither operation changes any other client** (substitute and bystanders included), nor the
    chain's clock or client counter -/
theorem others_untouched (w : World) (op : Op) (subject : Nat)
    (hop : (∃ b, op = .recover subject b) ∨ (∃ u, op = .upgrade subject u)) :
    (∀ cid, cid ≠ subject → (step w op).1.client cid = w.client cid) ∧
    (step w op).1.now = w.now ∧ (step w op).1.self = w.self ∧ (step w op).1.nextSeq = w.nextSeq := by
  rcases hop with ⟨b, e⟩ | ⟨u, e⟩ <;> subst e
  · exact ⟨fun cid hne => client_put_ne _ _ _ _ (Ne.symm hne), rfl, rfl, rfl⟩
  · exact ⟨fun cid hne => client_put_ne _ _ _ _ (Ne.symm hne), rfl, rfl, rfl⟩

/-! ### non-vacuity: a frozen subject recovered through an Active substitute; bystander untouched -/

def exNv : String := String.ofList (List.replicate 64 'a')
def exRoot : String := String.ofList (List.replicate 64 'c')
def exCs (latest : Height) (frozen : Height) (chain : String) : ClientState :=
  { chainId := chain, tlNum := 1, tlDen := 3, trustingPeriod := 1000000000000, unbondingPeriod := 1500000000000,
    maxClockDrift := 10000000000, frozen := frozen, latest := latest, proofSpecs := some "sdk", upgradePath := ["upgrade"],
    allowExpiry := false, allowMisb := false }
def exW : World :=
  { clients := [(0, initClient (exCs ⟨1, 5⟩ ⟨0, 1⟩ "simchain-1") ⟨3000000000, exRoot, exNv⟩ 3000000001 ⟨1, 1⟩),
                (1, initClient (exCs ⟨1, 9⟩ ⟨0, 0⟩ "otherchain-1") ⟨3000000000, exRoot, exNv⟩ 3000000001 ⟨1, 1⟩),
                (2, initClient (exCs ⟨1, 9⟩ ⟨0, 0⟩ "simchain-1") ⟨3000000000, exRoot, exNv⟩ 3000000001 ⟨1, 1⟩)],
    nextSeq := 3, now := 3000000002, self := ⟨1, 2⟩ }

example : (step exW (.recover 0 1)).2 = "ok" ∧
    ((step exW (.recover 0 1)).1.client 0).status 3000000002 = .active ∧
    ((step exW (.recover 0 1)).1.client 0).latestHeight = ⟨1, 9⟩ ∧
    (step exW (.recover 1 0)).2 = "err:invalid-recovery-client" ∧
    (step exW (.recover 0 0)).2 = "err:client-not-active" := by decide

end IbcVerif.C25
