/-
  C07 — Packet and acknowledgement commitments bind every committed field.
  All statements are in collision-extraction form: equal commitments imply equal fields, or an
  explicit SHA-256 collision exists (so no injectivity assumption is needed and the statements are
  non-vacuous for the real hash).  `H` is any function with 32-byte outputs; the executable
  SHA-256 used by the driver satisfies that (`Sha256.sha256_length`).
-/
import IbcVerif.Lemmas.Commit
import IbcVerif.Model.Sha256
namespace IbcVerif.C07
open IbcVerif IbcVerif.Commit

variable (H : Bytes → Bytes) (hlen : ∀ b, (H b).length = 32)
include hlen

/-- v1: the hashed preimage has a fixed length (8+8+8+32), so field boundaries cannot shift. -/
theorem v1_preimage_fixed_length (p : PacketV1) : (preimageV1 H p).length = 56 :=
  preimageV1_length H hlen p

/-- v1: two packets with the same commitment *preimage* agree on timeout timestamp, timeout height
    and on the data hash. -/
theorem v1_preimage_binds (p q : PacketV1) (hp : p.WF) (hq : q.WF) (h : preimageV1 H p = preimageV1 H q) :
    p.timeoutTs = q.timeoutTs ∧ p.revNumber = q.revNumber ∧ p.revHeight = q.revHeight ∧ H p.data = H q.data :=
  preimageV1_fields H hlen hp hq h

/-- v1: equal commitments ⇒ equal (timeout height, timeout timestamp, data), or a collision. -/
theorem v1_commitment_binds (p q : PacketV1) (hp : p.WF) (hq : q.WF) (h : commitV1 H p = commitV1 H q) :
    p = q ∨ Collision H := by
  by_cases hc : Collision H
  · exact Or.inr hc
  · left
    have inj := inj_of_no_collision hc
    have hpre := inj _ _ h
    obtain ⟨h1, h2, h3, h4⟩ := preimageV1_fields H hlen hp hq hpre
    have h5 := inj _ _ h4
    cases p; cases q; simp_all

omit hlen in
/-- v1 acknowledgement commitment binds the acknowledgement bytes. -/
theorem v1_ack_binds (a b : Bytes) (h : commitAckV1 H a = commitAckV1 H b) : a = b ∨ Collision H := by
  by_cases hc : Collision H
  · exact Or.inr hc
  · exact Or.inl (inj_of_no_collision hc _ _ h)

/-- v2: payload hash preimage is five 32-byte blocks. -/
theorem v2_payload_preimage_fixed_length (d : Payload) : (payloadPreimage H d).length = 160 :=
  payloadPreimage_length H hlen d

/-- v2: a payload hash binds source port, destination port, version, encoding and value. -/
theorem v2_payload_binds (d e : Payload) (h : hashPayload H d = hashPayload H e) : d = e ∨ Collision H := by
  by_cases hc : Collision H
  · exact Or.inr hc
  · left
    have inj := inj_of_no_collision hc
    obtain ⟨h1, h2, h3, h4, h5⟩ := payloadPreimage_fields H hlen (inj _ _ h)
    have := inj _ _ h1; have := inj _ _ h2; have := inj _ _ h3; have := inj _ _ h4; have := inj _ _ h5
    cases d; cases e; simp_all

/-- v2: the packet preimage has fixed length 1+32+32+32. -/
theorem v2_preimage_fixed_length (p : PacketV2) : (preimageV2 H p).length = 97 :=
  preimageV2_length H hlen p

/-- v2: equal commitments ⇒ equal destination client, timeout and the *whole payload list*
    (length, order and every field of every payload), or a collision. -/
theorem v2_commitment_binds (p q : PacketV2) (hp : p.timeoutTs < 2^64) (hq : q.timeoutTs < 2^64)
    (h : commitV2 H p = commitV2 H q) : p = q ∨ Collision H := by
  by_cases hc : Collision H
  · exact Or.inr hc
  · left
    have inj := inj_of_no_collision hc
    obtain ⟨h1, h2, h3⟩ := preimageV2_fields H hlen (inj _ _ h)
    have e1 := inj _ _ h1
    have e2 := be64_inj hp hq (inj _ _ h2)
    have e3 := appBytes_inj H hlen (inj _ _ h3)
    have pinj : ∀ d e : Payload, hashPayload H d = hashPayload H e → d = e := by
      intro d e hde
      rcases v2_payload_binds H hlen d e hde with r | r
      · exact r
      · exact absurd r hc
    have e4 := map_inj_of_inj (hashPayload H) pinj _ _ e3
    cases p; cases q; simp_all

/-- v2: the acknowledgement commitment binds the ordered list of application acknowledgements. -/
theorem v2_ack_binds (as bs : List Bytes) (h : commitAckV2 H as = commitAckV2 H bs) : as = bs ∨ Collision H := by
  by_cases hc : Collision H
  · exact Or.inr hc
  · left
    have inj := inj_of_no_collision hc
    have hpre := inj _ _ h
    unfold ackPreimageV2 at hpre
    have := ackBlocks_inj H hlen (List.append_cancel_left hpre)
    exact map_inj_of_inj H inj _ _ this

omit hlen in
/-- determinism/specification: the commitment bytes are exactly the documented formula. -/
theorem v1_formula (p : PacketV1) :
    commitV1 H p = H (be64 p.timeoutTs ++ be64 p.revNumber ++ be64 p.revHeight ++ H p.data) := rfl

omit hlen in
theorem v2_formula (p : PacketV2) :
    commitV2 H p = H ([2] ++ (H p.destClient ++ H (be64 p.timeoutTs) ++
      H ((p.payloads.map fun d => H (H d.sourcePort ++ H d.destPort ++ H d.version ++ H d.encoding ++ H d.value)).flatten))) := rfl

omit hlen in
theorem v2_ack_formula (as : List Bytes) : commitAckV2 H as = H ([2] ++ (as.map H).flatten) := rfl

/-- non-vacuity: the executable SHA-256 meets the length hypothesis, and boundary-shifted payload
    lists (["ab","c"] vs ["a","bc"] as values) really have different preimages. -/
example : ∀ b, (Sha256.sha256 b).length = 32 := Sha256.sha256_length
example : ({ timeoutTs := 5, revNumber := 1, revHeight := 2^64 - 1, data := [1, 2] } : PacketV1).WF := by
  simp [PacketV1.WF]

end IbcVerif.C07
