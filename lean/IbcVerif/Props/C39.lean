/-
  C39 — GMP accounts are uniquely derived and only act for themselves.
  Property theorems only; model: IbcVerif/Model/Gmp.lean; helper lemmas: IbcVerif/Lemmas/Gmp.lean.
  `H` is the hash behind `address.Module` (SHA-256 in the code), a parameter; binding is stated in
  collision-extraction form, so no injectivity of `H` is assumed.
-/
import IbcVerif.Model.Gmp
import IbcVerif.Lemmas.Gmp
namespace IbcVerif.C39
open IbcVerif IbcVerif.Apps IbcVerif.Gmp

/-- **The derivation key is injective for ALL byte strings** (lengths below 2^64, as every Go slice):
    the 8-byte big-endian length prefixes make the concatenation uniquely decodable, in particular for
    triples whose raw concatenations coincide. -/
theorem gmp_key_injective (c s t c' s' t' : Bytes)
    (hc : c.length < 2 ^ 64) (hs : s.length < 2 ^ 64) (ht : t.length < 2 ^ 64)
    (hc' : c'.length < 2 ^ 64) (hs' : s'.length < 2 ^ 64) (ht' : t'.length < 2 ^ 64)
    (h : accountKey c s t = accountKey c' s' t') : c = c' ∧ s = s' ∧ t = t' :=
  accountKey_inj c s t c' s' t' hc hs ht hc' hs' ht' h

/-- without the prefixes the derivation would not be injective: these two triples have the same raw
    concatenation but different keys -/
example : ([1, 2] ++ [3] ++ ([] : Bytes)) = ([1] ++ [2, 3] ++ ([] : Bytes)) ∧
    accountKey [1, 2] [3] [] ≠ accountKey [1] [2, 3] [] := by decide

/-- **The address binds the triple** (collision extraction): two triples with the same account address
    are equal, or the two explicit preimages are a collision of `H` (for SHA-256: a SHA-256 collision).
    `hlen`: `H` returns 32 bytes, so the truncation to AccountAddrLen = 32 keeps everything. -/
theorem gmp_address_binds (H : Bytes → Bytes) (hlen : ∀ x, (H x).length = 32) (c s t c' s' t' : Bytes)
    (hc : c.length < 2 ^ 64) (hs : s.length < 2 ^ 64) (ht : t.length < 2 ^ 64)
    (hc' : c'.length < 2 ^ 64) (hs' : s'.length < 2 ^ 64) (ht' : t'.length < 2 ^ 64)
    (h : accountAddress H c s t = accountAddress H c' s' t') :
    (c = c' ∧ s = s' ∧ t = t') ∨
    (addressPreimage H c s t ≠ addressPreimage H c' s' t' ∧
      H (addressPreimage H c s t) = H (addressPreimage H c' s' t')) := by
  unfold accountAddress at h
  rw [List.take_of_length_le (by rw [hlen]; omega), List.take_of_length_le (by rw [hlen]; omega)] at h
  by_cases hp : addressPreimage H c s t = addressPreimage H c' s' t'
  · left
    unfold addressPreimage at hp
    have := List.append_cancel_left (List.append_cancel_left hp)
    exact accountKey_inj c s t c' s' t' hc hs ht hc' hs' ht' this
  · exact Or.inr ⟨hp, h⟩

/-- **The mapping never changes once used.**  After a triple has been given an address, using any
    further triples (this one included, any number of times) leaves its address as it was; and the
    first use of a triple stores exactly the derived address. -/
theorem mapping_stable (H : Bytes → Bytes) (acc : Accounts) (t : Triple) (a : Bytes) (ts : List Triple)
    (h : KV.get acc t = some a) : KV.get (useAll H acc ts) t = some a := by
  induction ts generalizing acc with
  | nil => exact h
  | cons t' rest ih => exact ih _ (getOrCreate_keeps H acc t t' a h)

theorem first_use_stores_derived (H : Bytes → Bytes) (acc : Accounts) (t : Triple) (h : KV.get acc t = none) :
    (getOrCreate H acc t).2 = accountAddress H t.1 t.2.1 t.2.2 ∧
    KV.get (getOrCreate H acc t).1 t = some (accountAddress H t.1 t.2.1 t.2.2) := by
  unfold getOrCreate
  simp [h, KV.get_set]

theorem known_triple_returns_stored (H : Bytes → Bytes) (acc : Accounts) (t : Triple) (a : Bytes)
    (h : KV.get acc t = some a) : getOrCreate H acc t = (acc, a) := by
  unfold getOrCreate; simp [h]

/-- **Execution decision.**  A GMP packet's messages execute iff the list is non-empty, every message
    has exactly one signer and that signer is this account, and every ValidateBasic / handler succeeds
    in order. -/
theorem gmp_exec_iff {σ : Type} (account : String) (msgs : List (Ica.Msg σ)) (s : σ) :
    (executeTx account msgs s).2 = none ↔
      (msgs ≠ [] ∧ (∀ m ∈ msgs, SingleSigner account m) ∧ HandlersOk msgs s) := by
  unfold executeTx authenticateTx
  cases msgs with
  | nil => simp
  | cons m t =>
    simp only [List.isEmpty_cons, Bool.false_eq_true, if_false, ne_eq, reduceCtorEq, not_false_eq_true, true_and]
    cases hauth : authenticateTx.go account (m :: t) with
    | some e =>
      have : ¬ ∀ x ∈ m :: t, SingleSigner account x := by
        rw [← authenticate_go_none]; simp [hauth]
      constructor
      · intro h; cases h
      · intro h; exact absurd h.1 this
    | none =>
      have hall := (authenticate_go_none account (m :: t)).mp hauth
      cases hrun : runMsgs (m :: t) s with
      | error e =>
        have : ¬ HandlersOk (m :: t) s := by
          rw [← runMsgs_ok_iff]; simp [hrun]
        simp [this]
      | ok s' =>
        have : HandlersOk (m :: t) s := (runMsgs_ok_iff (m :: t) s).mp ⟨s', hrun⟩
        simp only [this, and_true, true_iff]
        exact hall

/-- **Atomicity**: any failure leaves the state unchanged. -/
theorem gmp_atomic {σ : Type} (account : String) (msgs : List (Ica.Msg σ)) (s : σ) (e : ExecErr)
    (h : (executeTx account msgs s).2 = some e) : (executeTx account msgs s).1 = s := by
  unfold executeTx at *
  cases hauth : authenticateTx account msgs with
  | some e' => simp
  | none =>
    simp only [hauth] at h ⊢
    cases hrun : runMsgs msgs s with
    | error e' => simp
    | ok s' => simp [hrun] at h

/-- a message with no signer, or with two signers one of which is the account, is refused -/
example : (executeTx "acct" [⟨"/a", [], true, true, fun s : Nat => some (s + 1)⟩] 0) = (0, some .signerCount) ∧
    (executeTx "acct" [⟨"/a", ["acct", "acct"], true, true, fun s : Nat => some (s + 1)⟩] 0) = (0, some .signerCount) ∧
    (executeTx "acct" ([] : List (Ica.Msg Nat)) 0) = (0, some .emptyPayload) ∧
    (executeTx "acct" [⟨"/a", ["acct"], true, true, fun s : Nat => some (s + 1)⟩,
                       ⟨"/b", ["acct"], true, true, fun s : Nat => some (s + 10)⟩] 0) = (11, none) := by
  decide

/-- **Outgoing packets: the packet sender is the transaction signer.** -/
theorem send_sender_is_signer (portsOk clientIdsOk dataOk : Bool) (sender : Option Bytes) (signer : Bytes)
    (h : onSend portsOk clientIdsOk dataOk sender signer = none) :
    sender = some signer ∧ portsOk = true ∧ clientIdsOk = true ∧ dataOk = true := by
  unfold onSend at h
  cases portsOk <;> cases clientIdsOk <;> cases dataOk <;> simp at h
  cases sender with
  | none => simp at h
  | some a =>
    by_cases he : a = signer
    · simp [he]
    · simp [he] at h

end IbcVerif.C39
