/-
  C38 — Interchain-account channels: one active channel, owner-only sends.
  Property theorems only; model: IbcVerif/Model/Ica.lean Part B (two-chain world, relayers choose the
  order of handshake steps); helper lemmas: IbcVerif/Lemmas/IcaLife.lean.

  Result: the controller side of the property holds in full (for all histories).  On the HOST side
  "the active channel is replaced only after it is CLOSED" is false of the code: `OnChanOpenConfirm`
  sets the active channel unconditionally (`host_replace_only_after_closed_full_false`, witness
  replayed on two real chains by the harness; open known finding).  What does hold on the host is
  stated as `host_try_requires_closed_partial` and `host_account_stable`.
-/
import IbcVerif.Model.Ica
import IbcVerif.Lemmas.IcaLife
namespace IbcVerif.C38
open IbcVerif.Apps IbcVerif.Ica

/-- both chains empty, both submodules enabled; connection pairing, address validity, address
    generation and pre-existing host accounts are arbitrary parameters -/
def start (peer : List (String × String)) (validAddr : String → Bool) (genAddr : String → String → String)
    (taken : List String) : World :=
  { ctrl := ⟨[], [], [], 0, true⟩, host := ⟨[], [], [], 0, true⟩, peer := peer, validAddr := validAddr,
    genAddr := genAddr, taken := taken }

/-- **One active channel (controller).**  After ANY history of registrations, third-party INITs,
    TRY/ACK/CONFIRM in any order (crossing handshakes included), ordered-channel timeouts and
    close-confirms: an OPEN interchain-account channel is the active channel of its (connection,
    owner port), hence two OPEN channels of one (connection, owner) are the same channel. -/
theorem ctrl_active_unique (peer validAddr genAddr taken) (ops : List Op) :
    let w := run (start peer validAddr genAddr taken) ops
    (∀ id c, w.ctrl.chan id = some c → c.state = .opened → KV.get w.ctrl.active (c.conn, c.port) = some id) ∧
    (∀ id1 id2 c1 c2, w.ctrl.chan id1 = some c1 → w.ctrl.chan id2 = some c2 →
      c1.state = .opened → c2.state = .opened → c1.conn = c2.conn → c1.port = c2.port → id1 = id2) := by
  have h : CInv (run (start peer validAddr genAddr taken) ops).ctrl := CInv.run (CInv.empty true) ops
  refine ⟨h.openIsActive, ?_⟩
  intro id1 id2 c1 c2 h1 h2 o1 o2 hc hp
  have a1 := h.openIsActive id1 c1 h1 o1
  have a2 := h.openIsActive id2 c2 h2 o2
  rw [hc, hp, a2] at a1
  exact (Option.some.inj a1).symm

/-- **Replaced only after CLOSED (controller).**  In any reachable world, if a step changes the active
    channel of a key from `old` to a different `new`, then `old` was CLOSED before the step. -/
theorem ctrl_replace_only_after_closed (peer validAddr genAddr taken) (ops : List Op) (op : Op)
    (k : Key) (old new : Nat) :
    let w := run (start peer validAddr genAddr taken) ops
    KV.get w.ctrl.active k = some old → KV.get (step w op).1.ctrl.active k = some new → new ≠ old →
    ∃ c, w.ctrl.chan old = some c ∧ c.state = .closed := by
  intro w hold hnew hne
  have h : CInv w.ctrl := CInv.run (CInv.empty true) ops
  have same : (step w op).1.ctrl.active = w.ctrl.active → False := by
    intro he; rw [he, hold] at hnew; exact hne (Option.some.inj hnew).symm
  cases op with
  | register o c v ord =>
    exfalso; apply same
    simp only [step]
    rcases (register_shape w o c v ord).2 with h1 | ⟨ch, _, h1⟩ <;> rw [h1]
  | init ord c p cp v =>
    exfalso; apply same
    simp only [step]
    rcases (ctrlInit_shape w ord c p cp v).2 with h1 | ⟨ch, _, h1⟩ <;> rw [h1]
  | hostTry cid => exfalso; apply same; simp only [step]; rw [hostTry_ctrl]
  | hostConfirm hid => exfalso; apply same; simp only [step]; rw [hostConfirm_ctrl]
  | hostCloseConfirm hid => exfalso; apply same; simp only [step]; rw [hostCloseConfirm_ctrl]
  | timeoutClose cid =>
    exfalso; apply same
    simp only [step]
    rcases (timeoutClose_shape w cid).2 with h1 | ⟨cc, _, _, h1⟩ <;> rw [h1]
  | hostInit => exact (same rfl).elim
  | ctrlTry => exact (same rfl).elim
  | closeInit => exact (same rfl).elim
  | setEnabled c on => cases c <;> exact (same rfl).elim
  | ctrlAck cid hid =>
    simp only [step] at hnew same
    rcases (ctrlAck_shape w cid hid).2 with h1 | ⟨cc, m, h1, h2, h3, _, h5⟩
    · rw [h1] at same; exact (same rfl).elim
    · rw [h5] at hnew
      simp only [KV.get_set] at hnew
      by_cases hk : (cc.conn, cc.port) = k
      · obtain ⟨c, hc1, _, hc3, hc4⟩ := h.activeSettled k old hold
        refine ⟨c, hc1, ?_⟩
        rcases hc4 with hc4 | hc4
        · exfalso
          unfold Side.openActive at h3
          rw [hk, hold] at h3
          have hp : c.port = cc.port := by rw [hc3, ← hk]
          simp [hc1, hp, hc4] at h3
        · exact hc4
      · simp only [hk, if_false] at hnew
        rw [hold] at hnew
        exact absurd (Option.some.inj hnew).symm hne

/-- **Reopening keeps ordering and metadata.**  When the controller accepts a new handshake for a key
    that already has an active channel, that channel is CLOSED, the ordering is the same and the
    metadata (version, both connection ids, encoding, tx type) equals the previous one. -/
theorem reopen_keeps_order_and_metadata (w : World) (order : Order) (conn port cpPort : String)
    (v : Option (Option Metadata)) (m : Metadata) (aid : Nat) (c : Chan)
    (hok : ctrlOnInit w order conn port cpPort v = .ok m)
    (ha : KV.get w.ctrl.active (conn, port) = some aid) (hc : w.ctrl.chan aid = some c) :
    c.state = .closed ∧ c.order = order ∧ ∃ pm, c.md = some pm ∧ pm.sameButAddress m = true := by
  have hre : reopenCheck w order conn port m = none := by
    unfold ctrlOnInit at hok
    split at hok; · cases hok
    split at hok; · cases hok
    split at hok; · cases hok
    split at hok; · cases hok
    split at hok; · cases hok
    split at hok; · cases hok
    split at hok; · cases hok
    split at hok
    · cases hok
    · rename_i hr
      cases hok
      exact hr
  unfold reopenCheck at hre
  rw [ha] at hre
  simp only [hc] at hre
  split at hre; · cases hre
  split at hre; · cases hre
  rename_i h1 h2
  simp only [bne_iff_ne, ne_eq, Decidable.not_not] at h1 h2
  refine ⟨h1, h2, ?_⟩
  split at hre
  · rename_i pm hpm
    split at hre
    · rename_i hs; exact ⟨pm, hpm, hs⟩
    · cases hre
  · cases hre

/-- **Only the controller initiates, always towards the host port.**  The host module refuses
    ChanOpenInit, the controller module refuses ChanOpenTry, nobody may close by hand, and a
    controller-side INIT is accepted only on an `icacontroller-…` port with counterparty port `icahost`. -/
theorem controller_initiates (w : World) :
    step w .hostInit = (w, some .invalidChannelFlow) ∧ step w .ctrlTry = (w, some .invalidChannelFlow) ∧
    step w .closeInit = (w, some .invalidRequest) ∧
    (∀ order conn port cpPort v m, ctrlOnInit w order conn port cpPort v = .ok m →
      cpPort = hostPort ∧ hasPrefix ctrlPrefix port = true) := by
  refine ⟨rfl, rfl, rfl, ?_⟩
  intro order conn port cpPort v m hok
  unfold ctrlOnInit at hok
  split at hok; · cases hok
  split at hok; · cases hok
  split at hok; · cases hok
  split at hok; · cases hok
  rename_i h1 h2
  simp only [bne_iff_ne, ne_eq, Decidable.not_not, Bool.not_eq_true', Bool.not_eq_false] at h1 h2
  exact ⟨h2, by simpa using h1⟩

/-- **Owner-only sends.**  A `MsgSendTx` leads to a packet only if its signer is the owner it names
    (its sole signer by the proto annotation), the packet leaves on the port derived from that owner
    and on that owner's OPEN active channel; distinct owners have distinct ports. -/
theorem owner_only_send (w : World) (signer owner conn : String) (t d : Bool) (port : String) (cid : Nat)
    (h : sendTx w signer owner conn t d = .ok (port, cid)) :
    signer = owner ∧ port = ctrlPrefix ++ owner ∧ w.ctrl.openActive (conn, port) port = some cid := by
  unfold sendTx at h
  split at h; · cases h
  split at h; · cases h
  split at h; · cases h
  rename_i h1 _ _
  dsimp only at h
  split at h
  · cases h
  · rename_i cid' hoa
    split at h; · cases h
    split at h; · cases h
    simp only [Except.ok.injEq, Prod.mk.injEq] at h
    obtain ⟨hp, hc⟩ := h
    subst hp; subst hc
    exact ⟨by simpa using h1, rfl, hoa⟩

theorem controller_port_injective (o1 o2 : String) (h : ctrlPrefix ++ o1 = ctrlPrefix ++ o2) : o1 = o2 := by
  have := congrArg String.toList h
  simp only [String.toList_append, List.append_cancel_left_eq] at this
  exact String.toList_inj.mp this

/-- **The host account of a (connection, owner) never changes.**  Once an address is stored for a key on
    the host, every later step keeps it — a reopening TRY reuses it instead of generating a new one. -/
theorem host_account_stable (w : World) (op : Op) (k : Key) (a : String)
    (h : KV.get w.host.addr k = some a) : KV.get (step w op).1.host.addr k = some a := by
  cases op with
  | register o c v ord => simp only [step]; rw [(register_shape w o c v ord).1]; exact h
  | init ord c p cp v => simp only [step]; rw [(ctrlInit_shape w ord c p cp v).1]; exact h
  | ctrlAck cid hid => simp only [step]; rw [(ctrlAck_shape w cid hid).1]; exact h
  | timeoutClose cid => simp only [step]; rw [(timeoutClose_shape w cid).1]; exact h
  | hostInit => exact h
  | ctrlTry => exact h
  | closeInit => exact h
  | setEnabled c on => cases c <;> exact h
  | hostConfirm hid =>
    simp only [step]
    unfold hostConfirm
    repeat' first
      | exact h
      | split
      | dsimp only
  | hostCloseConfirm hid =>
    simp only [step]
    unfold hostCloseConfirm
    repeat' first
      | exact h
      | split
      | dsimp only
  | hostTry cid =>
    simp only [step]
    unfold hostTry
    repeat' first
      | exact h
      | split
      | dsimp only
    all_goals
      rename_i hacct
      split at hacct
      · cases hacct; exact h
      · rename_i hnone
        split at hacct
        · cases hacct
        · cases hacct
          simp only [KV.get_set]
          split
          · rename_i hk; rw [← hk, hnone] at h; cases h
          · exact h

/-- **Host, what does hold:** a TRY is accepted only if the key's active channel (if any) is CLOSED at
    that moment. -/
theorem host_try_requires_closed_partial (w : World) (cid id : Nat) (w' : World)
    (hok : hostTry w cid = (w', .ok id)) :
    ∃ cc hconn, w.ctrl.chan cid = some cc ∧ KV.get w.peer cc.conn = some hconn ∧
      ∀ aid, KV.get w.host.active (hconn, cc.port) = some aid → ∃ c, w.host.chan aid = some c ∧ c.state = .closed := by
  unfold hostTry at hok
  split at hok; · cases hok
  rename_i cc hcc
  split at hok; · cases hok
  rename_i hconn hpeer
  refine ⟨cc, hconn, hcc, hpeer, ?_⟩
  intro aid haid
  split at hok; · cases hok
  split at hok; · cases hok
  split at hok; · cases hok
  dsimp only at hok
  split at hok; · cases hok
  rw [haid] at hok
  dsimp only at hok
  cases hc : w.host.chan aid with
  | none => simp [hc] at hok
  | some c =>
    refine ⟨c, rfl, ?_⟩
    simp only [hc] at hok
    by_cases hs : c.state = .closed
    · exact hs
    · simp [hs] at hok

/-- the host-side statement analogous to `ctrl_replace_only_after_closed` -/
def host_replace_only_after_closed_full : Prop :=
  ∀ (ops : List Op) (op : Op) (k : Key) (old new : Nat),
    let w := run (start [("cconn", "hconn")] (fun _ => true) (fun h p => h ++ "/" ++ p) []) ops
    KV.get w.host.active k = some old → KV.get (step w op).1.host.active k = some new → new ≠ old →
    ∃ c, w.host.chan old = some c ∧ c.state = .closed

/-- It is false of the code.  Witness (9 ops, replayed on real chains): the owner registers twice
    (ORDERED) — channels 0 and 1; both are TRYed; 0 is ACKed and CONFIRMed (host active = 0); controller
    channel 0 is closed by a timed-out packet; 1 is ACKed (allowed: 0 is closed on the controller);
    CONFIRM of host channel 1 replaces the host's active channel 0, which is still OPEN on the host. -/
theorem host_replace_only_after_closed_full_false : ¬ host_replace_only_after_closed_full := by
  intro h
  have := h [.register "o" "cconn" none .ordered, .register "o" "cconn" none .ordered, .hostTry 0, .hostTry 1,
    .ctrlAck 0 0, .hostConfirm 0, .timeoutClose 0, .ctrlAck 1 1] (.hostConfirm 1) ("hconn", "icacontroller-o") 0 1
    (by decide) (by decide) (by decide)
  revert this
  decide

end IbcVerif.C38
