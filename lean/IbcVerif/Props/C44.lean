/-
  C44 — Genesis export/import preserves all protocol-observable IBC state.
  Property statements only; the model is IbcVerif/Model/Genesis.lean, helper lemmas are in
  IbcVerif/Lemmas/Genesis.lean.

  Verdict for the unchanged code: the full statement is FALSE (`import_export_id_full_false`).
  What export->import keeps is characterised exactly (`import_export_loss`): everything except the
  state keyed by an identifier that is not a light client — in reachable states the v1 channel ids of
  OPEN UNORDERED channels acting as IBC-v2 aliases: their counterparty / config entries, the
  alias->client entry and all v2 packet state (commitments, receipts, acks, async packets).
  Outside that shape the round trip is the identity (`import_export_id_partial`), and that hypothesis
  is the weakest possible (`import_export_id_only_if`).
-/
import IbcVerif.Model.Genesis
import IbcVerif.Lemmas.Genesis
namespace IbcVerif.C44
open IbcVerif.Genesis

/-- The property as stated in properties.jsonl: exporting any well-formed ibc store and starting a
    fresh chain from the export (`initGenesis` = validation + `ibc.InitGenesis`; `none` = the chain
    panics at start) reproduces the store. FALSE of the code in two independent ways, see
    `import_export_id_full_false` (alias-keyed state is dropped) and
    `import_export_id_full_false_selfnamed` (the export of a valid state is rejected). -/
def import_export_id_full : Prop :=
  ∀ (env : Env) (s : State), WF env s → initGenesis env (exportG s) = some s

/-- Exact characterisation for every well-formed store that can be imported at all: export followed by
    import yields the store without its alias-keyed part (`dropAlias`) — nothing else is lost, changed
    or added. -/
theorem import_export_loss (env : Env) (s : State) (h : WF env s) (hv : ¬ SelfNamedCounterparty env s) :
    initGenesis env (exportG s) = some (dropAlias s) :=
  initGenesis_export env s h hv

/-- Exact characterisation of the import panic: the chain cannot start from its own export iff some
    light client has a v2 counterparty with the same client identifier as itself. -/
theorem import_panics_iff (env : Env) (s : State) :
    initGenesis env (exportG s) = none ↔ SelfNamedCounterparty env s :=
  initGenesis_none_iff env s

/-- Partial statement that holds of the code: without alias-keyed state (and without a self-named
    counterparty) the round trip is the identity on clients (state, consensus states, metadata,
    counterparty, config, creator, connection paths), connections, channels, all sequences, v1 and v2
    commitments / receipts / acks / async packets, parameters and counters. -/
theorem import_export_id_partial (env : Env) (s : State) (h : WF env s) (hn : NoAliasState s)
    (hv : ¬ SelfNamedCounterparty env s) : initGenesis env (exportG s) = some s := by
  rw [initGenesis_export env s h hv, (noAlias_iff s).1 hn]

/-- The two hypotheses are the weakest possible: whenever the round trip is the identity, they hold. -/
theorem import_export_id_only_if (env : Env) (s : State) (h : WF env s)
    (hid : initGenesis env (exportG s) = some s) : NoAliasState s ∧ ¬ SelfNamedCounterparty env s := by
  have hv : ¬ SelfNamedCounterparty env s := by
    intro hs
    rw [(initGenesis_none_iff env s).2 hs] at hid
    cases hid
  rw [initGenesis_export env s h hv] at hid
  exact ⟨(noAlias_iff s).2 (Option.some.inj hid), hv⟩

/-- Re-export: the genesis exported from the imported store equals the first export (the lost state
    is invisible to `ExportGenesis`, so the loss cannot be noticed by comparing genesis files). -/
theorem reexport_idempotent (env : Env) (s s' : State) (h : WF env s)
    (hi : initGenesis env (exportG s) = some s') : exportG s' = exportG s := by
  have hv : ¬ SelfNamedCounterparty env s := by
    intro hs
    rw [(initGenesis_none_iff env s).2 hs] at hi
    cases hi
  rw [initGenesis_export env s h hv] at hi
  rw [← Option.some.inj hi]
  exact export_dropAlias s

/-- The import is a fixed point after one round: importing the re-export changes nothing more. -/
theorem import_export_stable (env : Env) (s s' : State) (h : WF env s)
    (hi : initGenesis env (exportG s) = some s') : initGenesis env (exportG s') = some s' := by
  rw [reexport_idempotent env s s' h hi]
  exact hi

/-! ### the F8 witness: one OPEN UNORDERED channel `channel-0` over client `07-tendermint-0`,
    its alias + counterparty, and one v2 packet sent with source client `channel-0`
    (replayed on the real code by the harness history `witness-alias-traffic`). -/

def witnessEnv : Env := { localhostConn := "h:lc", cpId := [("h:cparty", "channel-1"), ("h:cparty-self", "07-tendermint-0")] }

def witness : State :=
  { clientParams := "h:cp", nextClientSeq := "0000000000000001"
    cstore := [(("07-tendermint-0", "clientState"), "h:cs"),
               (("07-tendermint-0", "connections"), "h:paths"),
               (("07-tendermint-0", "consensusStates/1-5"), "h:cons"),
               (("07-tendermint-0", "consensusStates/1-5/processedHeight"), "h:ph"),
               (("07-tendermint-0", "creator"), "h:creator"),
               (("channel-0", "counterparty"), "h:cparty")]
    conns := [("connection-0", "h:conn"), ("connection-localhost", "h:lc")]
    connParams := "h:connp", nextConnSeq := "0000000000000001"
    chans := [(("mock", "channel-0"), "h:open-unordered")]
    nextRecv := [(("mock", "channel-0"), "0000000000000001")]
    nextAck := [(("mock", "channel-0"), "0000000000000001")]
    nextSend := [("channel-0", "0000000000000002")]
    commits := [], receipts := [], acks := []
    nextChanSeq := "0000000000000001"
    commits2 := [(("channel-0", 1), "h:commitment")]
    receipts2 := [], acks2 := [], async2 := []
    alias := [("channel-0", "h:07-tendermint-0")]
    other := [] }

theorem witness_wf : WF witnessEnv witness := (wfB_iff _ _).1 (by decide)

/-- the witness loses its alias entry, the counterparty under `channel-0` and the v2 commitment -/
theorem witness_lost :
    (importG witnessEnv (exportG witness)).alias = [] ∧
    (importG witnessEnv (exportG witness)).commits2 = [] ∧
    (("channel-0", "counterparty"), "h:cparty") ∉ (importG witnessEnv (exportG witness)).cstore ∧
    -- while the v1 side of the same channel, including its shared send sequence, survives
    (importG witnessEnv (exportG witness)).chans = witness.chans ∧
    (importG witnessEnv (exportG witness)).nextSend = witness.nextSend := by
  rw [import_export_eq _ _ witness_wf]
  decide

/-- The full statement is false of the code. -/
theorem import_export_id_full_false : ¬ import_export_id_full := by
  intro h
  have hs := h witnessEnv witness witness_wf
  rw [initGenesis_export _ _ witness_wf ((valid_export_iff _ _).1 (by decide))] at hs
  have ha := congrArg State.alias (Option.some.inj hs)
  exact absurd ha (by decide)

/-- second witness: a single light client `07-tendermint-0` whose registered v2 counterparty is the
    counterparty chain's client `07-tendermint-0` (harness history `witness-v2-same-client-id`). -/
def witnessSelf : State :=
  { clientParams := "h:cp", nextClientSeq := "0000000000000001"
    cstore := [(("07-tendermint-0", "clientState"), "h:cs"),
               (("07-tendermint-0", "consensusStates/1-5"), "h:cons"),
               (("07-tendermint-0", "counterparty"), "h:cparty-self"),
               (("07-tendermint-0", "creator"), "h:creator")]
    conns := [("connection-localhost", "h:lc")]
    connParams := "h:connp", nextConnSeq := "0000000000000000"
    chans := [], nextRecv := [], nextAck := []
    nextSend := [("07-tendermint-0", "0000000000000001")]
    commits := [], receipts := [], acks := []
    nextChanSeq := "0000000000000000"
    commits2 := [], receipts2 := [], acks2 := [], async2 := [], alias := [], other := [] }

/-- The full statement is also false without any alias: a well-formed, alias-free state whose export
    the importing chain rejects (it panics in `clientv2.InitGenesis`). -/
theorem import_export_id_full_false_selfnamed :
    WF witnessEnv witnessSelf ∧ NoAliasState witnessSelf ∧ initGenesis witnessEnv (exportG witnessSelf) = none :=
  ⟨(wfB_iff _ _).1 (by decide), (noAlias_iff _).2 (by decide), by decide⟩

/-! ### non-vacuity -/

/-- a non-trivial state satisfying the hypotheses of the partial theorem: a light client with
    consensus state, metadata, v2 counterparty / config / creator and v2 packet state under the client
    id, a connection, an ORDERED channel with v1 packet state. -/
def plain : State :=
  { clientParams := "h:cp", nextClientSeq := "0000000000000002"
    cstore := [(("07-tendermint-0", "clientState"), "h:cs"),
               (("07-tendermint-0", "config"), "h:cfg"),
               (("07-tendermint-0", "connections"), "h:paths"),
               (("07-tendermint-0", "consensusStates/1-5"), "h:cons"),
               (("07-tendermint-0", "consensusStates/1-5/processedTime"), "h:pt"),
               (("07-tendermint-0", "counterparty"), "h:cparty"),
               (("07-tendermint-0", "creator"), "h:creator")]
    conns := [("connection-0", "h:conn"), ("connection-localhost", "h:lc")]
    connParams := "h:connp", nextConnSeq := "0000000000000001"
    chans := [(("mock", "channel-0"), "h:open-ordered")]
    nextRecv := [(("mock", "channel-0"), "0000000000000002")]
    nextAck := [(("mock", "channel-0"), "0000000000000001")]
    nextSend := [("07-tendermint-0", "0000000000000003"), ("channel-0", "0000000000000002")]
    commits := [(("mock", "channel-0", 1), "h:c1")]
    receipts := [(("mock", "channel-0", 1), "01")]
    acks := [(("mock", "channel-0", 1), "h:a1")]
    nextChanSeq := "0000000000000001"
    commits2 := [(("07-tendermint-0", 1), "h:c2"), (("07-tendermint-0", 2), "h:c3")]
    receipts2 := [(("07-tendermint-0", 1), "02")]
    acks2 := [(("07-tendermint-0", 1), "h:a2")]
    async2 := [(("07-tendermint-0", 2), "h:async")]
    alias := [], other := [] }

example : WF witnessEnv plain := (wfB_iff _ _).1 (by decide)

example : NoAliasState plain := (noAlias_iff plain).2 (by decide)

example : ¬ SelfNamedCounterparty witnessEnv plain := (valid_export_iff _ _).1 (by decide)

example : initGenesis witnessEnv (exportG plain) = some plain :=
  import_export_id_partial _ _ ((wfB_iff _ _).1 (by decide)) ((noAlias_iff plain).2 (by decide))
    ((valid_export_iff _ _).1 (by decide))

/-- the witness violates `NoAliasState` (so the partial theorem does not cover it) -/
example : ¬ NoAliasState witness := fun h => absurd h.alias (by decide)

end IbcVerif.C44
