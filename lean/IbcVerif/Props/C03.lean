/-
  C03 — At most one terminal outcome per sent packet.

  `Event.ack1 port chan seq ack` / `Event.timeout1 port chan seq` are logged exactly when the sending
  application's OnAcknowledgementPacket / OnTimeoutPacket ran in a committed transaction (the msg
  server calls them AFTER writeFn(); a callback error fails the tx, which the SDK reverts — then
  `step` returns the original state and nothing is logged).  `Event.ack2` / `Event.timeout2` are the
  per-packet v2 events (all payload callbacks of that packet ran, once each).
  All proof verdicts are adversarial inputs: the theorems hold even if every proof verifies.
-/
import IbcVerif.Lemmas.ChainOk
import IbcVerif.Lemmas.ChainExamples
namespace IbcVerif.C03
open IbcVerif IbcVerif.Chain

/-- v1: over any history, for every packet (source port, channel, sequence) the sending application
    saw at most ONE of {acknowledgement, timeout (incl. timeout-on-close)}, at most once. -/
theorem terminal_at_most_once_v1 (ops : List Op) (port chan : Id) (seq : Nat) :
    ((run init ops).log.filter (Event.isTerm1 port chan seq)).length ≤ 1 :=
  (inv_run_init ops).term1Count port chan seq

/-- v2 (clients and aliases): the same per (source id, sequence). -/
theorem terminal_at_most_once_v2 (ops : List Op) (src : Id) (seq : Nat) :
    ((run init ops).log.filter (Event.isTerm2 src seq)).length ≤ 1 :=
  (inv_run_init ops).term2Count src seq

/-- after the terminal outcome the commitment is gone — and stays gone for the rest of the history:
    the sequence is below the send counter, which is never reset, so no later send can re-create it. -/
theorem terminal_clears_commitment_v1 (ops : List Op) (port chan : Id) (seq : Nat) (e : Event)
    (he : e ∈ (run init ops).log) (ht : e.isTerm1 port chan seq = true) :
    (run init ops).commitV1.get (port, chan, seq) = none ∧
    ∃ n, (run init ops).nextSend.get chan = some n ∧ seq < n :=
  let h := (inv_run_init ops).term1 port chan seq e he ht
  ⟨h.1, h.2.1⟩

theorem terminal_clears_commitment_v2 (ops : List Op) (src : Id) (seq : Nat) (e : Event)
    (he : e ∈ (run init ops).log) (ht : e.isTerm2 src seq = true) :
    (run init ops).commitV2.get (src, seq) = none ∧
    ∃ n, (run init ops).nextSend.get src = some n ∧ seq < n :=
  let h := (inv_run_init ops).term2 src seq e he ht
  ⟨h.1, h.2.1⟩

/-- once the commitment is gone, any further acknowledgement relay for that packet is a NOOP (or an
    error from an earlier check): never a success, state and log unchanged — for every proof verdict. -/
theorem after_terminal_ack_v1 (s : ChainState) (env : Env) (p : PacketV1) (ack : Hex) (app : AppV1)
    (hgone : s.commitV1.get (p.sp, p.sc, p.seq) = none) :
    (step s ⟨env, .ackV1 p ack app⟩).2.isOk = false ∧ (step s ⟨env, .ackV1 p ack app⟩).1 = s := by
  have hno : (step s ⟨env, .ackV1 p ack app⟩).2.isOk = false := by
    cases hout : (step s ⟨env, .ackV1 p ack app⟩).2 with
    | ok r =>
      exfalso
      have hstep : step s ⟨env, .ackV1 p ack app⟩ = ((step s ⟨env, .ackV1 p ack app⟩).1, .ok r) := by rw [← hout]
      obtain ⟨s1, h1⟩ := ackV1_ok hstep
      obtain ⟨_, _, _, hc, _⟩ := acknowledgePacketV1_ok h1
      rw [hgone] at hc; cases hc
    | noop => rfl
    | err c => rfl
    | panic => rfl
  exact ⟨hno, step_unchanged rfl hno⟩

theorem after_terminal_timeout_v1 (s : ChainState) (env : Env) (p : PacketV1) (nsr a b : Nat) (app : AppV1)
    (hgone : s.commitV1.get (p.sp, p.sc, p.seq) = none) :
    (step s ⟨env, .timeoutV1 p nsr a b app⟩).2.isOk = false ∧ (step s ⟨env, .timeoutV1 p nsr a b app⟩).1 = s := by
  have hno : (step s ⟨env, .timeoutV1 p nsr a b app⟩).2.isOk = false := by
    cases hout : (step s ⟨env, .timeoutV1 p nsr a b app⟩).2 with
    | ok r =>
      exfalso
      have hstep : step s ⟨env, .timeoutV1 p nsr a b app⟩ = ((step s ⟨env, .timeoutV1 p nsr a b app⟩).1, .ok r) := by rw [← hout]
      obtain ⟨s1, h1⟩ := timeoutV1_ok hstep
      obtain ⟨_, _, hc, _⟩ := timeoutPacketV1_ok h1
      rw [hgone] at hc; cases hc
    | noop => rfl
    | err c => rfl
    | panic => rfl
  exact ⟨hno, step_unchanged rfl hno⟩

theorem after_terminal_timeoutOnClose_v1 (s : ChainState) (env : Env) (p : PacketV1) (nsr : Nat) (app : AppV1)
    (hgone : s.commitV1.get (p.sp, p.sc, p.seq) = none) :
    (step s ⟨env, .timeoutOnCloseV1 p nsr app⟩).2.isOk = false ∧ (step s ⟨env, .timeoutOnCloseV1 p nsr app⟩).1 = s := by
  have hno : (step s ⟨env, .timeoutOnCloseV1 p nsr app⟩).2.isOk = false := by
    cases hout : (step s ⟨env, .timeoutOnCloseV1 p nsr app⟩).2 with
    | ok r =>
      exfalso
      have hstep : step s ⟨env, .timeoutOnCloseV1 p nsr app⟩ = ((step s ⟨env, .timeoutOnCloseV1 p nsr app⟩).1, .ok r) := by rw [← hout]
      obtain ⟨s1, h1⟩ := timeoutOnCloseV1_ok' hstep
      obtain ⟨_, _, hc, _⟩ := timeoutOnCloseV1_ok h1
      rw [hgone] at hc; cases hc
    | noop => rfl
    | err c => rfl
    | panic => rfl
  exact ⟨hno, step_unchanged rfl hno⟩

theorem after_terminal_ack_v2 (s : ChainState) (env : Env) (p : PacketV2) (acks : List Hex) (apps : List AppV2)
    (hgone : s.commitV2.get (p.src, p.seq) = none) :
    (step s ⟨env, .ackV2 p acks apps⟩).2.isOk = false ∧ (step s ⟨env, .ackV2 p acks apps⟩).1 = s := by
  have hno : (step s ⟨env, .ackV2 p acks apps⟩).2.isOk = false := by
    cases hout : (step s ⟨env, .ackV2 p acks apps⟩).2 with
    | ok r =>
      exfalso
      have hstep : step s ⟨env, .ackV2 p acks apps⟩ = ((step s ⟨env, .ackV2 p acks apps⟩).1, .ok r) := by rw [← hout]
      obtain ⟨s1, h1⟩ := ackV2_ok hstep
      obtain ⟨_, hc, _⟩ := acknowledgePacketV2_ok h1
      rw [hgone] at hc; cases hc
    | noop => rfl
    | err c => rfl
    | panic => rfl
  exact ⟨hno, step_unchanged rfl hno⟩

theorem after_terminal_timeout_v2 (s : ChainState) (env : Env) (p : PacketV2) (apps : List AppV2)
    (hgone : s.commitV2.get (p.src, p.seq) = none) :
    (step s ⟨env, .timeoutV2 p apps⟩).2.isOk = false ∧ (step s ⟨env, .timeoutV2 p apps⟩).1 = s := by
  have hno : (step s ⟨env, .timeoutV2 p apps⟩).2.isOk = false := by
    cases hout : (step s ⟨env, .timeoutV2 p apps⟩).2 with
    | ok r =>
      exfalso
      have hstep : step s ⟨env, .timeoutV2 p apps⟩ = ((step s ⟨env, .timeoutV2 p apps⟩).1, .ok r) := by rw [← hout]
      obtain ⟨s1, h1⟩ := timeoutV2_ok hstep
      obtain ⟨_, hc, _⟩ := timeoutPacketV2_ok h1
      rw [hgone] at hc; cases hc
    | noop => rfl
    | err c => rfl
    | panic => rfl
  exact ⟨hno, step_unchanged rfl hno⟩

/-- a commitment exists only for sequences the chain really allocated (below the send counter) on a
    channel that exists / an id with a registered counterparty: nothing else can be acknowledged or
    timed out. -/
theorem commitment_only_for_sent (ops : List Op) (port chan : Id) (seq : Nat)
    (h : (run init ops).commitV1.get (port, chan, seq) ≠ none) :
    (∃ n, (run init ops).nextSend.get chan = some n ∧ seq < n) ∧ (run init ops).chan.get (port, chan) ≠ none :=
  (inv_run_init ops).commit1 port chan seq h

/-- non-vacuity of the invariant -/
example : Inv Chain.init := Inv.init

/-- non-vacuity: with no commitment the timeout-on-close relay reaches the NOOP branch -/
example : Ex.sOpen.commitV1.get ("mock", "channel-0", 1) = none := by decide

end IbcVerif.C03
