/-
  C13 — version negotiation algebra (the handshake half lives with the chain model).
  For ALL supported / counterparty version lists: duplicates, empty feature sets, several entries
  per identifier.
-/
import IbcVerif.Model.Version
namespace IbcVerif.C13V
open IbcVerif.Version

theorem findSupported_some {id : String} {vs : List Version} {c : Version} (h : findSupported id vs = some c) :
    c ∈ vs ∧ c.id = id := by
  induction vs with
  | nil => simp [findSupported] at h
  | cons v vs ih =>
    simp only [findSupported] at h
    split at h
    · rename_i e; cases h; exact ⟨List.mem_cons_self, e.symm⟩
    · exact ⟨List.mem_cons_of_mem _ (ih h).1, (ih h).2⟩

/-- features of the intersection are exactly those in both sets -/
theorem features_are_intersection (src cp : List String) (f : String) :
    f ∈ intersection src cp ↔ f ∈ src ∧ f ∈ cp := by
  simp [intersection]

/-- soundness: the negotiated version has an identifier present in BOTH lists, its features are the
    intersection of the chosen supported version with the FIRST counterparty version of that
    identifier, and the feature set is non-empty. -/
theorem pickVersion_sound (sup cp : List Version) (v : Version) (h : pickVersion sup cp = some v) :
    ∃ s ∈ sup, ∃ c ∈ cp, s.id = v.id ∧ c.id = v.id ∧ findSupported s.id cp = some c ∧
      v.features = intersection s.features c.features ∧ v.features ≠ [] := by
  induction sup with
  | nil => simp [pickVersion] at h
  | cons s rest ih =>
    simp only [pickVersion] at h
    split at h
    · rename_i c hc
      split at h
      · obtain ⟨s', hs', r⟩ := ih h
        exact ⟨s', List.mem_cons_of_mem _ hs', r⟩
      · rename_i hne
        cases h
        have := findSupported_some hc
        refine ⟨s, List.mem_cons_self, c, this.1, rfl, this.2, hc, rfl, ?_⟩
        intro e; exact hne (by simpa using e)
    · obtain ⟨s', hs', r⟩ := ih h
      exact ⟨s', List.mem_cons_of_mem _ hs', r⟩

/-- a supported version is "usable" against the counterparty list -/
def usable (s : Version) (cp : List Version) : Prop :=
  ∃ c, findSupported s.id cp = some c ∧ intersection s.features c.features ≠ []

instance (s : Version) (cp : List Version) : Decidable (usable s cp) := by
  unfold usable
  cases h : findSupported s.id cp with
  | none => exact isFalse (by simp)
  | some c =>
    by_cases e : intersection s.features c.features = []
    · exact isFalse (by simp [e])
    · exact isTrue ⟨c, rfl, e⟩

/-- order: the FIRST usable supported version wins; negotiation fails iff none is usable -/
theorem pickVersion_first (sup cp : List Version) :
    (pickVersion sup cp = none ↔ ∀ s ∈ sup, ¬ usable s cp) ∧
    (∀ v, pickVersion sup cp = some v → ∃ pre s post, sup = pre ++ s :: post ∧ (∀ s' ∈ pre, ¬ usable s' cp) ∧
        usable s cp ∧ v.id = s.id) := by
  induction sup with
  | nil => simp [pickVersion]
  | cons s rest ih =>
    obtain ⟨ih1, ih2⟩ := ih
    have hcase : (¬ usable s cp ∧ pickVersion (s :: rest) cp = pickVersion rest cp) ∨
        (usable s cp ∧ ∃ v, pickVersion (s :: rest) cp = some v ∧ v.id = s.id) := by
      simp only [pickVersion]
      cases hc : findSupported s.id cp with
      | none => left; exact ⟨by simp [usable, hc], rfl⟩
      | some c =>
        by_cases he : (intersection s.features c.features).isEmpty = true
        · left
          refine ⟨?_, by simp [he]⟩
          simp only [usable, hc, Option.some.injEq, exists_eq_left']
          simpa using he
        · right
          refine ⟨⟨c, hc, ?_⟩, ⟨s.id, intersection s.features c.features⟩, by simp [he], rfl⟩
          intro e; simp [e] at he
    rcases hcase with ⟨hn, heq⟩ | ⟨hu, v, hv, hid⟩
    · constructor
      · rw [heq, ih1]
        constructor
        · intro h s' hs'
          rcases List.mem_cons.mp hs' with rfl | h'
          · exact hn
          · exact h s' h'
        · intro h s' hs'; exact h s' (List.mem_cons_of_mem _ hs')
      · intro v hv
        rw [heq] at hv
        obtain ⟨pre, s0, post, e, hp, hu, hid⟩ := ih2 v hv
        refine ⟨s :: pre, s0, post, by simp [e], ?_, hu, hid⟩
        intro s' hs'
        rcases List.mem_cons.mp hs' with rfl | h'
        · exact hn
        · exact hp s' h'
    · constructor
      · rw [hv]
        constructor
        · intro h; cases h
        · intro h; exact absurd hu (h s List.mem_cons_self)
      · intro v' hv'
        rw [hv] at hv'; cases hv'
        exact ⟨[], s, rest, rfl, by simp, hu, hid⟩

/-- a proposed version is accepted iff its identifier is supported (first entry of that identifier),
    every proposed feature is supported, and the proposed feature set is not empty -/
theorem isSupported_iff (sup : List Version) (p : Version) :
    isSupported sup p = true ↔
      ∃ s, findSupported p.id sup = some s ∧ p.features ≠ [] ∧ ∀ f ∈ p.features, f ∈ s.features := by
  unfold isSupported
  cases h : findSupported p.id sup with
  | none => simp
  | some s =>
    have hid := (findSupported_some h).2
    simp only [verifyProposed, Bool.and_eq_true, beq_iff_eq, Bool.not_eq_true', List.all_eq_true, List.contains_iff_mem,
      Option.some.injEq, exists_eq_left']
    constructor
    · rintro ⟨⟨_, h2⟩, h3⟩
      exact ⟨by intro e; simp [e] at h2, h3⟩
    · rintro ⟨h2, h3⟩
      refine ⟨⟨hid.symm, ?_⟩, h3⟩
      cases hf : p.features with
      | nil => exact absurd hf h2
      | cons _ _ => rfl

/-- the negotiated version is itself acceptable to both sides (closure of the handshake check) -/
theorem picked_is_supported_by_both (sup cp : List Version) (v : Version) (h : pickVersion sup cp = some v) :
    ∃ s ∈ sup, ∃ c ∈ cp, verifyProposed s v = true ∧ verifyProposed c v = true := by
  obtain ⟨s, hs, c, hc, e1, e2, _, hf, hne⟩ := pickVersion_sound sup cp v h
  refine ⟨s, hs, c, hc, ?_, ?_⟩ <;>
  · simp only [verifyProposed, Bool.and_eq_true, beq_iff_eq, Bool.not_eq_true', List.all_eq_true, List.contains_iff_mem]
    refine ⟨⟨by simp [e1, e2], ?_⟩, ?_⟩
    · cases hv : v.features with
      | nil => exact absurd hv hne
      | cons _ _ => rfl
    · intro f hfm
      rw [hf, features_are_intersection] at hfm
      first | exact hfm.1 | exact hfm.2

/-- non-vacuity: the default version against itself -/
example : pickVersion [⟨"1", ["ORDER_ORDERED", "ORDER_UNORDERED"]⟩] [⟨"2", ["X"]⟩, ⟨"1", ["ORDER_UNORDERED", "Y"]⟩]
    = some ⟨"1", ["ORDER_UNORDERED"]⟩ := by decide

end IbcVerif.C13V
