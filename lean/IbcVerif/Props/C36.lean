/-
  C36 — Transfer authorizations never exceed their grant.
  Over ALL grants (any number of allocations, bounded/unbounded limits, allow lists, memo lists)
  and ALL request histories.  `norm` is strings.TrimSpace (a parameter: the theorems hold for any).
-/
import IbcVerif.Lemmas.Authz
namespace IbcVerif.C36
open IbcVerif.Authz

/-- accounting over a whole history: for every (port, channel, denom) whose granted limit is bounded,
    what the grantee moved plus what is left equals what was granted — exactly. -/
theorem spent_plus_remaining (norm : String → String) (msgs : List Msg) :
    ∀ (g : List Allocation) (p c d : String), GrantWF g → BoundedOn g p c d →
      spentOn (run norm g msgs).2 p c d + remaining (run norm g msgs).1 p c d = remaining g p c d := by
  induction msgs with
  | nil => intro g p c d _ _; simp [run, spentOn]
  | cons m ms ih =>
    intro g p c d hwf hb
    obtain ⟨hwf', hb', hstep⟩ := accept_step norm g m p c d hwf hb
    have := ih (nextGrant g (accept norm g m)) p c d hwf' hb'
    simp only [run]
    by_cases hacc : (accept norm g m).accepted = true
    · simp only [hacc, if_true, true_and] at hstep ⊢
      simp only [spentOn, List.map_cons, List.sum_cons] at this ⊢
      omega
    · have hf : (accept norm g m).accepted = false := by
        cases h : (accept norm g m).accepted with
        | false => rfl
        | true => exact absurd h hacc
      rw [hf] at hstep ⊢
      simp only [Bool.false_eq_true, false_and, if_false, Nat.add_zero] at hstep ⊢
      omega

/-- hence the grantee can never move more than the granted spend limit -/
theorem spent_le_limit (norm : String → String) (g : List Allocation) (msgs : List Msg) (p c d : String)
    (hwf : GrantWF g) (hb : BoundedOn g p c d) : spentOn (run norm g msgs).2 p c d ≤ remaining g p c d := by
  have := spent_plus_remaining norm msgs g p c d hwf hb
  omega

/-- a single accepted request decreases the remaining limit by exactly its amount (and leaves every
    other bounded (port, channel, denom) untouched) -/
theorem limit_decreases_exactly (norm : String → String) (g : List Allocation) (m : Msg) (p c d : String)
    (hwf : GrantWF g) (hb : BoundedOn g p c d) :
    remaining (nextGrant g (accept norm g m)) p c d +
      (if (accept norm g m).accepted = true ∧ m.port = p ∧ m.chan = c ∧ m.denom = d then m.amount else 0)
      = remaining g p c d :=
  (accept_step norm g m p c d hwf hb).2.2

/-- a request is accepted only on an allocated port/channel, to an allow-listed receiver (if a list is
    set) and with an allowed memo -/
theorem accepted_respects_lists (norm : String → String) (g : List Allocation) (m : Msg)
    (h : (accept norm g m).accepted = true) :
    ∃ a ∈ g, a.chan = m.chan ∧ a.port = m.port ∧
      (a.allowList = [] ∨ m.receiver ∈ a.allowList) ∧
      (if a.allowedMemos = [] then (norm m.memo).isEmpty = true
       else a.allowedMemos = [allowAll] ∨ ∃ x ∈ a.allowedMemos, norm m.memo = norm x) := by
  unfold accept at h
  cases hfi : findIdx m g with
  | none => simp [hfi, Resp.accepted] at h
  | some i =>
    obtain ⟨a, hga, hac, hap⟩ := findIdx_spec m g i hfi
    simp only [hfi, hga] at h
    refine ⟨a, List.mem_of_getElem? hga, hac, hap, ?_, ?_⟩
    · by_cases h1 : allowedAddress m.receiver a.allowList = true
      · simp only [allowedAddress, Bool.or_eq_true, List.isEmpty_iff, List.contains_iff_mem] at h1
        exact h1
      · simp [h1, Resp.accepted] at h
    · by_cases h1 : allowedAddress m.receiver a.allowList = true
      · by_cases h2 : memoOk norm m.memo a.allowedMemos = true
        · unfold memoOk at h2
          by_cases he : a.allowedMemos = []
          · simp only [he, List.isEmpty_nil, if_true] at h2 ⊢
            exact h2
          · have he' : a.allowedMemos.isEmpty = false := by
              cases hl : a.allowedMemos with
              | nil => exact absurd hl he
              | cons _ _ => rfl
            simp only [he', Bool.false_eq_true, if_false, he] at h2 ⊢
            by_cases hs : a.allowedMemos = [allowAll]
            · exact Or.inl hs
            · simp only [hs, if_false, List.any_eq_true, beq_iff_eq] at h2
              exact Or.inr h2
        · simp [h1, h2, Resp.accepted] at h
      · simp [h1, Resp.accepted] at h

/-- the allocation disappears when its spend limit is exhausted (and the whole grant is deleted with
    its last allocation) -/
theorem exhausted_allocation_removed (norm : String → String) (g : List Allocation) (m : Msg) (p c d : String)
    (hwf : GrantWF g) (hb : BoundedOn g p c d) (hm : m.port = p ∧ m.chan = c ∧ m.denom = d)
    (hacc : (accept norm g m).accepted = true) (hall : m.amount = remaining g p c d) :
    remaining (nextGrant g (accept norm g m)) p c d = 0 := by
  have := limit_decreases_exactly norm g m p c d hwf hb
  simp only [hacc, hm, and_self, if_true] at this
  omega

/-- the 'entire balance' sentinel (2^256−1) is never accepted against a bounded limit -/
theorem sentinel_rejected_on_bounded (norm : String → String) (g : List Allocation) (m : Msg)
    (hwf : GrantWF g) (hb : BoundedOn g m.port m.chan m.denom)
    (hsmall : remaining g m.port m.chan m.denom < unbounded) (hs : m.amount = unbounded) :
    (accept norm g m).accepted = false := by
  cases hacc : (accept norm g m).accepted with
  | false => rfl
  | true =>
    have := limit_decreases_exactly norm g m m.port m.chan m.denom hwf hb
    simp only [hacc, and_self, if_true] at this
    omega

/-- a request on a port/channel without allocation is rejected -/
theorem unknown_channel_rejected (norm : String → String) (g : List Allocation) (m : Msg)
    (h : ∀ a ∈ g, ¬ (a.chan = m.chan ∧ a.port = m.port)) : accept norm g m = .notFound := by
  unfold accept
  cases hfi : findIdx m g with
  | none => rfl
  | some i =>
    obtain ⟨a, hga, hac, hap⟩ := findIdx_spec m g i hfi
    exact absurd ⟨hac, hap⟩ (h a (List.mem_of_getElem? hga))

/-- non-vacuity: a bounded grant of 10 uatom, two requests of 6: the first is accepted, the second not -/
example :
    let g : List Allocation := [⟨"transfer", "channel-0", [("uatom", 10)], [], ["*"]⟩]
    let m : Msg := ⟨"transfer", "channel-0", "uatom", 6, "bob", "x"⟩
    GrantWF g ∧ BoundedOn g "transfer" "channel-0" "uatom" ∧ (run id g [m, m]).2 = [m] := by
  refine ⟨?_, ?_, by decide⟩
  · intro a ha; simp at ha; subst ha; simp [CoinsWF]
  · intro a ha _; simp at ha; subst ha; simp [amountOf, unbounded]

end IbcVerif.C36
