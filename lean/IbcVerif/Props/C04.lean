/-
  C04 — Timeouts are sound: never both received and timed out, never early.
  Two-chain statements under the honest-client abstraction of Model/World.lean (HonestClient: the
  consensus state A holds for height H is B's real block H — its time and the state after H−1); the
  single-chain guards these theorems compose are tied to the code by the chain / world engines.
-/
import IbcVerif.Model.World
import IbcVerif.Lemmas.Height
namespace IbcVerif.C04
open IbcVerif IbcVerif.World

theorem elapsedNat_iff (t : TimeoutV1) (rev h ts : Nat) :
    elapsedNat t rev h ts = true ↔
      (¬ (t.rev = 0 ∧ t.height = 0) ∧ (rev > t.rev ∨ (rev = t.rev ∧ h ≥ t.height))) ∨ (t.ts ≠ 0 ∧ ts ≥ t.ts) := by
  simp only [elapsedNat, Bool.or_eq_true, Bool.and_eq_true, Bool.not_eq_true', decide_eq_true_eq, beq_iff_eq,
    bne_iff_ne, ne_eq, Bool.and_eq_false_iff, beq_eq_false_iff_ne]
  constructor
  · rintro (⟨hz, hg⟩ | h)
    · left
      refine ⟨fun ⟨a, b⟩ => ?_, hg⟩
      rcases hz with hz | hz
      · exact hz a
      · exact hz b
    · exact Or.inr h
  · rintro (⟨hz, hg⟩ | h)
    · left
      refine ⟨?_, hg⟩
      by_cases h1 : t.rev = 0
      · right; intro h2; exact hz ⟨h1, h2⟩
      · left; exact h1
    · exact Or.inr h

/-- elapsed is monotone in height and time -/
theorem elapsedNat_mono (t : TimeoutV1) (rev h h' ts ts' : Nat) (hh : h ≤ h') (hts : ts ≤ ts')
    (he : elapsedNat t rev h ts = true) : elapsedNat t rev h' ts' = true := by
  rw [elapsedNat_iff] at he ⊢
  rcases he with ⟨hz, hg⟩ | ⟨hz, hg⟩
  · left
    refine ⟨hz, ?_⟩
    rcases hg with hg | ⟨e, hg⟩
    · exact Or.inl hg
    · exact Or.inr ⟨e, by omega⟩
  · right; exact ⟨hz, by omega⟩

/-- v1: a packet executed on B (in any block `hr`, past or future) is never timed out on A, for any
    proof height — i.e. no packet is both received and timed out -/
theorem timeout_excludes_receive_v1 (time : Clock) (hm : Monotone time) (t : TimeoutV1) (rev H hr : Nat)
    (hrecv : recvGuardV1 time t rev hr = true)                    -- the receive passed its guard in block hr
    (hto : timeoutAcceptV1 time t rev H (some hr) = true) : False := by
  simp only [timeoutAcceptV1, visibleAt, Bool.and_eq_true, Bool.not_eq_true', decide_eq_false_iff_not] at hto
  simp only [recvGuardV1, Bool.not_eq_true'] at hrecv
  obtain ⟨hel, hvis⟩ := hto
  have hle : H ≤ hr := by omega
  have := elapsedNat_mono t rev H hr (time H) (time hr) hle (hm H hr hle) hel
  rw [this] at hrecv; cases hrecv

/-- … and once A accepted a timeout for proof height H, every LATER receive attempt on B is refused:
    any block at or after H fails the guard, any earlier block would have been visible in the proof -/
theorem after_timeout_never_received_v1 (time : Clock) (hm : Monotone time) (t : TimeoutV1) (rev H : Nat) (hr0 : Option Nat)
    (hto : timeoutAcceptV1 time t rev H hr0 = true) (h : Nat) (hge : H ≤ h) : recvGuardV1 time t rev h = false := by
  simp only [timeoutAcceptV1, Bool.and_eq_true] at hto
  have := elapsedNat_mono t rev H h (time H) (time h) hge (hm H h hge) hto.1
  simp [recvGuardV1, this]

/-- never early: an accepted timeout means chain B really produced a block (H) at which its own height
    or its own time had reached the packet's timeout -/
theorem timeout_not_early_v1 (time : Clock) (t : TimeoutV1) (rev H : Nat) (hr : Option Nat)
    (hto : timeoutAcceptV1 time t rev H hr = true) :
    (¬ (t.rev = 0 ∧ t.height = 0) ∧ (rev > t.rev ∨ (rev = t.rev ∧ H ≥ t.height))) ∨ (t.ts ≠ 0 ∧ time H ≥ t.ts) := by
  simp only [timeoutAcceptV1, Bool.and_eq_true] at hto
  exact (elapsedNat_iff t rev H (time H)).mp hto.1

theorem recvGuardV2_iff (time : Clock) (T h : Nat) : recvGuardV2 time T h = true ↔ time h / 1000000000 < T := by
  unfold recvGuardV2 secs
  exact decide_eq_true_iff

theorem timeoutAcceptV2_iff (time : Clock) (T H : Nat) (hr : Option Nat) :
    timeoutAcceptV2 time T H hr = true ↔ T ≤ time H / 1000000000 ∧ visibleAt hr H = false := by
  simp [timeoutAcceptV2, secs]

/-- v2 (timeouts in seconds against nanosecond consensus time): same exclusion -/
theorem timeout_excludes_receive_v2 (time : Clock) (hm : Monotone time) (T H hr : Nat)
    (hrecv : recvGuardV2 time T hr = true) (hto : timeoutAcceptV2 time T H (some hr) = true) : False := by
  rw [recvGuardV2_iff] at hrecv
  rw [timeoutAcceptV2_iff] at hto
  obtain ⟨hel, hvis⟩ := hto
  simp only [visibleAt, decide_eq_false_iff_not] at hvis
  have hle : H ≤ hr := by omega
  have h1 := hm H hr hle
  have h2 : time H / 1000000000 ≤ time hr / 1000000000 := Nat.div_le_div_right h1
  omega

theorem after_timeout_never_received_v2 (time : Clock) (hm : Monotone time) (T H : Nat) (hr0 : Option Nat)
    (hto : timeoutAcceptV2 time T H hr0 = true) (h : Nat) (hge : H ≤ h) : recvGuardV2 time T h = false := by
  rw [timeoutAcceptV2_iff] at hto
  have h1 := hm H h hge
  have h2 : time H / 1000000000 ≤ time h / 1000000000 := Nat.div_le_div_right h1
  cases hg : recvGuardV2 time T h with
  | false => rfl
  | true => rw [recvGuardV2_iff] at hg; omega

/-- the seconds conversion is consistent: the recv check (`⌊now/1e9⌋ < T`) and the timeout check
    (`⌊proofTime/1e9⌋ ≥ T`) can never both pass once `proofTime ≤ now` -/
theorem v2_seconds_consistent (proofTs now T : Nat) (h : proofTs ≤ now) (hto : secs proofTs ≥ T) : ¬ (secs now < T) := by
  have : proofTs / 1000000000 ≤ now / 1000000000 := Nat.div_le_div_right h
  simp only [secs] at *
  omega

/-- localhost: an accepted timeout means the chain ITSELF has reached the timeout (its own height `n`
    is at or above the timeout height, or its own time has reached the timestamp) and the packet was
    not received -/
theorem timeout_not_early_localhost (time : Clock) (t : TimeoutV1) (rev n P : Nat) (hr : Option Nat)
    (hto : timeoutAcceptLocalhost time t rev n P hr = true) :
    elapsedNat t rev n (time n) = true ∧ (∀ r, hr = some r → n < r) := by
  simp only [timeoutAcceptLocalhost, Bool.and_eq_true, decide_eq_true_eq] at hto
  obtain ⟨⟨hP, hel⟩, hrc⟩ := hto
  refine ⟨elapsedNat_mono t rev P n (time n) (time n) hP (Nat.le_refl _) hel, ?_⟩
  intro r e
  subst e
  simp only [Bool.not_eq_true', decide_eq_false_iff_not] at hrc
  omega

/-- FULL statement for the code before the fix (kept visible): without the bound on the proof height
    the localhost timeout can be accepted before the chain reached the timeout height … -/
def timeout_not_early_localhost_unfixed_full : Prop :=
  ∀ (time : Clock) (t : TimeoutV1) (rev n P : Nat) (hr : Option Nat),
    timeoutAcceptLocalhostUnfixed time t rev n P hr = true → elapsedNat t rev n (time n) = true

/-- … which is FALSE: height-only timeout at 100, chain at height 10, relayer passes proof height 100 -/
theorem timeout_not_early_localhost_unfixed_full_false : ¬ timeout_not_early_localhost_unfixed_full := by
  intro h
  have := h (fun _ => 5) ⟨1, 100, 0⟩ 1 10 100 none (by decide)
  revert this; decide

/-- the Nat formulation of `Elapsed` agrees with the UInt64 model of Model/Height.lean (which is the
    one tied to the Go code by the purefn correspondence, functions timeout.*) -/
theorem elapsedNat_eq (th : Height) (tts : UInt64) (h : Height) (ts : UInt64) :
    (Timeout.mk th tts).elapsed h ts = elapsedNat ⟨th.rev.toNat, th.h.toNat, tts.toNat⟩ h.rev.toNat h.h.toNat ts.toNat := by
  rw [Bool.eq_iff_iff, elapsedNat_iff]
  simp only [Timeout.elapsed, Timeout.heightElapsed, Timeout.timestampElapsed, Bool.or_eq_true, Bool.and_eq_true,
    Bool.not_eq_true', Height.gte_iff, bne_iff_ne, ne_eq, decide_eq_true_eq, UInt64.le_iff_toNat_le,
    ← UInt64.toNat_inj, UInt64.toNat_zero, ge_iff_le]
  have hz : Height.isZero th = false ↔ ¬ (th.rev.toNat = 0 ∧ th.h.toNat = 0) := by
    rw [← Height.isZero_iff]; cases Height.isZero th <;> simp
  rw [hz]

/-- non-vacuity: a concrete clock and packet where the timeout is accepted at proof height 7 and every
    receive from block 7 on is refused, while a receive in block 6 would have been possible -/
example :
    let time : Clock := fun h => 1000 * h
    let t : TimeoutV1 := ⟨1, 7, 0⟩
    timeoutAcceptV1 time t 1 7 none = true ∧ recvGuardV1 time t 1 6 = true ∧ recvGuardV1 time t 1 7 = false := by decide

end IbcVerif.C04
