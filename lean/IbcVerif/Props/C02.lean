/-
  C02 — Ordered channels deliver and acknowledge strictly in sequence.

  `recvSeqs port chan log` / `ackSeqs port chan log` are the sequences of the committed
  OnRecvPacket / OnAcknowledgementPacket callbacks on the channel end, in the order they happened.
  All proof verdicts and application results are adversarial inputs of every op.
-/
import IbcVerif.Lemmas.ChainOk2
namespace IbcVerif.C02
open IbcVerif IbcVerif.Chain

/-- after ANY history, the deliveries on an ORDERED channel end are exactly 1, 2, …, nextSequenceRecv-1
    in that order: send order, no gaps, no repeats — however the relayer ordered / duplicated messages. -/
theorem ordered_recv_is_prefix (ops : List Op) (port chan : Id) (ch : Channel)
    (hc : (run init ops).chan.get (port, chan) = some ch) (ho : ch.ordering = .ordered) :
    ∃ n, (run init ops).nextRecv.get (port, chan) = some n ∧ 1 ≤ n ∧
      recvSeqs port chan (run init ops).log = List.range' 1 (n - 1) :=
  (inv2_run_init ops).ordRecv port chan ch hc ho

/-- the sender processes acknowledgements in the same order: exactly 1, 2, …, nextSequenceAck-1. -/
theorem ordered_ack_is_prefix (ops : List Op) (port chan : Id) (ch : Channel)
    (hc : (run init ops).chan.get (port, chan) = some ch) (ho : ch.ordering = .ordered) :
    ∃ n, (run init ops).nextAck.get (port, chan) = some n ∧ 1 ≤ n ∧
      ackSeqs port chan (run init ops).log = List.range' 1 (n - 1) :=
  (inv2_run_init ops).ordAck port chan ch hc ho

/-- a packet whose predecessor has not been received can never be received: a successful receive on
    an ORDERED channel has exactly the next expected sequence (for every proof verdict). -/
theorem ordered_recv_needs_pred (s s' : ChainState) (env : Env) (p : PacketV1) (app : AppV1) (r : String) (ch : Channel)
    (hc : s.chan.get (p.dp, p.dc) = some ch) (ho : ch.ordering = .ordered)
    (h : step s ⟨env, .recvV1 p app⟩ = (s', .ok r)) :
    s.nextRecv.get (p.dp, p.dc) = some p.seq ∧ s'.nextRecv.get (p.dp, p.dc) = some (p.seq + 1) := by
  obtain ⟨s1, h1, _⟩ := recvV1_ok h
  obtain ⟨ch1, hc1, _, h2⟩ := recvPacketV1_ok h1
  rw [hc] at hc1; cases hc1
  have ht := step_tr h
  rcases applyReplayProtection_ok h2 with ⟨hu, _⟩ | ⟨_, hn, _⟩
  · rw [ho] at hu; cases hu
  · refine ⟨hn, ?_⟩
    rcases ht.log with hl | ⟨e, hl, hev⟩
    · obtain ⟨_, _, hlog⟩ := recvV1_ok h
      rw [hlog] at hl
      have := congrArg List.length hl
      simp at this
    · obtain ⟨_, _, hlog⟩ := recvV1_ok h
      rw [hlog] at hl
      have he : e = .recv1 p.dp p.dc p.seq := by
        have := List.append_cancel_left hl
        simpa using this.symm
      subst he
      obtain ⟨ch0, h0, _, _, hcase⟩ := hev
      rw [hc] at h0; cases h0
      rcases hcase with ⟨hu, _⟩ | ⟨_, _, h'⟩
      · rw [ho] at hu; cases hu
      · exact h'

/-- an acknowledgement is processed on an ORDERED channel only for the next expected sequence. -/
theorem ordered_ack_needs_pred (s s' : ChainState) (env : Env) (p : PacketV1) (ack : Hex) (app : AppV1) (r : String)
    (ch : Channel) (hc : s.chan.get (p.sp, p.sc) = some ch) (ho : ch.ordering = .ordered)
    (h : step s ⟨env, .ackV1 p ack app⟩ = (s', .ok r)) :
    s.nextAck.get (p.sp, p.sc) = some p.seq := by
  obtain ⟨s1, h1⟩ := ackV1_ok h
  obtain ⟨ch1, hc1, _, _, hcase⟩ := acknowledgePacketV1_ok h1
  rw [hc] at hc1; cases hc1
  rcases hcase with ⟨_, hn, _⟩ | ⟨hno, _⟩
  · exact hn
  · exact absurd ho hno

/-- non-vacuity -/
example : Inv2 Chain.init := Inv2.init

end IbcVerif.C02
