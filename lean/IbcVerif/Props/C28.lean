/-
  C28 — Attestor quorum, distinct signers and domain separation (attestations light client).
  Property theorems only; helper lemmas live in IbcVerif/Lemmas/Attest.lean.

  `H` (SHA-256) and `keccak` are arbitrary functions; ECDSA is symbolic (`Sig.signed signer digest`);
  the ABI decoder's verdict on the attestation data is part of the `Proof` argument, universally
  quantified.  Statements about hashes are in collision-extraction form: the conclusion exhibits an
  explicit pair `x ≠ y` with `H x = H y`.
-/
import IbcVerif.Model.Attest
import IbcVerif.Lemmas.Attest
namespace IbcVerif.C28
open IbcVerif.Attest

/-- **`verifySignatures` accepts ⇔** the list is non-empty, has at least `minSigs` entries, and is — entry
by entry — a genuine (hence 65-byte, recoverable) signature over the tagged hash of exactly this
attestation data and type, by pairwise distinct signers that are all configured attestors. -/
theorem verifySignatures_ok_iff (H : Bytes → Bytes) (cs : ClientState) (data : Bytes)
    (sigs : List Sig) (ty : UInt8) :
    verifySignatures H cs data sigs ty = .ok () ↔
      sigs ≠ [] ∧ cs.minSigs ≤ sigs.length ∧
      ∃ signers : List Addr, sigs = signers.map (fun a => Sig.signed a (tagged H ty data)) ∧
        (∀ a ∈ signers, a ∈ cs.attestors) ∧ signers.Nodup := by
  unfold verifySignatures
  cases sigs with
  | nil => simp
  | cons σ rest =>
    have hl := sigLoop_ok_iff cs.attestors (tagged H ty data) (σ :: rest) []
    simp only [List.length_cons, beq_iff_eq, Nat.add_one_ne_zero, if_false, ne_eq, reduceCtorEq,
      not_false_eq_true, true_and]
    by_cases hq : rest.length + 1 < cs.minSigs
    · simp only [hq, if_true]
      constructor
      · intro h; cases h
      · rintro ⟨h, _⟩; omega
    · simp only [hq, if_false]
      cases hs : sigLoop cs.attestors (tagged H ty data) (σ :: rest) [] with
      | error e =>
        rw [hs] at hl
        constructor
        · intro h; cases h
        · rintro ⟨_, signers, h1, h2, h3⟩
          cases (hl.mpr ⟨signers, h1, fun a ha => ⟨h2 a ha, by simp⟩, h3⟩)
      | ok u =>
        rw [hs] at hl
        constructor
        · intro _
          obtain ⟨signers, h1, h2, h3⟩ := hl.mp rfl
          exact ⟨by omega, signers, h1, fun a ha => (h2 a ha).1, h3⟩
        · intro _; rfl

/-- Every accepted signature is 65 bytes long and recovers, under the tagged hash of exactly this data,
to a configured attestor. -/
theorem accepted_sigs_wellformed (H : Bytes → Bytes) (cs : ClientState) (data : Bytes)
    (sigs : List Sig) (ty : UInt8) (h : verifySignatures H cs data sigs ty = .ok ()) :
    ∀ σ ∈ sigs, σ.len = 65 ∧ ∃ a ∈ cs.attestors, recover σ (tagged H ty data) = .addr a := by
  obtain ⟨_, _, signers, rfl, hatt, _⟩ := (verifySignatures_ok_iff H cs data sigs ty).mp h
  intro σ hσ
  obtain ⟨a, ha, rfl⟩ := List.mem_map.mp hσ
  exact ⟨rfl, a, hatt a ha, by simp [recover]⟩

/-- **Quorum of distinct attestors**: acceptance implies that at least `minSigs` (and at least one)
pairwise distinct configured attestors each signed the tagged hash of exactly this data and type. -/
theorem quorum_distinct (H : Bytes → Bytes) (cs : ClientState) (data : Bytes) (sigs : List Sig)
    (ty : UInt8) (h : verifySignatures H cs data sigs ty = .ok ()) :
    ∃ signers : List Addr, signers.Nodup ∧ cs.minSigs ≤ signers.length ∧ 1 ≤ signers.length ∧
      ∀ a ∈ signers, a ∈ cs.attestors ∧ Sig.signed a (tagged H ty data) ∈ sigs := by
  obtain ⟨hne, hq, signers, rfl, hatt, hnd⟩ := (verifySignatures_ok_iff H cs data sigs ty).mp h
  refine ⟨signers, hnd, by simpa using hq, ?_, ?_⟩
  · cases signers with
    | nil => simp at hne
    | cons _ _ => simp
  · intro a ha
    exact ⟨hatt a ha, List.mem_map.mpr ⟨a, ha, rfl⟩⟩

/-- Counting is after de-duplication: a list that repeats a signer is rejected however long it is. -/
theorem duplicate_signer_rejected (H : Bytes → Bytes) (cs : ClientState) (data : Bytes) (ty : UInt8)
    (pre mid post : List Sig) (a : Addr) (d d' : Bytes) :
    verifySignatures H cs data (pre ++ Sig.signed a d :: mid ++ Sig.signed a d' :: post) ty ≠ .ok () := by
  intro h
  obtain ⟨_, _, signers, hs, _, hnd⟩ := (verifySignatures_ok_iff H cs data _ ty).mp h
  -- the signer list projected from the signature list contains `a` twice
  have hproj : (pre ++ Sig.signed a d :: mid ++ Sig.signed a d' :: post).filterMap
      (fun σ => match σ with | .signed b _ => some b | _ => none) = signers := by
    rw [hs]; simp [List.filterMap_map, Function.comp_def]
  have hcount : 2 ≤ signers.count a := by
    rw [← hproj]
    simp only [List.append_assoc, List.cons_append, List.filterMap_append, List.filterMap_cons,
      List.count_append, List.count_cons_self]
    omega
  have := List.nodup_iff_count.mp hnd a
  omega

/-- `tagged` is injective in (type, data) up to an explicit SHA-256 collision. -/
theorem tagged_injective_or_collision (H : Bytes → Bytes) (t t' : UInt8) (d d' : Bytes)
    (h : tagged H t d = tagged H t' d') :
    (t = t' ∧ d = d') ∨
    (t :: H d ≠ t' :: H d' ∧ H (t :: H d) = H (t' :: H d')) ∨
    (d ≠ d' ∧ H d = H d') := by
  by_cases hpre : t :: H d = t' :: H d'
  · simp only [List.cons.injEq] at hpre
    by_cases hd : d = d'
    · left; exact ⟨hpre.1, hd⟩
    · right; right; exact ⟨hd, hpre.2⟩
  · right; left; exact ⟨hpre, h⟩

/-- **Domain separation**: the state tag and the packet tag give different signing inputs for any two
payloads — equality yields an explicit collision of `H` on two 33-byte preimages that differ in byte 0. -/
theorem domain_separated (H : Bytes → Bytes) (d d' : Bytes)
    (h : tagged H tagState d = tagged H tagPacket d') :
    tagState :: H d ≠ tagPacket :: H d' ∧ H (tagState :: H d) = H (tagPacket :: H d') := by
  refine ⟨?_, h⟩
  intro e
  simp [tagState, tagPacket] at e

/-- **State and packet attestations are not interchangeable**: one signature list accepted as a state
attestation of `d` and as a packet attestation of `d'` yields an explicit collision of `H`. -/
theorem state_packet_not_interchangeable (H : Bytes → Bytes) (cs : ClientState) (d d' : Bytes)
    (sigs : List Sig)
    (h1 : verifySignatures H cs d sigs tagState = .ok ())
    (h2 : verifySignatures H cs d' sigs tagPacket = .ok ()) :
    tagState :: H d ≠ tagPacket :: H d' ∧ H (tagState :: H d) = H (tagPacket :: H d') := by
  obtain ⟨hne, _, s1, hs1, _, _⟩ := (verifySignatures_ok_iff H cs d sigs tagState).mp h1
  obtain ⟨_, _, s2, hs2, _, _⟩ := (verifySignatures_ok_iff H cs d' sigs tagPacket).mp h2
  apply domain_separated
  cases s1 with
  | nil => simp [hs1] at hne
  | cons a t =>
    cases s2 with
    | nil => simp [hs2] at hne
    | cons b u =>
      rw [hs1] at hs2
      simp only [List.map_cons, List.cons.injEq, Sig.signed.injEq] at hs2
      exact hs2.1.2

/-- A signature list binds the data: accepted for `d` and for `d'` under the same type means `d = d'`
or an explicit collision. -/
theorem signatures_bind_data (H : Bytes → Bytes) (cs : ClientState) (ty : UInt8) (d d' : Bytes)
    (sigs : List Sig)
    (h1 : verifySignatures H cs d sigs ty = .ok ())
    (h2 : verifySignatures H cs d' sigs ty = .ok ()) :
    d = d' ∨ (ty :: H d ≠ ty :: H d' ∧ H (ty :: H d) = H (ty :: H d')) ∨ (d ≠ d' ∧ H d = H d') := by
  obtain ⟨hne, _, s1, hs1, _, _⟩ := (verifySignatures_ok_iff H cs d sigs ty).mp h1
  obtain ⟨_, _, s2, hs2, _, _⟩ := (verifySignatures_ok_iff H cs d' sigs ty).mp h2
  have ht : tagged H ty d = tagged H ty d' := by
    cases s1 with
    | nil => simp [hs1] at hne
    | cons a t =>
      cases s2 with
      | nil => simp [hs2] at hne
      | cons b u =>
        rw [hs1] at hs2
        simp only [List.map_cons, List.cons.injEq, Sig.signed.injEq] at hs2
        exact hs2.1.2
  rcases tagged_injective_or_collision H ty ty d d' ht with h | h | h
  · exact Or.inl h.2
  · exact Or.inr (Or.inl h)
  · exact Or.inr (Or.inr h)

/-- **Membership ⇔** not frozen ∧ a consensus state is stored at the proof height ∧ the proof unmarshals
and carries a packet-type quorum ∧ its data ABI-decodes to (h, packets) with `h` the revision height ∧
the path is a one-element Merkle path with non-empty key ∧ the value is 32 bytes ∧ some attested packet
has exactly that commitment at `keccak(key)`. -/
theorem membership_iff (H keccak : Bytes → Bytes) (s : State) (height : Nat × Nat)
    (proof : Option Proof) (path : PathArg) (value : Bytes) :
    verifyMembership H keccak s height proof path value = .ok () ↔
      s.cs.frozen = false ∧ value.length = 32 ∧ (s.cons.get height).isSome ∧
      ∃ pr k hh packets, proof = some pr ∧ path = .merkle [k] ∧ k ≠ [] ∧
        verifySignatures H s.cs pr.data pr.sigs tagPacket = .ok () ∧
        pr.decPacket = some (hh, packets) ∧ hh = height.2 ∧
        ∃ p ∈ packets, p.1 = keccak k ∧ p.2 = value ∧ p.1.length = 32 :=
  ⟨membership_fwd H keccak s height proof path value, membership_bwd H keccak s height proof path value⟩

/-- **Non-membership ⇔** (same gates) ∧ the hashed path is attested ∧ every attested entry for it
carries the 32-byte zero commitment. -/
theorem nonmembership_iff (H keccak : Bytes → Bytes) (s : State) (height : Nat × Nat)
    (proof : Option Proof) (path : PathArg) :
    verifyNonMembership H keccak s height proof path = .ok () ↔
      s.cs.frozen = false ∧ (s.cons.get height).isSome ∧
      ∃ pr k hh packets, proof = some pr ∧ path = .merkle [k] ∧ k ≠ [] ∧
        verifySignatures H s.cs pr.data pr.sigs tagPacket = .ok () ∧
        pr.decPacket = some (hh, packets) ∧ hh = height.2 ∧
        (∃ p ∈ packets, p.1 = keccak k) ∧ (∀ p ∈ packets, p.1 = keccak k → p.2 = zero32) :=
  ⟨nonmembership_fwd H keccak s height proof path, nonmembership_bwd H keccak s height proof path⟩

/-- Membership and non-membership are mutually exclusive for a non-zero value on the same proof. -/
theorem membership_excludes_nonmembership (H keccak : Bytes → Bytes) (s : State) (height : Nat × Nat)
    (proof : Option Proof) (path : PathArg) (value : Bytes) (hv : value ≠ zero32)
    (h : verifyMembership H keccak s height proof path value = .ok ()) :
    verifyNonMembership H keccak s height proof path ≠ .ok () := by
  intro h'
  obtain ⟨_, _, _, pr, k, hh, packets, rfl, rfl, _, _, hdec, _, p, hp, hp1, hp2, _⟩ :=
    (membership_iff H keccak s height proof path value).mp h
  obtain ⟨_, _, pr', k', hh', packets', hpr, hpath, _, _, hdec', _, _, hall⟩ :=
    (nonmembership_iff H keccak s height _ _).mp h'
  simp only [Option.some.injEq] at hpr
  subst hpr
  simp only [PathArg.merkle.injEq, List.cons.injEq, and_true] at hpath
  subst hpath
  rw [hdec] at hdec'
  simp only [Option.some.injEq, Prod.mk.injEq] at hdec'
  obtain ⟨_, rfl⟩ := hdec'
  exact hv (hp2 ▸ hall p hp hp1)

/-- **An update accepted by quorum that attests, for an already stored height, a timestamp different from
the stored one freezes the client** (and stores nothing). Timestamps are compared as stored: uint64
nanoseconds `nanos secs`. -/
theorem conflicting_timestamp_freezes (H keccak : Bytes → Bytes) (s : State) (pr : Proof)
    (h secs ts : Nat)
    (hact : s.cs.frozen = false)
    (hsig : verifySignatures H s.cs pr.data pr.sigs tagState = .ok ())
    (hdec : pr.stateAtt = some (h, secs))
    (hstored : s.cons.get (0, h) = some ts)
    (hdiff : ts ≠ nanos secs) :
    step H keccak s (.update (some pr)) = (freeze s, .ok) ∧ (freeze s).cs.frozen = true ∧
      (freeze s).cons = s.cons := by
  have hne : (ts != nanos secs) = true := by simpa using hdiff
  simp [step, hact, verifyClientMessage, hsig, checkForMisbehaviour, hdec, hstored, hne, freeze]

/-- Conversely the client freezes *only* so: an `update` that ends frozen from an active state was accepted
by quorum (state tag) and conflicts with a stored timestamp. -/
theorem freeze_only_on_conflict (H keccak : Bytes → Bytes) (s : State) (msg : ClientMsg)
    (hact : s.cs.frozen = false)
    (hfr : (step H keccak s (.update msg)).1.cs.frozen = true) :
    ∃ pr h secs ts, msg = some pr ∧ verifySignatures H s.cs pr.data pr.sigs tagState = .ok () ∧
      pr.stateAtt = some (h, secs) ∧ s.cons.get (0, h) = some ts ∧ ts ≠ nanos secs := by
  cases msg with
  | none => simp [step, hact, verifyClientMessage] at hfr
  | some pr =>
    cases hsig : verifySignatures H s.cs pr.data pr.sigs tagState with
    | error e => simp [step, hact, verifyClientMessage, hsig] at hfr
    | ok u =>
      cases hdec : pr.stateAtt with
      | none => simp [step, hact, verifyClientMessage, hsig, checkForMisbehaviour, hdec] at hfr
      | some hs =>
        obtain ⟨h, secs⟩ := hs
        cases hst : s.cons.get (0, h) with
        | none =>
          simp [step, hact, verifyClientMessage, hsig, checkForMisbehaviour, hdec, hst, updateState] at hfr
        | some ts =>
          by_cases hd : ts = nanos secs
          · have : (ts != nanos secs) = false := by simpa using hd
            simp [step, hact, verifyClientMessage, hsig, checkForMisbehaviour, hdec, hst, this,
              updateState] at hfr
          · exact ⟨pr, h, secs, ts, rfl, hsig, hdec, hst, hd⟩

/-- An update is accepted only with a state-type quorum; when it neither conflicts nor panics it stores
the attested timestamp at (0, height) and raises the latest height monotonically. -/
theorem update_accepted_only_with_quorum (H keccak : Bytes → Bytes) (s : State) (msg : ClientMsg)
    (hok : (step H keccak s (.update msg)).2 = .ok) :
    s.cs.frozen = false ∧ ∃ pr, msg = some pr ∧
      verifySignatures H s.cs pr.data pr.sigs tagState = .ok () := by
  cases hf : s.cs.frozen with
  | true => simp [step, hf] at hok
  | false =>
    refine ⟨rfl, ?_⟩
    cases msg with
    | none => simp [step, hf, verifyClientMessage] at hok
    | some pr =>
      cases hsig : verifySignatures H s.cs pr.data pr.sigs tagState with
      | error e => simp [step, hf, verifyClientMessage, hsig] at hok
      | ok u => exact ⟨pr, rfl, hsig⟩

/-- **A frozen client accepts nothing**: every operation returns an error and leaves the state unchanged. -/
theorem frozen_accepts_nothing (H keccak : Bytes → Bytes) (s : State) (op : Op)
    (hfr : s.cs.frozen = true) :
    (step H keccak s op).1 = s ∧ ∃ e, (step H keccak s op).2 = .err e := by
  cases op <;>
    simp [step, hfr, verifyClientMessage, verifyMembership, verifyNonMembership, resOf]

/-- **Over all histories**: once frozen, the client stays frozen, its state never changes again and
every later operation fails. -/
theorem frozen_forever (H keccak : Bytes → Bytes) (s : State) (ops : List Op)
    (hfr : s.cs.frozen = true) :
    (run H keccak s ops).1 = s ∧ ∀ r ∈ (run H keccak s ops).2, ∃ e, r = .err e := by
  induction ops with
  | nil => simp [run]
  | cons op ops ih =>
    obtain ⟨h1, e, h2⟩ := frozen_accepts_nothing H keccak s op hfr
    simp only [run, h1]
    refine ⟨ih.1, ?_⟩
    intro r hr
    rcases List.mem_cons.mp hr with rfl | hr
    · exact ⟨e, h2⟩
    · exact ih.2 r hr

/-- **Over all histories**: freezing is irreversible — if the client is frozen at some point of a history
it is frozen at the end. -/
theorem frozen_monotone (H keccak : Bytes → Bytes) (s : State) (ops ops' : List Op)
    (hfr : (run H keccak s ops).1.cs.frozen = true) :
    (run H keccak (run H keccak s ops).1 ops').1.cs.frozen = true := by
  rw [(frozen_forever H keccak _ ops' hfr).1]; exact hfr

/-! ### attested seconds vs stored nanoseconds -/

/-- an accepted state attestation carries a timestamp whose nanosecond conversion does not wrap -/
theorem stateAtt_bound (pr : Proof) (h secs : Nat) (hd : pr.stateAtt = some (h, secs)) :
    secs * 1000000000 < 2 ^ 64 := by
  unfold Proof.stateAtt at hd
  cases hdec : pr.decState with
  | none => simp [hdec] at hd
  | some hs =>
    obtain ⟨h', secs'⟩ := hs
    simp only [hdec] at hd
    by_cases hb : secs' > maxSeconds
    · simp [hb] at hd
    · simp only [hb, if_false, Option.some.injEq, Prod.mk.injEq] at hd
      obtain ⟨_, rfl⟩ := hd
      simp only [maxSeconds] at hb
      omega

/-- **The property read on the attested value (seconds, as signed)**: two accepted updates for one height
that attest different timestamps freeze the client. (Since fix b1892f8 `ABIDecodeStateAttestation` rejects
seconds whose nanosecond conversion would wrap in uint64; before it, 1 s and 1 s + 2^55 s were stored as the
same value and the second update was a no-op.) -/
theorem conflicting_seconds_freeze
    (H keccak : Bytes → Bytes) (s : State) (pr pr' : Proof) (h secs secs' : Nat)
    (hne : secs ≠ secs')
    (hact : s.cs.frozen = false) (hfresh : s.cons.get (0, h) = none)
    (hdec : pr.stateAtt = some (h, secs)) (hdec' : pr'.stateAtt = some (h, secs'))
    (hsig : verifySignatures H s.cs pr.data pr.sigs tagState = .ok ())
    (hsig' : verifySignatures H s.cs pr'.data pr'.sigs tagState = .ok ()) :
    (run H keccak s [.update (some pr), .update (some pr')]).1.cs.frozen = true := by
  have hb := stateAtt_bound pr h secs hdec
  have hb' := stateAtt_bound pr' h secs' hdec'
  have hn : nanos secs ≠ nanos secs' := by
    unfold nanos
    rw [Nat.mod_eq_of_lt hb, Nat.mod_eq_of_lt hb']
    omega
  have hne' : (nanos secs != nanos secs') = true := by simpa using hn
  have hget : Cons.get (Cons.set s.cons (0, h) (nanos secs)) (0, h) = some (nanos secs) := by
    simp [Cons.get, Cons.set]
  have hsig'' : ∀ l f, verifySignatures H { s.cs with latest := l, frozen := f } pr'.data pr'.sigs tagState
      = .ok () := fun _ _ => hsig'
  simp [run, step, hact, verifyClientMessage, hsig, hsig'', checkForMisbehaviour, hdec, hdec', hfresh,
    updateState, hget, hne', freeze]

/-- an update whose attested seconds would overflow is never accepted: `CheckForMisbehaviour` cannot decode
it (the transaction panics / fails) and the state is unchanged -/
theorem overflowing_timestamp_rejected (H keccak : Bytes → Bytes) (s : State) (pr : Proof) (h secs : Nat)
    (hdec : pr.decState = some (h, secs)) (hbig : secs > maxSeconds) :
    (step H keccak s (.update (some pr))).1 = s ∧ (step H keccak s (.update (some pr))).2 ≠ .ok := by
  have hst : pr.stateAtt = none := by simp [Proof.stateAtt, hdec, hbig]
  cases hf : s.cs.frozen with
  | true => simp [step, hf]
  | false =>
    cases hs : verifySignatures H s.cs pr.data pr.sigs tagState with
    | error e => simp [step, hf, verifyClientMessage, hs]
    | ok u => simp [step, hf, verifyClientMessage, hs, checkForMisbehaviour, hst]

/-! ### non-vacuity -/

/-- 3 attestors, quorum 2: two distinct attestors over the right digest are accepted; a duplicate, an
unknown signer, a signature over the packet tag, a truncated signature and a single signature are not. -/
example :
    let H : Bytes → Bytes := fun x => 0 :: x
    let cs : ClientState := ⟨[10, 11, 12], 2, 0, false⟩
    let d := tagged H tagState [9]
    verifySignatures H cs [9] [.signed 10 d, .signed 12 d] tagState = .ok () ∧
    verifySignatures H cs [9] [.signed 10 d, .signed 10 d] tagState = .error .duplicateSigner ∧
    verifySignatures H cs [9] [.signed 10 d, .signed 13 d] tagState = .error .unknownSigner ∧
    verifySignatures H cs [9] [.signed 10 d, .signed 12 (tagged H tagPacket [9])] tagState
      = .error .unknownSigner ∧
    verifySignatures H cs [9] [.signed 10 d, .malformed 64] tagState = .error .invalidSignature ∧
    verifySignatures H cs [9] [.signed 10 d] tagState = .error .invalidQuorum ∧
    verifySignatures H cs [9] [] tagState = .error .invalidSignature :=
  ⟨rfl, rfl, rfl, rfl, rfl, rfl, rfl⟩

end IbcVerif.C28
