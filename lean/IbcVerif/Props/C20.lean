/-
  C20 — Tendermint consensus states are never overwritten.
  Property theorems only; the model is IbcVerif/Model/Tm*.lean, helper lemmas are in IbcVerif/Lemmas/Tm*.lean.

  Reading guide.  `World` = all 07-tendermint clients of one chain + block time/height; `step`/`run` execute
  keeper operations (`Op`: create, update hdr valid, misbehaviour, advance time, upgrade, recover,
  pruneAll, verify(Non)Membership).  `valid` — the verdict of CometBFT's `light.Verify` — and all header
  contents are universally quantified: the theorems hold for every adversarial choice of them.
  `WInv` is the world invariant (proved to hold in every reachable world, `reachable_winv`).
-/
import IbcVerif.Lemmas.TmHist
namespace IbcVerif.C20
open IbcVerif IbcVerif.Tm

/-- every world reachable from the empty chain satisfies the world invariant -/
theorem reachable_winv (ops : List Op) : WInv (run World.empty ops) :=
  run_winv ops World.empty winv_empty

/-- **Never overwritten, over all histories.** If client `cid` stores consensus state `c` at height `h`
    in a (reachable) world `w`, then after any further history `ops` the client stores either the very
    same `c` at `h` or nothing at `h` — and in the latter case `h` lies strictly below every height
    stored then, and every later insertion lands above a stored height, so `h` can never be filled again
    (this is what makes the statement inductive; see `Later`).
    `HistOK` is trivially true for histories without the migration-only `pruneAll` (next theorem) and for
    all update histories (the theorem after that). -/
theorem cons_never_overwritten (w : World) (hw : WInv w) (ops : List Op) (hok : HistOK w ops) (cid : Nat) :
    Later (w.client cid) ((run w ops).client cid) :=
  later_run cid (w.client cid) (hw.stores cid) ops w hw hok (Later.refl _)

/-- the same in plain words: unchanged or absent -/
theorem cons_unchanged_or_removed (w : World) (hw : WInv w) (ops : List Op) (hok : HistOK w ops) (cid : Nat)
    (h : Height) (c : ConsState) (hc : (w.client cid).getCons h = some c) :
    ((run w ops).client cid).getCons h = some c ∨ ((run w ops).client cid).getCons h = none := by
  rcases (cons_never_overwritten w hw ops hok cid).kept h c hc with k | ⟨k, _⟩
  · exact Or.inl k
  · exact Or.inr k

/-- histories of updates (duplicates, conflicting headers, past heights), misbehaviour, time advances,
    upgrades and recoveries — everything except the migration entry point — satisfy `HistOK` -/
theorem histOK_without_pruneAll (w : World) (ops : List Op) (h : ∀ op ∈ ops, op.isPruneAll = false) : HistOK w ops :=
  histOK_of_no_pruneAll ops w h

/-- the property's own quantifier ("all sequences of header updates … and misbehaviour submissions"),
    even with `PruneAllExpiredConsensusStates` interleaved, from the empty chain, at any two points of
    the history -/
theorem never_overwritten_update_histories (ops1 ops2 : List Op)
    (h1 : ∀ op ∈ ops1, op.isUpdateLike = true) (h2 : ∀ op ∈ ops2, op.isUpdateLike = true)
    (cid : Nat) (h : Height) (c : ConsState)
    (hc : ((run World.empty ops1).client cid).getCons h = some c) :
    ((run World.empty (ops1 ++ ops2)).client cid).getCons h = some c ∨
    ((run World.empty (ops1 ++ ops2)).client cid).getCons h = none := by
  rw [run_append]
  have hw := reachable_winv ops1
  have hm := run_wtsMono ops1 World.empty winv_empty wtsMono_empty h1
  exact cons_unchanged_or_removed _ hw ops2 (histOK_of_updateLike ops2 _ hw hm h2) cid h c hc

/-- **Only expired consensus states are removed** (every operation, every state satisfying the
    invariant): if an operation removes the consensus state at `h`, that state had expired with respect
    to the client's trusting period and the block time of the operation. -/
theorem removed_only_if_expired (w : World) (hw : WInv w) (op : Op) (hok : OpOK w op) (cid : Nat)
    (h : Height) (c : ConsState) (hc : (w.client cid).getCons h = some c)
    (hr : ((step w op).1.client cid).getCons h = none) :
    ∃ cs, (w.client cid).client = some cs ∧ c.ts + cs.trustingPeriod ≤ w.now := by
  rcases step_client w hw op hok cid with st | e
  · obtain ⟨cs, hcs, he⟩ := st.expired h c hc hr
    refine ⟨cs, hcs, ?_⟩
    unfold isExpired at he
    simp only [gt_iff_lt, Bool.not_eq_eq_eq_not, Bool.not_true, decide_eq_false_iff_not, Int.not_lt] at he
    exact he
  · rw [e] at hc; cases hc

/-- **Resubmitting the same header is a no-op** apart from the pruning every update performs: the
    result is exactly the pruned store, the client state is untouched and the consensus state at the
    header's height is still the same. -/
theorem duplicate_update_noop (s : Store) (hs : StoreInv s) (now : Int) (self : Height) (hdr : Header) (valid : Bool)
    (cs : ClientState) (hc : s.client = some cs) (hact : s.status now = .active)
    (hv : verifyHeader s hdr valid = none) (hdup : s.getCons hdr.height = some hdr.cons) :
    ∃ s1, s.pruneOldest cs.trustingPeriod now = some s1 ∧ updateStore s now self hdr valid = (s1, "updated") ∧
      s1.client = some cs ∧ s1.getCons hdr.height = some hdr.cons := by
  have nomis : checkHeaderMisbehaviour s hdr = false := by
    unfold checkHeaderMisbehaviour; rw [hdup]; simp
  obtain ⟨c0, ht, _, _, _, hlt, _⟩ := (verifyHeader_none_iff s hdr valid).mp hv
  rcases updateStore_cases s hs now self hdr valid with ⟨_, h | h⟩ | ⟨cs', hc', _, _, ⟨hm, _⟩ | ⟨_, s1, hp, hcase⟩⟩
  · exact absurd hact h
  · exact absurd hv h
  · rw [nomis] at hm; cases hm
  · rw [hc] at hc'; cases hc'
    have keep : s1.getCons hdr.height = some hdr.cons ∧ s1.client = some cs := by
      rcases pruneOldest_spec s hs.metaInv cs.trustingPeriod now with ⟨m, _, ho, _, _, hp'⟩ | ⟨hp', _⟩
      · rw [hp] at hp'; have e := Option.some.inj hp'; subst e
        have : hk m ≤ hk hdr.trusted := ho.2 _ (has_of_getCons ht)
        have ne : m ≠ hdr.height := by intro eq; rw [eq] at this; omega
        exact ⟨by rw [getCons_delete]; simp [ne, hdup], hc⟩
      · rw [hp] at hp'; have e := Option.some.inj hp'; subst e; exact ⟨hdup, hc⟩
    rcases hcase with ⟨_, e⟩ | ⟨hnew, _⟩
    · exact ⟨s1, hp, e, keep.2, keep.1⟩
    · exact absurd (has_of_getCons keep.1) hnew

/-- **A verified header that conflicts with the stored consensus state freezes the client** and writes
    nothing else: the new store differs from the old one only in the client state's frozen height. -/
theorem conflict_freezes (s : Store) (hs : StoreInv s) (now : Int) (self : Height) (hdr : Header) (valid : Bool)
    (cs : ClientState) (hc : s.client = some cs) (hact : s.status now = .active)
    (hv : verifyHeader s hdr valid = none) (c : ConsState) (hst : s.getCons hdr.height = some c) (hne : c ≠ hdr.cons) :
    updateStore s now self hdr valid = ({ s with client := some { cs with frozen := frozenHeight } }, "frozen") ∧
    ∀ now', (updateStore s now self hdr valid).1.status now' = .frozen := by
  have mis : checkHeaderMisbehaviour s hdr = true :=
    (checkHeaderMisbehaviour_iff s hs.metaInv hdr).mpr (Or.inl ⟨c, hst, hne⟩)
  rcases updateStore_cases s hs now self hdr valid with ⟨_, h | h⟩ | ⟨cs', hc', _, _, ⟨_, e⟩ | ⟨hm, _⟩⟩
  · exact absurd hact h
  · exact absurd hv h
  · rw [hc] at hc'; cases hc'
    refine ⟨e, fun now' => ?_⟩
    rw [e]; rfl
  · rw [mis] at hm; cases hm

/-- **Valid misbehaviour freezes the client** and writes nothing else -/
theorem misbehaviour_freezes (s : Store) (now : Int) (m : Misbehaviour) (v1 v2 : Bool)
    (cs : ClientState) (hc : s.client = some cs) (hact : s.status now = .active) (hb : m.validateBasic = true)
    (hv : verifyMisbehaviour cs s m now v1 v2 = none) (hk' : checkMisbehaviourMsg m = true) :
    misbehaviourStore s now m v1 v2 = ({ s with client := some { cs with frozen := frozenHeight } }, "frozen") := by
  unfold misbehaviourStore
  simp [hb, hact, hc, hv, hk']
  rfl

/-- a misbehaviour submission, whatever its outcome, never touches a consensus state or its metadata -/
theorem misbehaviour_writes_no_cons (s : Store) (now : Int) (m : Misbehaviour) (v1 v2 : Bool) :
    (misbehaviourStore s now m v1 v2).1.cons = s.cons ∧ (misbehaviourStore s now m v1 v2).1.ptime = s.ptime ∧
    (misbehaviourStore s now m v1 v2).1.pheight = s.pheight ∧ (misbehaviourStore s now m v1 v2).1.iter = s.iter := by
  rcases misbehaviourStore_cases s now m v1 v2 with e | ⟨cs, _, _, _, _, _, e⟩ <;> rw [e] <;> exact ⟨rfl, rfl, rfl, rfl⟩

/-- a frozen (or otherwise non-Active) client accepts no header: nothing is written -/
theorem inactive_rejects_update (s : Store) (now : Int) (self : Height) (hdr : Header) (valid : Bool)
    (h : s.status now ≠ .active) : updateStore s now self hdr valid = (s, "err:client-not-active") := by
  unfold updateStore; simp [h]

/-- **Recovery and upgrade write only above the latest height**, hence above every stored height: they
    cannot overwrite either -/
theorem recover_upgrade_write_above (w : World) (hw : WInv w) (op : Op)
    (hop : op.isUpdateLike = false) (cid : Nat) (h : Height)
    (hn : ¬ (w.client cid).has h) (hh : ((step w op).1.client cid).has h) :
    hk (w.client cid).latestHeight < hk h ∧ ∀ h', (w.client cid).has h' → hk h' < hk h := by
  have hok : OpOK w op := by cases op <;> simp [Op.isUpdateLike] at hop <;> trivial
  have key : ∀ s s' : Store, StoreInv s → (s' = s ∨ ∃ cs cs' c ph pt, s.client = some cs ∧ hk cs.latest < hk cs'.latest ∧
      s' = (({ s with client := some cs' }).setCons cs'.latest c).setMeta cs'.latest ph pt) →
      ¬ s.has h → s'.has h → hk s.latestHeight < hk h ∧ ∀ h', s.has h' → hk h' < hk h := by
    intro s s' hs hcase hn hh
    rcases hcase with e | ⟨cs, cs', c, ph, pt, hc, hlt, e⟩
    · rw [e] at hh; exact absurd hh hn
    · rw [e] at hh
      rcases (has_insert _ cs'.latest c ph pt h).mp hh with eq | hin
      · rw [latestHeight_of_client hc, ← eq]
        exact ⟨hlt, fun h' hh' => by have := hs.below cs hc h' hh'; omega⟩
      · exact absurd hin hn
  cases op with
  | upgrade c u =>
    have hh' : ((w.put c (upgradeStore (w.client c) w.now w.self u).1).client cid).has h := hh
    rw [client_put] at hh'
    by_cases eq : c = cid
    · subst eq
      simp only [↓reduceIte] at hh'
      apply key _ _ (hw.stores c) _ hn hh'
      rcases upgradeStore_cases (w.client c) w.now w.self u with e | ⟨cs, hc, _, _, _, hlt, _, _, _, _, _, _, e⟩
      · exact Or.inl e
      · right; exact ⟨cs, upgradedClient cs u, _, _, _, hc, hlt, by rw [e]; rfl⟩
    · simp only [eq, ↓reduceIte] at hh'; exact absurd hh' hn
  | recover a b =>
    have hh' : ((w.put a (recoverStore (w.client a) (w.client b) w.now).1).client cid).has h := hh
    rw [client_put] at hh'
    by_cases eq : a = cid
    · subst eq
      simp only [↓reduceIte] at hh'
      apply key _ _ (hw.stores a) _ hn hh'
      rcases recoverStore_cases (w.client a) (w.client b) (hw.stores b).metaInv w.now with e | ⟨cs, scs, c, ph, pt, hc, _, _, _, hlt, _, _, _, _, e⟩
      · exact Or.inl e
      · right; exact ⟨cs, recoveredClient cs scs _, c, ph, pt, hc, hlt, by rw [e]; rfl⟩
    · simp only [eq, ↓reduceIte] at hh'; exact absurd hh' hn
  | _ => simp [Op.isUpdateLike] at hop

/-! ### non-vacuity: a concrete history with an honest update, a duplicate, and a conflicting header -/

def exCs : ClientState :=
  { chainId := "simchain-1", tlNum := 1, tlDen := 3, trustingPeriod := 1000000000000, unbondingPeriod := 1500000000000, maxClockDrift := 10000000000,
    frozen := ⟨0, 0⟩, latest := ⟨1, 5⟩, proofSpecs := some "sdk", upgradePath := ["upgrade"], allowExpiry := false, allowMisb := false }

def exNvh : String := String.ofList (List.replicate 64 'a')

def exHdr (h : UInt64) (ts : Int) (root : String) : Header :=
  { height := ⟨1, h⟩, ts := ts, root := root, nvh := exNvh, trusted := ⟨1, 5⟩, tvals := some exNvh, parseOK := true,
    blockHash := "bb", commitOK := true, blockIdOK := true, basicOK := true }

def exWorld : World := (createClient ⟨[], 0, 2000000000, ⟨1, 9⟩⟩ exCs ⟨1000000000, String.ofList (List.replicate 64 'c'), exNvh⟩).1

example : (step exWorld (.update 0 (exHdr 7 1000000100 "r7") true)).2 = "updated" := by decide
example : ((run exWorld [.update 0 (exHdr 7 1000000100 "r7") true, .update 0 (exHdr 7 1000000100 "r7") true]).client 0).cons =
          ((run exWorld [.update 0 (exHdr 7 1000000100 "r7") true]).client 0).cons := by decide
example : (step (run exWorld [.update 0 (exHdr 7 1000000100 "r7") true]) (.update 0 (exHdr 7 1000000100 "FORK") true)).2 = "frozen" := by decide

end IbcVerif.C20
