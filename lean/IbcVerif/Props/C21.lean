/-
  C21 — Tendermint client status is exact and gates every use.
  Property theorems only (model: IbcVerif/Model/Tm*.lean; lemmas: IbcVerif/Lemmas/Tm*.lean).

  Consumers of a client and where they check `Status == Active` (ibc-go v11, this tree):
    02-client keeper (modelled and proved here):
      UpdateClient (keeper/client.go:56, headers and misbehaviour), UpgradeClient (:100),
      RecoverClient (:129 subject must NOT be Active, :133 substitute must be Active),
      VerifyMembership (keeper/keeper.go:343), VerifyNonMembership (:357), CreateClient (:36, after Initialize).
    consumers that call `ClientKeeper.GetClientStatus` themselves (status is the function proved exact
    here; the handlers belong to the chain cluster, C12–C14/C08):
      03-connection ConnOpenInit (keeper/handshake.go:38); 04-channel ChanOpenInit (keeper/handshake.go:53),
      ChanCloseInit (:376), SendPacket v1 (keeper/packet.go:61); 04-channel/v2 sendPacket (v2/keeper/packet.go:68);
      core ante RedundantRelayDecorator for MsgUpdateClient (ante/ante.go:192); rate-limiting AddRateLimit
      (keeper/rate_limit.go:98); gRPC VerifyMembership query (02-client/keeper/grpc_query.go:414).
    every other handshake / packet step (ConnOpenTry/Ack/Confirm, ChanOpenTry/Ack/Confirm, ChanCloseConfirm,
    RecvPacket, Acknowledgement, Timeout, TimeoutOnClose, v2 recv/ack/timeout) reaches the client only
    through `VerifyMembership` / `VerifyNonMembership` of the 02-client keeper, i.e. through the gate proved here.
-/
import IbcVerif.Lemmas.TmGate
namespace IbcVerif.C21
open IbcVerif IbcVerif.Tm

/-- **Status is exact**: Frozen if the frozen height is non-zero; otherwise Expired if the consensus
    state at the latest height is missing or `timestamp + trustingPeriod ≤ now` (inclusive boundary);
    otherwise Active. A client without client state is Unknown (never Active). -/
theorem status_exact (s : Store) (now : Int) :
    (s.client = none → s.status now = .unknown) ∧
    (∀ cs, s.client = some cs → s.status now =
      if hk cs.frozen ≠ 0 then Status.frozen
      else match s.getCons cs.latest with
        | none => Status.expired
        | some c => if c.ts + cs.trustingPeriod ≤ now then Status.expired else Status.active) :=
  ⟨fun h => (status_unknown_iff s now).mpr h, fun cs hc => status_spec s cs hc now⟩

/-- the boundary is inclusive: expired exactly at `ts + trustingPeriod`, still active one nanosecond before -/
theorem expiry_boundary (s : Store) (cs : ClientState) (c : ConsState) (hc : s.client = some cs)
    (hf : hk cs.frozen = 0) (hg : s.getCons cs.latest = some c) :
    s.status (c.ts + cs.trustingPeriod) = .expired ∧ s.status (c.ts + cs.trustingPeriod - 1) = .active ∧
    ∀ now, s.status now = .active ↔ now < c.ts + cs.trustingPeriod := by
  refine ⟨?_, ?_, ?_⟩
  · rw [status_spec s cs hc]; simp [hf, hg]
  · rw [status_spec s cs hc]; simp [hf, hg]; omega
  · intro now
    rw [status_spec s cs hc]
    by_cases e : c.ts + cs.trustingPeriod ≤ now
    · simp [hf, hg, e]
    · simp [hf, hg, e]; omega

/-- Frozen has precedence and does not depend on time -/
theorem frozen_precedence (s : Store) (cs : ClientState) (hc : s.client = some cs) (hf : hk cs.frozen ≠ 0) (now : Int) :
    s.status now = .frozen := by
  rw [status_spec s cs hc]; simp [hf]

/-- **The latest height never decreases**, over all histories of all operations (no side condition) -/
theorem latest_height_monotone (w : World) (hw : WInv w) (ops : List Op) (cid : Nat) :
    hk (w.client cid).latestHeight ≤ hk ((run w ops).client cid).latestHeight :=
  run_latest cid ops w hw

/-- **Updates are gated**: a header submitted to a client that is not Active is rejected with
    `ErrClientNotActive` and nothing is written -/
theorem gated_update (s : Store) (now : Int) (self : Height) (hdr : Header) (valid : Bool) (h : s.status now ≠ .active) :
    updateStore s now self hdr valid = (s, "err:client-not-active") := by
  unfold updateStore; simp [h]

/-- misbehaviour submissions are gated likewise (after the stateless `ValidateBasic`) -/
theorem gated_misbehaviour (s : Store) (now : Int) (m : Misbehaviour) (v1 v2 : Bool) (h : s.status now ≠ .active) :
    misbehaviourStore s now m v1 v2 = (s, "err:client-not-active") ∨ misbehaviourStore s now m v1 v2 = (s, "err:basic") := by
  unfold misbehaviourStore
  by_cases hb : m.validateBasic = true
  · left; simp [hb, h]
  · right; simp [hb]

/-- upgrades are gated -/
theorem gated_upgrade (s : Store) (now : Int) (self : Height) (u : UpgradeReq) (h : s.status now ≠ .active) :
    upgradeStore s now self u = (s, "err:client-not-active") := by
  unfold upgradeStore; simp [h]

/-- **Proof verification is gated** (membership and non-membership; hence every receive, acknowledgement,
    timeout and handshake verification step) -/
theorem gated_verify (s : Store) (now : Int) (self : Height) (r : MembershipReq) (h : s.status now ≠ .active) :
    verifyMembershipStore s now self r = "err:client-not-active" := by
  unfold verifyMembershipStore; simp [h]

/-- proof verification never writes -/
theorem verify_read_only (w : World) (cid : Nat) (r : MembershipReq) :
    (step w (.verifyMembership cid r)).1 = w ∧ (step w (.verifyNonMembership cid r)).1 = w := ⟨rfl, rfl⟩

/-- world-level form: any consumer operation aimed at a client that is not Active fails and leaves
    every client store as it was -/
theorem gated_world (w : World) (cid : Nat) (op : Op) (h : (w.client cid).status w.now ≠ .active)
    (hop : (∃ hdr v, op = .update cid hdr v) ∨ (∃ m v1 v2, op = .misbehaviour cid m v1 v2) ∨ (∃ u, op = .upgrade cid u) ∨
           (∃ r, op = .verifyMembership cid r) ∨ (∃ r, op = .verifyNonMembership cid r)) :
    ((step w op).2 = "err:client-not-active" ∨ (step w op).2 = "err:basic") ∧
    ∀ cid', (step w op).1.client cid' = w.client cid' := by
  rcases hop with ⟨hdr, v, e⟩ | ⟨m, v1, v2, e⟩ | ⟨u, e⟩ | ⟨r, e⟩ | ⟨r, e⟩ <;> subst e
  · have := gated_update (w.client cid) w.now w.self hdr v h
    refine ⟨Or.inl (by show (updateStore _ _ _ _ _).2 = _; rw [this]), fun cid' => ?_⟩
    show (w.put cid (updateStore _ _ _ _ _).1).client cid' = _
    rw [this]; exact put_same_client w cid cid'
  · rcases gated_misbehaviour (w.client cid) w.now m v1 v2 h with e | e
    · refine ⟨Or.inl (by show (misbehaviourStore _ _ _ _ _).2 = _; rw [e]), fun cid' => ?_⟩
      show (w.put cid (misbehaviourStore _ _ _ _ _).1).client cid' = _
      rw [e]; exact put_same_client w cid cid'
    · refine ⟨Or.inr (by show (misbehaviourStore _ _ _ _ _).2 = _; rw [e]), fun cid' => ?_⟩
      show (w.put cid (misbehaviourStore _ _ _ _ _).1).client cid' = _
      rw [e]; exact put_same_client w cid cid'
  · have := gated_upgrade (w.client cid) w.now w.self u h
    refine ⟨Or.inl (by show (upgradeStore _ _ _ _).2 = _; rw [this]), fun cid' => ?_⟩
    show (w.put cid (upgradeStore _ _ _ _).1).client cid' = _
    rw [this]; exact put_same_client w cid cid'
  · exact ⟨Or.inl (gated_verify _ _ _ r h), fun _ => rfl⟩
  · exact ⟨Or.inl (gated_verify _ _ _ r h), fun _ => rfl⟩

/-- recovery is gated the other way round: an Active subject cannot be recovered, and the substitute
    must be Active -/
theorem recover_gates (sj sb : Store) (now : Int) :
    (sj.status now = .active → recoverStore sj sb now = (sj, "err:invalid-recovery-client")) ∧
    (sj.status now ≠ .active → sb.status now ≠ .active → recoverStore sj sb now = (sj, "err:client-not-active")) := by
  constructor
  · intro h; unfold recoverStore; simp [h]
  · intro h1 h2; unfold recoverStore; simp [h1, h2]

/-- the only way out of Frozen is a successful recovery: every other operation keeps a frozen client frozen -/
theorem frozen_persists (w : World) (hw : WInv w) (op : Op) (cid : Nat)
    (hf : (w.client cid).status w.now = .frozen) (hop : ∀ b, op ≠ .recover cid b) (hcr : ∀ cs c, op ≠ .create cs c) :
    ∀ now', ((step w op).1.client cid).status now' = .frozen := by
  intro now'
  have hna : (w.client cid).status w.now ≠ .active := by rw [hf]; decide
  have frozenAny : ∀ s : Store, s.status w.now = .frozen → s.status now' = .frozen := by
    intro s h
    cases hc : s.client with
    | none => have := (status_unknown_iff s w.now).mpr hc; rw [this] at h; cases h
    | some cs =>
      by_cases z : hk cs.frozen = 0
      · rw [status_spec s cs hc] at h
        simp only [z, ne_eq, not_true_eq_false, ↓reduceIte] at h
        cases hg : s.getCons cs.latest with
        | none => rw [hg] at h; cases h
        | some c => rw [hg] at h; by_cases e : c.ts + cs.trustingPeriod ≤ w.now <;> simp [e] at h
      · exact frozen_precedence s cs hc z now'
  cases op with
  | create cs c => exact absurd rfl (hcr cs c)
  | update c hdr valid =>
    show ((w.put c (updateStore _ _ _ _ _).1).client cid).status now' = _
    rw [client_put]
    by_cases e : c = cid
    · subst e; simp only [↓reduceIte]; rw [gated_update _ _ _ _ _ hna]; exact frozenAny _ hf
    · simp only [e, ↓reduceIte]; exact frozenAny _ hf
  | misbehaviour c m v1 v2 =>
    show ((w.put c (misbehaviourStore _ _ _ _ _).1).client cid).status now' = _
    rw [client_put]
    by_cases e : c = cid
    · subst e; simp only [↓reduceIte]
      rcases gated_misbehaviour _ w.now m v1 v2 hna with e' | e' <;> rw [e'] <;> exact frozenAny _ hf
    · simp only [e, ↓reduceIte]; exact frozenAny _ hf
  | advance dt dh => exact frozenAny _ hf
  | upgrade c u =>
    show ((w.put c (upgradeStore _ _ _ _).1).client cid).status now' = _
    rw [client_put]
    by_cases e : c = cid
    · subst e; simp only [↓reduceIte]; rw [gated_upgrade _ _ _ _ hna]; exact frozenAny _ hf
    · simp only [e, ↓reduceIte]; exact frozenAny _ hf
  | recover a b =>
    show ((w.put a (recoverStore _ _ _).1).client cid).status now' = _
    rw [client_put]
    by_cases e : a = cid
    · subst e; exact absurd rfl (hop b)
    · simp only [e, ↓reduceIte]; exact frozenAny _ hf
  | pruneAll c =>
    show ((w.put c (pruneAllStore _ _).1).client cid).status now' = _
    rw [client_put]
    by_cases e : c = cid
    · subst e; simp only [↓reduceIte]
      -- pruning keeps the client state, and Frozen depends on the client state only
      cases hc : (w.client c).client with
      | none => have := (status_unknown_iff _ w.now).mpr hc; rw [this] at hf; cases hf
      | some cs =>
        have hz : hk cs.frozen ≠ 0 := by
          intro z
          rw [status_spec _ cs hc] at hf
          simp only [z, ne_eq, not_true_eq_false, ↓reduceIte] at hf
          cases hg : (w.client c).getCons cs.latest with
          | none => rw [hg] at hf; cases hf
          | some c0 => rw [hg] at hf; by_cases e : c0.ts + cs.trustingPeriod ≤ w.now <;> simp [e] at hf
        exact frozen_precedence _ cs ((pruneAllStore_client _ (hw.stores c) w.now).trans hc) hz now'
    · simp only [e, ↓reduceIte]; exact frozenAny _ hf
  | verifyMembership c r => exact frozenAny _ hf
  | verifyNonMembership c r => exact frozenAny _ hf

/-! ### non-vacuity -/

def exNv : String := String.ofList (List.replicate 64 'a')
def exRoot : String := String.ofList (List.replicate 64 'c')
def exCs : ClientState :=
  { chainId := "simchain-1", tlNum := 1, tlDen := 3, trustingPeriod := 1000, unbondingPeriod := 1500,
    maxClockDrift := 10, frozen := ⟨0, 0⟩, latest := ⟨1, 5⟩, proofSpecs := some "sdk", upgradePath := ["upgrade"],
    allowExpiry := false, allowMisb := false }
def exS : Store := initClient exCs ⟨5000, exRoot, exNv⟩ 5001 ⟨1, 1⟩

example : exS.status 5999 = .active ∧ exS.status 6000 = .expired ∧ exS.status 6001 = .expired ∧
    (freeze exCs exS).status 5999 = .frozen ∧ (freeze exCs exS).status 7000 = .frozen := by decide

end IbcVerif.C21
