/-
  C35 — Packet data encodings round-trip; decoding never panics.
  Property theorems only; models in IbcVerif/Model/{Abi,AbiAmount,Proto,Panic}.lean, helper lemmas in
  IbcVerif/Lemmas/{AbiBytes,Abi,AbiAtt,AbiCodec,AbiAmount,Proto*}.lean.

  Scope.  Solidity-ABI (go-ethereum `accounts/abi` as called by ibc-go) and protobuf (the
  generated `Unmarshal` + cosmos-sdk `RejectUnknownFieldsStrict`) are modelled and proved here for
  ICS-20 `FungibleTokenPacketData`, GMP `GMPPacketData` / `Acknowledgement` and the attestation
  light client's `StateAttestation` / `PacketAttestation`.  JSON goes through `encoding/json`:
  its round trip and panic-freedom are validated by the harness monitor only (no model, no theorem).
  "Never panics" is a statement about the model in which every Go index/slice expression of the
  decoders is an explicit panicking primitive (`G.slice`, `G.index`); the harness ties it to the
  real code by feeding mutated and random bytes to every decoder under `recover()`.
  `GoLen b` (`b.length < 2^63`) holds of every Go byte slice; the decoders' `int64` guards make
  the round trip false without it.
-/
import IbcVerif.Model.Abi
import IbcVerif.Model.AbiAmount
import IbcVerif.Model.Proto
import IbcVerif.Lemmas.AbiCodec
import IbcVerif.Lemmas.AbiAmount
import IbcVerif.Lemmas.ProtoTotal
namespace IbcVerif.C35
open IbcVerif IbcVerif.Abi

/-- a length every Go slice has -/
def GoLen (b : Bytes) : Prop := b.length < 2 ^ 63

/-! ## Solidity ABI — ICS-20 -/

/-- ABI round trip for every ICS-20 value whose amount is a canonical decimal below 2^256 (what
    ibc-go itself writes into a packet): encoding succeeds and decoding returns the same value. -/
theorem abi_roundtrip (denom sender receiver memo : Bytes) (n : Nat) (hn : n < 2 ^ 256)
    (hlen : GoLen (packWrapped [.dyn denom, .dyn sender, .dyn receiver, .num n, .dyn memo])) :
    ∃ bz, encodeFtpd ⟨denom, dec n, sender, receiver, memo⟩ = .ok bz ∧
      decodeFtpd bz = .ok ⟨denom, dec n, sender, receiver, memo⟩ := by
  refine ⟨_, ?_, decodeFtpd_pack denom sender receiver memo n hn hlen⟩
  simp [encodeFtpd, newIntFromString_dec n hn]

/-- ABI round trip for any amount spelling the encoder accepts (`sdkmath.NewIntFromString`: base
    prefixes, leading zeros, `+`, digit separators): the decoded amount is the canonical decimal of
    the integer read; all other fields are returned unchanged. -/
theorem abi_roundtrip_any_spelling (d : Ftpd) (n : Nat) (hp : newIntFromString d.amount = some (false, n))
    (hlen : GoLen (packWrapped [.dyn d.denom, .dyn d.sender, .dyn d.receiver, .num n, .dyn d.memo])) :
    ∃ bz, encodeFtpd d = .ok bz ∧ decodeFtpd bz = .ok ⟨d.denom, dec n, d.sender, d.receiver, d.memo⟩ := by
  have hn : n < 2 ^ 256 := by
    unfold newIntFromString at hp
    split at hp
    · split at hp
      · rename_i neg m _ hlt; cases hp; exact hlt
      · cases hp
    · cases hp
  refine ⟨_, ?_, decodeFtpd_pack d.denom d.sender d.receiver d.memo n hn hlen⟩
  unfold encodeFtpd
  rw [hp]
  simp

/-- the ICS-20 ABI decoder is total: on every byte string it returns a value or an error; no slice
    expression of `toGoType` / `lengthPrefixPointsTo` / `tuplePointsTo` goes out of bounds -/
theorem abi_decode_total (data : Bytes) : G.NoPanic (decodeFtpd data) := decodeFtpd_noPanic data

/-- two packet-data values denote the same transfer: same denom, sender, receiver, memo and the same
    amount *as the integer every ICS-20 consumer reads* (`sdkmath.NewIntFromString`) -/
def SameTransfer (x y : Ftpd) : Prop :=
  x.denom = y.denom ∧ x.sender = y.sender ∧ x.receiver = y.receiver ∧ x.memo = y.memo ∧
    newIntFromString x.amount = newIntFromString y.amount

/-- The full statement of the property for the ABI encoding: every value with a valid amount
    (`ValidateBasic`'s amount check, whatever its spelling) encodes, and decoding gives the same
    transfer.  (Before fix 6129489 this was false of the code — the encoder read the amount in base
    10, `ValidateBasic` in base 0: "010" was validated as 8 and encoded as 10; the witnesses "010"
    and "0x10" are kept as regression inputs of the harness monitor.) -/
theorem abi_same_transfer_full (x : Ftpd) (hv : (validAmount x.amount).isSome)
    (hlen : ∀ n, GoLen (packWrapped [.dyn x.denom, .dyn x.sender, .dyn x.receiver, .num n, .dyn x.memo])) :
    ∃ bz y, encodeFtpd x = .ok bz ∧ decodeFtpd bz = .ok y ∧ SameTransfer x y := by
  obtain ⟨n, hn⟩ : ∃ n, newIntFromString x.amount = some (false, n) := by
    unfold validAmount at hv
    split at hv
    · rename_i n heq; exact ⟨n, heq⟩
    · cases hv
  obtain ⟨bz, he, hd⟩ := abi_roundtrip_any_spelling x n hn (hlen n)
  have hlt : n < 2 ^ 256 := by
    unfold newIntFromString at hn
    split at hn
    · split at hn
      · rename_i neg m _ hlt; cases hn; exact hlt
      · cases hn
    · cases hn
  exact ⟨bz, _, he, hd, rfl, rfl, rfl, rfl, by rw [hn]; exact (newIntFromString_dec n hlt).symm⟩

/-! ## Solidity ABI — GMP packet data and acknowledgement -/

/-- GMP packet data: ABI decode ∘ encode = id, also through `UnmarshalPacketData`'s re-encoding check -/
theorem gmp_abi_roundtrip (d : Gmp) (hlen : GoLen (encodeGmp d)) :
    decodeGmp (encodeGmp d) = .ok d ∧ unmarshalGmpAbi (encodeGmp d) = .ok d := by
  have h := decodeGmp_encode d hlen
  refine ⟨h, ?_⟩
  unfold unmarshalGmpAbi
  rw [h]; simp

/-- GMP acknowledgement: ABI decode ∘ encode = id -/
theorem gmp_ack_abi_roundtrip (r : Bytes) (hlen : GoLen (encodeAck r)) :
    decodeAck (encodeAck r) = .ok r ∧ unmarshalAckAbi (encodeAck r) = .ok r := by
  have h := decodeAck_encode r hlen
  refine ⟨h, ?_⟩
  unfold unmarshalAckAbi
  rw [h]; simp

/-- the GMP ABI decoders are total -/
theorem gmp_abi_decode_total (data : Bytes) :
    G.NoPanic (decodeGmp data) ∧ G.NoPanic (unmarshalGmpAbi data) ∧
    G.NoPanic (decodeAck data) ∧ G.NoPanic (unmarshalAckAbi data) :=
  ⟨decodeGmp_noPanic data, unmarshalGmpAbi_noPanic data, decodeAck_noPanic data, unmarshalAckAbi_noPanic data⟩

/-! ## Solidity ABI — attestation light client -/

/-- `StateAttestation`: the encoding carries whole seconds, so the round trip returns the timestamp
    truncated to seconds … -/
theorem state_attestation_roundtrip_trunc (s : StateAtt) (hh : s.height < 2 ^ 64) (ht : s.timestamp < 2 ^ 64) :
    decodeState (encodeState s) = .ok ⟨s.height, s.timestamp / nanosPerSecond * nanosPerSecond⟩ :=
  decodeState_encode s hh ht

/-- … and is the identity on every value representable in the encoding (whole-second timestamps) -/
theorem state_attestation_roundtrip (s : StateAtt) (hh : s.height < 2 ^ 64) (ht : s.timestamp < 2 ^ 64)
    (hsec : s.timestamp % nanosPerSecond = 0) : decodeState (encodeState s) = .ok s := by
  rw [decodeState_encode s hh ht]
  have : s.timestamp / nanosPerSecond * nanosPerSecond = s.timestamp := by
    have := Nat.div_add_mod s.timestamp nanosPerSecond
    rw [Nat.mul_comm]; omega
  rw [this]

/-- `PacketAttestation`: identity on every value representable in the encoding (32-byte path and
    commitment words; other lengths are truncated / zero-padded by `bytesToBytes32`) -/
theorem packet_attestation_roundtrip (a : PacketAtt) (hh : a.height < 2 ^ 64)
    (h32 : ∀ p ∈ a.packets, p.path.length = 32 ∧ p.commitment.length = 32) (hlen : GoLen (encodePacketAtt a)) :
    decodePacketAtt (encodePacketAtt a) = .ok a := by
  rw [decodePacketAtt_encode a hh hlen]
  have : a.packets.map normCompact = a.packets := by
    have : ∀ p ∈ a.packets, normCompact p = p := by
      intro p hp
      obtain ⟨h1, h2⟩ := h32 p hp
      cases p
      simp only [normCompact] at *
      rw [bytes32_of_length _ h1, bytes32_of_length _ h2]
    rw [List.map_congr_left this, List.map_id']
  rw [this]

/-- the attestation decoders are total -/
theorem attestation_decode_total (data : Bytes) :
    G.NoPanic (decodeState data) ∧ G.NoPanic (decodePacketAtt data) :=
  ⟨decodeState_noPanic data, decodePacketAtt_noPanic data⟩

/-! ## protobuf — messages with `k` string/bytes fields numbered `1..k`
    (`k = 5`: ICS-20 `FungibleTokenPacketData`, `GMPPacketData`; `k = 1`: GMP `Acknowledgement`) -/

/-- protobuf round trip: the marshalled bytes pass `RejectUnknownFieldsStrict`, the generated
    `Unmarshal` returns the value (all fields, hence the amount string verbatim), and GMP's
    re-marshalling check accepts -/
theorem proto_roundtrip (k : Nat) (hk : k < 2 ^ 31) (vals : List Bytes) (hl : vals.length = k)
    (hlen : GoLen (Proto.encode vals)) :
    Proto.decode k (Proto.encode vals) = .ok vals ∧ Proto.decodeCanonical k (Proto.encode vals) = .ok vals :=
  ⟨Proto.decode_encode k hk vals hl hlen, Proto.decodeCanonical_encode k hk vals hl hlen⟩

/-- protobuf decoding rejects unknown fields: after any sequence of well-formed known fields, a tag
    whose field number is not in `1..k` (any wire type, any continuation) makes decoding fail -/
theorem proto_rejects_unknown_fields (k : Nat) (hk : k < 2 ^ 31) (fs : List (Nat × Bytes)) (num wt : Nat) (rest : Bytes)
    (hfs : ∀ f ∈ fs, 1 ≤ f.1 ∧ f.1 ≤ k ∧ f.2.length < 2 ^ 64)
    (hwt : wt < 8) (htag : num * 8 + wt < 2 ^ 64) (hnum : num = 0 ∨ k < num) :
    (∃ e, Proto.decode k (Proto.encRaws fs ++ (Proto.encVarint (num * 8 + wt) ++ rest)) = .err e) ∧
    (∃ e, Proto.decodeCanonical k (Proto.encRaws fs ++ (Proto.encVarint (num * 8 + wt) ++ rest)) = .err e) := by
  obtain ⟨e, he⟩ := Proto.decode_rejects_unknown k hk fs num wt rest hfs hwt htag hnum
  refine ⟨⟨e, he⟩, e, ?_⟩
  unfold Proto.decodeCanonical
  rw [he]; rfl

/-- protobuf decoding is total (both passes; `dAtA[iNdEx]` and `dAtA[iNdEx:postIndex]` of the
    generated code are always in range) -/
theorem proto_decode_total (k : Nat) (data : Bytes) :
    G.NoPanic (Proto.decode k data) ∧ G.NoPanic (Proto.decodeCanonical k data) ∧ G.NoPanic (Proto.unmarshal k data) :=
  ⟨Proto.decode_noPanic k data, Proto.decodeCanonical_noPanic k data, Proto.unmarshalLoop_noPanic _ _ _ _ _⟩

/-! ## non-vacuity -/

/-- a concrete transfer round-trips through the ABI (amount 2^256−1, the largest representable) -/
example : ∃ bz, encodeFtpd ⟨[117], dec (2 ^ 256 - 1), [97], [98], [123, 125]⟩ = .ok bz ∧
    decodeFtpd bz = .ok ⟨[117], dec (2 ^ 256 - 1), [97], [98], [123, 125]⟩ :=
  abi_roundtrip [117] [97] [98] [123, 125] (2 ^ 256 - 1) (by decide)
    (by unfold GoLen; rw [packWrapped_length]; simp [encTails, FVal.tail, encDyn_length, ceil32])

/-- the hypothesis of `abi_same_transfer_full` is satisfiable by non-canonical spellings too
    ("010" is valid and reads as 8, "0x10" as 16, "+5" as 5) -/
example : validAmount ['0', '1', '0'] = some 8 ∧ validAmount ['0', 'x', '1', '0'] = some 16 ∧
    validAmount ['+', '5'] = some 5 := by decide

/-- a message of known fields (some empty) round-trips; an unknown field 6 after a known field 1 is rejected -/
example : Proto.decode 5 (Proto.encode [[1], [], [2, 3], [], []]) = .ok [[1], [], [2, 3], [], []] ∧
    ∃ e, Proto.decode 5 (Proto.encRaws [(1, [1])] ++ (Proto.encVarint (6 * 8 + 2) ++ [0])) = .err e :=
  ⟨(proto_roundtrip 5 (by decide) _ rfl (by
      simp [GoLen, Proto.encode, Proto.encFieldsFrom, Proto.encField, Proto.tagOf, Proto.encVarint_lt])).1,
   (proto_rejects_unknown_fields 5 (by decide) [(1, [1])] 6 2 [0] (by simp) (by decide) (by decide) (by decide)).1⟩

end IbcVerif.C35
