/-
  C34 — Denomination paths round-trip and determine voucher names.
  Property theorems only; helper lemmas live in IbcVerif/Lemmas/Denom.lean.

  Model: IbcVerif/Model/Denom.lean (transfer/types/denom.go, hop.go, keys.go and the identifier
  recognisers `ExtractDenomFromPath` calls: `channeltypes.IsValidChannelID`,
  `clienttypes.IsValidClientID`).  The hash is a parameter: `hashHex s` stands for the upper-case hex
  of SHA-256 of `s`, `h20 s` for its first 20 bytes.
-/
import IbcVerif.Model.Denom
import IbcVerif.Lemmas.Denom
import IbcVerif.Lemmas.Ics20Inv
namespace IbcVerif.C34
open IbcVerif IbcVerif.Xfer

/-- **Round trip.**  Every denomination path that ICS-20 accepts (`ExtractDenomFromPath(s).Validate()`
    succeeds — the check `FungibleTokenPacketData.ValidateBasic` performs on send and on receive)
    serialises back to the same string after being parsed into trace and base. -/
theorem path_roundtrip (s : Str) (h : (extract s).validate = none) : (extract s).path = s := by
  rw [extract_eq] at h ⊢
  generalize hgo : extractGo (decide ((splitOnChar '/' s).length > 2)) (splitOnChar '/' s) = g at h ⊢
  obtain ⟨tr, r⟩ := g
  have hflat : flatHops tr ++ r = splitOnChar '/' s := by
    have := extractGo_flat (decide ((splitOnChar '/' s).length > 2)) (splitOnChar '/' s)
    rw [hgo] at this; exact this
  have hr : r ≠ [] := by
    intro e
    subst e
    simp [Denom.validate, joinWith, goBlank] at h
  simp only [Denom.path, Denom.isNative]
  cases tr with
  | nil =>
    simp only [flatHops, List.nil_append] at hflat
    simp [hflat, join_split]
  | cons x xs =>
    simp only [List.isEmpty_cons, Bool.false_eq_true, if_false]
    rw [tracePrefix_join _ _ hr, hflat, join_split]

/-- The only parses that do not round-trip end in an empty base (which `Validate` rejects):
    whenever the base is non-empty the path is reproduced, validated or not. -/
theorem path_roundtrip_of_base_ne_nil (s : Str) (h : (extract s).base ≠ []) : (extract s).path = s := by
  rw [extract_eq] at h ⊢
  generalize hgo : extractGo (decide ((splitOnChar '/' s).length > 2)) (splitOnChar '/' s) = g at h ⊢
  obtain ⟨tr, r⟩ := g
  have hflat : flatHops tr ++ r = splitOnChar '/' s := by
    have := extractGo_flat (decide ((splitOnChar '/' s).length > 2)) (splitOnChar '/' s)
    rw [hgo] at this; exact this
  have hr : r ≠ [] := by
    intro e; subst e; exact h rfl
  simp only [Denom.path, Denom.isNative]
  cases tr with
  | nil =>
    simp only [flatHops, List.nil_append] at hflat
    simp [hflat, join_split]
  | cons x xs =>
    simp only [List.isEmpty_cons, Bool.false_eq_true, if_false]
    rw [tracePrefix_join _ _ hr, hflat, join_split]

/-- **Where the hop loop stops** (`extract_deterministic_prefix`).  The '/'-segments of `s` are the
    trace's (port, channel) pairs followed by the segments joined into the base; every hop has an
    ibc-go formatted channel or client identifier; the loop stopped at the first pair whose second
    segment is not so formatted (or immediately, when `s` has at most two segments). -/
theorem extract_characterisation (s : Str) :
    ∃ rest : List Str,
      splitOnChar '/' s = flatHops (extract s).trace ++ rest ∧
      (extract s).base = joinWith '/' rest ∧
      (∀ h ∈ (extract s).trace, isHopId h.chan = true) ∧
      (∀ p c more, rest = p :: c :: more → isHopId c = false ∨ (splitOnChar '/' s).length ≤ 2) := by
  rw [extract_eq]
  refine ⟨(extractGo (decide ((splitOnChar '/' s).length > 2)) (splitOnChar '/' s)).2, ?_, rfl, ?_, ?_⟩
  · exact (extractGo_flat _ _).symm
  · exact extractGo_hops_isHopId _ _
  · intro p c more hrest
    generalize hl : decide ((splitOnChar '/' s).length > 2) = long at hrest
    have key : ∀ (segs : List Str), (extractGo long segs).2 = p :: c :: more → (long && isHopId c) = false := by
      intro segs
      induction segs using extractGo.induct long with
      | case1 p' c' rest' hc ih =>
        intro hh
        simp only [extractGo, hc, if_true] at hh
        exact ih hh
      | case2 p' c' rest' hc =>
        intro hh
        simp only [extractGo, hc] at hh
        simp only [Bool.false_eq_true, if_false, List.cons.injEq] at hh
        obtain ⟨_, h2, _⟩ := hh
        subst h2
        simpa using hc
      | case3 segs hne =>
        intro hh
        unfold extractGo at hh
        split at hh
        · rename_i p' c' rest'
          exact absurd rfl (hne p' c' rest')
        · exact absurd hh (hne p c more)
    have := key _ hrest
    cases hlong : long with
    | true =>
      left
      simpa [hlong] using this
    | false =>
      right
      rw [hlong] at hl
      simpa using hl

/-- **Voucher name.**  For an accepted path the voucher denomination is `"ibc/"` + hash of exactly the
    path string when a trace was found, and the string itself otherwise. -/
theorem voucher_name_of_path (hashHex : Str → Str) (s : Str) (h : (extract s).validate = none) :
    (extract s).ibcDenom hashHex =
      if (extract s).trace.isEmpty then s else "ibc/".toList ++ hashHex s := by
  have hp := path_roundtrip s h
  unfold Denom.ibcDenom Denom.isNative
  split
  · rename_i hn
    simp only [Denom.path, Denom.isNative, hn, if_true] at hp
    exact hp
  · rw [hp]

/-- **Independence of the split.**  Two trace/base decompositions of the same path string (both with
    a non-empty trace) get the same voucher name: `IBCDenom` hashes `Path()` and nothing else. -/
theorem voucher_name_independent_of_split (hashHex : Str → Str) (d₁ d₂ : Denom)
    (h₁ : d₁.trace ≠ []) (h₂ : d₂.trace ≠ []) (hp : d₁.path = d₂.path) :
    d₁.ibcDenom hashHex = d₂.ibcDenom hashHex := by
  unfold Denom.ibcDenom Denom.isNative
  cases t1 : d₁.trace with
  | nil => exact absurd t1 h₁
  | cons a as =>
    cases t2 : d₂.trace with
    | nil => exact absurd t2 h₂
    | cons b bs => simp [hp]

/-- … in particular re-parsing the path of a voucher `d` (as the receiving side and the refund path do)
    yields the same voucher name as `d`, however the parser splits it, as long as it finds a trace. -/
theorem voucher_name_stable_under_reparse (hashHex : Str → Str) (d : Denom) (hd : d.trace ≠ [])
    (hv : (extract d.path).validate = none) (ht : (extract d.path).trace ≠ []) :
    (extract d.path).ibcDenom hashHex = d.ibcDenom hashHex :=
  voucher_name_independent_of_split hashHex _ _ ht hd (path_roundtrip _ hv)

/-- The escrow-address pre-image `"ics20-1" ++ [0] ++ port ++ "/" ++ channel` determines the
    (port, channel) pair for '/'-free port identifiers (all valid identifiers are '/'-free). -/
theorem escrowPreimage_injective (p c p' c' : Str) (hp : '/' ∉ p) (hp' : '/' ∉ p')
    (h : escrowPreimage p c = escrowPreimage p' c') : p = p' ∧ c = c' := by
  unfold escrowPreimage at h
  have h1 : p ++ '/' :: c = p' ++ '/' :: c' := by
    have := List.append_cancel_left h
    exact List.cons.inj this |>.2
  have h2 := congrArg (splitOnChar '/') h1
  rw [splitOnChar_append '/' p c hp, splitOnChar_append '/' p' c' hp'] at h2
  have hpe : p = p' := (List.cons.inj h2).1
  subst hpe
  exact ⟨rfl, by simpa using h1⟩

/-- **Escrow addresses bind the channel** (collision-extraction form): equal escrow addresses for
    two (port, channel) pairs with '/'-free ports mean equal pairs — or an explicit collision of the
    20-byte truncated hash on two distinct, exhibited pre-images. -/
theorem escrow_address_binds {α : Type} (h20 : Str → α) (p c p' c' : Str) (hp : '/' ∉ p) (hp' : '/' ∉ p')
    (h : escrowAddress h20 p c = escrowAddress h20 p' c') :
    (p = p' ∧ c = c') ∨
    (escrowPreimage p c ≠ escrowPreimage p' c' ∧ h20 (escrowPreimage p c) = h20 (escrowPreimage p' c')) := by
  by_cases he : escrowPreimage p c = escrowPreimage p' c'
  · left; exact escrowPreimage_injective p c p' c' hp hp' he
  · right; exact ⟨he, h⟩

/-- valid port identifiers are '/'-free, so the hypothesis of `escrow_address_binds` holds for every
    identifier pair ICS-24 validation accepts -/
theorem validPortId_no_sep (p : Str) (h : validPortId p = true) : '/' ∉ p := by
  unfold validPortId validIdentifier at h
  simp only [Bool.and_eq_true, Bool.not_eq_true', decide_eq_true_eq] at h
  intro hm
  have := h.1.1.1.1.2
  simp [List.contains_iff_mem, hm] at this

/-- **Stored under the hash of exactly the full path.**  In the ICS-20 model (`SetDenom` is the only
    writer of the denomination store, keeper.go) the store never holds two entries under one key —
    the key being the hash of the entry's own `Path()` — after any sequence of steps whatsoever, and
    looking an entry up by the hash of its path returns exactly that entry. -/
theorem denom_stored_under_hash (cfg : Ics20.Config) (w : Ics20.World) (ops : List Ics20.Op)
    (h0 : Ics20.DenomsKeyed cfg w) (c : Nat) :
    ∀ d ∈ ((Ics20.run cfg w ops).chains c).denoms,
      Ics20.getDenom cfg ((Ics20.run cfg w ops).chains c) (cfg.hashHex d.path) = some d :=
  fun d hd => Ics20.getDenom_of_mem (Ics20.denomsKeyed_run cfg ops w h0 c) d hd

/-- non-vacuity: accepted paths with unexpected shapes — a trace followed by a multi-segment base, and
    a client-id hop — parse and round-trip; a path ending in a hop does not validate. -/
example :
    (extract "transfer/channel-0/gamm/pool/1".toList) = ⟨[⟨"transfer".toList, "channel-0".toList⟩], "gamm/pool/1".toList⟩ ∧
    (extract "transfer/channel-0/gamm/pool/1".toList).validate = none ∧
    (extract "transfer/07-tendermint-12/x".toList).trace = [⟨"transfer".toList, "07-tendermint-12".toList⟩] ∧
    (extract "transfer/channel-0/transfer/channel-1".toList).validate = some .blankBase := by
  decide

end IbcVerif.C34
