/-
  C43 — Packet forwarding is all-or-nothing and conserves tokens.
  Property theorems only; model: IbcVerif/Model/Pfm.lean on top of the transfer cluster's denom model.

  Status: full for the modelled part.  On the pinned tree the refund of a forward sent back over its
  arrival channel (receive MINTED, forward BURNT: A→B→A) minted phantom vouchers into the channel's
  escrow account; repaired by /repo commit f970a92, the model mirrors the repaired code, and the old
  witness is kept as `bounce_witness_now_restored`.  The timeout path (in-flight record,
  `RetriesRemaining`, re-send, give-up refund) is modelled and proved too: `retry_conserves`,
  `failed_retry_reverts` (the liveness caveat), `timeout_exhausted_refunds`, `override_receiver_empty`,
  `all_or_nothing_with_timeouts`.
-/
import IbcVerif.Model.Pfm
import IbcVerif.Lemmas.Pfm
namespace IbcVerif.C43
open IbcVerif IbcVerif.Xfer IbcVerif.Pfm

/-- **The forwarded denomination is the denomination ICS-20 credited** on the intermediate chain: for
    every packet denomination string, PFM's `getDenomForThisChain` (applied to the parsed denom, as
    `OnRecvPacket` does) equals the coin denomination ICS-20's `OnRecvPacket` credits. -/
theorem forward_denom_is_credited_denom (hashHex : Str → Str) (srcPort srcChan dstPort dstChan s : Str) :
    getDenomForThisChain hashHex dstPort dstChan srcPort srcChan (extract s) =
      ics20RecvCoinDenom hashHex srcPort srcChan dstPort dstChan s := by
  unfold getDenomForThisChain ics20RecvCoinDenom
  by_cases h : (extract s).hasPrefix srcPort srcChan = true
  · simp only [h, if_true]
    unfold Denom.ibcDenom Denom.path Denom.isNative
    by_cases ht : (extract s).trace.tail.isEmpty = true <;> simp [ht]
  · simp [h]

/-- a voucher cannot carry two different first hops: if the coin has both the arrival channel and the
    forward channel as first hop, they are the same channel — the (mint, burn) combination is the bounce -/
theorem mint_and_burn_is_bounce (d : Denom) (p1 c1 p2 c2 : Str)
    (h1 : d.hasPrefix p1 c1 = true) (h2 : d.hasPrefix p2 c2 = true) : p1 = p2 ∧ c1 = c2 := by
  unfold Denom.hasPrefix at h1 h2
  cases ht : d.trace with
  | nil => simp [ht] at h1
  | cons h t =>
    simp only [ht, Bool.and_eq_true, beq_iff_eq] at h1 h2
    exact ⟨h1.1.symm.trans h2.1, h1.2.symm.trans h2.2⟩

/-- **Refund restores the intermediate chain** (voucher supply, both escrow accounts, total escrow) in
    EVERY combination of what the receive did (mint / unescrow) and what the forward did (escrow /
    burn), for every amount and every prior state. -/
theorem refund_restores (h : FHop) (a : Int) (m : Mid) : bounceBack h a m = m :=
  refund_fwd_recv h a m

/-- Regression of the finding fixed by /repo f970a92: receive mints 100, the forward back over the same
    channel burns 100, the forward fails — the unrepaired refund left 100 phantom vouchers in the escrow
    account and in the total-escrow entry (v = 100, er = 100, te = 100); now the chain is exactly as before. -/
theorem bounce_witness_now_restored : bounceBack ⟨.mint, .burn⟩ 100 ⟨0, 0, 0, 0, 0⟩ = ⟨0, 0, 0, 0, 0⟩ := by
  decide

/-- **All-or-nothing over routes of any length** (induction on the route): if the route fails somewhere
    downstream, every intermediate chain that had forwarded ends exactly where it started and the
    outcome is a clean refund; if nothing fails the outcome is `delivered`. -/
theorem all_or_nothing (route : List (FHop × Mid)) (a : Int) :
    route.map (fun x => bounceBack x.1 a x.2) = route.map (·.2) ∧
    routeOutcome (route.map (·.1)) true = .refundedClean ∧
    routeOutcome (route.map (·.1)) false = .delivered := by
  refine ⟨?_, ?_, rfl⟩
  · induction route with
    | nil => rfl
    | cons x t ih =>
      simp only [List.map_cons, List.cons.injEq]
      exact ⟨refund_restores x.1 a x.2, ih⟩
  · unfold routeOutcome
    have : (route.map (·.1)).all FHop.restores = true := by
      rw [List.all_eq_true]
      intro h _
      unfold FHop.restores
      rw [refund_restores]
      decide
    rw [this]
    rfl

/-- non-vacuity: A→B→C with a token native to A (B mints then escrows) and with a voucher returning to
    its origin C (B unescrows then burns): both restored after a failed forward. -/
example : bounceBack ⟨.mint, .escrow⟩ 70 ⟨5, 10, 20, 30, 0⟩ = ⟨5, 10, 20, 30, 0⟩ ∧
    bounceBack ⟨.unescrow, .burn⟩ 70 ⟨500, 100, 20, 300, 7⟩ = ⟨500, 100, 20, 300, 7⟩ ∧
    bounceBack ⟨.unescrow, .escrow⟩ 70 ⟨500, 100, 20, 300, 0⟩ = ⟨500, 100, 20, 300, 0⟩ := by decide


/-! ### timeouts and retries -/

/-- **A retry conserves.**  A timeout of the in-flight forward while retries remain (and the re-send
    succeeds) changes NO balance, supply or total-escrow entry on the intermediate chain: ICS-20's
    timeout refund to the override receiver and the new escrow/burn cancel exactly.  All that changes is
    the in-flight record: moved to the new sequence with one retry fewer. -/
theorem retry_conserves (h : FHop) (a : Int) (n : Node) (r : InFlight)
    (hr : n.flight = some r) (hpos : 0 < r.retriesRemaining) :
    onTimeout h a true r.seq n =
      ({ m := n.m, flight := some ⟨n.nextSeq, r.retriesRemaining - 1⟩, nextSeq := n.nextSeq + 1 }, .retried) := by
  have : ¬ r.retriesRemaining ≤ 0 := by omega
  simp [onTimeout, hr, this, forwardOk, fwd_ics20Refund]

/-- **Liveness caveat, stated explicitly.**  If the re-send of a retry fails, `OnTimeoutPacket` returns the
    error, the timeout transaction reverts: nothing changes and the packet is still in flight (it can be
    timed out again later).  No funds move; the route merely does not terminate at this point. -/
theorem failed_retry_reverts (h : FHop) (a : Int) (n : Node) (r : InFlight)
    (hr : n.flight = some r) (hpos : 0 < r.retriesRemaining) :
    onTimeout h a false r.seq n = (n, .reverted) := by
  have : ¬ r.retriesRemaining ≤ 0 := by omega
  simp [onTimeout, hr, this]

/-- **Exhausted retries refund like an error acknowledgement.**  (1) The give-up step is, on the chain
    state, literally the error-ack step (same refund function, record removed).  (2) Starting from a
    fresh receive-and-forward with `retries` retries, `retries + 1` timeouts (every re-send succeeding)
    end with the record gone and the chain exactly as before the receive. -/
theorem timeout_exhausted_refunds (h : FHop) (a : Int) :
    (∀ (n : Node) (r : InFlight) (ok : Bool), n.flight = some r → r.retriesRemaining ≤ 0 →
      onTimeout h a ok r.seq n = (onErrorAck h a r.seq n, .gaveUp)) ∧
    (∀ (n0 : Node) (retries : Nat), n0.flight = none →
      let n := afterTimeouts h a (receiveAndForward h a retries true n0) (List.replicate (retries + 1) true)
      n.flight = none ∧ n.m = n0.m) := by
  constructor
  · intro n r ok hr hz
    simp [onTimeout, onErrorAck, hr, hz]
  · intro n0 retries _
    have := exhaust h a retries (receiveAndForward h a retries true n0) ⟨n0.nextSeq, retries⟩
      (by simp [receiveAndForward, forwardOk]) rfl
    refine ⟨this.1, ?_⟩
    rw [this.2]
    simp only [receiveAndForward, forwardOk, if_true]
    exact refund_fwd_recv h a n0.m

/-- **The intermediate receive account never keeps funds.**  The override receiver's balance of the
    forwarded coin is back at its prior value at the end of the receive step (forwarded, or the whole
    receive discarded), after every timeout step (retry, failed retry, give-up) and after the
    error-acknowledgement refund. -/
theorem override_receiver_empty (h : FHop) (a : Int) (n : Node) :
    (∀ retries ok, (receiveAndForward h a retries ok n).m.ov = n.m.ov) ∧
    (∀ ok seq, (onTimeout h a ok seq n).1.m.ov = n.m.ov) ∧
    (∀ seq, (onErrorAck h a seq n).m.ov = n.m.ov) := by
  refine ⟨?_, ?_, ?_⟩
  · intro retries ok
    cases ok
    · simp [receiveAndForward]
    · simp only [receiveAndForward, forwardOk, if_true]
      exact fwd_recv_ov h a n.m
  · intro ok seq
    unfold onTimeout
    cases hr : n.flight with
    | none => rfl
    | some r =>
      simp only []
      by_cases hs : r.seq = seq
      · simp only [hs, if_true]
        by_cases hz : r.retriesRemaining ≤ 0
        · simp only [hz, if_true]; exact refund_ov _ _ _ _
        · simp only [hz, if_false]
          cases ok
          · rfl
          · simp only [if_true, forwardOk, fwd_ics20Refund]
      · simp [hs]
  · intro seq
    unfold onErrorAck
    cases hr : n.flight with
    | none => rfl
    | some r =>
      simp only []
      by_cases hs : r.seq = seq
      · simp only [hs, if_true]; exact refund_ov _ _ _ _
      · simp [hs]

/-- **All-or-nothing with any number of timeouts per hop** (induction on the route; per hop induction on
    the run of timeouts, i.e. on the remaining retries).  Every intermediate chain of a route receives
    and forwards (with its own retry budget), then sees ANY sequence of timeouts of its in-flight packet —
    re-sends succeeding or failing in any pattern, giving up when the retries are exhausted — and finally,
    the route failing downstream, the error acknowledgement if it is still in flight.  At the end every
    intermediate chain is exactly where it started and holds no in-flight record.  While a hop has not
    given up its state is "funds forwarded, record present" — never anything in between. -/
theorem all_or_nothing_with_timeouts (a : Int) (route : List (FHop × Node × Nat × List Bool))
    (hfresh : ∀ x ∈ route, x.2.1.flight = none) :
    (route.map fun x => (settleFailed x.1 a (afterTimeouts x.1 a (receiveAndForward x.1 a x.2.2.1 true x.2.1) x.2.2.2)).m)
        = route.map (·.2.1.m) ∧
    (∀ x ∈ route, (settleFailed x.1 a (afterTimeouts x.1 a (receiveAndForward x.1 a x.2.2.1 true x.2.1) x.2.2.2)).flight = none) ∧
    (∀ x ∈ route, Tracks x.1 a x.2.1.m (afterTimeouts x.1 a (receiveAndForward x.1 a x.2.2.1 true x.2.1) x.2.2.2)) := by
  have key : ∀ x ∈ route, Tracks x.1 a x.2.1.m (afterTimeouts x.1 a (receiveAndForward x.1 a x.2.2.1 true x.2.1) x.2.2.2) := by
    intro x _
    apply afterTimeouts_tracks
    left
    simp [receiveAndForward, forwardOk]
  refine ⟨?_, ?_, key⟩
  · induction route with
    | nil => rfl
    | cons x t ih =>
      simp only [List.map_cons, List.cons.injEq]
      refine ⟨(settleFailed_of_tracks x.1 a x.2.1.m _ (key x (by simp))).1, ?_⟩
      exact ih (fun y hy => hfresh y (by simp [hy])) (fun y hy => key y (by simp [hy]))
  · intro x hx
    exact (settleFailed_of_tracks x.1 a x.2.1.m _ (key x hx)).2

/-- non-vacuity: mint/escrow hop, 2 retries: timeout (re-sent), timeout with a failing re-send
    (reverted, still in flight), timeout (re-sent), timeout (re-sent … no: retries now 0 → give up). -/
example :
    let n0 : Node := ⟨⟨5, 10, 20, 30, 0⟩, none, 7⟩
    let n1 := receiveAndForward ⟨.mint, .escrow⟩ 70 2 true n0
    n1 = ⟨⟨75, 10, 90, 100, 0⟩, some ⟨7, 2⟩, 8⟩ ∧
    (onTimeout ⟨.mint, .escrow⟩ 70 true 7 n1) = (⟨⟨75, 10, 90, 100, 0⟩, some ⟨8, 1⟩, 9⟩, .retried) ∧
    afterTimeouts ⟨.mint, .escrow⟩ 70 n1 [true, false, true] = ⟨⟨75, 10, 90, 100, 0⟩, some ⟨9, 0⟩, 10⟩ ∧
    afterTimeouts ⟨.mint, .escrow⟩ 70 n1 [true, false, true, true] = ⟨⟨5, 10, 20, 30, 0⟩, none, 10⟩ := by
  decide

end IbcVerif.C43
