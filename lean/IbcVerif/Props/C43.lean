/-
  C43 — Packet forwarding is all-or-nothing and conserves tokens.
  Property theorems only; model: IbcVerif/Model/Pfm.lean on top of the transfer cluster's denom model.

  Status: full for the modelled part.  On the pinned tree the refund of a forward sent back over its
  arrival channel (receive MINTED, forward BURNT: A→B→A) minted phantom vouchers into the channel's
  escrow account; repaired by /repo commit f970a92, the model mirrors the repaired code, and the old
  witness is kept as `bounce_witness_now_restored`.  Retries / timeouts are monitor-checked only.
-/
import IbcVerif.Model.Pfm
namespace IbcVerif.C43
open IbcVerif IbcVerif.Xfer IbcVerif.Pfm

/-- **The forwarded denomination is the denomination ICS-20 credited** on the intermediate chain: for
    every packet denomination string, PFM's `getDenomForThisChain` (applied to the parsed denom, as
    `OnRecvPacket` does) equals the coin denomination ICS-20's `OnRecvPacket` credits. -/
theorem forward_denom_is_credited_denom (hashHex : Str → Str) (srcPort srcChan dstPort dstChan s : Str) :
    getDenomForThisChain hashHex dstPort dstChan srcPort srcChan (extract s) =
      ics20RecvCoinDenom hashHex srcPort srcChan dstPort dstChan s := by
  unfold getDenomForThisChain ics20RecvCoinDenom
  by_cases h : (extract s).hasPrefix srcPort srcChan = true
  · simp only [h, if_true]
    unfold Denom.ibcDenom Denom.path Denom.isNative
    by_cases ht : (extract s).trace.tail.isEmpty = true <;> simp [ht]
  · simp [h]

/-- a voucher cannot carry two different first hops: if the coin has both the arrival channel and the
    forward channel as first hop, they are the same channel — the (mint, burn) combination is the bounce -/
theorem mint_and_burn_is_bounce (d : Denom) (p1 c1 p2 c2 : Str)
    (h1 : d.hasPrefix p1 c1 = true) (h2 : d.hasPrefix p2 c2 = true) : p1 = p2 ∧ c1 = c2 := by
  unfold Denom.hasPrefix at h1 h2
  cases ht : d.trace with
  | nil => simp [ht] at h1
  | cons h t =>
    simp only [ht, Bool.and_eq_true, beq_iff_eq] at h1 h2
    exact ⟨h1.1.symm.trans h2.1, h1.2.symm.trans h2.2⟩

/-- **Refund restores the intermediate chain** (voucher supply, both escrow accounts, total escrow) in
    EVERY combination of what the receive did (mint / unescrow) and what the forward did (escrow /
    burn), for every amount and every prior state. -/
theorem refund_restores (h : FHop) (a : Int) (m : Mid) : bounceBack h a m = m := by
  obtain ⟨r, f⟩ := h
  obtain ⟨v, er, ef, te⟩ := m
  cases r <;> cases f <;> simp [bounceBack, refund, refundCoded, fwdEff, recvEff] <;> omega

/-- Regression of the finding fixed by /repo f970a92: receive mints 100, the forward back over the same
    channel burns 100, the forward fails — the unrepaired refund left 100 phantom vouchers in the escrow
    account and in the total-escrow entry (⟨100, 100, 0, 100⟩); now the chain is exactly as before. -/
theorem bounce_witness_now_restored : bounceBack ⟨.mint, .burn⟩ 100 ⟨0, 0, 0, 0⟩ = ⟨0, 0, 0, 0⟩ := by
  decide

/-- **All-or-nothing over routes of any length** (induction on the route): if the route fails somewhere
    downstream, every intermediate chain that had forwarded ends exactly where it started and the
    outcome is a clean refund; if nothing fails the outcome is `delivered`. -/
theorem all_or_nothing (route : List (FHop × Mid)) (a : Int) :
    route.map (fun x => bounceBack x.1 a x.2) = route.map (·.2) ∧
    routeOutcome (route.map (·.1)) true = .refundedClean ∧
    routeOutcome (route.map (·.1)) false = .delivered := by
  refine ⟨?_, ?_, rfl⟩
  · induction route with
    | nil => rfl
    | cons x t ih =>
      simp only [List.map_cons, List.cons.injEq]
      exact ⟨refund_restores x.1 a x.2, ih⟩
  · unfold routeOutcome
    have : (route.map (·.1)).all FHop.restores = true := by
      rw [List.all_eq_true]
      intro h _
      unfold FHop.restores
      rw [refund_restores]
      decide
    rw [this]
    rfl

/-- non-vacuity: A→B→C with a token native to A (B mints then escrows) and with a voucher returning to
    its origin C (B unescrows then burns): both restored after a failed forward. -/
example : bounceBack ⟨.mint, .escrow⟩ 70 ⟨5, 10, 20, 30⟩ = ⟨5, 10, 20, 30⟩ ∧
    bounceBack ⟨.unescrow, .burn⟩ 70 ⟨500, 100, 20, 300⟩ = ⟨500, 100, 20, 300⟩ ∧
    bounceBack ⟨.unescrow, .escrow⟩ 70 ⟨500, 100, 20, 300⟩ = ⟨500, 100, 20, 300⟩ := by decide

end IbcVerif.C43
