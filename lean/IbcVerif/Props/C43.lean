/-
  C43 — Packet forwarding is all-or-nothing and conserves tokens.
  Property theorems only; model: IbcVerif/Model/Pfm.lean on top of the transfer cluster's denom model.

  Status: the forwarded denomination is the credited one (full).  The refund of a failed forward
  restores the intermediate chain in three of the four (receive, forward) combinations; in the fourth —
  the receive MINTED and the forward BURNT, which happens exactly when a packet is forwarded back over
  the channel it arrived on (A→B→A) — `WriteAcknowledgementForForwardedPacket` takes the "forward burnt"
  branch and mints phantom vouchers into the channel's escrow account (`refund_restores_full_false`;
  replayed on real chains by the harness; open known finding).  `all_or_nothing_partial` lifts the
  three good cases to routes of any length by induction on the route.
-/
import IbcVerif.Model.Pfm
namespace IbcVerif.C43
open IbcVerif IbcVerif.Xfer IbcVerif.Pfm

/-- **The forwarded denomination is the denomination ICS-20 credited** on the intermediate chain: for
    every packet denomination string, PFM's `getDenomForThisChain` (applied to the parsed denom, as
    `OnRecvPacket` does) equals the coin denomination ICS-20's `OnRecvPacket` credits. -/
theorem forward_denom_is_credited_denom (hashHex : Str → Str) (srcPort srcChan dstPort dstChan s : Str) :
    getDenomForThisChain hashHex dstPort dstChan srcPort srcChan (extract s) =
      ics20RecvCoinDenom hashHex srcPort srcChan dstPort dstChan s := by
  unfold getDenomForThisChain ics20RecvCoinDenom
  by_cases h : (extract s).hasPrefix srcPort srcChan = true
  · simp only [h, if_true]
    unfold Denom.ibcDenom Denom.path Denom.isNative
    by_cases ht : (extract s).trace.tail.isEmpty = true <;> simp [ht]
  · simp [h]

/-- a voucher cannot carry two different first hops: if the coin has both the arrival channel and the
    forward channel as first hop, they are the same channel — the (mint, burn) combination is the bounce -/
theorem mint_and_burn_is_bounce (d : Denom) (p1 c1 p2 c2 : Str)
    (h1 : d.hasPrefix p1 c1 = true) (h2 : d.hasPrefix p2 c2 = true) : p1 = p2 ∧ c1 = c2 := by
  unfold Denom.hasPrefix at h1 h2
  cases ht : d.trace with
  | nil => simp [ht] at h1
  | cons h t =>
    simp only [ht, Bool.and_eq_true, beq_iff_eq] at h1 h2
    exact ⟨h1.1.symm.trans h2.1, h1.2.symm.trans h2.2⟩

/-- **Refund restores the intermediate chain** (supply, both escrow accounts, total escrow) in every
    combination except (receive minted, forward burnt). -/
theorem refund_restores_partial (h : FHop) (a : Int) (m : Mid) (hb : ¬ (h.recv = .mint ∧ h.fwd = .burn)) :
    bounceBack h a m = m := by
  obtain ⟨r, f⟩ := h
  obtain ⟨v, er, ef, te⟩ := m
  cases r <;> cases f <;> simp_all [bounceBack, refund, refundCoded, fwdEff, recvEff] <;> omega

def refund_restores_full : Prop := ∀ (h : FHop) (a : Int) (m : Mid), bounceBack h a m = m

/-- False of the code: receive mints 100, forward (back over the same channel) burns 100, the forward
    fails; the coded refund mints 100 more into the channel's escrow account and raises total escrow. -/
theorem refund_restores_full_false : ¬ refund_restores_full := by
  intro h
  have := h ⟨.mint, .burn⟩ 100 ⟨0, 0, 0, 0⟩
  revert this
  decide

/-- what the bounce leaves behind, exactly: `a` phantom vouchers in the escrow account and `a` more in
    the total-escrow entry -/
theorem bounce_leaves_phantom (a : Int) (m : Mid) :
    bounceBack ⟨.mint, .burn⟩ a m = { m with v := m.v + a, er := m.er + a, te := m.te + a } := by
  obtain ⟨v, er, ef, te⟩ := m
  simp [bounceBack, refund, refundCoded, fwdEff, recvEff]

/-- **All-or-nothing over routes of any length** (induction on the route): if the route fails somewhere
    downstream, every intermediate chain that had forwarded ends exactly where it started, provided
    no hop is a bounce; if nothing fails the outcome is `delivered`. -/
theorem all_or_nothing_partial (route : List (FHop × Mid)) (a : Int)
    (hb : ∀ x ∈ route, ¬ (x.1.recv = .mint ∧ x.1.fwd = .burn)) :
    route.map (fun x => bounceBack x.1 a x.2) = route.map (·.2) ∧
    routeOutcome (route.map (·.1)) true = .refundedClean ∧
    routeOutcome (route.map (·.1)) false = .delivered := by
  refine ⟨?_, ?_, rfl⟩
  · induction route with
    | nil => rfl
    | cons x t ih =>
      simp only [List.map_cons, List.cons.injEq]
      exact ⟨refund_restores_partial x.1 a x.2 (hb x (by simp)), ih (fun y hy => hb y (by simp [hy]))⟩
  · unfold routeOutcome
    simp only [Bool.not_true, Bool.false_eq_true, if_false]
    have : (route.map (·.1)).all (fun h => !(h.recv == .mint && h.fwd == .burn)) = true := by
      rw [List.all_eq_true]
      intro h hh
      obtain ⟨x, hx, rfl⟩ := List.mem_map.mp hh
      have := hb x hx
      cases hr : x.1.recv <;> cases hf : x.1.fwd <;> simp_all
    rw [this]
    rfl

/-- non-vacuity: A→B→C with a token native to A (B mints then escrows) and with a voucher returning to
    its origin C (B unescrows then burns): both restored after a failed forward. -/
example : bounceBack ⟨.mint, .escrow⟩ 70 ⟨5, 10, 20, 30⟩ = ⟨5, 10, 20, 30⟩ ∧
    bounceBack ⟨.unescrow, .burn⟩ 70 ⟨500, 100, 20, 300⟩ = ⟨500, 100, 20, 300⟩ ∧
    bounceBack ⟨.unescrow, .escrow⟩ 70 ⟨500, 100, 20, 300⟩ = ⟨500, 100, 20, 300⟩ := by decide

end IbcVerif.C43
