/-
  C32 — Failed transfers refund exactly the sent amount, exactly once.
  Property theorems only; helper lemmas live in IbcVerif/Lemmas/Ics20*.lean.

  Model: `Ics20.step` (Model/Ics20.lean): `Transfer` / `SendTransfer`, `refundPacketTokens`, the v1 and v2
  acknowledgement and timeout callbacks.  "Exactly once" is stated over all histories that respect the
  packet lifecycle (`LifecycleOK`, Lemmas/Ics20Lifecycle.lean — the guarantees of C01/C03/C04/C06 as a
  named hypothesis).  "Restores the pre-send state" is stated as a frame law: the refund's effect is
  the exact inverse of the send's effect, whatever other packets did in between.

  History: before fix 4b2f809 the refund of a native coin shaped like a voucher path minted a voucher
  instead (the refund re-parses the packet's path); `Transfer` now rejects such coins, so the token
  the refund re-parses is the token that was sent (`sent_token_is_reparsed_token`).
-/
import IbcVerif.Model.Ics20
import IbcVerif.Lemmas.Ics20
import IbcVerif.Lemmas.Ics20Step
import IbcVerif.Lemmas.Ics20Lifecycle
namespace IbcVerif.C32
open IbcVerif IbcVerif.Xfer IbcVerif.Ics20

/-- the refunding callbacks for packet `p`: timeout (by `MsgTimeout` or `MsgTimeoutOnClose`), v1 error
    acknowledgement, v2 sentinel -/
def IsRefundOf (p : Packet) : Op → Prop
  | .timeout q _ => q = p
  | .ack q a => q = p ∧ (a = .error ∨ a = .sentinel)
  | _ => False

/-- every denomination recorded in the store re-parses to itself (holds along all lifecycle-respecting
    histories, `Ics20.storeStable_run`) -/
def StoreStable (ch : Chain) : Prop := ∀ d ∈ ch.denoms, PathStable d

/-- **The refund sees the token that was sent.**  For a packet produced by `Transfer`, re-parsing the
    packet's denomination path yields the token `SendTransfer` debited (v1: the token from
    `TokenFromCoin`, whose base passed `ValidateBaseNotHopLike`; v2: the re-parsed token itself). -/
theorem sent_token_is_reparsed_token {cfg : Config} {c : Nat} {ch ch' : Chain} {m : MsgTransfer}
    {ce : Option String} {seq : Nat} {p : Packet} (hstore : StoreStable ch)
    (h : transfer cfg c ch m ce seq = .ok (ch', p)) :
    ∃ s, cfg.decode p.data.sender = some s ∧ p.srcChain = c ∧ p.srcPort = transferPort ∧
      sendTransfer cfg c ch p.srcPort p.srcChan (extract p.data.denom) p.data.amount s = .ok ch' := by
  obtain ⟨s, n, tok, hs, _, htok, hhf, _, hdata, hc, hsp, hsc, _, _, _, hst⟩ := transfer_ok h
  refine ⟨s, by rw [hdata]; exact hs, hc, hsp, ?_⟩
  rw [hdata, hsp, hsc]
  simp only
  rcases hst with ⟨_, hst⟩ | ⟨_, _, hst⟩
  · have hstable : PathStable tok := by
      rcases tokenFromCoin_cases htok with rfl | hmem
      · exact pathStable_of_hopFree _ (by intro x hx; simp at hx) (by intro x hx; simp at hx) hhf
      · exact hstore tok hmem
    rw [hstable]; exact hst
  · exact hst

/-- **Exact refund (frame law).**  Let a `MsgTransfer` send packet `p` from world `w` (giving `w₁`), and
    let any refunding callback for `p` — timeout, v1 error acknowledgement or v2 sentinel — complete
    later in an arbitrary world `w₂` (giving `w₃`).  Then on the sending chain the refund changes
    every balance, every supply and every tracked escrow total by exactly the opposite of what the
    send changed; other chains are untouched.  Hence if nothing else touched an entry in between, it
    is back at its pre-send value — for native and voucher denominations, v1, alias and v2. -/
theorem refund_restores (cfg : Config) (w w₁ w₂ w₃ : World) (c : Nat) (signer : Str) (viaTx : Bool)
    (m : MsgTransfer) (ce : Option String) (seq : Nat) (p : Packet) (op : Op)
    (hstore : StoreStable (w.chains c))
    (hsend : step cfg w (.transfer c signer viaTx m ce seq) = (w₁, .sent p))
    (hop : IsRefundOf p op) (hrefund : step cfg w₂ op = (w₃, .ok)) :
    (∀ a x, (w₃.chains c).bank.bal a x + (w₁.chains c).bank.bal a x =
            (w₂.chains c).bank.bal a x + (w.chains c).bank.bal a x) ∧
    (∀ x, (w₃.chains c).bank.supply x + (w₁.chains c).bank.supply x =
          (w₂.chains c).bank.supply x + (w.chains c).bank.supply x) ∧
    (∀ x, (w₃.chains c).totalEscrow x + (w₁.chains c).totalEscrow x =
          (w₂.chains c).totalEscrow x + (w.chains c).totalEscrow x) ∧
    (∀ c', c' ≠ c → w₃.chains c' = w₂.chains c') := by
  obtain ⟨_, ch1, ht, hw1⟩ := step_transfer_sent hsend
  obtain ⟨s, hs, hc, hsp, hst⟩ := sent_token_is_reparsed_token hstore ht
  -- the refund ran `refundPacketTokens` on chain c
  have href : ∃ ch3, refundPacketTokens cfg c (w₂.chains c) p.srcPort p.srcChan p.data = .ok ch3 ∧
      w₃.chains = (w₂.setChain c ch3).chains := by
    cases op with
    | timeout q oc =>
      simp only [IsRefundOf] at hop; subst hop
      rcases step_timeout_cases cfg w₂ q oc with ⟨ch3, hto, hstep⟩ | ⟨_, hne⟩
      · rw [hstep] at hrefund
        injection hrefund with h1 _
        subst h1
        exact ⟨ch3, by rw [← hc]; exact timeoutPacket_ok hto, by rw [hc]⟩
      · rw [hrefund] at hne; exact absurd rfl hne
    | ack q a =>
      simp only [IsRefundOf] at hop
      obtain ⟨rfl, ha⟩ := hop
      rcases step_ack_cases cfg w₂ q a with ⟨ch3, hak, hstep⟩ | ⟨_, hne⟩
      · rw [hstep] at hrefund
        injection hrefund with h1 _
        subst h1
        rcases ackPacket_ok hak with ⟨hres, _⟩ | ⟨_, hr⟩
        · rcases ha with ha | ha <;> rw [ha] at hres <;> cases hres
        · exact ⟨ch3, by rw [← hc]; exact hr, by rw [hc]⟩
      · rw [hrefund] at hne; exact absurd rfl hne
    | transfer _ _ _ _ _ _ => exact absurd hop (by simp [IsRefundOf])
    | sendV2 _ _ _ _ _ _ => exact absurd hop (by simp [IsRefundOf])
    | recv _ => exact absurd hop (by simp [IsRefundOf])
    | setParams _ _ _ => exact absurd hop (by simp [IsRefundOf])
    | bankSend _ _ _ _ _ => exact absurd hop (by simp [IsRefundOf])
  obtain ⟨ch3, hr, hw3⟩ := href
  have e1 : w₁.chains c = ch1 := by rw [hw1]; simp [World.setChain]
  have e3 : w₃.chains c = ch3 := by rw [hw3]; simp [World.setChain]
  obtain ⟨_, _, _, hn0, hbS⟩ := sendTransfer_effect hst
  obtain ⟨s', hs', _, _, _, hbR⟩ := refund_effect hr
  have hss : s' = s := by rw [hs] at hs'; exact (Option.some.inj hs').symm
  subst hss
  refine ⟨?_, ?_, ?_, ?_⟩
  · intro a x
    rw [e1, e3]
    rcases hbS with ⟨hpT, _, hb1, _, _⟩ | ⟨hpF, hb1, _, _⟩
    · rcases hbR with ⟨_, hb3, _, _⟩ | ⟨hpF', _⟩
      · rw [hb1 a x, hb3 a x]
        split_ifs with hh
        · obtain ⟨rfl, rfl⟩ := hh; omega
        · rfl
      · rw [hpT] at hpF'; cases hpF'
    · rcases hbR with ⟨hpT', _⟩ | ⟨_, hn2, _, hb3, _, _⟩
      · rw [hpF] at hpT'; cases hpT'
      · rw [hb1 a x, hb3 a x]
        exact moveBal_inverse _ _ _ _ _ _ hn0 hn2 a x
  · intro x
    rw [e1, e3]
    rcases hbS with ⟨hpT, hsn, _, hs1, _⟩ | ⟨hpF, _, hs1, _⟩
    · rcases hbR with ⟨_, _, hs3, _⟩ | ⟨hpF', _⟩
      · rw [hs1 x, hs3 x]
        split_ifs with hh
        · subst hh; omega
        · rfl
      · rw [hpT] at hpF'; cases hpF'
    · rcases hbR with ⟨hpT', _⟩ | ⟨_, _, _, _, hs3, _⟩
      · rw [hpF] at hpT'; cases hpT'
      · rw [hs1, hs3]
  · intro x
    rw [e1, e3]
    rcases hbS with ⟨hpT, _, _, _, ht1⟩ | ⟨hpF, _, _, ht1⟩
    · rcases hbR with ⟨_, _, _, ht3⟩ | ⟨hpF', _⟩
      · rw [ht1, ht3]
      · rw [hpT] at hpF'; cases hpF'
    · rcases hbR with ⟨hpT', _⟩ | ⟨_, _, hn2, _, _, ht3⟩
      · rw [hpF] at hpT'; cases hpT'
      · rw [ht1 x, ht3 x]
        split_ifs with hh
        · subst hh; omega
        · rfl
  · intro c' hc'
    rw [hw3]
    simp [World.setChain, hc']

/-- **The sender gets exactly the sent amount back.**  The refund credits the packet's original sender
    (decoded from the packet data) with exactly `p.data.amount` of the denomination that was debited
    (when the sender is not itself the escrow account of the channel). -/
theorem refund_credits_sender (cfg : Config) (w₂ w₃ : World) (p : Packet) (op : Op)
    (hop : IsRefundOf p op) (hrefund : step cfg w₂ op = (w₃, .ok)) :
    ∃ s, cfg.decode p.data.sender = some s ∧
      (s ≠ cfg.escrowAddr p.srcPort p.srcChan →
        (w₃.chains p.srcChain).bank.bal s ((extract p.data.denom).ibcDenom cfg.hashHex) =
        (w₂.chains p.srcChain).bank.bal s ((extract p.data.denom).ibcDenom cfg.hashHex) + p.data.amount) := by
  have href : ∃ ch3, refundPacketTokens cfg p.srcChain (w₂.chains p.srcChain) p.srcPort p.srcChan p.data = .ok ch3 ∧
      w₃.chains = (w₂.setChain p.srcChain ch3).chains := by
    cases op with
    | timeout q oc =>
      simp only [IsRefundOf] at hop; subst hop
      rcases step_timeout_cases cfg w₂ q oc with ⟨ch3, hto, hstep⟩ | ⟨_, hne⟩
      · rw [hstep] at hrefund
        injection hrefund with h1 _
        subst h1
        exact ⟨ch3, timeoutPacket_ok hto, rfl⟩
      · rw [hrefund] at hne; exact absurd rfl hne
    | ack q a =>
      simp only [IsRefundOf] at hop
      obtain ⟨rfl, ha⟩ := hop
      rcases step_ack_cases cfg w₂ q a with ⟨ch3, hak, hstep⟩ | ⟨_, hne⟩
      · rw [hstep] at hrefund
        injection hrefund with h1 _
        subst h1
        rcases ackPacket_ok hak with ⟨hres, _⟩ | ⟨_, hr⟩
        · rcases ha with ha | ha <;> rw [ha] at hres <;> cases hres
        · exact ⟨ch3, hr, rfl⟩
      · rw [hrefund] at hne; exact absurd rfl hne
    | transfer _ _ _ _ _ _ => exact absurd hop (by simp [IsRefundOf])
    | sendV2 _ _ _ _ _ _ => exact absurd hop (by simp [IsRefundOf])
    | recv _ => exact absurd hop (by simp [IsRefundOf])
    | setParams _ _ _ => exact absurd hop (by simp [IsRefundOf])
    | bankSend _ _ _ _ _ => exact absurd hop (by simp [IsRefundOf])
  obtain ⟨ch3, hr, hw3⟩ := href
  obtain ⟨s, hs, _, _, _, hb⟩ := refund_effect hr
  refine ⟨s, hs, ?_⟩
  intro hne
  have e3 : w₃.chains p.srcChain = ch3 := by rw [hw3]; simp [World.setChain]
  rw [e3]
  rcases hb with ⟨_, hb3, _, _⟩ | ⟨_, _, _, hb3, _, _⟩
  · rw [hb3]; simp
  · rw [hb3]; simp [moveBal, hne]

/-- **Timeout-on-close is the same refund.**  `MsgTimeoutOnClose` (v1) reaches the very same
    `OnTimeoutPacket` callback as `MsgTimeout`; only core IBC's admission differs (`Guard`: the packet was
    never received — C03/C14 — and has no other terminal outcome).  So `refund_restores`,
    `refund_credits_sender` and `refund_at_most_once` cover it (`IsRefundOf` and `refundCount` do not
    look at the `onClose` flag). -/
theorem timeout_on_close_same_callback (cfg : Config) (w : World) (p : Packet) :
    step cfg w (.timeout p true) = step cfg w (.timeout p false) := rfl

/-- **Exactly once.**  Along every history that respects the packet lifecycle, at most one refunding
    callback completes for any packet. -/
theorem refund_at_most_once (cfg : Config) (w : World) (ops : List Op) (p : Packet)
    (h : LifecycleOK cfg w ops) : refundCount cfg p w ops ≤ 1 :=
  refundCount_le_one cfg p ops w h

/-- **A success acknowledgement changes nothing** on the sending chain (or anywhere else). -/
theorem success_ack_no_change (cfg : Config) (w : World) (p : Packet) :
    (step cfg w (.ack p .result)).1.chains = w.chains := by
  rcases step_ack_cases cfg w p .result with ⟨ch', hak, hstep⟩ | ⟨hsame, _⟩
  · rw [hstep]
    rcases ackPacket_ok hak with ⟨_, rfl⟩ | ⟨ha, _⟩
    · funext c'
      simp only [World.setChain]
      split_ifs with h
      · rw [h]
      · rfl
    · rcases ha with ha | ha <;> cases ha
  · rw [hsame]

/-- **v2 acknowledgement decoding.**  For a v2 packet: the sentinel error acknowledgement is handled
    exactly like a timeout (refund); a custom JSON error acknowledgement, a non-canonical result and
    undecodable bytes are all rejected (the transaction fails, nothing changes). -/
theorem v2_ack_decoding (cfg : Config) (c : Nat) (ch : Chain) (p : Packet) (hv2 : p.v2 = true) :
    ackPacket cfg c ch p .sentinel = timeoutPacket cfg c ch p ∧
    (∃ e, ackPacket cfg c ch p .error = .error e) ∧
    (∃ e, ackPacket cfg c ch p .resultNonCanon = .error e) ∧
    (∃ e, ackPacket cfg c ch p .garbage = .error e) := by
  refine ⟨?_, ⟨.err "ibc/8", by simp [ackPacket, hv2]⟩, ⟨.err "ibc/12", by simp [ackPacket, hv2]⟩,
    ⟨.err "ibc/4", by simp [ackPacket, hv2]⟩⟩
  simp [ackPacket, timeoutPacket, hv2]

/-- v1: an error acknowledgement is handled exactly like a timeout; the v2 sentinel and undecodable
    bytes are rejected. -/
theorem v1_ack_decoding (cfg : Config) (c : Nat) (ch : Chain) (p : Packet) (hv1 : p.v2 = false) :
    ackPacket cfg c ch p .error = timeoutPacket cfg c ch p ∧
    (∃ e, ackPacket cfg c ch p .sentinel = .error e) ∧
    (∃ e, ackPacket cfg c ch p .garbage = .error e) := by
  refine ⟨?_, ⟨.err "ibc/4", by simp [ackPacket, hv1]⟩, ⟨.err "ibc/4", by simp [ackPacket, hv1]⟩⟩
  simp only [ackPacket, timeoutPacket, hv1, Bool.false_eq_true, if_false]

/-- a failed refund (blocked or undecodable sender, escrow short) fails the whole transaction: the
    world is unchanged and the packet is not marked resolved, so the refund can be retried -/
theorem failed_refund_changes_nothing (cfg : Config) (w : World) (p : Packet) (oc : Bool)
    (h : (step cfg w (.timeout p oc)).2 ≠ .ok) : (step cfg w (.timeout p oc)).1 = w := by
  rcases step_timeout_cases cfg w p oc with ⟨ch', _, hstep⟩ | ⟨hsame, _⟩
  · rw [hstep] at h; exact absurd rfl h
  · exact hsame

/-- non-vacuity: send 5 `uatom`, time the packet out: the sender is back at 10 and the escrow at 0. -/
example :
    let cfg : Config :=
      { hashHex := (fun s => s)
        decode := (fun s => some s)
        blocked := (fun _ _ => false)
        moduleAddr := "module".toList
        escrowAddr := (fun p c => "esc:".toList ++ p ++ c)
        peer := (fun _ _ => some (1, "channel-1".toList))
        hasChannel := (fun _ _ _ => true) }
    let ch : Chain := ⟨⟨fun a d => if a = "u".toList ∧ d = "uatom".toList then 10 else 0, fun _ => 10⟩, fun _ => 0, [], true, true⟩
    let w : World := ⟨fun _ => ch, [], [], [], []⟩
    let m : MsgTransfer := ⟨"transfer".toList, "channel-0".toList, "uatom".toList, 5, "u".toList, "v".toList, [], false, []⟩
    let p : Packet := ⟨0, "transfer".toList, "channel-0".toList, 1, "transfer".toList, "channel-1".toList, 1, false,
      ⟨"uatom".toList, 5, "u".toList, "v".toList, []⟩⟩
    let w₁ := (step cfg w (.transfer 0 "u".toList true m none 1)).1
    let w₃ := (step cfg w₁ (.timeout p true)).1
    (w₁.chains 0).bank.bal "u".toList "uatom".toList = 5 ∧
    (w₃.chains 0).bank.bal "u".toList "uatom".toList = 10 ∧
    (w₃.chains 0).bank.bal ("esc:".toList ++ "transfer".toList ++ "channel-0".toList) "uatom".toList = 0 ∧
    (w₃.chains 0).totalEscrow "uatom".toList = 0 := by
  decide

end IbcVerif.C32
