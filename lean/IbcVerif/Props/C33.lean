/-
  C33 — Vouchers can always return over their channel as the original token.
  Property theorems only; helper lemmas live in IbcVerif/Lemmas/Denom*.lean, Ics20*.lean.

  Model: `ExtractDenomFromPath` / `Path` (Model/Denom.lean) and the stateful ICS-20 model (Model/Ics20.lean).
  The base denominations the origin chain accepts for transfer are those passing `Transfer`'s guards:
  in particular `ValidateBaseNotHopLike` (`hopFreeBase`, fix 4b2f809).  Bases with any number of
  '/'-separated segments of any other shape are accepted and covered (`slashed_bases_accepted`).

  History: on the tree as found the property was FALSE — a native base `transfer/channel-1/ufoo` did not
  come back from a round trip, and the voucher of a two-segment base `ab/channel-2` could never be sent
  again; both reproduced on the real code, now rejected at the source (`prefix_witnesses_rejected`) and
  replayed as regression cases by the harness (group `findings`).
-/
import IbcVerif.Model.Ics20
import IbcVerif.Lemmas.Ics20Escrow
namespace IbcVerif.C33
open IbcVerif IbcVerif.Xfer IbcVerif.Ics20

/-- **Round trip at the level of denominations**, for every token `X` the origin accepts (hop-free
    base; any trace depth) and every channel pair `cA ↔ cB` with ibc-go formatted identifiers.
    Forward: `A` is the source for `X` over `cA`, `B` mints the voucher `Y = transfer/cB/X`.
    Return: `Y`'s path re-parses to `Y` itself on `B` (so `Transfer` / `ValidateBasic` accept it and `B`
    burns, not escrows), and on arrival `A` parses the very same path back to `Y`, recognises its own
    hop, strips it and addresses the coin of `X` — the original token, not a new voucher. -/
theorem roundtrip_denominations (H : Str → Str) (X : Denom) (cA cB : Str) (hX : GoodDenom X)
    (hcB : '/' ∉ cB ∧ isHopId cB = true) (hsrc : X.hasPrefix transferPort cA = false) :
    let Y : Denom := ⟨⟨transferPort, cB⟩ :: X.trace, X.base⟩
    ics20RecvCoinDenom H transferPort cA transferPort cB X.path = Y.ibcDenom H ∧
    extract Y.path = Y ∧ Y.hasPrefix transferPort cB = true ∧
    ics20RecvCoinDenom H transferPort cB transferPort cA Y.path = X.ibcDenom H := by
  have hY : GoodDenom ⟨⟨transferPort, cB⟩ :: X.trace, X.base⟩ := hX.cons _ _ transferPort_no_sep hcB.1 hcB.2
  have hsX : extract X.path = X := hX.stable
  have hsY : extract (Denom.path ⟨⟨transferPort, cB⟩ :: X.trace, X.base⟩) = ⟨⟨transferPort, cB⟩ :: X.trace, X.base⟩ := hY.stable
  refine ⟨?_, hsY, by simp [Denom.hasPrefix], ?_⟩
  · unfold ics20RecvCoinDenom
    simp only [hsX, hsrc, Bool.false_eq_true, if_false]
  · unfold ics20RecvCoinDenom
    simp only [hsY]
    simp [Denom.hasPrefix]

/-- native denominations: the special case the property statement speaks about -/
theorem roundtrip_returns_native (H : Str → Str) (base cA cB : Str) (hb : hopFreeBase base = true)
    (hi : ibcSlash.isPrefixOf base = false) (hcB : '/' ∉ cB ∧ isHopId cB = true) :
    ics20RecvCoinDenom H transferPort cB transferPort cA (Denom.path ⟨[⟨transferPort, cB⟩], base⟩) = base := by
  have hX : GoodDenom ⟨[], base⟩ := ⟨hb, hi, by intro x hx; simp at hx⟩
  have := (roundtrip_denominations H ⟨[], base⟩ cA cB hX hcB rfl).2.2.2
  simpa [Denom.ibcDenom, Denom.isNative] using this

/-- bases with '/'-separated segments of any shape other than "second segment is a channel or client
    identifier" pass the guard — e.g. liquidity-pool and token-factory style denominations -/
theorem slashed_bases_accepted :
    hopFreeBase "gamm/pool/1".toList = true ∧ hopFreeBase "factory/cosmos1abc/utok".toList = true ∧
    hopFreeBase "a/b/c/d/e".toList = true ∧ hopFreeBase "x:y.z_w-v/q".toList = true ∧
    hopFreeBase "pool/channel/1".toList = true ∧ hopFreeBase "channel-1/x".toList = true := by decide

/-- the two pre-fix witnesses are no longer accepted for transfer by the origin chain -/
theorem prefix_witnesses_rejected :
    hopFreeBase "transfer/channel-1/ufoo".toList = false ∧ hopFreeBase "ab/channel-2".toList = false := by decide

/-- … and why they had to be rejected: on the forward leg `B` parses `transfer/channel-1/ufoo` arriving from
    `channel-1` as *returning* `ufoo` (it addresses the coin `ufoo`, not a voucher), and the voucher path
    of `ab/channel-2`, i.e. `transfer/channel-2/ab/channel-2`, re-parses to an empty base, which `ValidateBasic` refuses for every later transfer. -/
theorem prefix_witnesses_misparsed (H : Str → Str) :
    ics20RecvCoinDenom H "transfer".toList "channel-1".toList "transfer".toList "channel-2".toList
      "transfer/channel-1/ufoo".toList = "ufoo".toList ∧
    (extract "transfer/channel-2/ab/channel-2".toList).validate = some .blankBase := by
  constructor
  · have e : extract "transfer/channel-1/ufoo".toList = ⟨[⟨"transfer".toList, "channel-1".toList⟩], "ufoo".toList⟩ := by decide
    unfold ics20RecvCoinDenom
    rw [e]
    simp [Denom.hasPrefix, Denom.ibcDenom, Denom.isNative]
  · decide

/-- **The voucher can be sent back.**  `MsgTransfer` of a held voucher `Y` over the v1 channel `m.chan` it
    came over (`Y`'s first hop) succeeds — it is not refused for any denomination reason — whenever the
    general send conditions hold (sending enabled, sender decodable and not blocked, positive covered
    amount, non-blank sender / receiver, core IBC commits the packet); it burns exactly that amount and
    emits a packet carrying `Y`'s path to the counterparty end. -/
theorem voucher_send_back_accepted (cfg : Config) (c : Nat) (ch : Chain) (m : MsgTransfer) (seq : Nat) (Y : Denom)
    (s : Addr) (dc : Nat) (did : Str)
    (hse : ch.sendEnabled = true) (hs : cfg.decode m.sender = some s) (hbl : isBlockedAddr cfg c s = false)
    (hamt : m.amount ≠ unbounded) (hpos : m.amount ≠ 0)
    (htok : tokenFromCoin cfg ch m.denom = .ok Y) (hY : GoodDenom Y) (hYv : Y.validate = none)
    (hpre : Y.hasPrefix transferPort m.chan = true)
    (hnb1 : goBlank m.sender = false) (hnb2 : goBlank m.receiver = false)
    (hv1 : cfg.hasChannel c m.port m.chan = true) (hal : m.alias = false)
    (hpeer : cfg.peer c m.chan = some (dc, did))
    (hf : m.amount ≤ ch.bank.bal s (Y.ibcDenom cfg.hashHex)) (hsup : m.amount ≤ ch.bank.supply (Y.ibcDenom cfg.hashHex))
    (hsdk : sdkValidDenom (Y.ibcDenom cfg.hashHex) = true) :
    ∃ ch' p, transfer cfg c ch m none seq = .ok (ch', p) ∧ p.data.denom = Y.path ∧ p.data.amount = m.amount ∧
      p.dstChain = dc ∧ p.dstChan = did ∧
      ch'.bank.supply (Y.ibcDenom cfg.hashHex) + m.amount = ch.bank.supply (Y.ibcDenom cfg.hashHex) :=
  transfer_voucher_home_succeeds hse hs hbl hamt hpos htok hY hYv hpre hnb1 hnb2 hv1 hal hpeer hf hsup hsdk

/-- … and `TokenFromCoin` does resolve the voucher's coin denomination to the stored voucher: the store
    is keyed by the hash of the full path (C34) and the hash is printed as 64 upper-case hex digits. -/
theorem stored_voucher_is_found (cfg : Config) (ch : Chain) (Y : Denom)
    (hk : (ch.denoms.map fun x => cfg.hashHex x.path).Nodup) (hmem : Y ∈ ch.denoms)
    (hfmt : validHexHash (cfg.hashHex Y.path) = true)
    (hup : (cfg.hashHex Y.path).map Char.toUpper = cfg.hashHex Y.path) :
    tokenFromCoin cfg ch ("ibc/".toList ++ cfg.hashHex Y.path) = .ok Y :=
  tokenFromCoin_of_stored hk hmem hfmt hup

/-- **On arrival the origin releases the original token from that channel's escrow.**
    In any world reached by a lifecycle-respecting history (`Inv`, `EscInv`): let `q` be a packet that
    chain `B` sent over `cB` carrying the voucher `transfer/cB/X` of a token `X` for which `A` is the source
    over `cA` (`(A, cA)` and `(B, cB)` are counterparty ends), and let core IBC deliver it (`Guard`: sent,
    not yet received, not timed out).  If `A` has receiving enabled and the receiver is a decodable,
    unblocked address, then the receive SUCCEEDS — the escrow account provably holds the amount — and
    credits the receiver with exactly the packet amount of the coin of `X` (the native coin itself when
    `X` is native), taken out of the escrow account of `cA`; no supply changes. -/
theorem return_leg_releases_original (cfg : Config) (ha : Assm cfg) (ends : Nat → List Str) (he : EndsOK cfg ends)
    (w : World) (hw : Inv cfg w) (hesc : EscInv cfg ends w)
    (A : Nat) (cA : Str) (B : Nat) (cB : Str) (X : Denom)
    (hpeer : cfg.peer A cA = some (B, cB)) (hX : GoodDenom X) (hsrc : X.hasPrefix transferPort cA = false)
    (q : Packet) (hg : Guard w (.recv q))
    (hq : q.srcChain = B ∧ q.srcChan = cB ∧ q.data.denom = (Denom.mk (⟨transferPort, cB⟩ :: X.trace) X.base).path)
    (hv2 : q.v2 = true → isValidClientID q.srcChan = true ∧ isValidClientID q.dstChan = true)
    (hre : (w.chains A).recvEnabled = true) (r : Addr) (hr : cfg.decode q.data.receiver = some r)
    (hb : isBlockedAddr cfg A r = false) (hsdk : sdkValidDenom (X.ibcDenom cfg.hashHex) = true) :
    (step cfg w (.recv q)).2 = .recvd .success ∧
    (((step cfg w (.recv q)).1).chains A).bank.bal r (X.ibcDenom cfg.hashHex) =
      (w.chains A).bank.bal r (X.ibcDenom cfg.hashHex) + q.data.amount ∧
    (((step cfg w (.recv q)).1).chains A).bank.bal (cfg.escrowAddr transferPort cA) (X.ibcDenom cfg.hashHex) + q.data.amount =
      (w.chains A).bank.bal (cfg.escrowAddr transferPort cA) (X.ibcDenom cfg.hashHex) ∧
    (((step cfg w (.recv q)).1).chains A).bank.supply = (w.chains A).bank.supply := by
  obtain ⟨hwi, hl, hpi, hc⟩ := hw
  obtain ⟨hqs, hnr, hnt⟩ := hg
  obtain ⟨hqB, hqcB, hqd⟩ := hq
  obtain ⟨hgood, hpath, hsp, hdp, hpp, hval⟩ := hwi.sent q hqs
  have hY : GoodDenom ⟨hop cB :: X.trace, X.base⟩ := good_peer_cons ha hpeer hX
  have htok : extract q.data.denom = ⟨hop cB :: X.trace, X.base⟩ := by
    rw [hqd]; exact hY.stable
  -- destination = (A, cA)
  have hdst : q.dstChain = A ∧ q.dstChan = cA := by
    have := ha.peerSym _ _ _ _ hpeer
    rw [hqB, hqcB, this] at hpp
    injection hpp with e
    injection e with e1 e2
    exact ⟨e1.symm, e2.symm⟩
  obtain ⟨hdA, hdcA⟩ := hdst
  have hpre : (extract q.data.denom).hasPrefix q.srcPort q.srcChan = true := by
    rw [htok, hsp, hqcB]; simp [hop, Denom.hasPrefix]
  have hcoin : ics20RecvCoinDenom cfg.hashHex q.srcPort q.srcChan q.dstPort q.dstChan q.data.denom = X.ibcDenom cfg.hashHex := by
    rw [recvCoin_unwind hpre, htok]; rfl
  -- the amount is in flight, hence in escrow
  have hna : q ∉ w.acked := fun h => by
    obtain ⟨b, hb'⟩ := hl.acked_recvd q h
    exact hnr b hb'
  have hpend : pending w q = true := by simp [pending, pendingIn, hnr true, hnt, hna]
  have hsel : selB B cB X q = true := by simp [selB, hqB, hqcB, hqd, hop]
  have hconserve := hc A cA B cB X hpeer hX hsrc
  have hle := le_pendingSum hqs hsel hpend
  have hn : q.data.amount ≤ (w.chains A).bank.bal (cfg.escrowAddr transferPort cA) (X.ibcDenom cfg.hashHex) := by
    simp only [coin] at hconserve
    omega
  have hte : q.data.amount ≤ (w.chains A).totalEscrow (X.ibcDenom cfg.hashHex) := by
    have h1 := hesc A (X.ibcDenom cfg.hashHex)
    have h2 := le_sum_of_mem (fun e => (w.chains A).bank.bal (cfg.escrowAddr transferPort e) (X.ibcDenom cfg.hashHex)) cA
      (he.covers _ _ _ _ hpeer)
    omega
  obtain ⟨ch', hon⟩ := onRecvPacket_unwind_succeeds (cfg := cfg) (c := q.dstChain) (ch := w.chains q.dstChain)
    (data := q.data) (sp := q.srcPort) (sc := q.srcChan) (dp := q.dstPort) (dc := q.dstChan) (r := r)
    hval (by rw [hdA]; exact hre) hr (by rw [hdA]; exact hb) (by rw [hcoin]; exact hsdk) hpre
    (by rw [hcoin, hdp, hdcA, hdA]; exact hn) (by rw [hcoin, hdA]; exact hte)
  have hrecv : recvPacket cfg q.dstChain (w.chains q.dstChain) q = .ok (ch', .success) := by
    unfold recvPacket
    cases hq2 : q.v2 with
    | false => simp [hon]
    | true =>
      obtain ⟨h1, h2⟩ := hv2 hq2
      have hon' := hon
      rw [hsp, hdp] at hon'
      simp [hsp, hdp, h1, h2, hon']
  have hstep : step cfg w (.recv q) =
      ({ w.setChain q.dstChain ch' with recvd := (q, decide (RecvOutcome.success = .success)) :: w.recvd }, .recvd .success) := by
    simp only [step, hrecv]
  obtain ⟨r', hr', _, _, _, heff⟩ := onRecvPacket_effect hon
  have hrr : r' = r := by rw [hr] at hr'; exact (Option.some.inj hr').symm
  subst hrr
  have hrne : NotEscrow cfg r' := (hpi q hqs).2 r' hr
  rw [hstep]
  refine ⟨rfl, ?_⟩
  simp only [World.setChain, hdA, if_true]
  rcases heff with ⟨_, _, _, _, hbal, hsup, _⟩ | ⟨hpF, _⟩
  · rw [hcoin, hdp, hdcA] at hbal
    refine ⟨?_, ?_, hsup.trans (by rw [hdA])⟩
    · rw [hbal]
      have : r' ≠ cfg.escrowAddr transferPort cA := hrne _ _
      simp [moveBal, this, hdA]
    · rw [hbal, moveBal_esc_out ha _ _ _ _ _ hrne]
      simp only [and_self, if_true, hdA]
      omega
  · rw [hpre] at hpF; cases hpF

end IbcVerif.C33
