/-
  C08 — Sends allocate consecutive sequences and respect send-time guards.

  `sendSeqs id log` = the sequences returned by the successful sends on identifier `id` (a v1 channel
  id, which is also its v2 alias, or a v2 client id), v1 and v2 sends interleaved, in order.
-/
import IbcVerif.Lemmas.ChainOk2
namespace IbcVerif.C08
open IbcVerif IbcVerif.Chain

/-- after any history the successful sends on an id returned exactly 1, 2, 3, … (nextSequenceSend-1)
    in that order — v1 and v2 sends on an aliased channel share the one counter. -/
theorem send_allocates_shared_sequence (ops : List Op) (id : Id) (n : Nat)
    (h : (run init ops).nextSend.get id = some n) :
    1 ≤ n ∧ sendSeqs id (run init ops).log = List.range' 1 (n - 1) :=
  (inv2_run_init ops).sendSeq id n h

/-- a successful v1 send returns the current counter, bumps it by one and writes exactly one
    commitment — nothing else in the state changes (the log entry is the ghost record of the send). -/
theorem sendV1_effect (s s' : ChainState) (env : Env) (port chan : Id) (thRev thH tt : Nat) (data : Hex) (r : String)
    (h : step s ⟨env, .sendV1 port chan thRev thH tt data⟩ = (s', .ok r)) :
    ∃ seq, r = toString seq ∧ s.nextSend.get chan = some seq ∧
      s' = { s with nextSend := s.nextSend.set chan (seq + 1),
                    commitV1 := s.commitV1.set (port, chan, seq) ⟨tt, thRev, thH, data⟩,
                    log := s.log ++ [.send1 port chan seq] } := by
  obtain ⟨seq, s1, h1, hr, rfl⟩ := sendV1_ok_shape h
  obtain ⟨_, _, _, hseq, rfl⟩ := sendPacketV1_ok h1
  exact ⟨seq, hr, hseq, rfl⟩

/-- a successful v2 send (on a client id or on an alias): same counter, one v2 commitment; besides
    that only the sending applications' own writes. -/
theorem sendV2_effect (s s' : ChainState) (env : Env) (src : Id) (tt : Nat) (payloads : List Payload) (apps : List AppV2)
    (r : String) (h : step s ⟨env, .sendV2 src tt payloads apps⟩ = (s', .ok r)) :
    ∃ seq cpId app, r = toString seq ∧ s.nextSend.get src = some seq ∧
      s' = { s with nextSend := s.nextSend.set src (seq + 1),
                    commitV2 := s.commitV2.set (src, seq) ⟨cpId, tt, payloads⟩,
                    app := app, log := s.log ++ [.send2 src seq payloads.length] } := by
  obtain ⟨seq, s1, app, h1, hr, rfl⟩ := sendV2_ok_shape h
  obtain ⟨cpId, _, _, hseq, rfl⟩ := sendPacketV2_ok h1
  exact ⟨seq, cpId, app, hr, hseq, rfl⟩

/-- v1 send-time guards: a send succeeds only if the channel is OPEN, the client is Active with a
    non-zero latest height, and the timeout has not passed w.r.t. the client's latest consensus state. -/
theorem sendV1_guards (s s' : ChainState) (env : Env) (port chan : Id) (thRev thH tt seq : Nat) (data : Hex)
    (h : sendPacketV1 s env port chan thRev thH tt data = .ok (s', seq)) :
    ∃ ch conn lts, s.chan.get (port, chan) = some ch ∧ ch.state = .opened ∧
      getConn s ch = .ok conn ∧ clientStatus s env conn.2.client = .active ∧
      (clientLatestHeight s env conn.2.client).isZero = false ∧
      clientTimestampAt s env conn.2.client = .ok lts ∧
      (Timeout.elapsed ⟨⟨UInt64.ofNat thRev, UInt64.ofNat thH⟩, UInt64.ofNat tt⟩
        (clientLatestHeight s env conn.2.client) (UInt64.ofNat lts)) = false ∧
      ¬ (thRev = 0 ∧ thH = 0 ∧ tt = 0) ∧ data ≠ "" := by
  unfold sendPacketV1 at h
  simp only at h
  esplit h
  simp only [ne_eq, Decidable.not_not, Bool.not_eq_true] at *
  exact ⟨_, (_, _), _, ‹_›, ‹_›, ‹_›, ‹_›, ‹_›, ‹_›, ‹_›, ‹_›, ‹_›⟩

/-- v2 block-time window: accepted iff the timeout (Go's `time.Unix(int64(T),0)`) is strictly after
    the block time and at most MaxTimeoutDelta (24 h) ahead. -/
theorem v2_window_iff (env : Env) (tt : Nat) :
    v2TimeoutWindow env tt = .ok () ↔
      blockInternalSec env < timeoutInternalSec tt ∧ timeoutInternalSec tt ≤ blockInternalSec env + maxTimeoutDelta := by
  unfold v2TimeoutWindow
  simp only
  constructor
  · intro h
    split at h
    · cases h
    · split at h
      · cases h
      · constructor <;> omega
  · intro ⟨h1, h2⟩
    rw [if_neg (by omega), if_neg (by omega)]

/-- v2 light-client guards: Active, non-zero height, timeout strictly after the latest consensus
    timestamp (in whole seconds). -/
theorem v2_client_guards_iff (s : ChainState) (env : Env) (src : Id) (tt : Nat) :
    sendV2ClientGuards s env src tt = .ok () ↔
      clientStatus s env (baseClient s src) = .active ∧
      (clientLatestHeight s env (baseClient s src)).isZero = false ∧
      ∃ lts, clientTimestampAt s env (baseClient s src) = .ok lts ∧ nanosToSecsU64 lts < tt := by
  unfold sendV2ClientGuards
  simp only
  constructor
  · intro h
    esplit h
    simp only [ne_eq, Decidable.not_not, Bool.not_eq_true, ge_iff_le, Nat.not_le] at *
    exact ⟨‹_›, ‹_›, _, ‹_›, ‹_›⟩
  · intro ⟨h1, h2, lts, h3, h4⟩
    rw [if_neg (by simp [h1]), if_neg (by simp [h2]), h3]
    simp only
    rw [if_neg (by omega)]

/-- a successful v2 send passed both guards and found a registered counterparty. -/
theorem sendV2_guards (s s' : ChainState) (env : Env) (src : Id) (tt seq : Nat) (payloads : List Payload)
    (h : sendPacketV2 s env src tt payloads = .ok (s', seq)) :
    s.cpV2.get src ≠ none ∧ v2TimeoutWindow env tt = .ok () ∧ sendV2ClientGuards s env src tt = .ok () := by
  unfold sendPacketV2 at h
  split at h
  · cases h
  · rename_i cpId n hc
    unfold sendChecksV2 at hc
    simp only [bind_ok_iff, optGet_ok_iff, Except.ok.injEq, Prod.mk.injEq] at hc
    obtain ⟨cp, hcp, _, hw, _, _, _, _, _, hg, _⟩ := hc
    exact ⟨by rw [hcp]; simp, hw, hg⟩

/-- a rejected send changes no state. -/
theorem send_failure_no_state_change (s : ChainState) (op : Op) (h : (step s op).2.isOk = false) : (step s op).1 = s :=
  step_unchanged rfl h

example : Inv2 Chain.init := Inv2.init

end IbcVerif.C08
