/-
  C13 — Connection handshake safety (single-chain part).  The version-negotiation algebra is in
  Props/C13Versions.lean; the two-chain agreement statement needs the world model.
-/
import IbcVerif.Lemmas.ChainInv3
import IbcVerif.Props.C12
namespace IbcVerif.C13
open IbcVerif IbcVerif.Chain

/-- one step from any reachable state changes an existing connection end only along INIT→OPEN
    (ACK: version fixed to a single supported version) or TRYOPEN→OPEN (CONFIRM: nothing else changes);
    client, counterparty client, prefix and delay period never change. -/
theorem conn_state_transitions (ops : List Op) (op : Op) (c : Id) (e : ConnEnd)
    (hc : (run init ops).conn.get c = some e) :
    ∃ e', (step (run init ops) op).1.conn.get c = some e' ∧ ConnStep e e' := by
  have h3 := inv3_run_init ops
  have ht : Tr (run init ops) (step (run init ops) op).1 := step_tr (out := (step (run init ops) op).2) rfl
  rcases ht.connOld c e hc with h | h
  · exfalso
    rcases h3.connId c e hc with hl | ⟨m, hm, he⟩
    · exact fmtConn_ne_localhost _ (hl ▸ h).symm
    · rw [h] at he; have := fmtConn_inj he; omega
  · exact h

/-- OPEN is absorbing: an OPEN connection end is never written again. -/
theorem open_is_absorbing (e e' : ConnEnd) (ho : e.state = .opened) (h : ConnStep e e') : e' = e := by
  rcases h with h | ⟨h, _⟩ | ⟨h, _⟩
  · exact h
  · rw [ho] at h; cases h
  · rw [ho] at h; cases h

theorem open_conn_never_changes (ops : List Op) (op : Op) (c : Id) (e : ConnEnd)
    (hc : (run init ops).conn.get c = some e) (ho : e.state = .opened) :
    (step (run init ops) op).1.conn.get c = some e := by
  obtain ⟨e', h1, h2⟩ := conn_state_transitions ops op c e hc
  rw [h1, open_is_absorbing e e' ho h2]

/-- a new connection end starts in INIT or TRYOPEN under the generated identifier, never on the
    localhost client, and a TRYOPEN end carries exactly one (picked) version. -/
theorem new_connection_shape (s : ChainState) (op : Op) (c : Id) (e' : ConnEnd)
    (h0 : s.conn.get c = none) (h1 : (step s op).1.conn.get c = some e') :
    c = fmtConn s.nextConnSeq ∧ (e'.state = .init ∨ e'.state = .tryopen) ∧ e'.client ≠ localhostClient ∧
    (e'.state = .tryopen → ∃ v, e'.versions = [v]) := by
  have ht : Tr s (step s op).1 := step_tr (out := (step s op).2) rfl
  obtain ⟨a, _, b, c', d⟩ := ht.connNew c e' h0 h1
  exact ⟨a, b, c', d⟩

/-- handshakes over the localhost client are refused by the two messages that carry a client id. -/
theorem localhost_handshake_refused_init (s : ChainState) (env : Env) (cp : Id) (pfx : Hex) (v : Option Version) (d : Nat) :
    step s ⟨env, .connOpenInit localhostClient cp pfx v d⟩ = (s, .err eVB) := by
  unfold step
  simp only [Body.isMsg, Bool.true_and]
  by_cases hv : env.vb = true <;> simp [hv, msgConnOpenInit]

theorem localhost_handshake_refused_try (s : ChainState) (env : Env) (cp cc : Id) (pfx : Hex) (vs : List Version) (d : Nat) :
    step s ⟨env, .connOpenTry localhostClient cp cc pfx vs d⟩ = (s, .err eVB) := by
  unfold step
  simp only [Body.isMsg, Bool.true_and]
  by_cases hv : env.vb = true <;> simp [hv, msgConnOpenTry]

/-- the localhost connection exists OPEN from genesis on and (being OPEN) is never touched, so
    neither ConnOpenAck nor ConnOpenConfirm can ever apply to it. -/
theorem localhost_connection_stays (ops : List Op) :
    ∃ e, (run init ops).conn.get "connection-localhost" = some e ∧ e.state = .opened ∧ e.client = localhostClient := by
  have aux : ∀ (more pre : List Op),
      (∃ e, (run init pre).conn.get "connection-localhost" = some e ∧ e.state = .opened ∧ e.client = localhostClient) →
      ∃ e, (run init (pre ++ more)).conn.get "connection-localhost" = some e ∧ e.state = .opened ∧ e.client = localhostClient := by
    intro more
    induction more with
    | nil => intro pre h; simpa using h
    | cons op more ih =>
      intro pre ⟨e, he, ho, hcl⟩
      have : pre ++ op :: more = (pre ++ [op]) ++ more := by simp
      rw [this]
      apply ih
      rw [run_append]
      exact ⟨e, open_conn_never_changes pre op _ e he ho, ho, hcl⟩
  exact aux ops [] ⟨⟨.opened, localhostClient, localhostClient, "connection-localhost", "696263", compatibleVersions, 0⟩,
    by simp [run, Chain.init], rfl, rfl⟩

/-- ConnOpenAck / ConnOpenConfirm / ConnOpenTry succeed only if the proof of the counterparty's
    connection end verified. -/
theorem conn_open_requires_proof (s s' : ChainState) (env : Env) (op : Body) (r : String)
    (hop : (∃ c cc v, op = .connOpenAck c cc v) ∨ (∃ c, op = .connOpenConfirm c) ∨
           (∃ a b c d e f, op = .connOpenTry a b c d e f))
    (h : step s ⟨env, op⟩ = (s', .ok r)) : env.lc.v1 = true := by
  have hv := step_vb h rfl
  rcases hop with ⟨c, cc, v, rfl⟩ | ⟨c, rfl⟩ | ⟨a, b, c, d, e, f, rfl⟩
  all_goals
    unfold step at h
    simp only [hv] at h
    simp only [Bool.false_eq_true, if_false] at h
  · unfold msgConnOpenAck at h
    oksplit h
    exact ((C12.verify_ok_iff _ _ _ _).mp ‹verify _ env _ env.lc.v1 = Except.ok _›).2.2
  · unfold msgConnOpenConfirm at h
    oksplit h
    exact ((C12.verify_ok_iff _ _ _ _).mp ‹verify _ env _ env.lc.v1 = Except.ok _›).2.2
  · unfold msgConnOpenTry at h
    oksplit h
    all_goals exact ((C12.verify_ok_iff _ _ _ _).mp ‹verify _ env _ env.lc.v1 = Except.ok _›).2.2

/-- a channel opens (INIT or TRY) only on a connection with exactly one negotiated version whose
    features contain the requested ordering. -/
theorem chan_open_needs_single_version (s s' : ChainState) (env : Env) (port : Id) (o : Order) (hops : List Id) (cpPort : Id)
    (ver : String) (app : AppV1) (r : String)
    (h : step s ⟨env, .chanOpenInit port o hops cpPort ver app⟩ = (s', .ok r)) :
    ∃ hop rest conn v, hops = hop :: rest ∧ s.conn.get hop = some conn ∧ conn.versions = [v] ∧ v.features.contains o.str = true := by
  have hv := step_vb h rfl
  unfold step at h
  simp only [hv] at h
  simp only [Bool.false_eq_true, if_false] at h
  unfold msgChanOpenInit at h
  oksplit h
  have hc := ‹connSupportsOrder _ o = Except.ok _›
  unfold connSupportsOrder at hc
  split at hc
  · split at hc
    · exact ⟨_, _, _, _, rfl, ‹_›, ‹_›, ‹_›⟩
    · cases hc
  · cases hc

theorem chan_try_needs_single_version (s s' : ChainState) (env : Env) (port : Id) (o : Order) (hops : List Id) (cpPort cpChan : Id)
    (ver : String) (app : AppV1) (r : String)
    (h : step s ⟨env, .chanOpenTry port o hops cpPort cpChan ver app⟩ = (s', .ok r)) :
    ∃ hop conn v, hops = [hop] ∧ s.conn.get hop = some conn ∧ conn.versions = [v] ∧ v.features.contains o.str = true := by
  have hv := step_vb h rfl
  unfold step at h
  simp only [hv] at h
  simp only [Bool.false_eq_true, if_false] at h
  unfold msgChanOpenTry at h
  oksplit h
  have hc := ‹connSupportsOrder _ o = Except.ok _›
  unfold connSupportsOrder at hc
  split at hc
  · split at hc
    · exact ⟨_, _, _, rfl, ‹_›, ‹_›, ‹_›⟩
    · cases hc
  · cases hc

example : Inv3 Chain.init := Inv3.init

end IbcVerif.C13
