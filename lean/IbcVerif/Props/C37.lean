/-
  C37 — Interchain-account hosts only execute authorized, atomic transactions.
  Property theorems only; model: IbcVerif/Model/Ica.lean, Part A (host/keeper/relay.go).
  The host application state `σ` and every message handler are universally quantified parameters.
-/
import IbcVerif.Model.Ica
import IbcVerif.Lemmas.Ica
namespace IbcVerif.C37
open IbcVerif.Ica

variable {σ : Type}

/-- **Execution decision.**  A packet's messages execute (result ok) iff the channel exists, an
    interchain account is registered for the packet's (connection, controller port), every message's
    type is on the allow list (`"*"` alone allows all), every signer of every message is that account,
    every ValidateBasic passes and every handler succeeds in order. -/
theorem ica_exec_iff (chanFound : Bool) (icaAddr : Option String) (allow : List String)
    (msgs : List (Msg σ)) (s : σ) :
    (executeTx chanFound icaAddr allow msgs s).2 = none ↔
      (chanFound = true ∧ ∃ a, icaAddr = some a ∧ (∀ m ∈ msgs, Authorized allow a m) ∧ HandlersOk msgs s) := by
  unfold executeTx
  cases chanFound with
  | false => simp
  | true =>
    cases icaAddr with
    | none => simp [authenticateTx]
    | some a =>
      simp only [Bool.not_true, Bool.false_eq_true, if_false, authenticateTx, true_and, Option.some.injEq, exists_eq_left']
      cases hauth : authenticateTx.go allow a msgs with
      | some e =>
        have : ¬ ∀ m ∈ msgs, Authorized allow a m := by
          rw [← authenticate_go_none]; simp [hauth]
        simp [this]
      | none =>
        have hall := (authenticate_go_none allow a msgs).mp hauth
        cases hrun : runMsgs msgs s with
        | error e =>
          have : ¬ HandlersOk msgs s := by
            rw [← runMsgs_ok_iff]; simp [hrun]
          simp [this]
        | ok s' =>
          have : HandlersOk msgs s := (runMsgs_ok_iff msgs s).mp ⟨s', hrun⟩
          simp only [this, and_true]
          simpa using hall

/-- **Atomicity.**  Whatever fails and wherever (authentication, ValidateBasic, routing, the k-th
    handler), the host state is exactly what it was: either all of the packet's messages take effect
    or none do. -/
theorem ica_atomic (chanFound : Bool) (icaAddr : Option String) (allow : List String)
    (msgs : List (Msg σ)) (s : σ) (e : ExecErr)
    (h : (executeTx chanFound icaAddr allow msgs s).2 = some e) :
    (executeTx chanFound icaAddr allow msgs s).1 = s := by
  unfold executeTx at *
  cases chanFound with
  | false => simp
  | true =>
    simp only [Bool.not_true, Bool.false_eq_true, if_false] at h ⊢
    cases hauth : authenticateTx icaAddr allow msgs with
    | some e' => simp
    | none =>
      simp only [hauth] at h ⊢
      cases hrun : runMsgs msgs s with
      | error e' => simp
      | ok s' => simp [hrun] at h

/-- **No message acts for another account.**  If the host state changed at all, the packet was
    authenticated in full: an account `a` is registered for the packet's connection and port and every
    signer of every message is `a` (and every type is allow-listed) — authentication of ALL messages
    precedes the execution of ANY. -/
theorem ica_no_foreign_signer (chanFound : Bool) (icaAddr : Option String) (allow : List String)
    (msgs : List (Msg σ)) (s : σ)
    (h : (executeTx chanFound icaAddr allow msgs s).1 ≠ s) :
    ∃ a, icaAddr = some a ∧ ∀ m ∈ msgs, Authorized allow a m := by
  cases hr : (executeTx chanFound icaAddr allow msgs s).2 with
  | some e => exact absurd (ica_atomic chanFound icaAddr allow msgs s e hr) h
  | none =>
    obtain ⟨_, a, ha, hall, _⟩ := (ica_exec_iff chanFound icaAddr allow msgs s).mp hr
    exact ⟨a, ha, hall⟩

/-- The code's treatment of a message WITHOUT signers, stated explicitly: the signer loop is vacuous,
    so such a message is authorized whenever its type is allow-listed ("every signer is the account"
    holds trivially). -/
theorem zero_signer_passes (allow : List String) (a : String) (m : Msg σ)
    (hs : m.signers = []) (ht : containsMsgType allow m.typeURL = true) : Authorized allow a m := by
  exact ⟨ht, by simp [hs]⟩

/-- The wildcard is honoured only as the sole allow-list entry. -/
theorem wildcard_only_alone :
    containsMsgType ["*"] "/any.Msg" = true ∧ containsMsgType ["*", "/a.B"] "/any.Msg" = false ∧
    containsMsgType [] "/any.Msg" = false := by decide

/-- non-vacuity: three messages, the third handler fails → nothing changes; with a working third
    handler all three effects are there; a foreign signer in the second message blocks even the first. -/
example :
    let mk (url : String) (signers : List String) (ok : Bool) (i : Nat) : Msg (List Nat) :=
      ⟨url, signers, true, true, fun s => if ok then some (s ++ [i]) else none⟩
    (executeTx true (some "ica") ["*"] [mk "/a" ["ica"] true 0, mk "/b" ["ica"] true 1, mk "/c" ["ica"] false 2] []
      = ([], some .handler)) ∧
    (executeTx true (some "ica") ["*"] [mk "/a" ["ica"] true 0, mk "/b" ["ica"] true 1, mk "/c" ["ica"] true 2] []
      = ([0, 1, 2], none)) ∧
    (executeTx true (some "ica") ["*"] [mk "/a" ["ica"] true 0, mk "/b" ["ica", "eve"] true 1] []
      = ([], some .wrongSigner)) := by
  decide

end IbcVerif.C37
