/-
  C24 — Tendermint headers and misbehaviour are accepted only when verified.
  Property theorems only (model: IbcVerif/Model/Tm*.lean; lemmas: IbcVerif/Lemmas/Tm*.lean).

  Level: PARTIAL.  Proved here: the checks that ibc-go itself adds around the CometBFT light client —
  trusted consensus state must exist, trusted validators must hash to its next-validators hash, same
  revision, strictly greater height, then `light.Verify` — as an exact iff, for all headers, where the
  verdict of `light.Verify` (`valid`: signatures, > 2/3 of the header's own validator set, ≥ trust level of
  the trusted set, trusting period, clock drift, monotone time, chain id) and of
  `VerifyCommitLightTrusting` (misbehaviour) are universally quantified parameters, evaluated in the
  correspondence harness by calling CometBFT on honestly signed and on mutated headers.
  The voting-power arithmetic of CometBFT is hand-modelled and proved in IbcVerif/Props/C24Power.lean.
-/
import IbcVerif.Lemmas.TmGate
namespace IbcVerif.C24
open IbcVerif IbcVerif.Tm

/-- **`verifyHeader` accepts iff** a consensus state is stored at the header's trusted height, the
    trusted validator set hashes to that state's next-validators hash, the header is in the same
    revision and strictly above the trusted height, its protobuf parts convert, and CometBFT's
    `light.Verify` accepts. -/
theorem verifyHeader_accepts_iff (s : Store) (hdr : Header) (valid : Bool) :
    verifyHeader s hdr valid = none ↔
      ∃ c, s.getCons hdr.trusted = some c ∧ hdr.tvals = some c.nvh ∧ hdr.height.rev = hdr.trusted.rev ∧
        hdr.parseOK = true ∧ hk hdr.trusted < hk hdr.height ∧ valid = true :=
  verifyHeader_none_iff s hdr valid

/-- **A header is accepted by `UpdateClient`** (stored, recognised as a duplicate, or — if it conflicts
    with stored state — answered by freezing) **iff the client is Active and `verifyHeader` accepts**;
    in every other case nothing at all is written. -/
theorem header_accepted_iff (s : Store) (hs : StoreInv s) (now : Int) (self : Height) (hdr : Header) (valid : Bool) :
    (((updateStore s now self hdr valid).2 = "updated" ∨ (updateStore s now self hdr valid).2 = "frozen") ↔
      (s.status now = .active ∧
        ∃ c, s.getCons hdr.trusted = some c ∧ hdr.tvals = some c.nvh ∧ hdr.height.rev = hdr.trusted.rev ∧
          hdr.parseOK = true ∧ hk hdr.trusted < hk hdr.height ∧ valid = true)) ∧
    (¬ (s.status now = .active ∧ verifyHeader s hdr valid = none) → (updateStore s now self hdr valid).1 = s) := by
  have := updateStore_accept_iff s hs now self hdr valid
  rw [verifyHeader_none_iff] at this
  exact ⟨this.1, fun h => this.2 (by rw [← verifyHeader_none_iff]; exact h)⟩

/-- mutating the trusted validator set, the trusted height, the revision, the height relation, or
    anything that makes CometBFT's verdict negative (a signed field, a signature, the validator set, a
    time outside trusting period / clock drift) makes acceptance fail, and nothing is written -/
theorem mutation_rejected (s : Store) (hs : StoreInv s) (now : Int) (self : Height) (hdr : Header) (valid : Bool)
    (hmut : s.getCons hdr.trusted = none ∨                                  -- unknown trusted height
            (∃ c, s.getCons hdr.trusted = some c ∧ hdr.tvals ≠ some c.nvh) ∨   -- other trusted validators
            hdr.height.rev ≠ hdr.trusted.rev ∨                                 -- other revision
            hk hdr.height ≤ hk hdr.trusted ∨                                   -- not strictly above
            valid = false) :                                                   -- light.Verify says no
    (updateStore s now self hdr valid).1 = s ∧ (updateStore s now self hdr valid).2 ≠ "updated" ∧
    (updateStore s now self hdr valid).2 ≠ "frozen" := by
  have hno : ¬ (s.status now = .active ∧ verifyHeader s hdr valid = none) := by
    rintro ⟨_, hv⟩
    obtain ⟨c, h1, h2, h3, _, h5, h6⟩ := (verifyHeader_none_iff s hdr valid).mp hv
    rcases hmut with h | ⟨c', hc', h⟩ | h | h | h
    · rw [h1] at h; cases h
    · rw [h1] at hc'; cases hc'; exact h h2
    · exact h h3
    · omega
    · rw [h6] at h; cases h
  have acc := updateStore_accept_iff s hs now self hdr valid
  refine ⟨acc.2 hno, fun h => hno (acc.1.mp (Or.inl h)), fun h => hno (acc.1.mp (Or.inr h))⟩

/-- **`checkMisbehaviourHeader` accepts iff** the trusted validators hash to the trusted consensus
    state's next-validators hash, the commit converts, the trusted consensus state is younger than the
    trusting period, and `VerifyCommitLightTrusting` (under the revision-adjusted chain id) accepts. -/
theorem checkMisbehaviourHeader_accepts_iff (cs : ClientState) (c : ConsState) (hdr : Header) (now : Int) (valid : Bool) :
    checkMisbehaviourHeader cs c hdr now valid = none ↔
      (hdr.tvals = some c.nvh ∧ hdr.commitOK = true ∧ now - c.ts < cs.trustingPeriod ∧ valid = true) :=
  checkMisbehaviourHeader_none_iff cs c hdr now valid

/-- which pairs count as misbehaviour: two different blocks at one height, or a higher header that is
    not later in time -/
theorem misbehaviour_kind (m : Misbehaviour) :
    checkMisbehaviourMsg m = true ↔
      ((hk m.h1.height = hk m.h2.height ∧ m.h1.blockIdOK = true ∧ m.h2.blockIdOK = true ∧ m.h1.blockHash ≠ m.h2.blockHash) ∨
       (hk m.h1.height ≠ hk m.h2.height ∧ m.h1.ts ≤ m.h2.ts)) := by
  unfold checkMisbehaviourMsg
  have he := eq_iff_hk m.h1.height m.h2.height
  by_cases e : m.h1.height.eq m.h2.height = true
  · have := he.mp e
    by_cases b1 : m.h1.blockIdOK = true
    · by_cases b2 : m.h2.blockIdOK = true
      · simp [e, b1, b2, this]
      · simp [e, b1, b2, this]
    · simp [e, b1, this]
  · have : hk m.h1.height ≠ hk m.h2.height := fun c => e (he.mpr c)
    simp [e, this]

/-- **Misbehaviour freezes the client iff** the message is well formed, the client is Active, both
    headers pass `checkMisbehaviourHeader` against consensus states stored at their trusted heights, and
    the pair is misbehaviour; otherwise nothing is written. -/
theorem misbehaviour_freezes_iff (s : Store) (now : Int) (m : Misbehaviour) (v1 v2 : Bool) :
    ((misbehaviourStore s now m v1 v2).2 = "frozen" ↔
      (m.validateBasic = true ∧ s.status now = .active ∧
        ∃ cs c1 c2, s.client = some cs ∧ s.getCons m.h1.trusted = some c1 ∧ s.getCons m.h2.trusted = some c2 ∧
          (m.h1.tvals = some c1.nvh ∧ m.h1.commitOK = true ∧ now - c1.ts < cs.trustingPeriod ∧ v1 = true) ∧
          (m.h2.tvals = some c2.nvh ∧ m.h2.commitOK = true ∧ now - c2.ts < cs.trustingPeriod ∧ v2 = true) ∧
          checkMisbehaviourMsg m = true)) ∧
    ((misbehaviourStore s now m v1 v2).2 ≠ "frozen" → (misbehaviourStore s now m v1 v2).1 = s) := by
  have key := misbehaviourStore_frozen_iff s now m v1 v2
  refine ⟨?_, key.2⟩
  rw [key.1]
  constructor
  · rintro ⟨hb, hst, cs, hc, hv, hm⟩
    obtain ⟨c1, c2, g1, g2, k1, k2⟩ := (verifyMisbehaviour_none_iff cs s m now v1 v2).mp hv
    exact ⟨hb, hst, cs, c1, c2, hc, g1, g2, (checkMisbehaviourHeader_none_iff _ _ _ _ _).mp k1,
      (checkMisbehaviourHeader_none_iff _ _ _ _ _).mp k2, hm⟩
  · rintro ⟨hb, hst, cs, c1, c2, hc, g1, g2, k1, k2, hm⟩
    exact ⟨hb, hst, cs, hc, (verifyMisbehaviour_none_iff cs s m now v1 v2).mpr
      ⟨c1, c2, g1, g2, (checkMisbehaviourHeader_none_iff _ _ _ _ _).mpr k1,
        (checkMisbehaviourHeader_none_iff _ _ _ _ _).mpr k2⟩, hm⟩

/-- ibc-go's stateless checks on a misbehaviour message (`Misbehaviour.ValidateBasic`, on top of the
    CometBFT checks `basicOK`): non-zero trusted revision heights, trusted validators present, same chain
    id, trusted height strictly below each header, header 1 not below header 2, parseable block ids -/
theorem misbehaviour_validateBasic_iff (m : Misbehaviour) :
    m.validateBasic = true ↔
      (m.h1.trusted.h ≠ 0 ∧ m.h2.trusted.h ≠ 0 ∧ m.h1.tvals.isSome = true ∧ m.h2.tvals.isSome = true ∧ m.chainEq = true ∧
       m.h1.basicOK = true ∧ hk m.h1.trusted < hk m.h1.height ∧ m.h2.basicOK = true ∧ hk m.h2.trusted < hk m.h2.height ∧
       hk m.h2.height ≤ hk m.h1.height ∧ m.h1.blockIdOK = true ∧ m.h2.blockIdOK = true) := by
  unfold Misbehaviour.validateBasic Header.validateBasic
  have g1 := gte_iff_hk m.h1.trusted m.h1.height
  have g2 := gte_iff_hk m.h2.trusted m.h2.height
  have l := lt_iff_hk m.h1.height m.h2.height
  simp only [Bool.and_eq_true, bne_iff_ne, ne_eq, Bool.not_eq_eq_eq_not, Bool.not_true]
  constructor
  · rintro ⟨⟨⟨⟨⟨⟨⟨⟨⟨a1, a2⟩, a3⟩, a4⟩, a5⟩, a6, a7⟩, a8, a9⟩, a10⟩, a11⟩, a12⟩
    have n1 : ¬ hk m.h1.height ≤ hk m.h1.trusted := fun c => by rw [g1.mpr c] at a7; cases a7
    have n2 : ¬ hk m.h2.height ≤ hk m.h2.trusted := fun c => by rw [g2.mpr c] at a9; cases a9
    have n3 : ¬ hk m.h1.height < hk m.h2.height := fun c => by rw [l.mpr c] at a10; cases a10
    exact ⟨a1, a2, a3, a4, a5, a6, by omega, a8, by omega, by omega, a11, a12⟩
  · rintro ⟨a1, a2, a3, a4, a5, a6, a7, a8, a9, a10, a11, a12⟩
    have f1 : m.h1.trusted.gte m.h1.height = false := by
      cases h : m.h1.trusted.gte m.h1.height
      · rfl
      · have := g1.mp h; omega
    have f2 : m.h2.trusted.gte m.h2.height = false := by
      cases h : m.h2.trusted.gte m.h2.height
      · rfl
      · have := g2.mp h; omega
    have f3 : m.h1.height.lt m.h2.height = false := by
      cases h : m.h1.height.lt m.h2.height
      · rfl
      · have := l.mp h; omega
    exact ⟨⟨⟨⟨⟨⟨⟨⟨⟨a1, a2⟩, a3⟩, a4⟩, a5⟩, a6, f1⟩, a8, f2⟩, f3⟩, a11⟩, a12⟩

/-! ### non-vacuity -/

def exNv : String := String.ofList (List.replicate 64 'a')
def exCs : ClientState :=
  { chainId := "simchain-1", tlNum := 1, tlDen := 3, trustingPeriod := 1000000000000, unbondingPeriod := 1500000000000,
    maxClockDrift := 10000000000, frozen := ⟨0, 0⟩, latest := ⟨1, 5⟩, proofSpecs := some "sdk", upgradePath := ["upgrade"],
    allowExpiry := false, allowMisb := false }
def exHdr (h : UInt64) (tv : String) : Header :=
  { height := ⟨1, h⟩, ts := 1000000900, root := "r", nvh := exNv, trusted := ⟨1, 5⟩, tvals := some tv, parseOK := true,
    blockHash := "bb", commitOK := true, blockIdOK := true, basicOK := true }
def exW : World := (createClient ⟨[], 0, 2000000000, ⟨1, 9⟩⟩ exCs ⟨1000000000, String.ofList (List.replicate 64 'c'), exNv⟩).1

example : (step exW (.update 0 (exHdr 9 exNv) true)).2 = "updated" ∧
    (step exW (.update 0 (exHdr 9 "beef") true)).2 = "err:invalid-validator-set" ∧
    (step exW (.update 0 (exHdr 5 exNv) true)).2 = "err:invalid-header" ∧
    (step exW (.update 0 (exHdr 9 exNv) false)).2 = "err:lib" := by decide

end IbcVerif.C24
