/-
  C09 — Failed receives discard application state but keep receipt and ack.

  The application is arbitrary: the op says what it returned (`app.res`, `app.ack`) and how much it
  wrote before returning (`app.w` keys of the application store, written on the context it was
  handed).  Mirrors the two CacheContext scopes of RecvPacket (modules/core/keeper/msg_server.go).
-/
import IbcVerif.Lemmas.ChainRecv
namespace IbcVerif.C09
open IbcVerif IbcVerif.Chain

/-- error acknowledgement: NONE of the application's writes persist, while the receipt (UNORDERED) or
    the next-receive counter (ORDERED) and the error acknowledgement are written. -/
theorem recv_error_ack_discards_app (s s' : ChainState) (env : Env) (p : PacketV1) (app : AppV1) (r : String)
    (herr : app.res = .err) (h : step s ⟨env, .recvV1 p app⟩ = (s', .ok r)) :
    s'.app = s.app ∧
    s'.ackV1.get (p.dp, p.dc, p.seq) = some app.ack ∧
    (s'.receiptV1.get (p.dp, p.dc, p.seq) ≠ none ∨
      ∃ n, s.nextRecv.get (p.dp, p.dc) = some n ∧ s'.nextRecv.get (p.dp, p.dc) = some (n + 1)) := by
  obtain ⟨s1, h1, hcase⟩ := recvV1_shape h
  obtain ⟨ch, _, _, h2⟩ := recvPacketV1_ok h1
  have happ := (recvPacketV1_ackV1 h1).2.2.2
  rcases hcase with ⟨hres, _⟩ | ⟨_, rfl⟩ | ⟨hres, _⟩
  · rw [herr] at hres; cases hres
  · refine ⟨happ, by simp, ?_⟩
    rcases applyReplayProtection_ok h2 with ⟨_, _, rfl⟩ | ⟨_, hn, rfl⟩
    · left; simp
    · right; exact ⟨_, hn, by simp⟩
  · rw [herr] at hres; cases hres

/-- successful or asynchronous acknowledgement: the application's writes persist. -/
theorem recv_success_or_async_keeps_app (s s' : ChainState) (env : Env) (p : PacketV1) (app : AppV1) (r : String)
    (hok : app.res = .ok ∨ app.res = .async) (h : step s ⟨env, .recvV1 p app⟩ = (s', .ok r)) :
    s'.app = appWrites s.app "" env.tag app.w := by
  obtain ⟨s1, h1, hcase⟩ := recvV1_shape h
  have happ := (recvPacketV1_ackV1 h1).2.2.2
  rcases hcase with ⟨_, rfl⟩ | ⟨hres, _⟩ | ⟨_, rfl⟩
  · simp [happ]
  · rcases hok with h' | h' <;> (rw [hres] at h'; cases h')
  · simp [happ]

/-- the outcome of a failing receive does not depend on what the application wrote before failing:
    two applications that both return an error ack with the same bytes lead to the same result,
    whatever they wrote (how many keys, which values). -/
theorem outcome_independent_of_partial_writes (s : ChainState) (env : Env) (tag' : String) (p : PacketV1) (app app' : AppV1)
    (h1 : app.res = .err) (h2 : app'.res = .err) (hack : app.ack = app'.ack) :
    step s ⟨env, .recvV1 p app⟩ = step s ⟨{ env with tag := tag' }, .recvV1 p app'⟩ := by
  unfold step
  simp only [Body.isMsg]
  unfold msgRecvPacket
  simp only [h1, h2, hack]
  rfl

/-- if writing the acknowledgement fails (empty bytes, existing ack, closed channel) the whole
    transaction fails: nothing persists, not even the receipt. -/
theorem recv_ack_write_failure_reverts (s : ChainState) (op : Op) (h : (step s op).2.isOk = false) : (step s op).1 = s :=
  step_unchanged rfl h

example : Inv Chain.init := Inv.init

end IbcVerif.C09
