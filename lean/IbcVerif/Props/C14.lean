/-
  C14 — Ordered-channel timeouts close the channel for further packet flow.
-/
import IbcVerif.Lemmas.ChainOk2
import IbcVerif.Lemmas.ChainExamples
namespace IbcVerif.C14
open IbcVerif IbcVerif.Chain

/-- after a successful MsgTimeout on an ORDERED channel the sender's channel end is CLOSED. -/
theorem ordered_timeout_closes (s s' : ChainState) (env : Env) (p : PacketV1) (nsr a b : Nat) (app : AppV1) (r : String)
    (ch : Channel) (hc : s.chan.get (p.sp, p.sc) = some ch) (ho : ch.ordering = .ordered)
    (h : step s ⟨env, .timeoutV1 p nsr a b app⟩ = (s', .ok r)) :
    ∃ ch', s'.chan.get (p.sp, p.sc) = some ch' ∧ ch'.state = .closed := by
  obtain ⟨s1, h1, rfl⟩ := timeoutV1_ok_shape h
  obtain ⟨ch1, hc1, _, rfl⟩ := timeoutPacketV1_ok h1
  rw [hc] at hc1; cases hc1
  exact timeoutExecuted_closes s ch p ho

/-- the same for MsgTimeoutOnClose. -/
theorem ordered_timeoutOnClose_closes (s s' : ChainState) (env : Env) (p : PacketV1) (nsr : Nat) (app : AppV1) (r : String)
    (ch : Channel) (hc : s.chan.get (p.sp, p.sc) = some ch) (ho : ch.ordering = .ordered)
    (h : step s ⟨env, .timeoutOnCloseV1 p nsr app⟩ = (s', .ok r)) :
    ∃ ch', s'.chan.get (p.sp, p.sc) = some ch' ∧ ch'.state = .closed := by
  obtain ⟨s1, h1, rfl⟩ := timeoutOnCloseV1_ok_shape h
  obtain ⟨ch1, hc1, _, rfl⟩ := timeoutOnCloseV1_ok h1
  rw [hc] at hc1; cases hc1
  exact timeoutExecuted_closes s ch p ho

/-- on a CLOSED channel end no packet can be sent … -/
theorem closed_blocks_send (s : ChainState) (env : Env) (port chan : Id) (x y tt : Nat) (data : Hex) (ch : Channel)
    (hc : s.chan.get (port, chan) = some ch) (hcl : ch.state = .closed) :
    (step s ⟨env, .sendV1 port chan x y tt data⟩).2.isOk = false ∧ (step s ⟨env, .sendV1 port chan x y tt data⟩).1 = s := by
  apply not_ok_unchanged
  intro r hr
  have hstep : step s ⟨env, .sendV1 port chan x y tt data⟩ = ((step s ⟨env, .sendV1 port chan x y tt data⟩).1, .ok r) := by rw [← hr]
  obtain ⟨seq, s1, h1, _⟩ := sendV1_ok_shape hstep
  obtain ⟨ch1, hc1, hst, _⟩ := sendPacketV1_ok h1
  rw [hc] at hc1; cases hc1; rw [hcl] at hst; cases hst

/-- … received … -/
theorem closed_blocks_recv (s : ChainState) (env : Env) (p : PacketV1) (app : AppV1) (ch : Channel)
    (hc : s.chan.get (p.dp, p.dc) = some ch) (hcl : ch.state = .closed) :
    (step s ⟨env, .recvV1 p app⟩).2.isOk = false ∧ (step s ⟨env, .recvV1 p app⟩).1 = s := by
  apply not_ok_unchanged
  intro r hr
  have hstep : step s ⟨env, .recvV1 p app⟩ = ((step s ⟨env, .recvV1 p app⟩).1, .ok r) := by rw [← hr]
  obtain ⟨s1, h1, _⟩ := recvV1_ok hstep
  obtain ⟨ch1, hc1, hst, _⟩ := recvPacketV1_ok h1
  rw [hc] at hc1; cases hc1; rw [hcl] at hst; cases hst

/-- … acknowledged … -/
theorem closed_blocks_ack (s : ChainState) (env : Env) (p : PacketV1) (ack : Hex) (app : AppV1) (ch : Channel)
    (hc : s.chan.get (p.sp, p.sc) = some ch) (hcl : ch.state = .closed) :
    (step s ⟨env, .ackV1 p ack app⟩).2.isOk = false ∧ (step s ⟨env, .ackV1 p ack app⟩).1 = s := by
  apply not_ok_unchanged
  intro r hr
  have hstep : step s ⟨env, .ackV1 p ack app⟩ = ((step s ⟨env, .ackV1 p ack app⟩).1, .ok r) := by rw [← hr]
  obtain ⟨s1, h1⟩ := ackV1_ok hstep
  obtain ⟨ch1, hc1, hst, _⟩ := acknowledgePacketV1_ok h1
  rw [hc] at hc1; cases hc1; rw [hcl] at hst; cases hst

/-- … and no acknowledgement can be written (asynchronous path). -/
theorem closed_blocks_writeAck (s : ChainState) (env : Env) (p : PacketV1) (w : Option (Bool × Hex)) (ch : Channel)
    (hc : s.chan.get (p.dp, p.dc) = some ch) (hcl : ch.state = .closed) :
    (step s ⟨env, .writeAckV1 p w⟩).2.isOk = false ∧ (step s ⟨env, .writeAckV1 p w⟩).1 = s := by
  apply not_ok_unchanged
  intro r hr
  have hstep : step s ⟨env, .writeAckV1 p w⟩ = ((step s ⟨env, .writeAckV1 p w⟩).1, .ok r) := by rw [← hr]
  obtain ⟨_, ch1, _, _, hc1, hst, _⟩ := writeAckV1_ok (writeAckV1_step_ok hstep)
  rw [hc] at hc1; cases hc1; rw [hcl] at hst; cases hst

/-- CLOSED is terminal: no step reopens a closed channel end (any history keeps it closed). -/
theorem closed_is_terminal (ops : List Op) (op : Op) (port chan : Id) (ch : Channel)
    (hc : (run init ops).chan.get (port, chan) = some ch) (hcl : ch.state = .closed) :
    ∃ ch', (step (run init ops) op).1.chan.get (port, chan) = some ch' ∧ ch'.state = .closed := by
  have hi := inv_run_init ops
  have ht : Tr (run init ops) (step (run init ops) op).1 := step_tr (out := (step (run init ops) op).2) rfl
  rcases ht.chanOld port chan ch hc with h | ⟨ch', h1, _, _, _, htr, _⟩
  · exact absurd h (chan_fresh hi (by rw [hc]; simp))
  · refine ⟨ch', h1, ?_⟩
    rcases htr with h | ⟨h, _⟩ | ⟨h, _⟩ | ⟨_, h⟩
    · rw [← h]; exact hcl
    · rw [hcl] at h; cases h
    · rw [hcl] at h; cases h
    · exact h

/-- other in-flight packets can still be timed out on the closed end: the timeout handlers never
    look at the channel state (they succeed or fail exactly as on an open end). -/
theorem timeout_ignores_channel_state (s : ChainState) (env : Env) (p : PacketV1) (nsr a b : Nat) (ch : Channel)
    (st : ChanState) (hc : s.chan.get (p.sp, p.sc) = some ch) :
    (timeoutPacketV1 { s with chan := s.chan.set (p.sp, p.sc) { ch with state := st } } env p nsr a b).toBool =
    (timeoutPacketV1 s env p nsr a b).toBool := by
  unfold timeoutPacketV1
  simp only [FMap.get_set_self, hc]
  have hg : getConn { s with chan := s.chan.set (p.sp, p.sc) { ch with state := st } } { ch with state := st } = getConn s ch := rfl
  have hv : ∀ c v, verify { s with chan := s.chan.set (p.sp, p.sc) { ch with state := st } } env c v = verify s env c v := fun _ _ => rfl
  have ht : ∀ c, clientTimestampAt { s with chan := s.chan.set (p.sp, p.sc) { ch with state := st } } env c = clientTimestampAt s env c := fun _ => rfl
  simp only [hg, hv, ht]
  repeat' split
  all_goals first | rfl | simp_all [Except.toBool]

example : Inv Chain.init := Inv.init

/-- non-vacuity: a state with a CLOSED ORDERED end, on which sends and acknowledgements are rejected
    with the channel-state error -/
example : Ex.sClosed.chan.get ("mock", "channel-0") = some Ex.chClosedOrdered ∧ Ex.chClosedOrdered.state = .closed := by decide
example : (step Ex.sClosed ⟨Ex.envOK, .sendV1 "mock" "channel-0" 1 100 0 "01"⟩).2 = .err eChanState := by decide
example : (step Ex.sClosed ⟨Ex.envOK, .ackV1 Ex.pkOut "aa" Ex.appOK⟩).2 = .err eChanState := by decide

end IbcVerif.C14
