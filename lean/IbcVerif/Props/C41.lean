/-
  C41 — Rate-limit flows track exactly the in-window accepted transfers.
  Property theorems only; the model is IbcVerif/Model/RateLimit.lean (the keeper and both middlewares),
  the reference account IbcVerif/Model/RateLimitSpec.lean, helper lemmas IbcVerif/Lemmas/RateLimit.lean.

  History of this file: on the pinned tree `UpdateRateLimit` / `RemoveRateLimit` kept the pending
  markers (DESIGN §6 F4) and the accounting theorem was false (`add; send p; update; send q;
  timeout p` gave outflow q − p).  That was repaired in /repo commit 05cc95a; the model mirrors the
  repaired code and the theorem below holds for ALL histories, administration included.  The old
  witness is kept as `f4_witness_now_correct`.
-/
import IbcVerif.Model.RateLimit
import IbcVerif.Model.RateLimitSpec
import IbcVerif.Lemmas.RateLimit
namespace IbcVerif.C41
open IbcVerif.Apps IbcVerif.RateLimit

/-- "within quota" exactly as `CheckExceedsQuota` decides it: net flow in the packet's direction,
    including the packet, does not exceed ⌊channelValue · percent / 100⌋ — or the channel value
    recorded at window start is zero (the code's explicit carve-out: no supply, no limit). -/
def WithinQuota (l : Limit) (d : Dir) (amt : Int) : Prop :=
  l.flow.chanValue = 0 ∨
  match d with
  | .send => l.flow.outflow - l.flow.inflow + amt ≤ (l.flow.chanValue * l.quota.maxSend).tdiv 100
  | .recv => l.flow.inflow - l.flow.outflow + amt ≤ (l.flow.chanValue * l.quota.maxRecv).tdiv 100

/-- A send on a rate-limited path (denom not blacklisted, address pair not whitelisted) is accepted
    iff the resulting net outflow stays within the quota; otherwise it fails with the quota error
    and nothing changes. -/
theorem send_accept_iff_within_quota (s : State) (p : Pkt) (l : Limit)
    (hb : p.denom ∉ s.blacklist) (hl : (s.path p.path).limit = some l)
    (hw : (p.sender, p.receiver) ∉ s.whitelist) :
    ((sendPacket s p).2 = .counted ↔ WithinQuota l .send p.amt) ∧
    ((sendPacket s p).2 = .quota ↔ ¬ WithinQuota l .send p.amt) ∧
    (¬ WithinQuota l .send p.amt → (sendPacket s p).1 = s) := by
  have key : l.updateFlow .send p.amt = none ↔ ¬ WithinQuota l .send p.amt := by
    simp only [Limit.updateFlow, Flow.addOutflow, checkExceedsQuota, WithinQuota]
    by_cases h0 : l.flow.chanValue = 0
    · simp [h0]
    · simp only [h0, if_false, false_or, gt_iff_lt, decide_eq_true_eq, Int.not_le]
      split <;> simp_all
  unfold sendPacket checkAndUpdate
  simp only [hb, if_false, hl, hw]
  cases hu : l.updateFlow .send p.amt with
  | none =>
    have := key.mp hu
    simp [this]
  | some l' =>
    have : ¬ ¬ WithinQuota l .send p.amt := fun hc => by simp [key.mpr hc] at hu
    simp [Classical.not_not.mp this]

/-- The same for the receive direction: the rate-limit stage of `OnRecvPacket` lets the packet through
    to the application iff the net inflow stays within the quota; otherwise the receive ends in an
    error acknowledgement. -/
theorem recv_accept_iff_within_quota (s : State) (p : Pkt) (app : AppAck) (l : Limit)
    (hb : p.denom ∉ s.blacklist) (hl : (s.path p.path).limit = some l)
    (hw : (p.sender, p.receiver) ∉ s.whitelist) :
    ((recvPacket s p app).2.1 = .counted ↔ WithinQuota l .recv p.amt) ∧
    (¬ WithinQuota l .recv p.amt → (recvPacket s p app).2 = (.quota, .error)) := by
  have key : l.updateFlow .recv p.amt = none ↔ ¬ WithinQuota l .recv p.amt := by
    simp only [Limit.updateFlow, Flow.addInflow, checkExceedsQuota, WithinQuota]
    by_cases h0 : l.flow.chanValue = 0
    · simp [h0]
    · simp only [h0, if_false, false_or, gt_iff_lt, decide_eq_true_eq, Int.not_le]
      split <;> simp_all
  unfold recvPacket mwRecv checkAndUpdate
  simp only [hb, if_false, hl, hw]
  cases hu : l.updateFlow .recv p.amt with
  | none =>
    have := key.mp hu
    simp [this]
  | some l' =>
    have : ¬ ¬ WithinQuota l .recv p.amt := fun hc => by simp [key.mpr hc] at hu
    simp [Classical.not_not.mp this]

/-- Nothing is recorded (no flow change, no marker) for a path without limit or a whitelisted
    address pair, and a blacklisted denom is always rejected. -/
theorem send_unlimited_or_rejected (s : State) (p : Pkt) :
    (p.denom ∈ s.blacklist → sendPacket s p = (s, .blacklisted)) ∧
    (p.denom ∉ s.blacklist → (s.path p.path).limit = none → sendPacket s p = (s, .passed)) ∧
    (p.denom ∉ s.blacklist → (p.sender, p.receiver) ∈ s.whitelist → sendPacket s p = (s, .passed)) := by
  refine ⟨fun hb => ?_, fun hb hl => ?_, fun hb hw => ?_⟩
  · simp [sendPacket, checkAndUpdate, hb]
  · simp [sendPacket, checkAndUpdate, hb, hl]
  · unfold sendPacket checkAndUpdate
    cases hl : (s.path p.path).limit <;> simp [hb, hw, hl]

/-- **The accounting invariant, over all histories.**  Start from an empty rate-limit store and run ANY
    history of sends, receives (any application verdict), acknowledgements, timeouts, async
    acknowledgements, BeginBlocker epoch resets, Add / Update / Remove / Reset and black/white-list
    changes that respects what core IBC and ICS-20 guarantee the middleware (`WF`: fresh sequences,
    positive amounts, ack/timeout carry the sent packet).  Then on every path that has a limit:
    recorded outflow = accepted in the current window − undone in that window, the same for the
    inflow, both are non-negative, and the channel value is the supply read at window start. -/
theorem flows_accounting (n : Nat) (st d : Int) (ops : List Op) (hwf : WF ops) (k : Path) (l : Limit)
    (hl : ((run (State.init n st d) ops).path k).limit = some l) :
    ∃ w, KV.get (runBoth (State.init n st d) [] ops).2 k = some w ∧
      l.flow.outflow = w.out.accepted - w.out.undoneSum ∧
      l.flow.inflow = w.inn.accepted - w.inn.undoneSum ∧
      0 ≤ l.flow.outflow ∧ 0 ≤ l.flow.inflow ∧
      l.flow.chanValue = w.startValue := by
  have h := GInv.run n st d ops hwf k
  rw [runBoth_fst] at h
  unfold PInv at h
  rw [hl] at h
  cases hw : KV.get (runBoth (State.init n st d) [] ops).2 k with
  | none => simp [hw] at h
  | some w =>
    rw [hw] at h
    simp only at h
    have ho := h.1.flow_accounting
    have hi := h.2.1.flow_accounting
    exact ⟨w, rfl, ho.1, hi.1, ho.2, hi.2, h.2.2⟩

/-- The pending-marker sets are exactly the packets accepted in the current window that have no
    terminal outcome yet (so a refund can only ever concern a packet of the current window), and a
    path without limit carries no markers at all. -/
theorem markers_are_open_packets (n : Nat) (st d : Int) (ops : List Op) (hwf : WF ops) (k : Path) :
    let s := run (State.init n st d) ops
    (∀ l, (s.path k).limit = some l → ∃ w, KV.get (runBoth (State.init n st d) [] ops).2 k = some w ∧
      (∀ seq, seq ∈ (s.path k).pendSend ↔ ∃ amt, (seq, amt) ∈ w.out.opn) ∧
      (∀ seq, seq ∈ (s.path k).pendRecv ↔ ∃ amt, (seq, amt) ∈ w.inn.opn)) ∧
    ((s.path k).limit = none → (s.path k).pendSend = [] ∧ (s.path k).pendRecv = []) := by
  have h := GInv.run n st d ops hwf k
  rw [runBoth_fst] at h
  unfold PInv at h
  intro s
  refine ⟨fun l hl => ?_, fun hl => ?_⟩
  · simp only [s] at hl
    rw [hl] at h
    cases hw : KV.get (runBoth (State.init n st d) [] ops).2 k with
    | none => simp [hw] at h
    | some w =>
      rw [hw] at h
      exact ⟨w, rfl, h.1.pend_iff, h.2.1.pend_iff⟩
  · simp only [s] at hl
    rw [hl] at h
    cases hw : KV.get (runBoth (State.init n st d) [] ops).2 k with
    | none => rw [hw] at h; exact h
    | some w => simp [hw] at h

/-- Each packet is undone at most once (no hypothesis on the history): whatever the state, once a
    packet had a terminal outcome (success ack, error ack or timeout) a further error ack or timeout
    of the same packet changes no flow. -/
theorem undo_at_most_once (s : State) (p : Pkt) (ok : Bool) (k : Path) :
    ((undoSend (ackPacket s p ok) p).path k).limit = ((ackPacket s p ok).path k).limit ∧
    ((undoSend (undoSend s p) p).path k).limit = ((undoSend s p).path k).limit := by
  have erase_not_mem : ∀ (l : List Nat) (a : Nat), a ∉ SetL.erase l a := by
    intro l a h; simp [SetL.erase] at h
  have key : ∀ s' : State, p.seq ∉ (s'.path p.path).pendSend →
      ((undoSend s' p).path k).limit = (s'.path k).limit := by
    intro s' hm
    rw [undoSend_local]
    by_cases hk : p.path = k
    · subst hk
      simp only [if_true, undoSendL]
      cases hl : (s'.path p.path).limit <;> simp [hm, hl]
    · simp [hk]
  refine ⟨key _ ?_, key _ ?_⟩
  · rw [ackPacket_local]
    simp only [if_true, ackL]
    cases ok
    · simp only [Bool.false_eq_true, if_false, undoSendL]
      cases hl : (s.path p.path).limit with
      | none => exact erase_not_mem _ _
      | some l =>
        by_cases hm : p.seq ∈ (s.path p.path).pendSend
        · simp only [hm, if_true]; exact erase_not_mem _ _
        · simpa [hm] using hm
    · simp only [if_true]; exact erase_not_mem _ _
  · rw [undoSend_local]
    simp only [if_true, undoSendL]
    cases hl : (s.path p.path).limit with
    | none => exact erase_not_mem _ _
    | some l =>
      by_cases hm : p.seq ∈ (s.path p.path).pendSend
      · simp only [hm, if_true]; exact erase_not_mem _ _
      · simpa [hm] using hm

/-- A receive that ends in an error acknowledgement — whether the rate limiter refused it or the
    application failed — leaves the whole rate-limit state unchanged (the flow update lives in the
    discarded cache context of the receive). -/
theorem error_ack_recv_leaves_state (s : State) (p : Pkt) (app : AppAck)
    (h : (recvPacket s p app).2.2 = .error) : (recvPacket s p app).1 = s := by
  unfold recvPacket at *
  generalize mwRecv s p app = x at h ⊢
  rcases x with ⟨s', r, a⟩
  simp only at h ⊢
  simp [h]

/-- In particular an application error acknowledgement is passed on unchanged. -/
theorem app_error_is_error_ack (s : State) (p : Pkt) : (recvPacket s p .error).2.2 = .error := by
  unfold recvPacket mwRecv
  cases checkAndUpdate s .recv p with
  | error r => rfl
  | ok v => rfl

/-- Regression of finding F4 (fixed by /repo 05cc95a): add; send p=60; UpdateRateLimit; send q=80;
    timeout p.  The unrepaired code recorded outflow 20; the refund of the pre-update packet must
    not touch the new window: outflow is 80. The same through Remove + Add. -/
theorem f4_witness_now_correct :
    let k : Path := ("uaaa", "channel-0")
    let pk (seq : Nat) (amt : Int) : Pkt := ⟨"channel-0", "uaaa", seq, amt, "a", "b"⟩
    let viaUpdate : List Op := [.add k ⟨50, 50, 1⟩ 1000 true, .send (pk 1 60), .update k ⟨50, 50, 1⟩ 1000,
      .send (pk 2 80), .timeout (pk 1 60)]
    let viaRemove : List Op := [.add k ⟨50, 50, 1⟩ 1000 true, .send (pk 1 60), .remove k, .add k ⟨50, 50, 1⟩ 1000 true,
      .send (pk 2 80), .timeout (pk 1 60)]
    (((run (State.init 0 0 3600) viaUpdate).path k).limit.map (·.flow.outflow) = some 80) ∧
    (((run (State.init 0 0 3600) viaRemove).path k).limit.map (·.flow.outflow) = some 80) := by
  decide

/-- non-vacuity: a well-formed history with an update in the middle, an error ack, a timeout of a
    pre-update packet, an async receive that is later refused — ends with outflow 80, inflow 0 and
    the reference account agrees (accepted 80+0, undone 0; accepted in 30, undone in 30). -/
example :
    let k : Path := ("uaaa", "channel-0")
    let pk (seq : Nat) (amt : Int) : Pkt := ⟨"channel-0", "uaaa", seq, amt, "a", "b"⟩
    let ops : List Op := [.add k ⟨50, 50, 1⟩ 1000 true, .send (pk 1 60), .update k ⟨50, 50, 1⟩ 1000,
      .send (pk 2 80), .timeout (pk 1 60), .recv (pk 7 30) .async, .send (pk 3 500), .writeAck (pk 7 30) false]
    WF ops ∧
    ((run (State.init 0 0 3600) ops).path k).limit.map (·.flow) = some ⟨0, 80, 1000⟩ ∧
    (KV.get (runBoth (State.init 0 0 3600) [] ops).2 k).map
      (fun w => (w.out.accepted, w.out.undoneSum, w.inn.accepted, w.inn.undoneSum)) = some (80, 0, 30, 30) := by
  refine ⟨WF_of_wfb _ (by decide), by decide, by decide⟩

end IbcVerif.C41
