/-
  C19 — Packet delay periods are enforced with exact block-delay arithmetic.
-/
import IbcVerif.Model.Delay
import IbcVerif.Lemmas.Height
namespace IbcVerif.C19
open IbcVerif IbcVerif.Delay

/-- the block delay is exactly ⌈d/e⌉ (0 when e = 0), for ALL inputs -/
theorem getBlockDelay_exact (d e : Nat) : getBlockDelay d e = blockDelaySpec d e := by
  unfold getBlockDelay blockDelaySpec
  by_cases he : e = 0
  · simp [he]
  · simp only [he, if_false]
    have hpos : 0 < e := Nat.pos_of_ne_zero he
    have hdm := Nat.div_add_mod d e
    have hml := Nat.mod_lt d hpos
    generalize hq : d / e = q at *
    generalize hrr : d % e = r at *
    have hm : q * e = e * q := Nat.mul_comm _ _
    have hm1 : (q + 1) * e = e * q + e := by rw [Nat.add_mul, Nat.one_mul, hm]
    have hm2 : (q + 1 + 1) * e = e * q + e + e := by rw [Nat.add_mul, Nat.one_mul, hm1]
    by_cases hr : r = 0
    · simp only [hr, ne_eq, not_true_eq_false, if_false]
      symm
      apply Nat.div_eq_of_lt_le <;> omega
    · simp only [ne_eq, hr, not_false_eq_true, if_true]
      symm
      apply Nat.div_eq_of_lt_le <;> omega

/-- it is a true ceiling: the least `b` with `b * e ≥ d` -/
theorem getBlockDelay_is_ceiling (d e : Nat) (he : e ≠ 0) :
    d ≤ getBlockDelay d e * e ∧ ∀ b, d ≤ b * e → getBlockDelay d e ≤ b := by
  have hpos : 0 < e := Nat.pos_of_ne_zero he
  have hdm := Nat.div_add_mod d e
  have hml := Nat.mod_lt d hpos
  unfold getBlockDelay
  simp only [he, if_false]
  generalize hq : d / e = q at *
  generalize hrr : d % e = r at *
  have hm : q * e = e * q := Nat.mul_comm _ _
  have hm1 : (q + 1) * e = e * q + e := by rw [Nat.add_mul, Nat.one_mul, hm]
  have key : ∀ b, b ≤ q → b * e ≤ e * q := by
    intro b hb; rw [← hm]; exact Nat.mul_le_mul_right e hb
  by_cases hr : r = 0
  · simp only [hr, ne_eq, not_true_eq_false, if_false]
    refine ⟨by omega, ?_⟩
    intro b hb
    by_cases hlt : b + 1 ≤ q
    · have := key (b + 1) hlt
      rw [Nat.add_mul, Nat.one_mul] at this
      omega
    · omega
  · simp only [ne_eq, hr, not_false_eq_true, if_true]
    refine ⟨by omega, ?_⟩
    intro b hb
    by_cases hlt : b ≤ q
    · have := key b hlt
      omega
    · omega

/-- the result fits in 64 bits for 64-bit inputs (the `++` in the code cannot wrap) -/
theorem getBlockDelay_fits (d e : Nat) (hd : d < 2^64) : getBlockDelay d e < 2^64 := by
  unfold getBlockDelay
  by_cases he : e = 0
  · simp [he]
  · simp only [he, if_false]
    have hpos : 0 < e := Nat.pos_of_ne_zero he
    have hle : d / e ≤ d := Nat.div_le_self d e
    by_cases hr : d % e = 0
    · simp only [hr, ne_eq, not_true_eq_false, if_false]; omega
    · simp only [ne_eq, hr, not_false_eq_true, if_true]
      have : d / e < d := by
        by_cases h1 : e = 1
        · subst h1; exact absurd (Nat.mod_one d) hr
        · exact Nat.div_lt_self (by
            rcases Nat.eq_zero_or_pos d with h | h
            · subst h; simp at hr
            · exact h) (by omega)
      omega

/-- both delays are enforced inclusively: success ⇔ (no time delay ∨ now ≥ processedTime + delay)
    ∧ (no block delay ∨ selfHeight ≥ (rev, processedHeight + delay)); missing metadata is an error;
    a sum that does not fit in 64 bits is an error (never "immediately passed"). -/
theorem delay_passed_iff (now : Nat) (self : Height) (pt : Option Nat) (ph : Option Height) (dt db : Nat) :
    verifyDelayPeriodPassed now self pt ph dt db = .ok ↔
      (dt = 0 ∨ ∃ p, pt = some p ∧ p + dt < 2^64 ∧ p + dt ≤ now) ∧
      (db = 0 ∨ ∃ q, ph = some q ∧ q.h.toNat + db < 2^64 ∧
          Height.lt self ⟨q.rev, UInt64.ofNat (q.h.toNat + db)⟩ = false) := by
  have timeHalf : timeCheck now pt dt = .ok ↔ (dt = 0 ∨ ∃ p, pt = some p ∧ p + dt < 2^64 ∧ p + dt ≤ now) := by
    unfold timeCheck
    by_cases hdt : dt = 0
    · simp [hdt]
    · cases pt with
      | none => simp [hdt]
      | some p =>
        simp only [ne_eq, hdt, not_false_eq_true, if_true, false_or, Option.some.injEq, exists_eq_left']
        by_cases h1 : p + dt ≥ 2^64
        · simp only [h1, if_true]; constructor
          · intro h; cases h
          · intro h; omega
        · by_cases h2 : now < p + dt
          · simp only [h1, h2, if_false, if_true]; constructor
            · intro h; cases h
            · intro h; omega
          · simp only [h1, h2, if_false]; constructor
            · intro _; omega
            · intro _; trivial
  have blockHalf : blockCheck self ph db = .ok ↔
      (db = 0 ∨ ∃ q, ph = some q ∧ q.h.toNat + db < 2^64 ∧ Height.lt self ⟨q.rev, UInt64.ofNat (q.h.toNat + db)⟩ = false) := by
    unfold blockCheck
    by_cases hdb : db = 0
    · simp [hdb]
    · cases ph with
      | none => simp [hdb]
      | some q =>
        simp only [ne_eq, hdb, not_false_eq_true, if_true, false_or, Option.some.injEq, exists_eq_left']
        by_cases h1 : q.h.toNat + db ≥ 2^64
        · simp only [h1, if_true]; constructor
          · intro h; cases h
          · intro h; omega
        · cases h2 : self.lt ⟨q.rev, UInt64.ofNat (q.h.toNat + db)⟩
          · simp only [h1, if_false]; constructor
            · intro _; exact ⟨by omega, trivial⟩
            · intro _; simp
          · simp only [h1, if_false, if_true]; constructor
            · intro h; cases h
            · intro h; cases h.2
  unfold verifyDelayPeriodPassed
  rw [← timeHalf, ← blockHalf]
  cases timeCheck now pt dt <;> simp

/-- packet-related proofs respect the delays of the consensus state they are verified against: an
    accepted proof at height `H` implies that both delays have passed since the client-store entries
    (processed time / processed height) of `H` — a younger or older consensus state's entries do not help -/
theorem packet_proof_respects_delay (base : Bool) (now : Nat) (self : Height) (pt : Option Nat) (ph : Option Height) (dt db : Nat)
    (h : delayedProofAccepted base now self pt ph dt db = true) :
    base = true ∧
    (dt = 0 ∨ ∃ p, pt = some p ∧ p + dt ≤ now) ∧
    (db = 0 ∨ ∃ q, ph = some q ∧ Height.lt self ⟨q.rev, UInt64.ofNat (q.h.toNat + db)⟩ = false) := by
  unfold delayedProofAccepted at h
  simp only [Bool.and_eq_true] at h
  obtain ⟨hb, hd⟩ := h
  have hok : verifyDelayPeriodPassed now self pt ph dt db = .ok := by
    cases hv : verifyDelayPeriodPassed now self pt ph dt db <;> simp [hv] at hd
    rfl
  obtain ⟨h1, h2⟩ := (delay_passed_iff now self pt ph dt db).mp hok
  refine ⟨hb, ?_, ?_⟩
  · rcases h1 with h1 | ⟨p, hp, _, hle⟩
    · exact Or.inl h1
    · exact Or.inr ⟨p, hp, hle⟩
  · rcases h2 with h2 | ⟨q, hq, _, hlt⟩
    · exact Or.inl h2
    · exact Or.inr ⟨q, hq, hlt⟩

/-- non-vacuity / boundary: exactly at processed + delay the proof is accepted, one nanosecond or one
    block earlier it is not -/
example : verifyDelayPeriodPassed 1500 ⟨1, 20⟩ (some 1000) (some ⟨1, 15⟩) 500 5 = .ok := by decide
example : verifyDelayPeriodPassed 1499 ⟨1, 20⟩ (some 1000) (some ⟨1, 15⟩) 500 5 = .notPassed := by decide
example : verifyDelayPeriodPassed 1500 ⟨1, 19⟩ (some 1000) (some ⟨1, 15⟩) 500 5 = .notPassed := by decide
example : getBlockDelay 10000000000000001 10000000000000000 = 2 := by decide

end IbcVerif.C19
