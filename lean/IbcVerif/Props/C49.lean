/-
  C49 — Tokens move out of an account only with that account's authorization.
  Property theorems only; helper lemmas live in IbcVerif/Lemmas/Ics20.lean, Ics20Step.lean.

  Model: `Ics20.step` (Model/Ics20.lean) = transfer/keeper/msg_server.go `Transfer`,
  v2/ibc_module.go `OnSendPacket` (reached by a raw `MsgSendPacket`, op `sendV2`), and the receive /
  acknowledgement / timeout callbacks of both IBC modules.  A `transfer` op carries the transaction
  signer; that the SDK only delivers a `MsgTransfer` whose `sender` field signed the transaction
  (`cosmos.msg.v1.signer = "sender"`) is modelled by `step` rejecting `viaTx` messages with
  `signer ≠ sender` (tied by the harness, which signs with mismatching keys).  Relayers do not occur in
  the callbacks of the model at all, because the Go callbacks never read their `relayer` argument; the
  harness relays with random accounts so that a dependence would surface as a mismatch.
-/
import IbcVerif.Model.Ics20
import IbcVerif.Lemmas.Ics20
import IbcVerif.Lemmas.Ics20Step
namespace IbcVerif.C49
open IbcVerif IbcVerif.Xfer IbcVerif.Ics20

/-- **Debits need the account's own signature.**  In every step of every world, if the balance of an
    account that is not an escrow account goes down (any denomination, any chain), then the step is

    * a `MsgTransfer` on that chain whose `sender` decodes to that account — and, when it arrived in a
      transaction, whose signer is that `sender`; or
    * a v2 `MsgSendPacket` on that chain signed by that account, whose ICS-20 payload names that same
      account as sender; or
    * the account's own bank send.

    Receives, acknowledgements, timeouts (whoever relays them) and parameter changes never debit a
    user or the module account. -/
theorem debit_requires_authority (cfg : Config) (w : World) (op : Op) (c : Nat) (a : Addr) (d : Str)
    (hlt : (((step cfg w op).1).chains c).bank.bal a d < (w.chains c).bank.bal a d)
    (hesc : ∀ p ch, a ≠ cfg.escrowAddr p ch) :
    (∃ signer viaTx m ce seq, op = .transfer c signer viaTx m ce seq ∧ cfg.decode m.sender = some a ∧
        (viaTx = true → signer = m.sender)) ∨
    (∃ signer client data ce seq, op = .sendV2 c signer client data ce seq ∧ cfg.decode signer = some a ∧
        cfg.decode data.sender = some a) ∨
    (∃ to dn amt, op = .bankSend c a to dn amt) := by
  have hc : c = opChain op := by
    by_cases hne : c = opChain op
    · exact hne
    · rw [step_other_chain cfg w op c hne] at hlt
      omega
  cases op with
  | transfer c' signer viaTx m ce seq =>
    simp only [opChain] at hc; subst hc
    rcases step_transfer_cases cfg w c signer viaTx m ce seq with ⟨p, hp⟩ | hsame
    · have hstep : step cfg w (.transfer c signer viaTx m ce seq) = ((step cfg w (.transfer c signer viaTx m ce seq)).1, .sent p) :=
        Prod.ext rfl hp
      obtain ⟨hsig, ch', ht, hw⟩ := step_transfer_sent hstep
      rw [hw] at hlt
      simp only [World.setChain, if_true] at hlt
      obtain ⟨s, n, tok, hs, _, _, _, _, _, _, _, _, _, _, _, hst⟩ := transfer_ok ht
      left
      refine ⟨signer, viaTx, m, ce, seq, rfl, ?_, hsig⟩
      have key : ∀ tok', sendTransfer cfg c (w.chains c) transferPort m.chan tok' n s = .ok ch' → a = s := by
        intro tok' hst'
        obtain ⟨_, _, _, _, hb⟩ := sendTransfer_effect hst'
        rcases hb with ⟨_, _, hbal, _, _⟩ | ⟨_, hbal, _, _⟩
        · rw [hbal a d] at hlt
          split_ifs at hlt with hh
          · exact hh.2
          · omega
        · rw [hbal a d] at hlt
          exact (moveBal_lt hlt).1
      rcases hst with ⟨_, hst⟩ | ⟨_, _, hst⟩
      · rw [key _ hst]; exact hs
      · rw [key _ hst]; exact hs
    · rw [hsame] at hlt; omega
  | sendV2 c' signer client data ce seq =>
    simp only [opChain] at hc; subst hc
    rcases step_sendV2_cases cfg w c signer client data ce seq with ⟨p, hp⟩ | hsame
    · have hstep : step cfg w (.sendV2 c signer client data ce seq) = ((step cfg w (.sendV2 c signer client data ce seq)).1, .sent p) :=
        Prod.ext rfl hp
      obtain ⟨ch', ht, hw⟩ := step_sendV2_sent hstep
      rw [hw] at hlt
      simp only [World.setChain, if_true] at hlt
      obtain ⟨s, hs, hs', _, _, _, _, _, _, _, _, _, _, hst⟩ := sendPacketV2_ok ht
      right; left
      have : a = s := by
        obtain ⟨_, _, _, _, hb⟩ := sendTransfer_effect hst
        rcases hb with ⟨_, _, hbal, _, _⟩ | ⟨_, hbal, _, _⟩
        · rw [hbal a d] at hlt
          split_ifs at hlt with hh
          · exact hh.2
          · omega
        · rw [hbal a d] at hlt
          exact (moveBal_lt hlt).1
      subst this
      exact ⟨signer, client, data, ce, seq, rfl, hs, hs'⟩
    · rw [hsame] at hlt; omega
  | recv p =>
    exfalso
    simp only [opChain] at hc; subst hc
    rcases step_recv_cases cfg w p with ⟨ch', o, hr, hstep⟩ | hsame
    · rw [hstep] at hlt
      simp only [World.setChain, if_true] at hlt
      rcases recvPacket_ok hr with ⟨_, hon⟩ | ⟨_, rfl⟩
      · obtain ⟨r, _, _, _, _, hb⟩ := onRecvPacket_effect hon
        rcases hb with ⟨_, _, _, _, hbal, _, _⟩ | ⟨_, _, hbal, _, _⟩
        · rw [hbal a d] at hlt
          exact hesc _ _ (moveBal_lt hlt).1
        · rw [hbal a d] at hlt
          split_ifs at hlt <;> omega
      · omega
    · rw [hsame] at hlt; omega
  | ack p ak =>
    exfalso
    simp only [opChain] at hc; subst hc
    rcases step_ack_cases cfg w p ak with ⟨ch', ha, hstep⟩ | ⟨hsame, _⟩
    · rw [hstep] at hlt
      simp only [World.setChain, if_true] at hlt
      rcases ackPacket_ok ha with ⟨_, rfl⟩ | ⟨_, href⟩
      · omega
      · obtain ⟨s, _, _, _, _, hb⟩ := refund_effect href
        rcases hb with ⟨_, hbal, _, _⟩ | ⟨_, _, _, hbal, _, _⟩
        · rw [hbal a d] at hlt
          split_ifs at hlt <;> omega
        · rw [hbal a d] at hlt
          exact hesc _ _ (moveBal_lt hlt).1
    · rw [hsame] at hlt; omega
  | timeout p oc =>
    exfalso
    simp only [opChain] at hc; subst hc
    rcases step_timeout_cases cfg w p oc with ⟨ch', ha, hstep⟩ | ⟨hsame, _⟩
    · rw [hstep] at hlt
      simp only [World.setChain, if_true] at hlt
      obtain ⟨s, _, _, _, _, hb⟩ := refund_effect (timeoutPacket_ok ha)
      rcases hb with ⟨_, hbal, _, _⟩ | ⟨_, _, _, hbal, _, _⟩
      · rw [hbal a d] at hlt
        split_ifs at hlt <;> omega
      · rw [hbal a d] at hlt
        exact hesc _ _ (moveBal_lt hlt).1
    · rw [hsame] at hlt; omega
  | setParams c' s r =>
    exfalso
    simp only [opChain] at hc; subst hc
    simp [step, World.setChain] at hlt
  | bankSend c' f t dn n =>
    simp only [opChain] at hc; subst hc
    right; right
    simp only [step] at hlt
    split at hlt
    · simp only at hlt; omega
    · split at hlt
      · rename_i b hb
        simp only [World.setChain, if_true] at hlt
        obtain ⟨_, _, hbal⟩ := Bank.send_some' hb
        rw [hbal a d] at hlt
        obtain ⟨e, _⟩ := moveBal_lt hlt
        subst e
        exact ⟨t, dn, n, rfl⟩
      · simp only at hlt; omega

/-- where a step may credit tokens: the escrow account of the source channel end (sends), the
    packet's receiver (receive), the packet's original sender (acknowledgement / timeout), the
    recipient of a bank send -/
def CreditTarget (cfg : Config) (c : Nat) (a : Addr) : Op → Prop
  | .transfer c' _ _ m _ _ => c = c' ∧ a = cfg.escrowAddr transferPort m.chan
  | .sendV2 c' _ client _ _ _ => c = c' ∧ a = cfg.escrowAddr transferPort client
  | .recv p => c = p.dstChain ∧ cfg.decode p.data.receiver = some a
  | .ack p _ => c = p.srcChain ∧ cfg.decode p.data.sender = some a
  | .timeout p _ => c = p.srcChain ∧ cfg.decode p.data.sender = some a
  | .setParams _ _ _ => False
  | .bankSend c' _ to _ _ => c = c' ∧ a = to

/-- **Credits go only where the packet says.**  If a balance goes up in a step, then the step is

    * a transfer (v1, alias or raw v2 send) and the account is the escrow account of the source
      channel end; or
    * a receive on the packet's destination chain and the account is the packet's `receiver`; or
    * an acknowledgement / timeout on the packet's source chain and the account is the packet's
      original `sender`; or
    * a bank send and the account is its recipient. -/
theorem credit_targets (cfg : Config) (w : World) (op : Op) (c : Nat) (a : Addr) (d : Str)
    (hgt : (w.chains c).bank.bal a d < (((step cfg w op).1).chains c).bank.bal a d) :
    CreditTarget cfg c a op := by
  have hc : c = opChain op := by
    by_cases hne : c = opChain op
    · exact hne
    · rw [step_other_chain cfg w op c hne] at hgt
      omega
  cases op with
  | transfer c' signer viaTx m ce seq =>
    simp only [opChain] at hc; subst hc
    simp only [CreditTarget]
    refine ⟨trivial, ?_⟩
    rcases step_transfer_cases cfg w c signer viaTx m ce seq with ⟨p, hp⟩ | hsame
    · have hstep : step cfg w (.transfer c signer viaTx m ce seq) = ((step cfg w (.transfer c signer viaTx m ce seq)).1, .sent p) :=
        Prod.ext rfl hp
      obtain ⟨_, ch', ht, hw⟩ := step_transfer_sent hstep
      rw [hw] at hgt
      simp only [World.setChain, if_true] at hgt
      obtain ⟨s, n, tok, _, _, _, _, _, _, _, _, _, _, _, _, hst⟩ := transfer_ok ht
      have key : ∀ tok', sendTransfer cfg c (w.chains c) transferPort m.chan tok' n s = .ok ch' →
          a = cfg.escrowAddr transferPort m.chan := by
        intro tok' hst'
        obtain ⟨_, _, _, _, hb⟩ := sendTransfer_effect hst'
        rcases hb with ⟨_, _, hbal, _, _⟩ | ⟨_, hbal, _, _⟩
        · rw [hbal a d] at hgt
          split_ifs at hgt <;> omega
        · rw [hbal a d] at hgt
          exact (moveBal_gt hgt).1
      rcases hst with ⟨_, hst⟩ | ⟨_, _, hst⟩
      · exact key _ hst
      · exact key _ hst
    · rw [hsame] at hgt; omega
  | sendV2 c' signer client data ce seq =>
    simp only [opChain] at hc; subst hc
    simp only [CreditTarget]
    refine ⟨trivial, ?_⟩
    rcases step_sendV2_cases cfg w c signer client data ce seq with ⟨p, hp⟩ | hsame
    · have hstep : step cfg w (.sendV2 c signer client data ce seq) = ((step cfg w (.sendV2 c signer client data ce seq)).1, .sent p) :=
        Prod.ext rfl hp
      obtain ⟨ch', ht, hw⟩ := step_sendV2_sent hstep
      rw [hw] at hgt
      simp only [World.setChain, if_true] at hgt
      obtain ⟨s, _, _, _, _, _, _, _, _, _, _, _, _, hst⟩ := sendPacketV2_ok ht
      obtain ⟨_, _, _, _, hb⟩ := sendTransfer_effect hst
      rcases hb with ⟨_, _, hbal, _, _⟩ | ⟨_, hbal, _, _⟩
      · rw [hbal a d] at hgt
        split_ifs at hgt <;> omega
      · rw [hbal a d] at hgt
        exact (moveBal_gt hgt).1
    · rw [hsame] at hgt; omega
  | recv p =>
    simp only [opChain] at hc; subst hc
    simp only [CreditTarget]
    refine ⟨trivial, ?_⟩
    rcases step_recv_cases cfg w p with ⟨ch', o, hr, hstep⟩ | hsame
    · rw [hstep] at hgt
      simp only [World.setChain, if_true] at hgt
      rcases recvPacket_ok hr with ⟨_, hon⟩ | ⟨_, rfl⟩
      · obtain ⟨r, hr', _, _, _, hb⟩ := onRecvPacket_effect hon
        rcases hb with ⟨_, _, _, _, hbal, _, _⟩ | ⟨_, _, hbal, _, _⟩
        · rw [hbal a d] at hgt
          rw [(moveBal_gt hgt).1]; exact hr'
        · rw [hbal a d] at hgt
          split_ifs at hgt with hh
          · rw [hh.2]; exact hr'
          · omega
      · omega
    · rw [hsame] at hgt; omega
  | ack p ak =>
    simp only [opChain] at hc; subst hc
    simp only [CreditTarget]
    refine ⟨trivial, ?_⟩
    rcases step_ack_cases cfg w p ak with ⟨ch', ha, hstep⟩ | ⟨hsame, _⟩
    · rw [hstep] at hgt
      simp only [World.setChain, if_true] at hgt
      rcases ackPacket_ok ha with ⟨_, rfl⟩ | ⟨_, href⟩
      · omega
      · obtain ⟨s, hs, _, _, _, hb⟩ := refund_effect href
        rcases hb with ⟨_, hbal, _, _⟩ | ⟨_, _, _, hbal, _, _⟩
        · rw [hbal a d] at hgt
          split_ifs at hgt with hh
          · rw [hh.2]; exact hs
          · omega
        · rw [hbal a d] at hgt
          rw [(moveBal_gt hgt).1]; exact hs
    · rw [hsame] at hgt; omega
  | timeout p oc =>
    simp only [opChain] at hc; subst hc
    simp only [CreditTarget]
    refine ⟨trivial, ?_⟩
    rcases step_timeout_cases cfg w p oc with ⟨ch', ha, hstep⟩ | ⟨hsame, _⟩
    · rw [hstep] at hgt
      simp only [World.setChain, if_true] at hgt
      obtain ⟨s, hs, _, _, _, hb⟩ := refund_effect (timeoutPacket_ok ha)
      rcases hb with ⟨_, hbal, _, _⟩ | ⟨_, _, _, hbal, _, _⟩
      · rw [hbal a d] at hgt
        split_ifs at hgt with hh
        · rw [hh.2]; exact hs
        · omega
      · rw [hbal a d] at hgt
        rw [(moveBal_gt hgt).1]; exact hs
    · rw [hsame] at hgt; omega
  | setParams c' s r =>
    simp only [opChain] at hc; subst hc
    simp only [CreditTarget]
    simp [step, World.setChain] at hgt
  | bankSend c' f t dn n =>
    simp only [opChain] at hc; subst hc
    simp only [CreditTarget]
    refine ⟨trivial, ?_⟩
    simp only [step] at hgt
    split at hgt
    · simp only at hgt; omega
    · split at hgt
      · rename_i b hb
        simp only [World.setChain, if_true] at hgt
        obtain ⟨_, _, hbal⟩ := Bank.send_some' hb
        rw [hbal a d] at hgt
        exact (moveBal_gt hgt).1
      · simp only at hgt; omega

/-- **v2: the payload's sender must be the signer.**  A raw `MsgSendPacket` with an ICS-20 payload only
    succeeds when the payload's `sender` decodes to the very account that signed the message. -/
theorem v2_send_sender_is_signer (cfg : Config) (w w' : World) (c : Nat) (signer client : Str) (data : PacketData)
    (ce : Option String) (seq : Nat) (p : Packet)
    (h : step cfg w (.sendV2 c signer client data ce seq) = (w', .sent p)) :
    ∃ s, cfg.decode signer = some s ∧ cfg.decode data.sender = some s := by
  obtain ⟨ch', ht, _⟩ := step_sendV2_sent h
  obtain ⟨s, hs, hs', _⟩ := sendPacketV2_ok ht
  exact ⟨s, hs, hs'⟩

/-- a `MsgTransfer` delivered in a transaction signed by someone other than its `sender` changes nothing -/
theorem transfer_with_foreign_signer_rejected (cfg : Config) (w : World) (c : Nat) (signer : Str) (m : MsgTransfer)
    (ce : Option String) (seq : Nat) (h : signer ≠ m.sender) :
    (step cfg w (.transfer c signer true m ce seq)).1 = w := by
  rcases step_transfer_cases cfg w c signer true m ce seq with ⟨p, hp⟩ | hsame
  · have hstep : step cfg w (.transfer c signer true m ce seq) = ((step cfg w (.transfer c signer true m ce seq)).1, .sent p) :=
      Prod.ext rfl hp
    exact absurd ((step_transfer_sent hstep).1 rfl) h
  · exact hsame

/-- non-vacuity: a concrete world in which user `u` sends 5 of its 10 `uatom` over `channel-0`: the
    step succeeds and debits exactly `u`. -/
example :
    let cfg : Config :=
      { hashHex := (fun s => s)
        decode := (fun s => some s)
        blocked := (fun _ _ => false)
        moduleAddr := "module".toList
        escrowAddr := (fun p c => "esc:".toList ++ p ++ c)
        peer := (fun _ _ => some (1, "channel-1".toList))
        hasChannel := (fun _ _ _ => true) }
    let ch : Chain := ⟨⟨fun a d => if a = "u".toList ∧ d = "uatom".toList then 10 else 0, fun _ => 10⟩, fun _ => 0, [], true, true⟩
    let w : World := ⟨fun _ => ch, [], [], [], []⟩
    let m : MsgTransfer := ⟨"transfer".toList, "channel-0".toList, "uatom".toList, 5, "u".toList, "v".toList, [], false, []⟩
    (((step cfg w (.transfer 0 "u".toList true m none 1)).1).chains 0).bank.bal "u".toList "uatom".toList = 5 := by
  decide

end IbcVerif.C49
