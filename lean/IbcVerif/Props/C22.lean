/-
  C22 — Tendermint consensus metadata stays consistent and ordered.
  Property theorems only (model: IbcVerif/Model/Tm*.lean; lemmas: IbcVerif/Lemmas/Tm*.lean).

  The client store is modelled with typed maps for the `consensusStates/{rev}-{h}`, `…/processedTime`,
  `…/processedHeight` families and, at byte level, the `iterateConsensusStates ++ BE64(rev) ++ BE64(h)`
  index kept in bytewise key order (what the KV store iterates in).  `MetaInv` (Model/TmSpec.lean) says:
  index entries are stored under the big-endian key of the height they name, in strictly ascending
  order, and a height has an index entry ⇔ a processed time ⇔ a processed height ⇔ a consensus state.
-/
import IbcVerif.Lemmas.TmHist
namespace IbcVerif.C22
open IbcVerif IbcVerif.Tm

/-- **The metadata invariant holds in every reachable world**, for every client, after every history
    of create / update / misbehaviour / time / upgrade / recover / pruneAll operations with arbitrary
    headers, verdicts and (revision, height) values. -/
theorem metaInv_invariant (ops : List Op) (cid : Nat) : MetaInv ((run World.empty ops).client cid) :=
  ((run_winv ops World.empty winv_empty).stores cid).metaInv

/-- … and it is preserved by every single operation from any consistent world (inductive form). -/
theorem metaInv_step (w : World) (hw : WInv w) (op : Op) : WInv (step w op).1 := step_winv w hw op

/-- what the invariant means entry by entry: at every height, the consensus state, the processed time,
    the processed height and the iteration entry are all present or all absent; the iteration entry of
    `h` sits under the raw key `BE64(rev) ++ BE64(height)` and points back to `h`; there is exactly one
    index entry per stored height. -/
theorem metaInv_meaning (s : Store) (inv : MetaInv s) (h : Height) :
    ((s.ptime.get h).isSome = true ↔ s.has h) ∧ ((s.pheight.get h).isSome = true ↔ s.has h) ∧
    ((Idx.get s.iter (beHeight h)).isSome = true ↔ s.has h) ∧
    (∀ v, Idx.get s.iter (beHeight h) = some v → v = h) ∧
    (s.has h → (s.iter.filter (fun p => decide (p.2 = h))).length = 1) := by
  refine ⟨inv.ptime h, inv.pheight h, ?_, ?_, ?_⟩
  · rw [get_isSome s.iter inv.keyed h]; exact inv.iter h
  · intro v hv
    unfold Idx.get at hv
    cases hf : s.iter.find? (fun p => decide (p.1 = beHeight h)) with
    | none => rw [hf] at hv; cases hv
    | some p =>
      rw [hf] at hv
      have hp := List.mem_of_find?_eq_some hf
      have hk' := List.find?_some hf
      simp only [decide_eq_true_eq] at hk'
      have := Option.some.inj hv
      rw [← this]
      exact beHeight_inj (by rw [← inv.keyed p hp, hk'])
  · intro hh
    obtain ⟨p, hp, e⟩ := (inv.iter h).mpr hh
    -- strictly ascending ⇒ no two entries name the same height
    have nodup : ∀ (l : List (Bytes × Height)), l.Pairwise (fun p q => hk p.2 < hk q.2) →
        (l.filter (fun p => decide (p.2 = h))).length ≤ 1 := by
      intro l hl
      induction l with
      | nil => simp
      | cons a r ih =>
        have ⟨h1, h2⟩ := List.pairwise_cons.mp hl
        by_cases ea : a.2 = h
        · have : r.filter (fun p => decide (p.2 = h)) = [] := by
            apply List.filter_eq_nil_iff.mpr
            intro x hx; have := h1 x hx
            simp only [decide_eq_true_eq]
            intro ex; rw [ea, ex] at this; omega
          simp [ea, this]
        · simp only [ea, decide_false, Bool.false_eq_true, not_false_eq_true, List.filter_cons_of_neg]
          exact ih h2
    have ge : 1 ≤ (s.iter.filter (fun p => decide (p.2 = h))).length := by
      apply List.length_pos_of_mem (a := p)
      exact List.mem_filter.mpr ⟨hp, by simp [e]⟩
    have := nodup s.iter inv.asc
    omega

/-- **Big-endian iteration order = height order, for ALL (revision, height)** — no assumption on the
    byte values of the encodings (0x2F '/', 0xFF, 0x00 are not special) -/
theorem iteration_key_order (a b : Height) :
    bytesLt (beHeight a) (beHeight b) = true ↔
      (a.rev < b.rev ∨ (a.rev = b.rev ∧ a.h < b.h)) := by
  rw [bytesLt_beHeight]
  unfold hk
  have h1 := UInt64.toNat_lt a.h
  have h2 := UInt64.toNat_lt b.h
  simp only [UInt64.lt_iff_toNat_lt, ← UInt64.toNat_inj]
  omega

/-- the iteration key determines the height (`GetHeightFromIterationKey ∘ IterationKey = id`) and
    distinct heights have distinct keys -/
theorem iteration_key_injective (a b : Height) :
    heightFromKey (beHeight a) = a ∧ (beHeight a = beHeight b ↔ a = b) :=
  ⟨heightFromKey_beHeight a, beHeight_eq_iff⟩

/-- the index really is in KV-store (bytewise) order -/
theorem index_sorted_bytewise (s : Store) (inv : MetaInv s) :
    s.iter.Pairwise (fun p q => bytesLt p.1 q.1 = true) :=
  (asc_iff_bytes inv.keyed).mp inv.asc

/-- **Ascending iteration visits exactly the stored heights, in strictly increasing height order** -/
theorem iteration_ascending (s : Store) (inv : MetaInv s) :
    s.iterAsc.Pairwise (fun a b => hk a < hk b) ∧ ∀ h, h ∈ s.iterAsc ↔ s.has h :=
  ⟨iterAsc_sorted s inv, mem_iterAsc s inv⟩

/-- **`GetNextConsensusState` returns the true next neighbour**: the consensus state of the least stored
    height strictly above `x` (whether or not `x` itself is stored), and nothing iff there is none -/
theorem next_correct (s : Store) (inv : MetaInv s) (x : Height) :
    (∀ c, s.getNext x = some c ↔ ∃ h, IsNext s x h ∧ s.getCons h = some c) ∧
    (s.getNext x = none ↔ ∀ h, s.has h → ¬ hk x < hk h) := by
  rcases getNext_eq s inv x with ⟨e, hno⟩ | ⟨n, hn, e⟩
  · refine ⟨fun c => ?_, ?_⟩
    · rw [e]
      constructor
      · intro h; cases h
      · rintro ⟨h, hh, _⟩; exact absurd hh.2.1 (hno h hh.1)
    · rw [e]; exact ⟨fun _ => hno, fun _ => rfl⟩
  · obtain ⟨cn, hcn⟩ := getCons_of_has hn.1
    refine ⟨fun c => ?_, ?_⟩
    · rw [e]
      constructor
      · intro h; exact ⟨n, hn, h⟩
      · rintro ⟨h, hh, hc⟩; have := isNext_unique hn hh; subst this; exact hc
    · rw [e, hcn]
      constructor
      · intro h; cases h
      · intro h; exact absurd hn.2.1 (h n hn.1)

/-- **`GetPreviousConsensusState` returns the true previous neighbour** -/
theorem prev_correct (s : Store) (inv : MetaInv s) (x : Height) :
    (∀ c, s.getPrev x = some c ↔ ∃ h, IsPrev s x h ∧ s.getCons h = some c) ∧
    (s.getPrev x = none ↔ ∀ h, s.has h → ¬ hk h < hk x) := by
  rcases getPrev_eq s inv x with ⟨e, hno⟩ | ⟨n, hn, e⟩
  · refine ⟨fun c => ?_, ?_⟩
    · rw [e]
      constructor
      · intro h; cases h
      · rintro ⟨h, hh, _⟩; exact absurd hh.2.1 (hno h hh.1)
    · rw [e]; exact ⟨fun _ => hno, fun _ => rfl⟩
  · obtain ⟨cn, hcn⟩ := getCons_of_has hn.1
    refine ⟨fun c => ?_, ?_⟩
    · rw [e]
      constructor
      · intro h; exact ⟨n, hn, h⟩
      · rintro ⟨h, hh, hc⟩; have := isPrev_unique hn hh; subst this; exact hc
    · rw [e, hcn]
      constructor
      · intro h; cases h
      · intro h; exact absurd hn.2.1 (h n hn.1)

/-- **Pruning during updates removes only the oldest state, only when it has expired, with all its
    metadata** (and never panics on a consistent store): either nothing changes (no stored state, or the
    oldest has not expired), or exactly the least stored height `h` — expired — loses its consensus
    state, processed time, processed height and iteration entry, and every other height keeps all four. -/
theorem prune_oldest_only (s : Store) (inv : MetaInv s) (tp now : Int) :
    (s.pruneOldest tp now = some s ∧ ∀ h c, IsOldest s h → s.getCons h = some c → ¬ (c.ts + tp ≤ now)) ∨
    (∃ h c s', s.pruneOldest tp now = some s' ∧ IsOldest s h ∧ s.getCons h = some c ∧ c.ts + tp ≤ now ∧
      s'.client = s.client ∧
      s'.getCons h = none ∧ s'.ptime.get h = none ∧ s'.pheight.get h = none ∧ Idx.get s'.iter (beHeight h) = none ∧
      (∀ h', h' ≠ h → s'.getCons h' = s.getCons h' ∧ s'.ptime.get h' = s.ptime.get h' ∧
        s'.pheight.get h' = s.pheight.get h' ∧
        ((Idx.get s'.iter (beHeight h')).isSome = (Idx.get s.iter (beHeight h')).isSome)) ∧
      MetaInv s') := by
  have expIff : ∀ ts : Int, isExpired tp ts now = true ↔ ts + tp ≤ now := by
    intro ts; unfold isExpired
    simp only [gt_iff_lt, Bool.not_eq_eq_eq_not, Bool.not_true, decide_eq_false_iff_not, Int.not_lt]
  rcases pruneOldest_spec s inv tp now with ⟨h, c, ho, hc, he, hp⟩ | ⟨hp, hne⟩
  · right
    have inv' := metaInv_delete s inv h
    refine ⟨h, c, _, hp, ho, hc, (expIff _).mp he, rfl, ?_, ?_, ?_, ?_, ?_, inv'⟩
    · rw [getCons_delete]; simp
    · show FMap.get (FMap.del s.ptime h) h = none; exact FMap.get_del_self _ _
    · show FMap.get (FMap.del s.pheight h) h = none; exact FMap.get_del_self _ _
    · have : ¬ ((s.delCons h).delMeta h).has h := by rw [has_delete]; simp
      have g := get_isSome ((s.delCons h).delMeta h).iter inv'.keyed h
      cases hg : Idx.get ((s.delCons h).delMeta h).iter (beHeight h) with
      | none => rfl
      | some v =>
        rw [hg] at g
        exact absurd ((inv'.iter h).mp (g.mp rfl)) this
    · intro h' hne'
      refine ⟨by rw [getCons_delete]; simp [Ne.symm hne'], ?_, ?_, ?_⟩
      · show FMap.get (FMap.del s.ptime h) h' = _; exact FMap.get_del_ne _ _ _ (Ne.symm hne')
      · show FMap.get (FMap.del s.pheight h) h' = _; exact FMap.get_del_ne _ _ _ (Ne.symm hne')
      · have a := (get_isSome ((s.delCons h).delMeta h).iter inv'.keyed h').trans (inv'.iter h')
        have b := (get_isSome s.iter inv.keyed h').trans (inv.iter h')
        have c' : ((s.delCons h).delMeta h).has h' ↔ s.has h' := by rw [has_delete]; simp [Ne.symm hne']
        cases x : (Idx.get ((s.delCons h).delMeta h).iter (beHeight h')).isSome <;>
          cases y : (Idx.get s.iter (beHeight h')).isSome <;> simp_all
  · left
    exact ⟨hp, fun h c ho hc => by rw [← expIff]; rw [hne h c ho hc]; simp⟩

/-- the one spot where the Go code names the height twice: `VerifyUpgradeAndUpdateState` writes the
    consensus state at `newClientState.LatestHeight` and the metadata at `tmUpgradeClient.LatestHeight`;
    in the model these are two different expressions, and they are equal -/
theorem upgrade_heights_agree (cs : ClientState) (u : UpgradeReq) :
    (upgradedClient cs u).latest = u.newClient.latest := rfl

/-! ### non-vacuity: heights whose big-endian keys contain 0x2F and 0xFF bytes -/

example : beHeight ⟨47, 255⟩ = [0,0,0,0,0,0,0,0x2F, 0,0,0,0,0,0,0,0xFF] := by decide
example : bytesLt (beHeight ⟨47, 255⟩) (beHeight ⟨47, 256⟩) = true ∧
          bytesLt (beHeight ⟨47, 0xFFFFFFFFFFFFFFFF⟩) (beHeight ⟨48, 0⟩) = true ∧
          bytesLt (beHeight ⟨0x2F2F, 0x2F⟩) (beHeight ⟨0x2F2F, 0x2E⟩) = false := by decide

def exStore : Store :=
  ((((Store.empty.setCons ⟨1, 0x2F00⟩ ⟨30, "r", "n"⟩).setMeta ⟨1, 0x2F00⟩ ⟨1, 1⟩ 5).setCons ⟨1, 0xFF⟩ ⟨20, "r", "n"⟩).setMeta ⟨1, 0xFF⟩ ⟨1, 1⟩ 5)

example : MetaInv exStore :=
  metaInv_insert _ (metaInv_insert _ metaInv_empty _ _ _ _) _ _ _ _
example : exStore.iterAsc = [⟨1, 0xFF⟩, ⟨1, 0x2F00⟩] ∧ (exStore.getNext ⟨1, 0x100⟩).map (·.ts) = some 30 ∧
          (exStore.getPrev ⟨1, 0x2F00⟩).map (·.ts) = some 20 ∧
          ((exStore.pruneOldest 10 100).map (·.iterAsc)) = some [⟨1, 0x2F00⟩] := by decide

end IbcVerif.C22
