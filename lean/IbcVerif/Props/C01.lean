/-
  C01 — Exactly-once packet delivery under any relay history.

  Model: IbcVerif/Model/Chain.lean (`step` mirrors RecvPacket of modules/core/keeper/msg_server.go,
  04-channel/keeper/packet.go:RecvPacket/applyReplayProtection, 04-channel/v2/keeper/msg_server.go:
  RecvPacket, v2/keeper/packet.go:recvPacket).  A history is any `List Op`: duplicates, reorderings,
  replays, v1 / v2 / v2-over-alias traffic, handshake and authorisation messages are just list
  elements; every proof verdict, light-client answer and application result is carried by the op, so
  the theorems hold for ALL of them (even "every proof verifies").

  `Event.recv1 port chan seq` is logged exactly when the destination application's OnRecvPacket ran
  in a committed transaction; `Event.recv2 dst seq n` when the v2 callbacks of payloads 0..n-1 ran
  (once each, in order) in a committed transaction.
-/
import IbcVerif.Lemmas.ChainOk
namespace IbcVerif.C01
open IbcVerif IbcVerif.Chain

/-- v1 (ORDERED, UNORDERED and aliased channels): over any history the destination application's
    receive callback ran at most once per (destination port, channel, sequence). -/
theorem recv_at_most_once_v1 (ops : List Op) (port chan : Id) (seq : Nat) :
    (run init ops).log.count (.recv1 port chan seq) ≤ 1 :=
  (inv_run_init ops).recv1Count port chan seq

/-- v2 (client ids and channel aliases): over any history at most one committed transaction ran the
    receive callbacks of (destination id, sequence) — each payload's callback once. -/
theorem recv_at_most_once_v2 (ops : List Op) (dst : Id) (seq : Nat) :
    ((run init ops).log.filter (Event.isRecv2 dst seq)).length ≤ 1 :=
  (inv_run_init ops).recv2Count dst seq

/-- A message that is answered NOOP, or fails, changes no state at all — not even the callback log
    (the application was not reached). -/
theorem noop_or_error_is_identity (s s' : ChainState) (op : Op) (out : Out)
    (h : step s op = (s', out)) (hno : out.isOk = false) : s' = s :=
  step_unchanged h hno

/-- Relaying an already delivered v1 packet again (same destination and sequence; any data, any
    proof verdict, any application behaviour) never succeeds: it is a NOOP or an error, the state is
    unchanged and the application is not reached.  `s` is any state reachable by a history. -/
theorem replay_v1_never_delivers (ops : List Op) (env : Env) (p : PacketV1) (app : AppV1)
    (hdone : Event.recv1 p.dp p.dc p.seq ∈ (run init ops).log) :
    (step (run init ops) ⟨env, .recvV1 p app⟩).2.isOk = false ∧
    (step (run init ops) ⟨env, .recvV1 p app⟩).1 = run init ops := by
  have hi := inv_run_init ops
  have hno : (step (run init ops) ⟨env, .recvV1 p app⟩).2.isOk = false := by
    cases hout : (step (run init ops) ⟨env, .recvV1 p app⟩).2 with
    | ok r =>
      exfalso
      have hstep : step (run init ops) ⟨env, .recvV1 p app⟩ = ((step (run init ops) ⟨env, .recvV1 p app⟩).1, .ok r) := by
        rw [← hout]
      obtain ⟨s1, _, hlog⟩ := recvV1_ok hstep
      have hi' := hi.step (step_tr hstep)
      have hc := hi'.recv1Count p.dp p.dc p.seq
      rw [hlog, List.count_append] at hc
      have : 0 < List.count (Event.recv1 p.dp p.dc p.seq) (run init ops).log := List.count_pos_iff.mpr hdone
      simp at hc; omega
    | noop => rfl
    | err c => rfl
    | panic => rfl
  exact ⟨hno, step_unchanged rfl hno⟩

/-- the same for IBC v2 (client id or alias as destination) -/
theorem replay_v2_never_delivers (ops : List Op) (env : Env) (p : PacketV2) (apps : List AppV2)
    (e : Event) (hdone : e ∈ (run init ops).log) (he : e.isRecv2 p.dst p.seq = true) :
    (step (run init ops) ⟨env, .recvV2 p apps⟩).2.isOk = false ∧
    (step (run init ops) ⟨env, .recvV2 p apps⟩).1 = run init ops := by
  have hi := inv_run_init ops
  have hno : (step (run init ops) ⟨env, .recvV2 p apps⟩).2.isOk = false := by
    cases hout : (step (run init ops) ⟨env, .recvV2 p apps⟩).2 with
    | ok r =>
      exfalso
      have hstep : step (run init ops) ⟨env, .recvV2 p apps⟩ = ((step (run init ops) ⟨env, .recvV2 p apps⟩).1, .ok r) := by
        rw [← hout]
      obtain ⟨s1, n, hr, _⟩ := recvV2_ok hstep
      obtain ⟨_, hnone, _⟩ := recvPacketV2_ok hr
      exact hi.recv2 p.dst p.seq e hdone he hnone
    | noop => rfl
    | err c => rfl
    | panic => rfl
  exact ⟨hno, step_unchanged rfl hno⟩

/-- a delivered v1 packet stays marked as received for ever (receipt on UNORDERED channels, the
    next-receive counter on ORDERED ones): the replay protection is never undone by any later message,
    including channel handshakes on other channels. -/
theorem delivered_stays_marked (ops : List Op) (port chan : Id) (seq : Nat)
    (h : Event.recv1 port chan seq ∈ (run init ops).log) :
    ∃ ch, (run init ops).chan.get (port, chan) = some ch ∧
      ((ch.ordering = .unordered ∧ (run init ops).receiptV1.get (port, chan, seq) ≠ none) ∨
       (ch.ordering = .ordered ∧ ∃ n, (run init ops).nextRecv.get (port, chan) = some n ∧ seq < n)) :=
  (inv_run_init ops).recv1 port chan seq h

/-- non-vacuity: the invariant's hypotheses are met by the genesis state, and `step` really
    delivers (the log grows) on a fresh packet — see also the correspondence evidence. -/
example : Inv Chain.init := Inv.init

end IbcVerif.C01
