/-
  C47 — Stateless validation and decoders never panic.
  Property theorems only; models in IbcVerif/Model/{Panic,PanicParsers}.lean, lemmas in
  IbcVerif/Lemmas/PanicParsers.lean.  (The packet-data decoders' totality theorems are in
  IbcVerif.Props.C35: abi_decode_total, gmp_abi_decode_total, attestation_decode_total,
  proto_decode_total.)

  Level.  PROOF for the ibc-go-authored parsers listed below: in a model where every index/slice
  expression, explicit `panic` and unchecked type assertion of the Go function is a panicking
  primitive, the function never panics — for all inputs and for every behaviour of the library
  functions it calls (`Lib`), assuming only that `strings.Split` with a non-empty separator returns a
  non-empty slice — or it panics exactly outside a stated precondition.
  EXPLORATION only for the `ValidateBasic` bodies of the message types and for library decoders
  (gogoproto, encoding/json, go-ethereum abi, ModuleCdc): harness engine "fuzz".
-/
import IbcVerif.Model.PanicParsers
import IbcVerif.Lemmas.PanicParsers
namespace IbcVerif.C47
open IbcVerif IbcVerif.Parsers

/-! ## identifiers and heights -/

/-- `ParseClientIdentifier` never panics -/
theorem parseClientIdentifier_total (L : Lib) (hs : L.SplitNonEmpty) (s : Str) :
    G.NoPanic (parseClientIdentifier L s) := parseClientIdentifier_noPanic L hs s

/-- `ParseHeight` never panics (the two index expressions are behind `len(splitStr) != 2`) -/
theorem parseHeight_total (L : Lib) (s : Str) : G.NoPanic (parseHeight L s) := parseHeight_noPanic L s

/-- `host.ParseIdentifier`, `ParseChannelSequence`, `ParseConnectionSequence` never panic -/
theorem parseIdentifier_total (L : Lib) (id pfx : Str) :
    G.NoPanic (parseIdentifier L id pfx) ∧ G.NoPanic (parseChannelSequence L id) ∧ G.NoPanic (parseConnectionSequence L id) :=
  ⟨parseIdentifier_noPanic L id pfx, parseChannelSequence_noPanic L id, parseConnectionSequence_noPanic L id⟩

/-- `SetRevisionNumber` never panics -/
theorem setRevisionNumber_total (L : Lib) (hs : L.SplitNonEmpty) (s : Str) (r : Nat) :
    G.NoPanic (setRevisionNumber L s r) := setRevisionNumber_noPanic L hs s r

/-- `ParseChainID` never panics.  It is reached from `tendermint.ClientState.Validate` (hence
    `MsgCreateClient.ValidateBasic`) and from `tendermint.Header.GetHeight` (hence `Header` /
    `Misbehaviour.ValidateBasic`).  Before fix 011a55d this was false of the code: `IsRevisionFormat`
    (`^.*[^\n-]-{1}[1-9][0-9]*$`) puts no bound on the digits, `strconv.ParseUint` fails above
    2^64−1 and the function called `panic`; the witness chain id "a-99999999999999999999" is kept as
    a regression input of the harness (it must now give revision 0). -/
theorem parseChainID_total (L : Lib) (hs : L.SplitNonEmpty) (s : Str) :
    G.NoPanic (parseChainID L s) := parseChainID_noPanic L hs s

/-- the former witness now evaluates to revision 0 -/
theorem parseChainID_overflow_is_zero :
    parseChainID Lib.go ['a', '-', '9', '9', '9', '9', '9', '9', '9', '9', '9', '9', '9', '9', '9', '9', '9', '9', '9', '9', '9', '9'] = .ok 0 := by
  decide

/-! ## store-path and key parsers -/

/-- `ParseChannelPath`, `ParseConnectionPath`, `parseClientStatePath` never panic -/
theorem parsePath_total (L : Lib) (p : Str) :
    G.NoPanic (parseChannelPath L p) ∧ G.NoPanic (parseConnectionPath L p) ∧ G.NoPanic (parseClientStatePath L p) :=
  ⟨parseChannelPath_noPanic L p, parseConnectionPath_noPanic L p, parseClientStatePath_noPanic L p⟩

/-- `GetHeightFromIterationKey` needs a key of at least len("iterateConsensusStates") + 16 = 38
    bytes and is panic-free exactly then.  Every key `SetIterationKey` writes has 38 bytes; a
    shorter key under that prefix can only come from genesis `ClientsMetadata` (operator input). -/
theorem getHeightFromIterationKey_total_iff (k : Bytes) :
    G.NoPanic (getHeightFromIterationKey k) ↔ 38 ≤ k.length := getHeightFromIterationKey_noPanic_iff k

/-- channel-v2 `extractSequenceFromKey` is panic-free exactly when the suffix after the store
    prefix is empty or 8 bytes (explicit `panic` above 8, `binary.BigEndian.Uint64` below) — the
    shape of every key written by `SetPacketCommitment`/`Receipt`/`Acknowledgement` (see C16 for the
    prefix-confinement side) -/
theorem extractSequenceFromKey_total_iff (key pfx : Bytes) :
    G.NoPanic (extractSequenceFromKey key pfx) ↔
      (trimPrefix key pfx).length = 0 ∨ (trimPrefix key pfx).length = 8 := extractSequenceFromKey_noPanic_iff key pfx

/-! ## denominations -/

/-- `ExtractDenomFromPath` never panics (`denomSplit[i+1]` is behind `i < length-1`) -/
theorem extractDenomFromPath_total (L : Lib) (hs : L.SplitNonEmpty) (s : Str) :
    G.NoPanic (extractDenomFromPath L s) := extractDenomFromPath_noPanic L hs s

/-- `Keeper.GetDenomFromIBCDenom` slices `ibcDenom[len("ibc/"):]`: panic-free exactly for strings of
    at least 4 bytes; its only in-tree caller `TokenFromCoin` checks `HasPrefix(denom, "ibc/")` first
    and is therefore total -/
theorem ibcDenomHexPart_total_iff (s : Str) :
    (G.NoPanic (ibcDenomHexPart s) ↔ 4 ≤ s.length) ∧ G.NoPanic (tokenFromCoinHexPart s) :=
  ⟨ibcDenomHexPart_noPanic_iff s, tokenFromCoinHexPart_noPanic s⟩

/-! ## memo extractors (JSON trees): every type assertion is of the checked form -/

/-- PFM `GetPacketMetadataFromPacketdata` / `getForwardMetadata` / `getForwardMetadataFromNext`
    never panic, for every JSON value, every nesting depth and every behaviour of `json.Unmarshal` -/
theorem forwardMetadata_total (pj : Str → Option (List (Str × JVal))) (fuel : Nat) (c : Option JVal) :
    G.NoPanic (getPacketMetadata pj fuel c) := getPacketMetadata_noPanic pj fuel c

/-- callbacks `getCallbackAddress` / `getUserDefinedGasLimit` / `getCalldata` never panic -/
theorem callbackData_total (L : Lib) (uh : Str → Bool) (c : Option JVal) :
    G.NoPanic (getCallbackFields L uh c) := getCallbackFields_noPanic L uh c

/-! ## the executable instance used by the correspondence driver satisfies the hypothesis -/

/-- `strings.Split` as modelled for the driver returns a non-empty list for a non-empty separator -/
theorem libGo_split_nonempty : Lib.go.SplitNonEmpty := libGo_splitNonEmpty

/-! ## non-vacuity -/

/-- the parsers accept well-formed input (so the theorems are not about an always-erroring model) and
    reject malformed input with an error, not a panic -/
example : parseClientIdentifier Lib.go "07-tendermint-42".toList = .ok ("07-tendermint".toList, 42) ∧
    (parseHeight Lib.go "1-".toList).isOk = false ∧ (parseHeight Lib.go "1-".toList).isPanic = false ∧
    parseChainID Lib.go "cosmoshub-4".toList = .ok 4 ∧
    (extractDenomFromPath Lib.go "transfer/channel-0/uatom".toList).isOk = true ∧
    (getHeightFromIterationKey (keyIterateConsensusStatePrefix ++ [0,0,0,0,0,0,0,1])).isPanic = true := by
  decide

end IbcVerif.C47
