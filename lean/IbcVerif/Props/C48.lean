/-
  C48 — Port routing is unambiguous and order-independent.
-/
import IbcVerif.Lemmas.Router
namespace IbcVerif.C48
open IbcVerif.Router

/-! ### v1 (05-port): exact match, else the least registered name that is a substring -/

/-- characterisation of the v1 lookup that mentions only *membership* in the route set -/
theorem v1_route_spec (R : List Name) (port k : Name) :
    routeV1 R port = some k ↔
      (port ∈ R ∧ k = port) ∨
      (port ∉ R ∧ k ∈ R ∧ contains port k = true ∧ ∀ k' ∈ R, contains port k' = true → lexLe k k' = true) := by
  unfold routeV1
  have hsorted := List.pairwise_mergeSort (le := lexLe) lexLe_trans (fun a b => lexLe_total a b) R
  by_cases hin : port ∈ R
  · simp only [List.contains_iff_mem, hin, if_true, Option.some.injEq, true_and, not_true_eq_false, false_and, or_false]
    exact eq_comm
  · simp only [List.contains_iff_mem, hin, if_false, false_and, not_false_eq_true, true_and, false_or]
    constructor
    · intro h
      obtain ⟨h1, h2, h3⟩ := find_sorted_min lexLe (fun k => contains port k) (keysV1 R) hsorted k h
      refine ⟨List.mem_mergeSort.mp h1, h2, ?_⟩
      intro k' hk' hc
      rcases h3 k' (List.mem_mergeSort.mpr hk') hc with rfl | h
      · exact lexLe_refl _
      · exact h
    · rintro ⟨h1, h2, h3⟩
      cases hf : (keysV1 R).find? (fun k => contains port k) with
      | none =>
        rw [List.find?_eq_none] at hf
        have := hf k (List.mem_mergeSort.mpr h1)
        simp [h2] at this
      | some k0 =>
        obtain ⟨g1, g2, g3⟩ := find_sorted_min lexLe (fun k => contains port k) (keysV1 R) hsorted k0 hf
        have le1 : lexLe k k0 = true := h3 k0 (List.mem_mergeSort.mp g1) g2
        have le2 : lexLe k0 k = true := by
          rcases g3 k (List.mem_mergeSort.mpr h1) h2 with rfl | h
          · exact lexLe_refl _
          · exact h
        rw [lexLe_antisymm k k0 le1 le2]

/-- every port resolves to at most one module, independent of registration order -/
theorem v1_route_perm_invariant (R₁ R₂ : List Name) (port : Name) (h : R₁.Perm R₂) :
    routeV1 R₁ port = routeV1 R₂ port := by
  apply Option.ext
  intro k
  rw [v1_route_spec, v1_route_spec]
  simp only [h.mem_iff]

/-! ### v2 (api.Router) -/

/-- `AddRoute` succeeds exactly when the name is alphanumeric, new, and not covered by a prefix -/
theorem v2_addRoute_iff (r r' : RouterV2) (port : Name) :
    addRoute r port = some r' ↔
      isAlnum port = true ∧ port ∉ r.routes ∧ (∀ p ∈ r.prefixes, p.isPrefixOf port = false) ∧
      r' = { r with routes := port :: r.routes } := by
  unfold addRoute
  constructor
  · intro h
    split at h
    · cases h
    · split at h
      · cases h
      · split at h
        · cases h
        · rename_i h1 h2 h3
          refine ⟨by simpa using h1, by simpa using h2, ?_, (Option.some.inj h).symm⟩
          intro p hp
          cases hc : p.isPrefixOf port with
          | false => rfl
          | true => exact absurd (List.any_eq_true.mpr ⟨p, hp, hc⟩) h3
  · rintro ⟨h1, h2, h3, rfl⟩
    have a3 : r.prefixes.any (fun p => p.isPrefixOf port) = false := by
      rw [List.any_eq_false]; intro p hp; simp [h3 p hp]
    have a2 : r.routes.contains port = false := by simpa using h2
    simp [h1, a3, h2]

/-- `AddPrefixRoute` succeeds exactly when the prefix is alphanumeric, is not a prefix of any direct
    route, and is prefix-incomparable with every registered prefix -/
theorem v2_addPrefix_iff (r r' : RouterV2) (pre : Name) :
    addPrefix r pre = some r' ↔
      isAlnum pre = true ∧ (∀ port ∈ r.routes, pre.isPrefixOf port = false) ∧
      (∀ p ∈ r.prefixes, p.isPrefixOf pre = false ∧ pre.isPrefixOf p = false) ∧
      r' = { r with prefixes := pre :: r.prefixes } := by
  unfold addPrefix
  constructor
  · intro h
    split at h
    · cases h
    · split at h
      · cases h
      · split at h
        · cases h
        · rename_i h1 h2 h3
          refine ⟨by simpa using h1, ?_, ?_, (Option.some.inj h).symm⟩
          · intro port hp
            cases hc : pre.isPrefixOf port with
            | false => rfl
            | true => exact absurd (List.any_eq_true.mpr ⟨port, hp, hc⟩) h2
          · intro p hp
            have : (p.isPrefixOf pre || pre.isPrefixOf p) = false := by
              cases hc : (p.isPrefixOf pre || pre.isPrefixOf p) with
              | false => rfl
              | true => exact absurd (List.any_eq_true.mpr ⟨p, hp, hc⟩) h3
            simpa using this
  · rintro ⟨h1, h2, h3, rfl⟩
    have a2 : r.routes.any (fun port => pre.isPrefixOf port) = false := by
      rw [List.any_eq_false]; intro p hp; simp [h2 p hp]
    have a3 : r.prefixes.any (fun p => p.isPrefixOf pre || pre.isPrefixOf p) = false := by
      rw [List.any_eq_false]; intro p hp; simp [(h3 p hp).1, (h3 p hp).2]
    simp [h1, a2, a3]

theorem addRoute_preserves (r r' : RouterV2) (port : Name) (h : PrefixFree r) (ha : addRoute r port = some r') :
    PrefixFree r' := by
  obtain ⟨_, h2, h3, rfl⟩ := (v2_addRoute_iff r r' port).mp ha
  obtain ⟨n1, n2, pp, pr⟩ := h
  refine ⟨List.nodup_cons.mpr ⟨h2, n1⟩, n2, pp, ?_⟩
  intro p hp x hx
  rcases List.mem_cons.mp hx with rfl | hx'
  · exact h3 p hp
  · exact pr p hp x hx'

theorem addPrefix_preserves (r r' : RouterV2) (pre : Name) (h : PrefixFree r) (ha : addPrefix r pre = some r') :
    PrefixFree r' := by
  obtain ⟨_, h2, h3, rfl⟩ := (v2_addPrefix_iff r r' pre).mp ha
  obtain ⟨n1, n2, pp, pr⟩ := h
  have hnot : pre ∉ r.prefixes := by
    intro hm
    have h1 := (h3 pre hm).1
    rw [List.isPrefixOf_iff_prefix.mpr (List.prefix_refl pre)] at h1
    cases h1
  refine ⟨n1, List.nodup_cons.mpr ⟨hnot, n2⟩, ?_, ?_⟩
  · intro p hp q hq hpq
    rcases List.mem_cons.mp hp with rfl | hp' <;> rcases List.mem_cons.mp hq with rfl | hq'
    · rfl
    · rw [(h3 q hq').2] at hpq; cases hpq
    · rw [(h3 p hp').1] at hpq; cases hpq
    · exact pp p hp' q hq' hpq
  · intro p hp x hx
    rcases List.mem_cons.mp hp with rfl | hp'
    · exact h2 x hx
    · exact pr p hp' x hx

/-- after ANY sequence of registrations that did not panic, in ANY order, the router is prefix-free -/
theorem v2_invariant (ops : List OpV2) : ∀ (r0 r : RouterV2), PrefixFree r0 → applyOps r0 ops = some r → PrefixFree r := by
  induction ops with
  | nil => intro r0 r h0 h; simp only [applyOps, Option.some.injEq] at h; exact h ▸ h0
  | cons op ops ih =>
    intro r0 r h0 h
    cases op with
    | route n =>
      simp only [applyOps] at h
      cases ha : addRoute r0 n with
      | none => simp [ha] at h
      | some r1 => rw [ha] at h; exact ih r1 r (addRoute_preserves r0 r1 n h0 ha) h
    | pre n =>
      simp only [applyOps] at h
      cases ha : addPrefix r0 n with
      | none => simp [ha] at h
      | some r1 => rw [ha] at h; exact ih r1 r (addPrefix_preserves r0 r1 n h0 ha) h

theorem empty_prefixFree : PrefixFree RouterV2.empty := by
  simp [PrefixFree, RouterV2.empty]

/-- in a prefix-free router at most one prefix matches a port, and none matches a direct route -/
theorem v2_unique_match (r : RouterV2) (h : PrefixFree r) (port p q : Name) (hp : p ∈ r.prefixes) (hq : q ∈ r.prefixes)
    (mp : p.isPrefixOf port = true) (mq : q.isPrefixOf port = true) : p = q := by
  rcases prefix_comparable p q port mp mq with c | c
  · exact h.2.2.1 p hp q hq c
  · exact (h.2.2.1 q hq p hp c).symm

/-- hence the lookup does not depend on Go's map iteration order -/
theorem v2_route_order_independent (r : RouterV2) (h : PrefixFree r) (o₁ o₂ : List Name)
    (h₁ : o₁.Perm r.prefixes) (h₂ : o₂.Perm r.prefixes) (port : Name) :
    getRouteWith r o₁ port = getRouteWith r o₂ port := by
  unfold getRouteWith
  split
  · rfl
  · by_cases hex : ∃ m ∈ r.prefixes, m.isPrefixOf port = true
    · obtain ⟨m, hm, hmp⟩ := hex
      have u : ∀ (o : List Name), o.Perm r.prefixes → o.find? (fun p => p.isPrefixOf port) = some m := by
        intro o ho
        apply find_unique (fun p => p.isPrefixOf port) m o
        · intro x hx hxp
          exact v2_unique_match r h port x m (ho.mem_iff.mp hx) hm hxp hmp
        · exact ho.mem_iff.mpr hm
        · exact hmp
      rw [u o₁ h₁, u o₂ h₂]
    · have n : ∀ (o : List Name), o.Perm r.prefixes → o.find? (fun p => p.isPrefixOf port) = none := by
        intro o ho
        rw [List.find?_eq_none]
        intro x hx hxp
        exact hex ⟨x, ho.mem_iff.mp hx, hxp⟩
      rw [n o₁ h₁, n o₂ h₂]

/-- end-to-end: whatever order the application registered its routes in, and whatever order Go
    iterates the maps in, every port resolves to the same (at most one) module -/
theorem v2_unambiguous (ops : List OpV2) (r : RouterV2) (hr : applyOps RouterV2.empty ops = some r)
    (o₁ o₂ : List Name) (h₁ : o₁.Perm r.prefixes) (h₂ : o₂.Perm r.prefixes) (port : Name) :
    getRouteWith r o₁ port = getRouteWith r o₂ port :=
  v2_route_order_independent r (v2_invariant ops _ r empty_prefixFree hr) o₁ o₂ h₁ h₂ port

/-- non-vacuity: a registration sequence that succeeds, and one that is refused as ambiguous -/
example : (applyOps RouterV2.empty [.route [97], .pre [98], .route [97, 98]]).isSome = true := by decide
example : applyOps RouterV2.empty [.pre [97], .route [97, 98]] = none := by decide
example : applyOps RouterV2.empty [.route [97, 98], .pre [97]] = none := by decide

end IbcVerif.C48
