/-
  C31 — Tracked total escrow equals net IBC escrow movements.
  Property theorems only; helper lemmas live in IbcVerif/Lemmas/Ics20Escrow.lean.

  Model: `EscrowCoin` / `UnescrowCoin` / `SetTotalEscrowForDenom` inside `Ics20.step` (Model/Ics20.lean), for
  any number of channels per chain (`ends c` lists the transfer channel / client identifiers of chain
  `c`, i.e. its escrow accounts).  The IBC escrow movements *are* the balance changes of the escrow
  accounts caused by ICS-20 (escrow on source sends, release on unwinding receives and on refunds), so
  "tracked = escrowed − released" is stated as: tracked total = combined escrow-account balance, after
  every lifecycle-respecting history, under `PartiesOK` (nothing is paid into an escrow account outside
  ICS-20 escrowing).  A direct payment into an escrow account would raise only the balance side:
  `tracked ≤ balances` in general (the harness accounts for such donations explicitly).

  Packet-forward refund moves: `Model/Ics20Pfm.lean` models the three bank / tracked-escrow moves of
  `WriteAcknowledgementForForwardedPacket` (escrow → escrow; escrow → burn with `unescrowToken`; mint →
  escrow with the tracked total incremented; nothing when the packet bounced back over its arrival
  channel, fix f970a92) as a step on the same chain state; the theorems `pfm_refund_*` below show that
  each of them preserves the equality and the bound.  (When PFM runs them — the in-flight record, the
  retry logic — is the apps cluster's model, C43.)
-/
import IbcVerif.Model.Ics20
import IbcVerif.Lemmas.Ics20Escrow
import IbcVerif.Lemmas.Ics20Pfm
namespace IbcVerif.C31
open IbcVerif IbcVerif.Xfer IbcVerif.Ics20

/-- **Tracked total escrow = combined balance of the transfer escrow accounts**, for every chain and
    every denomination, after every step of every lifecycle-respecting history, on any number of
    channels (v1, alias, v2). -/
theorem total_escrow_eq_escrow_balances (cfg : Config) (ha : Assm cfg) (ends : Nat → List Str) (he : EndsOK cfg ends)
    (w : World) (ops : List Op) (hw : Inv cfg w) (hesc : EscInv cfg ends w)
    (hl : LifecycleOK cfg w ops) (hp : ∀ op ∈ ops, PartiesOK cfg op) (c : Nat) (d : Str) :
    ((run cfg w ops).chains c).totalEscrow d =
      ((ends c).map fun e => ((run cfg w ops).chains c).bank.bal (cfg.escrowAddr transferPort e) d).sum :=
  escInv_run ha he ops w hw hesc hl hp c d

/-- … in particular it never exceeds what any single escrow account … together hold: every escrow
    account's balance is bounded by the combined balance, which is the tracked total -/
theorem escrow_account_le_total (cfg : Config) (ha : Assm cfg) (ends : Nat → List Str) (he : EndsOK cfg ends)
    (w : World) (ops : List Op) (hw : Inv cfg w) (hesc : EscInv cfg ends w)
    (hl : LifecycleOK cfg w ops) (hp : ∀ op ∈ ops, PartiesOK cfg op) (c : Nat) (d : Str) (e : Str) (hmem : e ∈ ends c) :
    ((run cfg w ops).chains c).bank.bal (cfg.escrowAddr transferPort e) d ≤ ((run cfg w ops).chains c).totalEscrow d := by
  rw [total_escrow_eq_escrow_balances cfg ha ends he w ops hw hesc hl hp c d]
  exact le_sum_of_mem (fun e => ((run cfg w ops).chains c).bank.bal (cfg.escrowAddr transferPort e) d) e hmem

/-- **Never negative: the `SetTotalEscrowForDenom` panic is unreachable.**  Whenever the bank lets an
    amount leave an escrow account of the chain, the tracked total covers it, so `UnescrowCoin` does not
    take its panicking branch (`currentTotalEscrow.Sub(coin)` going negative). -/
theorem unescrow_never_panics (cfg : Config) (es : List Str) (ch : Chain) (h : EscOK cfg es ch)
    (e : Str) (he : e ∈ es) (r : Addr) (d : Str) (n : Nat) :
    unescrowCoin ch (cfg.escrowAddr transferPort e) r d n ≠ .error .panic := by
  unfold unescrowCoin
  split
  · simp
  · rename_i b hb
    have hn := (Bank.send_some hb).1
    have hle : ch.bank.bal (cfg.escrowAddr transferPort e) d ≤ ch.totalEscrow d := by
      rw [h d]
      exact le_sum_of_mem (fun e => ch.bank.bal (cfg.escrowAddr transferPort e) d) e he
    have : ¬ ch.totalEscrow d < n := by omega
    simp [this]

/-- each step moves the tracked total and the escrow balances together (one-step form, the invariant
    restated for a single lifecycle-respecting step) -/
theorem step_keeps_escrow_in_sync (cfg : Config) (ha : Assm cfg) (ends : Nat → List Str) (he : EndsOK cfg ends)
    (w : World) (hw : Inv cfg w) (hesc : EscInv cfg ends w) (op : Op) (hg : Guard w op) (hpo : PartiesOK cfg op) :
    EscInv cfg ends (step cfg w op).1 :=
  escInv_step ha he hw hesc op hg hpo

/-- **Packet-forward refund moves keep tracked escrow = combined escrow balance.**  Whichever of the
    branches of `WriteAcknowledgementForForwardedPacket` runs (forward channel `fc`, refund channel
    `rc`, token `D`, amount `n`), a chain state satisfying the equality still satisfies it afterwards. -/
theorem pfm_refund_keeps_total_escrow_eq_balances (cfg : Config) (ha : Assm cfg) (es : List Str) (hnd : es.Nodup)
    (ch ch' : Chain) (fc rc : Str) (D : Denom) (n : Nat) (h : EscOK cfg es ch) (hfc : fc ∈ es) (hrc : rc ∈ es)
    (hp : pfmRefund cfg ch transferPort fc transferPort rc D n = .ok ch') :
    ∀ d, ch'.totalEscrow d = (es.map fun e => ch'.bank.bal (cfg.escrowAddr transferPort e) d).sum :=
  escOK_pfmRefund ha hnd h hfc hrc hp

/-- … hence every escrow account stays bounded by the tracked total after a packet-forward refund -/
theorem pfm_refund_escrow_account_le_total (cfg : Config) (ha : Assm cfg) (es : List Str) (hnd : es.Nodup)
    (ch ch' : Chain) (fc rc : Str) (D : Denom) (n : Nat) (h : EscOK cfg es ch) (hfc : fc ∈ es) (hrc : rc ∈ es)
    (hp : pfmRefund cfg ch transferPort fc transferPort rc D n = .ok ch') (e : Str) (he : e ∈ es) (d : Str) :
    ch'.bank.bal (cfg.escrowAddr transferPort e) d ≤ ch'.totalEscrow d := by
  rw [pfm_refund_keeps_total_escrow_eq_balances cfg ha es hnd ch ch' fc rc D n h hfc hrc hp d]
  exact le_sum_of_mem (fun e => ch'.bank.bal (cfg.escrowAddr transferPort e) d) e he

/-- … as a step of the world: the invariant of every chain survives a packet-forward refund on chain `c`
    (so histories may interleave these steps with the ICS-20 steps of `total_escrow_eq_escrow_balances`) -/
theorem pfm_refund_step_keeps_escrow_in_sync (cfg : Config) (ha : Assm cfg) (ends : Nat → List Str) (he : EndsOK cfg ends)
    (w : World) (hesc : EscInv cfg ends w) (c : Nat) (fc rc : Str) (D : Denom) (n : Nat)
    (hfc : fc ∈ ends c) (hrc : rc ∈ ends c) :
    EscInv cfg ends (World.pfmRefund cfg w c transferPort fc transferPort rc D n).1 := by
  unfold World.pfmRefund
  split
  · rename_i ch' hp
    intro c'
    simp only [World.setChain]
    split_ifs with hcc
    · subst hcc
      exact escOK_pfmRefund ha (he.nodup _) (hesc _) hfc hrc hp
    · exact hesc c'
  · exact hesc

/-- the burning branch cannot hit the `unescrowToken` panic (negative tracked total) when the equality
    holds: the tracked total covers whatever an escrow account can pay out -/
theorem pfm_refund_never_panics_on_total (cfg : Config) (es : List Str) (ch : Chain) (h : EscOK cfg es ch)
    (fc : Str) (hfc : fc ∈ es) (d : Str) (n : Nat)
    (hn : n ≤ ch.bank.bal (cfg.escrowAddr transferPort fc) d) : ¬ ch.totalEscrow d < n := by
  have hle : ch.bank.bal (cfg.escrowAddr transferPort fc) d ≤ ch.totalEscrow d := by
    rw [h d]
    exact le_sum_of_mem (fun e => ch.bank.bal (cfg.escrowAddr transferPort e) d) fc hfc
  omega

/-- a genesis-like world (tracked totals and escrow accounts empty) satisfies the invariant -/
theorem escInv_genesis (cfg : Config) (ends : Nat → List Str) (w : World)
    (ht : ∀ c d, (w.chains c).totalEscrow d = 0)
    (hesc : ∀ c p ch d, (w.chains c).bank.bal (cfg.escrowAddr p ch) d = 0) : EscInv cfg ends w := by
  intro c d
  rw [ht]
  have : (fun e => (w.chains c).bank.bal (cfg.escrowAddr transferPort e) d) = fun _ => 0 := by
    funext e; exact hesc c _ _ d
  rw [this]
  induction ends c with
  | nil => rfl
  | cons x xs ih => simp only [List.map_cons, List.sum_cons, Nat.zero_add]; exact ih

/-- non-vacuity: after escrowing 5 and 3 `uatom` over two channels the tracked total is 8 = 5 + 3 -/
example :
    let cfg : Config :=
      { hashHex := (fun s => s)
        decode := (fun s => some s)
        blocked := (fun _ _ => false)
        moduleAddr := "module".toList
        escrowAddr := (fun p c => "esc:".toList ++ p ++ c)
        peer := (fun _ _ => some (1, "channel-9".toList))
        hasChannel := (fun _ _ _ => true) }
    let ch : Chain := ⟨⟨fun a d => if a = "u".toList ∧ d = "uatom".toList then 10 else 0, fun _ => 10⟩, fun _ => 0, [], true, true⟩
    let w : World := ⟨fun _ => ch, [], [], [], []⟩
    let m (c : String) (n : Nat) : MsgTransfer := ⟨"transfer".toList, c.toList, "uatom".toList, n, "u".toList, "v".toList, [], false, []⟩
    let w₂ := run cfg w [.transfer 0 "u".toList true (m "channel-0" 5) none 1, .transfer 0 "u".toList true (m "channel-1" 3) none 1]
    (w₂.chains 0).totalEscrow "uatom".toList = 8 ∧
    (w₂.chains 0).bank.bal ("esc:".toList ++ "transfer".toList ++ "channel-0".toList) "uatom".toList = 5 ∧
    (w₂.chains 0).bank.bal ("esc:".toList ++ "transfer".toList ++ "channel-1".toList) "uatom".toList = 3 := by
  decide

end IbcVerif.C31
