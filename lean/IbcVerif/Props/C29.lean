/-
  C29 — Wasm client recovery never writes the substitute's store.
  Property theorems only; helper lemmas live in IbcVerif/Lemmas/WasmStore.lean.

  `run s ops` is an arbitrary history of Get/Has/Set/Delete/Iterator/ReverseIterator calls (arbitrary
  keys) on a `ClientRecoveryStore` whose wrapped stores start as `s.subject` / `s.substitute`.
  The abstract view of a state is the pair of partial maps `(s.subject.get, s.substitute.get)`.
-/
import IbcVerif.Model.WasmStore
import IbcVerif.Lemmas.WasmStore
namespace IbcVerif.C29
open IbcVerif.WasmStore

/-- effect of one call on the abstract subject map `f` (specification): only `Set`/`Delete` with a key
`"subject/" ++ k'` touch `k'` (a `Set` of the bare prefix or of a nil value panics in the SDK store
and writes nothing). -/
def absWrite (f : Bytes → Option Bytes) : Op → Bytes → Option Bytes
  | .set k (some v) => fun k' => if k = subjectPrefix ++ k' ∧ k' ≠ [] then some v else f k'
  | .delete k => fun k' => if k = subjectPrefix ++ k' then none else f k'
  | _ => f

/-- **The substitute's store is never modified**, whatever the history of calls. -/
theorem substitute_unchanged (s : RS) (ops : List Op) : (run s ops).1.substitute = s.substitute :=
  run_substitute s ops

/-- One call refines `absWrite` on the subject map. -/
theorem step_subject_refines (s : RS) (op : Op) :
    (step s op).1.subject.get = absWrite s.subject.get op := by
  funext k'
  cases op with
  | get k | has k =>
    simp only [step, absWrite]; split <;> rfl
  | iter a b | revIter a b =>
    simp only [step, absWrite]; (repeat' split) <;> rfl
  | set k v =>
    rcases splitPrefix_cases k with ⟨r, hk, hs⟩ | ⟨r, hk, hs⟩ | ⟨h1, h2, hs⟩
    · subst hk
      cases v with
      | none => simp only [step, hs, absWrite]; (repeat' split) <;> rfl
      | some v =>
        cases r with
        | nil =>
          simp only [List.append_nil] at hs
          simp [step, hs, absWrite]
        | cons a r =>
          simp only [step, hs, absWrite, bne_self_eq_false, Bool.false_eq_true, if_false,
            List.isEmpty_cons]
          rw [KV.get_set]
          by_cases h : k' = a :: r
          · subst h; simp
          · have : ¬ (subjectPrefix ++ a :: r = subjectPrefix ++ k') := by
              intro e; exact h (List.append_cancel_left e).symm
            simp [h, this]
    · subst hk
      have hne : ∀ k'', substitutePrefix ++ r ≠ subjectPrefix ++ k'' := by
        intro k'' e
        have := substitute_not_prefix_of_subject k''
        rw [← e, isPrefixOf_append] at this; cases this
      cases v with
      | none => simp [step, hs, absWrite, substitute_ne_subject]
      | some v => simp [step, hs, absWrite, substitute_ne_subject, hne]
    · have hne : ∀ k'', k ≠ subjectPrefix ++ k'' := by
        intro k'' e; rw [e, isPrefixOf_append] at h1; cases h1
      cases v with
      | none => simp [step, hs, absWrite, nil_ne_subject]
      | some v => simp [step, hs, absWrite, nil_ne_subject, hne]
  | delete k =>
    rcases splitPrefix_cases k with ⟨r, hk, hs⟩ | ⟨r, hk, hs⟩ | ⟨h1, h2, hs⟩
    · subst hk
      simp only [step, hs, absWrite, bne_self_eq_false, Bool.false_eq_true, if_false]
      rw [KV.get_delete]
      by_cases h : k' = r
      · subst h; simp
      · have : ¬ (subjectPrefix ++ r = subjectPrefix ++ k') := by
          intro e; exact h (List.append_cancel_left e).symm
        simp [h, this]
    · subst hk
      have hne : ∀ k'', substitutePrefix ++ r ≠ subjectPrefix ++ k'' := by
        intro k'' e
        have := substitute_not_prefix_of_subject k''
        rw [← e, isPrefixOf_append] at this; cases this
      simp [step, hs, absWrite, substitute_ne_subject, hne]
    · have hne : ∀ k'', k ≠ subjectPrefix ++ k'' := by
        intro k'' e; rw [e, isPrefixOf_append] at h1; cases h1
      simp [step, hs, absWrite, nil_ne_subject, hne]

/-- **Refinement over all histories**: after any sequence of calls the subject map is the fold of the
abstract write specification over that sequence (and the substitute map is the initial one). -/
theorem subject_refines (s : RS) (ops : List Op) :
    (run s ops).1.subject.get = ops.foldl absWrite s.subject.get ∧
    (run s ops).1.substitute.get = s.substitute.get := by
  refine ⟨?_, by rw [substitute_unchanged]⟩
  induction ops generalizing s with
  | nil => rfl
  | cons op ops ih => simp only [run, List.foldl_cons]; rw [ih, step_subject_refines]

/-- **A write reaches the subject at `k'` iff its key is `"subject/" ++ k'`** (only-if direction): any
change of the subject map at `k'` is caused by a `Set`/`Delete` whose key is exactly that. -/
theorem subject_change_only_by_prefixed_write (s : RS) (op : Op) (k' : Bytes)
    (h : (step s op).1.subject.get k' ≠ s.subject.get k') :
    (∃ v, op = .set (subjectPrefix ++ k') (some v)) ∨ op = .delete (subjectPrefix ++ k') := by
  rw [step_subject_refines] at h
  cases op with
  | get k | has k | iter a b | revIter a b => exact absurd rfl h
  | set k v =>
    cases v with
    | none => exact absurd rfl h
    | some v =>
      simp only [absWrite] at h
      by_cases hk : k = subjectPrefix ++ k' ∧ k' ≠ []
      · left; exact ⟨v, by rw [hk.1]⟩
      · rw [if_neg hk] at h; exact absurd rfl h
  | delete k =>
    simp only [absWrite] at h
    by_cases hk : k = subjectPrefix ++ k'
    · right; rw [hk]
    · rw [if_neg hk] at h; exact absurd rfl h

/-- (if direction) a `Set` of `"subject/" ++ k'` stores the value at `k'` of the subject, a `Delete`
removes it; nothing else of the subject changes. -/
theorem prefixed_write_reaches_subject (s : RS) (k' v : Bytes) (hk : k' ≠ []) :
    (step s (.set (subjectPrefix ++ k') (some v))).1.subject.get k' = some v ∧
    (step s (.delete (subjectPrefix ++ k'))).1.subject.get k' = none ∧
    (∀ k'', k'' ≠ k' →
      (step s (.set (subjectPrefix ++ k') (some v))).1.subject.get k'' = s.subject.get k'' ∧
      (step s (.delete (subjectPrefix ++ k'))).1.subject.get k'' = s.subject.get k'') := by
  simp only [step_subject_refines, absWrite]
  refine ⟨by simp [hk], by simp, ?_⟩
  intro k'' hne
  have : ¬ (subjectPrefix ++ k' = subjectPrefix ++ k'') := by
    intro e; exact hne (List.append_cancel_left e).symm
  simp [this]

/-- A write whose key does not start with `"subject/"` (no prefix, `"substitute/"`, `"subject"` without
the slash, …) is a no-op on the whole state. -/
theorem unprefixed_write_noop (s : RS) (k : Bytes) (v : Option Bytes)
    (h : subjectPrefix.isPrefixOf k = false) :
    step s (.set k v) = (s, .unit) ∧ step s (.delete k) = (s, .unit) := by
  rcases splitPrefix_cases k with ⟨r, hk, _⟩ | ⟨r, _, hs⟩ | ⟨_, _, hs⟩
  · rw [hk, isPrefixOf_append] at h; cases h
  · simp [step, hs, substitute_ne_subject]
  · simp [step, hs, nil_ne_subject]

/-- Reads never change the state. -/
theorem reads_pure (s : RS) (k a b : Bytes) :
    (step s (.get k)).1 = s ∧ (step s (.has k)).1 = s ∧
    (step s (.iter a b)).1 = s ∧ (step s (.revIter a b)).1 = s := by
  refine ⟨?_, ?_, ?_, ?_⟩ <;> simp only [step] <;> (repeat' split) <;> rfl

/-- **Reads are routed by prefix**: a key / range carrying `"subject/"` reads the subject store at the
stripped key / range; `"substitute/"` reads the substitute store. -/
theorem reads_routed (s : RS) (k a b : Bytes) :
    (step s (.get (subjectPrefix ++ k))).2 = .val (s.subject.get k) ∧
    (step s (.has (subjectPrefix ++ k))).2 = .bool (s.subject.has k) ∧
    (step s (.iter (subjectPrefix ++ a) (subjectPrefix ++ b))).2 = .items (s.subject.iter a b) ∧
    (step s (.revIter (subjectPrefix ++ a) (subjectPrefix ++ b))).2 = .items (s.subject.revIter a b) ∧
    (step s (.get (substitutePrefix ++ k))).2 = .val (s.substitute.get k) ∧
    (step s (.has (substitutePrefix ++ k))).2 = .bool (s.substitute.has k) ∧
    (step s (.iter (substitutePrefix ++ a) (substitutePrefix ++ b))).2 = .items (s.substitute.iter a b) ∧
    (step s (.revIter (substitutePrefix ++ a) (substitutePrefix ++ b))).2 =
      .items (s.substitute.revIter a b) := by
  simp [step, splitPrefix_subject, splitPrefix_substitute, getStore_subject, getStore_substitute,
    RS.store]

/-- **Keys without one of the two prefixes read as empty** (`nil` / `false` / closed iterator). -/
theorem bad_prefix_reads_empty (s : RS) (k : Bytes)
    (h1 : subjectPrefix.isPrefixOf k = false) (h2 : substitutePrefix.isPrefixOf k = false) :
    (step s (.get k)).2 = .val none ∧ (step s (.has k)).2 = .bool false ∧
    (∀ e, (step s (.iter k e)).2 = .items [] ∧ (step s (.revIter k e)).2 = .items []) ∧
    (∀ b, (step s (.iter b k)).2 = .items [] ∧ (step s (.revIter b k)).2 = .items []) := by
  have hs := splitPrefix_none h1 h2
  refine ⟨by simp [step, hs, getStore_nil], by simp [step, hs, getStore_nil], ?_, ?_⟩
  · intro e
    simp only [step, hs]
    constructor <;> (split; · rfl
                     · simp [getStore_nil])
  · intro b
    rcases splitPrefix_cases b with ⟨r, _, hb⟩ | ⟨r, _, hb⟩ | ⟨_, _, hb⟩
    · simp [step, hs, hb, subjectPrefix]
    · simp [step, hs, hb, substitutePrefix]
    · simp [step, hs, hb, getStore_nil]

/-- **Ranges whose bounds do not carry one consistent prefix read as empty**: a non-empty iteration
result implies both bounds carry the same one of the two prefixes. -/
theorem iter_nonempty_only_consistent_prefix (s : RS) (a b : Bytes)
    (h : (step s (.iter a b)).2 ≠ .items [] ∨ (step s (.revIter a b)).2 ≠ .items []) :
    ∃ p a' b', (p = subjectPrefix ∨ p = substitutePrefix) ∧ a = p ++ a' ∧ b = p ++ b' := by
  rcases splitPrefix_cases a with ⟨ra, ha, hsa⟩ | ⟨ra, ha, hsa⟩ | ⟨ha1, ha2, hsa⟩
  · rcases splitPrefix_cases b with ⟨rb, hb, hsb⟩ | ⟨rb, hb, hsb⟩ | ⟨hb1, hb2, hsb⟩
    · exact ⟨subjectPrefix, ra, rb, Or.inl rfl, ha, hb⟩
    · exfalso; simp [step, hsa, hsb, subject_ne_substitute] at h
    · exfalso; simp [step, hsa, hsb, subjectPrefix] at h
  · rcases splitPrefix_cases b with ⟨rb, hb, hsb⟩ | ⟨rb, hb, hsb⟩ | ⟨hb1, hb2, hsb⟩
    · exfalso; simp [step, hsa, hsb, substitute_ne_subject] at h
    · exact ⟨substitutePrefix, ra, rb, Or.inr rfl, ha, hb⟩
    · exfalso; simp [step, hsa, hsb, substitutePrefix] at h
  · exfalso
    have := (bad_prefix_reads_empty s a ha1 ha2).2.2.1 b
    rcases h with h | h
    · exact h this.1
    · exact h this.2

/-- What an iteration of a wrapped store returns: exactly the entries with `start ≤ key < end`
(so, with `reads_routed`, an iteration through the recovery store lists exactly the routed store's
entries in the stripped range). -/
theorem iter_contents (m : KV) (a b : Bytes) (p : Bytes × Bytes) :
    (p ∈ m.iter a b ↔ p ∈ m ∧ bytesLt p.1 a = false ∧ bytesLt p.1 b = true) ∧
    (p ∈ m.revIter a b ↔ p ∈ m.iter a b) := by
  simp [KV.iter, KV.revIter, KV.range, List.mem_mergeSort]

/-- The two prefixes are not prefixes of one another's keys, so "first matching prefix" is unambiguous. -/
theorem prefixes_disjoint (k : Bytes) :
    subjectPrefix.isPrefixOf (substitutePrefix ++ k) = false ∧
    substitutePrefix.isPrefixOf (subjectPrefix ++ k) = false :=
  ⟨subject_not_prefix_of_substitute k, substitute_not_prefix_of_subject k⟩

/-! ### non-vacuity: a concrete history -/

/-- subject = {"a" ↦ 01}, substitute = {"a" ↦ 02}; Set("substitute/a", 09) and Set("a", 09) are no-ops,
Set("subject/a", 07) reaches the subject, reads are routed. -/
example :
    let s : RS := ⟨[([97], [1])], [([97], [2])]⟩
    let ops := [Op.set (substitutePrefix ++ [97]) (some [9]), Op.set [97] (some [9]),
      Op.set (subjectPrefix ++ [97]) (some [7]), Op.get (subjectPrefix ++ [97]),
      Op.get (substitutePrefix ++ [97]), Op.get [97],
      Op.iter (subjectPrefix ++ [0]) (substitutePrefix ++ [255])]
    run s ops = (⟨[([97], [7])], [([97], [2])]⟩,
      [.unit, .unit, .unit, .val (some [7]), .val (some [2]), .val none, .items []]) := by
  decide

end IbcVerif.C29
