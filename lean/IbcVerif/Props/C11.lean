/-
  C11 — Each received packet gets at most one immutable acknowledgement.
-/
import IbcVerif.Lemmas.ChainOk2
import IbcVerif.Lemmas.ChainExamples
namespace IbcVerif.C11
open IbcVerif IbcVerif.Chain

/-- v1: once an acknowledgement commitment is written for (port, channel, sequence) it never
    changes or disappears, whatever follows (synchronous acks, async writes, replays, …). -/
theorem ack_write_once_v1 (ops more : List Op) (k : Id × Id × Nat) (v : Hex)
    (h : (run init ops).ackV1.get k = some v) : (run init (ops ++ more)).ackV1.get k = some v := by
  rw [run_append]
  exact run_preserves (P := fun s => s.ackV1.get k = some v) (fun _ _ ht hp => ht.ackV1 k v hp) _ more h

/-- v2: the same for (destination id, sequence). -/
theorem ack_write_once_v2 (ops more : List Op) (k : Id × Nat) (v : List Hex)
    (h : (run init ops).ackV2.get k = some v) : (run init (ops ++ more)).ackV2.get k = some v := by
  rw [run_append]
  exact run_preserves (P := fun s => s.ackV2.get k = some v) (fun _ _ ht hp => ht.ackV2 k v hp) _ more h

/-- v1: an acknowledgement is written (by core or by the application's async path) only on an OPEN
    channel end, only if none exists yet, and only with non-empty bytes. -/
theorem write_ack_v1_requires (s s' : ChainState) (p : PacketV1) (a : Option Hex) (h : writeAckV1 s p a = .ok s') :
    ∃ bz ch, a = some bz ∧ bz ≠ "" ∧ s.chan.get (p.dp, p.dc) = some ch ∧ ch.state = .opened ∧
      s.ackV1.get (p.dp, p.dc, p.seq) = none ∧ s'.ackV1.get (p.dp, p.dc, p.seq) = some bz := by
  obtain ⟨bz, ch, h1, h2, h3, h4, h5, rfl⟩ := writeAckV1_ok h
  exact ⟨bz, ch, h1, h2, h3, h4, h5, by simp⟩

/-- a second acknowledgement write for the same packet always fails (ErrAcknowledgementExists). -/
theorem second_write_ack_v1_fails (s s' : ChainState) (p : PacketV1) (a b : Option Hex)
    (h : writeAckV1 s p a = .ok s') : ∀ s'', writeAckV1 s' p b ≠ .ok s'' := by
  intro s'' h2
  obtain ⟨_, _, _, _, _, _, _, rfl⟩ := writeAckV1_ok h
  obtain ⟨_, _, _, _, _, _, hnone, _⟩ := writeAckV1_ok h2
  simp at hnone

/-- v2 refuses to write an acknowledgement for a packet that has no receipt: in every reachable
    state an acknowledgement implies a receipt. -/
theorem v2_ack_needs_receipt (ops : List Op) (k : Id × Nat) (h : (run init ops).ackV2.get k ≠ none) :
    (run init ops).receiptV2.get k ≠ none :=
  (inv2_run_init ops).ackRc k h

/-- asynchronous v2 packets: an entry exists only for a received packet whose acknowledgement has
    not been written, and it is stored under its own (destination, sequence). -/
theorem async_packet_invariant (ops : List Op) (k : Id × Nat) (p : PacketV2)
    (h : (run init ops).asyncV2.get k = some p) :
    (p.dst, p.seq) = k ∧ (run init ops).receiptV2.get k ≠ none ∧ (run init ops).ackV2.get k = none := by
  have h2 := inv2_run_init ops
  have := h2.asyncRc k (by rw [h]; simp)
  exact ⟨h2.asyncKey k p h, this.1, this.2⟩

/-- an asynchronously acknowledged packet stays retrievable until its acknowledgement is written and
    is removed exactly then: one step either keeps the entry or removes it while writing the ack. -/
theorem async_packet_lifecycle (ops : List Op) (op : Op) (k : Id × Nat) (p : PacketV2)
    (h : (run init ops).asyncV2.get k = some p) :
    (step (run init ops) op).1.asyncV2.get k = some p ∨
    ((step (run init ops) op).1.asyncV2.get k = none ∧ (step (run init ops) op).1.ackV2.get k ≠ none) := by
  have h2 := inv2_run_init ops
  have ht : Tr (run init ops) (step (run init ops) op).1 := step_tr (out := (step (run init ops) op).2) rfl
  have hk := h2.asyncKey k p h
  rcases ht.asyncOld k p h with h' | ⟨h', hcase⟩ | h'
  · exact .inl h'
  · rcases hcase with ⟨_, _, hack⟩ | hne
    · exact .inr ⟨h', hack⟩
    · exact absurd hk hne
  · exact absurd h' (h2.asyncRc k (by rw [h]; simp)).1

/-- a premature or repeated asynchronous write (no stored async packet for the key) fails and
    changes nothing. -/
theorem async_write_without_packet_fails (s : ChainState) (env : Env) (dst : Id) (seq : Nat) (acks : List Hex)
    (h : s.asyncV2.get (dst, seq) = none) :
    (step s ⟨env, .writeAckV2 dst seq acks⟩).2.isOk = false ∧ (step s ⟨env, .writeAckV2 dst seq acks⟩).1 = s := by
  apply not_ok_unchanged
  intro r hr
  have hstep : step s ⟨env, .writeAckV2 dst seq acks⟩ = ((step s ⟨env, .writeAckV2 dst seq acks⟩).1, .ok r) := by rw [← hr]
  obtain ⟨p, _, hp, _⟩ := asyncWriteAckV2_ok (writeAckV2_step_ok hstep)
  rw [h] at hp; cases hp

/-- a successful asynchronous write removes the async packet and writes the acknowledgement. -/
theorem async_write_removes_packet (s s' : ChainState) (env : Env) (dst : Id) (seq : Nat) (acks : List Hex) (r : String)
    (h : step s ⟨env, .writeAckV2 dst seq acks⟩ = (s', .ok r)) :
    s'.asyncV2.get (dst, seq) = none := by
  obtain ⟨p, s1, _, _, rfl⟩ := asyncWriteAckV2_ok (writeAckV2_step_ok h)
  simp

example : Inv2 Chain.init := Inv2.init

/-- non-vacuity: on a state with an OPEN channel end the first acknowledgement write succeeds … -/
example : (writeAckV1 Ex.sOpen Ex.pkIn (some "aa")).toBool = true := by decide
/-- … and asynchronous writes without a stored packet are really rejected by `step` -/
example : (step Ex.sOpen ⟨Ex.envOK, .writeAckV2 "channel-0" 1 ["aa"]⟩).2 = .err e2InvalidAck := by decide

end IbcVerif.C11
