/-
  C15 — Generated identifiers are unique and parse back to their parts (stateless part).
  The history part (counters never decrease, identifiers burnt by failed transactions are never
  stored) lives with the chain model; here: format/parse round-trips, validity of every
  generated identifier for every 64-bit sequence, injectivity of formatting, and rejection of
  sequences that do not fit 64 bits — for ALL client-type strings and ALL sequences.
-/
import IbcVerif.Lemmas.Ident
namespace IbcVerif.C15
open IbcVerif IbcVerif.Ident

/-- formatting then parsing a client identifier returns the same client type and sequence -/
theorem format_parse_client (t : List Char) (n : Nat) (ht : typeShape t = true) (hn : n < 2^64) :
    parseClientIdentifier (formatClientIdentifier t n) = some (t, n) := by
  have hs : splitLastDash (t ++ '-' :: dec n) = some (t, dec n) := splitLastDash_append t (dec n) (dash_not_in_dec n)
  have hne := format_ne_localhost t n
  unfold parseClientIdentifier
  rw [if_neg hne]
  unfold isClientIDFormat formatClientIdentifier
  rw [hs]
  simp [ht, digits1to20_dec n hn, parseUint64_dec n hn]

/-- a client type accepted by `ValidateClientType` has the identifier shape … -/
theorem validate_type_shape (t : List Char) (h : validateClientType t = true) : typeShape t = true := by
  unfold validateClientType at h
  simp only [Bool.and_eq_true] at h
  obtain ⟨⟨h1, _⟩, _⟩ := h
  have hs : splitLastDash (t ++ '-' :: dec 0) = some (t, dec 0) := splitLastDash_append t (dec 0) (dash_not_in_dec 0)
  unfold parseClientIdentifier at h1
  rw [if_neg (format_ne_localhost t 0)] at h1
  unfold isClientIDFormat formatClientIdentifier at h1
  rw [hs] at h1
  by_cases hsh : typeShape t = true
  · exact hsh
  · simp [hsh] at h1

/-- … and every identifier generated from it, for EVERY 64-bit sequence, passes the chain's client
    identifier validation and parses back to (type, sequence). -/
theorem registrable_ids_validate (t : List Char) (n : Nat) (h : validateClientType t = true) (hn : n < 2^64) :
    validId (formatClientIdentifier t n) 4 64 = true ∧
    parseClientIdentifier (formatClientIdentifier t n) = some (t, n) := by
  refine ⟨?_, format_parse_client t n (validate_type_shape t h) hn⟩
  unfold validateClientType at h
  simp only [Bool.and_eq_true] at h
  obtain ⟨⟨_, h0⟩, hmax⟩ := h
  unfold validId formatClientIdentifier at *
  simp only [Bool.and_eq_true, Bool.not_eq_true', decide_eq_true_eq, List.length_append, List.length_cons,
    List.all_append, List.all_cons] at h0 hmax ⊢
  have l0 : (dec 0).length = 1 := by decide
  have lmax : (dec maxU64).length = 20 := by decide
  have ln1 := dec_length_pos n
  have ln2 := dec_length_le_20 n hn
  have hdig : (dec n).all idChar = true := dec_all_idChar n
  refine ⟨⟨⟨?_, ?_⟩, ?_⟩, ?_⟩
  · cases t <;> rfl
  · omega
  · omega
  · simp [h0.2.1, hdig]
    exact h0.2.2.1

/-- parsing never yields a sequence that does not fit in 64 bits -/
theorem parse_client_seq_fits (s t : List Char) (n : Nat) (h : parseClientIdentifier s = some (t, n)) : n < 2^64 := by
  unfold parseClientIdentifier at h
  split at h
  · cases h; decide
  · split at h
    · split at h
      · rename_i a d _
        cases hp : parseUint64 d with
        | none => simp [hp] at h
        | some m =>
          simp only [hp, Option.map_some, Option.some.injEq, Prod.mk.injEq] at h
          rw [← h.2]; exact parseUint64_lt _ _ hp
      · cases h
    · cases h

/-- identifiers of distinct (type, sequence) pairs are distinct (for well-shaped types) -/
theorem format_client_injective (t t' : List Char) (n n' : Nat) (ht : typeShape t = true) (ht' : typeShape t' = true)
    (hn : n < 2^64) (hn' : n' < 2^64) (h : formatClientIdentifier t n = formatClientIdentifier t' n') : t = t' ∧ n = n' := by
  have e1 := format_parse_client t n ht hn
  have e2 := format_parse_client t' n' ht' hn'
  rw [h, e2] at e1
  have := Option.some.inj e1
  exact ⟨(Prod.mk.inj this).1.symm, (Prod.mk.inj this).2.symm⟩

/-- channel-N / connection-N: format then parse is the identity, for every 64-bit N -/
theorem format_parse_with_prefix (p : List Char) (n : Nat) (hn : n < 2^64) :
    parseWithPrefix p (formatWithPrefix p n) = some n := by
  unfold parseWithPrefix formatWithPrefix
  have h1 : p.isPrefixOf (p ++ dec n) = true := by simp
  rw [if_pos h1]
  simp [digits1to20_dec n hn, parseUint64_dec n hn]

theorem parse_with_prefix_fits (p s : List Char) (n : Nat) (h : parseWithPrefix p s = some n) : n < 2^64 := by
  unfold parseWithPrefix at h
  split at h
  · simp only at h
    split at h
    · exact parseUint64_lt _ _ h
    · cases h
  · cases h

/-- generated channel / connection identifiers satisfy the 8..64 / 10..64 length-and-alphabet rule
    for every 64-bit sequence -/
theorem generated_channel_connection_ids_valid (n : Nat) (hn : n < 2^64) :
    validId (formatWithPrefix channelPrefix n) 8 64 = true ∧ validId (formatWithPrefix connectionPrefix n) 10 64 = true := by
  have ln1 := dec_length_pos n
  have ln2 := dec_length_le_20 n hn
  have hdig : (dec n).all idChar = true := dec_all_idChar n
  constructor <;>
  · unfold validId formatWithPrefix
    simp only [Bool.and_eq_true, Bool.not_eq_true', decide_eq_true_eq, List.length_append, List.all_append]
    refine ⟨⟨⟨by simp [channelPrefix, connectionPrefix], ?_⟩, ?_⟩, ?_⟩
    · simp [channelPrefix, connectionPrefix] <;> omega
    · simp [channelPrefix, connectionPrefix]; omega
    · simp only [hdig, Bool.and_true]; decide

/-- distinct sequences give distinct identifiers -/
theorem format_with_prefix_injective (p : List Char) (n n' : Nat) (h : formatWithPrefix p n = formatWithPrefix p n') : n = n' :=
  dec_injective (List.append_cancel_left h)

/-- the 20-digit boundary: 2^64−1 is accepted, 2^64 is rejected -/
example : parseWithPrefix channelPrefix "channel-18446744073709551615".toList = some 18446744073709551615 := by decide
example : parseWithPrefix channelPrefix "channel-18446744073709551616".toList = none := by decide
/-- non-vacuity: a real client type is accepted -/
example : validateClientType "07-tendermint".toList = true := by decide

end IbcVerif.C15
