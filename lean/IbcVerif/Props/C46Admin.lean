/-
  C46 (administration half): rate-limit administration and wasm code management take effect only when
  the configured authority signs.  Decision logic stated outright, for every keeper step.
-/
import IbcVerif.Model.Admin
namespace IbcVerif.C46A
open IbcVerif.Admin

/-- any state change of a gated handler was signed by the authority -/
theorem admin_effect_needs_authority {σ : Type} (authority signer : String) (step : σ → Option σ) (s s' : σ)
    (h : handler authority signer step s = some s') : signer = authority := by
  unfold handler validateAuthority at h
  split at h
  · rename_i hv; exact (of_decide_eq_true hv).symm
  · cases h

/-- a stranger's message fails and leaves the state as it was (the keeper step is never reached) -/
theorem admin_stranger_rejected {σ : Type} (authority signer : String) (step : σ → Option σ) (s : σ)
    (h : signer ≠ authority) : handler authority signer step s = none := by
  unfold handler validateAuthority
  rw [if_neg]
  intro hv; exact h (of_decide_eq_true hv).symm

/-- the authority's message is exactly the keeper step -/
theorem admin_authority_passes {σ : Type} (authority : String) (step : σ → Option σ) (s : σ) :
    handler authority authority step s = step s := by
  simp [handler, validateAuthority]

/-- over any history of administration messages by arbitrary signers, the final state is the one
    produced by the authority-signed messages alone -/
theorem admin_history_only_authority {σ : Type} (authority : String) (msgs : List (String × (σ → Option σ))) (s : σ) :
    msgs.foldl (fun st m => (handler authority m.1 m.2 st).getD st) s =
    (msgs.filter (fun m => m.1 = authority)).foldl (fun st m => (m.2 st).getD st) s := by
  induction msgs generalizing s with
  | nil => rfl
  | cons m ms ih =>
    simp only [List.foldl_cons, List.filter_cons]
    by_cases h : m.1 = authority
    · simp only [h, decide_true, if_true, List.foldl_cons]
      rw [show handler authority authority m.2 s = m.2 s from admin_authority_passes authority m.2 s]
      exact ih _
    · simp only [h, decide_false, Bool.false_eq_true, if_false]
      rw [admin_stranger_rejected authority m.1 m.2 s h]
      exact ih _

example : handler "gov" "gov" (fun n : Nat => some (n + 1)) 0 = some 1 := by decide
example : handler "gov" "mallory" (fun n : Nat => some (n + 1)) 0 = none := by decide

end IbcVerif.C46A
