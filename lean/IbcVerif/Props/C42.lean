/-
  C42 — Rate limiting charges exactly the denomination ICS-20 moves (denomination part).
  Property theorems only; helper lemmas live in IbcVerif/Lemmas/Denom.lean, DenomRl.lean.

  Model: `rlSendDenom` / `rlRecvDenom` = rate-limiting/keeper/packet.go
  `ParseDenomFromSendPacket` / `ParseDenomFromRecvPacket`; `ics20SendCoinDenom` /
  `ics20RecvCoinDenom` = the coin `SendTransfer` escrows or burns (`token.ToCoin()`) and the coin
  `OnRecvPacket` unescrows or mints (transfer/keeper/relay.go); the stateful ICS-20 model
  (`Model/Ics20.lean`) is *defined* through the same two functions.

  Result: the property holds for path-stable denominations on ibc-go formatted channel identifiers
  (`*_partial` theorems) and is FALSE of the code in general — three kernel-checked witnesses, each
  replayed against the real modules by the harness (`xfer` engine, group `findings`).
-/
import IbcVerif.Model.Denom
import IbcVerif.Lemmas.Denom
import IbcVerif.Lemmas.DenomRl
namespace IbcVerif.C42
open IbcVerif IbcVerif.Xfer

/-- what `MsgTransfer` validation lets through for a token `d` (msgs.go `validateIBCCoin`, msg_server.go
    `TokenFromCoin` + `packetData.ValidateBasic`): a native coin denomination is a valid SDK/IBC
    denomination not starting with "ibc/"; the packet path must parse to a valid `Denom`. -/
def SendAccepted (d : Denom) : Prop :=
  (d.trace = [] → validIBCDenom d.base = true ∧ ibcSlash.isPrefixOf d.base = false) ∧
  (extract d.path).validate = none

/-- FULL statement, send side: for every token `Transfer` accepts, the rate limiter charges the coin
    denomination that ICS-20 escrows or burns. -/
def rl_send_full (hashHex : Str → Str) : Prop :=
  ∀ d : Denom, SendAccepted d → rlSendDenom hashHex d.path = ics20SendCoinDenom hashHex d

/-- FULL statement, receive side: for every packet denomination ICS-20 accepts on any channel pair
    with ICS-24-valid identifiers, the rate limiter charges the coin ICS-20 mints or unescrows. -/
def rl_recv_full (hashHex : Str → Str) : Prop :=
  ∀ sp sc dp dc s : Str, validPortId sp = true → validChannelId sc = true →
    validPortId dp = true → isValidChannelID dc = true → (extract s).validate = none →
    rlRecvDenom hashHex sp sc dp dc s = ics20RecvCoinDenom hashHex sp sc dp dc s

/-- receive side restricted to counterparties that use ibc-go's identifier format -/
def rl_recv_full_ibcgo (hashHex : Str → Str) : Prop :=
  ∀ sp sc dp dc s : Str, validPortId sp = true → isValidChannelID sc = true →
    validPortId dp = true → isValidChannelID dc = true → (extract s).validate = none →
    rlRecvDenom hashHex sp sc dp dc s = ics20RecvCoinDenom hashHex sp sc dp dc s

/-- **Send side (partial).**  For a path-stable token whose path does not start with "ibc/" (i.e. the
    transfer port is not literally named "ibc") the rate limiter charges the coin ICS-20 moves. -/
theorem rl_send_denom_eq_partial (hashHex : Str → Str) (d : Denom) (hs : PathStable d)
    (hi : ibcSlash.isPrefixOf d.path = false) :
    rlSendDenom hashHex d.path = ics20SendCoinDenom hashHex d := by
  unfold rlSendDenom ics20SendCoinDenom
  rw [hi, hs]
  simp

/-- path-stability holds for every token with ibc-go formatted hops and a hop-free base — in
    particular for every native denomination whose second '/'-segment is not `channel-N`/`<type>-N`. -/
theorem rl_send_denom_eq_hopFree (hashHex : Str → Str) (d : Denom)
    (hsep : ∀ x ∈ d.trace, '/' ∉ x.port ∧ '/' ∉ x.chan) (hid : ∀ x ∈ d.trace, isHopId x.chan = true)
    (hb : hopFreeBase d.base = true) (hi : ibcSlash.isPrefixOf d.path = false) :
    rlSendDenom hashHex d.path = ics20SendCoinDenom hashHex d :=
  rl_send_denom_eq_partial hashHex d (pathStable_of_hopFree d hsep hid hb) hi

/-- **Receive side, unwinding (full for this branch).**  Whenever ICS-20 treats the packet as a
    returning token (parsed trace starts with the packet's source hop) the rate limiter charges the
    denomination ICS-20 unescrows. -/
theorem rl_recv_unwind_eq (hashHex : Str → Str) (sp sc dp dc s : Str)
    (hsp : '/' ∉ sp) (hsc : '/' ∉ sc)
    (hv : (extract s).validate = none) (hp : (extract s).hasPrefix sp sc = true) :
    rlRecvDenom hashHex sp sc dp dc s = ics20RecvCoinDenom hashHex sp sc dp dc s := by
  obtain ⟨rest, hne, hsplit, hid, hex⟩ := extract_hasPrefix_decompose s sp sc hp
  have hpre := stringPrefix_iff_hasPrefix s sp sc hsp hsc hid
  rw [hp] at hpre
  unfold rlRecvDenom ics20RecvCoinDenom
  simp only [hpre, hp, if_true]
  -- the string after the prefix is the join of the remaining segments
  have hs : s = ((Hop.mk sp sc).str ++ ['/']) ++ joinWith '/' rest := by
    have : s = joinWith '/' (sp :: sc :: rest) := by rw [← hsplit, join_split]
    rw [this, joinWith_cons_of_ne_nil '/' sp _ (by simp), joinWith_cons_of_ne_nil '/' sc _ hne]
    simp [Hop.str]
  have hdrop : s.drop ((Hop.mk sp sc).str ++ ['/']).length = joinWith '/' rest := by
    conv => lhs; rw [hs]
    exact List.drop_left
  rw [hdrop]
  have hfree : ∀ p ∈ rest, '/' ∉ p := by
    intro p hp'
    apply not_mem_of_mem_split '/' s p
    rw [hsplit]; simp [hp']
  have hsr : splitOnChar '/' (joinWith '/' rest) = rest := split_join '/' rest hne hfree
  rw [extract_of_split _ _ hsr]
  have hirr : extractGo (decide (rest.length > 2)) rest = extractGo true rest := by
    apply extractGo_long_irrelevant
    intro p c heq
    cases hc : isHopId c with
    | false => rfl
    | true =>
      exfalso
      rw [hex, heq] at hv
      simp [extractGo, hc, Denom.validate, joinWith, goBlank] at hv
  rw [hirr, hex]
  simp

/-- **Receive side, minting (partial).**  When ICS-20 mints a voucher (no returning prefix), the rate
    limiter charges that voucher provided both channel identifiers are in ibc-go's format and the
    packet denomination is not a two-segment string `x/channel-N` (`x/<type>-N`). -/
theorem rl_recv_mint_eq_partial (hashHex : Str → Str) (sp sc dp dc s : Str)
    (hsp : '/' ∉ sp) (hsc : '/' ∉ sc) (hdp : '/' ∉ dp) (hdc : '/' ∉ dc)
    (hidS : isHopId sc = true) (hidD : isHopId dc = true)
    (h2 : twoSegHopLike s = false) (hp : (extract s).hasPrefix sp sc = false) :
    rlRecvDenom hashHex sp sc dp dc s = ics20RecvCoinDenom hashHex sp sc dp dc s := by
  have hpre := stringPrefix_iff_hasPrefix s sp sc hsp hsc hidS
  rw [hp] at hpre
  unfold rlRecvDenom ics20RecvCoinDenom
  simp only [hpre, hp, Bool.false_eq_true, if_false]
  have e : (Hop.mk dp dc).str ++ '/' :: s = dp ++ '/' :: (dc ++ '/' :: s) := by simp [Hop.str]
  rw [e, extract_cons_hop dp dc s hdp hdc hidD, extract_eq s, extractGo_long_irrelevant_of_not_twoSeg s h2]

/-- **Receive side (partial), combined.** -/
theorem rl_recv_denom_eq_partial (hashHex : Str → Str) (sp sc dp dc s : Str)
    (hsp : '/' ∉ sp) (hsc : '/' ∉ sc) (hdp : '/' ∉ dp) (hdc : '/' ∉ dc)
    (hidS : isHopId sc = true) (hidD : isHopId dc = true)
    (hv : (extract s).validate = none) (h2 : twoSegHopLike s = false) :
    rlRecvDenom hashHex sp sc dp dc s = ics20RecvCoinDenom hashHex sp sc dp dc s := by
  cases hp : (extract s).hasPrefix sp sc with
  | true => exact rl_recv_unwind_eq hashHex sp sc dp dc s hsp hsc hv hp
  | false => exact rl_recv_mint_eq_partial hashHex sp sc dp dc s hsp hsc hdp hdc hidS hidD h2 hp

/-! ### the full statements are false of the code -/

/-- witness F3: a native denomination shaped like a voucher path -/
def f3Denom : Denom := ⟨[], "transfer/channel-7/x".toList⟩

theorem f3_accepted : SendAccepted f3Denom := by
  refine ⟨fun _ => ⟨by decide, by decide⟩, by decide⟩

/-- **F3 (send side).**  `Transfer` accepts the native coin `transfer/channel-7/x`; ICS-20 escrows the
    coin `transfer/channel-7/x`, the rate limiter charges `ibc/HASH(transfer/channel-7/x)`. -/
theorem rl_send_full_false (hashHex : Str → Str) : ¬ rl_send_full hashHex := by
  intro h
  have := h f3Denom f3_accepted
  have e : extract f3Denom.path = ⟨[⟨"transfer".toList, "channel-7".toList⟩], "x".toList⟩ := by decide
  unfold rlSendDenom ics20SendCoinDenom at this
  rw [e] at this
  have hi : ibcSlash.isPrefixOf f3Denom.path = false := by decide
  rw [hi] at this
  simp [Denom.ibcDenom, Denom.isNative, f3Denom] at this

/-- **F5 (receive side).**  Counterparty channel identifier `mychannel00` (valid per ICS-24, not in
    ibc-go's `channel-N` format), packet denomination `transfer/mychannel00/uatom`: ICS-20 does not
    recognise a hop, treats the whole string as a base denomination and mints the voucher
    `ibc/HASH(transfer/channel-0/transfer/mychannel00/uatom)`; the rate limiter's raw string-prefix test
    fires and it charges `uatom`. -/
theorem rl_recv_full_false (hashHex : Str → Str) : ¬ rl_recv_full hashHex := by
  intro h
  have := h "transfer".toList "mychannel00".toList "transfer".toList "channel-0".toList
    "transfer/mychannel00/uatom".toList (by decide) (by decide) (by decide) (by decide) (by decide)
  unfold rlRecvDenom ics20RecvCoinDenom at this
  have e1 : ((Hop.mk "transfer".toList "mychannel00".toList).str ++ ['/']).isPrefixOf
      "transfer/mychannel00/uatom".toList = true := by decide
  have e2 : extract (List.drop ((Hop.mk "transfer".toList "mychannel00".toList).str ++ ['/']).length
      "transfer/mychannel00/uatom".toList) = ⟨[], "uatom".toList⟩ := by decide
  have e3 : extract "transfer/mychannel00/uatom".toList = ⟨[], "transfer/mychannel00/uatom".toList⟩ := by decide
  simp only [e1, e2, e3, if_true] at this
  simp [Denom.ibcDenom, Denom.isNative, Denom.hasPrefix] at this

/-- **Two-segment bases (receive side, ibc-go formatted identifiers).**  Packet denomination
    `ab/channel-1` (a native coin of the sender) received on `transfer/channel-5`: ICS-20 mints
    `ibc/HASH(transfer/channel-5/ab/channel-1)`, the rate limiter parses the prefixed string into two
    hops and an empty base and charges `ibc/HASH(transfer/channel-5/ab/channel-1/)` — a different
    denomination as soon as the hash separates the two strings (SHA-256 does; replayed in the harness). -/
theorem rl_recv_full_ibcgo_false (hashHex : Str → Str)
    (hsep : hashHex "transfer/channel-5/ab/channel-1/".toList ≠ hashHex "transfer/channel-5/ab/channel-1".toList) :
    ¬ rl_recv_full_ibcgo hashHex := by
  intro h
  have := h "transfer".toList "channel-0".toList "transfer".toList "channel-5".toList
    "ab/channel-1".toList (by decide) (by decide) (by decide) (by decide) (by decide)
  unfold rlRecvDenom ics20RecvCoinDenom at this
  have e1 : ((Hop.mk "transfer".toList "channel-0".toList).str ++ ['/']).isPrefixOf "ab/channel-1".toList = false := by decide
  have e2 : extract ((Hop.mk "transfer".toList "channel-5".toList).str ++ '/' :: "ab/channel-1".toList) =
      ⟨[⟨"transfer".toList, "channel-5".toList⟩, ⟨"ab".toList, "channel-1".toList⟩], []⟩ := by decide
  have e3 : extract "ab/channel-1".toList = ⟨[], "ab/channel-1".toList⟩ := by decide
  simp only [e1, e2, e3, Bool.false_eq_true, if_false] at this
  simp only [Denom.ibcDenom, Denom.isNative, Denom.hasPrefix, List.isEmpty_cons, Bool.false_eq_true,
    if_false, List.append_cancel_left_eq] at this
  apply hsep
  have p1 : Denom.path ⟨[⟨"transfer".toList, "channel-5".toList⟩, ⟨"ab".toList, "channel-1".toList⟩], []⟩ =
      "transfer/channel-5/ab/channel-1/".toList := by decide
  have p2 : Denom.path ⟨[⟨"transfer".toList, "channel-5".toList⟩], "ab/channel-1".toList⟩ =
      "transfer/channel-5/ab/channel-1".toList := by decide
  rw [p1, p2] at this
  exact this

/-- non-vacuity of the partial theorems: an ordinary voucher returning over its channel, and a native
    token arriving, satisfy the hypotheses. -/
example :
    (extract "transfer/channel-3/uatom".toList).validate = none ∧
    (extract "transfer/channel-3/uatom".toList).hasPrefix "transfer".toList "channel-3".toList = true ∧
    twoSegHopLike "uatom".toList = false ∧ isHopId "channel-3".toList = true ∧
    hopFreeBase "gamm/pool/1".toList = true := by decide

end IbcVerif.C42
