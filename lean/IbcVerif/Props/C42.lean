/-
  C42 — Rate limiting charges exactly the denomination ICS-20 moves (denomination part).
  Property theorems only; helper lemmas live in IbcVerif/Lemmas/Denom.lean, DenomRl.lean.

  Model: `rlSendDenom` / `rlRecvDenom` = rate-limiting/keeper/packet.go
  `ParseDenomFromSendPacket` / `ParseDenomFromRecvPacket`; `ics20SendCoinDenom` /
  `ics20RecvCoinDenom` = the coin `SendTransfer` escrows or burns (`token.ToCoin()`) and the coin
  `OnRecvPacket` unescrows or mints (transfer/keeper/relay.go); the stateful ICS-20 model
  (`Model/Ics20.lean`) is *defined* through the same two functions.

  History: on the tree as found the property was FALSE (three kernel-checked witnesses, each reproduced
  on the real code: DESIGN §6 F3 / F5 and a two-segment variant).  Two repairs were made
  (4b2f809: `Transfer` rejects base denominations that would be re-parsed as a trace; 143f4d3:
  `ParseDenomFromRecvPacket` takes ICS-20's decision on the parsed trace).  The theorems below are about
  the repaired code and are FULL; the refutations of the pre-fix parser are kept as regression theorems
  and the witnesses are replayed by the harness (`xfer` engine, group `findings`) on every run.
-/
import IbcVerif.Model.Denom
import IbcVerif.Lemmas.Denom
import IbcVerif.Lemmas.DenomRl
namespace IbcVerif.C42
open IbcVerif IbcVerif.Xfer

/-- what `Transfer` lets through for a token `d` (msg_server.go: `TokenFromCoin`,
    `ValidateBaseNotHopLike`, `packetData.ValidateBasic`; relay.go: stored vouchers):
    the base is hop-free; the hops are '/'-free with channel identifiers in ibc-go's format (a native
    token has none; a voucher's hops were produced by `ExtractDenomFromPath` and by prefixing this
    chain's own channel identifier); and the path does not start with "ibc/" (a native coin
    denomination starting with "ibc/" is looked up as a voucher by `TokenFromCoin`; a voucher's path
    starts with this chain's transfer port, which is not literally named "ibc"). -/
def SendAccepted (d : Denom) : Prop :=
  hopFreeBase d.base = true ∧
  (∀ x ∈ d.trace, '/' ∉ x.port ∧ '/' ∉ x.chan ∧ isHopId x.chan = true) ∧
  ibcSlash.isPrefixOf d.path = false

/-- **Send side (full).**  For every token `Transfer` accepts, the rate limiter charges the coin
    denomination that ICS-20 escrows or burns. -/
theorem rl_send_denom_eq (hashHex : Str → Str) (d : Denom) (h : SendAccepted d) :
    rlSendDenom hashHex d.path = ics20SendCoinDenom hashHex d := by
  obtain ⟨hb, hh, hi⟩ := h
  have hs : PathStable d :=
    pathStable_of_hopFree d (fun x hx => ⟨(hh x hx).1, (hh x hx).2.1⟩) (fun x hx => (hh x hx).2.2) hb
  unfold rlSendDenom ics20SendCoinDenom
  rw [hi, hs]
  simp

/-- every native denomination that passes `Transfer`'s new guard is accepted in the above sense
    (so the send theorem covers all natives, with any number of '/'-segments of any other shape) -/
theorem native_accepted (base : Str) (hb : hopFreeBase base = true) (hi : ibcSlash.isPrefixOf base = false) :
    SendAccepted ⟨[], base⟩ := by
  refine ⟨hb, ?_, ?_⟩
  · intro x hx; simp at hx
  · simpa [Denom.path, Denom.isNative] using hi

/-- **Receive side (full).**  For every packet denomination, on any channel pair, the rate limiter
    charges exactly the coin ICS-20 mints or unescrows: both parse the path with
    `ExtractDenomFromPath` and test the first hop of the parsed trace. -/
theorem rl_recv_denom_eq (hashHex : Str → Str) (sp sc dp dc s : Str) :
    rlRecvDenom hashHex sp sc dp dc s = ics20RecvCoinDenom hashHex sp sc dp dc s := rfl

/-! ### regression: the witnesses that refuted the property before the repairs -/

/-- the statement the pre-fix receive parser was supposed to satisfy -/
def rl_recv_full_prefix (hashHex : Str → Str) : Prop :=
  ∀ sp sc dp dc s : Str, validPortId sp = true → validChannelId sc = true →
    validPortId dp = true → isValidChannelID dc = true → (extract s).validate = none →
    rlRecvDenomPreFix hashHex sp sc dp dc s = ics20RecvCoinDenom hashHex sp sc dp dc s

/-- the same restricted to counterparties that use ibc-go's identifier format -/
def rl_recv_full_prefix_ibcgo (hashHex : Str → Str) : Prop :=
  ∀ sp sc dp dc s : Str, validPortId sp = true → isValidChannelID sc = true →
    validPortId dp = true → isValidChannelID dc = true → (extract s).validate = none →
    rlRecvDenomPreFix hashHex sp sc dp dc s = ics20RecvCoinDenom hashHex sp sc dp dc s

/-- **F5 (pre-fix).**  Counterparty channel identifier `mychannel00` (valid per ICS-24, not in
    ibc-go's `channel-N` format), packet denomination `transfer/mychannel00/uatom`: ICS-20 does not
    recognise a hop and mints `ibc/HASH(transfer/channel-0/transfer/mychannel00/uatom)`; the old raw
    string-prefix test fired and charged `uatom`. -/
theorem prefix_parser_refuted_foreign_id (hashHex : Str → Str) : ¬ rl_recv_full_prefix hashHex := by
  intro h
  have := h "transfer".toList "mychannel00".toList "transfer".toList "channel-0".toList
    "transfer/mychannel00/uatom".toList (by decide) (by decide) (by decide) (by decide) (by decide)
  unfold rlRecvDenomPreFix ics20RecvCoinDenom at this
  have e1 : ((Hop.mk "transfer".toList "mychannel00".toList).str ++ ['/']).isPrefixOf
      "transfer/mychannel00/uatom".toList = true := by decide
  have e2 : extract (List.drop ((Hop.mk "transfer".toList "mychannel00".toList).str ++ ['/']).length
      "transfer/mychannel00/uatom".toList) = ⟨[], "uatom".toList⟩ := by decide
  have e3 : extract "transfer/mychannel00/uatom".toList = ⟨[], "transfer/mychannel00/uatom".toList⟩ := by decide
  simp only [e1, e2, e3, if_true] at this
  simp [Denom.ibcDenom, Denom.isNative, Denom.hasPrefix] at this

/-- **Two-segment bases (pre-fix).**  Packet denomination `ab/channel-1` received on
    `transfer/channel-5`: ICS-20 mints `ibc/HASH(transfer/channel-5/ab/channel-1)`, the old parser
    re-parsed the prefixed string into two hops and an empty base and charged
    `ibc/HASH(transfer/channel-5/ab/channel-1/)`. -/
theorem prefix_parser_refuted_two_segment (hashHex : Str → Str)
    (hsep : hashHex "transfer/channel-5/ab/channel-1/".toList ≠ hashHex "transfer/channel-5/ab/channel-1".toList) :
    ¬ rl_recv_full_prefix_ibcgo hashHex := by
  intro h
  have := h "transfer".toList "channel-0".toList "transfer".toList "channel-5".toList
    "ab/channel-1".toList (by decide) (by decide) (by decide) (by decide) (by decide)
  unfold rlRecvDenomPreFix ics20RecvCoinDenom at this
  have e1 : ((Hop.mk "transfer".toList "channel-0".toList).str ++ ['/']).isPrefixOf "ab/channel-1".toList = false := by decide
  have e2 : extract ((Hop.mk "transfer".toList "channel-5".toList).str ++ '/' :: "ab/channel-1".toList) =
      ⟨[⟨"transfer".toList, "channel-5".toList⟩, ⟨"ab".toList, "channel-1".toList⟩], []⟩ := by decide
  have e3 : extract "ab/channel-1".toList = ⟨[], "ab/channel-1".toList⟩ := by decide
  simp only [e1, e2, e3, Bool.false_eq_true, if_false] at this
  simp only [Denom.ibcDenom, Denom.isNative, Denom.hasPrefix, List.isEmpty_cons, Bool.false_eq_true,
    if_false, List.append_cancel_left_eq] at this
  apply hsep
  have p1 : Denom.path ⟨[⟨"transfer".toList, "channel-5".toList⟩, ⟨"ab".toList, "channel-1".toList⟩], []⟩ =
      "transfer/channel-5/ab/channel-1/".toList := by decide
  have p2 : Denom.path ⟨[⟨"transfer".toList, "channel-5".toList⟩], "ab/channel-1".toList⟩ =
      "transfer/channel-5/ab/channel-1".toList := by decide
  rw [p1, p2] at this
  exact this

/-- **F3 (pre-fix).**  Without the base guard the send-side statement is false: the native coin
    `transfer/channel-7/x` (a valid IBC coin denomination) is escrowed as itself and charged as
    `ibc/HASH(transfer/channel-7/x)` … -/
theorem send_without_guard_refuted (hashHex : Str → Str) :
    ¬ (∀ d : Denom, (d.trace = [] → validIBCDenom d.base = true ∧ ibcSlash.isPrefixOf d.base = false) →
        (extract d.path).validate = none → rlSendDenom hashHex d.path = ics20SendCoinDenom hashHex d) := by
  intro h
  have := h ⟨[], "transfer/channel-7/x".toList⟩ (fun _ => ⟨by decide, by decide⟩) (by decide)
  have e : extract (Denom.path ⟨[], "transfer/channel-7/x".toList⟩) =
      ⟨[⟨"transfer".toList, "channel-7".toList⟩], "x".toList⟩ := by decide
  unfold rlSendDenom ics20SendCoinDenom at this
  rw [e] at this
  have hi : ibcSlash.isPrefixOf (Denom.path ⟨[], "transfer/channel-7/x".toList⟩) = false := by decide
  rw [hi] at this
  simp [Denom.ibcDenom, Denom.isNative] at this

/-- … and the guard of fix 4b2f809 rejects exactly that coin (and the two-segment one). -/
theorem witnesses_now_rejected :
    hopFreeBase "transfer/channel-7/x".toList = false ∧ hopFreeBase "ab/channel-1".toList = false ∧
    hopFreeBase "transfer/07-tendermint-0/ufoo".toList = false := by decide

/-- non-vacuity: ordinary natives with several '/'-segments and a two-hop voucher are accepted. -/
example :
    SendAccepted ⟨[], "gamm/pool/1".toList⟩ ∧ SendAccepted ⟨[], "factory/cosmos1abc/utok".toList⟩ ∧
    SendAccepted ⟨[⟨"transfer".toList, "channel-3".toList⟩, ⟨"transfer".toList, "07-tendermint-1".toList⟩], "uatom".toList⟩ := by
  refine ⟨native_accepted _ (by decide) (by decide), native_accepted _ (by decide) (by decide), by decide, ?_, by decide⟩
  intro x hx
  simp only [List.mem_cons, List.not_mem_nil, or_false] at hx
  rcases hx with rfl | rfl <;> decide

end IbcVerif.C42
