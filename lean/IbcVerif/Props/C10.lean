/-
  C10 — IBC v2 multi-payload receives are all-or-nothing.

  `recvLoop` is the `for` loop of RecvPacket (04-channel/v2/keeper/msg_server.go): it runs the
  payload callbacks in order on the shared cache context; `rl.isSuccess`, `rl.acks`, `rl.ran` are its
  result.  Every per-payload result (status, ack bytes, number of writes) is an input.
-/
import IbcVerif.Lemmas.ChainRecv
namespace IbcVerif.C10
open IbcVerif IbcVerif.Chain

/-- some payload failed: NONE of the applications' writes persist and the acknowledgement is exactly
    the single universal error acknowledgement (the receipt is still written). -/
theorem v2_any_failure (s s' : ChainState) (env : Env) (p : PacketV2) (apps : List AppV2) (r : String)
    (h : step s ⟨env, .recvV2 p apps⟩ = (s', .ok r)) :
    ∃ rl, recvLoop env.tag p.payloads.length 0 p.payloads apps ⟨s.app, [], false, true, 0⟩ = .ok rl ∧
      (rl.isSuccess = false →
        s'.app = s.app ∧ s'.ackV2.get (p.dst, p.seq) = some [sentinelAck] ∧
        s'.receiptV2.get (p.dst, p.seq) ≠ none) := by
  obtain ⟨s1, rl, h1, hl, happ, _, hrc, hcase⟩ := recvV2_shape h
  obtain ⟨_, _, rfl⟩ := recvPacketV2_ok h1
  refine ⟨rl, hl, fun hf => ?_⟩
  have hacks := recvLoop_fail _ _ _ _ _ hl rfl hf
  refine ⟨by rw [happ, hf]; simp, ?_, by rw [hrc]; simp⟩
  rcases hcase with ⟨_, hack, _⟩ | ⟨hasync, _⟩
  · rw [hack, hacks]; simp
  · -- an asynchronous result never comes with a failure: the failing branch keeps isAsync of the
    -- earlier payloads, and an earlier async payload is only possible for single-payload packets
    rcases recvLoop_async _ _ _ _ _ hl hasync with h' | h'
    · cases h'
    · -- single payload: failure sets isAsync := st.isAsync = false
      exfalso
      revert hl
      match hp : p.payloads with
      | [] => simp [recvLoop]; intro h; subst h; simp at hf
      | [pd] =>
        simp only [recvLoop]
        intro hl
        split at hl
        · cases hl
        · split at hl
          · simp only [Except.ok.injEq] at hl; subst hl; simp at hasync
          · split at hl
            · cases hl
            · split at hl
              · split at hl
                · cases hl
                · simp only [recvLoop, Except.ok.injEq] at hl; subst hl; simp at hf
              · simp only [recvLoop, Except.ok.injEq] at hl; subst hl; simp at hf
      | _ :: _ :: _ => rw [hp] at h'; simp at h'

/-- every payload succeeded: all their writes persist (`rl.app` is the application store after all
    callbacks), every callback ran (`rl.ran = #payloads`), and — unless asynchronous — the
    acknowledgement holds exactly one app acknowledgement per payload, in payload order, none of
    which is the error sentinel. -/
theorem v2_all_success (s s' : ChainState) (env : Env) (p : PacketV2) (apps : List AppV2) (r : String)
    (h : step s ⟨env, .recvV2 p apps⟩ = (s', .ok r)) :
    ∃ rl, recvLoop env.tag p.payloads.length 0 p.payloads apps ⟨s.app, [], false, true, 0⟩ = .ok rl ∧
      (rl.isSuccess = true →
        s'.app = rl.app ∧ rl.acks.length = p.payloads.length ∧ (∀ a ∈ rl.acks, a ≠ sentinelAck) ∧
        (rl.isAsync = false → s'.ackV2.get (p.dst, p.seq) = some rl.acks)) := by
  obtain ⟨s1, rl, h1, hl, happ, _, _, hcase⟩ := recvV2_shape h
  obtain ⟨_, _, rfl⟩ := recvPacketV2_ok h1
  refine ⟨rl, hl, fun hs => ?_⟩
  obtain ⟨_, hlen, _, hsent, _⟩ := recvLoop_success _ _ _ _ _ hl hs
  refine ⟨by rw [happ, hs]; simp, by simpa using hlen, ?_, ?_⟩
  · intro a ha
    rcases hsent a ha with h' | h'
    · simp at h'
    · exact h'
  · intro hna
    rcases hcase with ⟨_, hack, _⟩ | ⟨hasync, _⟩
    · rw [hack]; simp
    · rw [hna] at hasync; cases hasync

/-- an asynchronous acknowledgement is possible only for single-payload packets. -/
theorem v2_async_only_single (s s' : ChainState) (env : Env) (p : PacketV2) (apps : List AppV2) (r : String)
    (h : step s ⟨env, .recvV2 p apps⟩ = (s', .ok r)) (hasync : s'.asyncV2.get (p.dst, p.seq) ≠ s.asyncV2.get (p.dst, p.seq)) :
    p.payloads.length ≤ 1 := by
  obtain ⟨s1, rl, h1, hl, _, _, _, hcase⟩ := recvV2_shape h
  rcases hcase with ⟨_, _, hsame, _⟩ | ⟨ha, _⟩
  · rw [hsame] at hasync; exact absurd rfl hasync
  · rcases recvLoop_async _ _ _ _ _ hl ha with h' | h'
    · cases h'
    · exact h'

/-- `writeAcknowledgement` validates what it writes: a non-empty list of non-empty app acks, the
    sentinel only as a single element, and for a success ack one entry per payload. -/
theorem writeAck_validates (s s' : ChainState) (p : PacketV2) (acks : List Hex) (h : writeAckV2 s p acks = .ok s') :
    acks ≠ [] ∧ (∀ a ∈ acks, a ≠ "") ∧ (1 < acks.length → ∀ a ∈ acks, a ≠ sentinelAck) ∧
    (acks.head? ≠ some sentinelAck → acks.length = p.payloads.length) := by
  obtain ⟨hv, hlen, _⟩ := writeAckV2_ok h
  unfold ackValidV2 at hv
  simp only [Bool.and_eq_true, Bool.not_eq_true', List.isEmpty_eq_false_iff, List.all_eq_true, decide_eq_true_eq,
    Bool.or_eq_true, Nat.le_iff_lt_add_one] at hv
  obtain ⟨⟨h1, h2⟩, h3⟩ := hv
  refine ⟨h1, h2, ?_, ?_⟩
  · intro hl a ha
    rcases h3 with h' | h'
    · omega
    · exact h' a ha
  · intro hh
    apply hlen
    unfold ackSuccessV2; simpa using hh

example : Inv Chain.init := Inv.init

end IbcVerif.C10
