/-
  C23 — Tendermint updates keep consensus timestamps increasing with height.
  Property theorems only (model: IbcVerif/Model/Tm*.lean; lemmas: IbcVerif/Lemmas/Tm*.lean).
  Header contents (height, time, hashes, trusted height) and the light-client verdict `valid` are
  universally quantified; `IsPrev`/`IsNext` are the true stored neighbours of a height.
-/
import IbcVerif.Lemmas.TmHist
namespace IbcVerif.C23
open IbcVerif IbcVerif.Tm

/-- what is known whenever `UpdateClient` stores a consensus state at a height that had none -/
theorem update_new_facts (s : Store) (hs : StoreInv s) (now : Int) (self : Height) (hdr : Header) (valid : Bool)
    (hn : ¬ s.has hdr.height) (hh : (updateStore s now self hdr valid).1.has hdr.height) :
    s.status now = .active ∧ verifyHeader s hdr valid = none ∧ checkHeaderMisbehaviour s hdr = false ∧
    (updateStore s now self hdr valid).1.getCons hdr.height = some hdr.cons ∧
    (∀ h c, h ≠ hdr.height → (updateStore s now self hdr valid).1.getCons h = some c → s.getCons h = some c) ∧
    (∀ h c, s.getCons h = some c → (updateStore s now self hdr valid).1.getCons h = some c ∨ IsOldest s h) := by
  rcases updateStore_cases s hs now self hdr valid with ⟨e, _⟩ | ⟨cs, hc, hact, hv, ⟨_, e⟩ | ⟨hchk, s1, hp, hcase⟩⟩
  · rw [e] at hh; exact absurd hh hn
  · rw [e] at hh; exact absurd hh hn
  · obtain ⟨s1', hp', _, _, sub⟩ := storeInv_pruneOldest s hs cs.trustingPeriod now
    rw [hp] at hp'; cases hp'
    have kept : ∀ h c, s.getCons h = some c → s1.getCons h = some c ∨ IsOldest s h := by
      intro h c e
      rcases pruneOldest_spec s hs.metaInv cs.trustingPeriod now with ⟨m, _, ho, _, _, hp'⟩ | ⟨hp', _⟩
      · rw [hp] at hp'; have e1 := Option.some.inj hp'; subst e1
        by_cases eq : m = h
        · right; rw [← eq]; exact ho
        · left; rw [getCons_delete]; simp [eq, e]
      · rw [hp] at hp'; have e1 := Option.some.inj hp'; subst e1; exact Or.inl e
    rcases hcase with ⟨hdup, e⟩ | ⟨hnew, e⟩
    · rw [e] at hh
      obtain ⟨c', hc'⟩ := getCons_of_has hh
      exact absurd (has_of_getCons (sub _ _ hc')) hn
    · rw [e]
      refine ⟨hact, hv, hchk, by rw [getCons_insert]; simp, ?_, ?_⟩
      · intro h c ne e'
        rw [getCons_insert] at e'
        simp only [Ne.symm ne, ↓reduceIte] at e'
        exact sub h c e'
      · intro h c e'
        rcases kept h c e' with k | k
        · left
          rw [getCons_insert]
          have ne : hdr.height ≠ h := by intro eq; rw [eq] at hn; exact hn (has_of_getCons e')
          simp only [ne, ↓reduceIte]; exact k
        · exact Or.inr k

/-- **An update never stores a consensus state whose timestamp is not strictly between the timestamps
    of its stored neighbours** (neighbours taken in the store the header was checked against): for every
    store satisfying the invariant, every header (past height, gap, future height, any time) and either
    verdict. -/
theorem update_stores_between (s : Store) (hs : StoreInv s) (now : Int) (self : Height) (hdr : Header) (valid : Bool)
    (hn : ¬ s.has hdr.height) (hh : (updateStore s now self hdr valid).1.has hdr.height) :
    (updateStore s now self hdr valid).1.getCons hdr.height = some hdr.cons ∧
    (∀ p c, IsPrev s hdr.height p → s.getCons p = some c → c.ts < hdr.ts) ∧
    (∀ n c, IsNext s hdr.height n → s.getCons n = some c → hdr.ts < c.ts) := by
  have ⟨_, _, hchk, hst, _, _⟩ := update_new_facts s hs now self hdr valid hn hh
  have hnone : s.getCons hdr.height = none := by
    cases hg : s.getCons hdr.height with
    | none => rfl
    | some c => exact absurd (has_of_getCons hg) hn
  have neg : ¬ _ := fun c => absurd ((checkHeaderMisbehaviour_iff s hs.metaInv hdr).mpr c) (by rw [hchk]; simp)
  simp only [not_or, not_and, not_exists] at neg
  have n2 := neg.2 hnone
  refine ⟨hst, ?_, ?_⟩
  · intro p c hp hc; have := n2.1 p c hp hc; simpa using this
  · intro n c hnx hc; have := n2.2 n c hnx hc; simpa using this

/-- the same with the neighbours taken in the store *after* the update (pruning of the oldest expired
    state happens between the check and the write; it never changes the neighbours of the new height) -/
theorem update_stores_between_post (s : Store) (hs : StoreInv s) (now : Int) (self : Height) (hdr : Header) (valid : Bool)
    (hn : ¬ s.has hdr.height) (hh : (updateStore s now self hdr valid).1.has hdr.height) :
    (∀ p c, IsPrev (updateStore s now self hdr valid).1 hdr.height p →
        (updateStore s now self hdr valid).1.getCons p = some c → c.ts < hdr.ts) ∧
    (∀ n c, IsNext (updateStore s now self hdr valid).1 hdr.height n →
        (updateStore s now self hdr valid).1.getCons n = some c → hdr.ts < c.ts) := by
  have ⟨_, _, _, _, sub, kept⟩ := update_new_facts s hs now self hdr valid hn hh
  have ⟨_, bp, bn⟩ := update_stores_between s hs now self hdr valid hn hh
  constructor
  · intro p c hp hc
    have ne : p ≠ hdr.height := by intro e; have := hp.2.1; rw [e] at this; omega
    have hcs := sub p c ne hc
    apply bp p c _ hcs
    refine ⟨has_of_getCons hcs, hp.2.1, ?_⟩
    intro q hq lt
    obtain ⟨cq, hcq⟩ := getCons_of_has hq
    rcases kept q cq hcq with k | k
    · exact hp.2.2 q (has_of_getCons k) lt
    · exact k.2 p (has_of_getCons hcs)
  · intro n c hnx hc
    have ne : n ≠ hdr.height := by intro e; have := hnx.2.1; rw [e] at this; omega
    have hcs := sub n c ne hc
    apply bn n c _ hcs
    refine ⟨has_of_getCons hcs, hnx.2.1, ?_⟩
    intro q hq lt
    obtain ⟨cq, hcq⟩ := getCons_of_has hq
    rcases kept q cq hcq with k | k
    · exact hnx.2.2 q (has_of_getCons k) lt
    · -- q would be the oldest stored height, yet it lies above the new height, which lies above its trusted height
      exfalso
      have ⟨_, hv, _, _, _, _⟩ := update_new_facts s hs now self hdr valid hn hh
      obtain ⟨c0, ht, _, _, _, hlt, _⟩ := (verifyHeader_none_iff s hdr valid).mp hv
      have := k.2 hdr.trusted (has_of_getCons ht)
      omega

/-- **An update that would break this freezes the client instead**: an Active client, a header that
    passes verification, for a height that is not stored, whose time is not after the previous
    neighbour's or not before the next neighbour's ⇒ the client is frozen and nothing else is written. -/
theorem ts_violation_freezes (s : Store) (hs : StoreInv s) (now : Int) (self : Height) (hdr : Header) (valid : Bool)
    (cs : ClientState) (hc : s.client = some cs) (hact : s.status now = .active)
    (hv : verifyHeader s hdr valid = none) (hnew : s.getCons hdr.height = none)
    (hbad : (∃ p c, IsPrev s hdr.height p ∧ s.getCons p = some c ∧ ¬ c.ts < hdr.ts) ∨
            (∃ n c, IsNext s hdr.height n ∧ s.getCons n = some c ∧ ¬ hdr.ts < c.ts)) :
    updateStore s now self hdr valid = ({ s with client := some { cs with frozen := frozenHeight } }, "frozen") := by
  have mis : checkHeaderMisbehaviour s hdr = true :=
    (checkHeaderMisbehaviour_iff s hs.metaInv hdr).mpr (Or.inr ⟨hnew, hbad⟩)
  rcases updateStore_cases s hs now self hdr valid with ⟨_, h | h⟩ | ⟨cs', hc', _, _, ⟨_, e⟩ | ⟨hm, _⟩⟩
  · exact absurd hact h
  · exact absurd hv h
  · rw [hc] at hc'; cases hc'; exact e
  · rw [mis] at hm; cases hm

/-- **Over all update histories** (all orders of header submission, duplicates, conflicting headers,
    gap-filling and past heights with arbitrary times, misbehaviour, time advances, pruning), stored
    timestamps strictly increase with height in every client. -/
theorem ts_mono_updates (ops : List Op) (h : ∀ op ∈ ops, op.isUpdateLike = true) (cid : Nat) :
    TsMono ((run World.empty ops).client cid) :=
  run_wtsMono ops World.empty winv_empty wtsMono_empty h cid

/-- inductive form: every update-like operation preserves monotonicity from any consistent world -/
theorem ts_mono_step (w : World) (hw : WInv w) (hm : WTsMono w) (op : Op) (hop : op.isUpdateLike = true) :
    WTsMono (step w op).1 := step_wtsMono w hw hm op hop

/-- Recovery and upgrade append one consensus state above the latest height. ibc-go does **not** compare
    its timestamp with the stored ones, so monotonicity survives them exactly under this hypothesis
    (outside C23's quantifier, which is about header submissions): -/
theorem ts_mono_recover_partial (sj sb : Store) (hs : StoreInv sj) (hb : MetaInv sb) (hm : TsMono sj) (now : Int)
    (hyp : ∀ scs c, sb.client = some scs → sb.getCons scs.latest = some c →
            ∀ h c0, sj.getCons h = some c0 → c0.ts < c.ts) :
    TsMono (recoverStore sj sb now).1 := by
  rcases recoverStore_cases sj sb hb now with e | ⟨cs, scs, c, ph, pt, hc, hsc, _, _, hlt, _, hg, _, _, e⟩
  · rw [e]; exact hm
  · rw [e]
    apply tsMono_insert sj hm
    · intro h c0 e0 _; exact hyp scs c hsc hg h c0 e0
    · intro h c0 e0 lt
      have := hs.below cs hc h (has_of_getCons e0); omega

theorem ts_mono_upgrade_partial (s : Store) (hs : StoreInv s) (hm : TsMono s) (now : Int) (self : Height) (u : UpgradeReq)
    (hyp : ∀ h c0, s.getCons h = some c0 → c0.ts < u.newCons.ts) :
    TsMono (upgradeStore s now self u).1 := by
  rcases upgradeStore_cases s now self u with e | ⟨cs, hc, _, _, _, hlt, _, _, _, _, _, _, e⟩
  · rw [e]; exact hm
  · rw [e]
    apply tsMono_insert s hm
    · intro h c0 e0 _; exact hyp h c0 e0
    · intro h c0 e0 lt
      have := hs.below cs hc h (has_of_getCons e0)
      have e1 : (upgradedClient cs u).latest = u.newClient.latest := rfl
      rw [e1] at lt; omega

/-- the statement "monotone after *every* operation" in full … -/
def ts_mono_all_ops_full : Prop :=
  ∀ (w : World), WInv w → WTsMono w → ∀ op, WTsMono (step w op).1

/-- … is false of the code: a recovery whose substitute's latest consensus state is older than a
    consensus state of the (frozen) subject is accepted. Witness: subject with (1-5, ts 3·10⁹) frozen,
    substitute at 1-9 with ts 2·10⁹. (Not a violation of C23 — no header update is involved — but the
    reason the history theorem is stated for update histories.) -/
theorem ts_mono_all_ops_full_false : ¬ ts_mono_all_ops_full := by
  intro h
  let nv := String.ofList (List.replicate 64 'a')
  let rt := String.ofList (List.replicate 64 'c')
  let cs (latest : Height) (frozen : Height) : ClientState :=
    { chainId := "simchain-1", tlNum := 1, tlDen := 3, trustingPeriod := 1000000000000, unbondingPeriod := 1500000000000,
      maxClockDrift := 10000000000, frozen := frozen, latest := latest, proofSpecs := some "sdk", upgradePath := ["upgrade"],
      allowExpiry := false, allowMisb := false }
  let w : World :=
    { clients := [(0, initClient (cs ⟨1, 5⟩ ⟨0, 1⟩) ⟨3000000000, rt, nv⟩ 3000000001 ⟨1, 1⟩),
                  (1, initClient (cs ⟨1, 9⟩ ⟨0, 0⟩) ⟨2000000000, rt, nv⟩ 3000000001 ⟨1, 1⟩)],
      nextSeq := 2, now := 3000000002, self := ⟨1, 2⟩ }
  have hw : WInv w := by
    refine ⟨fun cid => ?_, fun n hn => ?_⟩
    · by_cases e0 : cid = 0
      · subst e0; exact storeInv_initClient _ _ _ _
      · by_cases e1 : cid = 1
        · subst e1; exact storeInv_initClient _ _ _ _
        · have : w.client cid = Store.empty := by
            simp [World.client, w, FMap.get, Ne.symm e0, Ne.symm e1]
          rw [this]; exact storeInv_empty
    · have hn' : 2 ≤ n := hn
      simp [World.client, w, FMap.get]
      have a : ¬ 0 = n := by omega
      have b : ¬ 1 = n := by omega
      simp [a, b]
  have hm : WTsMono w := by
    intro cid
    by_cases e0 : cid = 0
    · subst e0; exact tsMono_init _ _ _ _
    · by_cases e1 : cid = 1
      · subst e1; exact tsMono_init _ _ _ _
      · have : w.client cid = Store.empty := by
          simp [World.client, w, FMap.get, Ne.symm e0, Ne.symm e1]
        rw [this]; intro _ _ _ _ e; cases e
  have bad := h w hw hm (.recover 0 1) 0 ⟨1, 5⟩ ⟨1, 9⟩ ⟨3000000000, rt, nv⟩ ⟨2000000000, rt, nv⟩
  have e1 : ((step w (.recover 0 1)).1.client 0).getCons ⟨1, 5⟩ = some ⟨3000000000, rt, nv⟩ := by decide
  have e2 : ((step w (.recover 0 1)).1.client 0).getCons ⟨1, 9⟩ = some ⟨2000000000, rt, nv⟩ := by decide
  have := bad e1 e2 (by decide)
  simp at this

/-! ### non-vacuity: a gap-filling header with a time beyond its next neighbour freezes the client -/

def exNv : String := String.ofList (List.replicate 64 'a')
def exCs : ClientState :=
  { chainId := "simchain-1", tlNum := 1, tlDen := 3, trustingPeriod := 1000000000000, unbondingPeriod := 1500000000000,
    maxClockDrift := 10000000000, frozen := ⟨0, 0⟩, latest := ⟨1, 5⟩, proofSpecs := some "sdk", upgradePath := ["upgrade"],
    allowExpiry := false, allowMisb := false }
def exHdr (h : UInt64) (ts : Int) : Header :=
  { height := ⟨1, h⟩, ts := ts, root := "r", nvh := exNv, trusted := ⟨1, 5⟩, tvals := some exNv, parseOK := true,
    blockHash := "bb", commitOK := true, blockIdOK := true, basicOK := true }
def exW : World := (createClient ⟨[], 0, 2000000000, ⟨1, 9⟩⟩ exCs ⟨1000000000, String.ofList (List.replicate 64 'c'), exNv⟩).1

example :
    ((run exW [.update 0 (exHdr 9 1000000900) true]).client 0).iterAsc = [⟨1, 5⟩, ⟨1, 9⟩] ∧
    (step (run exW [.update 0 (exHdr 9 1000000900) true]) (.update 0 (exHdr 7 1000000900) true)).2 = "frozen" ∧
    (step (run exW [.update 0 (exHdr 9 1000000900) true]) (.update 0 (exHdr 7 1000000500) true)).2 = "updated" := by
  decide

end IbcVerif.C23
