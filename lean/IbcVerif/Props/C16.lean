/-
  C16 — Store key spaces never collide and clients stay in their namespace.
  Keys are the real byte layouts of 24-host (constants generated from /repo).  Identifiers range
  over *all* byte strings accepted by the 24-host alphabet (`IdOK`), sequences over all naturals
  (v1, decimal) resp. all uint64 (v2, big-endian).
-/
import IbcVerif.Lemmas.Keys
namespace IbcVerif.C16
open IbcVerif IbcVerif.Keys

/-- v1: distinct (kind, port, channel, sequence) tuples have distinct keys. -/
theorem v1_keys_injective (k k' : KindV1) (p c p' c' : Bytes) (n n' : Nat)
    (hp : IdOK p) (hc : IdOK c) (hp' : IdOK p') (hc' : IdOK c')
    (h : v1Key k p c n = v1Key k' p' c' n') :
    k = k' ∧ p = p' ∧ c = c' ∧ (k.hasSeq = true → n = n') := by
  have hs := joinOn_inj slash _ _ (v1Segs_ne_nil k p c n) (v1Segs_ne_nil k' p' c' n')
    (v1Segs_slash_free k p c n hp hc) (v1Segs_slash_free k' p' c' n' hp' hc') h
  simp only [v1Segs, channelPathSegs, List.cons_append, List.nil_append, List.cons.injEq, true_and] at hs
  obtain ⟨hw, hpp, hcc, hrest⟩ := hs
  have hk := word_inj k k' hw
  subst hk
  refine ⟨rfl, hpp, hcc, ?_⟩
  intro hseq
  simp only [hseq, if_true, List.cons.injEq, and_true, true_and] at hrest
  exact decBytes_inj hrest

/-- v2: distinct (kind, client, sequence) tuples have distinct keys. -/
theorem v2_keys_injective (k k' : KindV2) (id id' : Bytes) (n n' : Nat) (hn : n < 2^64) (hn' : n' < 2^64)
    (h : v2Key k id n = v2Key k' id' n') : k = k' ∧ id = id' ∧ n = n' := by
  unfold v2Key v2PrefixKey at h
  have hl : (id ++ [k.byte]).length = (id' ++ [k'.byte]).length := by
    have := congrArg List.length h
    simp only [List.length_append, be64_length, List.length_cons, List.length_nil] at this ⊢
    omega
  obtain ⟨h1, h2⟩ := List.append_inj h hl
  have hl2 : id.length = id'.length := by simpa using hl
  obtain ⟨h3, h4⟩ := List.append_inj h1 hl2
  exact ⟨kindByte_inj _ _ (by simpa using h4), h3, be64_inj hn hn' h2⟩

/-- a v1 key never equals a v2 key (both live in the same `ibc` store). -/
theorem v1_v2_disjoint (k : KindV1) (p c : Bytes) (n : Nat) (k' : KindV2) (id : Bytes) (m : Nat)
    (hp : IdOK p) (hc : IdOK c) : v1Key k p c n ≠ v2Key k' id m := by
  intro h
  have hm : k'.byte ∈ v2Key k' id m := by simp [v2Key, v2PrefixKey]
  rw [← h] at hm
  rcases v1Key_bytes k p c n hp hc _ hm with r | r
  · exact kindByte_ne_slash k' r
  · rw [kindByte_not_id] at r; cases r

/-- v2 prefix iteration is confined: a stored v2 key that starts with the iteration prefix of
    (kind, id) belongs to exactly that kind and that identifier ("channel-1" never matches
    "channel-10", and a receipt prefix never matches a commitment key). -/
theorem v2_prefix_confined (k k' : KindV2) (id id' : Bytes) (n : Nat) (hid : IdOK id) (hid' : IdOK id')
    (h : v2PrefixKey k id <+: v2Key k' id' n) : k = k' ∧ id = id' := by
  obtain ⟨t, ht⟩ := h
  unfold v2Key v2PrefixKey at ht
  rw [List.append_assoc, List.append_assoc] at ht
  rcases List.append_eq_append_iff.mp ht with ⟨a, e1, e2⟩ | ⟨a, e1, e2⟩
  · cases a with
    | nil =>
      simp only [List.append_nil] at e1
      simp only [List.nil_append, List.cons_append, List.cons.injEq] at e2
      exact ⟨kindByte_inj _ _ e2.1, e1.symm⟩
    | cons x xs =>
      simp only [List.cons_append, List.cons.injEq] at e2
      have : x ∈ id' := e1 ▸ List.mem_append_right id List.mem_cons_self
      have := hid'.2 x this
      rw [← e2.1, kindByte_not_id] at this; cases this
  · cases a with
    | nil =>
      simp only [List.append_nil] at e1
      simp only [List.nil_append, List.cons_append, List.cons.injEq] at e2
      exact ⟨(kindByte_inj _ _ e2.1).symm, e1⟩
    | cons x xs =>
      simp only [List.cons_append, List.cons.injEq] at e2
      have : x ∈ id := e1 ▸ List.mem_append_right id' List.mem_cons_self
      have := hid.2 x this
      rw [← e2.1, kindByte_not_id] at this; cases this

/-- v1 prefix iteration (`PacketCommitmentPrefixKey(port, channel)`) is confined to that channel. -/
theorem v1_prefix_confined (k k' : KindV1) (p c p' c' : Bytes) (n : Nat) (hk' : k'.hasSeq = true)
    (hp : IdOK p) (hc : IdOK c) (hp' : IdOK p') (hc' : IdOK c')
    (h : v1PrefixKey k p c <+: v1Key k' p' c' n) : k = k' ∧ p = p' ∧ c = c' := by
  simp only [v1PrefixKey, v1Key, v1Segs, channelPathSegs, hk', if_true, List.cons_append, List.nil_append, joinOn] at h
  obtain ⟨h1, h⟩ := prefix_sep slash _ _ _ _ (word_slash_free k) (word_slash_free k') h
  obtain ⟨_, h⟩ := prefix_sep slash _ _ _ _ ports_slash_free ports_slash_free h
  obtain ⟨h2, h⟩ := prefix_sep slash _ _ _ _ hp.slash_free hp'.slash_free h
  obtain ⟨_, h⟩ := prefix_sep slash _ _ _ _ channels_slash_free channels_slash_free h
  obtain ⟨h3, _⟩ := prefix_sep slash _ _ _ _ hc.slash_free hc'.slash_free (by
    -- pad the shorter side with an explicit empty tail so that both have the `s ++ sep :: R` shape
    obtain ⟨t, ht⟩ := h
    exact ⟨t, by simpa [List.append_assoc] using ht⟩ : (c ++ slash :: Gen.keySequencePrefix) <+: (c' ++ slash :: (Gen.keySequencePrefix ++ slash :: decBytes n)))
  exact ⟨word_inj _ _ h1, h2, h3⟩

/-- client namespaces: the prefix store of client `id` (`clients/{id}/`) contains a full client key of
    client `id'` only if `id = id'`; so an operation that writes through the prefix store of its
    target can never touch another client's entries. -/
theorem client_store_confined (id id' path : Bytes) (hid : IdOK id) (hid' : IdOK id')
    (h : clientStorePrefix id <+: fullClientKey id' path) : id = id' := by
  simp only [clientStorePrefix, fullClientKey, List.append_assoc, List.singleton_append] at h
  obtain ⟨_, h⟩ := prefix_sep slash _ _ _ _ clients_slash_free clients_slash_free h
  have : (id ++ slash :: []) <+: (id' ++ slash :: path) := h
  exact (prefix_sep slash _ _ _ _ hid.slash_free hid'.slash_free this).1

/-- the shared next-sequence-send key is injective in the identifier. -/
theorem nextSeqSend_key_injective (id id' : Bytes) (h : nextSeqSendKey id = nextSeqSendKey id') : id = id' := by
  unfold nextSeqSendKey at h
  exact List.append_cancel_left h

/-- async-packet keys: injective for a *fixed-length* identifier pair, and … -/
theorem async_keys_injective_same_len (id id' : Bytes) (n n' : Nat) (hn : n < 2^64) (hn' : n' < 2^64)
    (h : asyncKey id n = asyncKey id' n') : id = id' ∧ n = n' := by
  unfold asyncKey asyncPrefixKey at h
  have hl : (id ++ Gen.v2KeyAsyncPacket).length = (id' ++ Gen.v2KeyAsyncPacket).length := by
    have := congrArg List.length h
    simp only [List.length_append, be64_length] at this ⊢
    omega
  obtain ⟨h1, h2⟩ := List.append_inj h hl
  have hl2 : id.length = id'.length := by simpa using hl
  exact ⟨(List.append_inj h1 hl2).1, be64_inj hn hn' h2⟩

/-- FULL statement for the async-packet prefix (kept visible): iteration over the async packets of
    one identifier returns only that identifier's entries, for all valid identifiers. -/
def async_prefix_confined_full : Prop :=
  ∀ (id id' : Bytes) (n : Nat), IdOK id → IdOK id' →
    ((asyncPrefixKey id <+: asyncKey id' n) ∨ (∃ k, asyncPrefixKey id <+: v2Key k id' n)) → id = id'

/-- It is FALSE for arbitrary valid identifiers: the suffix word `async_packet` lies inside the
    identifier alphabet, so the async prefix of `ab` is a prefix of every v2 key of the (valid)
    identifier `abasync_packet`.  (`getAllPacketStateForClient` then panics in
    `extractSequenceFromKey`: 9 trailing bytes.)  Kernel-checked witness. -/
theorem async_prefix_confined_full_false : ¬ async_prefix_confined_full := by
  intro h
  have := h [97, 98] ([97, 98] ++ Gen.v2KeyAsyncPacket) 0 (by decide) (by decide)
    (Or.inr ⟨KindV2.commitment, by decide⟩)
  revert this; decide

/-- identifiers produced by ibc-go's generators: `<word>-<decimal>` whose last segment is a number -/
def GeneratedId (id : Bytes) : Prop := ∃ (w : Bytes) (n : Nat), id = w ++ [45] ++ decBytes n

/-- PARTIAL (what holds): for identifiers that end in a decimal digit — in particular every
    generated `channel-N` / `<client-type>-N` — the async prefix of `id` can only be a prefix of
    keys of an identifier that *extends* `id ++ "async_packet"`, never of the v2 / async keys of a
    different identifier of the same length, and never of `id`'s own public keys. -/
theorem async_prefix_confined_partial (id id' : Bytes) (n : Nat) (hlen : id.length = id'.length)
    (h : asyncPrefixKey id <+: asyncKey id' n) : id = id' := by
  obtain ⟨t, ht⟩ := h
  unfold asyncKey asyncPrefixKey at ht
  rw [List.append_assoc, List.append_assoc] at ht
  exact (List.append_inj ht hlen).1

/-- non-vacuity: concrete valid identifiers -/
example : IdOK [99, 104, 97, 110, 110, 101, 108, 45, 49] := by decide   -- "channel-1"
example : v2PrefixKey .commitment [99, 45, 49] <+: v2Key .commitment [99, 45, 49] 7 := by decide

end IbcVerif.C16
