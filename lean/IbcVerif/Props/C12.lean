/-
  C12 — Channel handshake state machine (single-chain part; the two-chain agreement statement needs
  the honest-light-client world model and is not covered here).

  The handlers are modules/core/04-channel/keeper/handshake.go behind the msg server
  (write-then-callback order for ACK / CONFIRM: a callback error reverts the transaction).
  Proof verdicts are inputs: the theorems say what a handler does for every verdict.
-/
import IbcVerif.Lemmas.ChainInv3
namespace IbcVerif.C12
open IbcVerif IbcVerif.Chain

/-- one step, from any state reachable by a history, changes an existing channel end only along
    INIT→OPEN, TRYOPEN→OPEN, or (not CLOSED)→CLOSED; ordering, counterparty port and connection hops
    never change; version and counterparty channel id change only in the INIT→OPEN step (ACK). -/
theorem chan_state_transitions (ops : List Op) (op : Op) (port chan : Id) (ch : Channel)
    (hc : (run init ops).chan.get (port, chan) = some ch) :
    ∃ ch', (step (run init ops) op).1.chan.get (port, chan) = some ch' ∧
      ch'.ordering = ch.ordering ∧ ch'.cpPort = ch.cpPort ∧ ch'.hops = ch.hops ∧
      ChanTrans ch.state ch'.state ∧
      ((ch'.version ≠ ch.version ∨ ch'.cpChan ≠ ch.cpChan) → ch.state = .init ∧ ch'.state = .opened) := by
  have hi := inv_run_init ops
  have ht : Tr (run init ops) (step (run init ops) op).1 := step_tr (out := (step (run init ops) op).2) rfl
  rcases ht.chanOld port chan ch hc with h | h
  · exact absurd h (chan_fresh hi (by rw [hc]; simp))
  · exact h

/-- `ChanTrans` is exactly the allowed relation: in particular CLOSED is terminal. -/
theorem closed_is_terminal (b : ChanState) (h : ChanTrans .closed b) : b = .closed := by
  rcases h with h | ⟨h, _⟩ | ⟨h, _⟩ | ⟨_, h⟩
  · exact h.symm
  · cases h
  · cases h
  · exact h

/-- an OPEN end can only stay OPEN or become CLOSED. -/
theorem open_only_closes (b : ChanState) (h : ChanTrans .opened b) : b = .opened ∨ b = .closed := by
  rcases h with h | ⟨h, _⟩ | ⟨h, _⟩ | ⟨_, h⟩
  · exact .inl h.symm
  · cases h
  · cases h
  · exact .inr h

/-- a channel end that did not exist before a step is created in INIT or TRYOPEN, under the freshly
    generated identifier, with all three sequence counters at 1. -/
theorem new_channel_starts_init_or_tryopen (s : ChainState) (op : Op) (port chan : Id) (ch' : Channel)
    (h0 : s.chan.get (port, chan) = none) (h1 : (step s op).1.chan.get (port, chan) = some ch') :
    chan = fmtChan s.nextChanSeq ∧ (ch'.state = .init ∨ ch'.state = .tryopen) ∧
    (step s op).1.nextRecv.get (port, chan) = some 1 ∧ (step s op).1.nextAck.get (port, chan) = some 1 ∧
    (step s op).1.nextSend.get chan = some 1 := by
  have ht : Tr s (step s op).1 := step_tr (out := (step s op).2) rfl
  obtain ⟨a, _, b, c, d, e⟩ := ht.chanNew port chan ch' h0 h1
  exact ⟨a, b, c, d, e⟩

/-- light-client verification succeeded means: routable client, Active, and a positive verdict -/
theorem verify_ok_iff (s : ChainState) (env : Env) (cid : Id) (v : Bool) :
    verify s env cid v = .ok () ↔ route s cid = .ok () ∧ env.lc.statusOf cid = .active ∧ v = true := by
  unfold verify
  cases hr : route s cid with
  | error e => simp
  | ok u =>
    by_cases hs : env.lc.statusOf cid = .active <;> cases v <;> simp [hs]

/-- an end becomes OPEN through ChanOpenAck only from INIT, on an OPEN connection, and only if the
    proof of the counterparty's TRYOPEN end verified (verdict `env.lc.v1`) on an Active client. -/
theorem open_ack_requires_proof (s s' : ChainState) (env : Env) (port chan cpChan : Id) (cpVersion : String) (app : AppV1)
    (r : String) (h : step s ⟨env, .chanOpenAck port chan cpChan cpVersion app⟩ = (s', .ok r)) :
    ∃ ch conn, s.chan.get (port, chan) = some ch ∧ ch.state = .init ∧ getConn s ch = .ok conn ∧
      conn.2.state = .opened ∧ verify s env conn.2.client env.lc.v1 = .ok () ∧ env.lc.v1 = true ∧
      ∃ ch', s'.chan.get (port, chan) = some ch' ∧ ch'.state = .opened ∧ ch'.ordering = ch.ordering ∧
        ch'.cpChan = cpChan ∧ ch'.version = cpVersion := by
  have hv := step_vb h rfl
  unfold step at h
  simp only [hv] at h
  simp only [Bool.false_eq_true, if_false] at h
  unfold msgChanOpenAck at h
  oksplit h
  obtain ⟨C, A, hs, _⟩ := registerAlias_ok ‹registerAlias _ chan _ = Except.ok _›
  have hver := ‹verify s env _ env.lc.v1 = Except.ok _›
  simp only [ne_eq, Decidable.not_not] at *
  have hch := ‹s.chan.get (port, chan) = some _›
  refine ⟨_, (_, _), hch, ‹_›, ‹_›, ‹_›, hver, ((verify_ok_iff _ _ _ _).mp hver).2.2, ?_⟩
  rw [hs]
  refine ⟨{ (_ : Channel) with state := .opened, version := cpVersion, cpChan := cpChan }, ?_, rfl, rfl, rfl, rfl⟩
  simp [ChainState.logAdd, ChainState.appWrite]

/-- the same for ChanOpenConfirm (from TRYOPEN, proof of the counterparty's OPEN end). -/
theorem open_confirm_requires_proof (s s' : ChainState) (env : Env) (port chan : Id) (app : AppV1)
    (r : String) (h : step s ⟨env, .chanOpenConfirm port chan app⟩ = (s', .ok r)) :
    ∃ ch conn, s.chan.get (port, chan) = some ch ∧ ch.state = .tryopen ∧ getConn s ch = .ok conn ∧
      conn.2.state = .opened ∧ verify s env conn.2.client env.lc.v1 = .ok () ∧ env.lc.v1 = true := by
  have hv := step_vb h rfl
  unfold step at h
  simp only [hv] at h
  simp only [Bool.false_eq_true, if_false] at h
  unfold msgChanOpenConfirm at h
  oksplit h
  have hver := ‹verify s env _ env.lc.v1 = Except.ok _›
  simp only [ne_eq, Decidable.not_not] at *
  exact ⟨_, (_, _), ‹_›, ‹_›, ‹_›, ‹_›, hver, ((verify_ok_iff _ _ _ _).mp hver).2.2⟩

/-- ChanOpenTry needs an OPEN connection and the proof of the counterparty's INIT end. -/
theorem open_try_requires_proof (s s' : ChainState) (env : Env) (port : Id) (o : Order) (hops : List Id) (cpPort cpChan : Id)
    (cpVersion : String) (app : AppV1) (r : String)
    (h : step s ⟨env, .chanOpenTry port o hops cpPort cpChan cpVersion app⟩ = (s', .ok r)) :
    ∃ hop conn, hops = [hop] ∧ s.conn.get hop = some conn ∧ conn.state = .opened ∧
      verify s env conn.client env.lc.v1 = .ok () ∧ env.lc.v1 = true := by
  have hv := step_vb h rfl
  unfold step at h
  simp only [hv] at h
  simp only [Bool.false_eq_true, if_false] at h
  unfold msgChanOpenTry at h
  oksplit h
  have hver := ‹verify s env _ env.lc.v1 = Except.ok _›
  simp only [ne_eq, Decidable.not_not] at *
  exact ⟨_, _, rfl, ‹_›, ‹_›, hver, ((verify_ok_iff _ _ _ _).mp hver).2.2⟩

/-- close-confirm requires proof that the counterparty end is CLOSED (verdict `env.lc.v1`). -/
theorem closeConfirm_requires_proof (s s' : ChainState) (env : Env) (port chan : Id) (app : AppV1) (r : String)
    (h : step s ⟨env, .chanCloseConfirm port chan app⟩ = (s', .ok r)) : env.lc.v1 = true := by
  have hv := step_vb h rfl
  unfold step at h
  simp only [hv] at h
  simp only [Bool.false_eq_true, if_false] at h
  unfold msgChanCloseConfirm at h
  oksplit h
  have hver := ‹verify _ env _ env.lc.v1 = Except.ok _›
  exact ((verify_ok_iff _ _ _ _).mp hver).2.2

example : Inv Chain.init := Inv.init

end IbcVerif.C12
