/-
  C27 — Localhost verification is equivalent to reading the chain's own store; the localhost client
  cannot be created, updated, upgraded or recovered.
  Property theorems only.
-/
import IbcVerif.Model.Localhost
import IbcVerif.Lemmas.WasmStore
namespace IbcVerif.C27
open IbcVerif.Localhost
open IbcVerif.WasmStore (Bytes KV)

/-- `heightGT` is `Height.GT`: greater revision number, or equal revision number and greater height. -/
theorem heightGT_spec (a b : Ht) :
    heightGT a b = true ↔ a.1 > b.1 ∨ (a.1 = b.1 ∧ a.2 > b.2) := by
  simp [heightGT]

/-- **Membership ⇔ sentinel proof ∧ two-element path ∧ the store holds exactly that value at the key**
(`path[1]`; the first element, the store prefix, is ignored) ∧ the proof height is not above the chain's
own height (guard added by /repo fix eba1f77; `heightGT` = `Height.GT`). For every store, proof, path and value.
(`key ≠ []`: the SDK store panics on an empty key, which no store can hold anyway.) -/
theorem membership_iff (store : KV) (height self : Ht) (proof : Bytes) (path : Path) (value : Bytes) :
    verifyMembership store height self proof path value = .ok () ↔
      heightGT height self = false ∧ proof = sentinelProof ∧ ∃ pfx key, path = some [pfx, key] ∧ key ≠ [] ∧ store.get key = some value := by
  unfold verifyMembership
  cases hh : heightGT height self with
  | true => simp
  | false =>
  simp only [Bool.false_eq_true, if_false, true_and]
  by_cases hp : proof = sentinelProof
  · subst hp
    simp only [bne_self_eq_false, Bool.false_eq_true, if_false, true_and]
    match path with
    | none => simp
    | some [] => simp
    | some [_] => simp
    | some (_ :: _ :: _ :: _) => simp
    | some [a, k] =>
      have hgd : ([a, k] : List Bytes).getD 1 [] = k := rfl
      simp only [List.length_cons, List.length_nil, bne_self_eq_false, Bool.false_eq_true, if_false, hgd]
      by_cases hk : k = []
      · subst hk; simp
      · have hke : k.isEmpty = false := by cases k <;> simp_all
        simp only [hke, Bool.false_eq_true, if_false]
        constructor
        · intro h
          cases hg : store.get k with
          | none => rw [hg] at h; simp at h
          | some bz =>
            rw [hg] at h
            by_cases hv : bz = value
            · subst hv; exact ⟨a, k, rfl, hk, hg⟩
            · have : (bz != value) = true := by simpa using hv
              simp [this] at h
        · rintro ⟨p, key, hp, _, hg⟩
          simp only [Option.some.injEq, List.cons.injEq, and_true] at hp
          obtain ⟨_, rfl⟩ := hp
          simp [hg]
  · have : (proof != sentinelProof) = true := by simpa using hp
    simp [this, hp]

/-- **Non-membership ⇔ sentinel proof ∧ two-element path ∧ the key is absent from the store.** -/
theorem nonmembership_iff (store : KV) (height self : Ht) (proof : Bytes) (path : Path) :
    verifyNonMembership store height self proof path = .ok () ↔
      heightGT height self = false ∧ proof = sentinelProof ∧ ∃ pfx key, path = some [pfx, key] ∧ key ≠ [] ∧ store.get key = none := by
  unfold verifyNonMembership
  cases hh : heightGT height self with
  | true => simp
  | false =>
  simp only [Bool.false_eq_true, if_false, true_and]
  by_cases hp : proof = sentinelProof
  · subst hp
    simp only [bne_self_eq_false, Bool.false_eq_true, if_false, true_and]
    match path with
    | none => simp
    | some [] => simp
    | some [_] => simp
    | some (_ :: _ :: _ :: _) => simp
    | some [a, k] =>
      have hgd : ([a, k] : List Bytes).getD 1 [] = k := rfl
      simp only [List.length_cons, List.length_nil, bne_self_eq_false, Bool.false_eq_true, if_false, hgd]
      by_cases hk : k = []
      · subst hk; simp
      · have hke : k.isEmpty = false := by cases k <;> simp_all
        simp only [hke, Bool.false_eq_true, if_false, WasmStore.KV.has]
        constructor
        · intro h
          cases hg : store.get k with
          | none => exact ⟨a, k, rfl, hk, hg⟩
          | some bz => simp [hg] at h
        · rintro ⟨p, key, hp, _, hg⟩
          simp only [Option.some.injEq, List.cons.injEq, and_true] at hp
          obtain ⟨_, rfl⟩ := hp
          simp [hg]
  · have : (proof != sentinelProof) = true := by simpa using hp
    simp [this, hp]

/-- Membership and non-membership of the same key can never both verify (no state satisfies both). -/
theorem membership_excludes_nonmembership (store : KV) (ht sh ht' sh' : Ht) (p p' : Bytes)
    (pfx pfx' key value : Bytes)
    (h : verifyMembership store ht sh p (some [pfx, key]) value = .ok ()) :
    verifyNonMembership store ht' sh' p' (some [pfx', key]) ≠ .ok () := by
  rw [membership_iff] at h
  obtain ⟨_, _, a, k, hk, _, hg⟩ := h
  intro h'
  rw [nonmembership_iff] at h'
  obtain ⟨_, _, a', k', hk', _, hg'⟩ := h'
  simp only [Option.some.injEq, List.cons.injEq, and_true] at hk hk'
  rw [← hk.2] at hg; rw [← hk'.2] at hg'
  rw [hg] at hg'; cases hg'

/-- The same equivalences through the 02-client keeper (`Keeper.VerifyMembership` /
`Keeper.VerifyNonMembership` on a localhost client id): additionally the type must be allowed. -/
theorem keeper_verification_iff (s : State) (height self : Ht) (proof : Bytes) (path : Path)
    (value : Bytes) :
    ((step s (.kVerifyMembership height self proof path value)).2 = .ok ↔
      s.allowed = true ∧ heightGT height self = false ∧ proof = sentinelProof ∧
        ∃ pfx key, path = some [pfx, key] ∧ key ≠ [] ∧ s.store.get key = some value) ∧
    ((step s (.kVerifyNonMembership height self proof path)).2 = .ok ↔
      s.allowed = true ∧ heightGT height self = false ∧ proof = sentinelProof ∧
        ∃ pfx key, path = some [pfx, key] ∧ key ≠ [] ∧ s.store.get key = none) := by
  constructor
  · rw [← membership_iff]
    cases ha : s.allowed <;> simp only [step, route, ha, statusActive] <;>
      cases verifyMembership s.store height self proof path value <;> simp [resOf]
  · rw [← nonmembership_iff]
    cases ha : s.allowed <;> simp only [step, route, ha, statusActive] <;>
      cases verifyNonMembership s.store height self proof path <;> simp [resOf]

/-- is this op an attempt to create / initialise / update / upgrade / recover the localhost client
(through the module or through the 02-client keeper)? -/
def isLifecycleOp : Op → Bool
  | .initClient | .verifyClientMessage | .recoverClient | .verifyUpgrade
  | .kCreate | .kUpdate | .kUpgrade | .kRecover => true
  | _ => false

/-- **The localhost client cannot be created, updated, upgraded or recovered**: in every state every
such operation returns an error (never `ok`), and `Keeper.UpdateClient` fails in `VerifyClientMessage`,
i.e. before `CheckForMisbehaviour` / `UpdateState` could run. -/
theorem lifecycle_ops_refused (s : State) (op : Op) (h : isLifecycleOp op = true) :
    ∃ e, (step s op).2 = .err e := by
  cases op <;> simp only [isLifecycleOp, Bool.false_eq_true] at h <;>
    cases ha : s.allowed <;>
    simp [step, route, ha, statusActive, resOf, initClient, verifyClientMessage, recoverClient,
      verifyUpgradeAndUpdateState]

/-- the precise error of each refused keeper operation when the type is allowed -/
theorem lifecycle_errors (s : State) (ha : s.allowed = true) :
    (step s .kCreate).2 = .err .invalidClientType ∧
    (step s .kUpdate).2 = .err .updateClientFailed ∧
    (step s .kUpgrade).2 = .err .invalidUpgradeClient ∧
    (step s .kRecover).2 = .err .invalidRecoveryClient := by
  simp [step, route, ha, statusActive, verifyClientMessage, verifyUpgradeAndUpdateState]

/-- No client operation (verification or lifecycle) changes the store or the parameters: only the
environment does. -/
theorem client_ops_pure (s : State) (op : Op) (h : op.isEnv = false) : (step s op).1 = s := by
  cases op <;> simp only [Op.isEnv, Bool.true_eq_false] at h <;> simp only [step] <;>
    (repeat' split) <;> rfl

/-- **Over all histories**: the state after any history is the state after its environment writes
alone — the localhost client has no state of its own and nothing addressed to it ever takes effect. -/
theorem history_state (s : State) (ops : List Op) :
    (run s ops).1 = (run s (ops.filter Op.isEnv)).1 := by
  induction ops generalizing s with
  | nil => rfl
  | cons op ops ih =>
    cases h : op.isEnv with
    | true => simp only [List.filter, h, run]; exact ih _
    | false =>
      simp only [List.filter, h, run]
      rw [client_ops_pure s op h]; exact ih s

/-- **Over all histories**: after any history, a membership verification succeeds exactly when the
store *at that moment* holds the value, a non-membership verification exactly when the key is absent. -/
theorem history_verification (s : State) (ops : List Op) (height self : Ht) (proof : Bytes) (path : Path)
    (value : Bytes) :
    let s' := (run s ops).1
    ((step s' (.verifyMembership height self proof path value)).2 = .ok ↔
      heightGT height self = false ∧ proof = sentinelProof ∧ ∃ pfx key, path = some [pfx, key] ∧ key ≠ [] ∧ s'.store.get key = some value) ∧
    ((step s' (.verifyNonMembership height self proof path)).2 = .ok ↔
      heightGT height self = false ∧ proof = sentinelProof ∧ ∃ pfx key, path = some [pfx, key] ∧ key ≠ [] ∧ s'.store.get key = none) := by
  intro s'
  constructor
  · rw [← membership_iff]; simp only [step]
    cases verifyMembership s'.store height self proof path value <;> simp [resOf]
  · rw [← nonmembership_iff]; simp only [step]
    cases verifyNonMembership s'.store height self proof path <;> simp [resOf]

/-! ### non-vacuity -/

example :
    let s : State := ⟨[([107], [5])], true⟩
    run s [.verifyMembership (1, 9) (1, 9) [1] (some [[105], [107]]) [5],
           .verifyMembership (0, 99) (1, 9) [1] (some [[105], [107]]) [6],
           .verifyNonMembership (1, 9) (1, 9) [1] (some [[105], [107]]),
           .verifyNonMembership (1, 3) (1, 9) [1] (some [[105], [108]]),
           .verifyMembership (1, 9) (1, 9) [2] (some [[105], [107]]) [5], .kUpdate, .kCreate, .envDelete [107],
           .kVerifyNonMembership (1, 9) (1, 9) [1] (some [[105], [107]]),
           .verifyMembership (1, 10) (1, 9) [1] (some [[105], [107]]) [5],
           .verifyNonMembership (2, 0) (1, 9) [1] (some [[105], [108]])]
      = (⟨[], true⟩, [.ok, .err .failedMembership, .err .failedNonMembership, .ok, .err .invalidProof,
           .err .updateClientFailed, .err .invalidClientType, .ok, .ok, .err .invalidHeight, .err .invalidHeight]) := by
  decide

end IbcVerif.C27
