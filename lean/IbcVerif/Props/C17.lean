/-
  C17 — Heights are totally ordered and elapsed timeouts stay elapsed.
  Property theorems only; helper lemmas live in IbcVerif/Lemmas.
-/
import IbcVerif.Model.Height
import IbcVerif.Lemmas.Dec
import IbcVerif.Lemmas.Height
namespace IbcVerif.C17
open IbcVerif

/-- `Compare` is the lexicographic comparison: revision number first, then revision height. -/
theorem compare_spec (a b : Height) :
    (Height.compare a b = -1 ↔ (a.rev < b.rev ∨ (a.rev = b.rev ∧ a.h < b.h))) ∧
    (Height.compare a b = 0 ↔ a = b) ∧
    (Height.compare a b = 1 ↔ (b.rev < a.rev ∨ (a.rev = b.rev ∧ b.h < a.h))) := by
  rw [Height.compare_toNat, Height.ext_toNat]
  simp only [UInt64.lt_iff_toNat_lt, ← UInt64.toNat_inj]
  rcases cmpNat_cases a.rev.toNat a.h.toNat b.rev.toNat b.h.toNat with ⟨h, c⟩ | ⟨h, c⟩ | ⟨h, c⟩ <;>
    rw [h] <;> simp <;> omega

theorem compare_values (a b : Height) :
    Height.compare a b = -1 ∨ Height.compare a b = 0 ∨ Height.compare a b = 1 := by
  rw [Height.compare_toNat]
  rcases cmpNat_cases a.rev.toNat a.h.toNat b.rev.toNat b.h.toNat with ⟨h, _⟩ | ⟨h, _⟩ | ⟨h, _⟩ <;> simp [h]

/-- reflexive -/
theorem lte_refl (a : Height) : Height.lte a a = true := by
  simp [Height.lte, Height.compare]

/-- antisymmetric -/
theorem lte_antisymm (a b : Height) (h1 : Height.lte a b = true) (h2 : Height.lte b a = true) : a = b := by
  rw [Height.ext_toNat]
  simp only [Height.lte, Height.compare_toNat, decide_eq_true_eq] at h1 h2
  rcases cmpNat_cases a.rev.toNat a.h.toNat b.rev.toNat b.h.toNat with ⟨h, c⟩ | ⟨h, c⟩ | ⟨h, c⟩ <;>
  rcases cmpNat_cases b.rev.toNat b.h.toNat a.rev.toNat a.h.toNat with ⟨h', c'⟩ | ⟨h', c'⟩ | ⟨h', c'⟩ <;>
    rw [h] at h1 <;> rw [h'] at h2 <;> omega

/-- transitive -/
theorem lte_trans (a b c : Height) (h1 : Height.lte a b = true) (h2 : Height.lte b c = true) :
    Height.lte a c = true := by
  simp only [Height.lte, Height.compare_toNat, decide_eq_true_eq] at h1 h2 ⊢
  rcases cmpNat_cases a.rev.toNat a.h.toNat b.rev.toNat b.h.toNat with ⟨h, k⟩ | ⟨h, k⟩ | ⟨h, k⟩ <;>
  rcases cmpNat_cases b.rev.toNat b.h.toNat c.rev.toNat c.h.toNat with ⟨h', k'⟩ | ⟨h', k'⟩ | ⟨h', k'⟩ <;>
  rcases cmpNat_cases a.rev.toNat a.h.toNat c.rev.toNat c.h.toNat with ⟨h'', k''⟩ | ⟨h'', k''⟩ | ⟨h'', k''⟩ <;>
    rw [h] at h1 <;> rw [h'] at h2 <;> rw [h''] <;> omega

/-- total -/
theorem lte_total (a b : Height) : Height.lte a b = true ∨ Height.lte b a = true := by
  simp only [Height.lte, Height.compare_toNat, decide_eq_true_eq]
  rcases cmpNat_cases a.rev.toNat a.h.toNat b.rev.toNat b.h.toNat with ⟨h, k⟩ | ⟨h, k⟩ | ⟨h, k⟩ <;>
  rcases cmpNat_cases b.rev.toNat b.h.toNat a.rev.toNat a.h.toNat with ⟨h', k'⟩ | ⟨h', k'⟩ | ⟨h', k'⟩ <;>
    rw [h, h'] <;> omega

/-- the five comparison predicates agree with `Compare` and with each other -/
theorem predicates_agree (a b : Height) :
    (Height.lt a b = true ↔ (Height.lte a b = true ∧ a ≠ b)) ∧
    (Height.gt a b = Height.lt b a) ∧ (Height.gte a b = Height.lte b a) ∧
    (Height.eq a b = true ↔ a = b) ∧ (Height.lt a b = !Height.gte a b) := by
  simp only [Height.lt, Height.lte, Height.gt, Height.gte, Height.eq, Height.compare_toNat, ne_eq, Height.ext_toNat]
  rcases cmpNat_cases a.rev.toNat a.h.toNat b.rev.toNat b.h.toNat with ⟨h, k⟩ | ⟨h, k⟩ | ⟨h, k⟩ <;>
  rcases cmpNat_cases b.rev.toNat b.h.toNat a.rev.toNat a.h.toNat with ⟨h', k'⟩ | ⟨h', k'⟩ | ⟨h', k'⟩ <;>
    rw [h, h'] <;> simp <;> omega

/-- formatting a height and parsing it back returns the same height -/
theorem parse_format (a : Height) : Height.parse (Height.format a) = some a := by
  obtain ⟨r, h⟩ := a
  have hr : '-' ∉ dec r.toNat := not_mem_dec_of_not_digit _ _ (by decide)
  have hh : '-' ∉ dec h.toNat := not_mem_dec_of_not_digit _ _ (by decide)
  simp only [Height.parse, Height.format]
  rw [splitOnChar_append _ _ _ hr, splitOnChar_no_sep _ _ hh]
  simp only [parseUint64_dec _ (UInt64.toNat_lt r), parseUint64_dec _ (UInt64.toNat_lt h)]
  simp

/-- parsing accepts only two '-'-separated decimal components, each fitting in 64 bits -/
theorem parse_sound (s : List Char) (a : Height) (h : Height.parse s = some a) :
    ∃ r hh, splitOnChar '-' s = [r, hh] ∧ parseUint64 r = some a.rev.toNat ∧ parseUint64 hh = some a.h.toNat := by
  unfold Height.parse at h
  split at h
  · rename_i r hh heq
    split at h
    · rename_i rv hv h1 h2
      cases h
      refine ⟨r, hh, heq, ?_, ?_⟩
      · rw [h1]; congr; exact (Nat.mod_eq_of_lt (parseUint64_lt _ _ h1)).symm
      · rw [h2]; congr; exact (Nat.mod_eq_of_lt (parseUint64_lt _ _ h2)).symm
    · cases h
  · cases h

/-- a timeout that has elapsed at (h, ts) stays elapsed at every greater-or-equal height and time -/
theorem elapsed_monotone (t : Timeout) (h h' : Height) (ts ts' : UInt64)
    (he : t.elapsed h ts = true) (hh : Height.lte h h' = true) (hts : ts ≤ ts') : t.elapsed h' ts' = true := by
  simp only [Timeout.elapsed, Timeout.heightElapsed, Timeout.timestampElapsed, Bool.or_eq_true,
    Bool.and_eq_true, Bool.not_eq_true', bne_iff_ne, decide_eq_true_eq] at he ⊢
  rcases he with ⟨hz, hg⟩ | ⟨hz, hg⟩
  · left
    refine ⟨hz, ?_⟩
    have := lte_trans t.height h h' (by rw [← (predicates_agree h t.height).2.2.1]; exact hg) hh
    rw [(predicates_agree h' t.height).2.2.1]; exact this
  · right
    exact ⟨hz, UInt64.le_trans hg hts⟩

/-- a zero timeout height never height-elapses; a zero timestamp never time-elapses -/
theorem zero_never_elapses (t : Timeout) (h : Height) (ts : UInt64) :
    (t.height = Height.zero → t.heightElapsed h = false) ∧
    (t.ts = 0 → t.timestampElapsed ts = false) ∧
    (t.height = Height.zero → t.ts = 0 → t.elapsed h ts = false) := by
  refine ⟨?_, ?_, ?_⟩
  · intro hz; simp [Timeout.heightElapsed, hz, Height.zero, Height.isZero]
  · intro hz; simp [Timeout.timestampElapsed, hz]
  · intro hz1 hz2; simp [Timeout.elapsed, Timeout.heightElapsed, Timeout.timestampElapsed, hz1, hz2, Height.zero, Height.isZero]

/-- non-vacuity: a concrete timeout that elapses by height across a revision boundary -/
example : (Timeout.mk ⟨2, 0⟩ 0).elapsed ⟨2, 0⟩ 5 = true ∧ (Timeout.mk ⟨2, 0⟩ 0).elapsed ⟨1, 18446744073709551615⟩ 5 = false := by
  decide

end IbcVerif.C17
