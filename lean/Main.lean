import IbcVerif.Driver.Pure

def main (args : List String) : IO UInt32 := do
  match args with
  | ["purefn"] => IbcVerif.Driver.Pure.main; return 0
  | _ =>
    IO.eprintln "usage: ibcmodel <engine>   (engines: purefn)"
    return 2
