import IbcVerif.Driver.RateLimit
import IbcVerif.Driver.Callbacks
import IbcVerif.Driver.Ica
import IbcVerif.Driver.Gmp
import IbcVerif.Driver.Pfm

def main (args : List String) : IO UInt32 := do
  match args with
  | ["ratelimit"] => IbcVerif.Driver.RateLimit.main; return 0
  | ["callbacks"] => IbcVerif.Driver.Callbacks.main; return 0
  | ["ica"] => IbcVerif.Driver.Ica.main; return 0
  | ["gmp"] => IbcVerif.Driver.Gmp.main; return 0
  | ["pfm"] => IbcVerif.Driver.Pfm.main; return 0
  | _ =>
    IO.eprintln "usage: appsmodel <engine>   (engines: ratelimit, callbacks, ica, gmp, pfm)"
    return 2
