import IbcVerif.Driver.Misc

def main (args : List String) : IO UInt32 := do
  match args with
  | ["misc"] => IbcVerif.Driver.Misc.main; return 0
  | _ =>
    IO.eprintln "usage: miscmodel misc"
    return 2
