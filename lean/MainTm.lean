import IbcVerif.Driver.TmClient

def main (args : List String) : IO UInt32 := do
  match args with
  | ["tmclient"] => IbcVerif.Driver.TmClient.main; return 0
  | _ =>
    IO.eprintln "usage: tmmodel <engine>   (engines: tmclient)"
    return 2
