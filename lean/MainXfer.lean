import IbcVerif.Driver.Xfer

def main (args : List String) : IO UInt32 := do
  match args with
  | ["xfer"] => IbcVerif.Driver.Xfer.main; return 0
  | _ =>
    IO.eprintln "usage: xfermodel <engine>   (engines: xfer)"
    return 2
