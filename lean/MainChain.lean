import IbcVerif.Driver.Chain

def main (args : List String) : IO UInt32 := do
  match args with
  | ["chain"] => IbcVerif.Driver.Chain.main; return 0
  | _ =>
    IO.eprintln "usage: chainmodel <engine>   (engines: chain)"
    return 2
