module verif/extract-panics

go 1.23
