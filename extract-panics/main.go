// extract-panics: inventory of panic-capable expressions in the anchored files of property C47.
//
// For every function declared in an anchored file it counts index expressions, slice expressions,
// unchecked type assertions (`v.(T)` outside `x, ok := v.(T)` and outside a type switch), explicit
// `panic(...)` calls and calls of `Must*` helpers, and hashes the gofmt-normalised source of the
// function. The result is compared with the recorded table (sites.json): every function that
// contains at least one such expression must be listed there with the same hash and with either the
// name of a theorem of lean/IbcVerif/Props/C47.lean (or C35.lean) that proves it panic-free / states
// its exact precondition, or a written justification why the expression cannot fail. A new or edited
// function therefore breaks the obligation until the table is re-confirmed by hand.
//
//   extract-panics -repo /repo -table sites.json -lean ../lean/IbcVerif/Props        check (exit 1 on drift)
//   extract-panics -repo /repo -table sites.json -update                             rewrite hashes/counts, keep lemma/why
package main

import (
	"bytes"
	"crypto/sha256"
	"encoding/hex"
	"encoding/json"
	"flag"
	"fmt"
	"go/ast"
	"go/parser"
	"go/printer"
	"go/token"
	"os"
	"path/filepath"
	"regexp"
	"sort"
	"strings"
)

type Site struct {
	File   string `json:"file"`
	Func   string `json:"func"`
	Hash   string `json:"hash"`
	Index  int    `json:"index"`
	Slice  int    `json:"slice"`
	Assert int    `json:"assert"`
	Panic  int    `json:"panic"`
	Must   int    `json:"must"`
	Lemma  string `json:"lemma,omitempty"`
	Why    string `json:"why,omitempty"`
}

type Table struct {
	Files []string `json:"files"`
	Sites []Site   `json:"sites"`
}

func funcName(fd *ast.FuncDecl) string {
	if fd.Recv == nil || len(fd.Recv.List) == 0 {
		return fd.Name.Name
	}
	var b bytes.Buffer
	printer.Fprint(&b, token.NewFileSet(), fd.Recv.List[0].Type)
	return "(" + b.String() + ")." + fd.Name.Name
}

func scan(repo, rel string) ([]Site, error) {
	fset := token.NewFileSet()
	f, err := parser.ParseFile(fset, filepath.Join(repo, rel), nil, 0)
	if err != nil {
		return nil, err
	}
	var out []Site
	for _, d := range f.Decls {
		fd, ok := d.(*ast.FuncDecl)
		if !ok || fd.Body == nil {
			continue
		}
		s := Site{File: rel, Func: funcName(fd)}
		checked := map[*ast.TypeAssertExpr]bool{}
		ast.Inspect(fd.Body, func(n ast.Node) bool {
			switch x := n.(type) {
			case *ast.AssignStmt:
				if len(x.Lhs) == 2 && len(x.Rhs) == 1 {
					if ta, ok := x.Rhs[0].(*ast.TypeAssertExpr); ok {
						checked[ta] = true
					}
				}
			case *ast.ValueSpec:
				if len(x.Names) == 2 && len(x.Values) == 1 {
					if ta, ok := x.Values[0].(*ast.TypeAssertExpr); ok {
						checked[ta] = true
					}
				}
			}
			return true
		})
		ast.Inspect(fd.Body, func(n ast.Node) bool {
			switch x := n.(type) {
			case *ast.IndexExpr:
				s.Index++
			case *ast.SliceExpr:
				s.Slice++
			case *ast.TypeAssertExpr:
				if x.Type != nil && !checked[x] { // x.Type == nil is the `.(type)` of a type switch
					s.Assert++
				}
			case *ast.CallExpr:
				switch fn := x.Fun.(type) {
				case *ast.Ident:
					if fn.Name == "panic" {
						s.Panic++
					} else if strings.HasPrefix(fn.Name, "Must") {
						s.Must++
					}
				case *ast.SelectorExpr:
					if strings.HasPrefix(fn.Sel.Name, "Must") {
						s.Must++
					}
				}
			}
			return true
		})
		var b bytes.Buffer
		printer.Fprint(&b, fset, fd)
		h := sha256.Sum256(b.Bytes())
		s.Hash = hex.EncodeToString(h[:8])
		if s.Index+s.Slice+s.Assert+s.Panic+s.Must > 0 {
			out = append(out, s)
		}
	}
	return out, nil
}

func contains(xs []string, x string) bool {
	for _, y := range xs {
		if y == x {
			return true
		}
	}
	return false
}

func main() {
	repo := flag.String("repo", "/repo", "ibc-go tree")
	tablePath := flag.String("table", "sites.json", "recorded table")
	leanDir := flag.String("lean", "", "directory holding C47.lean / C35.lean (theorem names are checked when given)")
	update := flag.Bool("update", false, "rewrite the table with the current hashes and counts")
	flag.Parse()
	var tab Table
	raw, err := os.ReadFile(*tablePath)
	if err != nil {
		fmt.Println("cannot read table:", err)
		os.Exit(2)
	}
	if err := json.Unmarshal(raw, &tab); err != nil {
		fmt.Println("bad table:", err)
		os.Exit(2)
	}
	recorded := map[string]Site{}
	for _, s := range tab.Sites {
		recorded[s.File+"#"+s.Func] = s
	}
	var current []Site
	problems := 0
	for _, entry := range tab.Files {
		// "path" tracks every function of the file, "path#F1,F2" only the named ones (files that
		// are mostly stateful keeper code with one anchored parser)
		rel, only, _ := strings.Cut(entry, "#")
		ss, err := scan(filepath.Join(*repo, "modules"), rel)
		if err != nil {
			fmt.Printf("MISSING-FILE %s: %v\n", rel, err)
			problems++
			continue
		}
		for _, s := range ss {
			if only != "" && !contains(strings.Split(only, ","), s.Func) {
				continue
			}
			current = append(current, s)
		}
	}
	seen := map[string]bool{}
	theorems := ""
	if *leanDir != "" {
		for _, f := range []string{"C47.lean", "C35.lean"} {
			b, _ := os.ReadFile(filepath.Join(*leanDir, f))
			theorems += string(b)
		}
	}
	for i, s := range current {
		k := s.File + "#" + s.Func
		seen[k] = true
		r, ok := recorded[k]
		if !ok {
			fmt.Printf("NEW panic-capable function %s %s (index=%d slice=%d assert=%d panic=%d must=%d): no lemma / justification recorded\n", s.File, s.Func, s.Index, s.Slice, s.Assert, s.Panic, s.Must)
			problems++
			continue
		}
		current[i].Lemma, current[i].Why = r.Lemma, r.Why
		if r.Hash != s.Hash {
			fmt.Printf("CHANGED %s %s: source hash %s -> %s (index %d->%d slice %d->%d assert %d->%d panic %d->%d must %d->%d): re-confirm lemma %q\n",
				s.File, s.Func, r.Hash, s.Hash, r.Index, s.Index, r.Slice, s.Slice, r.Assert, s.Assert, r.Panic, s.Panic, r.Must, s.Must, r.Lemma)
			problems++
		}
		if r.Lemma == "" && r.Why == "" {
			fmt.Printf("UNJUSTIFIED %s %s: neither lemma nor justification\n", s.File, s.Func)
			problems++
		}
		if r.Lemma != "" && *leanDir != "" {
			for _, l := range strings.Split(r.Lemma, ",") {
				l = strings.TrimSpace(l)
				if !regexp.MustCompile(`(?m)^theorem\s+` + regexp.QuoteMeta(l) + `\b`).MatchString(theorems) {
					fmt.Printf("MISSING-LEMMA %s %s: theorem %s not found in Props/C47.lean or C35.lean\n", s.File, s.Func, l)
					problems++
				}
			}
		}
	}
	for k, r := range recorded {
		if !seen[k] {
			fmt.Printf("REMOVED %s %s: recorded function no longer has panic-capable expressions (or is gone); drop it from the table\n", r.File, r.Func)
			problems++
		}
	}
	if *update {
		sort.Slice(current, func(i, j int) bool {
			if current[i].File != current[j].File {
				return current[i].File < current[j].File
			}
			return current[i].Func < current[j].Func
		})
		tab.Sites = current
		b, _ := json.MarshalIndent(tab, "", " ")
		os.WriteFile(*tablePath, append(b, '\n'), 0o644)
		fmt.Printf("table rewritten: %d functions\n", len(current))
		return
	}
	fmt.Printf("panic-site inventory: %d functions with panic-capable expressions in %d files, %d problems\n", len(current), len(tab.Files), problems)
	if problems > 0 {
		os.Exit(1)
	}
}
