import argparse, json, os, sys, time, subprocess, concurrent.futures
from . import core
from .core import log
from .props import PROPS

TRUSTED_COMMON = [
    "Lean 4.33.0 kernel; axioms limited to propext, Classical.choice, Quot.sound (audited with #print axioms on every property theorem); no native_decide/bv_decide/sorry",
    "correspondence harness (Go, /verif/harness) and its generators: differential testing of the hand-written Lean model against the real code; strength bounded by generator quality (distribution reported below)",
]


def engine_run(pid, eng, tier, seed, tmp, replay_inputs=None):
    """returns dict(stats, mismatches, n_mismatch, samples, violations, error)"""
    res = {"engine": eng["bin"], "groups": eng.get("groups"), "stats": None, "mismatches": [], "n_mismatch": 0,
           "samples": [], "violations": [], "error": None}
    ok, exe, out = core.go_build(eng["bin"], eng.get("harness_dir"))
    if not ok:
        res["error"] = {"kind": "harness-build", "msg": out[-3000:]}
        return res
    n = eng["n"][0 if tier == "quick" else 1]
    mon = eng.get("monitor", (0, 0))[0 if tier == "quick" else 1]
    mult = eng.get("search_mult", 1)
    workers = 1 if tier == "quick" else eng.get("workers", 8)
    if replay_inputs is not None:
        workers = 1
    jobs = []
    for w in range(workers):
        cases = os.path.join(tmp, "%s-%s-%d.cases" % (pid, eng["bin"], w))
        viol = os.path.join(tmp, "%s-%s-%d.viol" % (pid, eng["bin"], w))
        if replay_inputs is not None:
            args = [exe, "-replay", replay_inputs, "-cases", cases]
        else:
            args = [exe] + eng.get("args", []) + ["-n", str(n), "-monitor", str(mon * mult), "-cases", cases, "-violations", viol]
            if eng.get("groups"):
                args += ["-groups", ",".join(eng["groups"])]
        env = dict(os.environ, VERIF_SEED=str(seed if workers == 1 else seed * 1000 + w), VERIF_TIER=tier, GOMEMLIMIT="6GiB")
        jobs.append((args, env, cases, viol))
    def one(job):
        args, env, cases, viol = job
        try:
            p = subprocess.run(args, env=env, stdout=subprocess.PIPE, stderr=subprocess.STDOUT, timeout=eng.get("timeout", 3000), cwd=tmp)
            return p.returncode, p.stdout.decode("utf-8", "replace")
        except subprocess.TimeoutExpired:
            return 124, "timeout"
    with concurrent.futures.ThreadPoolExecutor(max_workers=workers) as ex:
        outs = list(ex.map(one, jobs))
    agg = {"evaluations": 0, "by_function": {}, "result_kinds": {}, "distinct_nontrivial": 0}
    for (args, env, cases, viol), (rc, out) in zip(jobs, outs):
        if rc != 0:
            res["error"] = {"kind": "harness-run", "msg": out[-3000:], "rc": rc}
            return res
        ins = cases + ".in"
        mo = cases + ".model"
        with open(cases) as f, open(ins, "w") as g:
            for line in f:
                g.write(json.dumps(json.loads(line)["in"]) + "\n")
        rc, err = core.run_model(eng["model"], ins, mo, eng.get("model_exe", "ibcmodel"))
        if rc != 0:
            res["error"] = {"kind": "model-run", "msg": err[-2000:], "rc": rc}
            return res
        stats, mism, n_mism, samples = core.diff_cases(cases, mo)
        agg["evaluations"] += stats["evaluations"]
        agg["distinct_nontrivial"] += stats["distinct_nontrivial"]
        for k in ("by_function", "result_kinds"):
            for kk, v in stats[k].items():
                agg[k][kk] = agg[k].get(kk, 0) + v
        res["mismatches"] += mism
        res["n_mismatch"] += n_mism
        if not res["samples"]:
            res["samples"] = samples
        if os.path.exists(viol):
            for line in open(viol):
                v = json.loads(line)
                if v.get("property") == pid:
                    res["violations"].append(v)
    res["stats"] = agg
    return res


def main(argv=None):
    ap = argparse.ArgumentParser()
    ap.add_argument("pid")
    ap.add_argument("--tier", default=os.environ.get("VERIF_TIER", "quick"), choices=["quick", "thorough"])
    ap.add_argument("--replay")
    a = ap.parse_args(argv)
    pid, tier = a.pid, a.tier
    if pid not in PROPS:
        print("unknown property", pid); return 2
    cfg = PROPS[pid]
    seed = int(os.environ.get("VERIF_SEED", "1") or 1)
    t0 = time.time()
    tmp = os.path.join(core.BUILD, "run", "%s-%s-%d" % (pid, tier, os.getpid()))
    os.makedirs(tmp, exist_ok=True)
    os.makedirs(os.path.join(core.VERIF, "replays"), exist_ok=True)

    if a.replay:
        return do_replay(pid, cfg, a.replay, tmp)

    problems = []      # things that no longer check (obligation / correspondence)
    violations = []    # concrete property-level failing inputs

    # 1. translator tie + Lean obligations
    ext = core.run_extractor()
    if ext.get("error"):
        problems.append({"kind": "extractor", "detail": ext["error"]})
    for pre in cfg.get("pre", []):
        rc, pout = core.run_pre(pre)
        if rc != 0:
            problems.append({"kind": "pre-obligation", "name": pre.get("name", pre["cmd"][0]), "detail": pout[-2500:]})
    modules = cfg["lean"]
    drivers = sorted({e.get("model_exe", "ibcmodel") for e in cfg.get("engines", [])})
    ok, broken, out = core.lean_build(modules, drivers)
    if not ok:
        for b in broken:
            problems.append({"kind": "lean-obligation", "detail": b})
    aud = {"theorems": [], "clean": [], "dirty": [], "axioms_used": [], "cmd": "", "ok": False, "bad_tokens": []}
    if ok:
        aud = core.audit(pid, modules)
        if not aud["ok"]:
            for d in aud["dirty"]:
                problems.append({"kind": "axiom-audit", "detail": d})
            for d in aud["bad_tokens"]:
                problems.append({"kind": "forbidden-token", "detail": d})
            if aud.get("raw"):
                problems.append({"kind": "audit-run", "detail": aud["raw"][-1500:]})
        if tier == "thorough":
            with core.Lock("lake"):
                rc, lc = core.run(["lake", "env", "leanchecker"] + modules, cwd=core.LEAN, timeout=3600)
            if rc != 0:
                problems.append({"kind": "leanchecker", "detail": lc[-1500:]})

    # 2./3. correspondence + monitors
    engines_out = []
    driver_ok = ok
    if not driver_ok:
        # the property modules broke; the model driver may still build on its own
        dok, _, _ = core.lean_build([], drivers)
        driver_ok = dok
    for eng in cfg.get("engines", []):
        if not driver_ok:
            break
        r = engine_run(pid, eng, tier, seed, tmp)
        engines_out.append(r)
        if r["error"]:
            problems.append({"kind": "correspondence-" + r["error"]["kind"], "engine": eng["bin"], "detail": r["error"]["msg"]})
        if r["n_mismatch"]:
            problems.append({"kind": "correspondence-mismatch", "engine": eng["bin"], "count": r["n_mismatch"], "first": r["mismatches"][:3]})
        violations += r["violations"]

    # 4. when something no longer checks, widen the search for a concrete failing input
    # (violations that are listed known findings do not count: they say nothing about what broke)
    known0 = core.load_known(pid)
    if problems and not [v for v in violations if not core.matches_known(v, known0)] and driver_ok:
        log("obligation/correspondence broken (%s); widening monitor search" % ", ".join(
            "%s%s" % (p["kind"], (" x%d" % p["count"]) if p.get("count") else "") for p in problems))
        wtmp = os.path.join(tmp, "widen")   # keep the cases of the first run for inspection
        os.makedirs(wtmp, exist_ok=True)
        for eng in cfg.get("engines", []):
            e2 = dict(eng, search_mult=10, n=(1, 1))
            r = engine_run(pid, e2, tier, seed + 7919, wtmp)
            violations += r["violations"]
            if [v for v in r["violations"] if not core.matches_known(v, known0)]:
                break

    known = core.load_known(pid)
    known_hits, fresh = {}, []
    for v in violations:
        k = core.matches_known(v, known)
        if k:
            known_hits.setdefault(k["key"], (k, v))
        else:
            fresh.append(v)
    # a mismatch whose input is a listed known witness is the finding itself, not a new problem
    def known_problem(p):
        if p["kind"] != "correspondence-mismatch":
            return False
        return all(any(kf.get("mismatch_f") and m["in"].get("f") == kf["mismatch_f"] for kf in known) for m in p["first"]) and bool(p["first"])
    problems = [p for p in problems if not known_problem(p)]

    # evidence
    evals = sum((r["stats"] or {}).get("evaluations", 0) for r in engines_out)
    dn = sum((r["stats"] or {}).get("distinct_nontrivial", 0) for r in engines_out)
    samples = []
    for r in engines_out:
        samples += r["samples"][:6]
    obligations = len(aud["theorems"]) + cfg.get("extra_obligations", 0)
    discharged = len(aud["clean"]) + (cfg.get("extra_obligations", 0) if ok else 0)
    ev = {
        "property_id": pid, "tier": tier, "seed": seed, "level": "proof",
        "coverage": {
            "obligations": max(obligations, 1) if ok else max(len(core.theorems_of(modules[0])[0]), 1),
            "discharged": discharged,
            "checker_cmd": aud["cmd"] or ("cd lean && lake build " + " ".join(modules)),
            "trusted_base": TRUSTED_COMMON + cfg.get("trusted", []),
            "theorems": aud["theorems"],
            "axioms_used": aud["axioms_used"],
            "evaluations": evals,
            "distinct_nontrivial": dn,
            "rule": cfg.get("rule", "requests are generated from one splitmix64 stream (VERIF_SEED): structured mostly-valid inputs plus boundary values and a malformed stream; a case is non-trivial when the implementation did not reject it with an error class; distinct = distinct canonical request"),
            "samples": samples[:10] if samples else [{"note": "no correspondence samples (build broke before the harness ran)"}],
            "programs": len(engines_out),
            "disagreements_checked": sum(r["n_mismatch"] for r in engines_out),
            "input_distribution": {r["engine"] + ":" + ",".join(r["groups"] or []): (r["stats"] or {}).get("result_kinds", {}) for r in engines_out},
            "monitor_violations": len(violations),
            "known_findings_confirmed": sorted(known_hits.keys()),
            "problems": problems[:10],
            "skeleton_changed": ext.get("skeleton_changed", []),
            **({"exhaustive": True, "exhaustive_note": cfg["exhaustive"]} if cfg.get("exhaustive") else {}),
        },
        "assumptions": cfg.get("assumptions", []),
        "wall_s": round(time.time() - t0, 2),
        "violations": len(fresh) + (1 if problems and not fresh else 0),
    }
    core.write_json(os.path.join(core.VERIF, "evidence", pid + ".json"), ev)

    for key, (k, v) in sorted(known_hits.items()):
        print("KNOWN-FINDING: property=%s %s" % (pid, k.get("what", key)))
    for k in known:
        if k["key"] not in known_hits and k.get("must_confirm", True):
            # a listed finding that no longer reproduces is reported (informational), never silently kept
            log("known finding %s did not reproduce on this run" % k["key"])

    if fresh:
        rp = os.path.join("replays", "%s-%d.json" % (pid, seed))
        core.write_json(os.path.join(core.VERIF, rp), {"property": pid, "seed": seed, "tier": tier, "kind": "failing-input",
                                                       "violation": fresh[0], "all": fresh[:10], "problems": problems[:5]})
        print("VIOLATION property=%s replay=%s" % (pid, rp))
        return 1
    if problems:
        rp = os.path.join("replays", "%s-%d.json" % (pid, seed))
        core.write_json(os.path.join(core.VERIF, rp), {"property": pid, "seed": seed, "tier": tier, "kind": "no-longer-checks",
                                                       "broken": problems[:10]})
        print("VIOLATION property=%s replay=%s no-failing-input-found" % (pid, rp))
        return 1
    print("OK property=%s tier=%s theorems=%d evaluations=%d wall=%.1fs" % (pid, tier, len(aud["clean"]), evals, time.time() - t0))
    return 0


def do_replay(pid, cfg, path, tmp):
    data = json.load(open(path))
    print(json.dumps(data, indent=1)[:4000])
    v = data.get("violation")
    if v and cfg.get("engines"):
        # re-evaluate the recorded input on the implementation, through the same engine
        eng = cfg["engines"][0]
        inp = os.path.join(tmp, "replay.in")
        with open(inp, "w") as f:
            reqs = v.get("requests") or ([v["input"]] if isinstance(v.get("input"), dict) and "f" in v["input"] else [])
            for r in reqs:
                f.write(json.dumps(r) + "\n")
        if os.path.getsize(inp):
            r = engine_run(pid, eng, "quick", data.get("seed", 1), tmp, replay_inputs=inp)
            print(json.dumps({"mismatches": r["mismatches"], "error": r["error"]}, indent=1))
            return 1 if r["n_mismatch"] else 0
    return 1
