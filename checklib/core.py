"""
Check driver for /verif: one property per invocation.

  bin/check Cxx --tier quick|thorough          decide property Cxx on /repo's current tree
  bin/check Cxx --replay replays/Cxx-....json  re-execute a recorded failing input

Steps (DESIGN.md §2.3/§2.4):
  1. regenerate Gen/*.lean facts from /repo (translator tie), build the property's Lean modules
     and the model driver, audit `#print axioms` for every property theorem;
  2. rebuild the Go harness against /repo with -tags verif, run the property's engines on the
     real code, pipe the same requests through the Lean model driver and diff (correspondence tie);
  3. run the property monitors on the implementation (directed search for a failing input);
  4. report: exit 0, or `VIOLATION property=<id> replay=<path>[ no-failing-input-found]` + exit 1;
     known findings are printed as KNOWN-FINDING lines and do not fail the check.
"""
import fcntl, hashlib, json, os, re, subprocess, sys, time, shutil

VERIF = os.path.dirname(os.path.dirname(os.path.abspath(__file__)))
LEAN = os.path.join(VERIF, "lean")
HARNESS = os.path.join(VERIF, "harness")
BUILD = os.environ.get("VERIF_BUILD") or os.path.join(VERIF, "build")
REPO = os.environ.get("VERIF_REPO", "/repo")
ALLOWED_AXIOMS = {"propext", "Classical.choice", "Quot.sound"}
FORBIDDEN = re.compile(r"\b(sorry|admit|native_decide|bv_decide|implemented_by)\b|^\s*axiom\s|^\s*unsafe\s|maxHeartbeats\s+0\b", re.M)

GOENV = dict(os.environ, GOFLAGS="-mod=mod", GOPROXY="off")
GOENV.pop("GOTOOLCHAIN", None)   # this image needs the auto toolchain switch (DESIGN.md §2.5)
GOENV.pop("GOSUMDB", None)


def log(*a):
    print("[check]", *a, file=sys.stderr, flush=True)


class Lock:
    def __init__(self, name):
        os.makedirs(BUILD, exist_ok=True)
        self.path = os.path.join(BUILD, "." + name + ".lock")
    def __enter__(self):
        self.f = open(self.path, "w")
        fcntl.flock(self.f, fcntl.LOCK_EX)
    def __exit__(self, *a):
        fcntl.flock(self.f, fcntl.LOCK_UN)
        self.f.close()


def run(cmd, cwd=None, env=None, timeout=None, stdin=None):
    p = subprocess.run(cmd, cwd=cwd, env=env, stdout=subprocess.PIPE, stderr=subprocess.STDOUT,
                       timeout=timeout, stdin=stdin)
    return p.returncode, p.stdout.decode("utf-8", "replace")


def strip_lean_comments(src):
    # remove /- ... -/ (nested not handled beyond one level; good enough for the grep) and -- comments
    out, i, depth = [], 0, 0
    while i < len(src):
        if src.startswith("/-", i):
            depth += 1; i += 2; continue
        if src.startswith("-/", i) and depth > 0:
            depth -= 1; i += 2; continue
        if depth == 0:
            if src.startswith("--", i):
                j = src.find("\n", i)
                i = len(src) if j < 0 else j
                continue
            out.append(src[i])
        elif src[i] == "\n":
            out.append("\n")
        i += 1
    return "".join(out)


def lean_files_of(modules):
    """transitive project-local imports of the given modules"""
    seen, todo = set(), list(modules)
    while todo:
        m = todo.pop()
        if m in seen:
            continue
        path = os.path.join(LEAN, *m.split(".")) + ".lean"
        if not os.path.exists(path):
            continue
        seen.add(m)
        for line in open(path):
            mm = re.match(r"\s*import\s+(IbcVerif\.\S+)", line)
            if mm:
                todo.append(mm.group(1))
    return sorted(seen)


def theorems_of(module):
    path = os.path.join(LEAN, *module.split(".")) + ".lean"
    src = strip_lean_comments(open(path).read())
    ns = None
    m = re.search(r"^namespace\s+(\S+)", src, re.M)
    if m:
        ns = m.group(1)
    names = re.findall(r"^(?:private\s+|protected\s+)?theorem\s+(\S+)", src, re.M)
    return [(ns + "." + n) if ns else n for n in names], path


def run_extractor():
    """Regenerate lean/IbcVerif/Gen/*.lean from /repo's working tree (written only when changed)."""
    exe = os.path.join(BUILD, "extract")
    src = os.path.join(VERIF, "extract")
    if not os.path.isdir(src):
        return {"ran": False}
    with Lock("go"):
        rc, out = run(["go", "build", "-o", exe, "."], cwd=src, env=GOENV, timeout=600)
    if rc != 0:
        return {"ran": False, "error": out[-2000:]}
    rc, out = run([exe, "-repo", REPO, "-out", os.path.join(LEAN, "IbcVerif", "Gen"), "-json", os.path.join(BUILD, "facts.json")], timeout=300)
    changed = []
    try:
        facts = json.load(open(os.path.join(BUILD, "facts.json")))
        expected = json.load(open(os.path.join(VERIF, "checklib", "skeletons.json")))
        for k, v in expected.items():
            if facts.get("_skeletons", {}).get(k) != v:
                changed.append(k)
    except (OSError, ValueError):
        pass
    return {"ran": rc == 0, "error": None if rc == 0 else out[-2000:], "skeleton_changed": changed}


def run_pre(pre):
    """Optional per-property deterministic step (props entry "pre": [{"name": .., "cmd": [..], "cwd": "rel/dir"}]).
    Placeholders {repo} {verif} {build} {lean} are substituted in cmd; the command runs with the Go
    environment of the harness. A non-zero exit marks an obligation of the property as broken."""
    sub = {"repo": REPO, "verif": VERIF, "build": BUILD, "lean": LEAN}
    cmd = [c.format(**sub) for c in pre["cmd"]]
    cwd = os.path.join(VERIF, pre.get("cwd", "."))
    try:
        with Lock("go"):
            return run(cmd, cwd=cwd, env=GOENV, timeout=pre.get("timeout", 900))
    except (OSError, subprocess.TimeoutExpired) as e:
        return 125, "pre step failed to run: %r" % (e,)


def lean_build(modules, drivers=("ibcmodel",)):
    targets = list(modules) + list(drivers)
    with Lock("lake"):
        rc, out = run(["lake", "build"] + targets, cwd=LEAN, timeout=3600)
    broken = []
    if rc != 0:
        # map each error location to the enclosing theorem
        for m in re.finditer(r"error: (\S+?\.lean):(\d+):(\d+): (.*)", out):
            f, ln, msg = m.group(1), int(m.group(2)), m.group(4)
            path = f if os.path.isabs(f) else os.path.join(LEAN, f)
            thm = None
            try:
                lines = open(path).read().split("\n")
                for k in range(min(ln, len(lines)) - 1, -1, -1):
                    mm = re.match(r"\s*(?:private\s+)?(theorem|def|example|instance|lemma)\s+(\S+)?", lines[k])
                    if mm:
                        thm = (mm.group(2) or mm.group(1)); break
            except OSError:
                pass
            broken.append({"file": os.path.relpath(path, LEAN), "line": ln, "decl": thm, "msg": msg[:300]})
        if not broken:
            broken.append({"file": "?", "line": 0, "decl": None, "msg": out[-1500:]})
    return rc == 0, broken, out


def audit(pid, modules):
    """#print axioms for every theorem of the property modules; forbidden-token grep."""
    os.makedirs(os.path.join(BUILD, "audit"), exist_ok=True)
    thms = []
    for m in modules:
        t, _ = theorems_of(m)
        thms += t
    bad_tokens = []
    for m in lean_files_of(modules):
        path = os.path.join(LEAN, *m.split(".")) + ".lean"
        src = strip_lean_comments(open(path).read())
        for mm in FORBIDDEN.finditer(src):
            bad_tokens.append({"module": m, "token": mm.group(0).strip()})
    apath = os.path.join(BUILD, "audit", pid + ".lean")
    with open(apath, "w") as f:
        for m in modules:
            f.write("import %s\n" % m)
        for t in thms:
            f.write("#print axioms %s\n" % t)
    with Lock("lake"):
        rc, out = run(["lake", "env", "lean", apath], cwd=LEAN, timeout=1800)
    axioms = {}
    for mm in re.finditer(r"'([^']+)' depends on axioms: \[([^\]]*)\]", out, re.S):
        axioms[mm.group(1)] = [a.strip() for a in mm.group(2).replace("\n", " ").split(",") if a.strip()]
    for mm in re.finditer(r"'([^']+)' does not depend on any axioms", out):
        axioms[mm.group(1)] = []
    clean, dirty = [], []
    for t in thms:
        if t in axioms and set(axioms[t]) <= ALLOWED_AXIOMS:
            clean.append(t)
        else:
            dirty.append({"theorem": t, "axioms": axioms.get(t, "not-found")})
    used = sorted({a for t in clean for a in axioms[t]})
    return {"theorems": thms, "clean": clean, "dirty": dirty, "bad_tokens": bad_tokens, "axioms_used": used,
            "cmd": "cd lean && lake build %s && lake env lean ../build/audit/%s.lean" % (" ".join(modules), pid),
            "ok": rc == 0 and not dirty and not bad_tokens, "raw": out if rc != 0 else ""}


def _modfile_args(hdir=None):
    """When VERIF_REPO points at a scratch worktree (mutation testing), build against it through an
    alternate go.mod so that the harness go.mod (which names /repo) stays untouched.
    hdir: a harness module other than /verif/harness (engine key "harness_dir")."""
    if REPO == "/repo":
        return []
    if hdir is None or hdir == HARNESS:
        alt = os.path.join(BUILD, "alt.mod")
        src = open(os.path.join(HARNESS, "go.mod")).read().replace("=> /repo\n", "=> %s\n" % REPO)
        sumsrc = os.path.join(REPO, "go.sum")
    else:
        alt = os.path.join(BUILD, "alt-%s.mod" % os.path.basename(hdir))
        src = re.sub(r"=> /repo(/[^\n]*)?\n", lambda m: "=> %s%s\n" % (REPO, m.group(1) or ""), open(os.path.join(hdir, "go.mod")).read())
        sumsrc = os.path.join(hdir, "go.sum")
    if not os.path.exists(alt) or open(alt).read() != src:
        open(alt, "w").write(src)
        shutil.copyfile(sumsrc, alt[:-4] + ".sum")
    return ["-modfile", alt]


_built = set()
def go_build(cmdname, harness_dir=None):
    """build ./cmd/<cmdname> of /verif/harness, or of the harness module /verif/<harness_dir>
    (engine key "harness_dir", used by the separate 08-wasm Go module)."""
    exe = os.path.join(BUILD, cmdname)
    if cmdname in _built:
        return True, exe, ""
    hdir = HARNESS if not harness_dir else os.path.join(VERIF, harness_dir)
    gosum = os.path.join(HARNESS, "go.sum")
    try:
        shutil.copyfile(os.path.join(REPO, "go.sum"), gosum + ".repo")
        # keep our go.sum a superset: the harness only needs what /repo needs
        if not os.path.exists(gosum):
            shutil.copyfile(gosum + ".repo", gosum)
        os.remove(gosum + ".repo")
    except OSError:
        pass
    with Lock("go"):
        rc, out = run(["go", "build", "-buildvcs=false"] + _modfile_args(hdir) + ["-tags", "verif", "-o", exe, "./cmd/" + cmdname], cwd=hdir, env=GOENV, timeout=3600)
    if rc == 0:
        _built.add(cmdname)
    return rc == 0, exe, out


def run_model(engine, in_path, out_path, exe_name="ibcmodel"):
    exe = os.path.join(LEAN, ".lake", "build", "bin", exe_name)
    with open(in_path, "rb") as fi, open(out_path, "wb") as fo:
        p = subprocess.run([exe, engine], stdin=fi, stdout=fo, stderr=subprocess.PIPE, timeout=3600)
    return p.returncode, p.stderr.decode("utf-8", "replace")


def canon(v):
    return json.dumps(v, sort_keys=True, separators=(",", ":"))


def diff_cases(cases_path, model_out_path, max_report=5):
    """compare implementation answers with model answers line by line"""
    stats = {"evaluations": 0, "by_function": {}, "result_kinds": {}, "distinct_nontrivial": 0}
    distinct = set()
    mism = []
    samples = {}
    with open(cases_path) as fc, open(model_out_path) as fm:
        for idx, line in enumerate(fc):
            c = json.loads(line)
            ml = fm.readline()
            stats["evaluations"] += 1
            f = c["in"].get("f", c["in"].get("op", "?"))
            stats["by_function"][f] = stats["by_function"].get(f, 0) + 1
            out = c["out"]
            kind = "value"
            if isinstance(out, dict):
                if "err" in out: kind = "err:" + str(out["err"])
                elif "panic" in out: kind = "panic"
                elif "bad" in out: kind = "bad"
                elif "r" in out: kind = str(out["r"])
            rk = f + "/" + kind
            stats["result_kinds"][rk] = stats["result_kinds"].get(rk, 0) + 1
            if not kind.startswith("err") and kind not in ("bad",):
                distinct.add(hashlib.sha1(canon(c["in"]).encode()).digest()[:10])
            if rk not in samples and len(samples) < 12:
                samples[rk] = c
            if not ml:
                mism.append({"line": idx, "in": c["in"], "impl": out, "model": "<no answer>"})
                break
            try:
                mo = json.loads(ml)
            except ValueError:
                mo = {"unparsable": ml[:200]}
            if canon(mo) != canon(out):
                if len(mism) < max_report:
                    mism.append({"line": idx, "in": c["in"], "impl": out, "model": mo})
                else:
                    mism.append(None)
    stats["distinct_nontrivial"] = len(distinct)
    n_mism = len(mism)
    mism = [m for m in mism if m]
    return stats, mism, n_mism, list(samples.values())


def load_known(pid):
    path = os.path.join(VERIF, "known_findings.json")
    if not os.path.exists(path):
        return []
    data = json.load(open(path))
    return [k for k in data.get("findings", []) if k.get("property") == pid and k.get("status", "open") == "open"]


def matches_known(v, known):
    for k in known:
        if k.get("key") and v.get("key") == k["key"]:
            return k
    return None


def write_json(path, obj):
    os.makedirs(os.path.dirname(path), exist_ok=True)
    tmp = path + ".tmp"
    with open(tmp, "w") as f:
        json.dump(obj, f, indent=1, sort_keys=True)
        f.write("\n")
    os.replace(tmp, path)
