"""Per-property configuration: Lean modules holding the property theorems, engines tying the model to /repo."""

def purefn(groups, n=(1500, 60000), monitor=(3000, 100000)):
    return {"bin": "purefn", "model": "purefn", "groups": groups, "n": n, "monitor": monitor, "workers": 8}

PROPS = {
    "C07": {
        "lean": ["IbcVerif.Props.C07"],
        "engines": [purefn(["commit"], n=(400, 20000), monitor=(1000, 50000))],
        "trusted": ["SHA-256 is a parameter H with 32-byte outputs in the theorems (collision-extraction form); the executable SHA-256 of the driver is validated against crypto/sha256 on every run (function sha256) and satisfies the length hypothesis (Sha256.sha256_length)",
                    "sdk.Uint64ToBigEndian modelled by IbcVerif.be64 (8 bytes, big-endian)"],
        "assumptions": ["timeout fields are uint64 (PacketV1.WF)"],
        "level_text": "full: binding of every committed field for v1/v2 packets and acks, for all inputs, in collision-extraction form; formula equality by rfl + byte-exact correspondence",
    },
    "C17": {
        "lean": ["IbcVerif.Props.C17"],
        "engines": [purefn(["height"])],
        "trusted": ["Height.Compare's big.Int detour modelled as unsigned 64-bit comparison; strconv.ParseUint / fmt %d modelled by IbcVerif.Model.Dec (tied by the purefn correspondence on boundary strings)"],
        "assumptions": ["exported.Height arguments are clienttypes.Height (the type assertion in Compare panics otherwise)"],
    },
}
