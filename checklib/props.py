"""Per-property configuration: Lean modules holding the property theorems, engines tying the model to /repo."""

def purefn(groups, n=(1500, 60000), monitor=(3000, 100000)):
    return {"bin": "purefn", "model": "purefn", "groups": groups, "n": n, "monitor": monitor, "workers": 8}

PROPS = {
    "C17": {
        "lean": ["IbcVerif.Props.C17"],
        "engines": [purefn(["height"])],
        "trusted": ["Height.Compare's big.Int detour modelled as unsigned 64-bit comparison; strconv.ParseUint / fmt %d modelled by IbcVerif.Model.Dec (tied by the purefn correspondence on boundary strings)"],
        "assumptions": ["exported.Height arguments are clienttypes.Height (the type assertion in Compare panics otherwise)"],
    },
}
