"""Per-property configuration: Lean modules holding the property theorems, engines tying the model to /repo."""

def purefn(groups, n=(1500, 60000), monitor=(3000, 100000)):
    return {"bin": "purefn", "model": "purefn", "groups": groups, "n": n, "monitor": monitor, "workers": 8}

PROPS = {
    "C07": {
        "lean": ["IbcVerif.Props.C07"],
        "engines": [purefn(["commit"], n=(400, 20000), monitor=(1000, 50000))],
        "trusted": ["SHA-256 is a parameter H with 32-byte outputs in the theorems (collision-extraction form); the executable SHA-256 of the driver is validated against crypto/sha256 on every run (function sha256) and satisfies the length hypothesis (Sha256.sha256_length)",
                    "sdk.Uint64ToBigEndian modelled by IbcVerif.be64 (8 bytes, big-endian)"],
        "assumptions": ["timeout fields are uint64 (PacketV1.WF)"],
        "level_text": "full: binding of every committed field for v1/v2 packets and acks, for all inputs, in collision-extraction form; formula equality by rfl + byte-exact correspondence",
    },
    "C15": {
        "lean": ["IbcVerif.Props.C15"],
        "engines": [purefn(["ident"], n=(800, 40000), monitor=(3000, 100000))],
        "trusted": ["the three Is*IDFormat regular expressions are re-implemented as recognisers (Model/Ident.lean) and tied to Go's regexp by the correspondence on an alphabet-covering generated corpus",
                    "uniqueness over histories (monotone counters, identifiers of failed transactions never stored) is proved on the chain model (chain cluster) — this check covers the stateless half"],
        "assumptions": ["sequences are uint64"],
        "level_text": "full for the stateless half: format/parse round-trip, validity of every generated identifier for every 64-bit sequence, injectivity, 64-bit overflow rejection, for all client-type strings; history half in the chain model",
    },
    "C16": {
        "lean": ["IbcVerif.Props.C16"],
        "engines": [purefn(["keys"], n=(400, 20000), monitor=(150, 5000))],
        "trusted": ["key-prefix words, kind bytes and suffix words are regenerated from /repo on every run (extract -> Gen/Facts.lean) and the side conditions on them are re-proved by decide",
                    "fmt.Appendf(\"%s/%d\") / append() layouts are hand-modelled in Model/Keys.lean and tied byte-for-byte by the purefn correspondence",
                    "that client operations reach the store only through the clients/<id>/ prefix store is SDK prefix-store behaviour (checked dynamically by the tm/lc harness store dumps, not proved)"],
        "assumptions": ["identifiers satisfy the 24-host alphabet (IdOK); v2 sequences are uint64"],
        "level_text": "full for v1/v2 key injectivity, v1-v2 disjointness, per-channel / per-client prefix confinement and client namespace prefixes over ALL valid identifiers; partial for the async-packet/alias suffix keys (full statement refuted by a kernel-checked witness, see known finding)",
    },
    "C17": {
        "lean": ["IbcVerif.Props.C17"],
        "engines": [purefn(["height"])],
        "trusted": ["Height.Compare's big.Int detour modelled as unsigned 64-bit comparison; strconv.ParseUint / fmt %d modelled by IbcVerif.Model.Dec (tied by the purefn correspondence on boundary strings)"],
        "assumptions": ["exported.Height arguments are clienttypes.Height (the type assertion in Compare panics otherwise)"],
    },
    "C29": {
        "lean": ["IbcVerif.Props.C29"],
        # separate Go module (08-wasm): harness lives in /verif/harness-wasm, see core.go_build(harness_dir)
        "engines": [{"bin": "wasmstore", "harness_dir": "harness-wasm", "model": "wasmstore", "model_exe": "lcmodel",
                     "n": (300, 6000), "monitor": (300, 6000), "workers": 8}],
        "trusted": ["the two wrapped SDK stores (prefix.Store over the IBC store) are modelled as finite maps with prefix.Store's calling conventions (Set panics on empty key / nil value; iteration over [start,end)); tied by running the real ClientRecoveryStore over two real prefix.Stores sharing one parent store",
                    "the wasm VM / contract is the adversary: it may issue any sequence of Get/Set/Delete/Iterator/ReverseIterator calls with any keys (Op lists are universally quantified)"],
        "assumptions": [],
        "level_text": "full: substitute never modified, subject written iff key is \"subject/\"++k, reads routed by prefix, unprefixed/inconsistent keys and ranges read as empty - for all call histories and keys",
    },
}
