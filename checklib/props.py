"""Per-property configuration: Lean modules holding the property theorems, engines tying the model to /repo."""

def purefn(groups, n=(1500, 60000), monitor=(3000, 100000)):
    return {"bin": "purefn", "model": "purefn", "groups": groups, "n": n, "monitor": monitor, "workers": 8}


TM_RULE = "tmclient: seeded histories (8-40 ops) on a real 07-tendermint client hosted by an ibctesting chain, driven through the 02-client keeper (CreateClient/UpdateClient/RecoverClient/UpgradeClient/VerifyMembership) at harness-controlled block time/height; headers of the tracked chain are fabricated and honestly signed with validator keys the harness owns: honest new heights (adjacent/skipping, random trusted height), gap filling, exact duplicates, conflicting headers for stored heights (other app hash / time +1..3ns / other next validators), headers whose time is at/beyond a neighbour's, headers that must not verify (corrupt or absent signatures, wrong or nil trusted validators, unknown trusted height, other revision, height <= trusted, future time, foreign validator set), misbehaviour messages (fork, time violation, non-misbehaviour, foreign signers, bad trusted fields), time jumps to expiry-1ns/=/+1ns of the latest and of the oldest consensus state, recovery through fresh substitutes, consumer calls, PruneAllExpired. Every answer carries result class + canonical delta of every client store (client state fields, consensus states, processed time/height, raw iteration keys) + status and latest height of every client; `valid` is CometBFT's own light.Verify / VerifyCommitLightTrusting evaluated by the harness on the trusted state. A case is non-trivial when the op did not fail with an error class; distinct = distinct canonical request"
TM_TRUSTED = ["CometBFT light.Verify, ValidatorSet.VerifyCommitLight*, *FromProto conversions and ICS-23 proof verification are parameters of the model (their verdict is computed by the harness by calling the library on the trusted state it reads from the already-diffed client store)",
              "typed client store: the consensusStates/{h}, .../processedTime, .../processedHeight key families are modelled as typed maps (licensed by C16); the iterateConsensusStates index is modelled at byte level (sorted by bytewise key order)",
              "time.Time / time.Duration modelled as unbounded Int nanoseconds (no saturation of Time.Sub / overflow of Time.Add: |durations| < 292 years); processed time = uint64(UnixNano) for block times after 1970",
              "protobuf (de)serialisation of client/consensus states and of the Any-wrapped client messages; reflect.DeepEqual on decoded consensus states = field-wise equality of (timestamp, root, next validators hash)",
              "SDK transaction atomicity is NOT assumed: operations are modelled at keeper level including writes that precede a late error (unreachable under the proved invariant)",
              "execution mode is block execution (FinalizeBlock) or simulation: UpdateState prunes the oldest expired consensus state; in CheckTx/ReCheckTx the code skips pruning (that state is discarded)",
              "client identifiers are 07-tendermint-N with N handed out by GenerateClientIdentifier (fresh, increasing); clients of other types are outside the model (see findings/C25-recover-substitute-type-panic.md)"]

TM_RULE_RU = " recover: subject / substitute / bystander clients over {Active, Frozen (misbehaviour or conflicting header), Expired (time jump to expiry+0/1ns)} x substitute height -2/0/+1/+3/+10 x one parameter difference (trust level, unbonding period, clock drift, proof specs, upgrade path | allowed: chain id, trusting period, deprecated flags), unknown / identical ids, then further updates, consumers and a second recovery on the recovered subject; a directed history replays the older-substitute witness of C23. upgrade: a real client of the real ibctesting chain B; B commits an upgraded client (next revision / same revision / mismatching revision / height not above; unbonding grown, shrunk by 1/3, by 1-1000ns, to 1-3ns; nil proof specs) and consensus state under its upgrade path; UpgradeClient with honest and mutated arguments (swapped / garbage / empty / stale-height proofs, lied unbonding period or chain id, altered consensus state, relayer-chosen custom fields, undecodable bytes, empty or foreign upgrade path on the client, expired client, latest height past the plan height), then the first header of the upgraded chain and a stale second upgrade."

PROPS = {
    "C04": {
        "lean": ["IbcVerif.Props.C04"],
        "engines": [{"bin": "world", "model": "purefn", "groups": ["timeouts", "localhost"], "n": (8, 150), "monitor": (4, 60), "workers": 8, "timeout": 3000}],
        "trusted": ["HonestClient: the consensus state chain A stores for height H is chain B's real block H (its BFT time and the application state after block H-1) — CometBFT light-client verification and ICS-23 soundness (C24, C18 hypotheses)",
                    "BFT time is non-decreasing in height (Monotone)",
                    "the single-chain guards composed here (RecvPacket / TimeoutPacket / v2 recvPacket / timeoutPacket / localhost Verify*) are tied to the code by this engine on real ibctesting chains with real IAVL proofs at chosen proof heights, and by the chain engine (C01-C03, C05)"],
        "assumptions": ["HonestClient", "Monotone time", "UNORDERED v1 channels and v2 clients in the real-chain engine (ORDERED timeouts: chain engine)"],
        "level_text": "full for the two-chain statements under HonestClient (received => never timed out; timed out => never received later; never early; v2 seconds/nanoseconds consistency; localhost after the fix); the localhost defect found by this check was repaired (known_findings 'fixed')",
    },
    "C18": {
        "lean": ["IbcVerif.Props.C18"],
        "engines": [purefn(["merkle"], n=(600, 20000), monitor=(600, 20000))],
        "trusted": ["ICS-23 existence / non-existence proof soundness is the named hypothesis Ics23Sound (library code); 'one value per key under a root' is the named hypothesis Functional (hash collision resistance)",
                    "the harness evaluates the real ics23 Calculate/Verify calls as ground truth per level (with the arguments the specification prescribes) on real IAVL multistore proofs; the model then recomputes ibc-go's verdict",
                    "Go slices are modelled as (array, offset, len, cap) headers over a heap of byte arrays for BuildMerklePath"],
        "assumptions": ["Ics23Sound", "Functional", "AbsentExcludes", "NoAliasSpare (no prefix element can see the spare capacity of the last element)"],
        "level_text": "partial: ibc-go's argument validation, proof chaining, key order, root comparison, non-membership handling and BuildMerklePath's slice behaviour are proved for all inputs; the per-level ICS-23 proof soundness is a hypothesis, exercised by mutation of real IAVL proofs",
    },
    "C36": {
        "lean": ["IbcVerif.Props.C36"],
        "engines": [purefn(["authz"], n=(300, 15000), monitor=(150, 6000))],
        "trusted": ["sdk.Coins arithmetic (AmountOf / SafeSub / IsZero) is modelled on association lists with distinct denominations and no zero entries (GrantWF = what Coins.Validate guarantees); tied by the correspondence on whole request histories",
                    "strings.TrimSpace is a parameter `norm` of the theorems; the authz keeper storing Updated / deleting on Delete is SDK behaviour (modelled by nextGrant)"],
        "assumptions": ["GrantWF (distinct denoms per spend limit)", "BoundedOn (the tracked limit is not the unbounded sentinel)"],
        "level_text": "full: spent + remaining = granted for every bounded (port, channel, denom) over all request histories; allow-list / memo conditions of every accepted request; exhausted allocations vanish; the entire-balance sentinel is rejected against bounded limits",
    },
    "C48": {
        "lean": ["IbcVerif.Props.C48"],
        "engines": [purefn(["router"], n=(1000, 40000), monitor=(600, 20000))],
        "trusted": ["Go map iteration order is a universally quantified parameter (any permutation of the prefix keys) in the v2 theorems; Go string order / strings.Contains / HasPrefix are modelled on code-point lists and tied by the correspondence"],
        "assumptions": [],
        "level_text": "full: v1 lookup characterised by route-set membership only (hence permutation invariant); v2 PrefixFree invariant over all non-panicking registration sequences, unique match, independence of map iteration order, exact acceptance conditions of AddRoute/AddPrefixRoute",
    },
    "C19": {
        "lean": ["IbcVerif.Props.C19"],
        "engines": [purefn(["delay"], n=(1500, 60000), monitor=(2000, 80000)),
                    # call-site half: real chains, connection with a delay period, timeout proofs at the latest or an
                    # older stored consensus height, submitted at chosen moments relative to when THAT height was processed
                    {"bin": "world", "model": "purefn", "groups": ["delay"], "n": (4, 60), "monitor": (3, 40), "workers": 8}],
        "trusted": ["time.Time <-> uint64 nanoseconds and chain-id revision parsing are exercised through the real sdk.Context in the harness (not modelled)",
                    "that every packet verification path of 03-connection passes (timeDelay, getBlockDelay) to the client is covered by the chain/world checks (C04-C06), not here"],
        "assumptions": ["all quantities are uint64"],
        "level_text": "full: getBlockDelay = ceil(d/e) for all inputs (and fits 64 bits); verifyDelayPeriodPassed succeeds iff both inclusive delays have passed without wrap-around, missing metadata is an error. Two genuine defects found by this check were repaired (float64 rounding; uint64 wrap) — see known_findings.json 'fixed'.",
    },
    "C07": {
        "lean": ["IbcVerif.Props.C07"],
        "engines": [purefn(["commit"], n=(400, 20000), monitor=(1000, 50000))],
        "trusted": ["SHA-256 is a parameter H with 32-byte outputs in the theorems (collision-extraction form); the executable SHA-256 of the driver is validated against crypto/sha256 on every run (function sha256) and satisfies the length hypothesis (Sha256.sha256_length)",
                    "sdk.Uint64ToBigEndian modelled by IbcVerif.be64 (8 bytes, big-endian)"],
        "assumptions": ["timeout fields are uint64 (PacketV1.WF)"],
        "level_text": "full: binding of every committed field for v1/v2 packets and acks, for all inputs, in collision-extraction form; formula equality by rfl + byte-exact correspondence",
    },
    # C13: version-negotiation algebra (coordinator); the handshake half is appended by the chain cluster
    "C13": {
        "lean": ["IbcVerif.Props.C13Versions"],
        "engines": [purefn(["version"], n=(600, 30000), monitor=(1000, 40000))],
        "trusted": ["allowNilFeatureSet contains only \"1\" -> false, modelled as 'an empty feature set is never allowed'"],
        "assumptions": [],
        "level_text": "partial until the chain cluster adds the handshake state machine: version negotiation (PickVersion soundness, first-usable order, intersection, IsSupportedVersion iff) proved for all version lists",
    },
    "C15": {
        "lean": ["IbcVerif.Props.C15"],
        "engines": [purefn(["ident"], n=(800, 40000), monitor=(3000, 100000))],
        "trusted": ["the three Is*IDFormat regular expressions are re-implemented as recognisers (Model/Ident.lean) and tied to Go's regexp by the correspondence on an alphabet-covering generated corpus",
                    "uniqueness over histories (monotone counters, identifiers of failed transactions never stored) is proved on the chain model (chain cluster) — this check covers the stateless half"],
        "assumptions": ["sequences are uint64"],
        "level_text": "full for the stateless half: format/parse round-trip, validity of every generated identifier for every 64-bit sequence, injectivity, 64-bit overflow rejection, for all client-type strings; history half in the chain model",
    },
    "C16": {
        "lean": ["IbcVerif.Props.C16"],
        "engines": [purefn(["keys"], n=(400, 20000), monitor=(150, 5000)),
                    {"bin": "world", "model": "purefn", "groups": ["keyspace"], "n": (0, 0), "monitor": (1, 1), "workers": 1}],
        "trusted": ["key-prefix words, kind bytes and suffix words are regenerated from /repo on every run (extract -> Gen/Facts.lean) and the side conditions on them are re-proved by decide",
                    "fmt.Appendf(\"%s/%d\") / append() layouts are hand-modelled in Model/Keys.lean and tied byte-for-byte by the purefn correspondence",
                    "that client operations reach the store only through the clients/<id>/ prefix store is SDK prefix-store behaviour (checked dynamically by the tm/lc harness store dumps, not proved)"],
        "assumptions": ["identifiers satisfy the 24-host alphabet (IdOK); v2 sequences are uint64"],
        "level_text": "full for v1/v2 key injectivity, v1-v2 disjointness, per-channel / per-client prefix confinement and client namespace prefixes over ALL valid identifiers; partial for the async-packet/alias suffix keys (full statement refuted by a kernel-checked witness, see known finding)",
    },
    "C17": {
        "lean": ["IbcVerif.Props.C17"],
        "engines": [purefn(["height"])],
        "trusted": ["Height.Compare's big.Int detour modelled as unsigned 64-bit comparison; strconv.ParseUint / fmt %d modelled by IbcVerif.Model.Dec (tied by the purefn correspondence on boundary strings)"],
        "assumptions": ["exported.Height arguments are clienttypes.Height (the type assertion in Compare panics otherwise)"],
    },
    "C26": {
        "lean": ["IbcVerif.Props.C26"],
        "engines": [{"bin": "lc", "groups": ["solo"], "model": "solo", "model_exe": "lcmodel",
                     "n": (100, 1500), "monitor": (80, 1000), "workers": 8}],
        "trusted": ["signatures are symbolic (DESIGN 3.5): Sig.signed key bytes = a complete valid signature data value of the (single or 2-of-2 multisig secp256k1) public key over exactly those bytes; the harness signs with real keys through testing/solomachine.go's GenerateSignature and tells the model which key signed which bytes (the marshalled SignBytes, mutated field by field)",
                    "the protobuf encoding of SignBytes is modelled byte for byte (Model/Solo.encSignBytes over Model/Proto.encVarint/encField) and proved injective in the sequence; the harness marshals with the real codec, so a layout change is a mismatch",
                    "gogoproto unmarshalling (TimestampedSignatureData, SignatureDescriptor_Data, MerklePath of a misbehaviour path) and the marshalled HeaderData are parameters supplied by the harness; SDK SignatureDataFromProto panics on signature data without `sum` (modelled as result panic)",
                    "RecoverClient (governance substitution) is outside the property's quantifier and not modelled: it requires a frozen subject and a substitute with a strictly greater sequence and a different public key, but takes over the substitute's timestamp"],
        "assumptions": ["symbolic signatures (SigUnforgeable idealisation)", "Header.ValidateBasic holds for headers sent through MsgUpdateClient (harness generates such headers)"],
        "level_text": "full under symbolic signatures: every successful header/membership/non-membership verification consumes the sequence; an accepted signature is by the current key over exactly (sequence, timestamp, diversifier, path, data) and is never accepted again in any later state (all histories, incl. key rotation and replays); sequence and consensus timestamp never decrease; a misbehaviour message with two valid signatures freezes, the client freezes only so, a frozen client accepts nothing through the keeper. Known finding: equivocation on proof signatures cannot be packaged as misbehaviour (path encoding mismatch)",
    },
    "C27": {
        "lean": ["IbcVerif.Props.C27"],
        "engines": [{"bin": "lc", "groups": ["localhost"], "model": "localhost", "model_exe": "lcmodel",
                     "n": (100, 900), "monitor": (100, 900), "workers": 8}],
        "trusted": ["the chain's IBC store (SDK cachekv/iavl behind corestore.KVStoreService) is modelled as a finite map; Get(nil-result) = absent, Has consistent with Get, panic on the empty key - tied by reading/writing the live store of an ibctesting chain (including real chain activity: client updates, packet sends, block commits)",
                    "clientID / delay arguments and the client-message payloads are ignored by the model because the code ignores them (the harness randomises them so a change shows up as a mismatch); the proof height is compared with GetSelfHeight(ctx), which the harness reports per call (fix eba1f77)",
                    "client ids that reach the module: \"09-localhost\" and \"09-localhost-N\" (ParseClientIdentifier maps both to the type 09-localhost)"],
        "assumptions": [],
        "level_text": "full: membership <-> proof height not above the chain's own height, sentinel proof, 2-element path, non-empty key, store holds exactly that value; non-membership <-> sentinel, 2-element path, key absent; every create/initialize/update/upgrade/recover path (module, 02-client keeper, core msg server) returns an error and no client op changes the store - for all stores, inputs and histories",
    },
    "C28": {
        "lean": ["IbcVerif.Props.C28"],
        "engines": [{"bin": "lc", "groups": ["attest"], "model": "attest", "model_exe": "lcmodel",
                     "n": (80, 900), "monitor": (60, 600), "workers": 8}],
        "trusted": ["ECDSA/secp256k1 is symbolic (DESIGN 3.5): a 65-byte signature is (signer, digest) in any of its encodings (v in {0,1,27,28}, low/high s - the harness generates all of them with real keys and the real code treats them as the same signer), recovery under another digest yields nobody's address; the harness tells the model who signed which digest and classifies mutated signatures with go-ethereum's recovery",
                    "SHA-256 is a parameter H in the theorems (collision-extraction form); the driver uses the executable SHA-256 of Model/Sha256 so TaggedSigningInput's layout is tied byte-for-byte",
                    "Keccak256 of the path key, go-ethereum's ABI decoding of the attestation data and protobuf unmarshalling of the proof are parameters supplied by the harness as ground truth (own abi.Arguments definitions, not ibc-go's wrappers)",
                    "ClientState.Validate (non-empty, duplicate-free attestor set, 1 <= quorum <= n) is assumed of the stored client state: the harness only creates clients through ClientKeeper.CreateClient"],
        "assumptions": ["symbolic signatures (SigUnforgeable idealisation)", "hash statements are collision-extraction: no injectivity assumed"],
        "level_text": "full under symbolic ECDSA: verifySignatures accepts <-> non-empty, >= quorum, every entry a 65-byte genuine signature over sha256(tag||sha256(data)) by pairwise distinct configured attestors; state/packet tags not interchangeable (explicit collision otherwise); membership/non-membership iff conditions; two accepted updates attesting different timestamps (seconds, as signed) for one height freeze the client (holds since fix b1892f8: overflowing seconds are rejected); frozen accepts nothing over all histories",
    },
    "C29": {
        "lean": ["IbcVerif.Props.C29"],
        # separate Go module (08-wasm): harness lives in /verif/harness-wasm, see core.go_build(harness_dir)
        "engines": [{"bin": "wasmstore", "harness_dir": "harness-wasm", "model": "wasmstore", "model_exe": "lcmodel",
                     "n": (300, 6000), "monitor": (300, 6000), "workers": 8}],
        "trusted": ["the two wrapped SDK stores (prefix.Store over the IBC store) are modelled as finite maps with prefix.Store's calling conventions (Set panics on empty key / nil value; iteration over [start,end)); tied by running the real ClientRecoveryStore over two real prefix.Stores sharing one parent store",
                    "the wasm VM / contract is the adversary: it may issue any sequence of Get/Set/Delete/Iterator/ReverseIterator calls with any keys (Op lists are universally quantified)"],
        "assumptions": [],
        "level_text": "full: substitute never modified, subject written iff key is \"subject/\"++k, reads routed by prefix, unprefixed/inconsistent keys and ranges read as empty - for all call histories and keys",
    },
    "C35": {
        "lean": ["IbcVerif.Props.C35"],
        "engines": [{"bin": "misc", "model": "misc", "model_exe": "miscmodel", "groups": ["codec"],
                     "n": (120, 2500), "monitor": (250, 6000), "workers": 8}],
        "trusted": ["go-ethereum v1.17.5 accounts/abi (Arguments.Pack/Unpack, toGoType, lengthPrefixPointsTo, tuplePointsTo, forEachUnpack) is hand-modelled line by line in IbcVerif.Model.Abi for the five tuple shapes ibc-go uses; gogoproto-generated Unmarshal/skipPacket and cosmos-sdk unknownproto.RejectUnknownFieldsStrict (protowire.ConsumeTag/ConsumeBytes) in IbcVerif.Model.Proto; both tied by byte-exact differential testing in both directions (Go-encoded bytes decoded by the model, model encoder compared byte for byte with Go) plus mutated and random inputs with identical accept/reject decisions and values",
                    "math/big SetString base 10 / base 0 (sdkmath.NewIntFromString) hand-modelled in IbcVerif.Model.AbiAmount (tied by function amount.parse on boundary spellings)",
                    "JSON (encoding/json, ModuleCdc) is library code with no model: its round trip and panic-freedom are validated by the harness monitor only",
                    "Go byte slices are modelled as List UInt8 and Go slice expressions as G.slice/G.index that panic when out of [0,len]; the model's bound is len rather than cap, so a panic-free model implies a panic-free path in Go"],
        "assumptions": ["GoLen: encoded data is shorter than 2^63 bytes (true of every Go slice; the decoders' int64 guards need it)",
                        "values representable in the encoding: amount < 2^256; whole-second timestamps for StateAttestation; 32-byte path/commitment for PacketAttestation"],
        "level_text": "partial: proof for the Solidity-ABI codecs (ICS-20, GMP packet data + acknowledgement, attestation StateAttestation/PacketAttestation) and for the protobuf wire format of the three flat messages: round trip decode(encode x) = x, unknown-field rejection, and totality of every decoder in a model where each Go index/slice is an explicit panicking primitive; JSON round trip and no-panic of the real library decoders (go-ethereum abi, gogoproto, encoding/json) are correspondence-tested / fuzzed only; amount-as-integer for the ABI encoding is proved for every amount spelling ValidateBasic accepts (abi_same_transfer_full, true since fix 6129489; the former witnesses \"010\" / \"0x10\" are regression inputs)",
    },
    "C45": {
        "lean": ["IbcVerif.Props.C45"],
        # inventory of every range-over-map site in /repo/modules vs the site table in Props/C45.lean
        "pre": [{"name": "maprange-inventory (every `for range <map>` site in modules/** has a permutation-invariance theorem for its current code)",
                 "cmd": ["go", "run", "./maprange", "-repo", "{repo}", "-table", "{lean}/IbcVerif/Props/C45.lean", "-json", "{build}/maprange-inventory.json"],
                 "cwd": "extract-misc", "timeout": 1500}],
        "engines": [{"bin": "miscchain", "model": "misc", "model_exe": "miscmodel", "groups": ["determinism"],
                     "n": (2, 6), "monitor": (1, 2), "workers": 4, "timeout": 2400},
                    {"bin": "misc", "model": "misc", "model_exe": "miscmodel", "groups": ["maprange"],
                     "n": (600, 5000), "monitor": (300, 2000), "workers": 4}],
        "extra_obligations": 1,
        "rule": "determinism.replay: one case per generated history (seed -> 3-chain ibctesting history of 10-60 ops: ICS-20 transfers in every direction relayed / received-only / left in flight / timed out, voucher returns, ordered mock channel packets, IBC v2 mock packets and v2 ICS-20 transfers, packet-forward-middleware forwards with 0/1/2 hops relayed, client updates, empty blocks; then 3 forwards left in flight, PFM genesis import, ExportGenesis of every IBC module and ordered queries); the history is executed in two fresh processes (GOMAXPROCS=1 and 16) and the full transcripts (app hash + every store root after every block, op results, genesis digests, query digests, store dumps) are compared byte for byte; maprange.*: generated wiring sequences / key sets / genesis maps evaluated 6 times on the real code (Go re-randomises map order each time) and compared with the Lean fold; a case is non-trivial when it is not an error answer; distinct = distinct canonical request",
        "trusted": ["the map-range inventory tool (extract-misc/maprange: go/types over `go list -export` data for the root module and the nested 08-wasm module; syntactic fallback for files outside the default build) finds every `for range` over a map and every maps.Keys/Values/All, reflect MapKeys/MapRange, sync.Map.Range call; directories named `testing` below modules/ (test-support simapps) are listed but carry no obligation; generated *.pb.go / *.pb.gw.go / *.pulsar.go are excluded (gogoproto marshals the one proto map field, PFM GenesisState.in_flight_packets, in map order: its binary encoding is not canonical, the JSON used by genesis export is key-sorted by jsonpb)",
                    "each site's fold is hand-modelled from the Go loop (Model/MapRange.lean) and tied to the code by the hash of the enclosing function in the site table (an edited function breaks the obligation until re-confirmed) and by the maprange correspondence group",
                    "cosmos-sdk store semantics: writes of one block reach IAVL through cachekv in sorted key order, so equal final key/value content gives an equal store root regardless of write order (the PFM InitGenesis theorem is about key/value content)",
                    "slices.Sort sorts by Go's bytewise string order, a linear order (the Keys theorem is stated for any linear order)",
                    "goroutine scheduling, the runtime's map seed, GOMAXPROCS and everything outside ibc-go (SDK, CometBFT types, IAVL) are NOT proved deterministic: validated only by the two-process replay"],
        "assumptions": ["keys of one Go map are pairwise distinct ((keys l).Nodup) - a fact about maps",
                        "PrefixFree (keys prefixRoutes) for the v2 router theorems - discharged for every router reachable through AddRoute/AddPrefixRoute by api_router_reachable_prefixFree",
                        "determinism replay: validator and account keys are drawn from a seeded stream (crypto/rand.Reader replaced inside the child) so that both executions build identical chains; block time is ibctesting's fixed global clock"],
        "level_text": "partial: PROOF = order-independence (for all lists, l1 ~ l2 -> f l1 = f l2) of the fold at every one of the 6 inventoried range-over-map sites in non-test code of modules/** (05-port Router.Keys; api.Router AddRoute, AddPrefixRoute x2, getRoute incl. the prefix-free invariant over all wiring sequences; PFM InitGenesis), with the inventory/table match as an obligation of every run; the text of two start-up panic messages of AddPrefixRoute is proved order-DEPENDENT (names an arbitrary colliding route; not chain state). VALIDATION ONLY = byte-identical app hash after every block, exported genesis and ordered query results when a history is replayed in two fresh processes with different GOMAXPROCS and map seeds (runtime nondeterminism cannot be proved in the model)",
    },
    "C41": {
        "lean": ["IbcVerif.Props.C41"],
        "engines": [{"bin": "apps", "model": "ratelimit", "model_exe": "appsmodel", "groups": ["ratelimit"],
                     "n": (1200, 12000), "monitor": (1500, 15000), "workers": 8}],
        "rule": "ratelimit: seeded histories (8-58 ops) on the real rate-limiting keeper + v1 middleware + v2 middleware over a chain store: sends (keeper / v1 SendPacket / v2 OnSendPacket; native and voucher denoms; JSON, protobuf and ABI payloads), receives with scripted application verdict (success / error / async), success and error acks (v1 JSON error, v2 universal error ack), timeouts, async WriteAcknowledgement, BeginBlocker across hour boundaries, Add/Update/Remove/Reset, blacklist/whitelist, supply changes; amounts drawn around the remaining quota (+-1), zero, negative, 2^63, 10^25; percentages incl. 0, 100, negative and >100; plus an adversarial share outside core's guarantees (replayed sequences, duplicate / mismatching acks, unparseable data). Every op's answer carries the full canonical state (all limits, both pending sets, lists, epoch). A case is non-trivial when the op did not fail with an error class; distinct = distinct canonical request",
        "trusted": ["the rate-limit store is modelled with typed keys (denom, channelOrClientID): RateLimitItemKey is the plain concatenation denom++channelID and the whitelist key sender++receiver; distinct typed keys give distinct bytes only because channel/client identifiers that exist on a chain are never a proper suffix of one another (not proved here; C16 scope)",
                    "bank supply (GetChannelValue), existence of the channel/client named in AddRateLimit, the application's acknowledgement under the middleware and the denom/amount parsed by ParsePacketInfo (C42) are parameters of the model; the harness scripts them and passes the same values to the model",
                    "SDK CacheContext isolation of the receive transaction (error ack => writes discarded) is modelled by `recvPacket`; core's own discard is C09",
                    "sdkmath.Int = Lean Int, Quo = Int.tdiv (tied by negative / >100 percentages in the generator)"],
        "assumptions": ["WF (named hypothesis of flows_accounting / markers_are_open_packets): send sequences are fresh per (channel, denom) path (C08), received sequences are fresh (C01), sent amounts are positive and a non-positive received amount is answered with an error ack (ICS-20 validation), ack / timeout / async-ack carry the packet that was sent / received (C06)",
                        "zero channel value: CheckExceedsQuota never rejects when the channel value recorded at window start is 0 (explicit carve-out in the code, stated in WithinQuota); AddRateLimit refuses a zero supply but Update/Reset/epoch reset can record one"],
        "level_text": "full (after fix 05cc95a): accept <-> within quota for both directions; for ALL well-formed histories incl. Add/Update/Remove/Reset and epoch resets: inflow/outflow = accepted in window - undone in window, >= 0, channel value = supply at window start, pending markers = open packets of the window; undo at most once for all states; error-ack receive leaves the state unchanged. The pre-fix failure (F4) is kept as a regression theorem and monitor witness",
    },
    "C20": {
        "lean": ["IbcVerif.Props.C20"],
        "engines": [{"bin": "tmclient", "model": "tmclient", "model_exe": "tmmodel", "groups": ["update"],
                     "n": (250, 800), "monitor": (250, 1200), "workers": 8}],
        "rule": TM_RULE,
        "trusted": TM_TRUSTED,
        "assumptions": ["HistOK (named hypothesis of cons_never_overwritten): when the migration-only entry point PruneAllExpiredConsensusStates runs, the client's stored timestamps increase with height - discharged for every history without pruneAll (histOK_without_pruneAll) and for every update/misbehaviour/prune history from the empty chain (never_overwritten_update_histories, via C23); open only for pruneAll after a recovery/upgrade that broke timestamp order",
                        "WInv (world invariant) - proved for every reachable world (reachable_winv)"],
        "level_text": "full: for all histories of create/update(valid adversarial)/misbehaviour/time/upgrade/recover ops a stored consensus state is later unchanged or gone for good (Later), removed only if expired, duplicate = prune-only no-op, conflicting verified header and valid misbehaviour freeze and write nothing else, recovery/upgrade write strictly above every stored height; CometBFT light.Verify / VerifyCommitLightTrusting verdicts are universally quantified parameters",
    },
    "C34": {
        "lean": ["IbcVerif.Props.C34"],
        "engines": [{"bin": "xfer", "model": "xfer", "model_exe": "xfermodel", "groups": ["denom"],
                     "n": (400, 6000), "monitor": (1500, 30000), "workers": 8, "timeout": 7000}],
        "rule": "denom: per iteration one generated path string (1-7 '/'-separated segments drawn from identifier-like pools: channel-N with 64-bit boundary / leading-zero / 21-digit suffixes, <type>-N client ids incl. 09-localhost and malformed variants, port names, bases incl. blank/whitespace, random strings over the denomination alphabet; leading/trailing/double '/') is pushed through ExtractDenomFromPath (+Validate, Path, IBCDenom), the four identifier recognisers and the two ICS-24 validators, MsgTransfer coin validation, a constructed Denom (Path/IBCDenom/HasPrefix), GetEscrowAddress, and both rate-limit parsers; every 4th iteration Keeper.OnRecvPacket is run on a scratch chain to observe the coin really moved. A case is non-trivial when the implementation did not answer with an error class; distinct = distinct canonical request",
        "trusted": ["Go strings are modelled as List Char; generators keep them ASCII (bytes = characters); strings.TrimSpace / regexp \\w / [0-9] re-implemented as recognisers (Model/Denom.lean) and tied to the code by the correspondence on the alphabet-covering corpus",
                    "SHA-256 is a parameter of every theorem (hashHex / h20); the driver's executable SHA-256 (Model/DenomSha256.lean) is compared with crypto/sha256 through every voucher name and escrow address of the run",
                    "the denomination store is the typed list of Model/Ics20.lean (SetDenom is its only writer); byte-level key layout is C16's business"],
        "assumptions": [],
        "level_text": "full: path round trip for every accepted path, characterisation of the hop loop, voucher name = ibc/ + hash of exactly the path (independent of the split), escrow pre-image injective on '/'-free ports (collision-extraction form for the 20-byte hash), every denom-store entry keyed by the hash of its own path over all ICS-20 histories",
    },
    "C42": {
        "lean": ["IbcVerif.Props.C42"],
        "engines": [{"bin": "xfer", "model": "xfer", "model_exe": "xfermodel", "groups": ["denom", "findings"],
                     "n": (400, 6000), "monitor": (1500, 30000), "workers": 8, "timeout": 7000},
                    {"bin": "xfer", "model": "xfer", "model_exe": "xfermodel", "groups": ["world", "hoplike"],
                     "n": (200, 900), "monitor": (0, 0), "workers": 8, "timeout": 7000}],
        "rule": "denom/findings: as C34 plus deterministic replays of the pre-fix witnesses on the real modules (pure calls and a 3-chain history: every look-alike native coin must be rejected by Transfer over v1, alias and v2 paths, the honest voucher must still return); world/hoplike: seeded histories (60-120 ops) on three ibctesting chains with v1 channels, their v2 aliases and direct v2 clients (hoplike: users additionally hold native coins shaped like voucher paths): after every successful MsgTransfer the coin debited from the sender (bank balance diff) is compared with ParseDenomFromSendPacket of the real packet data, after every successful receive the coin credited to the receiver with ParseDenomFromRecvPacket. A case is non-trivial when the op did not fail with an error class; distinct = distinct canonical request",
        "trusted": ["Go strings are modelled as List Char; generators keep them ASCII; the hash is a parameter of every theorem (driver SHA-256 tied through every voucher name of the run)",
                    "the coin ICS-20 moves is *defined* in the stateful model (Model/Ics20.lean sendTransfer / onRecvPacket) through the same two functions the theorems speak about (ics20SendCoinDenom / ics20RecvCoinDenom); that model is tied to relay.go by the world correspondence",
                    "which channel the charge is booked under (source channel on send, destination channel on receive) and the v2 middleware's payload decoding are not modelled here (apps cluster, C41)"],
        "assumptions": ["SendAccepted d: hop-free base (enforced by Transfer since 4b2f809), hops '/'-free with ibc-go formatted channel ids (stored vouchers: produced by ExtractDenomFromPath and this chain's own channel ids), path not starting with \"ibc/\" (the transfer port is not literally named ibc)"],
        "level_text": "full (after fixes 4b2f809, 143f4d3): send side for every token Transfer accepts, receive side for all paths and channel pairs (definitional agreement); the three pre-fix refutations (F3 send, F5 foreign channel id, two-segment base) are kept as regression theorems and replayed on the real code every run",
    },
    "C44": {
        "lean": ["IbcVerif.Props.C44"],
        "engines": [{"bin": "miscchain", "model": "misc", "model_exe": "miscmodel", "groups": ["genesis"],
                     "n": (5, 14), "monitor": (3, 10), "workers": 4, "timeout": 2400}],
        "rule": "genesis.roundtrip: one case per history. A history is executed with ibctesting's real message flow (signed txs, 07-tendermint clients, IAVL proofs) on chain A against counterparty B: light-client pairs (equal and distinct ids), connections, v1 channels (mock UNORDERED = aliased, mock ORDERED, ICS-20; fully opened or left in INIT / TRYOPEN), v2 counterparty registration, v1 / v2 / v2-over-alias packets in every life-cycle stage (sent, received, acknowledged; sync / error / async application results; short and long timeouts), client updates, v2 client configs (client and alias ids), creator deletion, ICS-20 transfers both ways, rate limits + black/white lists, a packet-forward in-flight record, interchain accounts (A as controller and as host), an ICS-27 GMP account. 4 fixed histories run first on every invocation (smallest F8 witness, F8 traffic witness, equal-client-id witness, all-application-stores), then n generated histories (quick: <= 14 ops, thorough: <= 36 ops; every third one alias-free so that lossless round trips are covered). Then ExportGenesis of ibc core + transfer + rate-limiting + PFM + ICA + GMP -> JSON -> ValidateGenesis -> InitGenesis into an untouched third chain; the case input is the typed state of A's ibc store before the export, the implementation answer is the typed state of the importing chain's ibc store afterwards (or the InitGenesis panic class) + whether the re-export is byte-equal; the Lean model answers initGenesis (exportG s). A case is non-trivial when the import did not panic; distinct = distinct canonical request",
        "trusted": ["typed-store abstraction: the ibc store is modelled as typed maps per key kind (24-host, 24-host/v2, 04-channel/v2/types/keys.go, client prefix stores); that distinct typed keys are distinct byte keys is C16's statement. The harness classifies every raw key of the real store into a kind and keeps unknown keys in `other`, which the model exports nowhere - so an unclassified key is predicted lost and shows up, never ignored",
                    "store values are opaque to the model (rendered as hex up to 8 bytes, else truncated SHA-256): Export/InitGenesis decode and re-encode values (proto, Any); that this is the identity on bytes is checked on the real bytes by the store diff of every run, not proved. The one value field the code inspects (counterparty client id, for clientv2 genesis validation) is decoded by the harness and passed as Env.cpId",
                    "only the ibc core store is modelled in Lean; the transfer, rate-limiting, packet-forward, ICA controller/host and GMP stores are dumped and diffed byte for byte, their genesis is JSON round-tripped, validated and re-exported, and ICS-20 packets are continued after the import (monitor only)",
                    "x/bank state is not IBC genesis: the harness re-creates the balances of A's ICS-20 escrow accounts on the importing chain (a chain restarted from a complete export has them)",
                    "the importing chain is a different chain (other chain id / validators): only steps handled ON the imported chain with proofs FROM the counterparty are continued (receive, acknowledge, time out, async ack, new sends); whether the counterparty can keep verifying the restarted chain is outside IBC genesis and out of scope",
                    "ibctesting runs InitChain with a zero block time, which leaves rate-limiting's hour epoch uninitialisable (epoch 0 / start 0001-01-01); the harness re-initialises it on all chains as InitGenesis does with a real block time. Observation (not reported as a finding): an export taken while EpochNumber == 0 (first hour of a chain started between 00:00 and 01:00 UTC) is treated as uninitialised by InitGenesis and re-seeded from the importing block"],
        "assumptions": ["WF env s: every typed map strictly sorted by key (no duplicate keys - a fact about KV stores), the sentinel connection-localhost present with the value CreateSentinelLocalhostConnection writes, receipts hold the fixed receipt byte (01 / 02), every channel has a nextSequenceSend entry (otherwise GetAllPacketSendSeqs panics) - all true of every state the handlers produce; satisfiable (examples in Props/C44.lean)",
                        "NoAliasState s (hypothesis of import_export_id_partial, proved to be the weakest possible by import_export_id_only_if): no <id>alias entries, no unknown keys; every client-store entry is a consensus state or belongs to an id that owns a clientState; every v2 commitment/receipt/ack/async packet belongs to a light-client id; every nextSequenceSend belongs to a v1 channel or a light client",
                        "not SelfNamedCounterparty env s (second hypothesis, also necessary): no light client whose registered v2 counterparty carries the client's own identifier"],
        "level_text": "partial: PROOF (Lean, for all well-formed typed states of the ibc core store) = exact characterisation of export->import: initGenesis (exportG s) = some (dropAlias s) unless a self-named v2 counterparty exists, in which case it is none (InitGenesis panics) - hence identity exactly on alias-free states (import_export_id_partial + import_export_id_only_if), re-export equals the first export (reexport_idempotent) and a second round changes nothing (import_export_stable). The property as stated is FALSE of the code: kernel-checked witnesses import_export_id_full_false (F8: alias-keyed counterparty/alias/v2 packet state/config dropped) and import_export_id_full_false_selfnamed (F8b: the chain's own export is rejected); both are replayed on the real code on every run and recorded as known findings. CORRESPONDENCE = the model predicts byte-for-byte (typed key, value digest) the ibc store the real InitGenesis produces on a fresh chain for every generated history. MONITOR ONLY = application stores (transfer, rate-limiting, PFM, ICA, GMP: store diff + re-export), JSON/Validate round trip, and behavioural continuation (recv / replayed recv / ack / timeout / async ack / new send for v1, v2 and v2-over-alias) on original vs imported chain",
    },
    "C47": {
        "lean": ["IbcVerif.Props.C47"],
        "pre": [{"name": "panic-site-inventory (facts_match_panics)", "cwd": "extract-panics",
                 "cmd": ["go", "run", ".", "-repo", "{repo}", "-table", "sites.json", "-lean", "{lean}/IbcVerif/Props"]}],
        "extra_obligations": 1,
        "engines": [{"bin": "misc", "model": "misc", "model_exe": "miscmodel", "groups": ["fuzz"],
                     "n": (150, 4000), "monitor": (2500, 60000), "workers": 8}],
        "trusted": ["library functions the parsers call (strings.Split/Join/TrimSpace, strconv.ParseUint, regexp MatchString, hex.DecodeString, json.Unmarshal) are parameters of the model (structure Lib): the totality theorems hold for every behaviour of them, assuming only that strings.Split with a non-empty separator returns a non-empty slice (Lib.SplitNonEmpty, proved for the executable instance Lib.go); the executable instance (hand-written recognisers for the four regular expressions) is tied by the fuzz correspondence on identifier-, chain-id-, path- and memo-shaped inputs",
                    "the panic-site inventory (extract-panics, syntactic go/ast) covers index, slice, unchecked type-assertion, explicit panic and Must* call expressions of the anchored files; nil-pointer dereferences are not syntactically inventoried - they are only found by the fuzz monitor (and were: see known findings)",
                    "ValidateBasic bodies and library decoders (gogoproto, encoding/json, ModuleCdc, go-ethereum abi, CometBFT validation) are explored, not proved: reflective generator over all 66 ValidateBasic types + 9 Validate types of the main module (08-wasm is a separate Go module and is not covered), seed corpus of fully valid messages with 0-3 adversarially refilled fields, wire round trips with byte mutations"],
        "assumptions": ["Lib.SplitNonEmpty (strings.Split contract)",
                        "GetHeightFromIterationKey / extractSequenceFromKey / GetDenomFromIBCDenom: exact length preconditions (38 bytes; 0 or 8 byte suffix; 4 bytes), satisfied by every key the keepers write and by the guarded in-tree callers"],
        "level_text": "partial: proof (for all inputs and all library behaviours) of panic-freedom or of the exact panic precondition for the ibc-go-authored parsers ParseClientIdentifier, ParseHeight, ParseChainID, SetRevisionNumber, ParseIdentifier, ParseChannelSequence, ParseConnectionSequence, ParseChannelPath, ParseConnectionPath, parseClientStatePath, ExtractDenomFromPath, GetDenomFromIBCDenom slicing, GetHeightFromIterationKey, extractSequenceFromKey, PFM forward-metadata and callbacks memo extractors (+ the packet-data decoders of C35); exploration only (seeded structure-aware fuzzing under recover) for the ValidateBasic bodies of the message types and for library decoders; the 9 panics it found (8 nil-dereference / library-panic sites in ValidateBasic or UnpackInterfaces, ParseChainID overflow) are fixed in /repo and kept as a regression corpus",
    },
    "C22": {
        "lean": ["IbcVerif.Props.C22"],
        "engines": [{"bin": "tmclient", "model": "tmclient", "model_exe": "tmmodel", "groups": ["raw"],
                     "n": (250, 1000), "monitor": (400, 2000), "workers": 8},
                    {"bin": "tmclient", "model": "tmclient", "model_exe": "tmmodel", "groups": ["update"],
                     "n": (150, 500), "monitor": (100, 700), "workers": 8}],
        "rule": "raw: seeded histories (10-50 ops) on a scratch 07-tendermint client store through the package's own store functions (setConsensusState+setConsensusMetadataWithValues, deleteConsensusState+deleteConsensusMetadata, pruneOldestConsensusState via verif hooks; PruneAllExpiredConsensusStates, GetNext/GetPreviousConsensusState, IterateConsensusStateAscending, Get* exported) with arbitrary (revision, height) drawn from a table of values whose big-endian bytes contain 0x2F / 0xFF / 0x00 (+-1), boundary and random 64-bit values, few revisions per history so that heights collide and neighbour; timestamps around now - trustingPeriod; plus the pure functions bigEndianHeightBytes, calculateNewTrustingPeriod (up to 2^62 ns), ParseChainID, IsExpired at the boundary. " + TM_RULE,
        "trusted": TM_TRUSTED,
        "assumptions": [],
        "level_text": "full: MetaInv (consensus state <-> processed time <-> processed height <-> iteration entry, entry stored under BE64(rev)++BE64(height), strictly ascending, one per height) proved for every reachable world and preserved by every operation; bytewise order of iteration keys = height order for ALL 64-bit (rev, height); ascending iteration = stored heights in height order; GetNext/GetPrevious = true neighbours (iff, incl. the stored-height branch); pruneOldest removes at most the least height, only if expired, with all three metadata entries, never panics on a consistent store",
    },
    "C23": {
        "lean": ["IbcVerif.Props.C23"],
        "engines": [{"bin": "tmclient", "model": "tmclient", "model_exe": "tmmodel", "groups": ["update"],
                     "n": (250, 800), "monitor": (250, 1200), "workers": 8}],
        "rule": TM_RULE,
        "trusted": TM_TRUSTED,
        "assumptions": ["ts_mono_recover_partial / ts_mono_upgrade_partial: the substitute's / upgraded consensus timestamp exceeds every stored timestamp of the subject (ibc-go does not check it; ts_mono_all_ops_full_false is the kernel-checked witness; outside the property's quantifier, which is about header submissions)"],
        "level_text": "full for the property as stated (updates): for every store satisfying the invariant and every header/verdict a newly stored consensus state lies strictly between the timestamps of its true neighbours (before and after the pruning that UpdateState performs), a violating verified header freezes the client and writes nothing else, and over all update/misbehaviour/prune histories from the empty chain stored timestamps strictly increase with height; recovery/upgrade preserve monotonicity only under a named hypothesis (proved necessary by witness)",
    },
    "C40": {
        "lean": ["IbcVerif.Props.C40"],
        "engines": [{"bin": "apps", "model": "callbacks", "model_exe": "appsmodel", "groups": ["callbacks"],
                     "n": (1500, 30000), "monitor": (1500, 30000), "workers": 8}],
        "exhaustive": True,
        "rule": "callbacks: (1) the finite outcome matrix EXHAUSTIVELY on every run: entry point {SendPacket/OnSendPacket, OnAcknowledgementPacket, OnTimeoutPacket, OnRecvPacket, WriteAcknowledgement} x {v1, v2 middleware} x contract behaviour {return nil, return error, panic} x out-of-gas handling {propagate, swallow->nil, swallow->error} x gas position {0, exec/2, exec, exec+1, 3*exec} x retry condition {exec<commit, exec=commit} (900 cases); (2) every application verdict that bypasses the callback and 14 well/ill-formed memo shapes per entry point; (3) boundary triples (user, remaining, max) through the public GetCallbackData incl. 0, max-1, max, max+1, 2^64-1, unparsable / non-string gas limits; (4) random walks. The contract keeper, the underlying application, the ICS4 wrapper and the caller's gas meter are scripted; the middleware, ProcessCallback, GetCallbackData and the SDK gas meter are real. Observed per case: handler result class, contract called, contract write visible in the handler's context, gas charged to the caller, ProcessCallback's error class and both gas limits from the emitted event. A case is non-trivial when no error class; distinct = distinct canonical request",
        "trusted": ["the contract keeper (ContractKeeper interface) is a parameter: gas consumed, return nil / error / panic, optionally swallowing its own ErrorOutOfGas; contracts that do arbitrary other things (e.g. consume gas in several steps, write after consuming) are represented by their total consumption and final behaviour",
                    "SDK basicGasMeter semantics (consume-then-panic, GasConsumedToLimit, IsPastLimit) hand-modelled; CacheContext isolation of the callback's writes is SDK behaviour (observed through a store write in the harness)",
                    "transaction-level revert on error / panic is the SDK's (the model reports `err` / `aborted`); 'error ack => no application state' is C09"],
        "assumptions": ["gas values are uint64 in the code and Nat in the model; the only additions are bounded by callback_gas_bounded"],
        "level_text": "full (after fix 7bc25b2): gas limits, gas bound, the ProcessCallback outcome matrix, never-blocks (ack/timeout/async-ack), failed callback's writes discarded, writes kept iff success within the limit, retry-abort, send rejection and destination error-ack - for EVERY contract behaviour incl. keepers that swallow their own out-of-gas panic (the pre-fix failure is kept as a regression theorem and monitor case)",
    },
    "C21": {
        "lean": ["IbcVerif.Props.C21"],
        "engines": [{"bin": "tmclient", "model": "tmclient", "model_exe": "tmmodel", "groups": ["update", "recover", "upgrade"],
                     "n": (120, 500), "monitor": (120, 800), "workers": 8}],
        "rule": TM_RULE + TM_RULE_RU,
        "trusted": TM_TRUSTED + ["consumers outside the 02-client keeper (03-connection ConnOpenInit, 04-channel ChanOpenInit/ChanCloseInit/SendPacket, 04-channel/v2 sendPacket, ante decorator, rate-limiting, gRPC query) call GetClientStatus themselves: the status function is proved exact here, their handlers are modelled by the chain cluster; all other handshake/packet steps reach the client only through Keeper.VerifyMembership/VerifyNonMembership (checked by grep of the call sites, listed in Props/C21.lean)"],
        "assumptions": ["WInv (world invariant) - proved for every reachable world"],
        "level_text": "full for the 02-client keeper: status is exactly Frozen / Expired (missing latest consensus state or ts+trustingPeriod <= now, inclusive) / Active / Unknown; latest height never decreases over all histories of all operations; UpdateClient (headers and misbehaviour), UpgradeClient, VerifyMembership, VerifyNonMembership on a non-Active client fail with ErrClientNotActive and write nothing; RecoverClient refuses an Active subject and a non-Active substitute; a frozen client stays frozen until a successful recovery. Status checks of the packet/handshake handlers are the chain cluster's (C08, C12-C14)",
    },
    "C24": {
        "lean": ["IbcVerif.Props.C24", "IbcVerif.Props.C24Power"],
        "engines": [{"bin": "tmclient", "model": "tmclient", "model_exe": "tmmodel", "groups": ["verify"],
                     "n": (300, 1200), "monitor": (100, 400), "workers": 8},
                    {"bin": "tmclient", "model": "tmclient", "model_exe": "tmmodel", "groups": ["power"],
                     "n": (2000, 15000), "monitor": (0, 0), "workers": 8},
                    {"bin": "tmclient", "model": "tmclient", "model_exe": "tmmodel", "groups": ["update"],
                     "n": (100, 400), "monitor": (0, 0), "workers": 8}],
        "rule": "verify: seeded histories on a real client whose trusted next-validator set V1 has unequal powers ({5,4,3,2,1}, {10,1,1}, {7,5,2,1}, {3,3,3}, {1}, ...) and trust level 1/3, 1/2, 2/3 or 1; headers (adjacent and non-adjacent, signed by V1 or by a changed set V2 sharing some validators) derived from honestly signed ones by one mutation each: random / single / all-but-one absent signers, corrupted signatures, trusted validators replaced by V2 / power altered / proper subset / nil, unknown trusted height, height <= trusted, other revision, other chain name, time <= trusted time, time at now+drift-1ns/=/+1ns, trusted state at expiry-1ns/=/+1ns, validator set not matching its hash or nil, adjacent header with a foreign set, signed field altered after signing; misbehaviour pairs with the same mutations. The verdicts of light.Verify / VerifyCommitLight / VerifyCommitLightTrusting are computed by the harness by calling CometBFT; for every such header an lv.verify case additionally compares the hand model of light.Verify (fed with the harness's symbolic knowledge of who signed what) with the real light.Verify. power: validator sets of 1-7 validators with powers from {1,2,3,5,10,33,34,100}, commits with good / absent / nil / corrupted / wrong-chain / wrong-address / duplicated signatures, evaluated by the real VerifyCommitLight and VerifyCommitLightTrusting (trust levels 1/3, 1/2, 2/3, 3/4, 1) against the hand model over symbolic signatures. " + TM_RULE,
        "trusted": TM_TRUSTED + ["CometBFT's verification (signature checks, >2/3 of the header's own set, trust level of the trusted set, trusting period, clock drift, monotone time, chain id in the sign bytes) is NOT proved: it is the parameter `valid` of the model; the harness evaluates it with the real library on honestly signed and mutated headers, so what is tied is ibc-go's wiring (which consensus state, period, clock, trust level, chain id it passes) and its own checks"],
        "assumptions": ["valid / v1 / v2: verdicts of light.Verify and VerifyCommitLightTrusting (universally quantified in Props/C24.lean)",
                        "Props/C24Power.lean: symbolic signatures (a signature verifies for a validator and sign bytes iff it was produced by that validator's key over exactly those bytes) - the Dolev-Yao idealisation of ed25519 unforgeability; the hand model Model/TmLight.lean of CometBFT v0.40 verifyCommitSingle/Batch and light.Verify (tied to the library by the power and lv.verify correspondence cases, not proved about the Go code)"],
        "level_text": "partial: ibc-go's own acceptance conditions proved as exact iffs for all headers and misbehaviour messages (trusted consensus state exists, trusted validators hash = its next-validators hash, same revision, strictly greater height, protobuf parts convert, then light.Verify; for misbehaviour: ValidateBasic conditions, Active, both trusted states exist and are younger than the trusting period, trusted validators match, VerifyCommitLightTrusting, and the pair is a fork or a time violation); every listed mutation is rejected and writes nothing; the cryptographic / voting-power part is CometBFT's and enters as a parameter; additionally, for a hand model of CometBFT's commit verification over symbolic signatures: acceptance implies strictly more than 2/3 of the header's own power and strictly more than the trust level of the trusted set validly signed, within trusting period and clock drift (lightVerify_sound, header_accepted_fully), honest commits are accepted, commits whose sign bytes changed are rejected",
    },
    "C25": {
        "lean": ["IbcVerif.Props.C25"],
        "engines": [{"bin": "tmclient", "model": "tmclient", "model_exe": "tmmodel", "groups": ["recover", "upgrade"],
                     "n": (250, 1000), "monitor": (250, 1500), "workers": 8}],
        "rule": TM_RULE_RU,
        "trusted": TM_TRUSTED + ["ICS-23 membership verification of the upgraded client / consensus state is a parameter; the harness computes it with 23-commitment's VerifyMembership on the root of the client's latest consensus state, the path built from the CLIENT's upgrade path and latest height, and the bytes the specification says are committed (ZeroCustomFields of the submitted client; the submitted consensus state)",
                                  "calculateNewTrustingPeriod is modelled with LegacyDec's 18-decimal round-half-even quotient (tied by the calcTP correspondence up to 2^62 ns)",
                                  "client type check of the substitute (LightClientModule.RecoverClient) is outside the model: all clients are 07-tendermint"],
        "assumptions": ["MetaInv of the substitute's store (part of the proved world invariant): an Active substitute has processed time/height for its latest consensus state"],
        "level_text": "full for gates, effects and confinement (upgrade proofs via oracle): recovery succeeds iff subject exists and is not Active, substitute Active, strictly greater latest height, IsMatchingClientState (= equality of trust level, unbonding period, clock drift, proof specs, upgrade path); effect = unfrozen + substitute's latest height / chain id / trusting period + its latest consensus state with processed time/height, nothing else, subject Active afterwards; upgrade succeeds iff Active, bytes decode, strictly greater height, non-empty upgrade path, both proofs verify, new client state validates; effect = chain-chosen fields from the committed client, own trust level and clock drift kept, trusting period scaled iff unbonding shrank (= floor(tp*ub'/ub) exactly, for unbonding periods < 10^18 ns), sentinel-root consensus state + metadata at the new height; relayer-chosen fields ignored; failures write nothing; no other client, clock or counter changes",
    },
    "C32": {
        "lean": ["IbcVerif.Props.C32"],
        "engines": [{"bin": "xfer", "model": "xfer", "model_exe": "xfermodel", "groups": ["world", "hoplike", "findings"],
                     "n": (260, 900), "monitor": (0, 0), "workers": 8, "timeout": 7000}],
        "rule": "world/hoplike: seeded histories (60-120 ops, then a drain that resolves every packet) on three ibctesting chains with four v1 transfer channels, their v2 aliases and direct v2 clients: MsgTransfer (native / voucher / multi-hop, amounts incl. 0, 1, 2^63, balance+1, the 2^256-1 entire-balance sentinel; receivers incl. blocked module accounts, undecodable strings, escrow addresses, blank; signer/sender mismatches; direct msg-server calls; past / zero / near / far timeouts), raw v2 MsgSendPacket, relay recv / ack / timeout in any order with duplicates, receive / send disabled through params, bank sends incl. into escrow accounts, time jumps; every op's answer carries the canonical delta of all balances, supplies, tracked escrow and stored denominations of the executing chain and is compared with the Lean model; monitors: the refund delta of every timeout / error ack must be the exact inverse of the send delta of that packet, a success ack or a failed / redundant message must change nothing; findings: the pre-fix witnesses as regression cases. A case is non-trivial when the op did not fail with an error class; distinct = distinct canonical request",
        "trusted": ["core IBC (which callback runs when) is abstract in the model; the driver's packet layer and the LifecycleOK hypothesis state what C01/C03/C04/C06 provide; the harness exercises the real core handlers with real proofs",
                    "SDK bank keeper (SendCoins/MintCoins/BurnCoins), address codec, blocked-address list, CacheContext / transaction atomicity are parameters of the model (Config, Bank) and are exercised for real by the harness",
                    "timeout-on-close is modelled (Op.timeout p true) but not exercised by the harness (transfer channels cannot be closed by users; the generator always relays MsgTimeout)"],
        "assumptions": ["LifecycleOK (named hypothesis): fresh sequences (C08), receive only of sent packets (C05) at most once (C01), timeout excludes receive (C04), ack carries the receiver's result (C06), at most one of ack/timeout completes (C03)",
                        "StoreStable: stored denominations re-parse to themselves — proved along all LifecycleOK histories (Ics20.storeStable_run) under PeerIdsOK (destination channel/client ids in ibc-go's format)"],
        "level_text": "full: the refund (timeout, v1 error ack, v2 sentinel) is the exact inverse of the send on every balance, supply and tracked-escrow entry of the sending chain for native and voucher tokens over v1, alias and v2 (frame law over arbitrary interleavings); credits exactly the sent amount to the original sender; completes at most once along every lifecycle-respecting history; a success ack changes nothing; v1/v2 ack decoding. The pre-fix failure (refund of a hop-like native minted a voucher) is repaired by 4b2f809 and replayed as a regression case. Timeout-on-close: Op.timeout carries the onClose flag (MsgTimeoutOnClose, v1); it is the same callback (timeout_on_close_same_callback) admitted by core only for never-received packets (Guard, C03/C14), so refund_restores / refund_credits_sender / refund_at_most_once cover it",
    },
    "C49": {
        "lean": ["IbcVerif.Props.C49"],
        "engines": [{"bin": "xfer", "model": "xfer", "model_exe": "xfermodel", "groups": ["world", "hoplike"],
                     "n": (260, 900), "monitor": (0, 0), "workers": 8, "timeout": 7000}],
        "rule": "as C32 (world/hoplike); monitors: after every successful MsgTransfer / MsgSendPacket the only debited account is the message's sender and that sender signed the transaction; a receive credits only the packet receiver and debits only the destination channel's escrow; a refund credits only the original sender and debits only escrow; relays are signed by random local accounts. A case is non-trivial when the op did not fail with an error class; distinct = distinct canonical request",
        "trusted": ["the SDK delivers a MsgTransfer / MsgSendPacket only when the account named by its signer annotation signed the transaction (ante handler); in the model `step` rejects a transaction whose signer differs from the sender; the harness signs with mismatching keys (sdk/8) to tie this",
                    "authz (MsgExec) grants are not modelled here (C36 covers TransferAuthorization.Accept); packet-forward's override receiver is outside this model (apps cluster)",
                    "relayer identity: the callbacks of the model have no relayer argument because the Go callbacks never read it; the harness relays with random accounts"],
        "assumptions": [],
        "level_text": "full for v1 MsgTransfer, v2-over-alias and raw v2 MsgSendPacket, receives, acknowledgements, timeouts: per-step theorems over ALL worlds and ops (no lifecycle hypothesis needed): a non-escrow account is debited only by its own transfer / send-packet (signer = sender) or its own bank send; credits go only to the source escrow (send), the packet receiver (receive), the original sender (refund)",
    },
    "C37": {
        "lean": ["IbcVerif.Props.C37"],
        "engines": [{"bin": "apps", "model": "ica", "model_exe": "appsmodel", "groups": ["ica"],
                     "n": (400, 8000), "monitor": (300, 6000), "workers": 4, "timeout": 3000}],
        "rule": "ica/exec: the real ICA host keeper's OnRecvPacket on a cache context of a host chain with an established interchain account (real handshake), packet data serialized from real sdk.Msgs: 0-4 messages of bank MsgSend / bank MsgMultiSend (0, 1 or 2 inputs = 0, 1 or 2 signers) / ibc MsgTransfer (with ValidateBasic), signers in {the ICA, the funded chain sender, an unfunded stranger}, allow lists {[], [*], [* + type], explicit subsets}, unregistered controller port, unknown channel, handlers failing at any position (insufficient funds). Observed: result class, which messages' effects persisted (recipient balances), whether the ICA / another account was debited. The same binary also runs the C38 lifecycle histories. Non-trivial = no error class; distinct = distinct canonical request",
        "trusted": ["message handlers, ValidateBasic, GetMsgV1Signers and the msg router are parameters of the model (universally quantified); the harness supplies ground truth for them from what it constructed (who signs, whether the amount is affordable)",
                    "SDK CacheContext isolation (executeTx's cacheCtx/writeCache) is SDK behaviour; the model writes the state only after the loop, the harness observes bank balances on the handler's context",
                    "packet data / cosmos tx (de)serialization is exercised with real codecs but not modelled (C35)"],
        "assumptions": ["a message WITHOUT signers passes the signer loop vacuously (zero_signer_passes states the code's behaviour); its effect is then up to its handler"],
        "level_text": "full (decision logic + atomicity, handlers as parameters): exec ok <-> channel exists, account registered for (connection, port), every type allow-listed ('*' only alone), every signer of every message = the ICA, every ValidateBasic and handler ok in order; any failure leaves the host state unchanged; a state change implies full authentication of ALL messages before any executed",
    },
    "C38": {
        "lean": ["IbcVerif.Props.C38"],
        "engines": [{"bin": "apps", "model": "ica", "model_exe": "appsmodel", "groups": ["ica"],
                     "n": (400, 8000), "monitor": (300, 6000), "workers": 4, "timeout": 3000}],
        "rule": "ica/lifecycle: histories of 12-36 ops on two real ibctesting chains joined by a real connection, every handshake step through core IBC with real proofs: MsgRegisterInterchainAccount (msg server) and third-party MsgChannelOpenInit on owners' ports (blank / garbage / explicit metadata with single-field mutations; ordered / unordered; unknown connection; wrong counterparty port; port without the dash), ChanOpenTry / Ack / Confirm in adversarial order incl. crossing INITs and repeated TRYs, ORDERED-channel closing (core's effect), host close-confirm, MsgSendTx (owner's port, bad timeout, bad data), refused flows (host INIT, controller TRY, CloseInit), enabling/disabling either submodule. Fresh owners per history; channel ids and generated account addresses compared by first-appearance names. Answer = result class + both chains' active-channel maps, account maps and channel ends of the history. The same binary also runs the C37 exec cases",
        "trusted": ["core IBC's channel handshake is abstracted to what it guarantees the application (C12): TRY needs the controller end in INIT, ACK the host end in TRYOPEN for this channel, CONFIRM the controller end OPEN (latest-state proofs, as the harness relays); closing an ORDERED channel on timeout is core's effect, applied directly under the same precondition",
                    "MsgSendTx / MsgRegisterInterchainAccount have the single signer `owner` (proto annotation cosmos.msg.v1.signer; SDK signature verification is outside ibc-go) - sendTx models signer != owner as refused",
                    "typed keys (connection, port) for the active-channel / account stores (C16)"],
        "assumptions": ["honest relay of the version strings between the two ends (what core's proofs enforce)"],
        "level_text": "controller side full (for all histories incl. crossing handshakes): an OPEN ICA channel is THE active channel of its (connection, owner) so at most one is OPEN; the active channel is replaced only after CLOSED; reopening keeps ordering and metadata; owner-only SendTx on the owner-derived port (injective) and the open active channel; only the controller initiates, towards icahost. Host side: account address of a key never changes (reopen reuses it), TRY requires the previous active channel CLOSED; partial: 'replaced only after CLOSED' is refuted for OnChanOpenConfirm (kernel-checked 9-op witness replayed on real chains; open known finding)",
    },
    "C39": {
        "lean": ["IbcVerif.Props.C39"],
        "engines": [{"bin": "apps", "model": "gmp", "model_exe": "appsmodel", "groups": ["gmp"],
                     "n": (400, 20000), "monitor": (600, 30000), "workers": 8}],
        "rule": "gmp: (addr) types.BuildAddressPredictable on (client id, sender, salt) triples - empty / NUL / random / length-prefix-looking / long byte strings, and for each triple a second one with the SAME raw concatenation (boundary between sender and salt moved) - compared byte for byte with the model's length-prefixed key hashed by the model's own executable SHA-256; (recv) histories of keeper.OnRecvPacket over a few triples: real bank MsgSend / MsgMultiSend with 0, 1, 2 signers in {the account, a stranger}, empty message list, failing handlers at any position; the account of a triple is reported after every packet (mapping stability), effects read off balances, failed receives rolled back as core does; (send) IBCModule.OnSendPacket with sender = / != signer, unparsable sender, bad ports / client ids / data. Non-trivial = no error class; distinct = distinct canonical request",
        "trusted": ["SHA-256 is a parameter H of the theorems (collision-extraction form) and the executable FIPS-180-4 model of IbcVerif.Model.Sha256 in the driver (tied here by the address comparison)",
                    "message handlers / ValidateBasic / GetMsgV1Signers / msg router are parameters as in C37; SDK CacheContext isolation",
                    "the Accounts collection is modelled with the typed key (client, sender, salt); collections' Triple key codec is not modelled (C16)",
                    "ClientIdentifierValidator / blank-sender rejection in BuildAddressPredictable are outside the model: the generator only produces accepted triples"],
        "assumptions": ["byte-string lengths < 2^64 (every Go slice)", "H returns 32 bytes (sha256_length), so truncation to AccountAddrLen = 32 loses nothing"],
        "level_text": "full: the derivation key is injective for ALL byte strings (8-byte big-endian length prefixes); equal addresses => equal triples or an explicit H-collision; a triple's stored address is never overwritten (any later uses) and the first use stores the derived address; exec ok <-> non-empty list, every message has exactly one signer = the account, ValidateBasic and handlers ok in order; atomic; outgoing packets accepted only when packet sender = tx signer",
    },
    "C30": {
        "lean": ["IbcVerif.Props.C30"],
        "engines": [{"bin": "xfer", "model": "xfer", "model_exe": "xfermodel", "groups": ["world", "hoplike", "findings"],
                     "n": (260, 900), "monitor": (0, 0), "workers": 8, "timeout": 7000}],
        "rule": "world/hoplike: seeded histories (60-120 ops + drain to quiescence) on three ibctesting chains joined by four v1 transfer channels (ids chosen so that the two ends differ), their v2 aliases and three direct v2 client pairs: MsgTransfer native / voucher / multi-hop A->B->C->A with amounts incl. 0, 1, 2^63, balance+1 and the 2^256-1 entire-balance sentinel, raw v2 MsgSendPacket, recv / ack / timeout relays in any order with duplicates and random relayers, receive-side failures (blocked receiver, receive disabled, undecodable receiver), signer/sender mismatches, direct msg-server calls, bank sends incl. into escrow accounts, time jumps; hoplike worlds additionally give users native coins shaped like voucher paths (all rejected by Transfer since 4b2f809). Every op's answer carries the canonical delta (balances of all tracked accounts incl. escrow and module accounts, supplies, tracked total escrow, stored denominations) and is compared with the Lean model; periodic full views; monitors after every successful op on the REAL balances: for every channel-end pair and every denomination path seen, escrow balance on the source (minus amounts the harness itself donated to escrow accounts) = voucher supply on the destination + amounts of the harness's own packet log that are neither minted nor refunded (both directions); supply of every native denomination unchanged; a failed or redundant message changes nothing; findings: the pre-fix conservation witness as a regression case. A case is non-trivial when the op did not fail with an error class; distinct = distinct canonical request",
        "trusted": ["core IBC is abstract in the model: LifecycleOK states what C01/C03/C04/C05/C06/C08 provide (named hypothesis); the harness drives the real core handlers with real proofs and the driver's packet layer mirrors their order of checks",
                    "SDK bank keeper, address codec, blocked-address list, transaction atomicity: parameters of the model (Config, Bank), exercised for real by the harness",
                    "packet-forward-middleware and rate-limiting sit in simapp's transfer stack and are passed through with empty memos / no limits (their own properties: apps cluster)"],
        "assumptions": ["Assm.escInj: distinct (port, channel) pairs have distinct escrow addresses (C34 escrow_address_binds modulo a collision of the 20-byte hash)",
                        "Assm.hashInj: the hash does not collide on the denomination paths in play (idealised SHA-256)",
                        "Assm.peerIds / peerSym: channel and client identifiers are '/'-free and in ibc-go's format; channel ends are paired",
                        "LifecycleOK (C01 C03 C04 C05 C06 C08 as hypotheses on the history)",
                        "PartiesOK: message senders/receivers and bank-send parties are not escrow addresses (a payment into an escrow account outside ICS-20 only raises the escrow side)",
                        "NeverReceivedOnClose (the onClose instance of the timeout guard, C03/C14): a packet completes by MsgTimeoutOnClose only if it was never received and has no other terminal outcome",
                        "pfm_settlement_partial: the override receiver is not an escrow account; a token that arrived by unescrowing from the refund channel's escrow is not itself a voucher of that channel (hunw)"],
        "level_text": "full for the general topology (any number of chains and channel ends; v1, v2-over-alias, v2 clients; all tokens Transfer accepts at any trace depth): escrow on the source = voucher supply on the destination + in flight both ways as an inductive invariant of all lifecycle-respecting histories; native supply unchanged by every step of every world; every credit matched by a debit or a backed mint. The pre-fix refutation (hop-like native base released real escrow) is repaired by 4b2f809 and replayed as a regression case. Timeout-on-close (v1 MsgTimeoutOnClose) is a lifecycle event of the model (Op.timeout p onClose; same OnTimeoutPacket callback; Guard clause NeverReceivedOnClose = C03/C14) and is covered by escrow_voucher_balance. Packet-forward-middleware refunds: pfm_settlement_conserves_full states that the settlement of a failed forward (pfmRefund + terminal outcome of the forward + re-recording the funding receive as failed) preserves the invariant; PROVED: pfm_settlement_partial (frame law: receive + forward + PFM refund cancel on every account, supply and tracked-escrow entry, all four branch combinations incl. the bounce-back case of f970a92), pfm_refund_native_supply_constant, and a kernel-evaluated 3-chain instance of the full statement; NOT mechanised: the in-flight-sum bookkeeping of the simultaneous status change of the two packets",
    },
    "C31": {
        "lean": ["IbcVerif.Props.C31"],
        "engines": [{"bin": "xfer", "model": "xfer", "model_exe": "xfermodel", "groups": ["world", "hoplike"],
                     "n": (260, 900), "monitor": (0, 0), "workers": 8, "timeout": 7000},
                    {"bin": "apps", "model": "pfm", "model_exe": "appsmodel", "groups": ["pfm"],
                     "n": (40, 150), "monitor": (40, 150), "workers": 6, "timeout": 3000}],
        "rule": "pfm (second engine): the packet-forward scenarios of C43 on four real chains (every (receive kind, forward kind) of an intermediate hop, error acks, exhausted retries, forwarding back over the arrival channel); after every scenario, on every chain and for every denomination, GetAllTotalEscrowed(d) must equal the combined balance of the chain's transfer escrow accounts. world/hoplike (first engine): seeded histories (60-120 ops + drain to quiescence) on three ibctesting chains joined by four v1 transfer channels (ids chosen so that the two ends differ), their v2 aliases and three direct v2 client pairs: MsgTransfer native / voucher / multi-hop A->B->C->A with amounts incl. 0, 1, 2^63, balance+1 and the 2^256-1 entire-balance sentinel, raw v2 MsgSendPacket, recv / ack / timeout relays in any order with duplicates and random relayers, receive-side failures (blocked receiver, receive disabled, undecodable receiver), signer/sender mismatches, direct msg-server calls, bank sends incl. into escrow accounts, time jumps; hoplike worlds additionally give users native coins shaped like voucher paths (all rejected by Transfer since 4b2f809). Every op's answer carries the canonical delta (balances of all tracked accounts incl. escrow and module accounts, supplies, tracked total escrow, stored denominations) and is compared with the Lean model; periodic full views; monitor after every successful op on the real state: GetAllTotalEscrowed(d) = sum of the balances of all transfer escrow accounts of the chain in d, minus what the harness itself paid into escrow accounts (bank sends and receives addressed to an escrow address). A case is non-trivial when the op did not fail with an error class; distinct = distinct canonical request",
        "trusted": ["as C30", "the packet-forward refund moves are hand-modelled from keeper.go (Model/Ics20Pfm.lean) and are NOT exercised by the xfer harness (empty memos: PFM passes through); their correspondence with the Go code is the apps cluster's pfm engine, which this check also runs (with the total-escrow = escrow-balances monitor on all four chains)"],
        "assumptions": ["as C30 (Assm, LifecycleOK, PartiesOK)", "EndsOK: the list of a chain's transfer channel / client identifiers is duplicate-free and covers every identifier that has a counterparty"],
        "level_text": "full for the transfer module on any number of channels (tracked total = combined escrow-account balance after every lifecycle-respecting history incl. timeout-on-close; never negative: the SetTotalEscrowForDenom / unescrowToken panic branches are unreachable; every escrow account bounded by the tracked total) AND for packet-forward-middleware's refund moves: each branch of WriteAcknowledgementForForwardedPacket (escrow->escrow, escrow->burn with unescrowToken, mint->escrow with the total incremented, no-op on bounce-back after f970a92), modelled in Model/Ics20Pfm.lean on the same chain state, preserves the equality and the bound (pfm_refund_keeps_total_escrow_eq_balances, pfm_refund_escrow_account_le_total, pfm_refund_step_keeps_escrow_in_sync, pfm_refund_never_panics_on_total); when PFM decides to run them (in-flight records, retries) is the apps cluster's model (C43)",
    },
    "C33": {
        "lean": ["IbcVerif.Props.C33"],
        "engines": [{"bin": "xfer", "model": "xfer", "model_exe": "xfermodel", "groups": ["denom", "findings"],
                     "n": (300, 5000), "monitor": (1200, 25000), "workers": 8, "timeout": 7000},
                    {"bin": "xfer", "model": "xfer", "model_exe": "xfermodel", "groups": ["world", "hoplike"],
                     "n": (220, 900), "monitor": (0, 0), "workers": 8, "timeout": 7000}],
        "rule": "denom: generated paths / identifiers through ExtractDenomFromPath and, on a scratch chain, the real Keeper.OnRecvPacket (which coin reaches the receiver) — monitor: for hop-free bases the return leg releases the base itself; findings: both pre-fix witnesses must be rejected by Transfer and an honest voucher must still return; world/hoplike: seeded histories (60-120 ops + drain to quiescence) on three ibctesting chains joined by four v1 transfer channels (ids chosen so that the two ends differ), their v2 aliases and three direct v2 client pairs: MsgTransfer native / voucher / multi-hop A->B->C->A with amounts incl. 0, 1, 2^63, balance+1 and the 2^256-1 entire-balance sentinel, raw v2 MsgSendPacket, recv / ack / timeout relays in any order with duplicates and random relayers, receive-side failures (blocked receiver, receive disabled, undecodable receiver), signer/sender mismatches, direct msg-server calls, bank sends incl. into escrow accounts, time jumps; hoplike worlds additionally give users native coins shaped like voucher paths (all rejected by Transfer since 4b2f809). Every op's answer carries the canonical delta (balances of all tracked accounts incl. escrow and module accounts, supplies, tracked total escrow, stored denominations) and is compared with the Lean model; periodic full views; monitors: every voucher a user holds and sends back over the v1 channel it came from must be accepted by Transfer (no denomination error), the return receive must succeed unless the harness itself disabled receiving / chose a blocked or undecodable receiver, and must credit the original coin out of escrow with no supply change. A case is non-trivial when the op did not fail with an error class; distinct = distinct canonical request",
        "trusted": ["as C30; Go strings as List Char (ASCII generators); hash parameter"],
        "assumptions": ["as C30 for return_leg_releases_original (Inv and EscInv hold along every lifecycle-respecting history: C30/C31 theorems)",
                        "the receiving side does not object for its own reasons: receiving enabled, receiver decodable and not blocked, coin denomination valid for the SDK (sdk.NewCoin)"],
        "level_text": "full for v1 channels (the channel the voucher was received over), for every base Transfer accepts (hop-free, any number of '/' segments) and every trace depth: (1) the voucher path re-parses to the voucher on both chains and the sender burns (roundtrip_denominations); (2) MsgTransfer of the held voucher over its channel SUCCEEDS whenever the general send conditions hold, TokenFromCoin resolving the stored voucher (voucher_send_back_accepted, stored_voucher_is_found); (3) on arrival the origin's receive SUCCEEDS and releases exactly the packet amount of the original coin from that channel's escrow to the receiver, escrow sufficiency being derived from the conservation invariant (return_leg_releases_original). Sending back over the v2 alias is refused by design for bases containing '/'. The two pre-fix refutations (hop-like native base; stuck voucher of a two-segment base) are repaired by 4b2f809, kept as regression theorems and replayed on the real code",
    },
}


# ---------------------------------------------------------------------------------------------
# chain cluster (L3 single-chain core model; harness/chain in oracle-client mode) — appended
CHAIN_RULE = ("chain: seeded histories on ONE real ibctesting chain (simapp + mock apps) with a harness-defined light client "
              "(types 99-verif/98-verif, registered at run time through ClientKeeper.AddRoute) whose Status/LatestHeight/TimestampAtHeight/"
              "Verify(Non)Membership answers are dictated per op, and mock applications scripted per op (success/error/async ack, "
              "self-written ack, k store writes, callback error; per payload for v2). Every op is a real sdk.Msg delivered to the real core / "
              "channel-v2 msg servers (or the keeper API an app calls: SendPacket, WriteAcknowledgement) on a cached context committed only on "
              "success. History = reset, set-up (real CreateClient, connection and channel handshakes, RegisterCounterparty), then 5-60 ops "
              "(thorough: up to 400) from {send v1 / v2 on clients and aliases with boundary timeouts, recv, ack, timeout, timeoutOnClose, "
              "async ack writes, handshake and close messages, authorisation messages, replay of an earlier message (p=0.35), single-field "
              "mutations, ack/timeout races}. Answer = result class (registered codespace/code of the root error) + canonical delta of the "
              "whole ibc store (typed; unknown keys raw) and of the app store + committed callback log; the model must reproduce it. "
              "A case is non-trivial when it is not an error; distinct = distinct canonical request")
CHAIN_TRUSTED = [
    "SDK CacheContext / transaction atomicity (a handler error reverts the tx) is SDK behaviour: the model returns the original state on error, the harness commits a cached context only on success",
    "typed stores: distinct typed keys are distinct store keys (C16); the harness types every changed raw key of the ibc store and reports unknown keys raw, so a write to an unexpected key is a mismatch",
    "commitment hashes are modelled as the tuple of fields they bind (C07); the harness maps stored hashes back through ibc-go's own Commit* functions",
    "light-client verdicts, client status/height/timestamp, application callback results, block height/time, ValidateBasic verdicts are inputs carried by the op (universally quantified in the theorems); 05-port / api routers restricted to the ports of the test app (C48)",
    "no counter reaches 2^64 (sequences and identifier counters are Nat); identifiers stored in channel/connection ends passed msg ValidateBasic",
    "registered light-client types do not include the literal type \"channel\" (so a client id can never equal a generated channel id; needed for the send counter never to be reset)",
]


def chain_engine(groups, n, monitor):
    return {"bin": "chain", "model": "chain", "model_exe": "chainmodel", "groups": groups, "n": n, "monitor": monitor,
            "workers": 8, "timeout": 3000}


PROPS.update({
    "C01": {
        "lean": ["IbcVerif.Props.C01"],
        "engines": [chain_engine(["core", "ordered", "v2"], n=(100, 1500), monitor=(250, 4000))],
        "rule": CHAIN_RULE,
        "trusted": CHAIN_TRUSTED,
        "assumptions": ["v1 and v2 deliveries on an aliased channel are distinct destinations in the single-chain theorems: (port, channel, seq) for v1, (id, seq) for v2 — that the counterparty commits each sequence under exactly one of the two protocols is C08 on the sending chain; v2 callbacks are counted per packet transaction (each payload's callback once per transaction)"],
        "level_text": "full (single chain, all histories, arbitrary proof verdicts and app results): receive callback at most once per (dest, seq) for v1 ORDERED/UNORDERED/aliased and v2; NOOP and failed messages change nothing; a replay of a delivered packet never succeeds; replay marks are never undone. Monitors: per-(dest,seq) callback count, NOOP has empty store diff.",
    },
    "C03": {
        "lean": ["IbcVerif.Props.C03"],
        "engines": [chain_engine(["core", "ordered", "v2"], n=(100, 1500), monitor=(250, 4000))],
        "rule": CHAIN_RULE,
        "trusted": CHAIN_TRUSTED,
        "assumptions": [],
        "level_text": "full (single chain, all histories, arbitrary proof verdicts): per sent packet at most one of {ack, timeout, timeout-on-close} callback, at most once (v1 and v2/alias); afterwards the commitment is gone for ever (send counter never reset) and every further ack/timeout relay is a NOOP or error with no state change. Monitors: per-packet terminal callback count, commitment removed after terminal.",
    },
})

# apps cluster: packet-forward middleware
PROPS.update({
    "C43": {
        "lean": ["IbcVerif.Props.C43"],
        "engines": [{"bin": "apps", "model": "pfm", "model_exe": "appsmodel", "groups": ["pfm"],
                     "n": (60, 200), "monitor": (60, 200), "workers": 6, "timeout": 3000}],
        "rule": "pfm: multi-hop forwards on FOUR real ibctesting chains in a line (0-1-2-3, testing/simapp wiring transfer<-PFM<-rate-limit), every hop relayed through core IBC with real proofs: start chain, token origin (native / voucher from any of the four chains => unwinding and non-unwinding hops, mint/unescrow on receive and escrow/burn on forward in every combination), routes of 2-3 hops incl. forwarding back over the arrival channel, outcomes: all hops succeed; error ack at the final chain (invalid receiver); an intermediate chain cannot forward (unknown channel); a forwarded packet times out more often than `retries` (PFM gives up) or within the retry budget (delivered after retries). Observed per scenario: delivered / refunded / stuck, and the COMPLETE bank state (all balances, all supplies) plus the ICS-20 total-escrow table of all four chains before and after, and the PFM override-receiver accounts. The model predicts the class and whether a refund leaves every chain exactly as before from the (receive kind, forward kind) of each intermediate hop, which the generator derives from the token's origin and the route (ground truth it controls)",
        "trusted": ["ICS-20's own behaviour (what a receive credits / a send debits) is the transfer cluster's model (C30-C33); here an intermediate chain is abstracted to the four quantities PFM's refund touches (voucher supply, the two escrow accounts, total escrow)",
                    "core IBC relaying, acknowledgements and timeouts are real (ibctesting); whether a re-send succeeds is a parameter of the timeout model (sendOk)",
                    "hashHex (SHA-256 of the denom path) is a parameter of forward_denom_is_credited_denom"],
        "assumptions": ["liveness caveat: if a retry send itself fails the route stays in flight (not a safety violation; reported as 'stuck' by the monitor if it ever happens)"],
        "level_text": "full for the modelled part (after fix f970a92): PROOF of forwarded denom = credited denom (all packet denominations); refund restores the intermediate chain (voucher supply, both escrow accounts, total escrow, override-receiver balance) for ALL (receive, forward) combinations; timeout path: a retry changes nothing but the in-flight record (retry_conserves), a failing re-send reverts the timeout tx (failed_retry_reverts, the liveness caveat), exhausted retries refund exactly like an error ack (timeout_exhausted_refunds), the override receiver never keeps funds (override_receiver_empty), all-or-nothing for routes of any length with ANY pattern of timeouts / failing re-sends per hop (all_or_nothing_with_timeouts, induction on route x timeout run). The model's prediction of delivered/refunded from (retries, timeouts per hop) is compared with four real chains on every run. Whole-world conservation (complete bank state + total-escrow table of the 4 chains) stays a monitor check; ICS-20's own refund of the first hop is the transfer cluster's (C32)",
    },
})

PROPS.update({
    "C02": {
        "lean": ["IbcVerif.Props.C02"],
        "engines": [chain_engine(["ordered", "core"], n=(120, 2000), monitor=(350, 5000))],
        "rule": CHAIN_RULE + "; group 'ordered' biases to ORDERED channels, relays later packets first, acknowledges out of order",
        "trusted": CHAIN_TRUSTED,
        "assumptions": [],
        "level_text": "full (single chain, all histories, arbitrary proofs): on an ORDERED end the delivered sequences are exactly 1..nextSequenceRecv-1 in order and the processed acknowledgements exactly 1..nextSequenceAck-1; a receive/ack succeeds only for the next expected sequence. Monitor: callback order per ORDERED channel.",
    },
    "C14": {
        "lean": ["IbcVerif.Props.C14"],
        "engines": [chain_engine(["ordered", "core"], n=(120, 2000), monitor=(350, 5000))],
        "rule": CHAIN_RULE,
        "trusted": CHAIN_TRUSTED,
        "assumptions": [],
        "level_text": "full: a successful Timeout / TimeoutOnClose on an ORDERED channel leaves the end CLOSED; on a CLOSED end send / recv / ack / writeAck never succeed and change nothing; CLOSED is terminal over every history; the timeout handlers do not consult the channel state (other in-flight packets can still be timed out). Monitor: flow after ORDERED timeout / on CLOSED end.",
    },
    "C11": {
        "lean": ["IbcVerif.Props.C11"],
        "engines": [chain_engine(["core", "v2", "ordered"], n=(100, 1500), monitor=(250, 4000))],
        "rule": CHAIN_RULE + "; async ack writes are issued before the receive, twice, for never-received keys and after channel close; applications also write an ack themselves inside the callback ('selfack')",
        "trusted": CHAIN_TRUSTED,
        "assumptions": [],
        "level_text": "full: v1 and v2 ack commitments are write-once over all histories; a second WriteAcknowledgement fails; v2 ack implies receipt; async v2 packets exist exactly from the async receive to the ack write, keyed by their own (dest, seq); premature / repeated async writes fail without state change. Monitor: ack commitment history, async lifecycle.",
    },
    "C08": {
        "lean": ["IbcVerif.Props.C08"],
        "engines": [chain_engine(["core", "v2", "ordered"], n=(100, 1500), monitor=(250, 4000))],
        "rule": CHAIN_RULE + "; v2 timeouts at blockTime-1s,=,+1s,+24h-1s,+24h,+24h+1s,0,2^63-1,2^63,2^63+1,2^64-1 and the int64 wrap points of time.Unix; consensus timestamps around the timeout at nanosecond granularity",
        "trusted": CHAIN_TRUSTED + ["Go's time.Unix(int64(T),0) / Time.After / Time.Add are modelled by 64-bit wrap-around arithmetic on the internal seconds field (timeoutInternalSec / blockInternalSec); Timeout.Elapsed is the C17 model"],
        "assumptions": [],
        "level_text": "full: successful sends on an id (v1 channel = v2 alias, or v2 client) return exactly 1,2,3,... over all histories with v1/v2 interleaved; each writes exactly one commitment and bumps the shared counter, nothing else; every guard of SendPacket (OPEN, Active, non-zero height, not elapsed) and of v2 sendPacket (block-time window incl. T>=2^63 wrap, client guards) is necessary for success; failures change nothing. Monitor: returned sequences per id, commitments per send.",
    },
})

PROPS.update({
    "C09": {
        "lean": ["IbcVerif.Props.C09"],
        "engines": [chain_engine(["core", "ordered"], n=(120, 2000), monitor=(350, 5000))],
        "rule": CHAIN_RULE + "; the v1 mock application is scripted per receive to write k in 0..3 keys of an application store and then return a success ack / error ack / nothing (async) / an ack it also wrote itself / an empty ack",
        "trusted": CHAIN_TRUSTED + ["the application is a parameter: it is characterised by what it returned and how many keys it wrote on the context it was given (any real app is covered by the quantifier, only the mock app is exercised); middleware stacks other than the mock app are not exercised by this engine"],
        "assumptions": [],
        "level_text": "full for core RecvPacket: error ack => application store unchanged, receipt / next-receive counter and the error ack written; success or async => writes persist; the result is independent of what was written before failing; an ack-write failure reverts the whole tx. Monitor: app-store delta of every receive by ack kind.",
    },
    "C10": {
        "lean": ["IbcVerif.Props.C10"],
        "engines": [chain_engine(["v2", "core"], n=(120, 2000), monitor=(350, 5000))],
        "rule": CHAIN_RULE + "; group 'v2' sends/receives packets with 1-4 payloads on the two mock v2 apps, each payload independently success / failure / async / status NONE, with k writes, ack bytes possibly empty or equal to the error sentinel",
        "trusted": CHAIN_TRUSTED,
        "assumptions": [],
        "level_text": "full: any failing payload => no application write persists and the ack is exactly the single sentinel (later payloads not executed); all succeed => every write persists, one app ack per payload in order, none the sentinel; async only for single-payload packets; writeAcknowledgement validates non-emptiness, sentinel-only-alone and the length. Monitor: app-store delta and ack value per receive.",
    },
    "C12": {
        "lean": ["IbcVerif.Props.C12"],
        "engines": [chain_engine(["handshake", "core"], n=(120, 2000), monitor=(350, 5000))],
        "rule": CHAIN_RULE + "; group 'handshake' issues channel/connection handshake and close messages in any order, duplicated, on channels in any state, with wrong hops / orderings / versions and failing proofs or callbacks",
        "trusted": CHAIN_TRUSTED,
        "assumptions": ["single-chain part only: 'both ends OPEN agree' and 'the counterparty end really was in the matching state' need the two-chain world model with honest light clients (not covered by this check); here the proof verdict is an input and the theorems show it is required"],
        "level_text": "partial: (proved, all histories) channel ends change only INIT->OPEN, TRYOPEN->OPEN, non-CLOSED->CLOSED; CLOSED terminal; ordering/port/hops immutable, version and counterparty channel id change only at ACK; new ends start INIT/TRYOPEN under a fresh id; TRY/ACK/CONFIRM/CLOSE-CONFIRM succeed only with a positive proof verdict on an Active client and (TRY/ACK/CONFIRM) an OPEN connection. Not proved here: two-chain agreement. Monitor: per-step channel transitions.",
    },
    "C46": {
        "lean": ["IbcVerif.Props.C46"],
        "engines": [chain_engine(["auth", "v2"], n=(120, 2000), monitor=(350, 5000))],
        "rule": CHAIN_RULE + "; group 'auth' issues RecoverClient, IBCSoftwareUpgrade, UpdateClientParams, UpdateConnectionParams, RegisterCounterparty, UpdateClientConfig, DeleteClientCreator, UpdateClient, CreateClient with signers {authority, creator, two others}, relayer allow-lists over {alice,bob,carol} (also on aliases), allowed-client lists {*},{99-verif},{98-verif},{07-tendermint},{99-verif,98-verif}, and v2 packet messages under those configurations",
        "trusted": CHAIN_TRUSTED + ["sdk.ValidateAuthority with an unset consensus-params authority compares against the keeper authority (SDK code); signers are symbolic names mapped to fixed bech32 addresses"],
        "assumptions": ["wasm Store/Remove/Migrate and rate-limit administration are outside this engine (other clusters)"],
        "level_text": "full as decision logic for the core handlers: exact accept conditions of UpdateClientParams / UpdateConnectionParams / RegisterCounterparty (creator, once; sets nextSend=1) / UpdateClientConfig / DeleteClientCreator; RecoverClient and IBCSoftwareUpgrade need the authority; v2 Recv (dest id) / Ack / Timeout (source id) and UpdateClient are refused for relayers outside a non-empty allow-list; clients of a type outside the allowed list cannot be created, routed, verified against or updated. Monitor: accept/reject per (operation, signer, configuration).",
    },
})

# shared entries: append the chain halves
PROPS["C13"]["lean"] = ["IbcVerif.Props.C13"] + PROPS["C13"]["lean"]
PROPS["C13"]["engines"] = [chain_engine(["handshake", "core"], n=(120, 2000), monitor=(350, 5000))] + PROPS["C13"]["engines"]
PROPS["C13"].setdefault("trusted", [])
PROPS["C13"]["trusted"] = PROPS["C13"]["trusted"] + CHAIN_TRUSTED
PROPS["C13"].setdefault("assumptions", [])
PROPS["C13"]["assumptions"] = PROPS["C13"]["assumptions"] + ["handshake half is single-chain: the proof verdict is an input (required for OPEN); two-chain agreement needs the world model"]
PROPS["C13"]["level_text"] = (PROPS["C13"].get("level_text", "") + " | handshake (chain engine): connection ends change only INIT->OPEN (single supported version fixed) / TRYOPEN->OPEN, client/counterparty client/prefix/delay immutable, OPEN absorbing over all histories; new ends INIT/TRYOPEN under a fresh id, never on 09-localhost; ConnOpenInit/Try with the localhost client are refused; the genesis localhost connection stays OPEN and untouched; TRY/ACK/CONFIRM need a positive proof verdict; a channel opens only on a connection with exactly one version containing the ordering.").strip(" |")
PROPS["C15"]["lean"] = PROPS["C15"]["lean"] + ["IbcVerif.Props.C15Counters"]
PROPS["C15"]["engines"] = PROPS["C15"]["engines"] + [chain_engine(["handshake", "auth"], n=(100, 1500), monitor=(300, 4000))]
PROPS["C15"].setdefault("trusted", [])
PROPS["C15"]["trusted"] = PROPS["C15"]["trusted"] + CHAIN_TRUSTED
PROPS["C15"]["level_text"] = (PROPS["C15"].get("level_text", "") + " | counters (chain engine): over all histories incl. failed attempts every channel / connection / client identifier is generated at most once; stored ids are below their counter; counters never decrease; formatted ids are injective in the counter.").strip(" |")


# world cluster, relay group (C05, C06): real two-chain engine, facts-level model Model/Relay.lean
RELAY_RULE = ("world/relay: one history = two real ibctesting chains (v1 UNORDERED channel, v1 ORDERED channel, v2 client pair, real 07-tendermint clients, real IAVL proofs); "
              "3 packets per path A->B with varied data (success / error acknowledgements, multi-payload v2) and timeouts (height-only, timestamp-only, both, some close to the destination's clock); "
              "for every packet and phase (receive on B, acknowledgement on A) the hand-built valid message and every single-field mutation of it are submitted as transactions: data, timeout height/timestamp (+1, -1, zero, swapped, far), "
              "sequence (+1, -1, 0, max, another sent packet's), source/destination port/channel/client (another existing one, unknown, malformed, suffixed, swapped), v2 payload fields and payload list (reversed, truncated, extended, empty), "
              "proof bytes (bit flip, truncated, appended, empty, random), proof for another key (receipt, acknowledgement, commitment, channel end, next-sequence, another sequence), "
              "proof height (every other stored consensus height with the proof rebuilt or kept, heights without a consensus state, above the client's latest, zero, next revision), "
              "ack bytes (flip, append, truncate, empty, another packet's, non-canonical JSON, forged error/result), v2 app-ack list (flip, reverse, truncate, extend, merge two elements, empty element, sentinel error), "
              "signer (another relayer, signer/signature mismatch, malformed address); plus random two-field mutations, replays after the packet was handled, a later packet first (ORDERED: out of order), "
              "and state variations applied on the executing chain (channel INIT/TRYOPEN/CLOSED/UNINITIALIZED, counterparty port/channel changed, ordering NONE, missing connection, connection INIT/TRYOPEN/UNINITIALIZED, delay period 1ns/20s/1h, missing client, frozen client, recvStartSequence at/above the sequence, v2 counterparty changed, v2 merkle prefix changed, relayer allow-list), timeout-boundary probes (v1 height timeout crossed block by block; v1 timestamp and v2 second timeouts probed 1ns before, exactly at and after the timeout, with a corrupted proof so that err:timeout vs err:proof shows the side of the boundary, and the valid message delivered at a random point), and a jump past the trusting period (expired clients). "
              "Facts are read from the executing chain before the transaction; provenValue is read from the counterparty's height-pinned multistore at the version the proof was built from; the verdict is ok (tx ok, state changed) / noop (tx ok, nothing changed) / err:<class from the ABCI codespace+code>. "
              "A case is non-trivial when the transaction did not fail; distinct = distinct canonical request")
RELAY_TRUSTED = ["HonestClient / ICS-23 soundness: `ProofFacts.proves` DEFINES 'the membership proof verifies' as: the submitted bytes are an uncorrupted proof queried at the message's proof height for exactly the merkle path the handler builds, and the counterparty's store holds exactly the value the handler derives -- CometBFT light-client verification (C24) and ICS-23 (C18 hypotheses) are what make a real client behave like this; the engine confirms it on real 07-tendermint clients and IAVL proofs on every run",
                 "SDK machinery outside ibc-go: baseapp calls msg.ValidateBasic before the ante handler; the ante handler rejects a transaction not signed by msg.Signer (fact sigOK); a failed message reverts the whole transaction",
                 "external lookups enter as facts read by the harness through ibc-go's own getters: port router (C48), client status (C21), consensus state / processed time+height presence (C20, C22), v2 relayer allow-list, bech32 parsing of the signer, protobuf decodability of the proof bytes, JSON canonical form of a v1 acknowledgement",
                 "application callbacks succeed and acknowledge synchronously (the harness's mock applications do; callback failure / async acks: chain engine C09-C11)",
                 "identifiers and payload strings are ASCII in the generator (strings.TrimSpace modelled on ASCII white space); v2 aliases are resolved by the harness (no alias in the generated environments)"]

PROPS.update({
    "C05": {
        "lean": ["IbcVerif.Props.C05"],
        "engines": [{"bin": "world", "model": "purefn", "groups": ["relay"], "n": (1, 6), "monitor": (1, 1), "workers": 8, "timeout": 3300}],
        "rule": RELAY_RULE,
        "trusted": RELAY_TRUSTED,
        "assumptions": ["HonestClient (as a definition: ProofFacts.proves)", "hlen: the hash has 32-byte outputs (SHA-256: Sha256.sha256_length)", "binding statements are in collision-extraction form (no injectivity assumption)"],
        "level_text": "full for the decision: recv_v1/v2_success_iff and _noop_iff characterise exactly when a receive transaction succeeds / is a NOOP as the explicit conjunction (well-formed signed message, route, channel+connection OPEN and packet from their counterparty [v2: registered counterparty = source client, relayer allowed], own height/time strictly before the timeout, client Active with consensus state at the proof height and delay passed, counterparty store holds CommitPacket(packet) at exactly PacketCommitmentKey(source ids, sequence), not yet received / in order); recv_v1/v2_unexpired and recv_*_guard_is_world_guard (the guard is literally the receive guard of the C04 two-chain theorems); recv_binds_packet_v1/v2, recv_*_same_proof_same_packet, recv_v1_mutant_rejected, recv_v2_mutant_not_received: any change of data, timeout, sequence or source identifiers (v2: also destination client and the whole payload list) is rejected unless the counterparty committed exactly that, or a SHA-256 collision is exhibited (uses C07 + C16). Order of checks and error classes are part of the model and replayed against real two-chain executions on every run. The 'a failed receive changes no state' half is proved on the L3 chain model (IbcVerif.C01.noop_or_error_is_identity, chain engine) and monitored here by a store diff (IBC store + application store) around every failed or NOOP transaction. Note (documented behaviour, not a defect): v2 answers an already-received packet NOOP before looking at the proof; v1 only after the proof verified.",
    },
    "C06": {
        "lean": ["IbcVerif.Props.C06"],
        "engines": [{"bin": "world", "model": "purefn", "groups": ["relay"], "n": (1, 6), "monitor": (1, 1), "workers": 8, "timeout": 3300}],
        "rule": RELAY_RULE,
        "trusted": RELAY_TRUSTED,
        "assumptions": ["HonestClient (as a definition: ProofFacts.proves)", "hlen: the hash has 32-byte outputs (SHA-256)", "binding statements are in collision-extraction form"],
        "level_text": "full for the decision: ack_v1/v2_success_iff and _noop_iff (processed <=> source channel+connection OPEN and destination = counterparty [v2: registered counterparty = destination client], stored commitment non-empty and equal to CommitPacket(packet), v1 canonical-JSON check, client Active + consensus state + delay, counterparty store holds CommitAcknowledgement(bytes / ordered app-ack list) at exactly PacketAcknowledgementKey(destination ids, sequence), ORDERED: sequence = nextSequenceAck; NOOP <=> no stored commitment, decided before the proof is looked at); ack_binds_v1/v2, ack_*_packet_is_the_committed_one, ack_*_forged_not_processed: altered ack bytes, a reordered / truncated / extended / re-split v2 app-ack list, another packet's ack, another destination or sequence are never processed, or a SHA-256 collision is exhibited (C07 + C16). The 'a rejected acknowledgement changes no state' half: IbcVerif.C01.noop_or_error_is_identity (chain engine) + store-diff monitor here; the OnAcknowledgementPacket monitor compares every callback argument with what the destination application wrote.",
    },
})

# C46: administration half (coordinator): rate-limit Add/Update/Remove/Reset through the real msg server
PROPS["C46"]["lean"] = PROPS["C46"]["lean"] + ["IbcVerif.Props.C46Admin"]
PROPS["C46"]["engines"] = PROPS["C46"]["engines"] + [{"bin": "world", "model": "purefn", "groups": ["authority"], "n": (3, 60), "monitor": (2, 40), "workers": 8}]
PROPS["C46"]["assumptions"] = ["wasm StoreCode / RemoveChecksum / MigrateContract start with the same sdk.ValidateAuthority call (08-wasm is a separate Go module whose keeper needs a wasm VM; the gate is covered by the generic Admin.handler theorems and by reading the three call sites, not by an engine)"]

# chain cluster: two-chain agreement halves of C12 / C13 (Lean only; Model/ChainPair.lean = two L3 chains,
# handshake proof verdicts DERIVED from the counterparty's current store; no new engine)
PAIR_NOTE = ("two-chain agreement (Props/C1xAgree) is proved over ALL interleavings of ops on two copies of the L3 chain model whose channel/connection "
             "handshake proof verdicts are derived under HonestClient: a handshake proof verifies iff the counterparty's CURRENT store holds, under the key the handler "
             "proves, exactly the end the handler constructs (handshake.go) and the connection's counterparty prefix is the real store prefix; all other inputs "
             "(callbacks, signers, client status, packet proofs, scheduling) stay adversarial. Tie to the code: each single-chain step is the L3 `step` checked by the "
             "chain correspondence engine; that real clients behave like the derivation is exercised by the world engine's real-chain handshakes (07-tendermint + IAVL proofs)")
PROPS["C12"]["lean"] = PROPS["C12"]["lean"] + ["IbcVerif.Props.C12Agree"]
PROPS["C12"]["assumptions"] = ["HonestClient for the agreement theorems: handshake proof verdicts are derived from the counterparty's current state (always up-to-date light client); proofs of STALE heights are not modelled (an end proved at an old height may since have moved on, e.g. OPEN->CLOSED)",
                               "single-chain theorems: the proof verdict is an input and is shown to be required"]
PROPS["C12"]["trusted"] = PROPS["C12"]["trusted"] + [PAIR_NOTE]
PROPS["C12"]["level_text"] = ("full under HonestClient(current state): (single chain, all histories) channel ends change only INIT->OPEN, TRYOPEN->OPEN, non-CLOSED->CLOSED; CLOSED terminal; ordering/port/hops immutable, "
                              "version and counterparty channel id change only at ACK; new ends start INIT/TRYOPEN under a fresh id; TRY/ACK/CONFIRM/CLOSE-CONFIRM need a positive proof verdict on an Active client and an OPEN connection. "
                              "(two chains, all interleavings) both_open_agree: two OPEN ends one of which names the other name each other (port+channel ids), have equal ordering and version, one hop each, the hop connections are OPEN and are each other's counterparty connections; "
                              "open_requires_counterparty_state: an end becomes OPEN only by its own ACK/CONFIRM and then the counterparty holds the TRYOPEN (ACK) / OPEN (CONFIRM) end with matching ordering, version, ids and hop; "
                              "close_confirm_requires_closed: CLOSE-CONFIRM succeeds only while the counterparty end is CLOSED. Monitor (single chain): per-step channel transitions.")
PROPS["C13"]["lean"] = PROPS["C13"]["lean"] + ["IbcVerif.Props.C13Agree"]
PROPS["C13"]["assumptions"] = [a for a in PROPS["C13"]["assumptions"] if "two-chain agreement needs the world model" not in a] + [
    "HonestClient for the agreement theorems: handshake proof verdicts derived from the counterparty's current state; stale-height proofs not modelled; single-chain handshake theorems take the verdict as an input"]
PROPS["C13"]["trusted"] = PROPS["C13"]["trusted"] + [PAIR_NOTE]
PROPS["C13"]["level_text"] = (PROPS["C13"]["level_text"].replace("partial until the chain cluster adds the handshake state machine: ", "") +
                              " | agreement (two L3 chains, HonestClient(current state), all interleavings): both_open_conn_agree: two OPEN connection ends one of which names the other name each other, "
                              "have crosswise-equal client ids, the same delay period and the same single version; conn_open_requires_counterparty_state: an end becomes OPEN only by its own ACK/CONFIRM "
                              "and then the counterparty holds the TRYOPEN (ACK) / OPEN (CONFIRM) end with crosswise client ids, this connection id, equal delay and versions, and both prefixes are the real store prefix.")
