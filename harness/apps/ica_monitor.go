package apps

// C37 / C38 monitors on the real code.

import (
	"strings"

	. "verif/harness/lib"
)

const KeyHostConfirm = "C38-host-confirm-replaces-active-channel-that-is-still-open"

func icaAllowed(allow []string, url string) bool {
	if len(allow) == 1 && allow[0] == "*" {
		return true
	}
	for _, a := range allow {
		if a == url {
			return true
		}
	}
	return false
}

type icaSnap struct {
	state  map[string]string // chan -> state
	port   map[string]string
	cp     map[string]string
	active map[string]string // conn|port -> chan
	addr   map[string]string
}

func icaSnapOf(side M) icaSnap {
	s := icaSnap{state: map[string]string{}, port: map[string]string{}, cp: map[string]string{}, active: map[string]string{}, addr: map[string]string{}}
	chans, _ := side["chans"].([]M)
	for _, c := range chans {
		id := c["id"].(string)
		s.state[id], s.port[id], s.cp[id] = c["state"].(string), c["port"].(string), c["cp"].(string)
	}
	for _, a := range side["active"].([]string) {
		i := strings.LastIndex(a, "|")
		s.active[a[:i]] = a[i+1:]
	}
	for _, a := range side["addr"].([]string) {
		i := strings.LastIndex(a, "|")
		s.addr[a[:i]] = a[i+1:]
	}
	return s
}

func icaMonitor(r *Rng, n int, report func(Viol)) {
	e := newIcaExec()
	// ---- C37
	for i := 0; i < n; i++ {
		in := icaExecRequest(r)
		out, _ := Safe(func() any { return e.Do(in) }).(M)
		if out == nil || out["r"] == nil {
			report(Viol{Property: "C37-harness", What: "exec request failed", Input: in, Observed: out})
			continue
		}
		v := func(what string) {
			report(Viol{Property: "C37", What: what, Input: in, Observed: out, Requests: []M{in}})
		}
		effects, _ := out["effects"].([]int)
		allow := in["allow"].([]string)
		authorized := Bool(in, "registered") && Bool(in, "chanFound")
		for _, m := range in["msgs"].([]M) {
			if !icaAllowed(allow, icaURLs[m["kind"].(string)]) {
				authorized = false
			}
			for _, s := range m["signers"].([]string) {
				if s != "ica" {
					authorized = false
				}
			}
		}
		if len(effects) > 0 && !authorized {
			v("messages took effect although a message type is not allow-listed, a signer is not the interchain account, or no account is registered")
		}
		if out["r"] != "ok" && (len(effects) > 0 || out["icaSpent"] == true) {
			v("failed packet left effects behind (not atomic)")
		}
		if out["r"] == "ok" && len(effects) != len(in["msgs"].([]M)) {
			v("successful packet did not apply every message")
		}
		if out["otherSpent"] == true {
			v("an account other than the interchain account was debited")
		}
	}
	// ---- C38
	var prevC, prevH icaSnap
	var reqs []M
	fresh := true
	do := func(in M) any {
		reqs = append(reqs, in)
		out, _ := Safe(func() any { return e.Do(in) }).(M)
		if out == nil || out["world"] == nil {
			return out
		}
		w := out["world"].(M)
		c, h := icaSnapOf(w["ctrl"].(M)), icaSnapOf(w["host"].(M))
		v := func(key, what string, obs any) {
			report(Viol{Property: "C38", Key: key, What: what, Input: in, Observed: obs, Requests: append([]M{}, reqs...)})
		}
		if in["f"] == "reset" {
			prevC, prevH, fresh = c, h, false
			reqs = []M{in}
			return out
		}
		if fresh {
			return out
		}
		check := func(side string, cur, prev icaSnap, other icaSnap) {
			open := map[string][]string{}
			for id, st := range cur.state {
				if st == "open" {
					open[cur.port[id]] = append(open[cur.port[id]], id)
				}
			}
			for k, id := range cur.active {
				if old, ok := prev.active[k]; ok && old != id && prev.state[old] != "closed" {
					key := ""
					if side == "host" && other.state[prev.cp[old]] == "closed" {
						key = KeyHostConfirm
					}
					v(key, side+": active channel "+old+" was replaced by "+id+" although it was not CLOSED", M{"key": k, "previous_state": prev.state[old]})
				}
			}
			for port, ids := range open {
				if len(ids) > 1 && side == "ctrl" {
					v("", side+": two OPEN interchain-account channels for one (connection, owner)", M{"port": port, "channels": ids})
				}
				if len(ids) == 1 && side == "ctrl" {
					found := false
					for k, id := range cur.active {
						if strings.HasSuffix(k, "|"+port) && id == ids[0] {
							found = true
						}
					}
					if !found {
						v("", side+": an OPEN channel is not the active channel of its (connection, owner)", M{"port": port, "channel": ids[0]})
					}
				}
			}
			for k, a := range prev.addr {
				if cur.addr[k] != a {
					v("", side+": the interchain account address of a (connection, owner) changed", M{"key": k, "was": a, "now": cur.addr[k]})
				}
			}
		}
		check("ctrl", c, prevC, h)
		check("host", h, prevH, c)
		if in["f"] == "sendTx" && out["r"] == "ok" {
			port := "icacontroller-" + in["owner"].(string)
			ch, _ := out["chan"].(string)
			if out["port"] != port || c.active["cconn|"+port] != ch || c.state[ch] != "open" {
				v("", "SendTx did not use the owner's own port and its open active channel", out)
			}
		}
		prevC, prevH = c, h
		return out
	}
	g := &icaWorld{r: r, do: do}
	// the crossing-INIT / ordered-timeout scenario, deterministically
	{
		g.history(0)
		o := g.owners[0]
		reg := func() M {
			return M{"f": "register", "owner": o, "conn": "cconn", "order": "ordered", "vkind": "blank"}
		}
		g.exec(reg())
		g.exec(reg())
		g.exec(M{"f": "hostTry", "cid": "c0"})
		g.exec(M{"f": "hostTry", "cid": "c1"})
		g.exec(M{"f": "ctrlAck", "cid": "c0", "hid": "h0"})
		g.exec(M{"f": "hostConfirm", "hid": "h0"})
		g.exec(M{"f": "timeoutClose", "cid": "c0"})
		g.exec(M{"f": "ctrlAck", "cid": "c1", "hid": "h1"})
		g.exec(M{"f": "hostConfirm", "hid": "h1"})
	}
	// crossing INITs for one owner where the first handshake completes and the second ACK arrives while the
	// first channel is still OPEN (the controller must refuse it), for both orderings
	for _, ord := range []string{"ordered", "unordered"} {
		g.history(0)
		o := g.owners[1]
		reg := func() M {
			return M{"f": "register", "owner": o, "conn": "cconn", "order": ord, "vkind": "blank"}
		}
		g.exec(reg())
		g.exec(reg())
		g.exec(M{"f": "hostTry", "cid": "c0"})
		g.exec(M{"f": "hostTry", "cid": "c1"})
		g.exec(M{"f": "ctrlAck", "cid": "c0", "hid": "h0"})
		g.exec(M{"f": "hostConfirm", "hid": "h0"})
		g.exec(M{"f": "ctrlAck", "cid": "c1", "hid": "h1"})
		g.exec(M{"f": "hostConfirm", "hid": "h1"})
		g.exec(M{"f": "sendTx", "owner": o, "conn": "cconn", "timeoutOk": true, "dataOk": true})
	}
	for i := 0; i < 1+n/60; i++ {
		g.history(15 + r.Intn(25))
	}
}
