package apps

import (
	"fmt"
	"strings"
	"sync/atomic"

	. "verif/harness/lib"
)

var icaHist int64

// icaWorld is the generator's own bookkeeping (what exists, not what should happen).
type icaWorld struct {
	r      *Rng
	do     func(M) any
	prefix string
	owners []string
	cchans []string          // controller channel names
	hchans []string          // host channel names
	hostOf map[string]string // host channel -> controller channel
}

func (g *icaWorld) exec(in M) M {
	out, _ := g.do(in).(M)
	if out != nil && out["r"] == "ok" {
		if id, ok := out["chan"].(string); ok {
			switch in["f"] {
			case "register", "init":
				g.cchans = append(g.cchans, id)
			case "hostTry":
				g.hchans = append(g.hchans, id)
				g.hostOf[id] = in["cid"].(string)
			}
		}
	}
	return out
}

func (g *icaWorld) version() M {
	r := g.r
	switch r.Intn(10) {
	case 0:
		return M{"vkind": "garbage"}
	case 1, 2, 3:
		return M{"vkind": "blank"}
	}
	m := M{"vkind": "meta", "mVersion": "ics27-1", "mCtrlConn": "cconn", "mHostConn": "hconn", "mAddress": "", "mEncoding": "proto3", "mTxType": "sdk_multi_msg"}
	switch r.Intn(12) {
	case 0:
		m["mVersion"] = "ics27-2"
	case 1:
		m["mCtrlConn"] = "connection-77"
	case 2:
		m["mHostConn"] = "connection-78"
	case 3:
		m["mEncoding"] = "proto3json"
	case 4:
		m["mEncoding"] = "amino"
	case 5:
		m["mTxType"] = "other"
	case 6:
		m["mAddress"] = "!!bad address!!"
	}
	return m
}

func merge(a M, b M) M {
	for k, v := range b {
		a[k] = v
	}
	return a
}

func (g *icaWorld) history(nops int) {
	r := g.r
	h := atomic.AddInt64(&icaHist, 1)
	g.prefix = fmt.Sprintf("h%d", h)
	g.owners = []string{g.prefix + "alice", g.prefix + "bob"}
	g.cchans, g.hchans, g.hostOf = nil, nil, map[string]string{}
	g.exec(M{"f": "reset", "engine": "ica"})
	ord := func() string { return Pick(r, []string{"ordered", "ordered", "unordered"}) }
	pickC := func() string {
		if len(g.cchans) == 0 || r.Chance(0.03) {
			return "c9"
		}
		return Pick(r, g.cchans)
	}
	pickH := func() string {
		if len(g.hchans) == 0 || r.Chance(0.03) {
			return "h9"
		}
		return Pick(r, g.hchans)
	}
	for i := 0; i < nops; i++ {
		switch w := r.Intn(100); {
		case w < 16:
			owner := Pick(r, g.owners)
			if r.Chance(0.03) {
				owner = " "
			}
			conn := "cconn"
			if r.Chance(0.05) {
				conn = "connection-77"
			}
			g.exec(merge(M{"f": "register", "owner": owner, "conn": conn, "order": ord()}, g.version()))
		case w < 22: // somebody else's MsgChannelOpenInit on an owner's port
			in := merge(M{"f": "init", "owner": Pick(r, g.owners), "conn": "cconn", "order": ord()}, g.version())
			switch r.Intn(6) {
			case 0:
				in["port"] = "icacontroller" + g.prefix // routed to the controller module, but no "icacontroller-" prefix
			case 1:
				in["cpPort"] = "transfer"
			}
			g.exec(in)
		case w < 40:
			g.exec(M{"f": "hostTry", "cid": pickC()})
		case w < 58:
			hid := pickH()
			cid := g.hostOf[hid]
			if cid == "" || r.Chance(0.05) {
				cid = pickC()
			}
			g.exec(M{"f": "ctrlAck", "cid": cid, "hid": hid})
		case w < 72:
			g.exec(M{"f": "hostConfirm", "hid": pickH()})
		case w < 80:
			g.exec(M{"f": "timeoutClose", "cid": pickC()})
		case w < 85:
			g.exec(M{"f": "hostCloseConfirm", "hid": pickH()})
		case w < 93:
			g.exec(M{"f": "sendTx", "owner": Pick(r, g.owners), "conn": "cconn", "timeoutOk": !r.Chance(0.1), "dataOk": !r.Chance(0.1)})
		case w < 95:
			g.exec(M{"f": Pick(r, []string{"hostInit", "ctrlTry"})})
		case w < 97:
			g.exec(M{"f": "closeInit", "ctrl": r.Bool()})
		default:
			g.exec(M{"f": "setEnabled", "ctrl": r.Bool(), "on": r.Chance(0.6)})
		}
	}
	g.exec(M{"f": "setEnabled", "ctrl": true, "on": true})
	g.exec(M{"f": "setEnabled", "ctrl": false, "on": true})
}

// ---------------------------------------------------------------- C37 exec requests

var icaURLs = map[string]string{"send": "/cosmos.bank.v1beta1.MsgSend", "multisend": "/cosmos.bank.v1beta1.MsgMultiSend",
	"transfer": "/ibc.applications.transfer.v1.MsgTransfer"}

func icaExecRequest(r *Rng) M {
	n := r.Intn(5)
	if r.Chance(0.7) {
		n = 1 + r.Intn(4)
	}
	msgs := []M{}
	for i := 0; i < n; i++ {
		kind := Pick(r, []string{"send", "send", "send", "multisend", "transfer"})
		signer := Pick(r, []string{"ica", "ica", "ica", "ica", "sender", "other"})
		m := M{"kind": kind, "signers": []string{signer}, "vbOk": true, "handlerOk": !r.Chance(0.15)}
		switch kind {
		case "multisend":
			switch r.Intn(4) {
			case 0:
				m["signers"] = []string{}
			case 1:
				m["signers"] = []string{"ica", Pick(r, []string{"sender", "other", "ica"})}
			case 2:
				m["signers"] = []string{Pick(r, []string{"sender", "other"}), "ica"}
			}
			if len(m["signers"].([]string)) != 1 {
				m["handlerOk"] = false // the bank module refuses anything but exactly one input
			}
		case "transfer":
			m["vbOk"] = !r.Chance(0.5)
			m["handlerOk"] = false // no such transfer channel on the host
		}
		msgs = append(msgs, m)
	}
	var allow []string
	switch r.Intn(8) {
	case 0:
		allow = []string{}
	case 1:
		allow = []string{"*", icaURLs["send"]} // wildcard is only honoured alone
	case 2:
		allow = []string{icaURLs["send"]}
	case 3:
		allow = []string{icaURLs["send"], icaURLs["multisend"]}
	case 4:
		allow = []string{icaURLs["multisend"], icaURLs["transfer"], icaURLs["send"]}
	default:
		allow = []string{"*"}
	}
	return M{"f": "exec", "registered": !r.Chance(0.08), "chanFound": !r.Chance(0.05), "allow": allow, "msgs": msgs}
}

func icaGen(r *Rng, n int, do func(M) any) {
	g := &icaWorld{r: r, do: do}
	// lifecycle histories are expensive (real blocks and proofs): one per 40 requested cases
	for i := 0; i < 1+n/40; i++ {
		g.history(12 + r.Intn(25))
	}
	for i := 0; i < n; i++ {
		do(icaExecRequest(r))
	}
}

func hasPrefixAny(s string, ps ...string) bool {
	for _, p := range ps {
		if strings.HasPrefix(s, p) {
			return true
		}
	}
	return false
}
