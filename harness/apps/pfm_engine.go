package apps

import (
	. "verif/harness/lib"
)

type pfmExec struct{ env *pfmEnv }

func ints(v any) []int {
	var out []int
	switch r := v.(type) {
	case []int:
		return r
	case []any:
		for _, x := range r {
			switch n := x.(type) {
			case float64:
				out = append(out, int(n))
			case int:
				out = append(out, n)
			}
		}
	}
	return out
}

func pfmScenarioOf(in M) pfmScenario {
	sc := pfmScenario{origin: int(N(in, "origin")), start: int(N(in, "start")), amount: int64(N(in, "amount")),
		badReceiver: Bool(in, "badReceiver"), badChannelAt: -1, retries: int(N(in, "retries")),
		route: ints(in["route"]), timeouts: ints(in["timeouts"])}
	switch v := in["badChannelAt"].(type) {
	case int:
		sc.badChannelAt = v
	case float64:
		sc.badChannelAt = int(v)
	}
	return sc
}

func (e *pfmExec) Do(in M) any {
	switch S(in, "f") {
	case "reset":
		return M{"ok": true}
	case "route":
		res := e.env.run(pfmScenarioOf(in))
		return M{"r": res.class, "clean": res.class == "refunded" && len(res.diff) == 0, "overridesEmpty": len(res.overrides) == 0}
	}
	return M{"bad": "unknown op"}
}

func absInt(x int) int {
	if x < 0 {
		return -x
	}
	return x
}

// pfmRequest draws a scenario and derives, from ground truth the harness controls (the token's origin
// and the route on the line), what ICS-20 does on every intermediate chain.
func pfmRequest(r *Rng) M {
	start := r.Intn(4)
	origin := r.Intn(4)
	n := 2 + r.Intn(2) // chains visited after start: 2 or 3 => 1 or 2 intermediate chains
	var route []int
	cur := start
	for len(route) < n {
		var opts []int
		if cur > 0 {
			opts = append(opts, cur-1)
		}
		if cur < 3 {
			opts = append(opts, cur+1)
		}
		// mostly keep going in one direction; sometimes bounce
		nx := Pick(r, opts)
		if len(route) > 0 && r.Chance(0.75) {
			prev := start
			if len(route) > 1 {
				prev = route[len(route)-2]
			}
			for _, o := range opts {
				if o != prev {
					nx = o
				}
			}
		}
		route = append(route, nx)
		cur = nx
	}
	in := M{"f": "route", "origin": U(uint64(origin)), "start": U(uint64(start)), "route": route, "amount": U(uint64(10 + r.Intn(500))),
		"badReceiver": false, "badChannelAt": -1, "retries": U(uint64(r.Intn(3))), "timeouts": []int{}}
	failed := false
	failPos := len(route) // index in route of the chain at which the failure shows (those before it forwarded)
	switch r.Intn(6) {
	case 0, 1: // error acknowledgement at the final chain
		in["badReceiver"] = true
		failed, failPos = true, len(route)-1
	case 2: // an intermediate chain cannot forward (unknown channel): it answers with an error ack itself
		k := 1 + r.Intn(len(route)-1) // forward instruction carried to route[k-1] names a bad channel for hop k
		in["badChannelAt"] = k
		failed, failPos = true, k-1
	case 3: // a forwarded packet times out more often than PFM retries
		h := 1 + r.Intn(len(route)-1)
		to := make([]int, len(route))
		to[h] = int(N(in, "retries")) + 1
		in["timeouts"] = to
		failed, failPos = true, h
	case 4: // timeouts within the retry budget: still delivered
		h := 1 + r.Intn(len(route)-1)
		to := make([]int, len(route))
		to[h] = r.Intn(int(N(in, "retries")) + 1)
		in["timeouts"] = to
	}
	toward := func(x, y int) bool { return absInt(y-origin) < absInt(x-origin) }
	mids := []M{}
	for i := 0; i < len(route)-1 && i < failPos; i++ {
		prev := start
		if i > 0 {
			prev = route[i-1]
		}
		c, next := route[i], route[i+1]
		m := M{"recv": "mint", "fwd": "escrow"}
		if toward(prev, c) {
			m["recv"] = "unescrow"
		}
		if toward(c, next) {
			m["fwd"] = "burn"
		}
		mids = append(mids, m)
	}
	in["mids"], in["failed"] = mids, failed
	return in
}

func pfmGen(r *Rng, n int, do func(M) any) {
	do(M{"f": "reset", "engine": "pfm"})
	// always: the plain two-hop forward, its failure, the bounce and its failure
	for _, in := range []M{
		{"f": "route", "origin": "0", "start": "0", "route": []int{1, 2}, "amount": "100", "badReceiver": false, "badChannelAt": -1, "retries": "0", "timeouts": []int{},
			"mids": []M{{"recv": "mint", "fwd": "escrow"}}, "failed": false},
		{"f": "route", "origin": "0", "start": "0", "route": []int{1, 2}, "amount": "100", "badReceiver": true, "badChannelAt": -1, "retries": "0", "timeouts": []int{},
			"mids": []M{{"recv": "mint", "fwd": "escrow"}}, "failed": true},
		{"f": "route", "origin": "0", "start": "0", "route": []int{1, 0}, "amount": "100", "badReceiver": false, "badChannelAt": -1, "retries": "0", "timeouts": []int{},
			"mids": []M{{"recv": "mint", "fwd": "burn"}}, "failed": false},
		{"f": "route", "origin": "0", "start": "0", "route": []int{1, 0}, "amount": "100", "badReceiver": true, "badChannelAt": -1, "retries": "0", "timeouts": []int{},
			"mids": []M{{"recv": "mint", "fwd": "burn"}}, "failed": true},
	} {
		do(in)
	}
	for i := 0; i < n; i++ {
		do(pfmRequest(r))
	}
}

// pfmMonitor: the property itself on real chains.
func pfmMonitor(r *Rng, n int, report func(Viol)) {
	env := newPfmEnv()
	run := func(in M) {
		sc := pfmScenarioOf(in)
		var res pfmResult
		out := Safe(func() any { res = env.run(sc); return nil })
		if m, ok := out.(M); ok && m["panic"] != nil {
			report(Viol{Property: "C43-harness", What: "scenario could not run", Input: in, Observed: m})
			return
		}
		bounce := false
		for _, m := range in["mids"].([]M) {
			if m["recv"] == "mint" && m["fwd"] == "burn" {
				bounce = true
			}
		}
		obs := M{"class": res.class, "diff": res.diff, "steps": res.steps}
		if mm := env.escrowMismatch(); len(mm) > 0 {
			report(Viol{Property: "C31", What: "after a packet-forward scenario the tracked total escrow differs from what the escrow accounts hold", Input: in, Observed: M{"mismatch": mm, "class": res.class}, Requests: []M{{"f": "reset", "engine": "pfm"}, in}})
		}
		if len(res.overrides) > 0 {
			report(Viol{Property: "C43", What: "an intermediate override-receiver account kept funds", Input: in, Observed: M{"balances": res.overrides}})
		}
		switch res.class {
		case "refunded":
			if len(res.diff) > 0 {
				// includes the regression of fix f970a92 (forward back over the arrival channel)
				_ = bounce
				report(Viol{Property: "C43", What: "the sender was refunded but balances / supply / total escrow on some chain did not return to their values before the forward", Input: in, Observed: obs, Requests: []M{{"f": "reset", "engine": "pfm"}, in}})
			}
		case "delivered":
			if Bool(in, "failed") {
				report(Viol{Property: "C43", What: "final receiver was paid although a hop failed", Input: in, Observed: obs})
			}
		case "stuck", "send-failed":
			// tokens neither delivered nor refunded after everything relayable was relayed
			if res.class == "stuck" {
				report(Viol{Property: "C43", What: "neither delivered nor refunded: the sender lost the tokens and the receiver did not get them", Input: in, Observed: obs, Requests: []M{{"f": "reset", "engine": "pfm"}, in}})
			}
		}
	}
	run(M{"f": "route", "origin": "0", "start": "0", "route": []int{1, 0}, "amount": "100", "badReceiver": true, "badChannelAt": -1, "retries": "0", "timeouts": []int{},
		"mids": []M{{"recv": "mint", "fwd": "burn"}}, "failed": true})
	for i := 0; i < n; i++ {
		run(pfmRequest(r))
	}
}

func init() {
	Register(Engine{
		Name:       "pfm",
		MaxMonitor: 400,
		Props:      []string{"C43", "C31"},
		New:        func() Executor { return &pfmExec{env: newPfmEnv()} },
		Gen:        pfmGen,
		Monitor:    pfmMonitor,
	})
}
