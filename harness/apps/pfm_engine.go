//go:build verifwip

package apps

import (
	"fmt"

	. "verif/harness/lib"
)

const KeyPfmBounce = "C43-refund-of-forward-back-over-the-arrival-channel-mints-phantom-vouchers"

type pfmExec struct{ env *pfmEnv }

func pfmScenarioOf(in M) pfmScenario {
	sc := pfmScenario{origin: int(N(in, "origin")), start: int(N(in, "start")), amount: int64(N(in, "amount")),
		badReceiver: Bool(in, "badReceiver"), badChannelAt: -1, retries: int(N(in, "retries"))}
	if v, ok := in["badChannelAt"]; ok {
		sc.badChannelAt = int(v.(int))
	}
	switch r := in["route"].(type) {
	case []int:
		sc.route = r
	case []any:
		for _, x := range r {
			sc.route = append(sc.route, int(x.(float64)))
		}
	}
	switch r := in["timeouts"].(type) {
	case []int:
		sc.timeouts = r
	case []any:
		for _, x := range r {
			sc.timeouts = append(sc.timeouts, int(x.(float64)))
		}
	}
	return sc
}

func (e *pfmExec) Do(in M) any {
	switch S(in, "f") {
	case "reset":
		return M{"ok": true}
	case "route":
		res := e.env.run(pfmScenarioOf(in))
		return M{"r": res.class, "clean": len(res.diff) == 0, "overridesEmpty": len(res.overrides) == 0}
	}
	return M{"bad": "unknown op"}
}

func pfmDebug() {
	env := newPfmEnv()
	for _, sc := range []pfmScenario{
		{origin: 0, start: 0, route: []int{1, 2}, amount: 100, badChannelAt: -1},
		{origin: 0, start: 0, route: []int{1, 2}, amount: 100, badReceiver: true, badChannelAt: -1},
		{origin: 0, start: 0, route: []int{1, 0}, amount: 100, badChannelAt: -1},
		{origin: 0, start: 0, route: []int{1, 0}, amount: 100, badReceiver: true, badChannelAt: -1},
		{origin: 0, start: 0, route: []int{1, 2}, amount: 100, timeouts: []int{0, 1}, retries: 0, badChannelAt: -1},
		{origin: 0, start: 0, route: []int{1, 2}, amount: 100, timeouts: []int{0, 1}, retries: 2, badChannelAt: -1},
		{origin: 2, start: 0, route: []int{1, 2, 3}, amount: 100, badReceiver: true, badChannelAt: -1},
	} {
		res := env.run(sc)
		fmt.Printf("%+v\n  => %s diff=%v overrides=%v\n  steps=%v\n", sc, res.class, res.diff, res.overrides, res.steps)
	}
}

func init() {
	Register(Engine{
		Name:  "pfm",
		Props: []string{"C43"},
		New:   func() Executor { return &pfmExec{env: newPfmEnv()} },
		Gen:   func(r *Rng, n int, do func(M) any) { pfmDebug() },
	})
}
