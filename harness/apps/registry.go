// Package apps: correspondence harness for the application middlewares (rate limiting, callbacks,
// interchain accounts, GMP, packet-forward middleware) against lean/IbcVerif/Model/{RateLimit,
// Callbacks,Ica,Gmp,Pfm}*.lean (model executable `appsmodel <engine>`).
//
// Every engine is stateful: a request {"f":"reset",...} starts a fresh history on both sides, every
// later request is one op executed by the REAL keeper / middleware code on an ibctesting chain; the
// answer carries the result class plus the canonical observable state, so a divergence is caught
// at the first op where it happens.
package apps

import (
	"encoding/hex"
	"fmt"
	"math/big"
	"strconv"
	"testing"

	"verif/harness/lib"
)

// Executor applies requests to the implementation.
type Executor interface {
	Do(in lib.M) any
}

// Engine is one stateful correspondence engine.
//
//	New      builds the executor (chains are built lazily, once per process);
//	Gen      produces histories; it calls do(request) for every request and may look at the answer;
//	Monitor  evaluates the property itself on the implementation (sound: reports only genuine
//	         violations of the property as stated in properties.jsonl).
type Engine struct {
	Name    string
	Props   []string
	New     func() Executor
	Gen     func(r *lib.Rng, n int, do func(lib.M) any)
	Monitor func(r *lib.Rng, n int, report func(Viol))
	// MaxMonitor caps the monitor iterations (the check driver multiplies the budget by up to 50 when it
	// widens the search after a broken obligation; engines on real chains must stay bounded)
	MaxMonitor int
}

var Engines []Engine

func Register(e Engine) { Engines = append(Engines, e) }

// T is the *testing.T handed to ibctesting constructors (a failed require panics / is recovered).
func T() *testing.T { return &testing.T{} }

func S(in lib.M, k string) string {
	s, ok := in[k].(string)
	if !ok {
		panic(fmt.Sprintf("harness: field %s missing", k))
	}
	return s
}

func SD(in lib.M, k, def string) string {
	if s, ok := in[k].(string); ok {
		return s
	}
	return def
}

func N(in lib.M, k string) uint64 {
	switch v := in[k].(type) {
	case string:
		n, err := strconv.ParseUint(v, 10, 64)
		if err != nil {
			panic("harness: bad number " + v)
		}
		return n
	case float64:
		return uint64(v)
	case int:
		return uint64(v)
	case uint64:
		return v
	}
	panic(fmt.Sprintf("harness: field %s missing", k))
}

// Big reads a (possibly negative, arbitrarily large) decimal integer.
func Big(in lib.M, k string) *big.Int {
	b, ok := new(big.Int).SetString(S(in, k), 10)
	if !ok {
		panic("harness: bad integer " + S(in, k))
	}
	return b
}

func I64(in lib.M, k string) int64 {
	n, err := strconv.ParseInt(S(in, k), 10, 64)
	if err != nil {
		panic("harness: bad int64 " + S(in, k))
	}
	return n
}

func B(in lib.M, k string) []byte {
	b, err := hex.DecodeString(S(in, k))
	if err != nil {
		panic("harness: bad hex")
	}
	return b
}

func Bool(in lib.M, k string) bool { b, _ := in[k].(bool); return b }

func List(in lib.M, k string) []lib.M {
	switch v := in[k].(type) {
	case []lib.M:
		return v
	case []any:
		out := make([]lib.M, len(v))
		for i, x := range v {
			out[i], _ = x.(map[string]any)
		}
		return out
	}
	return nil
}

func Strs(in lib.M, k string) []string {
	switch v := in[k].(type) {
	case []string:
		return v
	case []any:
		out := make([]string, len(v))
		for i, x := range v {
			out[i], _ = x.(string)
		}
		return out
	}
	return nil
}

// Viol is a property-level failure found by a monitor on the implementation.  Key is a stable
// failure-class id matched against known_findings.json; Requests replays the history.
type Viol struct {
	Property string  `json:"property"`
	Key      string  `json:"key,omitempty"`
	What     string  `json:"what"`
	Input    any     `json:"input"`
	Observed any     `json:"observed"`
	Requests []lib.M `json:"requests,omitempty"`
}
