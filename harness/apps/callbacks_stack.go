package apps

// C40, full stack: ICS-20 transfers between two chains running modules/apps/callbacks/testing/simapp
// (real core IBC, real transfer module, the callbacks middleware as wired there, the simapp's own mock
// contract keeper with its five contract personalities).  Exhaustive over callback type x contract:
// the packet lifecycle must go on whatever the contract does, failing callbacks leave no contract
// state behind, a failing send callback rejects the transfer, a failing destination callback yields
// an error acknowledgement and mints nothing.

import (
	"encoding/json"
	"fmt"

	dbm "github.com/cosmos/cosmos-db"

	"cosmossdk.io/log/v2"
	sdkmath "cosmossdk.io/math"

	simtestutil "github.com/cosmos/cosmos-sdk/testutil/sims"
	sdk "github.com/cosmos/cosmos-sdk/types"

	cbsimapp "github.com/cosmos/ibc-go/v11/modules/apps/callbacks/testing/simapp"
	transfertypes "github.com/cosmos/ibc-go/v11/modules/apps/transfer/types"
	clienttypes "github.com/cosmos/ibc-go/v11/modules/core/02-client/types"
	channeltypes "github.com/cosmos/ibc-go/v11/modules/core/04-channel/types"
	ibctesting "github.com/cosmos/ibc-go/v11/testing"

	. "verif/harness/lib"
)

func cbSetupApp() (ibctesting.TestingApp, map[string]json.RawMessage) {
	app := cbsimapp.NewSimApp(log.NewNopLogger(), dbm.NewMemDB(), nil, true, simtestutil.EmptyAppOptions{})
	return app, app.DefaultGenesis()
}

type cbStack struct {
	a, b   *ibctesting.TestChain
	path   *ibctesting.Path
	report func(Viol)
}

func cbApp_(c *ibctesting.TestChain) *cbsimapp.SimApp { return c.App.(*cbsimapp.SimApp) }

func (s *cbStack) counter(c *ibctesting.TestChain) uint8 {
	return cbApp_(c).MockContractKeeper.GetStateEntryCounter(c.GetContext())
}

func (s *cbStack) v(what string, in M, obs any) {
	s.report(Viol{Property: "C40", What: "full stack: " + what, Input: in, Observed: obs})
}

var cbContracts = []string{cbsimapp.SuccessContract, cbsimapp.ErrorContract, cbsimapp.PanicContract, cbsimapp.OogPanicContract, cbsimapp.OogErrorContract}

// transfer sends amt from A to B with the given memo; returns the packet (nil if the tx failed).
func (s *cbStack) transfer(memo string, timeout clienttypes.Height) (*channeltypes.Packet, error) {
	msg := transfertypes.NewMsgTransfer(s.path.EndpointA.ChannelConfig.PortID, s.path.EndpointA.ChannelID,
		sdk.NewCoin(sdk.DefaultBondDenom, sdkmath.NewInt(100)), s.a.SenderAccount.GetAddress().String(),
		s.b.SenderAccount.GetAddress().String(), timeout, 0, memo)
	res, err := s.a.SendMsgs(msg)
	if err != nil {
		return nil, err
	}
	p, err := ibctesting.ParseV1PacketFromEvents(res.Events)
	if err != nil {
		return nil, err
	}
	if err := s.path.EndpointB.UpdateClient(); err != nil {
		return nil, err
	}
	return &p, nil
}

func (s *cbStack) run() {
	balA := func() string {
		return cbApp_(s.a).BankKeeper.GetBalance(s.a.GetContext(), s.a.SenderAccount.GetAddress(), sdk.DefaultBondDenom).Amount.String()
	}
	voucher := transfertypes.NewDenom(sdk.DefaultBondDenom, transfertypes.NewHop(s.path.EndpointB.ChannelConfig.PortID, s.path.EndpointB.ChannelID)).IBCDenom()
	balB := func() string {
		return cbApp_(s.b).BankKeeper.GetBalance(s.b.GetContext(), s.b.SenderAccount.GetAddress(), voucher).Amount.String()
	}
	hasCommit := func(p channeltypes.Packet) bool {
		return len(cbApp_(s.a).IBCKeeper.ChannelKeeper.GetPacketCommitment(s.a.GetContext(), p.SourcePort, p.SourceChannel, p.Sequence)) > 0
	}
	for _, contract := range cbContracts {
		ok := contract == cbsimapp.SuccessContract
		in := M{"contract": contract}
		// ---- send callback (runs on A inside MsgTransfer; also the later ack callback)
		memo := fmt.Sprintf(`{"src_callback": {"address": %q}}`, contract)
		c0, b0 := s.counter(s.a), balA()
		p, err := s.transfer(memo, s.b.GetTimeoutHeight())
		if ok {
			if err != nil || p == nil {
				s.v("transfer with a succeeding send callback failed", in, fmt.Sprint(err))
				continue
			}
			if s.counter(s.a) != c0+1 {
				s.v("succeeding send callback's state change missing", in, nil)
			}
			// ack path with a succeeding callback
			c1 := s.counter(s.a)
			if err := s.path.RelayPacket(*p); err != nil {
				s.v("relay failed", in, err.Error())
			}
			if hasCommit(*p) || s.counter(s.a) != c1+1 {
				s.v("acknowledgement with succeeding callback: commitment left or callback state missing", in, nil)
			}
		} else {
			if err == nil {
				s.v("transfer accepted although the send callback failed", in, nil)
			}
			if s.counter(s.a) != c0 || balA() != b0 {
				s.v("rejected send left state behind (contract counter or escrowed funds)", in, M{"counter": s.counter(s.a), "bal": balA()})
			}
		}
		if ok {
			continue
		}
		// the remaining scenarios need a packet that WAS sent: the send callback must succeed, so the
		// failing contract is addressed only by the destination key, or by a source key whose send
		// callback is made to succeed through the per-type hook of the mock keeper.
		k := cbApp_(s.a).MockContractKeeper
		origSend := k.IBCSendPacketCallbackFn
		k.IBCSendPacketCallbackFn = func(ctx sdk.Context, _, _ string, _ clienttypes.Height, _ uint64, _ []byte, _, _, _ string) error {
			return nil
		}
		// ---- acknowledgement callback failing on A
		p, err = s.transfer(memo, s.b.GetTimeoutHeight())
		if err != nil || p == nil {
			s.v("transfer failed (send callback neutralised)", in, fmt.Sprint(err))
			k.IBCSendPacketCallbackFn = origSend
			continue
		}
		c1 := s.counter(s.a)
		if err := s.path.RelayPacket(*p); err != nil {
			s.v("a failing acknowledgement callback blocked the acknowledgement", in, err.Error())
		}
		if hasCommit(*p) {
			s.v("packet commitment still present after acknowledgement with failing callback", in, nil)
		}
		if s.counter(s.a) != c1 {
			s.v("failing acknowledgement callback's state change was kept", in, nil)
		}
		// ---- timeout callback failing on A
		b1 := balA()
		th := clienttypes.NewHeight(clienttypes.ParseChainID(s.b.ChainID), uint64(s.b.GetContext().BlockHeight())+2)
		p, err = s.transfer(memo, th)
		if err != nil || p == nil {
			s.v("transfer failed (timeout scenario)", in, fmt.Sprint(err))
			k.IBCSendPacketCallbackFn = origSend
			continue
		}
		s.a.Coordinator.CommitNBlocks(s.b, 3)
		_ = s.path.EndpointA.UpdateClient()
		c2 := s.counter(s.a)
		if err := s.path.EndpointA.TimeoutPacket(*p); err != nil {
			s.v("a failing timeout callback blocked the timeout", in, err.Error())
		}
		if hasCommit(*p) || balA() != b1 {
			s.v("timeout with failing callback: commitment left or refund missing", in, M{"bal": balA(), "want": b1})
		}
		if s.counter(s.a) != c2 {
			s.v("failing timeout callback's state change was kept", in, nil)
		}
		k.IBCSendPacketCallbackFn = origSend
		// ---- destination callback failing on B
		dmemo := fmt.Sprintf(`{"dest_callback": {"address": %q}}`, contract)
		bb, cb0 := balB(), s.counter(s.b)
		p, err = s.transfer(dmemo, s.b.GetTimeoutHeight())
		if err != nil || p == nil {
			s.v("transfer failed (destination scenario)", in, fmt.Sprint(err))
			continue
		}
		res, err := s.path.EndpointB.RecvPacketWithResult(*p)
		if err != nil {
			s.v("receive with failing destination callback failed as a transaction", in, err.Error())
			continue
		}
		ackBz, err := ibctesting.ParseAckFromEvents(res.Events)
		if err != nil {
			s.v("no acknowledgement written", in, err.Error())
			continue
		}
		var ack channeltypes.Acknowledgement
		if err := transfertypes.ModuleCdc.UnmarshalJSON(ackBz, &ack); err != nil || ack.Success() {
			s.v("failing destination callback did not produce an error acknowledgement", in, string(ackBz))
		}
		if balB() != bb || s.counter(s.b) != cb0 {
			s.v("error-acknowledged receive left state behind (voucher minted or contract state)", in, M{"bal": balB(), "counter": s.counter(s.b)})
		}
		// finish the lifecycle: A gets its refund
		ba := balA()
		if err := s.path.EndpointA.AcknowledgePacket(*p, ackBz); err != nil {
			s.v("acknowledging the error ack failed", in, err.Error())
		}
		_ = ba
	}
}

func cbStackMonitor(report func(Viol)) {
	out := Safe(func() any {
		coord := ibctesting.NewCustomAppCoordinator(T(), 2, cbSetupApp)
		a, b := coord.GetChain(ibctesting.GetChainID(1)), coord.GetChain(ibctesting.GetChainID(2))
		path := ibctesting.NewTransferPath(a, b)
		path.Setup()
		s := &cbStack{a: a, b: b, path: path, report: report}
		s.run()
		return nil
	})
	if m, ok := out.(M); ok && m["panic"] != nil {
		report(Viol{Property: "C40-harness", What: "full-stack scenario could not run", Observed: m})
	}
}
