package apps

// C41, full stack: the rate-limiting middleware as wired in testing/simapp, driven through real core
// IBC (v1 channel and v2 client paths between two ibctesting chains) with real ICS-20 underneath.
// Scenarios are executed on real blocks; after every step the recorded flow of the limited path is
// compared with accepted − undone computed from what was sent.

import (
	"fmt"
	"time"

	sdkmath "cosmossdk.io/math"

	sdk "github.com/cosmos/cosmos-sdk/types"

	rltypes "github.com/cosmos/ibc-go/v11/modules/apps/rate-limiting/types"
	transfertypes "github.com/cosmos/ibc-go/v11/modules/apps/transfer/types"
	clienttypes "github.com/cosmos/ibc-go/v11/modules/core/02-client/types"
	channeltypesv2 "github.com/cosmos/ibc-go/v11/modules/core/04-channel/v2/types"
	ibctesting "github.com/cosmos/ibc-go/v11/testing"

	. "verif/harness/lib"
)

const KeyMultiPayload = "C41-v2-multi-payload-same-denom-shares-one-pending-marker"

type rlStack struct {
	a, b   *ibctesting.TestChain
	v2     *ibctesting.Path
	v1     *ibctesting.Path
	report func(Viol)
}

var rlStackPaths *rlStack

func newRlStack() *rlStack {
	if rlStackPaths != nil {
		return rlStackPaths
	}
	a, b := ChainN(3), ChainN(4)
	v2 := ibctesting.NewPath(a, b)
	v2.SetupV2()
	v1 := ibctesting.NewTransferPath(a, b)
	v1.Setup()
	rlStackPaths = &rlStack{a: a, b: b, v2: v2, v1: v1}
	return rlStackPaths
}

func (s *rlStack) outflow(denom, ch string) (string, string, bool) {
	rl, ok := SimApp(s.a).RateLimitKeeper.GetRateLimit(s.a.GetContext(), denom, ch)
	if !ok {
		return "", "", false
	}
	return rl.Flow.Outflow.String(), rl.Flow.Inflow.String(), true
}

func (s *rlStack) setLimit(denom, ch string) {
	k := SimApp(s.a).RateLimitKeeper
	ctx := s.a.GetContext()
	k.RemoveRateLimit(ctx, denom, ch)
	_ = k.RemoveAllChannelPendingSendPackets(ctx, ch, denom)
	_ = k.RemoveAllChannelPendingReceivePackets(ctx, ch, denom)
	err := k.AddRateLimit(ctx, &rltypes.MsgAddRateLimit{Denom: denom, ChannelOrClientId: ch,
		MaxPercentSend: sdkmath.NewInt(90), MaxPercentRecv: sdkmath.NewInt(90), DurationHours: 24})
	if err != nil {
		panic(err)
	}
}

func (s *rlStack) payload(amt int64) channeltypesv2.Payload {
	d := transfertypes.NewFungibleTokenPacketData(sdk.DefaultBondDenom, fmt.Sprint(amt), s.a.SenderAccount.GetAddress().String(),
		s.b.SenderAccount.GetAddress().String(), "")
	bz, err := transfertypes.MarshalPacketData(d, transfertypes.V1, transfertypes.EncodingJSON)
	if err != nil {
		panic(err)
	}
	return channeltypesv2.NewPayload(transfertypes.PortID, transfertypes.PortID, transfertypes.V1, transfertypes.EncodingJSON, bz)
}

// v2Timeout sends one v2 packet carrying the given transfer amounts (one payload each) and lets it time out.
func (s *rlStack) v2Timeout(amts []int64) {
	denom, ch := sdk.DefaultBondDenom, s.v2.EndpointA.ClientID
	s.setLimit(denom, ch)
	var pls []channeltypesv2.Payload
	var total int64
	for _, a := range amts {
		pls = append(pls, s.payload(a))
		total += a
	}
	timeout := uint64(s.a.GetContext().BlockTime().Add(30 * time.Second).Unix())
	pkt, err := s.v2.EndpointA.MsgSendPacket(timeout, pls...)
	if err != nil {
		panic(err)
	}
	out1, _, _ := s.outflow(denom, ch)
	if out1 != fmt.Sprint(total) {
		s.report(Viol{Property: "C41", What: "v2 send: recorded outflow differs from the accepted amounts",
			Input: M{"amounts": amts, "client": ch}, Observed: M{"outflow": out1}})
	}
	// let the packet expire on B, then time it out on A
	s.v2.EndpointA.Chain.Coordinator.IncrementTimeBy(time.Minute)
	s.v2.EndpointA.Chain.Coordinator.CommitBlock(s.b)
	if err := s.v2.EndpointA.UpdateClient(); err != nil {
		panic(err)
	}
	if err := s.v2.EndpointA.MsgTimeoutPacket(pkt); err != nil {
		panic(err)
	}
	out2, _, _ := s.outflow(denom, ch)
	pend, _ := SimApp(s.a).RateLimitKeeper.GetAllPendingSendPackets(s.a.GetContext())
	if out2 != "0" {
		key := ""
		if len(amts) > 1 {
			key = KeyMultiPayload
		}
		s.report(Viol{Property: "C41", Key: key,
			What:     fmt.Sprintf("IBC v2 packet with %d ICS-20 payloads of the same denom timed out: every payload was refunded by ICS-20 but the recorded outflow is %s instead of 0 (both payloads share the pending marker (client, denom, sequence); only the first timeout callback undoes its amount)", len(amts), out2),
			Input:    M{"amounts": amts, "client": ch, "sequence": U(pkt.Sequence)},
			Observed: M{"outflowAfterSend": out1, "outflowAfterTimeout": out2, "pendingSend": pend}})
	}
}

// v1RoundTrip: a v1 transfer that is timed out, one that is acknowledged with an error, one with success.
func (s *rlStack) v1Flows(r *Rng) {
	denom, ch := sdk.DefaultBondDenom, s.v1.EndpointA.ChannelID
	s.setLimit(denom, ch)
	want := int64(0)
	send := func(amt int64, receiver string, timeoutH clienttypes.Height, ts uint64) (uint64, error) {
		msg := transfertypes.NewMsgTransfer(s.v1.EndpointA.ChannelConfig.PortID, ch, sdk.NewCoin(denom, sdkmath.NewInt(amt)),
			s.a.SenderAccount.GetAddress().String(), receiver, timeoutH, ts, "")
		res, err := s.a.SendMsgs(msg)
		if err != nil {
			return 0, err
		}
		p, err := ibctesting.ParseV1PacketFromEvents(res.Events)
		if err != nil {
			return 0, err
		}
		if err := s.v1.EndpointB.UpdateClient(); err != nil {
			return 0, err
		}
		_ = p
		return p.Sequence, nil
	}
	check := func(what string) {
		out, _, ok := s.outflow(denom, ch)
		if !ok || out != fmt.Sprint(want) {
			s.report(Viol{Property: "C41", What: "v1 full stack: recorded outflow differs from accepted - undone after " + what,
				Input: M{"channel": ch}, Observed: M{"outflow": out, "want": want}})
		}
	}
	// success
	a1 := int64(1 + r.Intn(1000))
	res, err := s.a.SendMsgs(transfertypes.NewMsgTransfer("transfer", ch, sdk.NewCoin(denom, sdkmath.NewInt(a1)),
		s.a.SenderAccount.GetAddress().String(), s.b.SenderAccount.GetAddress().String(), s.b.GetTimeoutHeight(), 0, ""))
	if err != nil {
		panic(err)
	}
	p1, err := ibctesting.ParseV1PacketFromEvents(res.Events)
	if err != nil {
		panic(err)
	}
	want += a1
	check("send")
	if err := s.v1.RelayPacket(p1); err != nil {
		panic(err)
	}
	check("success ack")
	// error ack: receiver is not a valid address on B
	a2 := int64(1 + r.Intn(1000))
	res, err = s.a.SendMsgs(transfertypes.NewMsgTransfer("transfer", ch, sdk.NewCoin(denom, sdkmath.NewInt(a2)),
		s.a.SenderAccount.GetAddress().String(), "not-an-address", s.b.GetTimeoutHeight(), 0, ""))
	if err != nil {
		panic(err)
	}
	p2, err := ibctesting.ParseV1PacketFromEvents(res.Events)
	if err != nil {
		panic(err)
	}
	want += a2
	check("second send")
	if err := s.v1.RelayPacket(p2); err != nil {
		panic(err)
	}
	want -= a2
	check("error ack")
	// timeout
	a3 := int64(1 + r.Intn(1000))
	th := clienttypes.NewHeight(clienttypes.ParseChainID(s.b.ChainID), uint64(s.b.GetContext().BlockHeight())+2)
	res, err = s.a.SendMsgs(transfertypes.NewMsgTransfer("transfer", ch, sdk.NewCoin(denom, sdkmath.NewInt(a3)),
		s.a.SenderAccount.GetAddress().String(), s.b.SenderAccount.GetAddress().String(), th, 0, ""))
	if err != nil {
		panic(err)
	}
	p3, err := ibctesting.ParseV1PacketFromEvents(res.Events)
	if err != nil {
		panic(err)
	}
	want += a3
	check("third send")
	s.a.Coordinator.CommitNBlocks(s.b, 3)
	if err := s.v1.EndpointA.UpdateClient(); err != nil {
		panic(err)
	}
	if err := s.v1.EndpointA.TimeoutPacket(p3); err != nil {
		panic(err)
	}
	want -= a3
	check("timeout")
	_ = send
}

func rlStackMonitor(r *Rng, report func(Viol)) {
	out := Safe(func() any {
		s := newRlStack()
		s.report = report
		s.v1Flows(r)
		s.v2Timeout([]int64{int64(10 + r.Intn(500))})
		s.v2Timeout([]int64{int64(10 + r.Intn(500)), int64(10 + r.Intn(500))})
		return nil
	})
	if m, ok := out.(M); ok && m["panic"] != nil {
		report(Viol{Property: "C41-harness", What: "full-stack scenario could not run", Observed: m})
	}
}
