package apps

// Engine "callbacks" (C40): the real callbacks middlewares (modules/apps/callbacks: ibc_middleware.go,
// v2/ibc_middleware.go, internal.ProcessCallback, types.GetCallbackData) with everything around them
// scripted: the contract keeper (consumes a given amount of gas on the callback meter after a
// gas-free state write, then returns nil / returns an error / panics, optionally swallowing its own
// out-of-gas panic), the underlying application, the ICS4 wrapper and the caller's gas meter.
// Packet data is real ICS-20 packet data whose memo carries the callback request, so
// GetCallbackData / computeExecAndCommitGasLimit run on real input.

import (
	"encoding/json"
	"errors"
	"fmt"
	"strings"

	storetypes "github.com/cosmos/cosmos-sdk/store/v2/types"
	sdk "github.com/cosmos/cosmos-sdk/types"

	ibccallbacks "github.com/cosmos/ibc-go/v11/modules/apps/callbacks"
	cbtypes "github.com/cosmos/ibc-go/v11/modules/apps/callbacks/types"
	cbv2 "github.com/cosmos/ibc-go/v11/modules/apps/callbacks/v2"
	transfertypes "github.com/cosmos/ibc-go/v11/modules/apps/transfer/types"
	clienttypes "github.com/cosmos/ibc-go/v11/modules/core/02-client/types"
	channeltypes "github.com/cosmos/ibc-go/v11/modules/core/04-channel/types"
	channeltypesv2 "github.com/cosmos/ibc-go/v11/modules/core/04-channel/v2/types"
	porttypes "github.com/cosmos/ibc-go/v11/modules/core/05-port/types"
	ibcexported "github.com/cosmos/ibc-go/v11/modules/core/exported"

	. "verif/harness/lib"
)

var cbCounterKey = []byte("verif/callback-counter")

// cbContract is the scripted ContractKeeper.
type cbContract struct {
	key   storetypes.StoreKey
	gas   uint64
	out   string // ok | err | panic
	catch string // none | ok | err
	calls int
}

var errContract = errors.New("scripted contract error")

func (k *cbContract) counter(ctx sdk.Context) int {
	bz := ctx.WithGasMeter(storetypes.NewInfiniteGasMeter()).KVStore(k.key).Get(cbCounterKey)
	if len(bz) == 0 {
		return 0
	}
	return int(bz[0])
}

func (k *cbContract) run(ctx sdk.Context) (err error) {
	k.calls++
	// the contract's own state change, written through a gas-free view of the callback's context
	ctx.WithGasMeter(storetypes.NewInfiniteGasMeter()).KVStore(k.key).Set(cbCounterKey, []byte{byte(k.counter(ctx) + 1)})
	if k.catch != "none" {
		defer func() {
			if r := recover(); r != nil {
				if _, ok := r.(storetypes.ErrorOutOfGas); !ok {
					panic(r)
				}
				if k.catch == "ok" {
					err = nil
				} else {
					err = errContract
				}
			}
		}()
	}
	ctx.GasMeter().ConsumeGas(k.gas, "scripted contract")
	switch k.out {
	case "ok":
		return nil
	case "err":
		return errContract
	}
	panic("scripted contract panic")
}

func (k *cbContract) IBCSendPacketCallback(ctx sdk.Context, _, _ string, _ clienttypes.Height, _ uint64, _ []byte, _, _, _ string) error {
	return k.run(ctx)
}
func (k *cbContract) IBCOnAcknowledgementPacketCallback(ctx sdk.Context, _ channeltypes.Packet, _ []byte, _ sdk.AccAddress, _, _, _ string) error {
	return k.run(ctx)
}
func (k *cbContract) IBCOnTimeoutPacketCallback(ctx sdk.Context, _ channeltypes.Packet, _ sdk.AccAddress, _, _, _ string) error {
	return k.run(ctx)
}
func (k *cbContract) IBCReceivePacketCallback(ctx sdk.Context, _ ibcexported.PacketI, _ ibcexported.Acknowledgement, _, _ string) error {
	return k.run(ctx)
}

// cbApp is the application under the v1 middleware.
type cbApp struct {
	porttypes.IBCModule
	app string // ok | err | success | error | async
}

var errApp = errors.New("scripted application error")

func (a *cbApp) OnRecvPacket(_ sdk.Context, _ string, _ channeltypes.Packet, _ sdk.AccAddress) ibcexported.Acknowledgement {
	switch a.app {
	case "success":
		return channeltypes.NewResultAcknowledgement([]byte{1})
	case "error":
		return channeltypes.NewErrorAcknowledgement(errApp)
	}
	return nil
}
func (a *cbApp) OnAcknowledgementPacket(_ sdk.Context, _ string, _ channeltypes.Packet, _ []byte, _ sdk.AccAddress) error {
	if a.app == "err" {
		return errApp
	}
	return nil
}
func (a *cbApp) OnTimeoutPacket(_ sdk.Context, _ string, _ channeltypes.Packet, _ sdk.AccAddress) error {
	if a.app == "err" {
		return errApp
	}
	return nil
}
func (a *cbApp) UnmarshalPacketData(_ sdk.Context, _, _ string, bz []byte) (any, string, error) {
	d, err := transfertypes.UnmarshalPacketData(bz, transfertypes.V1, "")
	return d, transfertypes.V1, err
}

// ICS4 wrapper above the v1 middleware.
func (a *cbApp) SendPacket(_ sdk.Context, _, _ string, _ clienttypes.Height, _ uint64, _ []byte) (uint64, error) {
	if a.app == "err" {
		return 0, errApp
	}
	return 7, nil
}
func (a *cbApp) WriteAcknowledgement(_ sdk.Context, _ ibcexported.PacketI, _ ibcexported.Acknowledgement) error {
	if a.app == "err" {
		return errApp
	}
	return nil
}
func (a *cbApp) GetAppVersion(_ sdk.Context, _, _ string) (string, bool) {
	return transfertypes.V1, true
}

// cbAppV2 is the application (and write-ack wrapper / channel keeper) around the v2 middleware.
type cbAppV2 struct {
	app string
	pkt channeltypesv2.Packet
}

func (a *cbAppV2) OnSendPacket(_ sdk.Context, _, _ string, _ uint64, _ channeltypesv2.Payload, _ sdk.AccAddress) error {
	if a.app == "err" {
		return errApp
	}
	return nil
}
func (a *cbAppV2) OnRecvPacket(_ sdk.Context, _, _ string, _ uint64, _ channeltypesv2.Payload, _ sdk.AccAddress) channeltypesv2.RecvPacketResult {
	switch a.app {
	case "success":
		return channeltypesv2.RecvPacketResult{Status: channeltypesv2.PacketStatus_Success, Acknowledgement: []byte{1}}
	case "error":
		return channeltypesv2.RecvPacketResult{Status: channeltypesv2.PacketStatus_Failure}
	}
	return channeltypesv2.RecvPacketResult{Status: channeltypesv2.PacketStatus_Async}
}
func (a *cbAppV2) OnTimeoutPacket(_ sdk.Context, _, _ string, _ uint64, _ channeltypesv2.Payload, _ sdk.AccAddress) error {
	if a.app == "err" {
		return errApp
	}
	return nil
}
func (a *cbAppV2) OnAcknowledgementPacket(_ sdk.Context, _, _ string, _ uint64, _ []byte, _ channeltypesv2.Payload, _ sdk.AccAddress) error {
	if a.app == "err" {
		return errApp
	}
	return nil
}
func (a *cbAppV2) UnmarshalPacketData(p channeltypesv2.Payload) (any, error) {
	return transfertypes.UnmarshalPacketData(p.Value, p.Version, p.Encoding)
}
func (a *cbAppV2) WriteAcknowledgement(_ sdk.Context, _ string, _ uint64, _ channeltypesv2.Acknowledgement) error {
	if a.app == "err" {
		return errApp
	}
	return nil
}
func (a *cbAppV2) GetAsyncPacket(_ sdk.Context, _ string, _ uint64) (channeltypesv2.Packet, bool) {
	return a.pkt, true
}

type cbExec struct {
	base sdk.Context
	key  storetypes.StoreKey
}

func newCbExec() *cbExec {
	chain := ChainN(1)
	return &cbExec{base: chain.GetContext(), key: SimApp(chain).GetKey(transfertypes.StoreKey)}
}

// memo builds the ICS-20 memo carrying the callback request described by the request.
func cbMemo(in M, key string) string {
	spec := SD(in, "memo", "")
	switch spec {
	case "empty":
		return ""
	case "notjson":
		return "hello"
	case "otherkey":
		return `{"something_else": {"address": "contract"}}`
	case "notobject":
		return fmt.Sprintf(`{%q: "contract"}`, key)
	}
	obj := map[string]any{}
	switch SD(in, "addr", "ok") {
	case "ok":
		obj["address"] = "contract"
	case "blank":
		obj["address"] = "   "
	case "number":
		obj["address"] = 5
	case "absent":
	}
	g, _ := in["gasSpec"].(map[string]any)
	if g == nil {
		if gm, ok := in["gasSpec"].(M); ok {
			g = gm
		}
	}
	switch fmt.Sprint(g["kind"]) {
	case "string":
		obj["gas_limit"] = fmt.Sprint(g["s"])
	case "number":
		obj["gas_limit"] = 12345
	}
	switch SD(in, "calldata", "absent") {
	case "hex":
		obj["calldata"] = "a1b2"
	case "badhex":
		obj["calldata"] = "zz"
	case "number":
		obj["calldata"] = 7
	case "empty":
		obj["calldata"] = ""
	}
	bz, err := json.Marshal(map[string]any{key: obj})
	if err != nil {
		panic(err)
	}
	return string(bz)
}

func cbPacketData(memo string) []byte {
	d := transfertypes.NewFungibleTokenPacketData("uatom", "100", "cosmos1sender", "cosmos1receiver", memo)
	return d.GetBytes()
}

func pcClassOfErr(err error) string {
	switch {
	case err == nil:
		return "ok"
	case errors.Is(err, cbtypes.ErrCallbackOutOfGas):
		return "err:oog"
	case errors.Is(err, cbtypes.ErrCallbackPanic):
		return "err:panic"
	}
	return "err:callback"
}

// pcClassOfEvent reads the callback result off the emitted callback event.
func pcClassOfEvent(ctx sdk.Context) (cls string, exec, commit string, found bool) {
	for _, ev := range ctx.EventManager().Events() {
		if ev.Type != cbtypes.EventTypeSourceCallback && ev.Type != cbtypes.EventTypeDestinationCallback {
			continue
		}
		found = true
		cls = "ok"
		for _, a := range ev.Attributes {
			switch a.Key {
			case cbtypes.AttributeKeyCallbackError:
				switch {
				case strings.Contains(a.Value, cbtypes.ErrCallbackOutOfGas.Error()):
					cls = "err:oog"
				case strings.Contains(a.Value, cbtypes.ErrCallbackPanic.Error()):
					cls = "err:panic"
				default:
					cls = "err:callback"
				}
			case cbtypes.AttributeKeyCallbackGasLimit:
				exec = a.Value
			case cbtypes.AttributeKeyCallbackCommitGasLimit:
				commit = a.Value
			}
		}
	}
	return
}

func (e *cbExec) Do(in M) any {
	switch S(in, "f") {
	case "reset":
		return M{"ok": true}
	case "gaslimits":
		memo := cbMemo(in, cbtypes.SourceCallbackKey)
		d, err := transfertypes.UnmarshalPacketData(cbPacketData(memo), transfertypes.V1, "")
		if err != nil {
			panic(err)
		}
		cd, isCb, err := cbtypes.GetCallbackData(d, transfertypes.V1, "transfer", N(in, "remaining"), N(in, "max"), cbtypes.SourceCallbackKey)
		if err != nil || !isCb {
			return Err("invalid-callback-data")
		}
		return M{"exec": U(cd.ExecutionGasLimit), "commit": U(cd.CommitGasLimit), "retry": cd.AllowRetry()}
	case "cb":
		return e.cb(in)
	}
	return M{"bad": "unknown function"}
}

func (e *cbExec) cb(in M) any {
	entry, v2 := S(in, "entry"), Bool(in, "v2")
	k := &cbContract{key: e.key, gas: N(in, "gas"), out: S(in, "out"), catch: S(in, "catch")}
	ctx, _ := e.base.CacheContext()
	var meter storetypes.GasMeter
	var pre uint64
	if Bool(in, "inf") {
		meter = storetypes.NewInfiniteGasMeter()
	} else {
		pre = N(in, "pre")
		if N(in, "remaining")+pre < pre {
			pre = 0
		}
		meter = storetypes.NewGasMeter(N(in, "remaining") + pre)
		meter.ConsumeGas(pre, "before the handler")
	}
	ctx = ctx.WithGasMeter(meter).WithEventManager(sdk.NewEventManager())
	key := cbtypes.SourceCallbackKey
	if entry == "recv" || entry == "writeAck" {
		key = cbtypes.DestinationCallbackKey
	}
	data := cbPacketData(cbMemo(in, key))
	if SD(in, "memo", "") == "baddata" {
		data = []byte("not ics20 data")
	}
	before := k.counter(ctx)
	maxGas := N(in, "max")

	var r string
	var retErr error
	panicked := Safe(func() any {
		if v2 {
			app := &cbAppV2{app: S(in, "app")}
			mw := cbv2.NewIBCMiddleware(app, app, k, app, maxGas)
			pl := channeltypesv2.NewPayload("transfer", "transfer", transfertypes.V1, transfertypes.EncodingJSON, data)
			switch entry {
			case "send":
				retErr = mw.OnSendPacket(ctx, "07-tendermint-0", "07-tendermint-1", 1, pl, nil)
			case "ack":
				retErr = mw.OnAcknowledgementPacket(ctx, "07-tendermint-0", "07-tendermint-1", 1, []byte{1}, pl, nil)
			case "timeout":
				retErr = mw.OnTimeoutPacket(ctx, "07-tendermint-0", "07-tendermint-1", 1, pl, nil)
			case "recv":
				res := mw.OnRecvPacket(ctx, "07-tendermint-1", "07-tendermint-0", 1, pl, nil)
				switch res.Status {
				case channeltypesv2.PacketStatus_Success:
					r = "ack:success"
				case channeltypesv2.PacketStatus_Failure:
					r = "ack:error"
				case channeltypesv2.PacketStatus_Async:
					r = "ack:async"
				default:
					r = "ack:none"
				}
			case "writeAck":
				app.pkt = channeltypesv2.NewPacket(1, "07-tendermint-1", "07-tendermint-0", 1, pl)
				retErr = mw.WriteAcknowledgement(ctx, "07-tendermint-0", 1, channeltypesv2.NewAcknowledgement([]byte{1}))
			}
		} else {
			app := &cbApp{app: S(in, "app")}
			mw := ibccallbacks.NewIBCMiddleware(k, maxGas)
			mw.SetUnderlyingApplication(app)
			mw.SetICS4Wrapper(app)
			pkt := channeltypes.NewPacket(data, 1, "transfer", "channel-0", "transfer", "channel-1", clienttypes.NewHeight(1, 100), 0)
			switch entry {
			case "send":
				_, retErr = mw.SendPacket(ctx, "transfer", "channel-0", clienttypes.NewHeight(1, 100), 0, data)
			case "ack":
				retErr = mw.OnAcknowledgementPacket(ctx, transfertypes.V1, pkt, []byte{1}, nil)
			case "timeout":
				retErr = mw.OnTimeoutPacket(ctx, transfertypes.V1, pkt, nil)
			case "recv":
				ack := mw.OnRecvPacket(ctx, transfertypes.V1, pkt, nil)
				switch {
				case ack == nil:
					r = "ack:async"
				case ack.Success():
					r = "ack:success"
				default:
					r = "ack:error"
				}
			case "writeAck":
				retErr = mw.WriteAcknowledgement(ctx, pkt, channeltypes.NewResultAcknowledgement([]byte{1}))
			}
		}
		return nil
	})
	out := M{"called": k.calls > 0, "wrote": k.counter(ctx) > before, "charged": U(meter.GasConsumed() - pre)}
	var pc any
	if m, ok := panicked.(M); ok && m["panic"] != nil {
		r = "aborted"
		if strings.Contains(fmt.Sprint(m["panic"]), "scripted contract panic") {
			pc = "panic"
		} else {
			pc = "panic:oog" // storetypes.ErrorOutOfGas (its Descriptor names the callback)
		}
	} else {
		if r == "" {
			if retErr != nil {
				r = "err"
			} else {
				r = "ok"
			}
		}
		if k.calls > 0 {
			cls, ex, cm, found := pcClassOfEvent(ctx)
			switch {
			case found:
				pc = cls
				out["exec"], out["commit"] = ex, cm
			case entry == "send":
				pc = pcClassOfErr(retErr)
			default:
				pc = "no-event"
			}
		}
	}
	out["r"], out["pc"] = r, pc
	return out
}

// ---------------------------------------------------------------- generator

func cbGasSpec(user uint64, r *Rng) (M, string) {
	switch {
	case user == 0 && r.Chance(0.4):
		return M{"kind": "absent"}, "0"
	case user == 0 && r.Chance(0.5):
		return M{"kind": "string", "s": ""}, "0"
	case r.Chance(0.1):
		return M{"kind": "string", "s": "00" + U(user)}, U(user)
	}
	return M{"kind": "string", "s": U(user)}, U(user)
}

// cbRequest assembles one request; entry/app/out/catch given, gas figures relative to the limits.
func cbRequest(r *Rng, entry string, v2 bool, app, out, catch string, user, remaining, max, gas uint64, inf bool) M {
	gs, u := cbGasSpec(user, r)
	in := M{"f": "cb", "entry": entry, "v2": v2, "app": app, "cb": "valid", "user": u, "gasSpec": gs, "remaining": U(remaining), "max": U(max),
		"gas": U(gas), "out": out, "catch": catch, "pre": U(uint64(r.Intn(1000)))}
	if inf {
		in["inf"] = true
		in["remaining"] = U(^uint64(0))
	}
	return in
}

func cbLimits(user, remaining, max uint64) (uint64, uint64) {
	commit := user
	if user == 0 || user > max {
		commit = max
	}
	exec := commit
	if remaining < exec {
		exec = remaining
	}
	return exec, commit
}

var cbEntries = []string{"send", "ack", "timeout", "recv", "writeAck"}

func cbOkApp(entry string) string {
	if entry == "recv" {
		return "success"
	}
	return "ok"
}

func cbGen(r *Rng, n int, do func(M) any) {
	do(M{"f": "reset", "engine": "callbacks"})
	// 1. the finite outcome matrix, exhaustively: entry point x version x contract behaviour
	//    {ok, err, panic, out-of-gas (propagated / swallowed returning nil / swallowed returning err)} x
	//    retry condition {exec < commit, exec = commit} x gas position {below, at, just past the limit}
	for _, entry := range cbEntries {
		for _, v2 := range []bool{false, true} {
			for _, retry := range []bool{false, true} {
				user, max := uint64(50000), uint64(1000000)
				remaining := uint64(800000)
				if retry {
					remaining = 30000
				}
				exec, _ := cbLimits(user, remaining, max)
				for _, out := range []string{"ok", "err", "panic"} {
					for _, catch := range []string{"none", "ok", "err"} {
						for _, gas := range []uint64{0, exec / 2, exec, exec + 1, exec * 3} {
							do(cbRequest(r, entry, v2, cbOkApp(entry), out, catch, user, remaining, max, gas, false))
						}
					}
				}
			}
		}
	}
	// 2. application results that bypass the callback, and packets without / with malformed callback data
	for _, entry := range cbEntries {
		for _, v2 := range []bool{false, true} {
			apps := []string{"ok", "err"}
			if entry == "recv" {
				apps = []string{"success", "error", "async"}
			}
			for _, app := range apps {
				in := cbRequest(r, entry, v2, app, "ok", "none", 1000, 500000, 1000000, 10, false)
				do(in)
				for _, memo := range []string{"empty", "notjson", "otherkey", "notobject", "baddata"} {
					x := cp(in)
					x["memo"], x["cb"] = memo, "none"
					if memo == "baddata" && v2 && entry == "writeAck" {
						x["cb"] = "invalid" // v2 WriteAcknowledgement returns the unmarshal error
					}
					do(x)
				}
				for _, bad := range []M{{"addr": "blank"}, {"addr": "number"}, {"addr": "absent"}, {"gasSpec": M{"kind": "number"}},
					{"gasSpec": M{"kind": "string", "s": "abc"}}, {"gasSpec": M{"kind": "string", "s": "18446744073709551616"}},
					{"gasSpec": M{"kind": "string", "s": "-1"}}, {"calldata": "badhex"}, {"calldata": "number"}} {
					x := cp(in)
					for k, v := range bad {
						x[k] = v
					}
					x["cb"] = "invalid"
					do(x)
				}
				for _, good := range []string{"hex", "empty"} {
					x := cp(in)
					x["calldata"] = good
					do(x)
				}
			}
		}
	}
	// 3. gas arithmetic: boundary triples through the public GetCallbackData
	for i := 0; i < 40+n; i++ {
		max := r.Num64()
		if max == 0 {
			max = 1
		}
		user := r.Num64()
		switch r.Intn(6) {
		case 0:
			user = max
		case 1:
			user = max + 1
		case 2:
			user = max - 1
		case 3:
			user = 0
		}
		remaining := r.Num64()
		switch r.Intn(6) {
		case 0:
			remaining = user
		case 1:
			remaining = user - 1
		case 2:
			remaining = max
		case 3:
			remaining = max + 1
		}
		gs, _ := cbGasSpec(user, r)
		if r.Chance(0.05) {
			gs = M{"kind": "string", "s": Pick(r, []string{"abc", "1e5", "18446744073709551616", "+5", " 7", "0x10", "１２"})}
		}
		if r.Chance(0.03) {
			gs = M{"kind": "number"}
		}
		do(M{"f": "gaslimits", "gasSpec": gs, "gas": gs, "remaining": U(remaining), "max": U(max)})
	}
	// 4. random walks over the whole input space
	for i := 0; i < n; i++ {
		entry := Pick(r, cbEntries)
		max := uint64(1 + r.Intn(2000000))
		if r.Chance(0.1) {
			max = r.Num64()
			if max == 0 {
				max = 1
			}
		}
		user := uint64(r.Intn(int(max%3000000) + 2))
		switch r.Intn(5) {
		case 0:
			user = 0
		case 1:
			user = max + uint64(r.Intn(3))
		}
		inf := r.Chance(0.1)
		remaining := uint64(r.Intn(3000000))
		if r.Chance(0.2) {
			remaining = r.Num64() >> 1
		}
		exec, _ := cbLimits(user, remaining, max)
		if inf {
			exec, _ = cbLimits(user, ^uint64(0), max)
		}
		var gas uint64
		switch r.Intn(6) {
		case 0:
			gas = exec
		case 1:
			gas = exec + 1
		case 2:
			gas = exec - 1
		case 3:
			gas = exec / 2
		case 4:
			gas = exec + uint64(r.Intn(1000000))
		default:
			gas = uint64(r.Intn(100))
		}
		if gas > 1<<62 {
			gas = 1 << 62
		}
		app := cbOkApp(entry)
		if r.Chance(0.1) {
			if entry == "recv" {
				app = Pick(r, []string{"error", "async"})
			} else {
				app = "err"
			}
		}
		do(cbRequest(r, entry, r.Bool(), app, Pick(r, []string{"ok", "ok", "err", "panic"}), Pick(r, []string{"none", "none", "none", "ok", "err"}),
			user, remaining, max, gas, inf))
	}
}

func init() {
	Register(Engine{
		Name:       "callbacks",
		MaxMonitor: 400000,
		Props:      []string{"C40"},
		New:        func() Executor { return newCbExec() },
		Gen:        cbGen,
		Monitor:    cbMonitor,
	})
}
